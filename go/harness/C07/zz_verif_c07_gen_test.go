//go:build verif

package lib

// Extractor for C07 (structural tie of the object store in CJ/Model/IngestStore.lean): which statements of the package write
// fields of a stored *DecoyRegistration.  The model says: the "already tracked" branch of RegisteredDecoys.track only bumps
// the counter; the duplicate branch of ingestRegistration writes nothing and returns; the fields admission looked at are
// written where the registration is built (NewRegistration / NewRegistrationC2SWrapper) and nowhere else, except reg.Covert,
// which ingestRegistration replaces by the covert policy's answer.  This file reads that off the source with go/ast and
// writes it as CJ/Gen/IngestWrites.lean; the theorems over the table are in CJ/Props/C07Seq.lean (`decide`).
//
// No type information is used: a write is listed when its target is a selector `x.F` with F the name of a field of
// DecoyRegistration (a field of the same name in another struct is listed as well — the table only grows by that).

import (
	"bytes"
	"fmt"
	"go/ast"
	"go/parser"
	"go/printer"
	"go/token"
	"os"
	"path/filepath"
	"sort"
	"strings"
	"testing"
)

func c07gText(fset *token.FileSet, n ast.Node) string {
	var b bytes.Buffer
	if err := printer.Fprint(&b, fset, n); err != nil {
		return "?" + err.Error()
	}
	return strings.Join(strings.Fields(b.String()), " ")
}

func c07gLeanStr(s string) string {
	s = strings.ReplaceAll(s, `\`, `\\`)
	s = strings.ReplaceAll(s, `"`, `\"`)
	return `"` + s + `"`
}

func c07gLeanList(l []string) string {
	q := make([]string, len(l))
	for i, s := range l {
		q[i] = c07gLeanStr(s)
	}
	return "[" + strings.Join(q, ", ") + "]"
}

func c07gFuncName(fd *ast.FuncDecl) string {
	if fd.Recv != nil && len(fd.Recv.List) == 1 {
		t := fd.Recv.List[0].Type
		if s, ok := t.(*ast.StarExpr); ok {
			t = s.X
		}
		if id, ok := t.(*ast.Ident); ok {
			return id.Name + "." + fd.Name.Name
		}
	}
	return fd.Name.Name
}

// the `if <init>; <cond> { … }` statement of body whose condition prints as cond
func c07gFindIf(fset *token.FileSet, body *ast.BlockStmt, cond string) *ast.IfStmt {
	var found *ast.IfStmt
	ast.Inspect(body, func(n ast.Node) bool {
		if is, ok := n.(*ast.IfStmt); ok && found == nil {
			c := c07gText(fset, is.Cond)
			if is.Init != nil {
				c = c07gText(fset, is.Init) + "; " + c
			}
			if c == cond {
				found = is
				return false
			}
		}
		return true
	})
	return found
}

func TestVerifGenC07(t *testing.T) {
	fset := token.NewFileSet()
	pkgs, err := parser.ParseDir(fset, ".", func(fi os.FileInfo) bool { return !strings.HasSuffix(fi.Name(), "_test.go") }, 0)
	if err != nil {
		t.Fatal(err)
	}
	pkg, ok := pkgs["lib"]
	if !ok {
		t.Fatal("package lib not found")
	}
	var files []string
	for name := range pkg.Files {
		files = append(files, name)
	}
	sort.Strings(files)

	// ---- the fields of DecoyRegistration
	var regFields []string
	funcs := map[string]*ast.FuncDecl{}
	for _, name := range files {
		for _, d := range pkg.Files[name].Decls {
			switch x := d.(type) {
			case *ast.GenDecl:
				for _, sp := range x.Specs {
					ts, ok := sp.(*ast.TypeSpec)
					if !ok || ts.Name.Name != "DecoyRegistration" {
						continue
					}
					st, ok := ts.Type.(*ast.StructType)
					if !ok {
						t.Fatal("DecoyRegistration is not a struct")
					}
					for _, f := range st.Fields.List {
						for _, n := range f.Names {
							regFields = append(regFields, n.Name)
						}
					}
				}
			case *ast.FuncDecl:
				if x.Body != nil {
					funcs[c07gFuncName(x)] = x
				}
			}
		}
	}
	if len(regFields) == 0 {
		t.Fatal("struct DecoyRegistration not found")
	}
	isRegField := map[string]bool{}
	for _, f := range regFields {
		isRegField[f] = true
	}

	// ---- every write whose target is a selector x.F, F a field name of DecoyRegistration
	type write struct{ fn, recv, field, stmt string }
	var writes, addrs []write
	var fnames []string
	for n := range funcs {
		fnames = append(fnames, n)
	}
	sort.Strings(fnames)
	target := func(fn string, e ast.Expr, stmt ast.Node) {
		for {
			switch x := e.(type) {
			case *ast.ParenExpr:
				e = x.X
				continue
			case *ast.StarExpr:
				// `*x = …` replaces the whole object
				writes = append(writes, write{fn, c07gText(fset, x.X), "*", c07gText(fset, stmt)})
				return
			}
			break
		}
		if s, ok := e.(*ast.SelectorExpr); ok && isRegField[s.Sel.Name] {
			writes = append(writes, write{fn, c07gText(fset, s.X), s.Sel.Name, c07gText(fset, stmt)})
		}
	}
	for _, fn := range fnames {
		ast.Inspect(funcs[fn].Body, func(n ast.Node) bool {
			switch x := n.(type) {
			case *ast.AssignStmt:
				for _, l := range x.Lhs {
					target(fn, l, x)
				}
			case *ast.IncDecStmt:
				target(fn, x.X, x)
			case *ast.UnaryExpr:
				// &x.F: the field escapes and may be written through the pointer
				if x.Op == token.AND {
					if s, ok := x.X.(*ast.SelectorExpr); ok && isRegField[s.Sel.Name] {
						addrs = append(addrs, write{fn, c07gText(fset, s.X), s.Sel.Name, c07gText(fset, x)})
					}
				}
			}
			return true
		})
	}

	// ---- the "already tracked" branch of RegisteredDecoys.track
	var trackDup []string
	track, ok := funcs["RegisteredDecoys.track"]
	if !ok {
		t.Fatal("RegisteredDecoys.track not found")
	}
	if is := c07gFindIf(fset, track.Body, "reg := r.registrationExists(d); reg != nil"); is != nil {
		for _, s := range is.Body.List {
			trackDup = append(trackDup, c07gText(fset, s))
		}
	} else {
		trackDup = []string{"branch `if reg := r.registrationExists(d); reg != nil` not found"}
	}

	// ---- ingestRegistration: the duplicate branch, and where reg.Covert is written
	ingest, ok := funcs["RegistrationManager.ingestRegistration"]
	if !ok {
		t.Fatal("RegistrationManager.ingestRegistration not found")
	}
	var dupAssigns, dupCalls []string
	dupReturns := false
	dupIndex, covertDefIndex, covertGuardIndex, covertWriteIndex := -1, -1, -1, -1
	var covertWrites []string
	for i, s := range ingest.Body.List {
		txt := c07gText(fset, s)
		if is, ok := s.(*ast.IfStmt); ok && is.Init == nil && c07gText(fset, is.Cond) == "rm.RegistrationExists(reg)" && dupIndex < 0 {
			dupIndex = i
			ast.Inspect(is.Body, func(n ast.Node) bool {
				switch x := n.(type) {
				case *ast.AssignStmt:
					for _, l := range x.Lhs {
						if _, isIdent := l.(*ast.Ident); !isIdent {
							dupAssigns = append(dupAssigns, c07gText(fset, x))
						}
					}
				case *ast.IncDecStmt:
					dupAssigns = append(dupAssigns, c07gText(fset, x))
				case *ast.CallExpr:
					dupCalls = append(dupCalls, c07gText(fset, x.Fun))
				}
				return true
			})
			if n := len(is.Body.List); n > 0 {
				_, dupReturns = is.Body.List[n-1].(*ast.ReturnStmt)
			}
		}
		if txt == "covert, lookup := rm.ParseOrResolveBlocklisted(reg.Covert)" && covertDefIndex < 0 {
			covertDefIndex = i
		}
		if is, ok := s.(*ast.IfStmt); ok && is.Init == nil && c07gText(fset, is.Cond) == `covert == ""` && covertGuardIndex < 0 {
			if n := len(is.Body.List); n > 0 {
				if _, ret := is.Body.List[n-1].(*ast.ReturnStmt); ret {
					covertGuardIndex = i
				}
			}
		}
		if as, ok := s.(*ast.AssignStmt); ok {
			for _, l := range as.Lhs {
				if sel, ok := l.(*ast.SelectorExpr); ok && sel.Sel.Name == "Covert" {
					covertWrites = append(covertWrites, txt)
					if covertWriteIndex < 0 {
						covertWriteIndex = i
					}
				}
			}
		}
	}
	// a second definition of `covert` between the policy call and the write would break the chain
	covertRedefined := false
	if covertDefIndex >= 0 && covertWriteIndex > covertDefIndex {
		for _, s := range ingest.Body.List[covertDefIndex+1 : covertWriteIndex] {
			ast.Inspect(s, func(n ast.Node) bool {
				if as, ok := n.(*ast.AssignStmt); ok {
					for _, l := range as.Lhs {
						if id, ok := l.(*ast.Ident); ok && id.Name == "covert" {
							covertRedefined = true
						}
					}
				}
				return true
			})
		}
	}

	// ---- the share request: every call, anywhere in the package, of tryShareRegistrationOverAPI, of executeHTTPRequest and of
	// a function of package http — with the function it is in, whether it is inside a loop, whether it is a `go` statement —
	// and the number of loops in the two sharing functions
	var calls []write // fn, callee, "loop"/"-", "go"/"-"
	var shareLoops []string
	for _, fn := range fnames {
		var walk func(n ast.Node, inLoop bool)
		goCalls := map[*ast.CallExpr]bool{}
		ast.Inspect(funcs[fn].Body, func(n ast.Node) bool {
			if g, ok := n.(*ast.GoStmt); ok {
				goCalls[g.Call] = true
			}
			return true
		})
		walk = func(n ast.Node, inLoop bool) {
			ast.Inspect(n, func(m ast.Node) bool {
				switch x := m.(type) {
				case *ast.ForStmt:
					if fn == "tryShareRegistrationOverAPI" || fn == "executeHTTPRequest" {
						shareLoops = append(shareLoops, fn)
					}
					if x.Init != nil {
						walk(x.Init, inLoop)
					}
					if x.Cond != nil {
						walk(x.Cond, true)
					}
					if x.Post != nil {
						walk(x.Post, true)
					}
					walk(x.Body, true)
					return false
				case *ast.RangeStmt:
					if fn == "tryShareRegistrationOverAPI" || fn == "executeHTTPRequest" {
						shareLoops = append(shareLoops, fn)
					}
					walk(x.X, inLoop)
					walk(x.Body, true)
					return false
				case *ast.CallExpr:
					callee := c07gText(fset, x.Fun)
					if callee == "tryShareRegistrationOverAPI" || callee == "executeHTTPRequest" || strings.HasPrefix(callee, "http.") {
						l, g := "-", "-"
						if inLoop {
							l = "loop"
						}
						if goCalls[x] {
							g = "go"
						}
						calls = append(calls, write{fn, callee, l, g})
					}
				}
				return true
			})
		}
		walk(funcs[fn].Body, false)
	}

	// ---- parseRegMessage: its return statements; the ingest worker: how it treats what parseRegMessage answers
	var parseReturns, workerGuards []string
	if pf, ok := funcs["RegistrationManager.parseRegMessage"]; ok {
		ast.Inspect(pf.Body, func(n ast.Node) bool {
			if _, isLit := n.(*ast.FuncLit); isLit {
				return false
			}
			if r, ok := n.(*ast.ReturnStmt); ok {
				parseReturns = append(parseReturns, c07gText(fset, r))
			}
			return true
		})
	} else {
		t.Fatal("RegistrationManager.parseRegMessage not found")
	}
	workerCallsParse, workerIngestsAll := false, false
	if wf, ok := funcs["RegistrationManager.startIngestThread"]; ok {
		ast.Inspect(wf.Body, func(n ast.Node) bool {
			switch x := n.(type) {
			case *ast.AssignStmt:
				if c07gText(fset, x) == "newRegs, err := rm.parseRegMessage(msg.([]byte))" {
					workerCallsParse = true
				}
			case *ast.IfStmt:
				if cond := c07gText(fset, x.Cond); cond == "err != nil" || strings.Contains(cond, "newRegs") {
					last := "?"
					if k := len(x.Body.List); k > 0 {
						last = c07gText(fset, x.Body.List[k-1])
					}
					els := ""
					if x.Else != nil {
						els = " else …"
					}
					workerGuards = append(workerGuards, "if "+cond+" { … "+last+" }"+els)
				}
			case *ast.RangeStmt:
				if c07gText(fset, x.X) == "newRegs" {
					// for _, reg := range newRegs { if reg == nil { continue }; rm.ingestRegistration(reg) }
					var body []string
					for _, st := range x.Body.List {
						body = append(body, c07gText(fset, st))
					}
					workerIngestsAll = strings.Join(body, "; ") == "if reg == nil { continue }; rm.ingestRegistration(reg)"
				}
			}
			return true
		})
	} else {
		t.Fatal("RegistrationManager.startIngestThread not found")
	}

	// ---- ingestRegistration: the statement that follows the liveness probe
	var livenessBranch []string
	ast.Inspect(ingest.Body, func(n ast.Node) bool {
		blk, ok := n.(*ast.BlockStmt)
		if !ok {
			return true
		}
		for i, st := range blk.List {
			if c07gText(fset, st) == "live, response := rm.PhantomIsLive(reg.PhantomIp.String(), reg.PhantomPort)" {
				if i+1 < len(blk.List) {
					if is, ok := blk.List[i+1].(*ast.IfStmt); ok {
						last := "?"
						if k := len(is.Body.List); k > 0 {
							last = c07gText(fset, is.Body.List[k-1])
						}
						els := "no else"
						if is.Else != nil {
							els = "else"
						}
						init := ""
						if is.Init != nil {
							init = c07gText(fset, is.Init) + "; "
						}
						livenessBranch = append(livenessBranch, "if "+init+c07gText(fset, is.Cond), last, els)
					} else {
						livenessBranch = append(livenessBranch, c07gText(fset, blk.List[i+1]))
					}
				}
				// every later use of the verdict in the block
				for _, later := range blk.List[i+2:] {
					ast.Inspect(later, func(m ast.Node) bool {
						if id, ok := m.(*ast.Ident); ok && (id.Name == "live" || id.Name == "response") {
							livenessBranch = append(livenessBranch, "later use of "+id.Name)
						}
						return true
					})
				}
			}
		}
		return true
	})

	var b strings.Builder
	fmt.Fprintf(&b, "/-! GENERATED by /verif/go/harness/C07/zz_verif_c07_gen_test.go from the non-test files of pkg/station/lib. Do not edit. -/\n")
	fmt.Fprintf(&b, "namespace CJ.Gen.IngestWrites\n\n")
	fmt.Fprintf(&b, "/-- the fields of struct DecoyRegistration -/\ndef regFields : List String := %s\n\n", c07gLeanList(regFields))
	table := func(name, doc string, l []write) {
		fmt.Fprintf(&b, "/-- %s: (function, x, F, text) -/\n", doc)
		fmt.Fprintf(&b, "def %s : List (String × String × String × String) := [\n", name)
		for i, w := range l {
			sep := ","
			if i == len(l)-1 {
				sep = ""
			}
			fmt.Fprintf(&b, "  (%s, %s, %s, %s)%s\n", c07gLeanStr(w.fn), c07gLeanStr(w.recv), c07gLeanStr(w.field), c07gLeanStr(w.stmt), sep)
		}
		fmt.Fprintf(&b, "]\n\n")
	}
	table("fieldWrites", "every assignment / increment in the package whose target is `x.F` with F a field name of DecoyRegistration\n(F = `*`: a whole object is replaced through the pointer x)", writes)
	table("fieldAddrs", "every expression `&x.F` with F a field name of DecoyRegistration (the field could be written through that pointer)", addrs)
	fmt.Fprintf(&b, "/-- RegisteredDecoys.track, the statements of the branch `if reg := r.registrationExists(d); reg != nil` (already tracked) -/\n")
	fmt.Fprintf(&b, "def trackDupBranch : List String := %s\n\n", c07gLeanList(trackDup))
	fmt.Fprintf(&b, "/-- ingestRegistration, the branch `if rm.RegistrationExists(reg)` (duplicate): index among the statements of the function,\nassignments whose target is not a plain variable, called functions, and whether its last statement is a return -/\n")
	fmt.Fprintf(&b, "def ingestDupIndex : Int := %d\n", dupIndex)
	fmt.Fprintf(&b, "def ingestDupAssigns : List String := %s\n", c07gLeanList(dupAssigns))
	fmt.Fprintf(&b, "def ingestDupCalls : List String := %s\n", c07gLeanList(dupCalls))
	fmt.Fprintf(&b, "def ingestDupReturns : Bool := %v\n\n", dupReturns)
	fmt.Fprintf(&b, "/-- ingestRegistration, top-level statements: index of `covert, lookup := rm.ParseOrResolveBlocklisted(reg.Covert)`, of\n`if covert == \"\" { …; return }`, of the first write to a field Covert; every such write; `covert` assigned again in between -/\n")
	fmt.Fprintf(&b, "def covertPolicyIndex : Int := %d\n", covertDefIndex)
	fmt.Fprintf(&b, "def covertRefusedReturnIndex : Int := %d\n", covertGuardIndex)
	fmt.Fprintf(&b, "def covertWriteIndex : Int := %d\n", covertWriteIndex)
	fmt.Fprintf(&b, "def covertWrites : List String := %s\n", c07gLeanList(covertWrites))
	fmt.Fprintf(&b, "def covertRedefined : Bool := %v\n\n", covertRedefined)
	fmt.Fprintf(&b, "/-- every call, anywhere in the package, of tryShareRegistrationOverAPI, of executeHTTPRequest, or of a function of package http:\n(function it is in, callee, `loop` if inside a for / range statement, `go` if it is the call of a go statement) -/\n")
	fmt.Fprintf(&b, "def shareCalls : List (String × String × String × String) := [\n")
	for i, w := range calls {
		sep := ","
		if i == len(calls)-1 {
			sep = ""
		}
		fmt.Fprintf(&b, "  (%s, %s, %s, %s)%s\n", c07gLeanStr(w.fn), c07gLeanStr(w.recv), c07gLeanStr(w.field), c07gLeanStr(w.stmt), sep)
	}
	fmt.Fprintf(&b, "]\n")
	fmt.Fprintf(&b, "/-- the for / range statements inside tryShareRegistrationOverAPI and executeHTTPRequest (the function, once per loop) -/\n")
	fmt.Fprintf(&b, "def shareLoops : List String := %s\n\n", c07gLeanList(shareLoops))
	fmt.Fprintf(&b, "/-- the return statements of parseRegMessage, in source order -/\ndef parseReturns : List String := %s\n", c07gLeanList(parseReturns))
	fmt.Fprintf(&b, "/-- startIngestThread: it calls `newRegs, err := rm.parseRegMessage(msg.([]byte))`; its if statements on `err` / `newRegs` (condition, last\nstatement of the body); its loop over newRegs is `if reg == nil { continue }; rm.ingestRegistration(reg)` -/\n")
	fmt.Fprintf(&b, "def workerCallsParse : Bool := %v\n", workerCallsParse)
	fmt.Fprintf(&b, "def workerGuards : List String := %s\n", c07gLeanList(workerGuards))
	fmt.Fprintf(&b, "def workerIngestsAll : Bool := %v\n\n", workerIngestsAll)
	fmt.Fprintf(&b, "/-- ingestRegistration: the statement after `live, response := rm.PhantomIsLive(…)`: its condition, the last statement of its body, whether\nit has an else branch; then every later use of `live` / `response` in that block -/\n")
	fmt.Fprintf(&b, "def livenessBranch : List String := %s\n\n", c07gLeanList(livenessBranch))
	fmt.Fprintf(&b, "end CJ.Gen.IngestWrites\n")

	dir := os.Getenv("VERIF_OUT")
	if dir == "" {
		dir = os.TempDir()
	}
	if err := os.WriteFile(filepath.Join(dir, "IngestWrites.lean"), []byte(b.String()), 0o644); err != nil {
		t.Fatal(err)
	}
}
