//go:build verif

package lib

// C10, last clause, over time: the shutdown sequence of main() and the availability of the channel.
//
// A scenario is a sequence of events on the real station:
//
//	b  a message for the registration goes into the channel HandleRegUpdates reads from (started like
//	   main() starts it: cancelable context, wait group); the harness waits until the worker's ingest is
//	   parked in a scripted liveness probe (IPv4 phantom, not prescanned) or, where no probe is made, done
//	f  the parked probe returns (phantom not live: the registration is validated and announced / live: dropped)
//	i  ingestRegistration in one piece (fails validation if told so)      m  MarkActive
//	x  main()'s shutdown: cancel(); wg.Wait(); Cleanup() — in a goroutine, while registrations may still be
//	   parked in their probes; the harness gives that sequence c10sGrace to run ahead of them (it cannot on a
//	   station whose ingests run inside the counted workers), then lets the probes return one by one
//	c  Cleanup() alone                                                    U / D  the Redis stand-in comes up / goes down
//
// against the station model of CJ.Model.AnnounceStation (messages that reached the channel in order, size
// of the detector's table at the end).  Availability scenarios run against a stand-in on 127.0.0.1:6379
// with the package's detector channel reset to its state at process start, so the station's own
// initRedisClient is what meets the outage.
//
// Oracles on the real publications (none depends on timing when the property holds: a slow machine can
// only hide a violation, never fabricate one):
//
//	C10:published-after-clear               something reached the channel after the clear request of the shutdown
//	C10:sessions-left-after-shutdown        the rustc-compiled session table is not empty after the last message
//	C10:announcement-lost-while-channel-up  an event that has to publish (ground truth: New for a registration
//	                                        validated now, Update for a tracked one, Clear) while the stand-in
//	                                        is up, and nothing arrived.  Messages attempted while it is down
//	                                        are lost on the unchanged tree (sendToDetector does not queue);
//	                                        that is compared with the model, not judged.

import (
	"context"
	"encoding/hex"
	"fmt"
	"net"
	"strconv"
	"strings"
	"sync"
	"time"

	"github.com/refraction-networking/conjure/internal/vlib"
	"github.com/refraction-networking/conjure/pkg/station/log"
	pb "github.com/refraction-networking/conjure/proto"
	"google.golang.org/protobuf/proto"
)

const c10sGrace = 300 * time.Millisecond // head start of the shutdown sequence over parked ingests
const c10sPatience = 20 * time.Second    // for things that must happen (a hang fails the harness)

// scripted liveness tester: a probe of an address with a gate parks until the harness releases it
type c10sGate struct {
	entered chan struct{}
	release chan bool // value: phantom is live (the registration is dropped)
}

type c10sLive struct {
	mu    sync.Mutex
	gates map[string]*c10sGate
}

func (l *c10sLive) PhantomIsLive(addr string, port uint16) (bool, error) {
	l.mu.Lock()
	g := l.gates[addr]
	delete(l.gates, addr)
	l.mu.Unlock()
	if g == nil {
		return false, nil
	}
	close(g.entered)
	return <-g.release, nil
}
func (l *c10sLive) PrintAndReset(*log.Logger) {}
func (l *c10sLive) PrintStats(*log.Logger)    {}
func (l *c10sLive) Reset()                    {}

type c10sEv struct {
	kind byte // b f i m x c U D
	key  int
	pass bool   // f, i
	outs string // x: outcome bits of the probes still parked, in the order they were parked
}

func (e c10sEv) enc() string {
	switch e.kind {
	case 'b', 'm':
		return fmt.Sprintf("%c.%d", e.kind, e.key)
	case 'f', 'i':
		return fmt.Sprintf("%c.%d.%s", e.kind, e.key, vlib.B(e.pass))
	case 'x':
		o := e.outs
		if o == "" {
			o = "-"
		}
		return "x." + o
	}
	return string(e.kind)
}

func c10sDec(s string) (c10sEv, error) {
	f := strings.Split(s, ".")
	bad := fmt.Errorf("bad scenario event %q", s)
	if len(f[0]) != 1 {
		return c10sEv{}, bad
	}
	e := c10sEv{kind: f[0][0]}
	switch e.kind {
	case 'b', 'm', 'f', 'i':
		want := 2
		if e.kind == 'f' || e.kind == 'i' {
			want = 3
		}
		if len(f) != want {
			return e, bad
		}
		k, err := strconv.Atoi(f[1])
		if err != nil {
			return e, bad
		}
		e.key = k
		if want == 3 {
			e.pass = f[2] == "1"
		}
	case 'x':
		if len(f) != 2 {
			return e, bad
		}
		if f[1] != "-" {
			e.outs = f[1]
		}
	case 'c', 'U', 'D':
		if len(f) != 1 {
			return e, bad
		}
	default:
		return e, bad
	}
	return e, nil
}

func c10sWait(what string, cond func() bool) error {
	deadline := time.Now().Add(c10sPatience)
	for !cond() {
		if time.Now().After(deadline) {
			return fmt.Errorf("timed out waiting for %s", what)
		}
		time.Sleep(200 * time.Microsecond)
	}
	return nil
}

// scenario runs one scenario.  own: the stand-in is on the station's default address and the package's
// detector channel is reset to its state at process start (availability scenarios).
func (w *c10World) scenario(keys []*c10hKey, evs []c10sEv, own *c10Redis) {
	savedRD, savedLive, savedWorkers := w.rm.registeredDecoys, w.rm.LivenessTester, w.rm.IngestWorkerCount
	defer func() {
		w.rm.registeredDecoys, w.rm.LivenessTester, w.rm.IngestWorkerCount = savedRD, savedLive, savedWorkers
	}()
	w.histReset()
	live := &c10sLive{gates: map[string]*c10sGate{}}
	w.rm.LivenessTester = live
	w.rm.IngestWorkerCount = 10
	rds := w.rds
	if own != nil {
		rds = own
		// process start: nothing has touched the detector channel yet
		if client != nil {
			client.Close()
		}
		client = nil
		once = sync.Once{}
		defer func() {
			if client != nil {
				client.Close()
			}
			c10PointStationAt(w.rds)
		}()
	}
	rds.take()

	var kenc, eenc, kmodel []string
	for _, k := range keys {
		kenc = append(kenc, k.enc())
		kmodel = append(kmodel, k.modelKey())
	}
	for _, e := range evs {
		eenc = append(eenc, e.enc())
	}
	mode := "p"
	if own != nil {
		mode = "a"
	}
	token := "stop," + mode + "/" + strings.Join(kenc, "/") + "//" + strings.Join(eenc, "/")
	replay := "c10replay|" + token

	rd := w.rm.registeredDecoys
	unusedNs, activeNs := uint64(rd.timeoutUnused.Nanoseconds()), uint64(rd.timeoutActive.Nanoseconds())
	var en []string
	for _, tt := range c10TransportOrder {
		en = append(en, strconv.Itoa(int(tt)))
	}

	// the pipeline, started the way main() starts it
	ctx, cancel := context.WithCancel(context.Background())
	defer cancel()
	wg := new(sync.WaitGroup)
	regChan := make(chan interface{}, 64)
	started, stopped := false, false
	start := func() {
		if !started {
			started = true
			wg.Add(1)
			go w.rm.HandleRegUpdates(ctx, regChan, wg)
		}
	}
	up := true
	type parkedT struct {
		key  int
		gate *c10sGate
	}
	var parked []parkedT
	tracked := make([]bool, len(keys)) // ground truth, for "has to publish"
	valid := make([]bool, len(keys))
	var mevs []string
	type expT struct {
		ev   int
		what string
		got  int
	}
	var mustArrive []expT
	fatal := func(err error) {
		if err != nil {
			// let parked goroutines go before failing
			for _, p := range parked {
				p.gate.release <- true
			}
			w.t.Fatalf("scenario %s: %v", token, err)
		}
	}
	settleRegistry := func() { // a publication is made under the registry's mutex
		rdm := w.rm.registeredDecoys
		rdm.m.Lock()
		rdm.m.Unlock() //nolint
	}
	finish := func(p parkedT, pass bool, ei int) {
		before := rds.count()
		p.gate.release <- !pass
		k := keys[p.key]
		if pass {
			fatal(c10sWait("the released ingest to validate its registration", func() bool {
				r := w.rm.registeredDecoys.RegistrationExists(k.probe)
				return r != nil && r.Valid
			}))
			settleRegistry()
			if up && !valid[p.key] {
				mustArrive = append(mustArrive, expT{ei, fmt.Sprintf("New for registration #%d whose probe returned", p.key), rds.count() - before})
			}
			valid[p.key] = true
		}
	}

	for ei, e := range evs {
		w.out.Count("stop:ev:" + string(e.kind))
		switch e.kind {
		case 'U':
			fatal(rds.comeUp())
			up = true
			mevs = append(mevs, "U")
		case 'D':
			rds.goDown()
			up = false
			mevs = append(mevs, "D")
		case 'b':
			k := keys[e.key]
			mevs = append(mevs, fmt.Sprintf("b,%d,0", e.key))
			if stopped {
				// nobody reads the channel any more; the message just sits there
				select {
				case regChan <- k.raw:
				default:
				}
				continue
			}
			start()
			stored := w.rm.registeredDecoys.RegistrationExists(k.probe)
			before := rds.count()
			parkable := stored == nil && net.IP(k.phantom).To4() != nil && !k.probe.PreScanned()
			var g *c10sGate
			if parkable {
				g = &c10sGate{entered: make(chan struct{}), release: make(chan bool, 1)}
				live.mu.Lock()
				live.gates[k.phText] = g
				live.mu.Unlock()
			}
			regChan <- c10sOnly(k)
			switch {
			case parkable:
				select {
				case <-g.entered:
				case <-time.After(c10sPatience):
					w.t.Fatalf("scenario %s: the registration never reached its liveness probe", token)
				}
				parked = append(parked, parkedT{e.key, g})
				tracked[e.key] = true
			case stored != nil:
				cnt := stored.regCount
				fatal(c10sWait("the duplicate to be counted", func() bool {
					rdm := w.rm.registeredDecoys
					rdm.m.RLock()
					defer rdm.m.RUnlock()
					return stored.regCount > cnt
				}))
			default:
				fatal(c10sWait("the registration to be validated", func() bool {
					r := w.rm.registeredDecoys.RegistrationExists(k.probe)
					return r != nil && r.Valid
				}))
				settleRegistry()
				if up {
					mustArrive = append(mustArrive, expT{ei, fmt.Sprintf("New for registration #%d", e.key), rds.count() - before})
				}
				tracked[e.key], valid[e.key] = true, true
				// no probe is made for this registration: its ingest ran through in one piece
				mevs = append(mevs, fmt.Sprintf("f,%d,0,1", e.key))
			}
		case 'f':
			mevs = append(mevs, fmt.Sprintf("f,%d,0,%s", e.key, vlib.B(e.pass)))
			for i, p := range parked {
				if p.key == e.key {
					parked = append(parked[:i:i], parked[i+1:]...)
					finish(p, e.pass, ei)
					break
				}
			}
		case 'i':
			k := keys[e.key]
			d := w.histObj(k)
			if !e.pass {
				d.Covert = "192.0.2.77"
			}
			before := rds.count()
			w.rm.ingestRegistration(d)
			mevs = append(mevs, fmt.Sprintf("i,%d,0,%s", e.key, vlib.B(e.pass)))
			if !tracked[e.key] {
				tracked[e.key] = true
				if e.pass {
					valid[e.key] = true
					if up {
						mustArrive = append(mustArrive, expT{ei, fmt.Sprintf("New for registration #%d", e.key), rds.count() - before})
					}
				}
			}
		case 'm':
			k := keys[e.key]
			d := w.histObj(k)
			if stored := w.rm.registeredDecoys.RegistrationExists(d); stored != nil {
				d = stored
			}
			before := rds.count()
			w.rm.MarkActive(d)
			mevs = append(mevs, fmt.Sprintf("m,%d,0", e.key))
			if up && tracked[e.key] {
				mustArrive = append(mustArrive, expT{ei, fmt.Sprintf("Update for registration #%d", e.key), rds.count() - before})
			}
		case 'c':
			before := rds.count()
			w.rm.Cleanup()
			mevs = append(mevs, "c,0")
			if up {
				mustArrive = append(mustArrive, expT{ei, "the clear request", rds.count() - before})
			}
		case 'x':
			// main(): cancel(); wg.Wait(); return → deferred Cleanup()
			start()
			stopped = true
			bits := e.outs
			if bits == "" {
				bits = "-"
			}
			mevs = append(mevs, "x,0,"+bits, "c,0")
			before := rds.count()
			done := make(chan struct{})
			cancel()
			go func() {
				wg.Wait()
				w.rm.Cleanup()
				close(done)
			}()
			if len(parked) > 0 {
				// the head start: on a station that waits for its ingests nothing can happen here
				select {
				case <-done:
					w.out.Count("stop:shutdown-completed-while-ingests-were-parked")
				case <-time.After(c10sGrace):
				}
			}
			left := parked
			parked = nil
			for i, p := range left {
				pass := i >= len(e.outs) || e.outs[i] == '1'
				finish(p, pass, ei)
				// the model lets a probe that outlives the shutdown return afterwards
				mevs = append(mevs, fmt.Sprintf("f,%d,0,%s", p.key, vlib.B(pass)))
			}
			select {
			case <-done:
			case <-time.After(c10sPatience):
				w.t.Fatalf("scenario %s: the shutdown sequence did not complete", token)
			}
			if up {
				_ = before
				mustArrive = append(mustArrive, expT{ei, "the clear request of the shutdown", -1})
			}
		}
	}
	for _, p := range parked { // never leave a goroutine parked
		p.gate.release <- true
	}
	if !stopped && started {
		cancel()
		wg.Wait()
	}

	// ---- what reached the channel, in order
	pubs := rds.take()
	var steps []c10Step
	var logv []string
	clearAt := -1
	keyOf := func(o string) int {
		f := strings.Split(o, ",") // op, proto, client, phantom, dport, …
		for i, k := range keys {
			if len(f) >= 5 && f[3] == "h"+hex.EncodeToString([]byte(k.phText)) && f[4] == strconv.Itoa(k.port) {
				return i
			}
		}
		return -1
	}
	for pi, p := range pubs {
		st := c10Step{pubs: 1, chans: []string{p.channel}, orc: "-,-,-,-,-,-,-", replay: "(stop)"}
		if pi == 0 {
			st.replay = token
		}
		o, err := w.wire.decode(p.payload)
		entry := "?"
		if err != nil {
			st.decErr = err.Error() + " (payload " + hex.EncodeToString(p.payload) + ")"
			st.model = "C"
		} else {
			st.orc = o
			opv := strings.SplitN(o, ",", 2)[0]
			ki := keyOf(o)
			switch {
			case opv == "3":
				entry = "clear"
				st.model = "C"
				st.exp = c10Expect{kind: "clear", what: "clear request of a scenario"}
				if clearAt < 0 {
					clearAt = pi
				}
			case ki >= 0 && (opv == "1" || opv == "2"):
				k := keys[ki]
				d := &DecoyRegistration{PhantomIp: k.phantom, registrationAddr: k.registrant, PhantomPort: uint16(k.port), PhantomProto: pb.IPProto(k.proto)}
				st.exp = k.exp
				if opv == "1" {
					entry = fmt.Sprintf("new:%d", ki)
					st.model = c10ModelR(d, unusedNs, 1)
					st.exp.timeout = c10TenMinutesNs
				} else {
					entry = fmt.Sprintf("upd:%d", ki)
					st.model = c10ModelR(d, activeNs, 2)
					st.exp.timeout = c10SixHoursNs
				}
				st.exp.what = "scenario: announcement " + entry
			default:
				entry = "?" + o
				m := &pb.StationToDetector{}
				_ = proto.Unmarshal(p.payload, m)
				st.model = "C" // not a message of the scenario's registrations: the correspondence will show it
			}
		}
		logv = append(logv, entry)
		steps = append(steps, st)
	}
	n := "1" // the detector's table starts with one foreign session
	if len(steps) > 0 {
		ans := w.run(steps, true)
		n = ans[len(ans)-1].n
	}
	logs := "-"
	if len(logv) > 0 {
		logs = strings.Join(logv, ",")
	}
	model := fmt.Sprintf("c10s|%d|%d|%s|%s|%s", unusedNs, activeNs, strings.Join(en, ","), strings.Join(kmodel, ";"), strings.Join(mevs, ";"))
	w.out.Case(model, logs+"|"+n, true)

	// ---- oracles
	shutdown := -1 // index of the last shutdown / cleanup event
	for i, e := range evs {
		if e.kind == 'x' || e.kind == 'c' {
			shutdown = i
		}
	}
	laterPublishers := false // events after the last clear request that legitimately publish
	if shutdown >= 0 {
		for _, e := range evs[shutdown+1:] {
			if e.kind == 'i' || e.kind == 'm' || e.kind == 'f' {
				laterPublishers = true
			}
		}
	}
	if shutdown >= 0 && !laterPublishers {
		lastClear := -1
		for i, l := range logv {
			if l == "clear" {
				lastClear = i
			}
		}
		w.out.Checked()
		if lastClear >= 0 && lastClear != len(logv)-1 {
			w.out.OracleFail("C10:published-after-clear",
				fmt.Sprintf("messages on the detector channel in order [%s]: %s reached it AFTER the clear request of the shutdown (cancel(); wg.Wait(); Cleanup()) — the detector diverts a session no station knows about", logs, strings.Join(logv[lastClear+1:], ", ")), replay)
		}
		w.out.Checked()
		if lastClear >= 0 && n != "0" {
			w.out.OracleFail("C10:sessions-left-after-shutdown",
				fmt.Sprintf("after the last message of the scenario [%s] the detector's session table holds %s session(s)", logs, n), replay)
		}
	}
	for _, m := range mustArrive {
		w.out.Checked()
		got := m.got
		if got == -1 { // the clear request of a shutdown: look for it in the log
			got = 0
			for _, l := range logv {
				if l == "clear" {
					got++
				}
			}
		}
		if got < 1 {
			w.out.OracleFail("C10:announcement-lost-while-channel-up",
				fmt.Sprintf("event %d (%s) had to publish %s while the Redis stand-in was up, nothing arrived (everything that reached the channel: [%s])", m.ev, evs[m.ev].enc(), m.what, logs), replay)
		}
	}
	if vlib.Replay() != "" {
		fmt.Printf("REPLAY scenario %s\nREPLAY   model events: %s\nREPLAY   reached the channel: [%s]; detector table size at the end: %s\n", strings.Join(eenc, " "), strings.Join(mevs, ";"), logs, n)
	}
}

// c10sOnly: the message for one registration of the key's wrapper.  A wrapper that supports both
// families yields two registrations; the pipeline ingests both, so scenarios use single-family keys.
func c10sOnly(k *c10hKey) []byte { return k.raw }

// stopKeys: single-family registrations; the first nPark have an IPv4 phantom that is probed for liveness.
func (w *c10World) stopKeys(r *vlib.Rand, nPark, nOther int) []*c10hKey {
	var keys []*c10hKey
	for tries := 0; len(keys) < nPark+nOther && tries < 400; tries++ {
		wantPark := len(keys) < nPark
		tr := c10TransportOrder[r.Intn(len(c10TransportOrder))]
		cw := c10Wrapper{transport: tr, libver: 3, gen: 957, source: pb.RegistrationSource_API, secret: r.Bytes(32), randPort: r.Chance(1, 3)}
		if wantPark || r.Chance(1, 3) {
			cw.v4, cw.registrant = true, c10Registrants[1+r.Intn(2)].b
			cw.prescanned = !wantPark
		} else {
			cw.v6, cw.registrant = true, c10Registrants[r.Intn(4)].b
		}
		raw, err := proto.Marshal(cw.build())
		if err != nil {
			w.t.Fatal(err)
		}
		k, err := w.histKey(raw, 0)
		if err != nil {
			continue
		}
		if regs, _ := w.rm.parseRegMessage(raw); len(regs) != 1 {
			continue
		}
		dup := false
		for _, o := range keys {
			if o.phText == k.phText {
				dup = true
			}
		}
		if !dup {
			keys = append(keys, k)
		}
	}
	if len(keys) < nPark+nOther {
		w.t.Fatalf("could not build %d scenario registrations", nPark+nOther)
	}
	return keys
}

func (w *c10World) stopScenarios(r *vlib.Rand) {
	// keys 0, 1: parkable (IPv4 phantom, liveness probe); keys 2, 3: ingested without a probe
	keys := w.stopKeys(r, 2, 2)
	b := func(k int) c10sEv { return c10sEv{kind: 'b', key: k} }
	f := func(k int, p bool) c10sEv { return c10sEv{kind: 'f', key: k, pass: p} }
	m := func(k int) c10sEv { return c10sEv{kind: 'm', key: k} }
	x := func(o string) c10sEv { return c10sEv{kind: 'x', outs: o} }
	for _, sc := range [][]c10sEv{
		{x("")},                                      // a station that is stopped before anything arrived
		{b(2), x(""), b(3)},                          // nothing in flight at shutdown; a late message is not taken
		{b(0), x("1")},                               // one registration in its probe when the station is told to stop
		{b(0), b(2), b(1), x("11"), b(3)},            // two in their probes
		{b(0), b(1), x("10")},                        // one of them is dropped (live phantom)
		{b(0), b(1), f(0, true), m(0), x("1")},       // one finished and used before, one still parked
		{b(0), f(0, false), b(0), x("1")},            // dropped once (still tracked): the second message is a duplicate, nothing parked
		{b(2), b(2), m(2), b(0), b(0), x("0"), b(0)}, // duplicates while parked; the probe says live during shutdown
	} {
		w.scenario(keys, sc, nil)
	}
	n := vlib.Budget(6, 60)
	for i := 0; i < n; i++ {
		keys := w.stopKeys(r, 2, 2)
		var sc []c10sEv
		nParked := 0
		isParked := map[int]bool{}
		for j, L := 0, r.Range(1, 6); j < L; j++ {
			switch r.Intn(6) {
			case 0, 1, 2:
				k := r.Intn(4)
				sc = append(sc, b(k))
				if k < 2 && !isParked[k] {
					isParked[k] = true
					nParked++
				}
			case 3:
				k := r.Intn(2)
				if isParked[k] {
					sc = append(sc, f(k, r.Chance(2, 3)))
					// a registration whose probe returned is tracked from then on: later messages are duplicates
					nParked--
					isParked[k] = false
					isParked[k+100] = true
				}
			default:
				sc = append(sc, m(r.Intn(4)))
			}
		}
		// parkable keys that were released once stay tracked, so a later b does not park again: recount
		_ = nParked
		outs := ""
		for j := 0; j < 2; j++ {
			outs += []string{"1", "1", "0"}[r.Intn(3)]
		}
		sc = append(sc, x(outs))
		if r.Chance(1, 2) {
			sc = append(sc, b(r.Intn(4)))
		}
		w.scenario(keys, sc, nil)
	}
}

// availScenarios: the stand-in on the station's default address goes down and comes up; the station's own
// initRedisClient makes the first access.
func (w *c10World) availScenarios(r *vlib.Rand) {
	var own *c10Redis
	var err error
	for tries := 0; tries < 300; tries++ { // another C10 run may be in this phase: it lasts a few seconds
		if own, err = c10StartRedisAt("127.0.0.1:6379"); err == nil {
			break
		}
		time.Sleep(100 * time.Millisecond)
	}
	if err != nil {
		w.out.Count("avail:skipped-default-redis-port-busy")
		w.out.Note("availability scenarios skipped: cannot listen on 127.0.0.1:6379 (" + err.Error() + ")")
		return
	}
	defer own.goDown()
	keys := w.stopKeys(r, 0, 4)
	i := func(k int) c10sEv { return c10sEv{kind: 'i', key: k, pass: true} }
	m := func(k int) c10sEv { return c10sEv{kind: 'm', key: k} }
	U, D, C := c10sEv{kind: 'U'}, c10sEv{kind: 'D'}, c10sEv{kind: 'c'}
	run := func(sc []c10sEv) {
		if err := own.comeUp(); err != nil {
			w.t.Fatal(err)
		}
		w.scenario(keys, sc, own)
	}
	for _, sc := range [][]c10sEv{
		{i(0), m(0), C},                         // always up
		{D, i(0), U, i(1), m(1), C},             // down at the first access, then up
		{D, C, U, i(0), C},                      // the first access is a clear request into the outage
		{i(0), D, i(1), m(0), U, i(2), m(1), C}, // up, down, up
		{D, i(0), m(0), U, m(0), C},             // the Update of a registration whose New was lost
		{i(0), D, C, U, C},                      // shutdown into an outage, and again when the server is back
		{D, i(0), m(0), U, C},                   // the clear request is the first message that can get through
		{D, U, C},                               // an outage nobody noticed
	} {
		run(sc)
	}
	n := vlib.Budget(3, 25)
	for j := 0; j < n; j++ {
		var sc []c10sEv
		if r.Chance(1, 2) {
			sc = append(sc, D)
		}
		for q, L := 0, r.Range(2, 6); q < L; q++ {
			switch r.Intn(6) {
			case 0:
				sc = append(sc, D)
			case 1:
				sc = append(sc, U)
			case 2, 3:
				sc = append(sc, i(r.Intn(4)))
			case 4:
				sc = append(sc, m(r.Intn(4)))
			default:
				sc = append(sc, C)
			}
		}
		sc = append(sc, U, i(r.Intn(4)), C)
		run(sc)
	}
}

// stopReplay re-executes a `stop,<mode>/<keys>//<events>` token.
func (w *c10World) stopReplay(tok string) {
	p := strings.SplitN(strings.TrimPrefix(tok, "stop,"), "//", 2)
	if len(p) != 2 {
		w.t.Fatalf("bad scenario replay token %q", tok)
	}
	kf := strings.Split(p[0], "/")
	var keys []*c10hKey
	for _, ke := range kf[1:] {
		f := strings.Split(ke, ".")
		if len(f) != 2 {
			w.t.Fatalf("bad scenario key %q", ke)
		}
		raw, err := hex.DecodeString(f[0])
		idx, err2 := strconv.Atoi(f[1])
		if err != nil || err2 != nil {
			w.t.Fatalf("bad scenario key %q", ke)
		}
		k, err := w.histKey(raw, idx)
		if err != nil {
			w.t.Fatalf("scenario key %q: %v", ke, err)
		}
		keys = append(keys, k)
	}
	var evs []c10sEv
	for _, ee := range strings.Split(p[1], "/") {
		e, err := c10sDec(ee)
		if err != nil {
			w.t.Fatal(err)
		}
		if e.key >= len(keys) {
			w.t.Fatalf("scenario event %q refers to a key that is not there", ee)
		}
		evs = append(evs, e)
	}
	if kf[0] == "a" {
		own, err := c10StartRedisAt("127.0.0.1:6379")
		if err != nil {
			w.t.Fatalf("availability scenario: cannot listen on 127.0.0.1:6379: %v", err)
		}
		defer own.goDown()
		w.scenario(keys, evs, own)
		return
	}
	w.scenario(keys, evs, nil)
}
