//go:build verif

package lib

// Correspondence + property oracle for C10: every detector announcement is acceptable to the
// detector and matches the registration; the shutdown clear is acted upon.
//
// Station side: the real sendToDetector / clearDetector / registerForDetector / updateInDetector run
// unchanged and publish into the in-process Redis stand-in (zz_verif_c10_redis_test.go).  Detector
// side: the captured bytes are decoded and handed to the detector's own acceptance code, sliced out
// of src/sessions.rs and src/flow_tracker.rs and compiled by rustc (zz_verif_c10_oracle_test.go).  The
// published bytes are read with the tag / reader / enum tables of the detector's generated
// src/signalling.rs (c10Wire.decode), not with the Go protobuf library.  The Lean model answers the same
// cases (mkS2D / mkClear + convert / handle, dropStale, isTracked) and the two answer streams are diffed.
//
// A case is a sequence of steps on one detector with a virtual clock ("<now>@" prefix): station
// messages, sweeps of stale sessions ("S") and lookups by the packet path ("F,…").  After every
// announcement of an admitted registration the registrant's flow is looked up one nanosecond before the
// station's own expiry and must be forwarded (C10:flow-not-forwarded).  Every step's tag is reduced to
// the index of the first step of the case with the same tag, on the detector's tag strings and on the
// model's tag tuples: the rendering is checked to be injective where the cases go.

import (
	"encoding/binary"
	"encoding/hex"
	"fmt"
	"hash/fnv"
	"io"
	golog "log"
	"math/big"
	"net"
	"os"
	"path/filepath"
	"sort"
	"strconv"
	"strings"
	"testing"
	"time"

	"github.com/refraction-networking/conjure/internal/vlib"
	"github.com/refraction-networking/conjure/pkg/station/log"
	"github.com/refraction-networking/conjure/pkg/transports/connecting/dtls"
	"github.com/refraction-networking/conjure/pkg/transports/wrapping/min"
	"github.com/refraction-networking/conjure/pkg/transports/wrapping/obfs4"
	"github.com/refraction-networking/conjure/pkg/transports/wrapping/prefix"
	pb "github.com/refraction-networking/conjure/proto"
	"google.golang.org/protobuf/proto"
	"google.golang.org/protobuf/reflect/protoreflect"
	"google.golang.org/protobuf/types/known/anypb"
)

// ground truth of the property text, independent of the code under test
const (
	c10TenMinutesNs = uint64(10 * 60 * 1000 * 1000 * 1000)
	c10SixHoursNs   = uint64(6 * 60 * 60 * 1000 * 1000 * 1000)
)

// IP next-header number each transport's phantom connection uses (DTLS is the UDP transport)
var c10TransportProto = map[pb.TransportType]int{
	pb.TransportType_Min: 6, pb.TransportType_Obfs4: 6, pb.TransportType_Prefix: 6, pb.TransportType_DTLS: 17,
}

// transports the harness knows how to build.  WHICH of them are exercised is read from the tree under
// test: the keys of cmd/application's enabledTransports (c10EnabledTransports, go/ast).
var c10KnownTransports = map[pb.TransportType]func() Transport{
	pb.TransportType_Min:   func() Transport { return min.Transport{} },
	pb.TransportType_Obfs4: func() Transport { return obfs4.Transport{} },
	// by value: the value type has no Connect method, so ingest does not start a DTLS dial
	pb.TransportType_DTLS:   func() Transport { return dtls.Transport{} },
	pb.TransportType_Prefix: func() Transport { return prefix.DefaultSet() },
}

var c10TransportOrder []pb.TransportType // filled by c10Setup from the station's main package

type c10Live struct{ live bool }

func (l c10Live) PhantomIsLive(addr string, port uint16) (bool, error) { return l.live, nil }
func (c10Live) PrintAndReset(*log.Logger)                              {}
func (c10Live) PrintStats(*log.Logger)                                 {}
func (c10Live) Reset()                                                 {}

type c10World struct {
	t    *testing.T
	out  *vlib.Out
	orc  *c10Oracle
	rds  *c10Redis
	rm   *RegistrationManager
	wire *c10Wire
	r    *vlib.Rand
}

func c10NewManager(t *testing.T) *RegistrationManager {
	os.Setenv("PHANTOM_SUBNET_LOCATION", "./test/phantom_subnets.toml")
	rm := NewRegistrationManager(&RegConfig{EnableIPv4: true, EnableIPv6: true})
	if rm == nil {
		t.Fatal("NewRegistrationManager returned nil")
	}
	rm.Logger = log.New(io.Discard, "", golog.Ldate)
	rm.LivenessTester = c10Live{}
	for _, tt := range c10TransportOrder {
		if err := rm.AddTransport(tt, c10KnownTransports[tt]()); err != nil {
			t.Fatal(err)
		}
	}
	return rm
}

// ---------------------------------------------------------------------------------------------
// steps: one message each, handled in order by one detector

type c10Expect struct {
	kind    string // "session" (must be accepted and equal these fields) | "clear" (map must be empty) | "tracked" (flow lookup must say yes) | ""
	phantom string // canonical "4.<hex>" / "6.<hex>"
	client  string
	port    int
	proto   int
	timeout uint64
	what    string
}

type c10Step struct {
	model  string // message in the Lean driver's syntax
	orc    string // message in the detector oracle's syntax
	replay string // how to re-execute the step on the real code
	pubs   int    // number of publications the real code made for this step (-1: no Go code involved)
	chans  []string
	exp    c10Expect
	at     *uint64 // detector clock (ns) set before the step; nil = unchanged
	same   bool    // orc is already in the model's syntax (sweep / flow lookup)
	decErr string  // the published bytes do not parse under the detector's generated protobuf code
	goView string  // the same publication as the Go protobuf library reads it (oracle syntax)
}

// at sets the detector's clock for the step.
func (s c10Step) atTime(t uint64) c10Step {
	s.at = &t
	return s
}

// c10Sweep: the packet path's periodic drop_stale_sessions.
func c10Sweep(t uint64) c10Step {
	return c10Step{orc: "S", model: "S", replay: fmt.Sprintf("sweep,%d", t), pubs: -1, same: true}.atTime(t)
}

// c10Flow: a packet of a flow src → dst:dport with IP next-header number nh asks the packet path
// whether it belongs to a registered session (addresses in canonical "4.<hex>" / "6.<hex>" form).
func c10Flow(nh int, src, dst string, dport int, exp c10Expect) c10Step {
	o := fmt.Sprintf("F,%d,%s,%s,%d", nh, src, dst, dport)
	return c10Step{orc: o, model: o, replay: strings.ReplaceAll(o, ",", ":"), pubs: -1, same: true, exp: exp}
}

func c10Canon(ip []byte) string {
	if p4 := net.IP(ip).To4(); p4 != nil {
		return "4." + hex.EncodeToString(p4)
	}
	if len(ip) == 16 {
		return "6." + hex.EncodeToString(ip)
	}
	return "?" + hex.EncodeToString(ip)
}

func c10OptStr(s *string) string {
	if s == nil {
		return "-"
	}
	return "h" + hex.EncodeToString([]byte(*s))
}

func c10OracleMsg(m *pb.StationToDetector) string {
	f := make([]string, 7)
	for i := range f {
		f[i] = "-"
	}
	if m.Operation != nil {
		f[0] = strconv.Itoa(int(*m.Operation))
	}
	if m.Proto != nil {
		f[1] = strconv.Itoa(int(*m.Proto))
	}
	f[2] = c10OptStr(m.ClientIp)
	f[3] = c10OptStr(m.PhantomIp)
	if m.DstPort != nil {
		f[4] = strconv.FormatUint(uint64(*m.DstPort), 10)
	}
	if m.SrcPort != nil {
		f[5] = strconv.FormatUint(uint64(*m.SrcPort), 10)
	}
	if m.TimeoutNs != nil {
		f[6] = strconv.FormatUint(*m.TimeoutNs, 10)
	}
	return strings.Join(f, ",")
}

// capture turns what the real code just published into the oracle's message syntax, reading the bytes
// the way the detector's generated protobuf code does (c10Wire.decode).
func (w *c10World) capture(st *c10Step) {
	pubs := w.rds.take()
	st.pubs = len(pubs)
	st.orc = "-,-,-,-,-,-,-"
	for _, p := range pubs {
		st.chans = append(st.chans, p.channel)
	}
	if len(pubs) == 0 {
		return
	}
	last := pubs[len(pubs)-1].payload
	o, err := w.wire.decode(last)
	if err != nil {
		st.decErr = err.Error() + " (payload " + hex.EncodeToString(last) + ")"
		return
	}
	st.orc = o
	m := &pb.StationToDetector{}
	if err := proto.Unmarshal(last, m); err == nil {
		st.goView = c10OracleMsg(m)
	}
}

func c10ModelR(d *DecoyRegistration, dur uint64, op int) string {
	return fmt.Sprintf("R,%s,%s,%d,%d,%d,%d", vlib.Hex(d.PhantomIp), vlib.Hex(d.registrationAddr), d.PhantomPort, int(d.PhantomProto), op, dur)
}

// stepSend publishes through the real sendToDetector.
func (w *c10World) stepSend(d *DecoyRegistration, dur uint64, op int) c10Step {
	w.rds.take()
	sendToDetector(d, dur, pb.StationOperations(op))
	st := c10Step{model: c10ModelR(d, dur, op)}
	st.replay = "send," + st.model[2:]
	w.capture(&st)
	return st
}

// stepClear publishes through the real Cleanup → clearDetector.
func (w *c10World) stepClear() c10Step { return w.stepClearOn(w.rm, "clear") }

func (w *c10World) stepClearOn(rm *RegistrationManager, replay string) c10Step {
	w.rds.take()
	rm.Cleanup()
	st := c10Step{model: "C", replay: replay, exp: c10Expect{kind: "clear", what: "station shutdown clear"}}
	w.capture(&st)
	return st
}

type c10Raw struct{ op, proto, client, phantom, dport, sport, timeout string } // oracle syntax per field

func (w *c10World) stepRaw(r c10Raw) c10Step {
	o := strings.Join([]string{r.op, r.proto, r.client, r.phantom, r.dport, r.sport, r.timeout}, ",")
	return c10Step{orc: o, replay: "raw," + strings.ReplaceAll(o, ",", ":"), pubs: -1}
}

// run hands the steps to the detector oracle, records the correspondence case and evaluates the
// property on the implementation's behaviour.
func (w *c10World) run(steps []c10Step, nontrivial bool) []c10Answer {
	pre := func(s *c10Step, body string) string {
		if s.at != nil {
			return strconv.FormatUint(*s.at, 10) + "@" + body
		}
		return body
	}
	var os_ []string
	for i := range steps {
		os_ = append(os_, pre(&steps[i], steps[i].orc))
	}
	ans, err := w.orc.ask(strings.Join(os_, ";"))
	if err != nil {
		w.t.Fatal(err)
	}
	if len(ans) != len(steps) {
		w.t.Fatalf("oracle answered %d of %d messages", len(ans), len(steps))
	}
	var ms, is, rs []string
	var tags []string
	now := uint64(0)
	nows := make([]uint64, len(steps))
	for i := range steps {
		s := &steps[i]
		if s.at != nil {
			now = *s.at
		}
		nows[i] = now
		if s.pubs == -1 && !s.same {
			// raw message: the text fields reach the model as classified by the detector's parser
			f := strings.Split(s.orc, ",")
			if f[2] != "-" {
				f[2] = ans[i].clsClient
			}
			if f[3] != "-" {
				f[3] = ans[i].clsPhantom
			}
			for _, j := range []int{0, 1} {
				// enum wire values are int32; the model reads them as unsigned numbers
				if v, err := strconv.ParseInt(f[j], 10, 32); err == nil && v < 0 {
					f[j] = strconv.FormatUint(uint64(uint32(v)), 10)
				}
			}
			s.model = "M," + strings.Join(f, ",")
		}
		// equal tags ⇔ equal classes: index of the first step of the case whose tag STRING is the same
		cls := "-"
		if ans[i].tag != "" {
			cls = strconv.Itoa(len(tags))
			for j, t := range tags {
				if t == ans[i].tag {
					cls = strconv.Itoa(j)
					break
				}
			}
		}
		tags = append(tags, ans[i].tag)
		ms = append(ms, pre(s, s.model))
		is = append(is, ans[i].canon+"/"+cls)
		r := s.replay
		if s.at != nil && !s.same {
			r = "at:" + strconv.FormatUint(*s.at, 10) + "," + r
		}
		rs = append(rs, r)
	}
	replay := "c10replay|" + strings.Join(rs, ";")
	for i := range steps {
		s, a := &steps[i], ans[i]
		switch {
		case strings.HasPrefix(a.conv, "ok:"):
			w.out.Count("detector:accepted")
		case strings.HasPrefix(a.conv, "sweep:"):
			w.out.Count("detector:sweep")
		case strings.HasPrefix(a.conv, "flow:"):
			w.out.Count("detector:" + a.conv)
		default:
			w.out.Count("detector:" + a.conv)
		}
		if s.pubs >= 0 {
			w.out.Checked()
			if s.pubs != 1 {
				w.out.OracleFail("C10:not-exactly-one-publication", fmt.Sprintf("step %d (%s): %d publications", i, s.replay, s.pubs), replay)
			}
			for _, ch := range s.chans {
				if ch != w.orc.channel {
					w.out.OracleFail("C10:wrong-channel", fmt.Sprintf("published on %q, the detector subscribes to %q", ch, w.orc.channel), replay)
				}
			}
			if s.decErr != "" {
				w.out.OracleFail("C10:publication-unreadable-by-detector", fmt.Sprintf("step %d (%s): the detector's protobuf code cannot read the publication: %s", i, s.replay, s.decErr), replay)
			}
			if s.goView != "" && s.goView != s.orc {
				w.out.Count("wire:go-and-rust-read-the-publication-differently")
			}
		}
		switch s.exp.kind {
		case "clear":
			w.out.Checked()
			if a.n != "0" || a.sentinel != "0" {
				w.out.OracleFail("C10:clear-ignored-by-detector",
					fmt.Sprintf("the detector did not act on the station's clear message: %s, %s session(s) still diverted (message %s)", a.conv, a.n, s.orc), replay)
			}
		case "tracked":
			w.out.Checked()
			if a.conv != "flow:1" {
				w.out.OracleFail("C10:flow-not-forwarded",
					fmt.Sprintf("%s: at detector time %d (after the sweep of stale sessions) the packet path does not recognise the flow %s (tag %q) as a registered session", s.exp.what, nows[i], s.orc, a.tag), replay)
			}
		case "session":
			w.out.Checked()
			e := s.exp
			if !strings.HasPrefix(a.conv, "ok:") {
				w.out.OracleFail("C10:announcement-rejected:"+strings.TrimPrefix(a.conv, "err:"),
					fmt.Sprintf("%s: the detector rejects the announcement (%s), message %s", e.what, a.conv, s.orc), replay)
				continue
			}
			f := strings.Split(a.conv, ":") // ok client phantom dport sport proto timeout
			want := []string{"ok", e.client, e.phantom, strconv.Itoa(e.port), "0", strconv.Itoa(e.proto), strconv.FormatUint(e.timeout, 10)}
			names := []string{"", "client", "phantom", "port", "srcport", "proto", "lifetime"}
			for j := 1; j < len(want); j++ {
				if f[j] != want[j] {
					w.out.OracleFail("C10:session-differs:"+names[j],
						fmt.Sprintf("%s: detector session %s = %s, registration has %s", e.what, names[j], f[j], want[j]), replay)
				}
			}
			// the detector stores an expiry of at least its clock + the requested lifetime
			if v, ok := new(big.Int).SetString(a.val, 10); !ok || v.Cmp(new(big.Int).Add(new(big.Int).SetUint64(nows[i]), new(big.Int).SetUint64(e.timeout))) < 0 {
				w.out.OracleFail("C10:session-expiry-short", fmt.Sprintf("%s: stored expiry %s < clock %d + requested %d", e.what, a.val, nows[i], e.timeout), replay)
			}
		}
	}
	w.out.Case("c10|"+strings.Join(ms, ";"), strings.Join(is, ";"), nontrivial)
	return ans
}

// ---------------------------------------------------------------------------------------------
// registrations built by the real ingest path

type c10Wrapper struct {
	transport      pb.TransportType
	v4, v6         bool
	registrant     []byte // nil = field absent
	libver         uint32
	gen            uint32
	randPort       bool
	portOverride   *uint32
	v4Override     *uint32
	v6Override     []byte // nil = absent
	source         pb.RegistrationSource
	secret         []byte
	prescanned     bool
	withRegistrarR bool // attach a RegistrationResponse even when it carries no override
}

func (c c10Wrapper) build() *pb.C2SWrapper {
	covert := "192.0.2.77:443"
	c2s := &pb.ClientToStation{
		ClientLibVersion:    proto.Uint32(c.libver),
		Transport:           c.transport.Enum(),
		CovertAddress:       &covert,
		DecoyListGeneration: proto.Uint32(c.gen),
		V4Support:           proto.Bool(c.v4),
		V6Support:           proto.Bool(c.v6),
	}
	if c.prescanned {
		c2s.Flags = &pb.RegistrationFlags{Prescanned: proto.Bool(true)}
	}
	var params proto.Message
	switch c.transport {
	case pb.TransportType_Min, pb.TransportType_Obfs4:
		if c.randPort {
			params = &pb.GenericTransportParams{RandomizeDstPort: proto.Bool(true)}
		}
	case pb.TransportType_DTLS:
		if c.randPort {
			params = &pb.DTLSTransportParams{RandomizeDstPort: proto.Bool(true)}
		}
	case pb.TransportType_Prefix:
		params = &pb.PrefixTransportParams{PrefixId: proto.Int32(0), RandomizeDstPort: proto.Bool(c.randPort)}
	}
	if params != nil {
		a, err := anypb.New(params)
		if err != nil {
			panic(err)
		}
		c2s.TransportParams = a
	}
	src := c.source
	wr := &pb.C2SWrapper{SharedSecret: c.secret, RegistrationPayload: c2s, RegistrationSource: &src}
	if c.registrant != nil {
		wr.RegistrationAddress = c.registrant
	}
	if c.portOverride != nil || c.v4Override != nil || c.v6Override != nil || c.withRegistrarR {
		rr := &pb.RegistrationResponse{}
		rr.DstPort = c.portOverride
		rr.Ipv4Addr = c.v4Override
		if c.v6Override != nil {
			rr.Ipv6Addr = c.v6Override
		}
		wr.RegistrationResponse = rr
	}
	return wr
}

// ingestWrapper runs one wrapper through the real parseRegMessage + ingestRegistration, then marks
// every admitted registration active; returns the announcement steps (New, Update per admitted
// registration) with the expectations computed from the wrapper, not from the code's output.
func (w *c10World) ingestWrapper(raw []byte, cw *c10Wrapper) []c10Step {
	var steps []c10Step
	replay := "wrapper," + hex.EncodeToString(raw)
	w.rds.take()
	regs, err := w.rm.parseRegMessage(raw)
	if err != nil {
		w.out.Count("ingest:parse-error")
		return nil
	}
	if len(regs) == 0 {
		w.out.Count("ingest:no-registration")
	}
	parsed := &pb.C2SWrapper{}
	_ = proto.Unmarshal(raw, parsed)
	h := c10Hash(raw)
	clock := h % (1 << 50)
	for _, reg := range regs {
		if reg == nil {
			continue
		}
		w.rds.take()
		w.rm.ingestRegistration(reg)
		tracked := w.rm.registeredDecoys.RegistrationExists(reg)
		admitted := tracked != nil && tracked.Valid
		if !admitted {
			w.out.Count("ingest:not-admitted")
			w.out.Checked()
			if n := len(w.rds.take()); n != 0 {
				w.out.OracleFail("C10:announced-without-admission", fmt.Sprintf("%d announcement(s) for a registration that is not valid", n), "c10replay|"+replay)
			}
			continue
		}
		w.out.Count("ingest:admitted")
		v6 := reg.PhantomIp.To4() == nil
		w.out.Count(fmt.Sprintf("admitted:%s:v6=%v", reg.Transport, v6))
		// ---- expectations, from the message
		exp := c10Expect{kind: "session"}
		exp.phantom = c10Canon(reg.PhantomIp)
		rr := parsed.GetRegistrationResponse()
		// which family this registration was built for: parseRegMessage builds IPv4 first, then IPv6
		c2s := parsed.GetRegistrationPayload()
		v4Try := c2s.GetV4Support() && net.IP(c10Registrant(parsed)).To4() != nil
		v6Try := c2s.GetV6Support()
		var builtV6, known bool
		switch {
		case len(regs) == 2:
			builtV6, known = reg == regs[1], true
		case v4Try != v6Try:
			builtV6, known = v6Try, true
		}
		if known && rr != nil {
			if !builtV6 && rr.Ipv4Addr != nil && rr.GetIpv4Addr() != 0 {
				b := make([]byte, 4)
				binary.BigEndian.PutUint32(b, rr.GetIpv4Addr())
				exp.phantom = c10Canon(b)
			}
			if builtV6 && rr.Ipv6Addr != nil {
				exp.phantom = c10Canon(rr.Ipv6Addr)
			}
		}
		exp.client = c10Canon(c10Registrant(parsed))
		exp.port = int(reg.PhantomPort)
		if rr != nil && rr.DstPort != nil {
			exp.port = int(rr.GetDstPort() % 65536)
		}
		exp.proto = c10TransportProto[parsed.GetRegistrationPayload().GetTransport()]
		if rr == nil {
			w.transportPort(reg)
		}
		// the station's own lifetime for that state, which must be the property's 10 min / 6 h
		unused := uint64(w.rm.registeredDecoys.timeoutUnused.Nanoseconds())
		active := uint64(w.rm.registeredDecoys.timeoutActive.Nanoseconds())
		w.out.Checked()
		if unused != c10TenMinutesNs || active != c10SixHoursNs {
			w.out.OracleFail("C10:station-lifetimes", fmt.Sprintf("station expires unused after %d ns and used after %d ns", unused, active), "c10replay|"+replay)
		}
		// the station stores the registration under the phantom it announces
		w.out.Checked()
		if _, ok := w.rm.GetRegistrations(reg.PhantomIp)[w.rm.registeredDecoys.transports[reg.Transport].GetIdentifier(reg)]; !ok {
			w.out.OracleFail("C10:not-connectable", "admitted registration is not returned for its phantom", "c10replay|"+replay)
		}
		// New announcement made by ingest (the real registerForDetector closure), handled by the
		// detector at clock t0
		t0 := clock
		st := c10Step{model: c10ModelR(reg, unused, 1), replay: replay}.atTime(t0)
		w.capture(&st)
		st.exp = exp
		st.exp.timeout = c10TenMinutesNs
		st.exp.what = fmt.Sprintf("New announcement of %s registration on %s", reg.Transport, reg.PhantomIp)
		steps = append(steps, st)
		// the flow the client will send: to the phantom and port, with the transport's protocol, from
		// the registrant (the tag of an IPv6 phantom leaves the source out: any IPv6 source)
		canonical := func(a string) bool { return strings.HasPrefix(a, "4.") || strings.HasPrefix(a, "6.") }
		src := exp.client
		if strings.HasPrefix(exp.phantom, "6.") && !strings.HasPrefix(src, "6.") {
			src = "6.20010db8000000000000000000000099"
		}
		flows := canonical(src) && canonical(exp.phantom)
		sub := func(st c10Step) c10Step { st.replay = "(wrapper)"; return st }
		flow := func(state string, last uint64) c10Step {
			return sub(c10Flow(exp.proto, src, exp.phantom, exp.port, c10Expect{kind: "tracked",
				what: fmt.Sprintf("%s %s registration on %s, %d ns after its announcement (1 ns before the station's own expiry)", state, reg.Transport, reg.PhantomIp, last)}))
		}
		// first connection: MarkActive → the real updateInDetector closure.  Variant A: at the last
		// instant the station still accepts a first connection, after checking that the detector
		// still forwards then; variant B: at some earlier instant.
		t1 := t0 + c10TenMinutesNs - 1
		if h&1 == 0 {
			if flows {
				steps = append(steps, sub(c10Sweep(t1)), flow("unused", c10TenMinutesNs-1))
			}
		} else {
			t1 = t0 + (h>>8)%c10TenMinutesNs
		}
		w.rm.MarkActive(tracked)
		st2 := c10Step{model: c10ModelR(reg, active, 2), replay: "markactive"}.atTime(t1)
		w.capture(&st2)
		st2.exp = exp
		st2.exp.timeout = c10SixHoursNs
		st2.exp.what = fmt.Sprintf("Update announcement of %s registration on %s", reg.Transport, reg.PhantomIp)
		steps = append(steps, st2)
		clock = t1 + c10SixHoursNs + 1 + (h>>16)%1000000007
		if flows {
			// one nanosecond before the station's own expiry the packet path still forwards; at and after
			// the expiry only model and detector are compared (the boundary instant is not judged)
			steps = append(steps, sub(c10Sweep(t1+c10SixHoursNs-1)), flow("used", c10SixHoursNs-1),
				sub(c10Sweep(t1+c10SixHoursNs)), sub(c10Flow(exp.proto, src, exp.phantom, exp.port, c10Expect{})),
				sub(c10Sweep(clock)), sub(c10Flow(exp.proto, src, exp.phantom, exp.port, c10Expect{})))
		}
	}
	return steps
}

// c10Hash: deterministic per-wrapper source of the virtual detector clock (a replay sees the same times)
func c10Hash(b []byte) uint64 {
	h := fnv.New64a()
	h.Write(b)
	return h.Sum64()
}

func c10Registrant(parsed *pb.C2SWrapper) []byte {
	if parsed.GetRegistrationAddress() == nil {
		return make([]byte, 16) // absent: the station fills in the unspecified address
	}
	return parsed.GetRegistrationAddress()
}

var c10Registrants = []struct {
	name string
	b    []byte
}{
	{"absent", nil},
	{"v4", []byte{203, 0, 113, 9}},
	{"v4mapped", net.ParseIP("198.51.100.23").To16()},
	{"v6", net.ParseIP("2001:db8:77::5")},
	{"v6-compat", net.ParseIP("::102:304")},
	{"len0", []byte{}},
	{"len5", []byte{1, 2, 3, 4, 5}},
	{"len17", make([]byte, 17)},
}

func c10u32(v uint32) *uint32 { return &v }

type c10Override struct {
	name string
	port *uint32
	v4   *uint32
	v6   []byte
}

var c10Overrides = []c10Override{
	{name: "none"},
	{name: "port443", port: c10u32(443)},
	{name: "port65535", port: c10u32(65535)},
	{name: "port70000", port: c10u32(70000)},
	{name: "port0", port: c10u32(0)},
	{name: "v4", v4: c10u32(0xC0000263)},
	{name: "v4zero", v4: c10u32(0)},
	{name: "v6", v6: net.ParseIP("2001:db8:1234::9")},
	{name: "v6+v4+port", port: c10u32(8443), v4: c10u32(0xC6336401), v6: net.ParseIP("2001:db8::abcd")},
	{name: "v6=v4mapped", v6: net.ParseIP("192.0.2.200").To16()},
	{name: "v6=4bytes", v6: []byte{192, 0, 2, 201}},
	{name: "v6=len3", v6: []byte{1, 2, 3}},
	{name: "v6=len0", v6: []byte{}},
}

func (w *c10World) admittedEnumeration(r *vlib.Rand) {
	type fam struct{ v4, v6 bool }
	reps := vlib.Budget(1, 8) // fresh secrets (other phantoms and ports) per cell of the table
	if reps > 8 {
		reps = 8
	}
	for rep := 0; rep < reps; rep++ {
		w.admittedTable(r)
	}
}

func (w *c10World) admittedTable(r *vlib.Rand) {
	type fam struct{ v4, v6 bool }
	for _, tr := range c10TransportOrder {
		for _, f := range []fam{{true, false}, {false, true}, {true, true}} {
			for _, rg := range c10Registrants {
				for _, ov := range c10Overrides {
					for _, lv := range []struct {
						libver, gen uint32
						rnd         bool
					}{{0, 1, false}, {3, 1, false}, {3, 957, true}, {4, 957, false}} {
						cw := c10Wrapper{transport: tr, v4: f.v4, v6: f.v6, registrant: rg.b, libver: lv.libver, gen: lv.gen, randPort: lv.rnd,
							portOverride: ov.port, v4Override: ov.v4, v6Override: ov.v6, source: pb.RegistrationSource_API, secret: r.Bytes(32)}
						raw, err := proto.Marshal(cw.build())
						if err != nil {
							w.t.Fatal(err)
						}
						w.out.Count("registrant:" + rg.name)
						w.out.Count("override:" + ov.name)
						steps := w.ingestWrapper(raw, &cw)
						if len(steps) > 0 {
							w.run(steps, true)
						}
					}
				}
			}
		}
	}
}

// ---------------------------------------------------------------------------------------------
// hand-built registrations through sendToDetector (correspondence only: not admitted by ingest)

func c10RandIP(r *vlib.Rand) []byte {
	switch r.Intn(12) {
	case 0:
		return nil
	case 1:
		return []byte{}
	case 2:
		return r.Bytes(r.Range(1, 3))
	case 3:
		return r.Bytes(r.Range(5, 15))
	case 4:
		return r.Bytes(r.Range(17, 20))
	case 5, 6:
		return append(append([]byte(nil), 0, 0, 0, 0, 0, 0, 0, 0, 0, 0, 0xff, 0xff), r.Bytes(4)...)
	case 7:
		b := make([]byte, 16)
		copy(b[r.Intn(16):], r.Bytes(3))
		return b
	case 8, 9:
		return r.Bytes(4)
	default:
		return r.Bytes(16)
	}
}

func c10SatAdd(a, b uint64) uint64 {
	if a+b < a {
		return 1<<64 - 1
	}
	return a + b
}

// c10FlowNear: a lookup for the flow of d, or for a flow that differs from it in one component
// (correspondence only: exercises the tag of flows against the tag of sessions, component by component).
func c10FlowNear(r *vlib.Rand, d *DecoyRegistration) (c10Step, bool) {
	ph, cl := c10Canon(d.PhantomIp), c10Canon(d.registrationAddr)
	if strings.HasPrefix(ph, "?") {
		return c10Step{}, false
	}
	if strings.HasPrefix(cl, "?") || r.Chance(1, 6) {
		cl = c10Canon(r.Bytes([]int{4, 16}[r.Intn(2)]))
	}
	nh := map[pb.IPProto]int{pb.IPProto_Tcp: 6, pb.IPProto_Udp: 17}[d.PhantomProto]
	port := int(d.PhantomPort)
	switch r.Intn(10) {
	case 0:
		port = (port + 1) % 65536
	case 1:
		nh = []int{6, 17, 1, 0, 132}[r.Intn(5)]
	case 2:
		ph = c10Canon(r.Bytes([]int{4, 16}[r.Intn(2)]))
	case 3:
		ph, cl = cl, ph
	}
	return c10Flow(nh, cl, ph, port, c10Expect{}), true
}

func (w *c10World) directRandom(r *vlib.Rand, n int) {
	for i := 0; i < n; i++ {
		k := r.Range(1, 4)
		var steps []c10Step
		var sent []*DecoyRegistration
		clock := uint64(r.U64() % (1 << 50))
		var lastDur uint64
		for j := 0; j < k; j++ {
			// the detector's clock moves on: by nothing, by a little, or to around the last expiry
			switch r.Intn(5) {
			case 0:
			case 1:
				clock = c10SatAdd(clock, uint64(r.Intn(1<<30)))
			case 2:
				clock = c10SatAdd(clock, lastDur)
			case 3:
				if lastDur > 0 {
					clock = c10SatAdd(clock, lastDur-1)
				}
			case 4:
				clock = c10SatAdd(clock, c10SatAdd(lastDur, 1))
			}
			if r.Chance(1, 8) {
				steps = append(steps, w.stepClear().atTime(clock))
				continue
			}
			if len(sent) > 0 && r.Chance(1, 3) {
				// the packet path: sweep, then look a flow up
				steps = append(steps, c10Sweep(clock))
				if fs, ok := c10FlowNear(r, sent[r.Intn(len(sent))]); ok {
					steps = append(steps, fs)
				}
				continue
			}
			d := &DecoyRegistration{PhantomIp: c10RandIP(r), registrationAddr: c10RandIP(r), PhantomPort: uint16(r.Intn(65536)), PhantomProto: pb.IPProto(r.Intn(4))}
			if len(sent) > 0 && r.Chance(1, 2) {
				// the same session again with another lifetime / operation, or a neighbour of it that
				// differs in exactly one component of the tag
				d = sent[r.Intn(len(sent))]
				d = &DecoyRegistration{PhantomIp: d.PhantomIp, registrationAddr: d.registrationAddr, PhantomPort: d.PhantomPort, PhantomProto: d.PhantomProto}
				switch r.Intn(8) {
				case 0:
					d.PhantomPort++
				case 1:
					d.PhantomProto = pb.IPProto(1 + (int(d.PhantomProto) % 2))
				case 2:
					d.registrationAddr = c10RandIP(r)
				case 3:
					d.PhantomIp = c10RandIP(r)
				case 4:
					// the same registrant in its other encoding (4 bytes ↔ v4-mapped)
					if p4 := net.IP(d.registrationAddr).To4(); p4 != nil {
						if len(d.registrationAddr) == 4 {
							d.registrationAddr = net.IP(p4).To16()
						} else {
							d.registrationAddr = p4
						}
					}
				}
			}
			dur := []uint64{0, 1, c10TenMinutesNs, c10SixHoursNs, uint64(r.Intn(1 << 30)), 1<<64 - 1}[r.Intn(6)]
			lastDur = dur
			sent = append(sent, d)
			steps = append(steps, w.stepSend(d, dur, r.Intn(5)).atTime(clock))
		}
		w.run(steps, true)
	}
}

// ---------------------------------------------------------------------------------------------
// malformed / arbitrary messages: the detector model against the detector's own code

var c10Texts = []string{"", "<nil>", "?0102", "1.2.3", "1.2.3.4", "10.0.0.1", "0.0.0.0", "255.255.255.255", "256.1.1.1", "01.2.3.4", "1.2.3.4 ", " 1.2.3.4",
	"1.2.3.4:443", "::", "::1", "2001:db8::1", "2001:db8:0:0:0:0:0:1", "::ffff:1.2.3.4", "::1.2.3.4", "[::1]", "fe80::1%eth0", "2001:db8::1::2", "12345::1",
	"1:2:3:4:5:6:7:8", "1:2:3:4:5:6:7:8:9", "example.com", "0x7f.1", "١.٢.٣.٤", "2001:DB8::A"}

func (w *c10World) rawRandom(r *vlib.Rand, n int) {
	opt := func(vals []string) string {
		if r.Chance(1, 6) {
			return "-"
		}
		return vals[r.Intn(len(vals))]
	}
	txt := func() string {
		if r.Chance(1, 8) {
			return "-"
		}
		return "h" + hex.EncodeToString([]byte(c10Texts[r.Intn(len(c10Texts))]))
	}
	for i := 0; i < n; i++ {
		k := r.Range(1, 4)
		var steps []c10Step
		clock := uint64(0)
		for j := 0; j < k; j++ {
			if r.Chance(1, 2) {
				clock = c10SatAdd(clock, []uint64{0, 1, 2, 599999999999, 600000000000, 600000000001, 21600000000000, uint64(r.Intn(1 << 40))}[r.Intn(8)])
			}
			if j > 0 && r.Chance(1, 4) {
				steps = append(steps, c10Sweep(clock))
				addrs := []string{"4.01020304", "4.0a000001", "4.00000000", "4.ffffffff", "6.00000000000000000000000000000000", "6.00000000000000000000000000000001",
					"6.20010db8000000000000000000000001", "6.00000000000000000000ffff01020304", "6.00000000000000000000000001020304", "6.00010002000300040005000600070008", "6.20010db800000000000000000000000a"}
				steps = append(steps, c10Flow([]int{6, 17, 6, 17, 0, 1}[r.Intn(6)], addrs[r.Intn(len(addrs))], addrs[r.Intn(len(addrs))], []int{0, 443, 65535, 4464}[r.Intn(4)], c10Expect{}))
				continue
			}
			m := c10Raw{op: opt([]string{"0", "1", "2", "3", "4", "1", "2", "-1"}), proto: opt([]string{"0", "1", "2", "3", "1", "2"}), client: txt(), phantom: txt(),
				dport: opt([]string{"0", "443", "65535", "65536", "70000", "4294967295"}), sport: opt([]string{"0", "1", "65537"}),
				timeout: opt([]string{"0", "1", "600000000000", "21600000000000", "18446744073709551615"})}
			if j > 0 && r.Chance(1, 2) {
				var prev []string
				for _, ps := range steps {
					if !ps.same {
						prev = strings.Split(ps.orc, ",")
						break
					}
				}
				if prev != nil {
					m.client, m.phantom, m.proto, m.dport = prev[2], prev[3], prev[1], prev[4]
				}
			}
			steps = append(steps, w.stepRaw(m).atTime(clock))
		}
		w.run(steps, true)
	}
}

func (w *c10World) rawExhaustive() {
	// every combination of operation × protocol × text class of client × text class of phantom
	texts := []string{"-", "h", "h" + hex.EncodeToString([]byte("<nil>")), "h" + hex.EncodeToString([]byte("192.0.2.1")), "h" + hex.EncodeToString([]byte("2001:db8::2")),
		"h" + hex.EncodeToString([]byte("::ffff:192.0.2.1"))}
	for _, op := range []string{"-", "0", "1", "2", "3", "4"} {
		for _, pr := range []string{"-", "0", "1", "2", "3"} {
			for _, cl := range texts {
				for _, ph := range texts {
					w.run([]c10Step{w.stepRaw(c10Raw{op: "1", proto: "1", client: "h" + hex.EncodeToString([]byte("198.51.100.1")), phantom: "h" + hex.EncodeToString([]byte("192.0.2.99")), dport: "443", sport: "-", timeout: "5"}),
						w.stepRaw(c10Raw{op: op, proto: pr, client: cl, phantom: ph, dport: "443", sport: "-", timeout: "7"}),
						c10Sweep(5), c10Flow(6, "4.c6336401", "4.c0000263", 443, c10Expect{}), c10Flow(6, "6.20010db8000000000000000000000002", "6.20010db8000000000000000000000002", 443, c10Expect{})}, true)
				}
			}
		}
	}
}

// ---------------------------------------------------------------------------------------------

func c10Setup(t *testing.T) *c10World {
	facts, err := c10MainFacts()
	if err != nil {
		t.Fatal(err)
	}
	c10TransportOrder = nil
	for _, tt := range facts.enabled {
		if _, ok := c10KnownTransports[tt]; !ok {
			t.Fatalf("cmd/application enables transport %s, which the C10 harness cannot build: add it to c10KnownTransports and c10TransportProto", tt)
		}
		c10TransportOrder = append(c10TransportOrder, tt)
	}
	orc, err := c10BuildOracle()
	if err != nil {
		t.Fatal(err)
	}
	wire, err := c10RustWire()
	if err != nil {
		t.Fatal(err)
	}
	rds, err := c10StartRedis()
	if err != nil {
		t.Fatal(err)
	}
	c10PointStationAt(rds)
	return &c10World{t: t, orc: orc, rds: rds, rm: c10NewManager(t), wire: wire}
}

// ---------------------------------------------------------------------------------------------
// shutdown: Cleanup() in every state of the registry a station can be in when it is told to stop

// c10Age shifts every timeout record of the manager into the past (relative shift of the real
// timestamps, as the expiry sweeper reads them).
func c10Age(rm *RegistrationManager, d time.Duration) {
	rm.registeredDecoys.m.Lock()
	defer rm.registeredDecoys.m.Unlock()
	for _, to := range rm.registeredDecoys.decoysTimeouts {
		to.registrationTime = to.registrationTime.Add(-d)
	}
}

func (w *c10World) shutdownWrapper(i int) []byte {
	cw := c10Wrapper{transport: c10TransportOrder[i%len(c10TransportOrder)], v4: i%2 == 0, v6: i%2 == 1, registrant: c10Registrants[1+i%3].b, libver: 3, gen: 957,
		source: pb.RegistrationSource_API, secret: w.r.Bytes(32)}
	raw, err := proto.Marshal(cw.build())
	if err != nil {
		w.t.Fatal(err)
	}
	return raw
}

// shutdownScenario runs one of the named shutdown histories on a manager of its own and returns the
// steps the detector sees (announcements, then the clear).
func (w *c10World) shutdownScenario(name string) []c10Step {
	saved := w.rm
	defer func() { w.rm = saved }()
	w.rm = c10NewManager(w.t)
	var steps []c10Step
	switch name {
	case "shutdown-never-registered":
		// a station that was started and stopped without admitting anything
	case "shutdown-while-tracking":
		for i := 0; i < 3; i++ {
			steps = append(steps, w.ingestWrapper(w.shutdownWrapper(i), nil)...)
		}
	case "shutdown-after-sweep":
		// announce → every registration outlives its lifetime → the sweeper removes it → stop: the
		// detector may still hold the sessions (it extends them while packets arrive)
		for i := 0; i < 3; i++ {
			steps = append(steps, w.ingestWrapper(w.shutdownWrapper(i), nil)...)
		}
		c10Age(w.rm, 7*time.Hour)
		w.rm.RemoveOldRegistrations()
		w.out.Count(fmt.Sprintf("shutdown:registrations-left-after-sweep=%d", w.rm.registeredDecoys.TotalRegistrations()))
	case "shutdown-only-unvalidated":
		// registrations that are tracked but were never validated (the phantom answered the liveness probe)
		w.rm.LivenessTester = c10Live{live: true}
		for i := 0; i < 2; i++ {
			steps = append(steps, w.ingestWrapper(w.shutdownWrapper(i), nil)...)
		}
	default:
		w.t.Fatalf("unknown shutdown scenario %q", name)
	}
	// only the announcements matter for the detector's state here; drop the lookups to keep the case short
	var ann []c10Step
	for _, st := range steps {
		if !st.same {
			st.replay = "(scenario)"
			ann = append(ann, st)
		}
	}
	w.out.Count("shutdown:" + name)
	return append(ann, w.stepClearOn(w.rm, name))
}

var c10ShutdownScenarios = []string{"shutdown-never-registered", "shutdown-while-tracking", "shutdown-after-sweep", "shutdown-only-unvalidated"}

func TestVerifC10(t *testing.T) {
	out := vlib.Open("C10")
	defer out.Close()
	w := c10Setup(t)
	defer w.orc.close()
	w.out = out
	w.r = vlib.NewRand("C10-replay")
	if rp := vlib.Replay(); rp != "" {
		c10Replay(w, rp)
		return
	}
	r := vlib.NewRand("C10")
	w.r = r

	// corpus: the shutdown clear on its own, and after announcements it has to wipe
	w.run([]c10Step{w.stepClear()}, true)
	for _, sc := range c10ShutdownScenarios {
		w.run(w.shutdownScenario(sc), true)
	}
	d4 := &DecoyRegistration{PhantomIp: net.ParseIP("192.122.190.5"), registrationAddr: net.ParseIP("203.0.113.5"), PhantomPort: 443, PhantomProto: pb.IPProto_Tcp}
	d6 := &DecoyRegistration{PhantomIp: net.ParseIP("2001:48a8:687f:1::5"), registrationAddr: net.ParseIP("2001:db8::5"), PhantomPort: 50123, PhantomProto: pb.IPProto_Udp}
	w.run([]c10Step{w.stepSend(d4, c10TenMinutesNs, 1), w.stepSend(d6, c10TenMinutesNs, 1), w.stepSend(d4, c10SixHoursNs, 2), w.stepClear()}, true)
	w.run([]c10Step{w.stepSend(d4, c10SixHoursNs, 2), w.stepSend(d4, c10TenMinutesNs, 1)}, true) // the longer lifetime is kept
	w.run([]c10Step{w.stepRaw(c10Raw{op: "3", proto: "-", client: "-", phantom: "-", dport: "-", sport: "-", timeout: "-"})}, true)

	w.transportTable()
	w.admittedEnumeration(r)
	tPhase := time.Now()
	w.histories(vlib.NewRand("C10-histories"))
	dHist := time.Since(tPhase)
	tPhase = time.Now()
	w.stopScenarios(vlib.NewRand("C10-shutdown"))
	dStop := time.Since(tPhase)
	tPhase = time.Now()
	w.availScenarios(vlib.NewRand("C10-availability"))
	dAvail := time.Since(tPhase)
	tPhase = time.Now()
	w.packetPath(vlib.NewRand("C10-packets"))
	out.Note(fmt.Sprintf("history phase %.1fs, shutdown scenarios %.1fs, availability scenarios %.1fs, packet path %.1fs", dHist.Seconds(), dStop.Seconds(), dAvail.Seconds(), time.Since(tPhase).Seconds()))
	w.rawExhaustive()
	w.directRandom(r, vlib.Budget(8000, 150000))
	w.rawRandom(r, vlib.Budget(8000, 150000))
	w.run([]c10Step{w.stepClear()}, true)

	cmds := []string{}
	for k, v := range w.rds.cmds {
		cmds = append(cmds, fmt.Sprintf("%s=%d", k, v))
	}
	sort.Strings(cmds)
	out.Note("redis stand-in saw: " + strings.Join(cmds, " ") + "; detector channel " + w.orc.channel)
}

// c10Replay re-executes `c10replay|step;step;…` lines of a replay file on the real code.
func c10Replay(w *c10World, path string) {
	b, err := os.ReadFile(path)
	if err != nil {
		w.t.Fatal(err)
	}
	for _, line := range strings.Split(string(b), "\n") {
		if strings.HasPrefix(line, "c10pkt|") {
			w.pktReplay(line)
			continue
		}
		if !strings.HasPrefix(line, "c10replay|") {
			continue
		}
		var steps []c10Step
		for _, s := range strings.Split(strings.TrimPrefix(line, "c10replay|"), ";") {
			f := strings.Split(s, ",")
			var at *uint64
			if strings.HasPrefix(f[0], "at:") {
				v, err := strconv.ParseUint(strings.TrimPrefix(f[0], "at:"), 10, 64)
				if err != nil {
					w.t.Fatalf("bad replay step %q", s)
				}
				at, f = &v, f[1:]
			}
			add := func(st c10Step) {
				if at != nil {
					st = st.atTime(*at)
				}
				steps = append(steps, st)
			}
			switch {
			case f[0] == "clear":
				add(w.stepClear())
			case f[0] == "send":
				if len(f) != 7 {
					w.t.Fatalf("bad replay step %q", s)
				}
				ph, _ := hex.DecodeString(strings.TrimPrefix(f[1], "-"))
				rg, _ := hex.DecodeString(strings.TrimPrefix(f[2], "-"))
				port, _ := strconv.Atoi(f[3])
				pr, _ := strconv.Atoi(f[4])
				op, _ := strconv.Atoi(f[5])
				dur, _ := strconv.ParseUint(f[6], 10, 64)
				add(w.stepSend(&DecoyRegistration{PhantomIp: ph, registrationAddr: rg, PhantomPort: uint16(port), PhantomProto: pb.IPProto(pr)}, dur, op))
			case f[0] == "wrapper":
				// the clock values of a wrapper's steps are a function of its bytes
				raw, _ := hex.DecodeString(f[1])
				steps = append(steps, w.ingestWrapper(raw, nil)...)
			case f[0] == "hist":
				// a whole history of the registry next to the detector (zz_verif_c10_hist_test.go): runs,
				// records and judges itself
				w.histReplay(s)
			case f[0] == "stop":
				// a station scenario (pipeline, shutdown sequence, availability of the channel: zz_verif_c10_stop_test.go)
				w.stopReplay(s)
			case f[0] == "markactive", f[0] == "(wrapper)", f[0] == "(scenario)", f[0] == "(hist)", f[0] == "(stop)":
				// performed as part of the wrapper / scenario / history step it belongs to
			case strings.HasPrefix(f[0], "shutdown-"):
				steps = append(steps, w.shutdownScenario(f[0])...)
			case f[0] == "sweep":
				v, err := strconv.ParseUint(f[1], 10, 64)
				if err != nil {
					w.t.Fatalf("bad replay step %q", s)
				}
				steps = append(steps, c10Sweep(v))
			case strings.HasPrefix(f[0], "F:"):
				p := strings.Split(f[0], ":")
				if len(p) != 5 {
					w.t.Fatalf("bad replay step %q", s)
				}
				nh, _ := strconv.Atoi(p[1])
				dp, _ := strconv.Atoi(p[4])
				steps = append(steps, c10Flow(nh, p[2], p[3], dp, c10Expect{}))
			case f[0] == "raw":
				p := strings.Split(f[1], ":")
				if len(p) != 7 {
					w.t.Fatalf("bad replay step %q", s)
				}
				add(w.stepRaw(c10Raw{p[0], p[1], p[2], p[3], p[4], p[5], p[6]}))
			default:
				w.t.Fatalf("unknown replay step %q", s)
			}
		}
		if len(steps) == 0 {
			continue
		}
		ans := w.run(steps, true)
		for i, s := range steps {
			clk := ""
			if s.at != nil {
				clk = fmt.Sprintf(" detector-clock=%d", *s.at)
			}
			if s.same {
				fmt.Printf("REPLAY step %d %s%s -> %s (map size %s)\n", i, s.orc, clk, ans[i].conv, ans[i].n)
				continue
			}
			fmt.Printf("REPLAY step %d %-12s%s published=%d message(op,proto,client,phantom,dport,sport,timeout)=%s\n", i, strings.SplitN(s.replay, ",", 2)[0], clk, s.pubs, s.orc)
			fmt.Printf("REPLAY   detector: %s  (map size %s, foreign session still present: %s)\n", ans[i].conv, ans[i].n, ans[i].sentinel)
		}
	}
}

// TestVerifC10Gen dumps the constants the theorems are stated about (tie 1): the lifetimes and
// operations announced by the real closures, the station's own expiry thresholds, the protocol of
// every transport, and the message the real clearDetector publishes.
func TestVerifC10Gen(t *testing.T) {
	w := c10Setup(t)
	defer w.orc.close()
	rd := NewRegisteredDecoys()
	d := &DecoyRegistration{PhantomIp: net.ParseIP("192.0.2.1"), registrationAddr: net.ParseIP("198.51.100.1"), PhantomPort: 443, PhantomProto: pb.IPProto_Tcp}
	get := func() *pb.StationToDetector {
		pubs := w.rds.take()
		if len(pubs) != 1 {
			t.Fatalf("expected one publication, got %d", len(pubs))
		}
		m := &pb.StationToDetector{}
		if err := proto.Unmarshal(pubs[0].payload, m); err != nil {
			t.Fatal(err)
		}
		return m
	}
	rd.registerForDetector(d)
	mNew := get()
	rd.updateInDetector(d)
	mUpd := get()
	w.rm.Cleanup()
	pubs := w.rds.take()
	if len(pubs) != 1 {
		t.Fatalf("clear: expected one publication, got %d", len(pubs))
	}
	chGo := pubs[0].channel
	mClr := &pb.StationToDetector{}
	if err := proto.Unmarshal(pubs[0].payload, mClr); err != nil {
		t.Fatal(err)
	}
	clrSeen, err := w.wire.decode(pubs[0].payload)
	if err != nil {
		t.Fatalf("clear: the detector's protobuf code cannot read the publication: %v", err)
	}
	ans, err := w.orc.ask(clrSeen)
	if err != nil {
		t.Fatal(err)
	}
	leanTxt := func(present bool, cls string) string {
		if !present {
			return "none"
		}
		bytesOf := func(h string) string {
			b, _ := hex.DecodeString(h)
			var s []string
			for _, x := range b {
				s = append(s, strconv.Itoa(int(x)))
			}
			return "[" + strings.Join(s, ", ") + "]"
		}
		switch {
		case cls == "E":
			return "some .empty"
		case cls == "X":
			return "some .other"
		case strings.HasPrefix(cls, "4."):
			return "some (.lit (.v4 " + bytesOf(cls[2:]) + "))"
		case strings.HasPrefix(cls, "6."):
			return "some (.lit (.v6 " + bytesOf(cls[2:]) + "))"
		}
		t.Fatalf("unexpected class %q", cls)
		return ""
	}
	var protos []string
	for _, tt := range c10TransportOrder {
		protos = append(protos, fmt.Sprintf("(%d, %d)", int(tt), int(w.rm.registeredDecoys.transports[tt].GetProto())))
	}
	var sb strings.Builder
	sb.WriteString("import CJ.Model.Detector\n")
	sb.WriteString("/-! GENERATED by go/harness/C10 (TestVerifC10Gen) from the tree under test — do not edit.\n")
	sb.WriteString("Values observed on the real code: what the `registerForDetector` / `updateInDetector` closures and\n")
	sb.WriteString("`clearDetector` publish, the expiry thresholds of `RegisteredDecoys`, `GetProto()` of every transport. -/\n")
	sb.WriteString("namespace CJ.Gen.C10\nopen CJ.Detector\n\n")
	fmt.Fprintf(&sb, "def announcedNewNs : Nat := %d\n", mNew.GetTimeoutNs())
	fmt.Fprintf(&sb, "def announcedNewOp : Nat := %d\n", int(mNew.GetOperation()))
	fmt.Fprintf(&sb, "def announcedUpdateNs : Nat := %d\n", mUpd.GetTimeoutNs())
	fmt.Fprintf(&sb, "def announcedUpdateOp : Nat := %d\n", int(mUpd.GetOperation()))
	fmt.Fprintf(&sb, "def stationUnusedNs : Nat := %d\n", rd.timeoutUnused.Nanoseconds())
	fmt.Fprintf(&sb, "def stationActiveNs : Nat := %d\n", rd.timeoutActive.Nanoseconds())
	fmt.Fprintf(&sb, "/-- (TransportType, IPProto) wire values -/\ndef transportProtos : List (Nat × Nat) := [%s]\n", strings.Join(protos, ", "))
	fmt.Fprintf(&sb, "def channelStation : String := %q\n", chGo)
	fmt.Fprintf(&sb, "def channelDetector : String := %q\n", w.orc.channel)
	sb.WriteString("/-- the message published by `clearDetector`; text fields as classified by the detector's parser -/\n")
	cf := strings.Split(clrSeen, ",") // op, proto, client, phantom, dport, sport, timeout — as the detector reads the bytes
	num := func(f string) string {
		if f == "-" {
			return "none"
		}
		v, err := strconv.ParseInt(f, 10, 64)
		if err != nil {
			u, err := strconv.ParseUint(f, 10, 64)
			if err != nil {
				t.Fatalf("clear: bad number %q", f)
			}
			return fmt.Sprintf("some %d", u)
		}
		if v < 0 {
			return fmt.Sprintf("some %d", uint64(uint32(v)))
		}
		return fmt.Sprintf("some %d", v)
	}
	fmt.Fprintf(&sb, "def clearMsg : S2D :=\n  { phantomIp := %s\n    clientIp := %s\n    timeoutNs := %s\n    operation := %s\n    dstPort := %s\n    srcPort := %s\n    proto := %s }\n",
		leanTxt(cf[3] != "-", ans[0].clsPhantom), leanTxt(cf[2] != "-", ans[0].clsClient), num(cf[6]), num(cf[0]), num(cf[4]), num(cf[5]), num(cf[1]))
	// ---- wire format of StationToDetector: the Go descriptor next to the detector's generated Rust code
	kindName := func(fd protoreflect.FieldDescriptor) (string, uint64, error) {
		switch fd.Kind() {
		case protoreflect.StringKind:
			return "string", 2, nil
		case protoreflect.Uint64Kind:
			return "uint64", 0, nil
		case protoreflect.Uint32Kind:
			return "uint32", 0, nil
		case protoreflect.EnumKind:
			return "enum", 0, nil
		}
		return "", 0, fmt.Errorf("StationToDetector.%s has kind %s, which the harness does not know", fd.Name(), fd.Kind())
	}
	type wf struct {
		tag        uint64
		name, kind string
	}
	var goW, rustW []wf
	md := (&pb.StationToDetector{}).ProtoReflect().Descriptor()
	for i := 0; i < md.Fields().Len(); i++ {
		fd := md.Fields().Get(i)
		k, wt, err := kindName(fd)
		if err != nil {
			t.Fatal(err)
		}
		if fd.Cardinality() == protoreflect.Repeated {
			t.Fatalf("StationToDetector.%s is repeated", fd.Name())
		}
		goW = append(goW, wf{uint64(fd.Number())<<3 | wt, string(fd.Name()), k})
	}
	for _, f := range w.wire.fields {
		k := f.reader
		if k == "enum_or_unknown" {
			k = "enum"
		}
		rustW = append(rustW, wf{f.tag, f.name, k})
	}
	leanW := func(l []wf) string {
		sort.Slice(l, func(i, j int) bool { return l[i].tag < l[j].tag })
		var p []string
		for _, x := range l {
			p = append(p, fmt.Sprintf("(%d, %q, %q)", x.tag, x.name, x.kind))
		}
		return "[" + strings.Join(p, ", ") + "]"
	}
	sb.WriteString("\n/-- wire format of `StationToDetector`: (tag = field number * 8 + wire type, field, kind), by tag.\n`goWire`: descriptor of the Go message the station marshals; `rustWire`: the `merge_from` of the detector's\ngenerated `src/signalling.rs`. -/\n")
	fmt.Fprintf(&sb, "def goWire : List (Nat × String × String) := %s\n", leanW(goW))
	fmt.Fprintf(&sb, "def rustWire : List (Nat × String × String) := %s\n", leanW(rustW))
	type ev struct {
		enum, name string
		num        int64
	}
	leanE := func(l []ev) string {
		sort.Slice(l, func(i, j int) bool {
			if l[i].enum != l[j].enum {
				return l[i].enum < l[j].enum
			}
			return l[i].num < l[j].num
		})
		var p []string
		for _, x := range l {
			if x.num < 0 {
				t.Fatalf("negative enum value %s.%s", x.enum, x.name)
			}
			p = append(p, fmt.Sprintf("(%q, %q, %d)", x.enum, strings.ToLower(x.name), x.num))
		}
		return "[" + strings.Join(p, ", ") + "]"
	}
	var goE, rustE []ev
	var rustD []string
	for _, ed := range []protoreflect.EnumDescriptor{pb.IPProto(0).Descriptor(), pb.StationOperations(0).Descriptor()} {
		for i := 0; i < ed.Values().Len(); i++ {
			v := ed.Values().Get(i)
			goE = append(goE, ev{string(ed.Name()), string(v.Name()), int64(v.Number())})
		}
	}
	for _, e := range w.wire.enums {
		for _, v := range e.fromI32 {
			n, err := strconv.ParseInt(v[0], 10, 64)
			if err != nil {
				t.Fatal(err)
			}
			rustE = append(rustE, ev{e.name, v[1], n})
		}
		rustD = append(rustD, fmt.Sprintf("(%q, %q)", e.name, strings.ToLower(e.deflt)))
	}
	sb.WriteString("/-- enum values on the wire: (enum, value name in lower case, number).  `goEnums`: the Go descriptors;\n`rustEnums`: the `from_i32` tables of `src/signalling.rs`; `rustEnumDefaults`: what the detector's getters\nreturn for an absent or unknown value. -/\n")
	fmt.Fprintf(&sb, "def goEnums : List (String × String × Nat) := %s\n", leanE(goE))
	fmt.Fprintf(&sb, "def rustEnums : List (String × String × Nat) := %s\n", leanE(rustE))
	sort.Strings(rustD)
	fmt.Fprintf(&sb, "def rustEnumDefaults : List (String × String) := [%s]\n", strings.Join(rustD, ", "))

	// ---- the station's main package (go/ast)
	facts, err := c10MainFacts()
	if err != nil {
		t.Fatal(err)
	}
	var en []string
	for _, tt := range facts.enabled {
		en = append(en, strconv.Itoa(int(tt)))
	}
	var ex []string
	for _, e := range facts.exitsAfterGo {
		ex = append(ex, strconv.Quote(e))
	}
	sb.WriteString("\n/-- `cmd/application`: wire values of the transports the station enables (keys of `enabledTransports`) -/\n")
	fmt.Fprintf(&sb, "def enabledTransports : List Nat := [%s]\n", strings.Join(en, ", "))
	sb.WriteString("/-- `cmd/application/main`: `defer <registration manager>.Cleanup()` is a top-level statement of `main`\nplaced before the first `go` statement that refers to the registration manager -/\n")
	fmt.Fprintf(&sb, "def mainDefersCleanup : Bool := %v\n", facts.defersCleanup && facts.deferBeforeGo)
	sb.WriteString("/-- calls in `main`, lexically after that `go` statement, that end the process without running deferred\ncalls (`os.Exit`, `*.Fatal*`, `runtime.Goexit`, `panic`) -/\n")
	fmt.Fprintf(&sb, "def mainExitsAfterStart : List String := [%s]\n", strings.Join(ex, ", "))
	// ---- the ingest pipeline and main's wait (go/ast)
	pf, err := c10PipelineFacts()
	if err != nil {
		t.Fatal(err)
	}
	var ac []string
	for _, a := range pf.asyncIngestCalls {
		ac = append(ac, strconv.Quote(a))
	}
	sb.WriteString("\n/-- `startIngestThread` / `ingestRegistration`: `go` statements under which a registration is ingested, tracked,\nvalidated or announced (such a goroutine is not counted by the wait groups `main` waits on) -/\n")
	fmt.Fprintf(&sb, "def asyncIngestCalls : List String := [%s]\n", strings.Join(ac, ", "))
	sb.WriteString("/-- `HandleRegUpdates` starts with `defer <parent>.Done()`, launches every worker as `W.Add(1); go …startIngestThread(…, W)` and\nends with `W.Wait()`; `startIngestThread` defers `Done()` on its wait group and calls `ingestRegistration`, which calls\n`AddRegistration` -/\n")
	fmt.Fprintf(&sb, "def workersCounted : Bool := %v\n", pf.workersCounted)
	sb.WriteString("/-- `main`: `W.Add(1); go X.HandleRegUpdates(ctx, …, W)` and later, as top-level statements in this order, the cancel function\nof `ctx` and `W.Wait()` (the deferred `Cleanup()` runs after them) -/\n")
	fmt.Fprintf(&sb, "def mainWaitsForPipeline : Bool := %v\n", pf.mainWaitsForPipeline)
	var why []string
	for _, y := range pf.why {
		why = append(why, strconv.Quote(y))
	}
	fmt.Fprintf(&sb, "/-- what the extractor did not find (empty when the two facts above hold) -/\ndef pipelineFactsMissing : List String := [%s]\n", strings.Join(why, ", "))
	sb.WriteString("\nend CJ.Gen.C10\n")
	dir := os.Getenv("VERIF_OUT")
	if dir == "" {
		dir = os.TempDir()
	}
	if err := os.WriteFile(filepath.Join(dir, "C10Consts.lean"), []byte(sb.String()), 0o644); err != nil {
		t.Fatal(err)
	}
}
