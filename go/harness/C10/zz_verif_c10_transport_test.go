package lib

// `c10t|` lines: what the station's message carries for a transport (CJ.Props.C10Transport).
//
//	c10t|T,<wire>      the real transport's GetProto() and the IP next-header the detector keys the
//	                   session on, for every transport the station has registered (and for a type it has not)
//	c10t|P,<wire>,<port>  the PhantomPort of a registration the real parseRegMessage built without a
//	                   registrar override: the per-transport model must be able to produce it
import (
	"fmt"
	"sort"

	"github.com/refraction-networking/conjure/internal/vlib"
	pb "github.com/refraction-networking/conjure/proto"
)

var c10tSeen = map[string]bool{}

func (w *c10World) transportTable() {
	var tts []int
	for tt := range w.rm.registeredDecoys.transports {
		tts = append(tts, int(tt))
	}
	sort.Ints(tts)
	for _, i := range tts {
		tt := pb.TransportType(i)
		tr := w.rm.registeredDecoys.transports[tt]
		w.out.Case(fmt.Sprintf("c10t|T,%d", i), fmt.Sprintf("%d,%d", int(tr.GetProto()), c10TransportProto[tt]), true)
		w.out.Count(fmt.Sprintf("c10t:transport:%s:proto=%s", tt, tr.GetProto()))
	}
	for _, i := range []int{0, 5, 99} {
		if _, ok := w.rm.registeredDecoys.transports[pb.TransportType(i)]; !ok {
			w.out.Case(fmt.Sprintf("c10t|T,%d", i), "none", false)
		}
	}
}

// transportPort: called for every admitted registration whose port was chosen by the station itself
func (w *c10World) transportPort(reg *DecoyRegistration) {
	if vlib.Replay() != "" {
		return
	}
	line := fmt.Sprintf("c10t|P,%d,%d", int(reg.Transport), int(reg.PhantomPort))
	if c10tSeen[line] {
		return
	}
	c10tSeen[line] = true
	cls := "443"
	if reg.PhantomPort != 443 {
		cls = "other"
	}
	w.out.Count(fmt.Sprintf("c10t:port:%s:%s", reg.Transport, cls))
	w.out.Case(line, "ok", reg.PhantomPort != 443)
}
