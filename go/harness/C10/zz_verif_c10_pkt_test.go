//go:build verif

package lib

// Packet path of the detector (C10 growth): which packets the detector hands to the station once
// sessions have been announced.  A second stand-alone oracle is assembled from the tree under test: the
// items of the first oracle (src/sessions.rs incl. the whole `impl SessionTracker`, flow types) plus
// `FlowTracker` (src/flow_tracker.rs: struct, TIMEOUT_TRACKED_NS, whole impl, Flow::new / new_udp) plus
// the decision procedure of src/process_packet.rs (`match ip_pkt.next_layer()` of rust_process_packet,
// handle_tcp_pkt, handle_udp_pkt, check_for_tagged_flow, process_tls_pkt, is_tls_app_pkt,
// filter_station_traffic), surrounded by stubs for pnet's packet views, the tun write, the elligator tag
// search and the two test-string checks (each stub records an effect).  Announcements are made by the
// real sendToDetector / Cleanup of the station through the RESP stand-in, decoded with the detector's own
// wire table, and handed to pubsub_handle_s2d on the FlowTracker's session map.  The Lean model
// CJ.PacketPath answers the same history (`c10p|` lines).

import (
	"bufio"
	"crypto/sha256"
	"encoding/hex"
	"fmt"
	"net"
	"os"
	"os/exec"
	"path/filepath"
	"strconv"
	"strings"

	"github.com/refraction-networking/conjure/internal/vlib"
	pb "github.com/refraction-networking/conjure/proto"
)

const c10PktStubs = `
// ---- packet path: stubs for pnet's packet views and the parts of PerCoreGlobal that touch the outside ----
use std::collections::{HashSet, VecDeque};
use std::net::{Ipv4Addr, Ipv6Addr, SocketAddr};
use std::panic;
use std::str;

pub mod TcpFlags {
    pub const FIN: u8 = 1; pub const SYN: u8 = 2; pub const RST: u8 = 4;
    pub const PSH: u8 = 8; pub const ACK: u8 = 16; pub const URG: u8 = 32;
}
#[derive(Clone)]
pub struct L4 { nh: u8, ok: bool, sport: u16, dport: u16, flags: u8, payload: Vec<u8> }
pub struct P4 { src: Ipv4Addr, dst: Ipv4Addr, l4: L4 }
pub struct P6 { src: Ipv6Addr, dst: Ipv6Addr, l4: L4 }
impl P4 { pub fn get_source(&self) -> Ipv4Addr { self.src } pub fn get_destination(&self) -> Ipv4Addr { self.dst } }
impl P6 { pub fn get_source(&self) -> Ipv6Addr { self.src } pub fn get_destination(&self) -> Ipv6Addr { self.dst } }
pub enum IpPacket { V4(P4), V6(P6) }
pub struct TcpPacket { l4: L4 }
pub struct UdpPacket { l4: L4 }
impl TcpPacket {
    pub fn get_source(&self) -> u16 { self.l4.sport }
    pub fn get_destination(&self) -> u16 { self.l4.dport }
    pub fn get_flags(&self) -> u8 { self.l4.flags }
    pub fn payload(&self) -> &[u8] { &self.l4.payload }
}
impl UdpPacket {
    pub fn get_source(&self) -> u16 { self.l4.sport }
    pub fn get_destination(&self) -> u16 { self.l4.dport }
    pub fn payload(&self) -> &[u8] { &self.l4.payload }
}
impl IpPacket {
    fn l4(&self) -> &L4 { match self { IpPacket::V4(p) => &p.l4, IpPacket::V6(p) => &p.l4 } }
    pub fn next_layer(&self) -> IpNextHeaderProtocol { IpNextHeaderProtocol(self.l4().nh) }
    pub fn tcp(&self) -> Option<TcpPacket> { if self.l4().ok { Some(TcpPacket { l4: self.l4().clone() }) } else { None } }
    pub fn udp(&self) -> Option<UdpPacket> { if self.l4().ok { Some(UdpPacket { l4: self.l4().clone() }) } else { None } }
}
#[derive(Default)]
pub struct PerCoreStats {
    pub elligator_this_period: u64, pub tcp_packets_this_period: u64, pub tls_packets_this_period: u64,
    pub tls_bytes_this_period: u64, pub port_443_syns_this_period: u64,
}
pub struct PerCoreGlobal {
    pub flow_tracker: FlowTracker,
    pub stats: PerCoreStats,
    filter_list: Vec<String>,
    effects: String,
}
impl PerCoreGlobal {
    fn forward_pkt(&mut self, _ip_pkt: &IpPacket) { self.effects.push('f'); }
    fn check_dark_decoy_tag(&mut self, _flow: &Flow, _tcp_pkt: &TcpPacket) -> bool { self.effects.push('t'); false }
    fn check_connect_test_str(&mut self, _flow: &Flow, _tcp_pkt: &TcpPacket) { self.effects.push('c'); }
    fn check_udp_test_str(&mut self, _flow: &Flow, _udp_pkt: &UdpPacket) { self.effects.push('u'); }
}
`

const c10PktMain = `
// ---- packet path: line protocol ----
fn pkt_one(global: &mut PerCoreGlobal, step: &str) -> Result<String, String> {
    let i = step.find('@').ok_or_else(|| format!("no clock in {}", step))?;
    set_clock(step[..i].parse::<u128>().map_err(|_| format!("bad clock {}", step))?);
    let m = &step[i + 1..];
    let f: Vec<&str> = m.split(',').collect();
    let map = Arc::clone(&global.flow_tracker.phantom_flows.tracked_sessions);
    if f.len() == 1 && f[0] == "S" {
        let dropped = global.flow_tracker.drop_all_stale_flows();
        return Ok(format!("sweep:{}/{}/{}/{}", dropped, global.flow_tracker.count_phantom_flows(),
            global.flow_tracker.count_tracked_flows(), global.flow_tracker.stale_drops_tracked.len()));
    }
    if f.len() == 10 && f[0] == "P" {
        let nh = f[4].parse::<u8>().map_err(|_| "bad nh".to_string())?;
        let l4 = L4 {
            nh: nh, ok: f[5] == "1",
            sport: f[6].parse::<u16>().map_err(|_| "bad sport".to_string())?,
            dport: f[7].parse::<u16>().map_err(|_| "bad dport".to_string())?,
            flags: f[8].parse::<u8>().map_err(|_| "bad flags".to_string())?,
            payload: if f[9] == "-" { Vec::new() } else { unhex(f[9]).ok_or("bad payload")? },
        };
        let src = parse_addr(&format!("{}.{}", f[1], f[2]))?;
        let dst = parse_addr(&format!("{}.{}", f[1], f[3]))?;
        let flow = Flow::from_parts(src, dst, l4.sport, l4.dport, IpNextHeaderProtocol(nh));
        let cj_flow = FlowNoSrcPort::from_flow(&flow);
        let ip_pkt = match (src, dst) {
            (IpAddr::V4(s), IpAddr::V4(d)) => IpPacket::V4(P4 { src: s, dst: d, l4: l4 }),
            (IpAddr::V6(s), IpAddr::V6(d)) => IpPacket::V6(P6 { src: s, dst: d, l4: l4 }),
            _ => return Err("mixed families".to_string()),
        };
        global.effects.clear();
        pkt_dispatch(global, ip_pkt, 100);
        let val = { let mm = map.read().expect("RwLock broken"); match mm.get(&cj_flow.tag()) { Some(v) => format!("{}", v), None => "-".to_string() } };
        let effs = if global.effects.is_empty() { "-".to_string() } else { global.effects.clone() };
        return Ok(format!("pkt:{}/{}/{}/{}/{}/{}", effs, global.flow_tracker.count_phantom_flows(), val,
            global.flow_tracker.count_tracked_flows(), if global.flow_tracker.is_tracked_flow(&flow) { 1 } else { 0 },
            global.flow_tracker.stale_drops_tracked.len()));
    }
    if f.len() != 7 { return Err(format!("want 7 fields, got {}", f.len())); }
    let s2d = StationToDetector {
        f_operation: opt_num::<i32>(f[0])?,
        f_proto: opt_num::<i32>(f[1])?,
        f_client_ip: opt_str(f[2])?,
        f_phantom_ip: opt_str(f[3])?,
        f_dst_port: opt_num::<u32>(f[4])?,
        f_src_port: opt_num::<u32>(f[5])?,
        f_timeout_ns: opt_num::<u64>(f[6])?,
    };
    let tag = match SessionResult::from(&s2d) { Ok(sd) => Some(sd.tag()), Err(_) => None };
    pubsub_handle_s2d(&map, &s2d);
    let mm = map.read().expect("RwLock broken");
    let val = match &tag { Some(t) => match mm.get(t) { Some(v) => format!("{}", v), None => "-".to_string() }, None => "-".to_string() };
    Ok(format!("msg:{}/{}", mm.len(), val))
}

fn main() {
    let stdin = io::stdin();
    let stdout = io::stdout();
    let mut out = stdout.lock();
    for line in stdin.lock().lines() {
        let line = match line { Ok(l) => l, Err(_) => break };
        let parts: Vec<&str> = line.splitn(2, '|').collect();
        if parts.len() != 2 { writeln!(out, "BAD line").unwrap(); out.flush().unwrap(); continue; }
        // filter list: entries as hex of their text; the answer starts with how each entry relates to the
        // text the detector compares it with (IpAddr::to_string()): the address whose canonical text it is, or X
        let mut filter: Vec<String> = Vec::new();
        let mut cls: Vec<String> = Vec::new();
        if parts[0] != "-" {
            for e in parts[0].split(',') {
                let txt = match unhex(e).and_then(|b| String::from_utf8(b).ok()) { Some(t) => t, None => { cls.push("BAD".to_string()); continue; } };
                cls.push(match txt.parse::<IpAddr>() { Ok(a) if a.to_string() == txt => show_ip(&a), _ => "X".to_string() });
                filter.push(txt);
            }
        }
        set_clock(0);
        let mut global = PerCoreGlobal { flow_tracker: FlowTracker::new(), stats: PerCoreStats::default(), filter_list: filter, effects: String::new() };
        let mut res: Vec<String> = Vec::new();
        for m in parts[1].split(';') {
            match pkt_one(&mut global, m) { Ok(s) => res.push(s), Err(e) => res.push(format!("BAD {}", e)) }
        }
        writeln!(out, "L:{}|{}", cls.join(","), res.join(";")).unwrap();
        out.flush().unwrap();
    }
}
`

// member functions of `impl PerCoreGlobal` (src/process_packet.rs) that make up the decision procedure
var c10PktMembers = []string{
	`^\s*fn handle_tcp_pkt\b`,
	`^\s*fn handle_udp_pkt\b`,
	`^\s*fn check_for_tagged_flow\b`,
	`^\s*pub fn process_tls_pkt\b`,
	`^\s*fn filter_station_traffic\b`,
}

func c10PktOracleSource() (string, error) {
	base, _, err := c10OracleSource()
	if err != nil {
		return "", err
	}
	if !strings.HasSuffix(base, c10RustTail) {
		return "", fmt.Errorf("packet oracle: the base oracle does not end with its line protocol")
	}
	base = strings.TrimSuffix(base, c10RustTail)
	cut := strings.Index(c10RustTail, "\nfn one(")
	if cut < 0 {
		return "", fmt.Errorf("packet oracle: helper part of the base line protocol not found")
	}
	helpers := c10RustTail[:cut]
	read := func(name string) (string, error) {
		b, err := os.ReadFile(filepath.Join(c10RepoRoot(), "src", name))
		if err != nil {
			return "", err
		}
		s := string(b)
		if i := strings.Index(s, "#[cfg(test)]"); i > 0 {
			s = s[:i]
		}
		return s, nil
	}
	fsrc, err := read("flow_tracker.rs")
	if err != nil {
		return "", err
	}
	psrc, err := read("process_packet.rs")
	if err != nil {
		return "", err
	}
	var parts []string
	for _, h := range []string{`^pub struct SchedEvent\b`, `^pub struct FlowTracker\b`, `^const TIMEOUT_TRACKED_NS\b`, `^impl FlowTracker\b`} {
		it, err := c10SliceItem(fsrc, h)
		if err != nil {
			return "", fmt.Errorf("flow_tracker.rs: %v", err)
		}
		parts = append(parts, it)
	}
	blk, err := c10SliceItem(fsrc, `^impl Flow\b`)
	if err != nil {
		return "", fmt.Errorf("flow_tracker.rs: %v", err)
	}
	for _, h := range []string{`^\s*pub fn new\b`, `^\s*pub fn new_udp\b`} {
		fn, err := c10SliceItem(blk, h)
		if err != nil {
			return "", fmt.Errorf("flow_tracker.rs, inside impl Flow: %v", err)
		}
		parts = append(parts, "impl Flow {\n"+fn+"\n}")
	}
	for _, h := range []string{`^const TLS_TYPE_APPLICATION_DATA\b`, `^fn is_tls_app_pkt\b`} {
		it, err := c10SliceItem(psrc, h)
		if err != nil {
			return "", fmt.Errorf("process_packet.rs: %v", err)
		}
		parts = append(parts, it)
	}
	pblk, err := c10SliceItem(psrc, `^impl PerCoreGlobal\b`)
	if err != nil {
		return "", fmt.Errorf("process_packet.rs: %v", err)
	}
	var members []string
	for _, h := range c10PktMembers {
		fn, err := c10SliceItem(pblk, h)
		if err != nil {
			return "", fmt.Errorf("process_packet.rs, inside impl PerCoreGlobal: %v", err)
		}
		members = append(members, fn)
	}
	parts = append(parts, "impl PerCoreGlobal {\n"+strings.Join(members, "\n\n")+"\n}")
	entry, err := c10SliceItem(psrc, `^pub unsafe extern "C" fn rust_process_packet\b`)
	if err != nil {
		return "", fmt.Errorf("process_packet.rs: %v", err)
	}
	disp, err := c10SliceItem(entry, `^\s*match ip_pkt\.next_layer\(\)`)
	if err != nil {
		return "", fmt.Errorf("process_packet.rs, inside rust_process_packet: %v", err)
	}
	parts = append(parts, "fn pkt_dispatch(global: &mut PerCoreGlobal, ip_pkt: IpPacket, frame_len: usize) {\n"+disp+"\n}")
	return base + c10PktStubs + "\n// ---- sliced out of src/flow_tracker.rs and src/process_packet.rs ----\n" +
		strings.Join(parts, "\n\n") + "\n" + helpers + c10PktMain, nil
}

type c10PktOracle struct {
	cmd *exec.Cmd
	in  *bufio.Writer
	out *bufio.Reader
	cl  func()
}

func c10BuildPktOracle() (*c10PktOracle, error) {
	prog, err := c10PktOracleSource()
	if err != nil {
		return nil, err
	}
	dir := os.Getenv("VERIF_OUT")
	if dir == "" {
		dir = filepath.Join(os.TempDir(), "verif-out-C10")
	}
	if err := os.MkdirAll(dir, 0o755); err != nil {
		return nil, err
	}
	sum := sha256.Sum256([]byte(prog))
	base := filepath.Join(dir, "c10_packet_oracle_"+hex.EncodeToString(sum[:6]))
	if _, err := os.Stat(base); err != nil {
		if err := os.WriteFile(base+".rs", []byte(prog), 0o644); err != nil {
			return nil, err
		}
		tmp := fmt.Sprintf("%s.tmp%d", base, os.Getpid())
		c := exec.Command("rustc", "--edition", "2021", "-O", "-o", tmp, base+".rs")
		if outp, err := c.CombinedOutput(); err != nil {
			return nil, fmt.Errorf("rustc failed on the text sliced out of flow_tracker.rs / process_packet.rs: %v\n%s", err, outp)
		}
		if err := os.Rename(tmp, base); err != nil {
			return nil, err
		}
	}
	cmd := exec.Command(base)
	stdin, err := cmd.StdinPipe()
	if err != nil {
		return nil, err
	}
	stdout, err := cmd.StdoutPipe()
	if err != nil {
		return nil, err
	}
	cmd.Stderr = os.Stderr
	if err := cmd.Start(); err != nil {
		return nil, err
	}
	return &c10PktOracle{cmd: cmd, in: bufio.NewWriter(stdin), out: bufio.NewReaderSize(stdout, 1<<16),
		cl: func() { stdin.Close(); _ = cmd.Wait() }}, nil
}

func (o *c10PktOracle) ask(line string) (string, error) {
	if _, err := o.in.WriteString(line + "\n"); err != nil {
		return "", err
	}
	if err := o.in.Flush(); err != nil {
		return "", err
	}
	resp, err := o.out.ReadString('\n')
	if err != nil {
		return "", fmt.Errorf("packet oracle died: %v", err)
	}
	return strings.TrimRight(resp, "\n"), nil
}

// one event of a packet history
type c10PktEv struct {
	at   uint64
	kind string // send | clear | sweep | pkt
	// send
	reg *DecoyRegistration
	dur uint64
	op  int
	// pkt
	src, dst     net.IP // both 4 or both 16 bytes
	nh           int
	l4ok         bool
	sport, dport int
	flags        int
	payload      []byte
}

func (e c10PktEv) script() string {
	switch e.kind {
	case "send":
		return fmt.Sprintf("%d,send,%s,%s,%d,%d,%d,%d", e.at, vlib.Hex(e.reg.PhantomIp), vlib.Hex(e.reg.registrationAddr), e.reg.PhantomPort, int(e.reg.PhantomProto), e.op, e.dur)
	case "clear":
		return fmt.Sprintf("%d,clear", e.at)
	case "sweep":
		return fmt.Sprintf("%d,S", e.at)
	}
	return fmt.Sprintf("%d,%s", e.at, e.pktBody())
}

func (e c10PktEv) pktBody() string {
	fam := "4"
	if len(e.src) == 16 {
		fam = "6"
	}
	pl := "-"
	if len(e.payload) > 0 {
		pl = hex.EncodeToString(e.payload)
	}
	ok := 0
	if e.l4ok {
		ok = 1
	}
	return fmt.Sprintf("P,%s,%s,%s,%d,%d,%d,%d,%d,%s", fam, hex.EncodeToString(e.src), hex.EncodeToString(e.dst), e.nh, ok, e.sport, e.dport, e.flags, pl)
}

// the key the property speaks about: (protocol, registrant for an IPv4 phantom, phantom, port)
func c10PktKey(proto int, src, dst net.IP, dport int) string {
	s := ""
	if len(dst) == 4 {
		s = hex.EncodeToString(src)
	}
	return fmt.Sprintf("%d/%s/%s/%d", proto, s, hex.EncodeToString(dst), dport)
}

func c10Norm(ip net.IP) net.IP {
	if v4 := ip.To4(); v4 != nil {
		return v4
	}
	return ip.To16()
}

// pktRun executes one packet history: announcements through the real station code, everything through the
// packet oracle, the model line, and the property oracles.
func (w *c10World) pktRun(po *c10PktOracle, filter []string, evs []c10PktEv, nontrivial bool) {
	var orcSteps, modelSteps, scr []string
	for _, e := range evs {
		scr = append(scr, e.script())
		pre := strconv.FormatUint(e.at, 10) + "@"
		switch e.kind {
		case "send":
			st := w.stepSend(e.reg, e.dur, e.op)
			orcSteps = append(orcSteps, pre+st.orc)
			modelSteps = append(modelSteps, pre+st.model)
		case "clear":
			st := w.stepClear()
			orcSteps = append(orcSteps, pre+st.orc)
			modelSteps = append(modelSteps, pre+st.model)
		case "sweep":
			orcSteps = append(orcSteps, pre+"S")
			modelSteps = append(modelSteps, pre+"S")
		default:
			orcSteps = append(orcSteps, pre+e.pktBody())
			modelSteps = append(modelSteps, pre+e.pktBody())
		}
	}
	fl := "-"
	if len(filter) > 0 {
		var hx []string
		for _, f := range filter {
			hx = append(hx, hex.EncodeToString([]byte(f)))
		}
		fl = strings.Join(hx, ",")
	}
	replay := "c10pkt|" + fl + "|" + strings.Join(scr, ";")
	resp, err := po.ask(fl + "|" + strings.Join(orcSteps, ";"))
	if err != nil {
		w.t.Fatal(err)
	}
	hp := strings.SplitN(resp, "|", 2)
	if len(hp) != 2 || !strings.HasPrefix(hp[0], "L:") {
		w.t.Fatalf("packet oracle: %q", resp)
	}
	// the model's filter: the entries that are the canonical text of an address (as the detector's own
	// parser and printer see them)
	var mf []string
	filteredSrc := map[string]bool{}
	if cl := strings.TrimPrefix(hp[0], "L:"); cl != "" {
		for _, c := range strings.Split(cl, ",") {
			if c != "X" && c != "BAD" {
				mf = append(mf, c)
				filteredSrc[c[2:]] = true
			}
		}
	}
	mfl := "-"
	if len(mf) > 0 {
		mfl = strings.Join(mf, ",")
	}
	answers := strings.Split(hp[1], ";")
	if len(answers) != len(evs) {
		w.t.Fatalf("packet oracle: %d answers for %d events: %q", len(answers), len(evs), resp)
	}
	w.out.Case("c10p|"+mfl+"|"+strings.Join(modelSteps, ";"), hp[1], nontrivial)

	// property oracles (ground truth kept here, independent of the model): promised[key] = latest instant
	// up to which an announcement since the last clear asked for forwarding; a monotone clock.
	promised := map[string]uint64{}
	for i, e := range evs {
		switch e.kind {
		case "send":
			if e.op == 1 || e.op == 2 {
				proto := 0
				switch e.reg.PhantomProto {
				case pb.IPProto_Tcp:
					proto = 6
				case pb.IPProto_Udp:
					proto = 17
				}
				ph, rg := c10Norm(e.reg.PhantomIp), c10Norm(e.reg.registrationAddr)
				if proto != 0 && ph != nil && rg != nil && !(len(ph) == 4 && len(rg) == 16) {
					k := c10PktKey(proto, rg, ph, int(e.reg.PhantomPort))
					if d := c10SatAdd(e.at, e.dur); d > promised[k] {
						promised[k] = d
					}
					w.out.Count("pkt:announce:" + map[int]string{1: "new", 2: "update"}[e.op])
				}
			}
		case "clear":
			promised = map[string]uint64{}
			w.out.Count("pkt:clear")
		case "sweep":
			w.out.Count("pkt:sweep")
		default:
			a := answers[i]
			if !strings.HasPrefix(a, "pkt:") {
				w.t.Fatalf("packet oracle answered %q to a packet", a)
			}
			effs := strings.SplitN(strings.TrimPrefix(a, "pkt:"), "/", 2)[0]
			fwd := strings.Contains(effs, "f")
			k := c10PktKey(e.nh, e.src, e.dst, e.dport)
			d, announced := promised[k]
			w.out.Checked()
			switch {
			case fwd && !announced:
				w.out.Count("pkt:verdict:unannounced-forwarded")
				w.out.OracleFail("C10:unannounced-flow-forwarded", fmt.Sprintf("event %d: packet %s is handed to the station, but no announcement since the last clear was made for its (protocol, source, destination, port)", i, e.pktBody()), replay)
			case announced && e.at < d && e.l4ok && (e.nh == 6 || e.nh == 17) && !filteredSrc[hex.EncodeToString(e.src)] && !fwd:
				w.out.Count("pkt:verdict:announced-not-forwarded")
				w.out.OracleFail("C10:announced-flow-not-forwarded", fmt.Sprintf("event %d: packet %s at %d ns belongs to a session announced until %d ns and is not handed to the station", i, e.pktBody(), e.at, d), replay)
			case fwd:
				w.out.Count("pkt:verdict:forwarded")
			case announced && e.at < d:
				w.out.Count("pkt:verdict:announced-but-unparsable-or-station-source")
			case announced:
				w.out.Count("pkt:verdict:after-announced-lifetime")
			default:
				w.out.Count("pkt:verdict:not-a-session")
			}
			for _, c := range effs {
				w.out.Count("pkt:effect:" + string(c))
			}
		}
	}
}

const (
	c10Sec = uint64(1000000000)
)

// pktHistory builds a random history around 1-3 registrations.
func (w *c10World) pktHistory(r *vlib.Rand) ([]string, []c10PktEv) {
	nreg := r.Range(1, 3)
	var regs []*DecoyRegistration
	for i := 0; i < nreg; i++ {
		d := &DecoyRegistration{PhantomPort: uint16([]int{443, 443, 53, 8443, r.Range(1, 65535)}[r.Intn(5)]), PhantomProto: pb.IPProto_Tcp}
		if r.Chance(1, 3) {
			d.PhantomProto = pb.IPProto_Udp
		}
		if r.Chance(1, 2) {
			d.PhantomIp = net.IP{192, 122, 190, byte(r.Range(1, 4))}
			d.registrationAddr = net.IP{203, 0, 113, byte(r.Range(1, 4))}
			if r.Chance(1, 4) {
				d.registrationAddr = d.registrationAddr.To16() // v4-mapped, as the station stores it
			}
		} else {
			d.PhantomIp = net.ParseIP(fmt.Sprintf("2001:48a8:687f:1::%x", r.Range(1, 4)))
			d.registrationAddr = net.ParseIP(fmt.Sprintf("2001:db8::%x", r.Range(1, 4)))
			if r.Chance(1, 4) {
				d.registrationAddr = net.IP{203, 0, 113, byte(r.Range(1, 4))}
			}
		}
		regs = append(regs, d)
	}
	var filter []string
	switch r.Intn(5) {
	case 0:
		filter = []string{"203.0.113.1"}
	case 1:
		filter = []string{"192.122.200.231", "2001:db8::1", "203.0.113.02"} // the last one is not canonical
	case 2:
		filter = []string{"2001:DB8::2", "::ffff:203.0.113.3"}
	}
	now := uint64(0)
	deltas := []uint64{1, 20 * c10Sec, 31 * c10Sec, 240 * c10Sec, 301 * c10Sec, 540 * c10Sec, 599 * c10Sec, 660 * c10Sec, 3 * 3600 * c10Sec, 6*3600*c10Sec + c10Sec}
	flagSet := []int{2, 2, 18, 16, 24, 24, 17, 4, 0}
	payloads := [][]byte{nil, {0x17, 3, 3, 0, 1, 0}, {0x17, 3, 3}, {0x16, 3, 1, 0, 5, 1, 0}, {0x17, 3, 3, 0, 20, 1, 2, 3, 4, 5, 6}}
	n := r.Range(4, 14)
	var evs []c10PktEv
	for i := 0; i < n; i++ {
		now += deltas[r.Intn(len(deltas))] + uint64(r.Intn(7))
		d := regs[r.Intn(len(regs))]
		switch x := r.Intn(20); {
		case x < 4 || i == 0:
			op, dur := 1, uint64(c10TenMinutesNs)
			if r.Chance(1, 3) {
				op, dur = 2, uint64(c10SixHoursNs)
			}
			if r.Chance(1, 6) {
				dur = uint64(r.Range(1, 900)) * c10Sec
			}
			evs = append(evs, c10PktEv{at: now, kind: "send", reg: d, dur: dur, op: op})
		case x < 7:
			evs = append(evs, c10PktEv{at: now, kind: "sweep"})
		case x == 7 && r.Chance(1, 3):
			evs = append(evs, c10PktEv{at: now, kind: "clear"})
		case x == 8 || x == 9:
			// a watched flow: SYN to some non-phantom destination on 443, then data / more SYNs / FIN, a few ns apart
			e := c10PktEv{at: now, kind: "pkt", src: net.IP{203, 0, 113, byte(r.Range(1, 3))}, dst: net.IP{198, 51, 100, byte(r.Range(1, 2))},
				nh: 6, l4ok: true, sport: 40000 + r.Intn(2), dport: 443, flags: 2}
			if r.Chance(1, 3) {
				e.src, e.dst = net.ParseIP("2001:db8::3"), net.ParseIP("2001:db8:ffff::1")
			}
			evs = append(evs, e)
			for k := r.Range(1, 3); k > 0; k-- {
				now += uint64(r.Range(1, 9))
				if r.Chance(1, 5) {
					now += 31 * c10Sec
					evs = append(evs, c10PktEv{at: now, kind: "sweep"})
					now++
				}
				f := e
				f.at, f.flags, f.payload = now, []int{24, 24, 24, 16, 17, 2, 18}[r.Intn(7)], payloads[r.Intn(len(payloads))]
				evs = append(evs, f)
			}
		default:
			ph, rg := c10Norm(d.PhantomIp), c10Norm(d.registrationAddr)
			proto := 6
			if d.PhantomProto == pb.IPProto_Udp {
				proto = 17
			}
			e := c10PktEv{at: now, kind: "pkt", dst: ph, nh: proto, l4ok: true, sport: []int{40000, 40001, r.Range(1024, 65535)}[r.Intn(3)],
				dport: int(d.PhantomPort), flags: flagSet[r.Intn(len(flagSet))], payload: payloads[r.Intn(len(payloads))]}
			// the source: the registrant when it has the phantom's family, else some address of that family
			if len(rg) == len(ph) {
				e.src = rg
			} else if len(ph) == 4 {
				e.src = net.IP{203, 0, 113, 9}
			} else {
				e.src = net.ParseIP("2001:db8::9")
			}
			switch r.Intn(12) {
			case 0: // another source
				if len(ph) == 4 {
					e.src = net.IP{203, 0, 113, byte(r.Range(1, 5))}
				} else {
					e.src = net.ParseIP(fmt.Sprintf("2001:db8::%x", r.Range(1, 5)))
				}
			case 1: // another port
				e.dport = []int{443, 53, 80, int(d.PhantomPort) + 1}[r.Intn(4)] % 65536
			case 2: // the other transport protocol
				e.nh = 23 - proto
			case 3: // neither TCP nor UDP
				e.nh = []int{1, 47, 58, 0}[r.Intn(4)]
			case 4: // transport header does not parse
				e.l4ok = false
			case 5, 6: // a flow to some other destination on 443: the watched-flow machine
				e.nh = 6
				e.dport = 443
				if len(ph) == 4 {
					e.dst = net.IP{198, 51, 100, byte(r.Range(1, 2))}
				} else {
					e.dst = net.ParseIP(fmt.Sprintf("2001:db8:ffff::%x", r.Range(1, 2)))
				}
				e.sport = 40000 + r.Intn(2)
			case 7: // a neighbouring phantom
				e.dst = append(net.IP{}, ph...)
				e.dst[len(e.dst)-1] ^= byte(r.Range(1, 7))
			}
			evs = append(evs, e)
		}
	}
	return filter, evs
}

func c10PktCorpus() [][]c10PktEv {
	d4 := &DecoyRegistration{PhantomIp: net.IP{192, 122, 190, 5}, registrationAddr: net.IP{203, 0, 113, 5}, PhantomPort: 443, PhantomProto: pb.IPProto_Tcp}
	d6 := &DecoyRegistration{PhantomIp: net.ParseIP("2001:48a8:687f:1::5"), registrationAddr: net.ParseIP("2001:db8::5"), PhantomPort: 50123, PhantomProto: pb.IPProto_Udp}
	p4 := func(at uint64, flags int, pl []byte) c10PktEv {
		return c10PktEv{at: at, kind: "pkt", src: net.IP{203, 0, 113, 5}, dst: net.IP{192, 122, 190, 5}, nh: 6, l4ok: true, sport: 40000, dport: 443, flags: flags, payload: pl}
	}
	p6 := func(at uint64, src string) c10PktEv {
		return c10PktEv{at: at, kind: "pkt", src: net.ParseIP(src), dst: net.ParseIP("2001:48a8:687f:1::5"), nh: 17, l4ok: true, sport: 5000, dport: 50123}
	}
	o4 := func(at uint64, flags int, pl []byte) c10PktEv {
		return c10PktEv{at: at, kind: "pkt", src: net.IP{203, 0, 113, 5}, dst: net.IP{198, 51, 100, 7}, nh: 6, l4ok: true, sport: 40000, dport: 443, flags: flags, payload: pl}
	}
	app := []byte{0x17, 3, 3, 0, 1, 0}
	ten, six := uint64(c10TenMinutesNs), uint64(c10SixHoursNs)
	return [][]c10PktEv{
		// announced, used within the lifetime, swept, used again; after the lifetime as extended by traffic
		{{at: 0, kind: "send", reg: d4, dur: ten, op: 1}, p4(5*c10Sec, 2, nil), {at: 7 * c10Sec, kind: "sweep"}, p4(9*c10Sec, 24, app),
			p4(ten-c10Sec, 16, nil), {at: ten + c10Sec, kind: "sweep"}, p4(ten+2*c10Sec, 16, nil), {at: ten + 400*c10Sec, kind: "sweep"}, p4(ten+401*c10Sec, 16, nil)},
		// a packet inside a six-hour session must not shorten it
		{{at: 0, kind: "send", reg: d4, dur: six, op: 2}, p4(60*c10Sec, 24, app), {at: 3600 * c10Sec, kind: "sweep"}, p4(3601*c10Sec, 24, app)},
		// never announced: SYN, data (tag search once), data again, FIN; timeout of a watched flow
		{o4(1, 2, nil), o4(2, 24, app), o4(3, 24, app), o4(4, 2, nil), o4(5, 17, nil), o4(6, 24, app), o4(7, 2, nil), {at: 40 * c10Sec, kind: "sweep"}, o4(41*c10Sec, 24, app)},
		// IPv6 phantom: any source; UDP
		{{at: 0, kind: "send", reg: d6, dur: ten, op: 1}, p6(c10Sec, "2001:db8::5"), p6(2*c10Sec, "2001:db8::77"), {at: 3 * c10Sec, kind: "clear"}, p6(4*c10Sec, "2001:db8::5")},
		// both announced, clear, one re-announced
		{{at: 0, kind: "send", reg: d4, dur: ten, op: 1}, {at: 1, kind: "send", reg: d6, dur: ten, op: 1}, {at: 2, kind: "clear"}, {at: 3, kind: "send", reg: d6, dur: six, op: 2}, p4(4, 2, nil), p6(5, "2001:db8::5")},
	}
}

func (w *c10World) packetPath(r *vlib.Rand) {
	po, err := c10BuildPktOracle()
	if err != nil {
		w.t.Fatal(err)
	}
	defer po.cl()
	for _, c := range c10PktCorpus() {
		w.pktRun(po, nil, c, true)
		w.pktRun(po, []string{"203.0.113.5", "2001:db8::77"}, c, true)
	}
	n := vlib.Budget(2500, 40000)
	for i := 0; i < n; i++ {
		f, evs := w.pktHistory(r)
		w.pktRun(po, f, evs, true)
	}
}

// pktReplay re-executes a `c10pkt|<filter>|<script>` replay line.
func (w *c10World) pktReplay(line string) {
	p := strings.SplitN(line, "|", 3)
	if len(p) != 3 {
		w.t.Fatalf("bad packet replay line %q", line)
	}
	var filter []string
	if p[1] != "-" {
		for _, h := range strings.Split(p[1], ",") {
			b, _ := hex.DecodeString(h)
			filter = append(filter, string(b))
		}
	}
	var evs []c10PktEv
	for _, s := range strings.Split(p[2], ";") {
		f := strings.Split(s, ",")
		at, err := strconv.ParseUint(f[0], 10, 64)
		if err != nil || len(f) < 2 {
			w.t.Fatalf("bad packet replay step %q", s)
		}
		switch f[1] {
		case "send":
			if len(f) != 8 {
				w.t.Fatalf("bad packet replay step %q", s)
			}
			ph, _ := hex.DecodeString(f[2])
			rg, _ := hex.DecodeString(f[3])
			port, _ := strconv.Atoi(f[4])
			pr, _ := strconv.Atoi(f[5])
			op, _ := strconv.Atoi(f[6])
			dur, _ := strconv.ParseUint(f[7], 10, 64)
			evs = append(evs, c10PktEv{at: at, kind: "send", reg: &DecoyRegistration{PhantomIp: ph, registrationAddr: rg, PhantomPort: uint16(port), PhantomProto: pb.IPProto(pr)}, dur: dur, op: op})
		case "clear":
			evs = append(evs, c10PktEv{at: at, kind: "clear"})
		case "S":
			evs = append(evs, c10PktEv{at: at, kind: "sweep"})
		case "P":
			if len(f) != 11 {
				w.t.Fatalf("bad packet replay step %q", s)
			}
			src, _ := hex.DecodeString(f[3])
			dst, _ := hex.DecodeString(f[4])
			e := c10PktEv{at: at, kind: "pkt", src: src, dst: dst, l4ok: f[6] == "1"}
			e.nh, _ = strconv.Atoi(f[5])
			e.sport, _ = strconv.Atoi(f[7])
			e.dport, _ = strconv.Atoi(f[8])
			e.flags, _ = strconv.Atoi(f[9])
			if f[10] != "-" {
				e.payload, _ = hex.DecodeString(f[10])
			}
			evs = append(evs, e)
		default:
			w.t.Fatalf("bad packet replay step %q", s)
		}
	}
	po, err := c10BuildPktOracle()
	if err != nil {
		w.t.Fatal(err)
	}
	defer po.cl()
	w.pktRun(po, filter, evs, true)
}
