//go:build verif

package lib

// In-process stand-in for the Redis server the station publishes detector announcements to:
// a minimal RESP2 server on a loopback port that answers PING / PUBLISH / anything else and records
// every PUBLISH (channel, payload).  The station's package-level client is pointed at it, so the real
// sendToDetector / clearDetector run unchanged down to the socket.

import (
	"bufio"
	"fmt"
	"io"
	"net"
	"strconv"
	"strings"
	"sync"

	"github.com/go-redis/redis/v8"
)

type c10Pub struct {
	channel string
	payload []byte
}

type c10Redis struct {
	ln    net.Listener
	addr  string
	mu    sync.Mutex
	pubs  []c10Pub
	total int // publications ever recorded
	cmds  map[string]int
	conns map[net.Conn]struct{}
}

func c10StartRedis() (*c10Redis, error) { return c10StartRedisAt("127.0.0.1:0") }

// c10StartRedisAt listens on a given address ("127.0.0.1:6379" is where the station's own initialiser
// looks for the server).
func c10StartRedisAt(addr string) (*c10Redis, error) {
	r := &c10Redis{cmds: map[string]int{}, conns: map[net.Conn]struct{}{}}
	ln, err := net.Listen("tcp", addr)
	if err != nil {
		return nil, err
	}
	r.addr = ln.Addr().String()
	r.listen(ln)
	return r, nil
}

func (r *c10Redis) listen(ln net.Listener) {
	r.mu.Lock()
	r.ln = ln
	r.mu.Unlock()
	go func() {
		for {
			c, err := ln.Accept()
			if err != nil {
				return
			}
			r.mu.Lock()
			if r.ln != ln { // went down in the meantime
				r.mu.Unlock()
				c.Close()
				continue
			}
			r.conns[c] = struct{}{}
			r.mu.Unlock()
			go r.serve(c)
		}
	}()
}

// goDown makes the server unreachable: the listener is closed (connections are refused) and every open
// connection is dropped.
func (r *c10Redis) goDown() {
	r.mu.Lock()
	ln := r.ln
	r.ln = nil
	var cs []net.Conn
	for c := range r.conns {
		cs = append(cs, c)
	}
	r.conns = map[net.Conn]struct{}{}
	r.mu.Unlock()
	if ln != nil {
		ln.Close()
	}
	for _, c := range cs {
		c.Close()
	}
}

// comeUp listens on the same address again.
func (r *c10Redis) comeUp() error {
	r.mu.Lock()
	up := r.ln != nil
	r.mu.Unlock()
	if up {
		return nil
	}
	ln, err := net.Listen("tcp", r.addr)
	if err != nil {
		return err
	}
	r.listen(ln)
	return nil
}

func (r *c10Redis) count() int {
	r.mu.Lock()
	defer r.mu.Unlock()
	return r.total
}

func c10ReadCommand(br *bufio.Reader) ([][]byte, error) {
	line, err := br.ReadString('\n')
	if err != nil {
		return nil, err
	}
	line = strings.TrimRight(line, "\r\n")
	if !strings.HasPrefix(line, "*") {
		// inline command
		var out [][]byte
		for _, f := range strings.Fields(line) {
			out = append(out, []byte(f))
		}
		return out, nil
	}
	n, err := strconv.Atoi(line[1:])
	if err != nil {
		return nil, err
	}
	args := make([][]byte, 0, n)
	for i := 0; i < n; i++ {
		l, err := br.ReadString('\n')
		if err != nil {
			return nil, err
		}
		l = strings.TrimRight(l, "\r\n")
		if !strings.HasPrefix(l, "$") {
			return nil, fmt.Errorf("resp: expected bulk string, got %q", l)
		}
		sz, err := strconv.Atoi(l[1:])
		if err != nil {
			return nil, err
		}
		buf := make([]byte, sz+2)
		if _, err := io.ReadFull(br, buf); err != nil {
			return nil, err
		}
		args = append(args, buf[:sz])
	}
	return args, nil
}

func (r *c10Redis) serve(c net.Conn) {
	defer func() {
		c.Close()
		r.mu.Lock()
		delete(r.conns, c)
		r.mu.Unlock()
	}()
	br := bufio.NewReader(c)
	for {
		args, err := c10ReadCommand(br)
		if err != nil {
			return
		}
		if len(args) == 0 {
			continue
		}
		name := strings.ToUpper(string(args[0]))
		r.mu.Lock()
		r.cmds[name]++
		reply := "+OK\r\n"
		switch name {
		case "PING":
			reply = "+PONG\r\n"
		case "PUBLISH":
			if len(args) == 3 {
				r.pubs = append(r.pubs, c10Pub{channel: string(args[1]), payload: append([]byte(nil), args[2]...)})
				r.total++
				reply = ":1\r\n"
			} else {
				reply = "-ERR wrong number of arguments for 'publish' command\r\n"
			}
		}
		r.mu.Unlock()
		if _, err := c.Write([]byte(reply)); err != nil {
			return
		}
	}
}

// take returns the publications recorded since the last call.
func (r *c10Redis) take() []c10Pub {
	r.mu.Lock()
	defer r.mu.Unlock()
	p := r.pubs
	r.pubs = nil
	return p
}

// c10PointStationAt makes the package-level Redis client (detector_channel.go) talk to the stand-in:
// the lazy initialiser is consumed so that it does not replace the client with localhost:6379.
func c10PointStationAt(r *c10Redis) {
	once.Do(func() {})
	client = redis.NewClient(&redis.Options{Addr: r.addr, Password: "", DB: 0, PoolSize: 4})
}
