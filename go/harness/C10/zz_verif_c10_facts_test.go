//go:build verif

package lib

// Facts about the station's main package (cmd/application) that no run of this package's code can
// observe (tie 1, go/ast over the tree under test):
//
//   - which transports the station enables (the keys of `enabledTransports`: the composite literal plus
//     the `enabledTransports[pb.TransportType_X] = …` assignments in main) — the quantifier domain of
//     "every transport" in the harness and of transport_protos_acceptable;
//   - that `main` defers `<registration manager>.Cleanup()` as a top-level statement before it starts
//     any goroutine that works on the registration manager, and that no statement of `main` after that
//     start leaves the process without unwinding (os.Exit, *.Fatal*, runtime.Goexit, panic): the
//     shutdown clause of C10 depends on the deferred call being reached when the signal loop ends.

import (
	"fmt"
	"go/ast"
	"go/parser"
	"go/token"
	"os"
	"path/filepath"
	"sort"
	"strings"

	pb "github.com/refraction-networking/conjure/proto"
)

type c10Facts struct {
	enabled        []pb.TransportType
	regManagerVar  string
	defersCleanup  bool     // `defer X.Cleanup()` (possibly inside a deferred closure) is a top-level statement of main …
	deferBeforeGo  bool     // … that precedes the first go statement referring to X
	exitsAfterGo   []string // calls that end the process without running deferred calls, lexically after that go statement
	goStartsWorker bool     // some go statement of main refers to X (the station does start working)
}

func c10MainFacts() (*c10Facts, error) {
	dir := filepath.Join(c10RepoRoot(), "cmd", "application")
	ents, err := os.ReadDir(dir)
	if err != nil {
		return nil, err
	}
	fset := token.NewFileSet()
	var files []*ast.File
	for _, e := range ents {
		n := e.Name()
		if e.IsDir() || !strings.HasSuffix(n, ".go") || strings.HasSuffix(n, "_test.go") {
			continue
		}
		f, err := parser.ParseFile(fset, filepath.Join(dir, n), nil, 0)
		if err != nil {
			return nil, err
		}
		if f.Name.Name == "main" {
			files = append(files, f)
		}
	}
	facts := &c10Facts{}
	enabled := map[pb.TransportType]bool{}
	transportOf := func(e ast.Expr) (pb.TransportType, error) {
		sel, ok := e.(*ast.SelectorExpr)
		if !ok || !strings.HasPrefix(sel.Sel.Name, "TransportType_") {
			return 0, fmt.Errorf("enabledTransports key is not a pb.TransportType_… constant")
		}
		v, ok := pb.TransportType_value[strings.TrimPrefix(sel.Sel.Name, "TransportType_")]
		if !ok {
			return 0, fmt.Errorf("unknown transport constant %s", sel.Sel.Name)
		}
		return pb.TransportType(v), nil
	}
	var mainFn *ast.FuncDecl
	foundVar := false
	for _, f := range files {
		for _, d := range f.Decls {
			switch d := d.(type) {
			case *ast.FuncDecl:
				if d.Name.Name == "main" && d.Recv == nil {
					mainFn = d
				}
			case *ast.GenDecl:
				for _, sp := range d.Specs {
					vs, ok := sp.(*ast.ValueSpec)
					if !ok {
						continue
					}
					for i, nm := range vs.Names {
						if nm.Name != "enabledTransports" || i >= len(vs.Values) {
							continue
						}
						cl, ok := vs.Values[i].(*ast.CompositeLit)
						if !ok {
							return nil, fmt.Errorf("cmd/application: enabledTransports is not initialised with a composite literal")
						}
						foundVar = true
						for _, el := range cl.Elts {
							kv, ok := el.(*ast.KeyValueExpr)
							if !ok {
								return nil, fmt.Errorf("cmd/application: enabledTransports element without a key")
							}
							tt, err := transportOf(kv.Key)
							if err != nil {
								return nil, err
							}
							enabled[tt] = true
						}
					}
				}
			}
		}
	}
	if !foundVar {
		return nil, fmt.Errorf("cmd/application: package-level enabledTransports not found")
	}
	if mainFn == nil || mainFn.Body == nil {
		return nil, fmt.Errorf("cmd/application: func main not found")
	}
	// additions made at run time: enabledTransports[K] = …, anywhere in the package
	for _, f := range files {
		var ierr error
		ast.Inspect(f, func(n ast.Node) bool {
			as, ok := n.(*ast.AssignStmt)
			if !ok {
				return true
			}
			for _, l := range as.Lhs {
				ix, ok := l.(*ast.IndexExpr)
				if !ok {
					continue
				}
				if id, ok := ix.X.(*ast.Ident); ok && id.Name == "enabledTransports" {
					tt, err := transportOf(ix.Index)
					if err != nil {
						ierr = err
						return false
					}
					enabled[tt] = true
				}
			}
			return true
		})
		if ierr != nil {
			return nil, ierr
		}
	}
	for tt := range enabled {
		facts.enabled = append(facts.enabled, tt)
	}
	sort.Slice(facts.enabled, func(i, j int) bool { return facts.enabled[i] < facts.enabled[j] })

	// the registration manager: the variable main assigns the result of …NewRegistrationManager(…) to
	ast.Inspect(mainFn.Body, func(n ast.Node) bool {
		as, ok := n.(*ast.AssignStmt)
		if !ok || len(as.Lhs) != 1 || len(as.Rhs) != 1 {
			return true
		}
		call, ok := as.Rhs[0].(*ast.CallExpr)
		if !ok {
			return true
		}
		name := ""
		switch fn := call.Fun.(type) {
		case *ast.SelectorExpr:
			name = fn.Sel.Name
		case *ast.Ident:
			name = fn.Name
		}
		if name == "NewRegistrationManager" {
			if id, ok := as.Lhs[0].(*ast.Ident); ok && facts.regManagerVar == "" {
				facts.regManagerVar = id.Name
			}
		}
		return true
	})
	if facts.regManagerVar == "" {
		return nil, fmt.Errorf("cmd/application: main does not assign the result of NewRegistrationManager to a variable")
	}
	x := facts.regManagerVar
	mentions := func(n ast.Node) bool {
		found := false
		ast.Inspect(n, func(m ast.Node) bool {
			if id, ok := m.(*ast.Ident); ok && id.Name == x {
				found = true
			}
			return !found
		})
		return found
	}
	callsCleanup := func(n ast.Node) bool {
		found := false
		ast.Inspect(n, func(m ast.Node) bool {
			if call, ok := m.(*ast.CallExpr); ok {
				if sel, ok := call.Fun.(*ast.SelectorExpr); ok && sel.Sel.Name == "Cleanup" {
					if id, ok := sel.X.(*ast.Ident); ok && id.Name == x {
						found = true
					}
				}
			}
			return !found
		})
		return found
	}
	// the first go statement (anywhere in main) that refers to the registration manager
	start := token.NoPos
	ast.Inspect(mainFn.Body, func(n ast.Node) bool {
		if g, ok := n.(*ast.GoStmt); ok && mentions(g) {
			if start == token.NoPos || g.Pos() < start {
				start = g.Pos()
			}
		}
		return true
	})
	facts.goStartsWorker = start != token.NoPos
	deferPos := token.NoPos
	for _, st := range mainFn.Body.List { // top-level statements only: a conditional defer does not count
		if d, ok := st.(*ast.DeferStmt); ok && callsCleanup(d) {
			facts.defersCleanup = true
			if deferPos == token.NoPos {
				deferPos = d.Pos()
			}
		}
	}
	facts.deferBeforeGo = facts.defersCleanup && (start == token.NoPos || deferPos < start)
	if start != token.NoPos {
		ast.Inspect(mainFn.Body, func(n ast.Node) bool {
			call, ok := n.(*ast.CallExpr)
			if !ok || call.Pos() < start {
				return true
			}
			switch fn := call.Fun.(type) {
			case *ast.SelectorExpr:
				switch fn.Sel.Name {
				case "Exit", "Fatal", "Fatalf", "Fatalln", "Goexit":
					recv := "?"
					if id, ok := fn.X.(*ast.Ident); ok {
						recv = id.Name
					}
					facts.exitsAfterGo = append(facts.exitsAfterGo, recv+"."+fn.Sel.Name)
				}
			case *ast.Ident:
				if fn.Name == "panic" {
					facts.exitsAfterGo = append(facts.exitsAfterGo, "panic")
				}
			}
			return true
		})
	}
	return facts, nil
}
