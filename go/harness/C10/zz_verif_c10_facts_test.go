//go:build verif

package lib

// Facts about the station's main package (cmd/application) that no run of this package's code can
// observe (tie 1, go/ast over the tree under test):
//
//   - which transports the station enables (the keys of `enabledTransports`: the composite literal plus
//     the `enabledTransports[pb.TransportType_X] = …` assignments in main) — the quantifier domain of
//     "every transport" in the harness and of transport_protos_acceptable;
//   - that `main` defers `<registration manager>.Cleanup()` as a top-level statement before it starts
//     any goroutine that works on the registration manager, and that no statement of `main` after that
//     start leaves the process without unwinding (os.Exit, *.Fatal*, runtime.Goexit, panic): the
//     shutdown clause of C10 depends on the deferred call being reached when the signal loop ends.

import (
	"fmt"
	"go/ast"
	"go/parser"
	"go/token"
	"os"
	"path/filepath"
	"sort"
	"strings"

	pb "github.com/refraction-networking/conjure/proto"
)

type c10Facts struct {
	enabled        []pb.TransportType
	regManagerVar  string
	defersCleanup  bool     // `defer X.Cleanup()` (possibly inside a deferred closure) is a top-level statement of main …
	deferBeforeGo  bool     // … that precedes the first go statement referring to X
	exitsAfterGo   []string // calls that end the process without running deferred calls, lexically after that go statement
	goStartsWorker bool     // some go statement of main refers to X (the station does start working)
}

func c10MainFacts() (*c10Facts, error) {
	dir := filepath.Join(c10RepoRoot(), "cmd", "application")
	ents, err := os.ReadDir(dir)
	if err != nil {
		return nil, err
	}
	fset := token.NewFileSet()
	var files []*ast.File
	for _, e := range ents {
		n := e.Name()
		if e.IsDir() || !strings.HasSuffix(n, ".go") || strings.HasSuffix(n, "_test.go") {
			continue
		}
		f, err := parser.ParseFile(fset, filepath.Join(dir, n), nil, 0)
		if err != nil {
			return nil, err
		}
		if f.Name.Name == "main" {
			files = append(files, f)
		}
	}
	facts := &c10Facts{}
	enabled := map[pb.TransportType]bool{}
	transportOf := func(e ast.Expr) (pb.TransportType, error) {
		sel, ok := e.(*ast.SelectorExpr)
		if !ok || !strings.HasPrefix(sel.Sel.Name, "TransportType_") {
			return 0, fmt.Errorf("enabledTransports key is not a pb.TransportType_… constant")
		}
		v, ok := pb.TransportType_value[strings.TrimPrefix(sel.Sel.Name, "TransportType_")]
		if !ok {
			return 0, fmt.Errorf("unknown transport constant %s", sel.Sel.Name)
		}
		return pb.TransportType(v), nil
	}
	var mainFn *ast.FuncDecl
	foundVar := false
	for _, f := range files {
		for _, d := range f.Decls {
			switch d := d.(type) {
			case *ast.FuncDecl:
				if d.Name.Name == "main" && d.Recv == nil {
					mainFn = d
				}
			case *ast.GenDecl:
				for _, sp := range d.Specs {
					vs, ok := sp.(*ast.ValueSpec)
					if !ok {
						continue
					}
					for i, nm := range vs.Names {
						if nm.Name != "enabledTransports" || i >= len(vs.Values) {
							continue
						}
						cl, ok := vs.Values[i].(*ast.CompositeLit)
						if !ok {
							return nil, fmt.Errorf("cmd/application: enabledTransports is not initialised with a composite literal")
						}
						foundVar = true
						for _, el := range cl.Elts {
							kv, ok := el.(*ast.KeyValueExpr)
							if !ok {
								return nil, fmt.Errorf("cmd/application: enabledTransports element without a key")
							}
							tt, err := transportOf(kv.Key)
							if err != nil {
								return nil, err
							}
							enabled[tt] = true
						}
					}
				}
			}
		}
	}
	if !foundVar {
		return nil, fmt.Errorf("cmd/application: package-level enabledTransports not found")
	}
	if mainFn == nil || mainFn.Body == nil {
		return nil, fmt.Errorf("cmd/application: func main not found")
	}
	// additions made at run time: enabledTransports[K] = …, anywhere in the package
	for _, f := range files {
		var ierr error
		ast.Inspect(f, func(n ast.Node) bool {
			as, ok := n.(*ast.AssignStmt)
			if !ok {
				return true
			}
			for _, l := range as.Lhs {
				ix, ok := l.(*ast.IndexExpr)
				if !ok {
					continue
				}
				if id, ok := ix.X.(*ast.Ident); ok && id.Name == "enabledTransports" {
					tt, err := transportOf(ix.Index)
					if err != nil {
						ierr = err
						return false
					}
					enabled[tt] = true
				}
			}
			return true
		})
		if ierr != nil {
			return nil, ierr
		}
	}
	for tt := range enabled {
		facts.enabled = append(facts.enabled, tt)
	}
	sort.Slice(facts.enabled, func(i, j int) bool { return facts.enabled[i] < facts.enabled[j] })

	// the registration manager: the variable main assigns the result of …NewRegistrationManager(…) to
	ast.Inspect(mainFn.Body, func(n ast.Node) bool {
		as, ok := n.(*ast.AssignStmt)
		if !ok || len(as.Lhs) != 1 || len(as.Rhs) != 1 {
			return true
		}
		call, ok := as.Rhs[0].(*ast.CallExpr)
		if !ok {
			return true
		}
		name := ""
		switch fn := call.Fun.(type) {
		case *ast.SelectorExpr:
			name = fn.Sel.Name
		case *ast.Ident:
			name = fn.Name
		}
		if name == "NewRegistrationManager" {
			if id, ok := as.Lhs[0].(*ast.Ident); ok && facts.regManagerVar == "" {
				facts.regManagerVar = id.Name
			}
		}
		return true
	})
	if facts.regManagerVar == "" {
		return nil, fmt.Errorf("cmd/application: main does not assign the result of NewRegistrationManager to a variable")
	}
	x := facts.regManagerVar
	mentions := func(n ast.Node) bool {
		found := false
		ast.Inspect(n, func(m ast.Node) bool {
			if id, ok := m.(*ast.Ident); ok && id.Name == x {
				found = true
			}
			return !found
		})
		return found
	}
	callsCleanup := func(n ast.Node) bool {
		found := false
		ast.Inspect(n, func(m ast.Node) bool {
			if call, ok := m.(*ast.CallExpr); ok {
				if sel, ok := call.Fun.(*ast.SelectorExpr); ok && sel.Sel.Name == "Cleanup" {
					if id, ok := sel.X.(*ast.Ident); ok && id.Name == x {
						found = true
					}
				}
			}
			return !found
		})
		return found
	}
	// the first go statement (anywhere in main) that refers to the registration manager
	start := token.NoPos
	ast.Inspect(mainFn.Body, func(n ast.Node) bool {
		if g, ok := n.(*ast.GoStmt); ok && mentions(g) {
			if start == token.NoPos || g.Pos() < start {
				start = g.Pos()
			}
		}
		return true
	})
	facts.goStartsWorker = start != token.NoPos
	deferPos := token.NoPos
	for _, st := range mainFn.Body.List { // top-level statements only: a conditional defer does not count
		if d, ok := st.(*ast.DeferStmt); ok && callsCleanup(d) {
			facts.defersCleanup = true
			if deferPos == token.NoPos {
				deferPos = d.Pos()
			}
		}
	}
	facts.deferBeforeGo = facts.defersCleanup && (start == token.NoPos || deferPos < start)
	if start != token.NoPos {
		ast.Inspect(mainFn.Body, func(n ast.Node) bool {
			call, ok := n.(*ast.CallExpr)
			if !ok || call.Pos() < start {
				return true
			}
			switch fn := call.Fun.(type) {
			case *ast.SelectorExpr:
				switch fn.Sel.Name {
				case "Exit", "Fatal", "Fatalf", "Fatalln", "Goexit":
					recv := "?"
					if id, ok := fn.X.(*ast.Ident); ok {
						recv = id.Name
					}
					facts.exitsAfterGo = append(facts.exitsAfterGo, recv+"."+fn.Sel.Name)
				}
			case *ast.Ident:
				if fn.Name == "panic" {
					facts.exitsAfterGo = append(facts.exitsAfterGo, "panic")
				}
			}
			return true
		})
	}
	return facts, nil
}

// ---------------------------------------------------------------------------------------------
// Facts about the ingest pipeline and main's shutdown sequence (go/ast): whether everything that can
// announce a registration runs inside a goroutine the wait groups count, so that `cancel(); wg.Wait()`
// in main returns only after the last announcement of the pipeline — the premise of "the clear request
// is the last message" (CJ.Props.C10.shutdown_leaves_nothing).

type c10PipeFacts struct {
	// `go` statements in startIngestThread / ingestRegistration (and in function literals inside them)
	// under which a registration is ingested, tracked, validated or announced: "<function>: go <callee>"
	asyncIngestCalls []string
	// HandleRegUpdates: first statement `defer <parent wait group>.Done()`, every `go …startIngestThread(…, W)`
	// directly preceded by `W.Add(1)`, last statement `W.Wait()`; startIngestThread: top-level `defer <its wait
	// group>.Done()`, and it calls ingestRegistration; ingestRegistration calls AddRegistration
	workersCounted bool
	// main: `W.Add(1)` directly before the top-level `go X.HandleRegUpdates(ctx, …, W)`; after it, as top-level
	// statements in this order: a call of the cancel function of ctx, then `W.Wait()`
	mainWaitsForPipeline bool
	why                  []string // what was not found, for the failure message of the theorem
}

var c10AnnouncingCalls = map[string]bool{"ingestRegistration": true, "AddRegistration": true, "TrackRegistration": true,
	"TrackRegIfNotExists": true, "register": true, "registerForDetector": true, "sendToDetector": true}

func c10CalleeName(call *ast.CallExpr) string {
	switch fn := call.Fun.(type) {
	case *ast.SelectorExpr:
		return fn.Sel.Name
	case *ast.Ident:
		return fn.Name
	}
	return ""
}

func c10IsCall(st ast.Stmt, recv, name string) bool {
	es, ok := st.(*ast.ExprStmt)
	if !ok {
		return false
	}
	call, ok := es.X.(*ast.CallExpr)
	if !ok {
		return false
	}
	sel, ok := call.Fun.(*ast.SelectorExpr)
	if !ok || sel.Sel.Name != name {
		return false
	}
	id, ok := sel.X.(*ast.Ident)
	return ok && id.Name == recv
}

func c10PipelineFacts() (*c10PipeFacts, error) {
	fset := token.NewFileSet()
	libDir := filepath.Join(c10RepoRoot(), "pkg", "station", "lib")
	ents, err := os.ReadDir(libDir)
	if err != nil {
		return nil, err
	}
	fns := map[string]*ast.FuncDecl{}
	for _, e := range ents {
		n := e.Name()
		if e.IsDir() || !strings.HasSuffix(n, ".go") || strings.HasSuffix(n, "_test.go") {
			continue
		}
		f, err := parser.ParseFile(fset, filepath.Join(libDir, n), nil, 0)
		if err != nil {
			return nil, err
		}
		for _, d := range f.Decls {
			if fd, ok := d.(*ast.FuncDecl); ok && fd.Body != nil {
				switch fd.Name.Name {
				case "HandleRegUpdates", "startIngestThread", "ingestRegistration":
					if fd.Recv != nil {
						fns[fd.Name.Name] = fd
					}
				}
			}
		}
	}
	for _, n := range []string{"HandleRegUpdates", "startIngestThread", "ingestRegistration"} {
		if fns[n] == nil {
			return nil, fmt.Errorf("pkg/station/lib: method %s not found", n)
		}
	}
	pf := &c10PipeFacts{}
	no := func(format string, a ...interface{}) { pf.why = append(pf.why, fmt.Sprintf(format, a...)) }
	wgParam := func(fd *ast.FuncDecl) string { // name of the *sync.WaitGroup parameter
		for _, fl := range fd.Type.Params.List {
			if st, ok := fl.Type.(*ast.StarExpr); ok {
				if sel, ok := st.X.(*ast.SelectorExpr); ok && sel.Sel.Name == "WaitGroup" && len(fl.Names) == 1 {
					return fl.Names[0].Name
				}
			}
		}
		return ""
	}
	calls := func(n ast.Node, name string, outsideGo bool) bool {
		found := false
		ast.Inspect(n, func(m ast.Node) bool {
			if outsideGo {
				if _, ok := m.(*ast.GoStmt); ok {
					return false
				}
				if _, ok := m.(*ast.FuncLit); ok {
					return false
				}
			}
			if call, ok := m.(*ast.CallExpr); ok && c10CalleeName(call) == name {
				found = true
			}
			return !found
		})
		return found
	}
	// 1. asynchronous ingest calls
	for _, n := range []string{"startIngestThread", "ingestRegistration"} {
		ast.Inspect(fns[n].Body, func(m ast.Node) bool {
			g, ok := m.(*ast.GoStmt)
			if !ok {
				return true
			}
			ast.Inspect(g, func(x ast.Node) bool {
				if call, ok := x.(*ast.CallExpr); ok && c10AnnouncingCalls[c10CalleeName(call)] {
					pf.asyncIngestCalls = append(pf.asyncIngestCalls, n+": go "+c10CalleeName(call))
				}
				return true
			})
			return false
		})
	}
	sort.Strings(pf.asyncIngestCalls)
	// 2. the workers are counted and do the ingest themselves
	ok := true
	h := fns["HandleRegUpdates"]
	parent := wgParam(h)
	if parent == "" || len(h.Body.List) == 0 {
		ok = false
		no("HandleRegUpdates has no *sync.WaitGroup parameter")
	} else {
		d, isDefer := h.Body.List[0].(*ast.DeferStmt)
		if !isDefer || c10CalleeName(d.Call) != "Done" || !c10IsCall(&ast.ExprStmt{X: d.Call}, parent, "Done") {
			ok = false
			no("HandleRegUpdates does not start with `defer %s.Done()`", parent)
		}
	}
	worker := ""
	launches := 0
	ast.Inspect(h.Body, func(m ast.Node) bool {
		blk, isBlk := m.(*ast.BlockStmt)
		if !isBlk {
			return true
		}
		for i, st := range blk.List {
			g, isGo := st.(*ast.GoStmt)
			if !isGo || c10CalleeName(g.Call) != "startIngestThread" {
				continue
			}
			launches++
			if len(g.Call.Args) == 0 {
				ok = false
				continue
			}
			id, isID := g.Call.Args[len(g.Call.Args)-1].(*ast.Ident)
			if !isID {
				ok = false
				no("the wait group handed to startIngestThread is not a plain variable")
				continue
			}
			if worker != "" && worker != id.Name {
				ok = false
			}
			worker = id.Name
			if i == 0 || !c10IsCall(blk.List[i-1], id.Name, "Add") {
				ok = false
				no("`go …startIngestThread(…, %s)` is not directly preceded by `%s.Add(1)`", id.Name, id.Name)
			}
		}
		return true
	})
	if launches == 0 {
		ok = false
		no("HandleRegUpdates does not launch startIngestThread with a go statement")
	} else if !c10IsCall(h.Body.List[len(h.Body.List)-1], worker, "Wait") {
		ok = false
		no("the last statement of HandleRegUpdates is not `%s.Wait()`", worker)
	}
	s := fns["startIngestThread"]
	swg := wgParam(s)
	hasDefer := false
	for _, st := range s.Body.List {
		if d, isDefer := st.(*ast.DeferStmt); isDefer && c10IsCall(&ast.ExprStmt{X: d.Call}, swg, "Done") {
			hasDefer = true
		}
	}
	if swg == "" || !hasDefer {
		ok = false
		no("startIngestThread has no top-level `defer <wait group>.Done()`")
	}
	if !calls(s.Body, "ingestRegistration", false) {
		ok = false
		no("startIngestThread does not call ingestRegistration")
	}
	if !calls(fns["ingestRegistration"].Body, "AddRegistration", false) {
		ok = false
		no("ingestRegistration does not call AddRegistration")
	}
	pf.workersCounted = ok

	// 3. main waits for the pipeline before it returns (and thereby runs the deferred Cleanup)
	mdir := filepath.Join(c10RepoRoot(), "cmd", "application")
	ments, err := os.ReadDir(mdir)
	if err != nil {
		return nil, err
	}
	var mainFn *ast.FuncDecl
	for _, e := range ments {
		n := e.Name()
		if e.IsDir() || !strings.HasSuffix(n, ".go") || strings.HasSuffix(n, "_test.go") {
			continue
		}
		f, err := parser.ParseFile(fset, filepath.Join(mdir, n), nil, 0)
		if err != nil {
			return nil, err
		}
		for _, d := range f.Decls {
			if fd, isFn := d.(*ast.FuncDecl); isFn && fd.Name.Name == "main" && fd.Recv == nil && f.Name.Name == "main" {
				mainFn = fd
			}
		}
	}
	if mainFn == nil || mainFn.Body == nil {
		return nil, fmt.Errorf("cmd/application: func main not found")
	}
	mok := false
	list := mainFn.Body.List
	for i, st := range list {
		g, isGo := st.(*ast.GoStmt)
		if !isGo || c10CalleeName(g.Call) != "HandleRegUpdates" || len(g.Call.Args) < 2 {
			continue
		}
		ctxID, ok1 := g.Call.Args[0].(*ast.Ident)
		wgID, ok2 := g.Call.Args[len(g.Call.Args)-1].(*ast.Ident)
		if !ok1 || !ok2 {
			no("main: the context / wait group handed to HandleRegUpdates is not a plain variable")
			continue
		}
		if i == 0 || !c10IsCall(list[i-1], wgID.Name, "Add") {
			no("main: `go …HandleRegUpdates(…, %s)` is not directly preceded by `%s.Add(1)`", wgID.Name, wgID.Name)
			continue
		}
		// the cancel function of that context: `ctx, cancel := context.WithCancel(…)`
		cancelName := ""
		for _, st2 := range list[:i] {
			as, isAs := st2.(*ast.AssignStmt)
			if !isAs || len(as.Lhs) != 2 || len(as.Rhs) != 1 {
				continue
			}
			call, isCall := as.Rhs[0].(*ast.CallExpr)
			l0, isID0 := as.Lhs[0].(*ast.Ident)
			l1, isID1 := as.Lhs[1].(*ast.Ident)
			if isCall && isID0 && isID1 && l0.Name == ctxID.Name && strings.HasPrefix(c10CalleeName(call), "With") {
				cancelName = l1.Name
			}
		}
		if cancelName == "" {
			no("main: no `%s, cancel := context.With…(…)` before HandleRegUpdates is started", ctxID.Name)
			continue
		}
		cancelAt, waitAt := -1, -1
		for j := i + 1; j < len(list); j++ {
			if es, isES := list[j].(*ast.ExprStmt); isES {
				if call, isCall := es.X.(*ast.CallExpr); isCall {
					if id, isID := call.Fun.(*ast.Ident); isID && id.Name == cancelName && cancelAt < 0 {
						cancelAt = j
					}
				}
			}
			if c10IsCall(list[j], wgID.Name, "Wait") && cancelAt >= 0 && waitAt < 0 {
				waitAt = j
			}
		}
		if cancelAt < 0 || waitAt < 0 {
			no("main: `%s()` followed by `%s.Wait()` not found as top-level statements after the pipeline is started", cancelName, wgID.Name)
			continue
		}
		mok = true
	}
	pf.mainWaitsForPipeline = mok
	return pf, nil
}
