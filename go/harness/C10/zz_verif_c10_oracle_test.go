//go:build verif

package lib

// Stand-alone detector oracle for C10.  The detector (src/*.rs) cannot be built here (no crates), so
// the items that decide what happens to a StationToDetector message are SLICED OUT of the current
// src/sessions.rs of the tree under test at run time, surrounded by stubs for the few external types
// they mention (the generated protobuf message with optional fields and default-returning getters,
// pnet's IpNextHeaderProtocol, the clock, the debug! macro), and compiled with rustc.  The Lean model
// of the detector is differential-tested against this binary, i.e. against the detector's own source.

import (
	"bufio"
	"crypto/sha256"
	"encoding/hex"
	"fmt"
	"io"
	"os"
	"os/exec"
	"path/filepath"
	"regexp"
	"strings"
)

const c10RustHead = `// ---- stand-alone detector oracle: stubs for the few external items used by the sliced text ----
#![allow(dead_code, unused_imports, unused_macros, non_snake_case, non_upper_case_globals, unused_variables)]
use std::collections::HashMap;
use std::convert::From;
use std::fmt;
use std::io::{self, BufRead, Write};
use std::net::IpAddr;
use std::sync::{Arc, RwLock};

// pnet::packet::ip
#[derive(Clone, Copy, PartialEq, Eq, Debug)]
pub struct IpNextHeaderProtocol(pub u8);
pub mod IpNextHeaderProtocols {
    use super::IpNextHeaderProtocol;
    pub const Tcp: IpNextHeaderProtocol = IpNextHeaderProtocol(6);
    pub const Udp: IpNextHeaderProtocol = IpNextHeaderProtocol(17);
}

// signalling.rs (rust-protobuf generated code): optional fields with default-returning getters,
// enum getters fall back to the default for absent and for unknown values (enum_value_or).
#[derive(Clone, Copy, PartialEq, Eq, Debug)]
pub enum IPProto { Unk, Tcp, Udp }
#[derive(Clone, Copy, PartialEq, Eq, Debug)]
pub enum StationOperations { Unknown, New, Update, Clear }
#[derive(Default, Debug)]
pub struct StationToDetector {
    pub f_phantom_ip: Option<String>,
    pub f_client_ip: Option<String>,
    pub f_timeout_ns: Option<u64>,
    pub f_operation: Option<i32>,
    pub f_dst_port: Option<u32>,
    pub f_src_port: Option<u32>,
    pub f_proto: Option<i32>,
}
impl StationToDetector {
    pub fn phantom_ip(&self) -> &str { match self.f_phantom_ip.as_ref() { Some(e) => e, None => "" } }
    pub fn client_ip(&self) -> &str { match self.f_client_ip.as_ref() { Some(e) => e, None => "" } }
    pub fn timeout_ns(&self) -> u64 { self.f_timeout_ns.unwrap_or(0) }
    pub fn dst_port(&self) -> u32 { self.f_dst_port.unwrap_or(0) }
    pub fn src_port(&self) -> u32 { self.f_src_port.unwrap_or(0) }
    pub fn proto(&self) -> IPProto {
        match self.f_proto { Some(1) => IPProto::Tcp, Some(2) => IPProto::Udp, _ => IPProto::Unk }
    }
    pub fn operation(&self) -> StationOperations {
        match self.f_operation {
            Some(1) => StationOperations::New, Some(2) => StationOperations::Update,
            Some(3) => StationOperations::Clear, _ => StationOperations::Unknown,
        }
    }
}

// util::precise_time_ns: virtual clock fixed at 0, so a stored expiry equals the requested lifetime
fn precise_time_ns() -> u128 { 0 }

macro_rules! debug { ($($arg:tt)*) => { { let _ = format!($($arg)*); } } }

// ---- text sliced verbatim out of src/sessions.rs follows ----
`

const c10RustTail = `
// ---- end of sliced text; line protocol of the oracle ----
fn unhex(s: &str) -> Option<Vec<u8>> {
    if s.len() % 2 != 0 { return None; }
    let b = s.as_bytes();
    let mut out = Vec::with_capacity(b.len() / 2);
    let v = |c: u8| -> Option<u8> { match c { b'0'..=b'9' => Some(c - b'0'), b'a'..=b'f' => Some(c - b'a' + 10), b'A'..=b'F' => Some(c - b'A' + 10), _ => None } };
    let mut i = 0;
    while i < b.len() { out.push(v(b[i])? * 16 + v(b[i + 1])?); i += 2; }
    Some(out)
}
fn hex(b: &[u8]) -> String { let mut s = String::new(); for x in b { s.push_str(&format!("{:02x}", x)); } s }
fn opt_str(f: &str) -> Result<Option<String>, String> {
    if f == "-" { return Ok(None); }
    if !f.starts_with('h') { return Err(format!("bad string field {}", f)); }
    let raw = unhex(&f[1..]).ok_or_else(|| format!("bad hex {}", f))?;
    String::from_utf8(raw).map(Some).map_err(|_| "not utf8".to_string())
}
fn opt_num<T: std::str::FromStr>(f: &str) -> Result<Option<T>, String> {
    if f == "-" { return Ok(None); }
    f.parse::<T>().map(Some).map_err(|_| format!("bad number {}", f))
}
fn show_ip(a: &IpAddr) -> String {
    match a { IpAddr::V4(x) => format!("4.{}", hex(&x.octets())), IpAddr::V6(x) => format!("6.{}", hex(&x.octets())) }
}
// how the detector's own parser classifies a text field
fn classify(s: &str) -> String {
    if s.is_empty() { return "E".to_string(); }
    match s.parse::<IpAddr>() { Ok(a) => show_ip(&a), Err(_) => "X".to_string() }
}
const SENTINEL: &str = "sentinel";

fn one(map: &Arc<RwLock<HashMap<String, u128>>>, m: &str) -> Result<String, String> {
    let f: Vec<&str> = m.split(',').collect();
    if f.len() != 7 { return Err(format!("want 7 fields, got {}", f.len())); }
    let s2d = StationToDetector {
        f_operation: opt_num::<i32>(f[0])?,
        f_proto: opt_num::<i32>(f[1])?,
        f_client_ip: opt_str(f[2])?,
        f_phantom_ip: opt_str(f[3])?,
        f_dst_port: opt_num::<u32>(f[4])?,
        f_src_port: opt_num::<u32>(f[5])?,
        f_timeout_ns: opt_num::<u64>(f[6])?,
    };
    let cls = format!("{},{}", classify(s2d.client_ip()), classify(s2d.phantom_ip()));
    // 1. the conversion on its own (what pubsub_handle_s2d does first)
    let (conv, tag) = match SessionResult::from(&s2d) {
        Ok(sd) => (
            format!("ok:{}:{}:{}:{}:{}:{}", show_ip(&sd.client_ip), show_ip(&sd.phantom_ip), sd.dst_port, sd.src_port, sd.proto.0, sd.timeout),
            Some(sd.tag()),
        ),
        Err(e) => (format!("err:{:?}", e), None),
    };
    // 2. the handler itself on the shared map
    pubsub_handle_s2d(map, &s2d);
    let mm = map.read().expect("RwLock broken");
    let n = mm.len();
    let sentinel = if mm.contains_key(SENTINEL) { 1 } else { 0 };
    let val = match &tag { Some(t) => match mm.get(t) { Some(v) => format!("{}", v), None => "-".to_string() }, None => "-".to_string() };
    Ok(format!("{}|{}/{}/{}/{}|{}", cls, conv, n, sentinel, val, match tag { Some(t) => hex(t.as_bytes()), None => "-".to_string() }))
}

fn main() {
    let stdin = io::stdin();
    let stdout = io::stdout();
    let mut out = stdout.lock();
    for line in stdin.lock().lines() {
        let line = match line { Ok(l) => l, Err(_) => break };
        let map: Arc<RwLock<HashMap<String, u128>>> = Arc::new(RwLock::new(HashMap::new()));
        map.write().unwrap().insert(SENTINEL.to_string(), 1);
        let mut res: Vec<String> = Vec::new();
        for m in line.split(';') {
            match one(&map, m) { Ok(s) => res.push(s), Err(e) => res.push(format!("BAD {}", e)) }
        }
        writeln!(out, "{}", res.join(";")).unwrap();
        out.flush().unwrap();
    }
}
`

// items of sessions.rs the oracle is made of, in the order they are emitted
var c10RustItems = []string{
	`^pub enum SessionError\b`,
	`^pub type SessionResult\b`,
	`^impl fmt::Display for SessionError\b`,
	`^pub struct SessionDetails\b`,
	`^pub trait Taggable\b`,
	`^impl Taggable for SessionDetails\b`,
	`^impl SessionDetails\b`,
	`^impl From<&StationToDetector> for SessionResult\b`,
	`^fn pubsub_handle_s2d\b`,
	`^fn pubsub_add_or_update_session\b`,
	`^fn pubsub_clear\b`,
}

// c10SkipTrivia returns the index after a comment / string / char literal starting at k, or k.
func c10SkipTrivia(src string, k int) int {
	if strings.HasPrefix(src[k:], "//") {
		if j := strings.IndexByte(src[k:], '\n'); j >= 0 {
			return k + j
		}
		return len(src)
	}
	if strings.HasPrefix(src[k:], "/*") {
		if j := strings.Index(src[k+2:], "*/"); j >= 0 {
			return k + 2 + j + 2
		}
		return len(src)
	}
	if src[k] == '"' {
		j := k + 1
		for j < len(src) && src[j] != '"' {
			if src[j] == '\\' {
				j++
			}
			j++
		}
		return j + 1
	}
	if src[k] == '\'' {
		// char literal 'x' or '\x'; a lifetime ('a) is left alone
		if k+2 < len(src) && src[k+1] != '\\' && src[k+2] == '\'' {
			return k + 3
		}
		if k+3 < len(src) && src[k+1] == '\\' && src[k+3] == '\'' {
			return k + 4
		}
	}
	return k
}

// c10SliceItem cuts one top-level item (with the attribute lines directly above it) out of src.
func c10SliceItem(src, header string) (string, error) {
	re := regexp.MustCompile("(?m)" + header)
	loc := re.FindStringIndex(src)
	if loc == nil {
		return "", fmt.Errorf("item %q not found in sessions.rs", header)
	}
	start := loc[0]
	for start > 0 {
		prevEnd := start - 1 // the newline before the item
		prevStart := strings.LastIndexByte(src[:prevEnd], '\n') + 1
		if strings.HasPrefix(strings.TrimSpace(src[prevStart:prevEnd]), "#[") {
			start = prevStart
		} else {
			break
		}
	}
	k := loc[1]
	depth := 0
	for k < len(src) {
		if j := c10SkipTrivia(src, k); j != k {
			k = j
			continue
		}
		switch src[k] {
		case ';':
			if depth == 0 {
				return src[start : k+1], nil
			}
		case '{':
			depth++
		case '}':
			depth--
			if depth == 0 {
				return src[start : k+1], nil
			}
		}
		k++
	}
	return "", fmt.Errorf("item %q: unbalanced braces", header)
}

func c10RepoRoot() string {
	if r := os.Getenv("VERIF_SCRATCH_REPO"); r != "" {
		return r
	}
	return filepath.Join("..", "..", "..") // the test runs in pkg/station/lib
}

// c10OracleSource assembles the oracle program from the current sessions.rs; also returns the name
// of the pub/sub channel the detector subscribes to.
func c10OracleSource() (prog string, channel string, err error) {
	b, err := os.ReadFile(filepath.Join(c10RepoRoot(), "src", "sessions.rs"))
	if err != nil {
		return "", "", err
	}
	src := string(b)
	if i := strings.Index(src, "#[cfg(test)]"); i > 0 {
		src = src[:i]
	}
	var parts []string
	for _, h := range c10RustItems {
		it, err := c10SliceItem(src, h)
		if err != nil {
			return "", "", err
		}
		parts = append(parts, it)
	}
	m := regexp.MustCompile(`\.subscribe\(\s*"([^"]*)"\s*\)`).FindStringSubmatch(src)
	if m == nil {
		return "", "", fmt.Errorf("subscribe(\"…\") not found in sessions.rs")
	}
	return c10RustHead + strings.Join(parts, "\n\n") + "\n" + c10RustTail, m[1], nil
}

type c10Oracle struct {
	cmd     *exec.Cmd
	stdin   io.WriteCloser
	in      *bufio.Writer
	out     *bufio.Reader
	channel string
}

// c10BuildOracle compiles the oracle (cached by content hash in VERIF_OUT) and starts it.
func c10BuildOracle() (*c10Oracle, error) {
	prog, channel, err := c10OracleSource()
	if err != nil {
		return nil, err
	}
	dir := os.Getenv("VERIF_OUT")
	if dir == "" {
		dir = filepath.Join(os.TempDir(), "verif-out-C10")
	}
	if err := os.MkdirAll(dir, 0o755); err != nil {
		return nil, err
	}
	sum := sha256.Sum256([]byte(prog))
	base := filepath.Join(dir, "c10_detector_oracle_"+hex.EncodeToString(sum[:6]))
	if _, err := os.Stat(base); err != nil {
		if err := os.WriteFile(base+".rs", []byte(prog), 0o644); err != nil {
			return nil, err
		}
		tmp := fmt.Sprintf("%s.tmp%d", base, os.Getpid())
		c := exec.Command("rustc", "--edition", "2021", "-O", "-o", tmp, base+".rs")
		if outp, err := c.CombinedOutput(); err != nil {
			return nil, fmt.Errorf("rustc failed on the text sliced out of sessions.rs: %v\n%s", err, outp)
		}
		if err := os.Rename(tmp, base); err != nil {
			return nil, err
		}
	}
	cmd := exec.Command(base)
	stdin, err := cmd.StdinPipe()
	if err != nil {
		return nil, err
	}
	stdout, err := cmd.StdoutPipe()
	if err != nil {
		return nil, err
	}
	cmd.Stderr = os.Stderr
	if err := cmd.Start(); err != nil {
		return nil, err
	}
	return &c10Oracle{cmd: cmd, stdin: stdin, in: bufio.NewWriter(stdin), out: bufio.NewReaderSize(stdout, 1<<16), channel: channel}, nil
}

// c10Answer is the oracle's verdict on one message of a line.
type c10Answer struct {
	clsClient, clsPhantom string // how the detector's parser classifies the two text fields
	canon                 string // <conversion>/<map size>/<sentinel present>/<expiry under the session's tag>
	conv                  string
	n, sentinel           string
	val                   string
	tag                   string
}

// ask sends one line (messages separated by ';') and parses the per-message answers.
func (o *c10Oracle) ask(line string) ([]c10Answer, error) {
	if _, err := o.in.WriteString(line + "\n"); err != nil {
		return nil, err
	}
	if err := o.in.Flush(); err != nil {
		return nil, err
	}
	resp, err := o.out.ReadString('\n')
	if err != nil {
		return nil, fmt.Errorf("detector oracle died: %v", err)
	}
	resp = strings.TrimRight(resp, "\n")
	var out []c10Answer
	for _, r := range strings.Split(resp, ";") {
		p := strings.Split(r, "|")
		if len(p) != 3 {
			return nil, fmt.Errorf("detector oracle: %q (input %q)", r, line)
		}
		cls := strings.Split(p[0], ",")
		q := strings.Split(p[1], "/")
		if len(cls) != 2 || len(q) != 4 {
			return nil, fmt.Errorf("detector oracle: %q", r)
		}
		tag := ""
		if p[2] != "-" {
			tb, _ := hex.DecodeString(p[2])
			tag = string(tb)
		}
		out = append(out, c10Answer{clsClient: cls[0], clsPhantom: cls[1], canon: p[1], conv: q[0], n: q[1], sentinel: q[2], val: q[3], tag: tag})
	}
	return out, nil
}

func (o *c10Oracle) close() {
	o.in.Flush()
	o.stdin.Close()
	_ = o.cmd.Wait()
}
