//go:build verif

package lib

// Stand-alone detector oracle for C10.  The detector (src/*.rs) cannot be built here (no crates), so
// the items that decide what happens to a StationToDetector message and to a flow that is looked up
// afterwards (conversion, dispatch, session map, sweep of stale sessions, tag of a flow) are SLICED OUT of
// the current src/sessions.rs and src/flow_tracker.rs of the tree under test at run time, surrounded by stubs for the few external types
// they mention (the generated protobuf message with optional fields and default-returning getters,
// pnet's IpNextHeaderProtocol, the clock, the debug! macro), and compiled with rustc.  The Lean model
// of the detector is differential-tested against this binary, i.e. against the detector's own source.

import (
	"bufio"
	"crypto/sha256"
	"encoding/hex"
	"fmt"
	"io"
	"os"
	"os/exec"
	"path/filepath"
	"regexp"
	"strings"
	"unicode/utf8"
)

const c10RustHead = `// ---- stand-alone detector oracle: stubs for the few external items used by the sliced text ----
#![allow(dead_code, unused_imports, unused_macros, non_snake_case, non_upper_case_globals, unused_variables)]
use std::collections::HashMap;
use std::convert::From;
use std::fmt;
use std::io::{self, BufRead, Write};
use std::net::IpAddr;
use std::sync::{Arc, RwLock};
use std::thread;
use std::time;

// pnet::packet::ip
#[derive(Clone, Copy, PartialEq, Eq, Hash, Debug)]
pub struct IpNextHeaderProtocol(pub u8);
pub mod IpNextHeaderProtocols {
    use super::IpNextHeaderProtocol;
    pub const Tcp: IpNextHeaderProtocol = IpNextHeaderProtocol(6);
    pub const Udp: IpNextHeaderProtocol = IpNextHeaderProtocol(17);
}

// util::precise_time_ns: virtual clock, set by the line protocol (a "<now>@" prefix of a step)
static CLOCK: std::sync::Mutex<u128> = std::sync::Mutex::new(0);
fn precise_time_ns() -> u128 { *CLOCK.lock().unwrap() }
fn set_clock(t: u128) { *CLOCK.lock().unwrap() = t; }

// SessionTracker::spawn_update_thread starts this in the detector (reads Redis for ever); never called here
fn ingest_from_pubsub(_map: Arc<RwLock<HashMap<String, u128>>>) {}

macro_rules! debug { ($($arg:tt)*) => { { let _ = format!($($arg)*); } } }

// signalling.rs (rust-protobuf generated code): optional fields with default-returning getters.  The
// enums, their from_i32 tables and the getters' fall-back values below are GENERATED from the current
// src/signalling.rs (c10RustWire), not written by hand.
#[derive(Default, Debug)]
pub struct StationToDetector {
    pub f_phantom_ip: Option<String>,
    pub f_client_ip: Option<String>,
    pub f_timeout_ns: Option<u64>,
    pub f_operation: Option<i32>,
    pub f_dst_port: Option<u32>,
    pub f_src_port: Option<u32>,
    pub f_proto: Option<i32>,
}
impl StationToDetector {
    pub fn phantom_ip(&self) -> &str { match self.f_phantom_ip.as_ref() { Some(e) => e, None => "" } }
    pub fn client_ip(&self) -> &str { match self.f_client_ip.as_ref() { Some(e) => e, None => "" } }
    pub fn timeout_ns(&self) -> u64 { self.f_timeout_ns.unwrap_or(0) }
    pub fn dst_port(&self) -> u32 { self.f_dst_port.unwrap_or(0) }
    pub fn src_port(&self) -> u32 { self.f_src_port.unwrap_or(0) }
    pub fn proto(&self) -> IPProto {
        match self.f_proto { Some(v) => IPProto::from_i32(v).unwrap_or(IPProto::DEFAULT), None => IPProto::DEFAULT }
    }
    pub fn operation(&self) -> StationOperations {
        match self.f_operation { Some(v) => StationOperations::from_i32(v).unwrap_or(StationOperations::DEFAULT), None => StationOperations::DEFAULT }
    }
}
`

const c10RustSliced = `
// ---- text sliced verbatim out of src/sessions.rs and src/flow_tracker.rs follows ----
`

const c10RustTail = `
// ---- end of sliced text; line protocol of the oracle ----
fn unhex(s: &str) -> Option<Vec<u8>> {
    if s.len() % 2 != 0 { return None; }
    let b = s.as_bytes();
    let mut out = Vec::with_capacity(b.len() / 2);
    let v = |c: u8| -> Option<u8> { match c { b'0'..=b'9' => Some(c - b'0'), b'a'..=b'f' => Some(c - b'a' + 10), b'A'..=b'F' => Some(c - b'A' + 10), _ => None } };
    let mut i = 0;
    while i < b.len() { out.push(v(b[i])? * 16 + v(b[i + 1])?); i += 2; }
    Some(out)
}
fn hex(b: &[u8]) -> String { let mut s = String::new(); for x in b { s.push_str(&format!("{:02x}", x)); } s }
fn opt_str(f: &str) -> Result<Option<String>, String> {
    if f == "-" { return Ok(None); }
    if !f.starts_with('h') { return Err(format!("bad string field {}", f)); }
    let raw = unhex(&f[1..]).ok_or_else(|| format!("bad hex {}", f))?;
    String::from_utf8(raw).map(Some).map_err(|_| "not utf8".to_string())
}
fn opt_num<T: std::str::FromStr>(f: &str) -> Result<Option<T>, String> {
    if f == "-" { return Ok(None); }
    f.parse::<T>().map(Some).map_err(|_| format!("bad number {}", f))
}
fn show_ip(a: &IpAddr) -> String {
    match a { IpAddr::V4(x) => format!("4.{}", hex(&x.octets())), IpAddr::V6(x) => format!("6.{}", hex(&x.octets())) }
}
// how the detector's own parser classifies a text field
fn classify(s: &str) -> String {
    if s.is_empty() { return "E".to_string(); }
    match s.parse::<IpAddr>() { Ok(a) => show_ip(&a), Err(_) => "X".to_string() }
}
const SENTINEL: &str = "sentinel";

fn parse_addr(f: &str) -> Result<IpAddr, String> {
    // "4.<8 hex>" / "6.<32 hex>"
    let raw = unhex(&f[2..]).ok_or_else(|| format!("bad address {}", f))?;
    if f.starts_with("4.") && raw.len() == 4 {
        let o: [u8; 4] = [raw[0], raw[1], raw[2], raw[3]];
        return Ok(IpAddr::from(o));
    }
    if f.starts_with("6.") && raw.len() == 16 {
        let mut o = [0u8; 16];
        o.copy_from_slice(&raw);
        return Ok(IpAddr::from(o));
    }
    Err(format!("bad address {}", f))
}

fn summary(map: &Arc<RwLock<HashMap<String, u128>>>) -> (usize, u8) {
    let mm = map.read().expect("RwLock broken");
    (mm.len(), if mm.contains_key(SENTINEL) { 1 } else { 0 })
}

fn one(map: &Arc<RwLock<HashMap<String, u128>>>, step: &str) -> Result<String, String> {
    // "<now>@" prefix: set the detector's clock
    let m = match step.find('@') {
        Some(i) => { set_clock(step[..i].parse::<u128>().map_err(|_| format!("bad clock {}", step))?); &step[i + 1..] }
        None => step,
    };
    let f: Vec<&str> = m.split(',').collect();
    if f.len() == 1 && f[0] == "S" {
        // the periodic sweep of the packet path, on a tracker that shares the map
        let mut tr = SessionTracker { tracked_sessions: Arc::clone(map) };
        let dropped = tr.drop_stale_sessions();
        let (n, sentinel) = summary(map);
        return Ok(format!("-,-|sweep:{}/{}/{}/-|-", dropped, n, sentinel));
    }
    if f.len() == 5 && f[0] == "F" {
        // lookup as process_packet.rs does it: Flow -> FlowNoSrcPort::from_flow -> is_tracked_session
        let proto = f[1].parse::<u8>().map_err(|_| format!("bad next-header {}", f[1]))?;
        let dport = f[4].parse::<u16>().map_err(|_| format!("bad port {}", f[4]))?;
        let flow = Flow::from_parts(parse_addr(f[2])?, parse_addr(f[3])?, 40000, dport, IpNextHeaderProtocol(proto));
        let cj_flow = FlowNoSrcPort::from_flow(&flow);
        let tr = SessionTracker { tracked_sessions: Arc::clone(map) };
        let tracked = if tr.is_tracked_session(&cj_flow) { 1 } else { 0 };
        let (n, sentinel) = summary(map);
        return Ok(format!("-,-|flow:{}/{}/{}/-|{}", tracked, n, sentinel, hex(cj_flow.tag().as_bytes())));
    }
    if f.len() != 7 { return Err(format!("want 7 fields, got {}", f.len())); }
    let s2d = StationToDetector {
        f_operation: opt_num::<i32>(f[0])?,
        f_proto: opt_num::<i32>(f[1])?,
        f_client_ip: opt_str(f[2])?,
        f_phantom_ip: opt_str(f[3])?,
        f_dst_port: opt_num::<u32>(f[4])?,
        f_src_port: opt_num::<u32>(f[5])?,
        f_timeout_ns: opt_num::<u64>(f[6])?,
    };
    let cls = format!("{},{}", classify(s2d.client_ip()), classify(s2d.phantom_ip()));
    // 1. the conversion on its own (what pubsub_handle_s2d does first)
    let (conv, tag) = match SessionResult::from(&s2d) {
        Ok(sd) => (
            format!("ok:{}:{}:{}:{}:{}:{}", show_ip(&sd.client_ip), show_ip(&sd.phantom_ip), sd.dst_port, sd.src_port, sd.proto.0, sd.timeout),
            Some(sd.tag()),
        ),
        Err(e) => (format!("err:{:?}", e), None),
    };
    // 2. the handler itself on the shared map
    pubsub_handle_s2d(map, &s2d);
    let mm = map.read().expect("RwLock broken");
    let n = mm.len();
    let sentinel = if mm.contains_key(SENTINEL) { 1 } else { 0 };
    let val = match &tag { Some(t) => match mm.get(t) { Some(v) => format!("{}", v), None => "-".to_string() }, None => "-".to_string() };
    Ok(format!("{}|{}/{}/{}/{}|{}", cls, conv, n, sentinel, val, match tag { Some(t) => hex(t.as_bytes()), None => "-".to_string() }))
}

fn main() {
    let stdin = io::stdin();
    let stdout = io::stdout();
    let mut out = stdout.lock();
    for line in stdin.lock().lines() {
        let line = match line { Ok(l) => l, Err(_) => break };
        let map: Arc<RwLock<HashMap<String, u128>>> = Arc::new(RwLock::new(HashMap::new()));
        map.write().unwrap().insert(SENTINEL.to_string(), 1);
        set_clock(0);
        let mut res: Vec<String> = Vec::new();
        for m in line.split(';') {
            match one(&map, m) { Ok(s) => res.push(s), Err(e) => res.push(format!("BAD {}", e)) }
        }
        writeln!(out, "{}", res.join(";")).unwrap();
        out.flush().unwrap();
    }
}
`

// items of sessions.rs the oracle is made of, in the order they are emitted
var c10RustItems = []string{
	`^const S2NS\b`,
	`^const TIMEOUT_PHANTOMS_NS\b`,
	`^pub enum SessionError\b`,
	`^pub type SessionResult\b`,
	`^impl fmt::Display for SessionError\b`,
	`^pub struct SessionDetails\b`,
	`^pub trait Taggable\b`,
	`^impl Taggable for SessionDetails\b`,
	`^impl SessionDetails\b`,
	`^impl From<&StationToDetector> for SessionResult\b`,
	`^pub struct SessionTracker\b`,
	`^impl SessionTracker\b`, // is_tracked_session, session_exists, drop_stale_sessions (the packet path)
	`^fn pubsub_handle_s2d\b`,
	`^fn pubsub_add_or_update_session\b`,
	`^fn pubsub_clear\b`,
}

// items of flow_tracker.rs: the flow types the packet path looks sessions up with, and their tags
var c10RustFlowItems = []string{
	`^pub struct Flow\b`,
	`^pub struct FlowNoSrcPort\b`,
	`^impl Taggable for FlowNoSrcPort\b`,
}

// associated functions cut out of an impl block of flow_tracker.rs (the rest of those blocks needs pnet
// packet types): {type, fn header}
var c10RustFlowFns = [][2]string{
	{"Flow", `^\s*pub fn from_parts\b`},
	{"FlowNoSrcPort", `^\s*pub fn from_flow\b`},
}

// c10SkipTrivia returns the index after a comment / string / char literal starting at k, or k.
func c10SkipTrivia(src string, k int) int {
	if strings.HasPrefix(src[k:], "//") {
		if j := strings.IndexByte(src[k:], '\n'); j >= 0 {
			return k + j
		}
		return len(src)
	}
	if strings.HasPrefix(src[k:], "/*") {
		if j := strings.Index(src[k+2:], "*/"); j >= 0 {
			return k + 2 + j + 2
		}
		return len(src)
	}
	if src[k] == '"' {
		j := k + 1
		for j < len(src) && src[j] != '"' {
			if src[j] == '\\' {
				j++
			}
			j++
		}
		return j + 1
	}
	if src[k] == '\'' {
		// char literal 'x' or '\x'; a lifetime ('a) is left alone
		if k+2 < len(src) && src[k+1] != '\\' && src[k+2] == '\'' {
			return k + 3
		}
		if k+3 < len(src) && src[k+1] == '\\' && src[k+3] == '\'' {
			return k + 4
		}
	}
	return k
}

// c10SliceItem cuts one top-level item (with the attribute lines directly above it) out of src.
func c10SliceItem(src, header string) (string, error) {
	re := regexp.MustCompile("(?m)" + header)
	loc := re.FindStringIndex(src)
	if loc == nil {
		return "", fmt.Errorf("item %q not found in sessions.rs", header)
	}
	start := loc[0]
	for start > 0 {
		prevEnd := start - 1 // the newline before the item
		prevStart := strings.LastIndexByte(src[:prevEnd], '\n') + 1
		if strings.HasPrefix(strings.TrimSpace(src[prevStart:prevEnd]), "#[") {
			start = prevStart
		} else {
			break
		}
	}
	k := loc[1]
	depth := 0
	for k < len(src) {
		if j := c10SkipTrivia(src, k); j != k {
			k = j
			continue
		}
		switch src[k] {
		case ';':
			if depth == 0 {
				return src[start : k+1], nil
			}
		case '{':
			depth++
		case '}':
			depth--
			if depth == 0 {
				return src[start : k+1], nil
			}
		}
		k++
	}
	return "", fmt.Errorf("item %q: unbalanced braces", header)
}

func c10RepoRoot() string {
	if r := os.Getenv("VERIF_SCRATCH_REPO"); r != "" {
		return r
	}
	return filepath.Join("..", "..", "..") // the test runs in pkg/station/lib
}

// c10OracleSource assembles the oracle program from the current sessions.rs; also returns the name
// of the pub/sub channel the detector subscribes to.
func c10OracleSource() (prog string, channel string, err error) {
	b, err := os.ReadFile(filepath.Join(c10RepoRoot(), "src", "sessions.rs"))
	if err != nil {
		return "", "", err
	}
	src := string(b)
	if i := strings.Index(src, "#[cfg(test)]"); i > 0 {
		src = src[:i]
	}
	var parts []string
	for _, h := range c10RustItems {
		it, err := c10SliceItem(src, h)
		if err != nil {
			return "", "", err
		}
		parts = append(parts, it)
	}
	fb, err := os.ReadFile(filepath.Join(c10RepoRoot(), "src", "flow_tracker.rs"))
	if err != nil {
		return "", "", err
	}
	fsrc := string(fb)
	if i := strings.Index(fsrc, "#[cfg(test)]"); i > 0 {
		fsrc = fsrc[:i]
	}
	for _, h := range c10RustFlowItems {
		it, err := c10SliceItem(fsrc, h)
		if err != nil {
			return "", "", fmt.Errorf("flow_tracker.rs: %v", err)
		}
		parts = append(parts, it)
	}
	for _, hf := range c10RustFlowFns {
		blk, err := c10SliceItem(fsrc, `^impl `+hf[0]+`\b`)
		if err != nil {
			return "", "", fmt.Errorf("flow_tracker.rs: %v", err)
		}
		fn, err := c10SliceItem(blk, hf[1])
		if err != nil {
			return "", "", fmt.Errorf("flow_tracker.rs, inside impl %s: %v", hf[0], err)
		}
		parts = append(parts, "impl "+hf[0]+" {\n"+fn+"\n}")
	}
	wire, err := c10RustWire()
	if err != nil {
		return "", "", err
	}
	m := regexp.MustCompile(`\.subscribe\(\s*"([^"]*)"\s*\)`).FindStringSubmatch(src)
	if m == nil {
		return "", "", fmt.Errorf("subscribe(\"…\") not found in sessions.rs")
	}
	return c10RustHead + wire.enumCode() + c10RustSliced + strings.Join(parts, "\n\n") + "\n" + c10RustTail, m[1], nil
}

// ---------------------------------------------------------------------------------------------
// the detector's view of the wire format: field tags, readers and enum tables of the generated
// src/signalling.rs (rust-protobuf).  The harness decodes the bytes the station really published with
// THIS table (not with the Go protobuf library), so a disagreement between the two stacks about a field
// number, a wire type or an enum value reaches the detector oracle as the message the detector would see.

type c10RustField struct {
	tag    uint64 // full tag: field number << 3 | wire type
	name   string
	reader string // string | uint64 | uint32 | enum_or_unknown
}

type c10RustEnum struct {
	name     string
	variants [][2]string // (name, discriminant) as declared
	fromI32  [][2]string // (wire value, variant) of from_i32
	deflt    string      // variant the getter falls back to (enum_value_or)
}

type c10Wire struct {
	fields []c10RustField
	enums  []c10RustEnum
}

var c10WireCache *c10Wire

func c10RustWire() (*c10Wire, error) {
	if c10WireCache != nil {
		return c10WireCache, nil
	}
	b, err := os.ReadFile(filepath.Join(c10RepoRoot(), "src", "signalling.rs"))
	if err != nil {
		return nil, err
	}
	src := string(b)
	w := &c10Wire{}
	blk, err := c10SliceItem(src, `^impl ::protobuf::Message for StationToDetector\b`)
	if err != nil {
		return nil, fmt.Errorf("signalling.rs: %v", err)
	}
	mf, err := c10SliceItem(blk, `^\s*fn merge_from\b`)
	if err != nil {
		return nil, fmt.Errorf("signalling.rs: StationToDetector: %v", err)
	}
	arms := regexp.MustCompile(`(?s)(\d+)\s*=>\s*\{\s*self\.(\w+)\s*=\s*::std::option::Option::Some\(is\.read_(\w+)\(\)\?\);`).FindAllStringSubmatch(mf, -1)
	for _, a := range arms {
		var tag uint64
		fmt.Sscanf(a[1], "%d", &tag)
		w.fields = append(w.fields, c10RustField{tag: tag, name: a[2], reader: a[3]})
	}
	// every `=> {` arm of the match must have been understood (the catch-all `tag => {` aside)
	if n := len(regexp.MustCompile(`\d+\s*=>\s*\{`).FindAllString(mf, -1)); n != len(w.fields) || n == 0 {
		return nil, fmt.Errorf("signalling.rs: StationToDetector::merge_from has %d numbered arms, %d understood", n, len(w.fields))
	}
	for _, f := range w.fields {
		switch f.reader {
		case "string", "uint64", "uint32", "enum_or_unknown":
		default:
			return nil, fmt.Errorf("signalling.rs: StationToDetector.%s is read with read_%s, which the harness decoder does not know", f.name, f.reader)
		}
	}
	getters, err := c10SliceItem(src, `^impl StationToDetector\b`)
	if err != nil {
		return nil, fmt.Errorf("signalling.rs: %v", err)
	}
	for _, en := range [][2]string{{"IPProto", "proto"}, {"StationOperations", "operation"}} {
		e := c10RustEnum{name: en[0]}
		decl, err := c10SliceItem(src, `^pub enum `+en[0]+`\b`)
		if err != nil {
			return nil, fmt.Errorf("signalling.rs: %v", err)
		}
		for _, v := range regexp.MustCompile(`(?m)^\s*(\w+)\s*=\s*(-?\d+)\s*,`).FindAllStringSubmatch(decl, -1) {
			e.variants = append(e.variants, [2]string{v[1], v[2]})
		}
		impl, err := c10SliceItem(src, `^impl ::protobuf::Enum for `+en[0]+`\b`)
		if err != nil {
			return nil, fmt.Errorf("signalling.rs: %v", err)
		}
		fi, err := c10SliceItem(impl, `^\s*fn from_i32\b`)
		if err != nil {
			return nil, fmt.Errorf("signalling.rs: %s: %v", en[0], err)
		}
		for _, v := range regexp.MustCompile(`(-?\d+)\s*=>\s*::std::option::Option::Some\(`+en[0]+`::(\w+)\)`).FindAllStringSubmatch(fi, -1) {
			e.fromI32 = append(e.fromI32, [2]string{v[1], v[2]})
		}
		g, err := c10SliceItem(getters, `^\s*pub fn `+en[1]+`\(&self\)`)
		if err != nil {
			return nil, fmt.Errorf("signalling.rs: getter %s: %v", en[1], err)
		}
		d := regexp.MustCompile(`enum_value_or\(` + en[0] + `::(\w+)\)`).FindStringSubmatch(g)
		if d == nil || len(e.variants) == 0 || len(e.fromI32) == 0 {
			return nil, fmt.Errorf("signalling.rs: enum %s not understood (%d variants, %d from_i32 arms)", en[0], len(e.variants), len(e.fromI32))
		}
		e.deflt = d[1]
		w.enums = append(w.enums, e)
	}
	c10WireCache = w
	return w, nil
}

// enumCode renders the two enums, their from_i32 tables and getter defaults as Rust for the oracle.
func (w *c10Wire) enumCode() string {
	var sb strings.Builder
	for _, e := range w.enums {
		sb.WriteString("#[derive(Clone, Copy, PartialEq, Eq, Debug)]\npub enum " + e.name + " { ")
		for _, v := range e.variants {
			sb.WriteString(v[0] + " = " + v[1] + ", ")
		}
		sb.WriteString("}\nimpl " + e.name + " {\n    pub const DEFAULT: " + e.name + " = " + e.name + "::" + e.deflt + ";\n")
		sb.WriteString("    pub fn from_i32(v: i32) -> Option<" + e.name + "> {\n        match v {\n")
		for _, v := range e.fromI32 {
			sb.WriteString("            " + v[0] + " => Some(" + e.name + "::" + v[1] + "),\n")
		}
		sb.WriteString("            _ => None,\n        }\n    }\n}\n")
	}
	return sb.String()
}

// c10RustDecode reads a published payload the way the generated Rust code does (merge_from): known
// tags by their reader, everything else skipped by wire type, the last occurrence of a field wins.
// Returns the message in the oracle's syntax.
func (w *c10Wire) decode(p []byte) (string, error) {
	f := map[string]string{}
	varint := func() (uint64, error) {
		var v uint64
		for i := 0; i < 10; i++ {
			if len(p) == 0 {
				return 0, fmt.Errorf("truncated varint")
			}
			b := p[0]
			p = p[1:]
			v |= uint64(b&0x7f) << (7 * uint(i))
			if b < 0x80 {
				return v, nil
			}
		}
		return 0, fmt.Errorf("varint too long")
	}
	bytesN := func() ([]byte, error) {
		n, err := varint()
		if err != nil {
			return nil, err
		}
		if n > uint64(len(p)) {
			return nil, fmt.Errorf("truncated length-delimited field")
		}
		b := p[:n]
		p = p[n:]
		return b, nil
	}
	for len(p) > 0 {
		tag, err := varint()
		if err != nil {
			return "", err
		}
		var fld *c10RustField
		for i := range w.fields {
			if w.fields[i].tag == tag {
				fld = &w.fields[i]
			}
		}
		if fld == nil {
			switch tag & 7 {
			case 0:
				_, err = varint()
			case 1:
				if len(p) < 8 {
					err = fmt.Errorf("truncated fixed64")
				} else {
					p = p[8:]
				}
			case 2:
				_, err = bytesN()
			case 5:
				if len(p) < 4 {
					err = fmt.Errorf("truncated fixed32")
				} else {
					p = p[4:]
				}
			default:
				err = fmt.Errorf("wire type %d", tag&7)
			}
			if err != nil {
				return "", err
			}
			continue
		}
		switch fld.reader {
		case "string":
			b, err := bytesN()
			if err != nil {
				return "", err
			}
			if !utf8.Valid(b) {
				return "", fmt.Errorf("field %s is not UTF-8", fld.name)
			}
			f[fld.name] = "h" + hex.EncodeToString(b)
		case "uint64":
			v, err := varint()
			if err != nil {
				return "", err
			}
			f[fld.name] = fmt.Sprintf("%d", v)
		case "uint32":
			v, err := varint()
			if err != nil {
				return "", err
			}
			f[fld.name] = fmt.Sprintf("%d", uint32(v))
		case "enum_or_unknown":
			v, err := varint()
			if err != nil {
				return "", err
			}
			f[fld.name] = fmt.Sprintf("%d", int32(v))
		}
	}
	out := make([]string, 7)
	for i, name := range []string{"operation", "proto", "client_ip", "phantom_ip", "dst_port", "src_port", "timeout_ns"} {
		out[i] = "-"
		if v, ok := f[name]; ok {
			out[i] = v
		}
	}
	return strings.Join(out, ","), nil
}

type c10Oracle struct {
	cmd     *exec.Cmd
	stdin   io.WriteCloser
	in      *bufio.Writer
	out     *bufio.Reader
	channel string
}

// c10BuildOracle compiles the oracle (cached by content hash in VERIF_OUT) and starts it.
func c10BuildOracle() (*c10Oracle, error) {
	prog, channel, err := c10OracleSource()
	if err != nil {
		return nil, err
	}
	dir := os.Getenv("VERIF_OUT")
	if dir == "" {
		dir = filepath.Join(os.TempDir(), "verif-out-C10")
	}
	if err := os.MkdirAll(dir, 0o755); err != nil {
		return nil, err
	}
	sum := sha256.Sum256([]byte(prog))
	base := filepath.Join(dir, "c10_detector_oracle_"+hex.EncodeToString(sum[:6]))
	if _, err := os.Stat(base); err != nil {
		if err := os.WriteFile(base+".rs", []byte(prog), 0o644); err != nil {
			return nil, err
		}
		tmp := fmt.Sprintf("%s.tmp%d", base, os.Getpid())
		c := exec.Command("rustc", "--edition", "2021", "-O", "-o", tmp, base+".rs")
		if outp, err := c.CombinedOutput(); err != nil {
			return nil, fmt.Errorf("rustc failed on the text sliced out of sessions.rs: %v\n%s", err, outp)
		}
		if err := os.Rename(tmp, base); err != nil {
			return nil, err
		}
	}
	cmd := exec.Command(base)
	stdin, err := cmd.StdinPipe()
	if err != nil {
		return nil, err
	}
	stdout, err := cmd.StdoutPipe()
	if err != nil {
		return nil, err
	}
	cmd.Stderr = os.Stderr
	if err := cmd.Start(); err != nil {
		return nil, err
	}
	return &c10Oracle{cmd: cmd, stdin: stdin, in: bufio.NewWriter(stdin), out: bufio.NewReaderSize(stdout, 1<<16), channel: channel}, nil
}

// c10Answer is the oracle's verdict on one message of a line.
type c10Answer struct {
	clsClient, clsPhantom string // how the detector's parser classifies the two text fields
	canon                 string // <conversion>/<map size>/<sentinel present>/<expiry under the session's tag>
	conv                  string
	n, sentinel           string
	val                   string
	tag                   string
}

// ask sends one line (messages separated by ';') and parses the per-message answers.
func (o *c10Oracle) ask(line string) ([]c10Answer, error) {
	if _, err := o.in.WriteString(line + "\n"); err != nil {
		return nil, err
	}
	if err := o.in.Flush(); err != nil {
		return nil, err
	}
	resp, err := o.out.ReadString('\n')
	if err != nil {
		return nil, fmt.Errorf("detector oracle died: %v", err)
	}
	resp = strings.TrimRight(resp, "\n")
	var out []c10Answer
	for _, r := range strings.Split(resp, ";") {
		p := strings.Split(r, "|")
		if len(p) != 3 {
			return nil, fmt.Errorf("detector oracle: %q (input %q)", r, line)
		}
		cls := strings.Split(p[0], ",")
		q := strings.Split(p[1], "/")
		if len(cls) != 2 || len(q) != 4 {
			return nil, fmt.Errorf("detector oracle: %q", r)
		}
		tag := ""
		if p[2] != "-" {
			tb, _ := hex.DecodeString(p[2])
			tag = string(tb)
		}
		out = append(out, c10Answer{clsClient: cls[0], clsPhantom: cls[1], canon: p[1], conv: q[0], n: q[1], sentinel: q[2], val: q[3], tag: tag})
	}
	return out, nil
}

func (o *c10Oracle) close() {
	o.in.Flush()
	o.stdin.Close()
	_ = o.cmd.Wait()
}
