//go:build verif

package lib

// C10 over time: histories of the station's registry next to the detector's session table.
//
// The single-message cases of zz_verif_c10_test.go cannot see a lifetime that is requested for the
// wrong registration or that stops matching the station's own: "the detector forwards a session for as
// long as the station would accept it" relates two tables that evolve.  A history here is a sequence
// of events on a small set of registrations built by the real parseRegMessage:
//
//	i  ingestRegistration of a fresh copy (first time: track + validate + New; later: the duplicate path)
//	f  ingestRegistration of a copy that fails validation (covert address refused, or the phantom
//	   answers the liveness probe): tracked, never validated
//	t  TrackRegistration        r  AddRegistration
//	m  MarkActive — of the object the station stores, of the object a connection handler obtained from
//	   an earlier lookup (possibly removed by the sweeper since), or of a copy that was never tracked
//	s  RemoveOldRegistrations
//	P  probe: RemoveOldRegistrations, then the detector's drop_stale_sessions, then for every
//	   registration: does the station return it for its phantom, does the packet path forward its flow
//	q  the same without the station's sweep (never judged against the station's state)
//
// on a virtual clock (whole seconds): the station's records are aged by shifting their real timestamps,
// the detector (the rustc-compiled slice of src/sessions.rs) has its clock set per step.  Every
// publication the real closures make reaches the detector at the clock value of the event.
//
// Oracles, evaluated on the real station + the real detector code, independent of the Lean model:
//
//	C10:accepted-but-not-forwarded          at a probe that follows the station's own sweep at the same
//	                                        instant the station still returns a registration for its
//	                                        phantom but the detector no longer forwards its flow
//	C10:not-forwarded-within-station-lifetime  harness ground truth (first registration time of the
//	                                        current lifetime, validated, used): a validated registration
//	                                        younger than 10 min (6 h once used) is not forwarded
//	C10:announced-for-untracked             a New / Update is published for a registration the station does
//	                                        not track at that moment (New: … or does not serve afterwards)
//
// plus the message-level oracles of run() on every publication (fields, lifetime 10 min / 6 h, channel).
// Sweeps and probes never happen at an instant at which some record is exactly at a lifetime (events
// are on whole minutes, sweeps / probes at :30, :01 or :59), and a history that took longer than
// c10hSlowLimit of real time is discarded as a whole, so no verdict depends on timing.

import (
	"encoding/hex"
	"fmt"
	"net"
	"strconv"
	"strings"
	"time"

	"github.com/refraction-networking/conjure/internal/vlib"
	pb "github.com/refraction-networking/conjure/proto"
	"google.golang.org/protobuf/proto"
)

const c10hSlowLimit = 900 * time.Millisecond

// the property's lifetimes in seconds (ground truth, not read from the code)
const c10hUnused, c10hActive = int64(600), int64(21600)

type c10hKey struct {
	raw        []byte // C2SWrapper bytes the registration is parsed from
	idx        int    // which of the registrations parseRegMessage builds from it
	phText     string
	idHex      string
	ident      string
	tr         pb.TransportType
	phantom    []byte
	registrant []byte
	port       int
	proto      int
	exp        c10Expect // the session the detector must file an announcement under
	flowSrc    string
	probe      *DecoyRegistration // a copy used only to ask the station whether it tracks the registration
}

type c10hOp struct {
	kind byte // i f t r m s P q
	key  int
	now  int64
	arg  byte // f: 'c' covert refused | 'l' phantom live;  m: 'c' stored object | 'h' held pointer | 'f' fresh copy
}

func (o c10hOp) enc() string {
	switch o.kind {
	case 's', 'P', 'q':
		return fmt.Sprintf("%c.%d", o.kind, o.now)
	case 'f', 'm':
		return fmt.Sprintf("%c.%d.%d.%c", o.kind, o.key, o.now, o.arg)
	}
	return fmt.Sprintf("%c.%d.%d", o.kind, o.key, o.now)
}

func c10hDecOp(s string) (c10hOp, error) {
	f := strings.Split(s, ".")
	bad := fmt.Errorf("bad history operation %q", s)
	if len(f) < 2 || len(f[0]) != 1 {
		return c10hOp{}, bad
	}
	o := c10hOp{kind: f[0][0]}
	num := func(x string) (int64, error) { return strconv.ParseInt(x, 10, 64) }
	var err error
	switch o.kind {
	case 's', 'P', 'q':
		if len(f) != 2 {
			return o, bad
		}
		o.now, err = num(f[1])
	case 'f', 'm':
		if len(f) != 4 || len(f[3]) != 1 {
			return o, bad
		}
		var k int64
		if k, err = num(f[1]); err == nil {
			o.key = int(k)
			o.now, err = num(f[2])
		}
		o.arg = f[3][0]
	case 'i', 't', 'r':
		if len(f) != 3 {
			return o, bad
		}
		var k int64
		if k, err = num(f[1]); err == nil {
			o.key = int(k)
			o.now, err = num(f[2])
		}
	default:
		return o, bad
	}
	if err != nil {
		return o, bad
	}
	return o, nil
}

type c10hGT struct { // harness ground truth of one registration's current lifetime
	first int64
	valid bool
	used  bool
}

func c10hLife(used bool) int64 {
	if used {
		return c10hActive
	}
	return c10hUnused
}

// histReset gives the manager an empty registry built by the real constructor (real closures).
func (w *c10World) histReset() {
	w.rm.registeredDecoys = NewRegisteredDecoys()
	for _, tt := range c10TransportOrder {
		if err := w.rm.AddTransport(tt, c10KnownTransports[tt]()); err != nil {
			w.t.Fatal(err)
		}
	}
	w.rm.LivenessTester = c10Live{}
	w.rds.take()
}

// histObj parses a fresh copy of the key's registration (a new object, as every message from a
// registrar produces one).
func (w *c10World) histObj(k *c10hKey) *DecoyRegistration {
	regs, err := w.rm.parseRegMessage(k.raw)
	if err != nil || k.idx >= len(regs) || regs[k.idx] == nil {
		w.t.Fatalf("history key: wrapper %x no longer yields registration %d: %v", k.raw, k.idx, err)
	}
	return regs[k.idx]
}

func (w *c10World) histKey(raw []byte, idx int) (*c10hKey, error) {
	regs, err := w.rm.parseRegMessage(raw)
	if err != nil {
		return nil, err
	}
	if idx >= len(regs) || regs[idx] == nil {
		return nil, fmt.Errorf("wrapper yields %d registration(s), wanted #%d", len(regs), idx)
	}
	reg := regs[idx]
	t, ok := w.rm.registeredDecoys.transports[reg.Transport]
	if !ok {
		return nil, fmt.Errorf("transport %s not enabled", reg.Transport)
	}
	parsed := &pb.C2SWrapper{}
	if err := proto.Unmarshal(raw, parsed); err != nil {
		return nil, err
	}
	k := &c10hKey{raw: raw, idx: idx, phText: reg.PhantomIp.String(), ident: t.GetIdentifier(reg), tr: reg.Transport,
		phantom: append([]byte(nil), reg.PhantomIp...), registrant: append([]byte(nil), reg.registrationAddr...),
		port: int(reg.PhantomPort), proto: int(reg.PhantomProto)}
	k.idHex = vlib.Hex([]byte(k.ident))
	k.probe = reg
	// what the detector must make of an announcement of this registration: from the message, not from
	// what the code publishes (the phantom is the one the station selected: C01 / C07)
	k.exp = c10Expect{kind: "session", phantom: c10Canon(reg.PhantomIp), client: c10Canon(c10Registrant(parsed)),
		port: int(reg.PhantomPort), proto: c10TransportProto[parsed.GetRegistrationPayload().GetTransport()]}
	k.flowSrc = k.exp.client
	if strings.HasPrefix(k.exp.phantom, "6.") && !strings.HasPrefix(k.flowSrc, "6.") {
		k.flowSrc = "6.20010db8000000000000000000000099" // the tag of an IPv6 phantom leaves the source out
	}
	if !strings.HasPrefix(k.exp.phantom, "4.") && !strings.HasPrefix(k.exp.phantom, "6.") {
		return nil, fmt.Errorf("phantom %s is not an address", k.exp.phantom)
	}
	return k, nil
}

func (k *c10hKey) modelKey() string {
	return fmt.Sprintf("%s,%s,%d,%s,%s,%d,%d", k.phText, k.idHex, int(k.tr), vlib.Hex(k.phantom), vlib.Hex(k.registrant), k.port, k.proto)
}

func (k *c10hKey) enc() string { return hex.EncodeToString(k.raw) + "." + strconv.Itoa(k.idx) }

// histAge moves the station's clock: every timeout record is shifted into the past by the elapsed
// virtual time (relative shift, so whatever the code itself writes into a record is preserved).
func (w *c10World) histAge(d int64) {
	if d <= 0 {
		return
	}
	rd := w.rm.registeredDecoys
	rd.m.Lock()
	defer rd.m.Unlock()
	for _, to := range rd.decoysTimeouts {
		to.registrationTime = to.registrationTime.Add(-time.Duration(d) * time.Second)
	}
}

func (w *c10World) histServes(k *c10hKey) bool {
	_, ok := w.rm.GetRegistrations(net.IP(k.phantom))[k.ident]
	return ok
}

type c10hAnn struct { // one publication of the history
	op      int    // index of the operation that made it
	step    int    // index of the detector step
	key     int    // the registration the operation was about
	tracked bool   // the station tracks that registration right after the operation
	serves  bool   // … and returns it for its phantom
	opName  string // op field as the detector reads it
}

type c10hProbe struct {
	op     int
	now    int64
	judged bool // follows the station's own sweep at the same instant
	first  int  // index of the first flow step (one per key, in key order)
	serves []bool
	alive  []bool // ground truth: validated and inside the property's lifetime
	gt     []string
}

// history executes one history on the real station, hands what it published to the real detector code,
// records the correspondence cases and evaluates the oracles.  Returns false if it was discarded (slow).
func (w *c10World) history(keys []*c10hKey, ops []c10hOp) bool {
	saved, savedLive := w.rm.registeredDecoys, w.rm.LivenessTester
	defer func() { w.rm.registeredDecoys, w.rm.LivenessTester = saved, savedLive }()
	w.histReset()
	t0 := time.Now()

	var kenc, oenc, kmodel []string
	for _, k := range keys {
		kenc = append(kenc, k.enc())
		kmodel = append(kmodel, k.modelKey())
	}
	for _, o := range ops {
		oenc = append(oenc, o.enc())
	}
	token := "hist," + strings.Join(kenc, "/") + "//" + strings.Join(oenc, "/")
	replay := "c10replay|" + token

	rd := w.rm.registeredDecoys
	unusedNs := uint64(rd.timeoutUnused.Nanoseconds())
	activeNs := uint64(rd.timeoutActive.Nanoseconds())
	var en []string
	for _, tt := range c10TransportOrder {
		en = append(en, strconv.Itoa(int(tt)))
	}

	// the first step carries the replay token of the whole history (a sweep at clock 0 drops nothing)
	first := c10Sweep(0)
	first.replay = token
	steps := []c10Step{first}
	sub := func(st c10Step) c10Step { st.replay = "(hist)"; return st }

	gt := make([]*c10hGT, len(keys))
	held := make([]*DecoyRegistration, len(keys))
	var mops []string
	outs := make([]string, 0, len(ops)) // implementation's answer per model op; "@<n>" = filled from detector step n
	var anns []c10hAnn
	var probes []c10hProbe
	now := int64(0)
	ns := func(t int64) uint64 { return uint64(t) * 1000000000 }

	publish := func(oi int, k int, pubs []c10Pub, kind string, dur uint64, opv int) string {
		// every publication becomes a detector step at the clock value of the event
		res := ""
		for _, p := range pubs {
			d := &DecoyRegistration{PhantomIp: keys[k].phantom, registrationAddr: keys[k].registrant, PhantomPort: uint16(keys[k].port), PhantomProto: pb.IPProto(keys[k].proto)}
			st := c10Step{model: c10ModelR(d, dur, opv), pubs: 1, chans: []string{p.channel}, orc: "-,-,-,-,-,-,-"}
			o, err := w.wire.decode(p.payload)
			if err != nil {
				st.decErr = err.Error() + " (payload " + hex.EncodeToString(p.payload) + ")"
			} else {
				st.orc = o
				m := &pb.StationToDetector{}
				if err := proto.Unmarshal(p.payload, m); err == nil {
					st.goView = c10OracleMsg(m)
				}
			}
			st.exp = keys[k].exp
			st.exp.timeout = map[string]uint64{"new": c10TenMinutesNs, "upd": c10SixHoursNs}[kind]
			st.exp.what = fmt.Sprintf("history: %s announcement of registration #%d (%s on %s) at %d s", kind, k, keys[k].tr, keys[k].phText, now)
			steps = append(steps, sub(st.atTime(ns(now))))
			opName := strings.SplitN(st.orc, ",", 2)[0]
			tracked := w.rm.registeredDecoys.RegistrationExists(keys[k].probe) != nil
			anns = append(anns, c10hAnn{op: oi, step: len(steps) - 1, key: k, tracked: tracked, serves: w.histServes(keys[k]), opName: opName})
			w.out.Count("hist:announced:" + opName)
		}
		switch len(pubs) {
		case 0:
		case 1:
			res = fmt.Sprintf("@%d", len(steps)-1)
		default:
			res = fmt.Sprintf("pubs=%d", len(pubs))
		}
		return res
	}

	for oi, op := range ops {
		if op.now > now {
			w.histAge(op.now - now)
			now = op.now
		}
		w.out.Count("hist:op:" + string(op.kind))
		var k *c10hKey
		if op.kind != 's' && op.kind != 'P' && op.kind != 'q' {
			k = keys[op.key]
		}
		switch op.kind {
		case 'i', 'f':
			d := w.histObj(k)
			passes := op.kind == 'i'
			if !passes {
				switch op.arg {
				case 'l':
					if d.PhantomIp.To4() != nil && !d.PreScanned() {
						w.rm.LivenessTester = c10Live{live: true}
					} else {
						d.Covert = "192.0.2.77" // no liveness probe for this registration: refuse the covert instead
					}
				default:
					d.Covert = "192.0.2.77" // an address without a port is refused
				}
			}
			before := w.rm.registeredDecoys.RegistrationExists(d)
			cnt := int32(0)
			if before != nil {
				cnt = before.regCount
			}
			w.rds.take()
			w.rm.ingestRegistration(d)
			pubs := w.rds.take()
			w.rm.LivenessTester = c10Live{}
			after := w.rm.registeredDecoys.RegistrationExists(d)
			mops = append(mops, fmt.Sprintf("i,%d,%d,%s", op.key, ns(now), vlib.B(passes)))
			ann := publish(oi, op.key, pubs, "new", unusedNs, 1)
			switch {
			case ann != "":
				outs = append(outs, "new/"+ann)
			case before == nil && after == nil:
				outs = append(outs, "err")
			case before != nil && after == before && after.regCount == cnt+1:
				outs = append(outs, "dup")
			case before == nil && after != nil && !after.Valid:
				outs = append(outs, "none")
			default:
				outs = append(outs, fmt.Sprintf("?before=%v,after=%v", before != nil, after != nil))
			}
			if gt[op.key] == nil {
				gt[op.key] = &c10hGT{first: now, valid: passes}
			}
			if after != nil && after.Valid {
				held[op.key] = after
			}
		case 't':
			d := w.histObj(k)
			w.rds.take()
			err := w.rm.TrackRegistration(d)
			pubs := w.rds.take()
			mops = append(mops, fmt.Sprintf("t,%d,%d", op.key, ns(now)))
			ann := publish(oi, op.key, pubs, "new", unusedNs, 1)
			switch {
			case ann != "":
				outs = append(outs, "ann?/"+ann)
			case err != nil:
				outs = append(outs, "err")
			default:
				outs = append(outs, "ok")
			}
			if gt[op.key] == nil {
				gt[op.key] = &c10hGT{first: now}
			}
		case 'r':
			d := w.histObj(k)
			w.rds.take()
			w.rm.AddRegistration(d)
			pubs := w.rds.take()
			after := w.rm.registeredDecoys.RegistrationExists(d)
			mops = append(mops, fmt.Sprintf("r,%d,%d", op.key, ns(now)))
			ann := publish(oi, op.key, pubs, "new", unusedNs, 1)
			switch {
			case ann != "":
				outs = append(outs, "new/"+ann)
			case after == nil:
				outs = append(outs, "err")
			default:
				outs = append(outs, "dup")
			}
			if gt[op.key] == nil {
				gt[op.key] = &c10hGT{first: now}
			}
			gt[op.key].valid = true
			if after != nil && after.Valid {
				held[op.key] = after
			}
		case 'm':
			d := w.histObj(k) // a copy that was never tracked
			switch op.arg {
			case 'c':
				if stored := w.rm.registeredDecoys.RegistrationExists(d); stored != nil {
					d = stored
				}
			case 'h':
				if held[op.key] != nil {
					d = held[op.key] // what a handler got from its lookup; the sweeper may have removed it since
				}
			}
			w.rds.take()
			w.rm.MarkActive(d)
			pubs := w.rds.take()
			mops = append(mops, fmt.Sprintf("m,%d,%d", op.key, ns(now)))
			ann := publish(oi, op.key, pubs, "upd", activeNs, 2)
			if ann != "" {
				outs = append(outs, "upd/"+ann)
			} else {
				outs = append(outs, "none")
			}
			if gt[op.key] != nil {
				gt[op.key].used = true
			}
		case 's', 'P', 'q':
			if op.kind != 'q' {
				w.rds.take()
				n, v := w.rm.registeredDecoys.removeOldRegistrations(w.rm.Logger)
				if pubs := w.rds.take(); len(pubs) != 0 {
					outs = append(outs, fmt.Sprintf("swept %d %d pubs=%d", n, v, len(pubs)))
				} else {
					outs = append(outs, fmt.Sprintf("swept %d %d", n, v))
				}
				mops = append(mops, fmt.Sprintf("s,%d", ns(now)))
				for i, g := range gt {
					if g != nil && now-g.first > c10hLife(g.used) {
						gt[i] = nil
					}
				}
			}
			if op.kind != 's' {
				mops = append(mops, fmt.Sprintf("p,%d", ns(now)))
				outs = append(outs, fmt.Sprintf("#%d", len(probes)))
				steps = append(steps, sub(c10Sweep(ns(now))))
				pr := c10hProbe{op: oi, now: now, judged: op.kind == 'P', first: len(steps)}
				for i, kk := range keys {
					steps = append(steps, sub(c10Flow(kk.exp.proto, kk.flowSrc, kk.exp.phantom, kk.exp.port, c10Expect{})))
					pr.serves = append(pr.serves, w.histServes(kk))
					g := gt[i]
					pr.alive = append(pr.alive, g != nil && g.valid && now-g.first < c10hLife(g.used))
					if g != nil {
						pr.gt = append(pr.gt, fmt.Sprintf("first registered at %d s, validated=%v, used=%v", g.first, g.valid, g.used))
					} else {
						pr.gt = append(pr.gt, "not registered (or expired)")
					}
				}
				probes = append(probes, pr)
			}
		default:
			w.t.Fatalf("unknown history operation %q", op.kind)
		}
	}
	if time.Since(t0) >= c10hSlowLimit {
		w.out.Count("hist:discarded-slow-history")
		return false
	}

	ans := w.run(steps, true)

	// ---- the implementation's answer to the history case
	for i, o := range outs {
		switch {
		case strings.Contains(o, "/@"):
			p := strings.SplitN(o, "/@", 2)
			si, _ := strconv.Atoi(p[1])
			outs[i] = p[0] + "/" + ans[si].conv + "/" + ans[si].val
		case strings.HasPrefix(o, "#"):
			pi, _ := strconv.Atoi(o[1:])
			pr := probes[pi]
			var bits []string
			for j := range keys {
				f := "0"
				if ans[pr.first+j].conv == "flow:1" {
					f = "1"
				}
				bits = append(bits, vlib.B(pr.serves[j])+f)
			}
			outs[i] = "p:" + strings.Join(bits, ",")
		}
	}
	model := fmt.Sprintf("c10h|%d|%d|%s|%s|%s", unusedNs, activeNs, strings.Join(en, ","), strings.Join(kmodel, ";"), strings.Join(mops, ";"))
	w.out.Case(model, strings.Join(outs, ";"), true)

	// ---- oracles
	for _, a := range anns {
		w.out.Checked()
		k := keys[a.key]
		name := map[string]string{"1": "New", "2": "Update"}[a.opName]
		if name == "" {
			name = "op " + a.opName
		}
		if !a.tracked {
			w.out.OracleFail("C10:announced-for-untracked:"+name,
				fmt.Sprintf("operation %d (%s) at %d s published %s (%s) for registration #%d (%s on %s), which the station does not track at that moment: it has no lifetime for it and refuses the next connection",
					a.op, ops[a.op].enc(), ops[a.op].now, name, ans[a.step].conv, a.key, k.tr, k.phText), replay)
		} else if a.opName == "1" && !a.serves {
			w.out.OracleFail("C10:announced-for-untracked:New-not-served",
				fmt.Sprintf("operation %d (%s) at %d s published New for registration #%d (%s on %s), which the station does not return for its phantom afterwards",
					a.op, ops[a.op].enc(), ops[a.op].now, a.key, k.tr, k.phText), replay)
		}
	}
	for _, pr := range probes {
		for j, k := range keys {
			fwd := ans[pr.first+j].conv == "flow:1"
			w.out.Checked()
			if pr.judged && pr.serves[j] && !fwd {
				w.out.Count("hist:oracle:accepted-but-not-forwarded")
				w.out.OracleFail("C10:accepted-but-not-forwarded",
					fmt.Sprintf("at %d s, right after its own sweep, the station still returns registration #%d (%s on %s; %s) for its phantom, but the detector (after drop_stale_sessions at the same instant) no longer forwards the flow %s: the lifetime the station requested is shorter than the one it applies",
						pr.now, j, k.tr, k.phText, pr.gt[j], steps[pr.first+j].orc), replay)
			}
			w.out.Checked()
			if pr.alive[j] && !fwd {
				w.out.OracleFail("C10:not-forwarded-within-station-lifetime",
					fmt.Sprintf("at %d s registration #%d (%s on %s; %s) is inside the station's lifetime for its state (10 min unused / 6 h used) but the detector does not forward the flow %s",
						pr.now, j, k.tr, k.phText, pr.gt[j], steps[pr.first+j].orc), replay)
			}
			if pr.alive[j] {
				w.out.Count("hist:probe:alive")
			} else if pr.serves[j] {
				w.out.Count(fmt.Sprintf("hist:probe:served-not-alive:after-station-sweep=%v", pr.judged))
			} else if fwd {
				w.out.Count("hist:probe:forwarded-not-served")
			} else {
				w.out.Count("hist:probe:gone")
			}
		}
	}
	if vlib.Replay() != "" {
		fmt.Printf("REPLAY history of %d registration(s): %s\n", len(keys), strings.Join(oenc, " "))
		for i := range mops {
			fmt.Printf("REPLAY   %-28s -> %s\n", mops[i], outs[i])
		}
		for _, pr := range probes {
			for j := range keys {
				fmt.Printf("REPLAY   probe at %d s, registration #%d: station serves=%v, detector forwards=%v, ground truth: %s (inside lifetime: %v)\n",
					pr.now, j, pr.serves[j], ans[pr.first+j].conv == "flow:1", pr.gt[j], pr.alive[j])
			}
		}
	}
	return true
}

// ---------------------------------------------------------------------------------------------
// generators

// histKeys builds n registrations: both families, every enabled transport in turn, registrant IPv4 /
// v4-mapped / IPv6 / absent; key 1 (if any) shares the secret of key 0 where a wrapper supports both
// families (one secret, two phantoms).
func (w *c10World) histKeys(r *vlib.Rand, n int) []*c10hKey {
	var keys []*c10hKey
	for tries := 0; len(keys) < n && tries < 50*n; tries++ {
		i := r.Intn(1 << 20)
		tr := c10TransportOrder[i%len(c10TransportOrder)]
		cw := c10Wrapper{transport: tr, libver: 3, gen: 957, source: pb.RegistrationSource_API, secret: r.Bytes(32)}
		switch r.Intn(4) {
		case 0:
			cw.v4, cw.registrant = true, c10Registrants[1].b
		case 1:
			cw.v4, cw.registrant = true, c10Registrants[2].b
		case 2:
			cw.v6, cw.registrant = true, c10Registrants[r.Intn(4)].b
		default:
			cw.v4, cw.v6, cw.registrant = true, true, c10Registrants[1+r.Intn(2)].b
		}
		cw.randPort = r.Chance(1, 3)
		cw.prescanned = r.Chance(1, 5)
		raw, err := proto.Marshal(cw.build())
		if err != nil {
			w.t.Fatal(err)
		}
		for idx := 0; idx < 2 && len(keys) < n; idx++ {
			k, err := w.histKey(raw, idx)
			if err != nil {
				break
			}
			keys = append(keys, k)
			w.out.Count(fmt.Sprintf("hist:key:%s:v6=%v", k.tr, strings.HasPrefix(k.exp.phantom, "6.")))
		}
	}
	if len(keys) < n {
		w.t.Fatalf("could not build %d history registrations", n)
	}
	return keys
}

// c10hNextMinute is the first whole minute after t.
func c10hNextMinute(t int64) int64 { return (t/60 + 1) * 60 }

func (w *c10World) histRandom(r *vlib.Rand, n int) {
	for done := 0; done < n; {
		keys := w.histKeys(r, r.Range(1, 3))
		L := r.Range(3, 14)
		var ops []c10hOp
		var starts []int64 // instants at which something was registered / announced: lifetimes start there
		now := int64(0)
		for i := 0; i < L; i++ {
			switch r.Intn(10) {
			case 0:
				now += 60 * int64(r.Range(1, 12))
			case 1:
				now += 60 * int64(r.Range(30, 400))
			case 2, 3:
				now += 60
			}
			op := c10hOp{key: r.Intn(len(keys)), now: now}
			switch k := r.Intn(20); {
			case k < 5:
				op.kind = 'i'
				starts = append(starts, now)
			case k < 7:
				op.kind, op.arg = 'f', []byte{'c', 'l'}[r.Intn(2)]
				starts = append(starts, now)
			case k < 8:
				op.kind = 't'
				starts = append(starts, now)
			case k < 10:
				op.kind = 'r'
				starts = append(starts, now)
			case k < 14:
				op.kind, op.arg = 'm', []byte{'c', 'h', 'h', 'f'}[r.Intn(4)]
				starts = append(starts, now)
			default:
				op.kind = []byte{'P', 'P', 'P', 'P', 'q', 's'}[r.Intn(6)]
				op.now = now + 30
				if len(starts) > 0 && r.Chance(2, 3) {
					// aim next to the end of a lifetime that started earlier (never at it)
					at := starts[r.Intn(len(starts))] + []int64{c10hUnused, c10hActive}[r.Intn(2)] + []int64{-1, 1}[r.Intn(2)]
					if at > now {
						op.now = at
					}
				}
				now = c10hNextMinute(op.now)
			}
			ops = append(ops, op)
		}
		// always end with judged probes: shortly after, and past the 10-minute mark of the last event
		ops = append(ops, c10hOp{kind: 'P', now: now + 30})
		if len(starts) > 0 {
			at := starts[len(starts)-1] + c10hUnused + 1
			if at > now+30 {
				ops = append(ops, c10hOp{kind: 'P', now: at})
			}
		}
		if w.history(keys, ops) {
			done++
		}
	}
}

// histExhaustive runs every history of length ≤ L over an alphabet on one registration.  A letter that
// is not a probe happens on the next whole minute; probe letters are placed relative to the last event:
// 30 s later, or 1 s before / after the 10-minute mark, or 1 s after the 6-hour mark of that event.
func (w *c10World) histExhaustive(r *vlib.Rand, L int) {
	type letter struct {
		kind, arg byte
		off       int64 // probes: offset from the last event (0 = 30 s after the previous operation)
	}
	alpha := []letter{{'i', 0, 0}, {'f', 'c', 0}, {'r', 0, 0}, {'m', 'h', 0}, {'P', 0, 0}, {'P', 0, c10hUnused - 1}, {'P', 0, c10hUnused + 1}, {'P', 0, c10hActive + 1}}
	keys := w.histKeys(r, 1)
	var rec func(prefix []letter)
	rec = func(prefix []letter) {
		if len(prefix) > 0 {
			for attempt := 0; attempt < 5; attempt++ {
				var ops []c10hOp
				now, last := int64(0), int64(0)
				for _, l := range prefix {
					if l.kind == 'P' {
						at := now + 30
						if l.off != 0 && last+l.off > now {
							at = last + l.off
						}
						ops = append(ops, c10hOp{kind: 'P', now: at})
						now = c10hNextMinute(at)
						continue
					}
					now = c10hNextMinute(now)
					last = now
					ops = append(ops, c10hOp{kind: l.kind, arg: l.arg, now: now})
				}
				if w.history(keys, ops) {
					break
				}
			}
		}
		if len(prefix) == L {
			return
		}
		for _, l := range alpha {
			rec(append(append([]letter(nil), prefix...), l))
		}
	}
	rec(nil)
}

// histCorpus: hand-written histories around the places where the two tables could drift apart.
func (w *c10World) histCorpus(r *vlib.Rand) {
	m := int64(60)
	for rep := 0; rep < 2; rep++ {
		keys := w.histKeys(r, 2)
		for _, h := range [][]c10hOp{
			// a duplicate shortly before the end of the unused lifetime: the lifetime still ends 10 min after the first registration
			{{kind: 'i', now: 0}, {kind: 'i', now: 9 * m}, {kind: 'P', now: 10*m - 1}, {kind: 'P', now: 10*m + 1}, {kind: 'P', now: 19*m - 1}, {kind: 'P', now: 19*m + 1}},
			// the sweeper removes a registration a handler still holds; the handler then reports its connection
			{{kind: 'i', now: 0}, {kind: 'P', now: 10*m + 1}, {kind: 'm', arg: 'h', now: 11 * m}, {kind: 'P', now: 11*m + 30}, {kind: 'P', now: 21*m + 1}},
			// a connection for a registration that was never tracked
			{{kind: 'm', arg: 'f', now: m}, {kind: 'P', now: m + 30}, {kind: 'i', key: 1, now: 2 * m}, {kind: 'm', arg: 'f', now: 3 * m}, {kind: 'P', now: 3*m + 30}},
			// used registration: duplicates late in its life do not extend the 6 hours, further connections re-announce
			{{kind: 'i', now: 0}, {kind: 'm', arg: 'c', now: 5 * m}, {kind: 'i', now: 300 * m}, {kind: 'P', now: 360*m - 1}, {kind: 'P', now: 360*m + 1}, {kind: 'P', now: 365*m + 1}},
			{{kind: 'i', now: 0}, {kind: 'm', arg: 'c', now: 5 * m}, {kind: 'm', arg: 'h', now: 200 * m}, {kind: 'P', now: 360*m + 1}, {kind: 'm', arg: 'h', now: 361 * m}, {kind: 'P', now: 361*m + 30}, {kind: 'P', now: 560*m + 1}},
			// tracked but not validated: a connection is reported anyway, validation comes later
			{{kind: 'f', arg: 'c', now: 0}, {kind: 'P', now: 30}, {kind: 'm', arg: 'f', now: m}, {kind: 'r', now: 2 * m}, {kind: 'P', now: 10*m + 1}, {kind: 'P', now: 12*m + 1}, {kind: 'P', now: 360*m - 1}, {kind: 'P', now: 360*m + 1}},
			{{kind: 'f', arg: 'l', now: 0}, {kind: 'i', now: m}, {kind: 'P', now: m + 30}, {kind: 'P', now: 10*m + 1}, {kind: 'i', now: 11 * m}, {kind: 'P', now: 11*m + 30}},
			// track, validate late: the New is requested at validation, the lifetime counts from tracking
			{{kind: 't', now: 0}, {kind: 'r', now: 9 * m}, {kind: 'P', now: 10*m - 1}, {kind: 'P', now: 10*m + 1}, {kind: 'q', now: 19*m + 1}},
			// two registrations side by side, re-registration after expiry
			{{kind: 'i', now: 0}, {kind: 'i', key: 1, now: 5 * m}, {kind: 'P', now: 10*m + 1}, {kind: 'i', now: 11 * m}, {kind: 'm', key: 1, arg: 'c', now: 12 * m}, {kind: 'P', now: 15*m + 1}, {kind: 'P', now: 21*m + 1}, {kind: 's', now: 365*m + 1}, {kind: 'q', now: 372*m + 1}},
			// detector sweeps without station sweeps and vice versa
			{{kind: 'i', now: 0}, {kind: 'q', now: 10*m + 1}, {kind: 'm', arg: 'c', now: 11 * m}, {kind: 'q', now: 11*m + 30}, {kind: 's', now: 12*m + 30}, {kind: 'P', now: 371*m + 1}},
		} {
			for attempt := 0; attempt < 5 && !w.history(keys, h); attempt++ {
			}
		}
	}
}

func (w *c10World) histories(r *vlib.Rand) {
	w.histCorpus(r)
	depth := 3 // a length, not a count: the search budget must not multiply it
	if vlib.Tier() == "thorough" {
		depth = 4
	}
	w.histExhaustive(r, depth)
	w.histRandom(r, vlib.Budget(1500, 40000))
}

// histReplay re-executes a `hist,<keys>//<ops>` token of a replay line.
func (w *c10World) histReplay(tok string) {
	p := strings.SplitN(strings.TrimPrefix(tok, "hist,"), "//", 2)
	if len(p) != 2 {
		w.t.Fatalf("bad history replay token %q", tok)
	}
	var keys []*c10hKey
	for _, ke := range strings.Split(p[0], "/") {
		f := strings.Split(ke, ".")
		if len(f) != 2 {
			w.t.Fatalf("bad history key %q", ke)
		}
		raw, err := hex.DecodeString(f[0])
		idx, err2 := strconv.Atoi(f[1])
		if err != nil || err2 != nil {
			w.t.Fatalf("bad history key %q", ke)
		}
		k, err := w.histKey(raw, idx)
		if err != nil {
			w.t.Fatalf("history key %q: %v", ke, err)
		}
		keys = append(keys, k)
	}
	var ops []c10hOp
	for _, oe := range strings.Split(p[1], "/") {
		o, err := c10hDecOp(oe)
		if err != nil {
			w.t.Fatal(err)
		}
		if o.key >= len(keys) {
			w.t.Fatalf("history operation %q refers to a key that is not there", oe)
		}
		ops = append(ops, o)
	}
	for attempt := 0; attempt < 5 && !w.history(keys, ops); attempt++ {
	}
}
