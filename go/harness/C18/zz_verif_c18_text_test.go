//go:build verif

package liveness

// The configured lifetimes as TEXT.
//
// liveness.Config carries cache_expiration_time / cache_expiration_nonlive as strings and Init parses them with
// time.ParseDuration.  Two kinds of lines:
//
//	dur|<hex text>                      the real time.ParseDuration against the model's parser (CJ.DurationText)
//	cachet|<hex>|cap|<hex>|cap|<ops>    a history against the tester that the real liveness.New builds from the
//	                                    configuration AS WRITTEN (decoded from a TOML document by the decoder the
//	                                    station uses, when the text can be written in one), the model parsing the
//	                                    same text; all oracles of runC18 apply, the lifetime of the oracle being
//	                                    what the text denotes - zero, negative, one nanosecond, 2^63-1 ns, different
//	                                    for the two verdicts, in many spellings.
//
// Timing: the virtual clock of runC18 is exact only to the real time an operation takes (c18StallLimit).  A history
// is therefore only run with lifetimes that keep every tested age at least 400 ms away from the lifetime: not
// positive, at most 100 ms, a whole number of seconds, or more than 1000 h (operation times are whole seconds at
// least 1 s apart and stay below ~900 h).  Every other text still goes through the `dur|` line.

import (
	"fmt"
	"strings"
	"testing"
	"time"
	"unicode/utf8"

	"github.com/BurntSushi/toml"
	"github.com/refraction-networking/conjure/internal/vlib"
)

var c18Units = []string{"ns", "us", "µs", "μs", "ms", "s", "m", "h"}
var c18BadUnits = []string{"", "d", "H", "S", "sec", "hh", "hr", "w", "y", "µ", "n", "min", " h", "h ", "㎳", "e3s"}

const c18TextAlphabet = " \t+-.0123456789hmsnuµμe:dHMS\x00_,"

func c18Digits(r *vlib.Rand) string {
	switch r.Intn(10) {
	case 0:
		return ""
	case 1:
		return "0"
	case 2:
		return strings.Repeat("0", r.Range(1, 4)) + fmt.Sprint(r.Range(0, 99))
	case 3:
		// up to 20 digits: around and above the uint64 / int64 limits
		n := r.Range(15, 21)
		b := make([]byte, n)
		for i := range b {
			b[i] = byte('0' + r.Intn(10))
		}
		return string(b)
	case 4:
		return fmt.Sprint(r.U64() >> uint(r.Intn(64)))
	default:
		return fmt.Sprint(r.Range(0, 5000))
	}
}

func c18Frac(r *vlib.Rand) string {
	switch r.Intn(10) {
	case 0, 1, 2, 3, 4, 5:
		return ""
	case 6:
		return "."
	case 7:
		n := r.Range(16, 30) // more digits than a uint64 holds: leadingFraction stops accumulating
		b := make([]byte, n)
		for i := range b {
			b[i] = byte('0' + r.Intn(10))
		}
		return "." + string(b)
	default:
		n := r.Range(1, 9)
		b := make([]byte, n)
		for i := range b {
			b[i] = byte('0' + r.Intn(10))
		}
		return "." + string(b)
	}
}

var c18UnitNs = map[string]uint64{"ns": 1, "us": 1e3, "µs": 1e3, "μs": 1e3, "ms": 1e6, "s": 1e9, "m": 60e9, "h": 3600e9}

func c18GenDur(out *vlib.Out, r *vlib.Rand) string {
	structured := func() string {
		var sb strings.Builder
		switch r.Intn(7) {
		case 0:
			sb.WriteByte('-')
		case 1:
			sb.WriteByte('+')
		}
		for g, n := 0, r.Range(1, 4); g < n; g++ {
			sb.WriteString(c18Digits(r))
			sb.WriteString(c18Frac(r))
			if r.Chance(1, 12) {
				sb.WriteString(c18BadUnits[r.Intn(len(c18BadUnits))])
			} else {
				sb.WriteString(c18Units[r.Intn(len(c18Units))])
			}
		}
		return sb.String()
	}
	switch k := r.Intn(20); {
	case k < 10:
		out.Count("durtext:structured")
		return structured()
	case k < 14:
		// the limits: 2^63 / unit and its neighbours, alone, with a fraction, or as the sum of two groups
		out.Count("durtext:limit")
		u := c18Units[r.Intn(len(c18Units))]
		q := (uint64(1) << 63) / c18UnitNs[u]
		q = q + uint64(r.Range(0, 2)) - 1
		s := fmt.Sprint(q)
		switch r.Intn(4) {
		case 0:
			s += "." + strings.Repeat("9", r.Range(1, 20))
		case 1:
			s += "." + fmt.Sprint(r.Range(0, 999999999))
		}
		s += u
		if r.Chance(1, 3) {
			u2 := c18Units[r.Intn(len(c18Units))]
			rem := (uint64(1)<<63 - q*c18UnitNs[u]) / c18UnitNs[u2] // may wrap: any number will do
			s += fmt.Sprint(rem+uint64(r.Range(0, 2))) + u2
		}
		if r.Chance(1, 8) {
			s += s // twice the limit: the uint64 sum wraps
		}
		switch r.Intn(4) {
		case 0:
			s = "-" + s
		case 1:
			s = "+" + s
		}
		return s
	case k < 17:
		out.Count("durtext:mutated")
		b := []byte(structured())
		for m, n := 0, r.Range(1, 2); m < n; m++ {
			c := c18TextAlphabet[r.Intn(len(c18TextAlphabet))]
			switch p := r.Intn(len(b) + 1); r.Intn(3) {
			case 0:
				if p < len(b) {
					b = append(b[:p], b[p+1:]...)
				}
			case 1:
				b = append(b[:p], append([]byte{c}, b[p:]...)...)
			default:
				if p < len(b) {
					b[p] = c
				}
			}
		}
		return string(b)
	default:
		out.Count("durtext:random")
		n := r.Intn(10)
		b := make([]byte, n)
		for i := range b {
			if r.Chance(1, 6) {
				b[i] = byte(r.Intn(256))
			} else {
				b[i] = c18TextAlphabet[r.Intn(len(c18TextAlphabet))]
			}
		}
		return string(b)
	}
}

var c18DurCorpus = []string{"", "0", "+0", "-0", "00", "0s", "-0s", "0.0s", ".0s", "0.s", ".s", "-.s", "+.s", ".", "+", "-", "+-1s", "--1s", "1", "90",
	"1h", "1H", " 1h", "1h ", "1 h", "1d", "1hh", "h", "bogus", "1.5h", "1.h", ".5h", "0.1h", "1e3s", "1h30m", "1h1", "1h-30m", "1µs", "1μs", "1us", "1µ", "1µsµs",
	"9223372036854775807ns", "9223372036854775808ns", "-9223372036854775808ns", "-9223372036854775809ns", "9223372036854775808ns9223372036854775808ns",
	"-9223372036854775808ns9223372036854775808ns", "4611686018427387904ns4611686018427387904ns", "2562047h47m16.854775807s", "2562047h47m16.854775808s",
	"-2562047h47m16.854775808s", "2562048h", "18446744073709551616ns", "99999999999999999999h", "0.9223372036854775807h", "0.99999999999999999999999h",
	"0.000000000000000000000000001h", "3.141592653589793238462643383279s", "1h\x00", "١h", "1ｈ", "1.1.1s", "1..s", "0x10s", "1_000s", "1,5s", "-1s", "-1ns", "1ns"}

// spellings for the history lines, by what they denote
var c18LifeTexts = map[string][]string{
	"unset":   {""},
	"zero":    {"0", "+0", "-0", "0s", "0h", "-0s", "0.0s", "0ns", "0h0m0s", ".0s", "0.s", "0.000000000s", "9223372036854775808ns9223372036854775808ns"},
	"neg":     {"-1s", "-1ns", "-1h", "-0.5h", "-90m", "-2562047h", "-9223372036854775808ns", "-1h0m1s", "-0.001s"},
	"tiny":    {"1ns", "1us", "1µs", "1μs", "100ms", "0.1s", "0.000000001s", "+1ns", "0h0m0.05s"},
	"seconds": {"1s", "2s", "30s", "1m", "2.5m", "1h", "60m", "3600s", "3600000ms", "3600000000us", "1h0m0s", "+1h", "0.5h", "1.5h", "90m", "2h", "120m", "1h60m", "7200s", "3h", "5h", ".5h", "1.h", "1h0.0s"},
	"huge":    {"2562047h", "2562047h47m16s", "9223372036s", "9223372036854775807ns", "2562047h47m16.854775807s", "100000h", "1001h"},
	"bad":     {"bogus", "1hh", "90", " 1h", "1h ", "1H", "1d", "1.5", "h", "+", "-", ".", "1e3s", "2562048h", "9223372036854775808ns", "1h,", "1h\x00"},
}
var c18LifeKinds = []string{"unset", "zero", "neg", "tiny", "seconds", "huge", "bad"}

// c18SafeLifetime: see the header (tested ages stay >= 400 ms away from the lifetime)
func c18SafeLifetime(s string) bool {
	if s == "" {
		return true
	}
	d, err := time.ParseDuration(s)
	if err != nil {
		return true
	}
	return d <= 100*time.Millisecond || d%time.Second == 0 || d > 1000*time.Hour
}

// c18ViaTOML writes the configuration as the station's config file would have it and decodes it with the decoder the
// station uses; ok=false when the text cannot be written in a TOML basic string (then the struct is filled directly).
func c18ViaTOML(out *vlib.Out, c c18Conf, omitEmpty bool) (c18Conf, bool) {
	esc := func(s string) (string, bool) {
		if !utf8.ValidString(s) {
			return "", false
		}
		var sb strings.Builder
		for _, ch := range s {
			switch {
			case ch == '\\' || ch == '"':
				sb.WriteByte('\\')
				sb.WriteRune(ch)
			case ch < 0x20 || ch == 0x7f:
				fmt.Fprintf(&sb, "\\u%04X", ch)
			default:
				sb.WriteRune(ch)
			}
		}
		return sb.String(), true
	}
	l, ok1 := esc(c.durL)
	n, ok2 := esc(c.durN)
	if !ok1 || !ok2 {
		return c, false
	}
	var doc strings.Builder
	if !(omitEmpty && c.durL == "") {
		fmt.Fprintf(&doc, "cache_expiration_time = \"%s\"\n", l)
	}
	if !(omitEmpty && c.capL == 0) {
		fmt.Fprintf(&doc, "cache_capacity = %d\n", c.capL)
	}
	if !(omitEmpty && c.durN == "") {
		fmt.Fprintf(&doc, "cache_expiration_nonlive = \"%s\"\n", n)
	}
	if !(omitEmpty && c.capN == 0) {
		fmt.Fprintf(&doc, "cache_capacity_nonlive = %d\n", c.capN)
	}
	var conf Config
	if _, err := toml.Decode(doc.String(), &conf); err != nil {
		out.Count("toml:decode-error")
		return c, false
	}
	got := c18Conf{durL: conf.CacheDuration, durN: conf.CacheDurationNonLive, capL: conf.CacheCapacity, capN: conf.CacheCapacityNonLive}
	if got != c {
		// the keys of liveness.Config no longer carry what the file says: the history runs with what the station would see
		out.Count("toml:decoded-differs")
	}
	return got, true
}

func TestVerifC18Text(t *testing.T) {
	out := vlib.Open("C18text")
	defer out.Close()
	if vlib.Replay() != "" {
		return // `cachet|` replay lines are re-run by TestVerifC18
	}
	c18Guarded(out, "TestVerifC18Text", func() { c18TextMain(out) })
}

func c18DurCase(out *vlib.Out, s string) {
	d, err := time.ParseDuration(s)
	ans := "err"
	if err == nil {
		ans = fmt.Sprintf("ok %d", int64(d))
		switch {
		case d == 0:
			out.Count("dur:zero")
		case d < 0:
			out.Count("dur:negative")
		default:
			out.Count("dur:positive")
		}
	} else {
		switch {
		case strings.Contains(err.Error(), "unknown unit"):
			out.Count("dur:err-unknown-unit")
		case strings.Contains(err.Error(), "missing unit"):
			out.Count("dur:err-missing-unit")
		default:
			out.Count("dur:err-invalid")
		}
	}
	out.Case("dur|"+vlib.Hex([]byte(s)), ans, err == nil)
}

func c18TextMain(out *vlib.Out) {
	r := vlib.NewRand("C18text")
	// ---- the parser alone
	for _, s := range c18DurCorpus {
		c18DurCase(out, s)
	}
	for _, ss := range c18LifeTexts {
		for _, s := range ss {
			c18DurCase(out, s)
		}
	}
	for i, n := 0, vlib.Budget(30000, 600000); i < n; i++ {
		c18DurCase(out, c18GenDur(out, r))
	}

	// ---- histories against the tester built from the configuration as written
	c18TextLines = true
	defer func() { c18TextLines = false }()
	run := func(conf c18Conf, syms []c18Sym, kl, kn string) {
		if c18Abandon.Load() {
			return
		}
		if !c18SafeLifetime(conf.durL) || !c18SafeLifetime(conf.durN) {
			out.Count("skip:lifetime-not-timing-safe")
			return
		}
		if c2, ok := c18ViaTOML(out, conf, r.Bool()); ok {
			conf = c2
			out.Count("config:via-toml")
		} else {
			out.Count("config:struct")
		}
		out.Count("lifetime:live=" + kl + ",nonlive=" + kn)
		ops := c18Build(conf, syms, r)
		for attempt := 0; attempt < 3; attempt++ {
			m, i, ok := runC18(out, conf, ops)
			if ok {
				out.Case(m, i, !strings.Contains(i, "err="))
				return
			}
			out.Count("skip:stalled")
		}
	}
	q := func(a int, p bool) c18Sym { return c18Sym{kind: 'q', addr: a, probe: p} }
	adv := func(h int) c18Sym { return c18Sym{kind: 'a', hours: h} }
	clr := c18Sym{kind: 'c'}
	nearS := func(a int, p, live, after bool, back int) c18Sym {
		return c18Sym{kind: 'n', addr: a, probe: p, live: live, after: after, back: back}
	}
	// every pair of kinds x every spelling once (the other side cycling) x three cache shapes, one fixed history that
	// asks again at once, after the host changed state, around both lifetimes, across a clean-up, and after hours
	fixed := []c18Sym{q(0, true), q(0, true), q(1, false), q(1, false), q(2, true), q(0, false), nearS(0, true, true, false, 2), nearS(0, true, true, true, 3),
		nearS(1, false, false, false, 1), nearS(1, false, false, true, 2), clr, q(0, true), q(1, false), adv(1), q(0, true), q(1, false), adv(3), q(0, false), q(1, true), clr, q(2, true), q(2, true)}
	caps := [][2]int{{0, 0}, {1, 2}, {2, 0}}
	idx := 0
	for _, kl := range c18LifeKinds {
		for _, kn := range c18LifeKinds {
			tl, tn := c18LifeTexts[kl], c18LifeTexts[kn]
			m := len(tl)
			if len(tn) > m {
				m = len(tn)
			}
			for i := 0; i < m; i++ {
				cp := caps[idx%len(caps)]
				idx++
				run(c18Conf{durL: tl[i%len(tl)], durN: tn[(i+idx)%len(tn)], capL: cp[0], capN: cp[1]}, fixed, kl, kn)
			}
		}
	}
	// random: kinds, spellings (sometimes a generated text), capacities, histories
	for i, n := 0, vlib.Budget(2500, 40000); i < n; i++ {
		pick := func() (string, string) {
			k := c18LifeKinds[r.Intn(len(c18LifeKinds)-1)] // "bad" rarely: the tester is not built then
			if r.Chance(1, 25) {
				k = "bad"
			}
			if r.Chance(1, 10) {
				return c18GenDur(out, r), "generated"
			}
			ts := c18LifeTexts[k]
			return ts[r.Intn(len(ts))], k
		}
		var conf c18Conf
		var kl, kn string
		conf.durL, kl = pick()
		conf.durN, kn = pick()
		pickCap := func() int {
			switch r.Intn(6) {
			case 0, 1:
				return 0
			case 2:
				return -r.Range(1, 3)
			default:
				return r.Range(1, 4)
			}
		}
		conf.capL, conf.capN = pickCap(), pickCap()
		na := r.Range(1, 5)
		var syms []c18Sym
		for j, m := 0, r.Range(3, 60); j < m; j++ {
			switch k := r.Intn(20); {
			case k < 11:
				a := r.Intn(na)
				syms = append(syms, c18Sym{kind: 'q', addr: a, probe: (a%2 == 0) != r.Chance(1, 5), perr: c18ErrKinds[r.Intn(len(c18ErrKinds))]})
			case k < 14:
				a := r.Intn(na)
				syms = append(syms, c18Sym{kind: 'n', addr: a, probe: (a%2 == 0) != r.Chance(1, 5), back: r.Intn(4), after: r.Bool(), live: r.Bool()})
			case k < 17:
				syms = append(syms, adv(r.Range(1, 3)))
			case k < 18:
				syms = append(syms, adv(r.Range(4, 8)))
			default:
				syms = append(syms, clr)
			}
		}
		run(conf, syms, kl, kn)
	}
}
