//go:build verif

package liveness

// Correspondence + property oracle for C18: query / advance / clear histories against the real testers
// built by liveness.New, with a scripted probe function and harness-set cache timestamps; the same
// histories go to the Lean model as `cache|…` lines.

import (
	"errors"
	"fmt"
	"os"
	"sort"
	"strconv"
	"strings"
	"sync"
	"testing"
	"time"

	"github.com/refraction-networking/conjure/internal/vlib"
)

const c18Sec = int64(time.Second)
const c18Hour = int64(time.Hour)

// jitter added per operation index so that no age ever equals a configured lifetime (whole hours):
// ages are k·1h + d·10s with 0 < d·10s < 1h for histories shorter than 360 operations.
const c18Jitter = 10 * c18Sec
const c18MaxOps = 350

type c18Conf struct {
	durL, durN string
	capL, capN int
}

type c18Op struct {
	kind  byte // 'q' query, 'c' clear
	now   int64
	addr  string
	port  uint16
	probe bool
}

type c18Meas struct {
	t int64
	v bool
}

var errC18Probe = errors.New("scripted probe answer")

type c18World struct {
	conf     c18Conf
	t        Tester
	newErr   error
	vtime    map[*cacheElement]int64
	calls    []string // addresses the probe function was called with during the current operation
	script   bool
	meas     map[string][]c18Meas      // ground truth: every probe observed per address
	gone     [2]map[string]bool        // address whose entry was seen to leave cache v (evicted / cleared)
	keysPrev [2]map[string]bool
}

func c18Idx(v bool) int {
	if v {
		return 1
	}
	return 0
}

func c18DurField(s string) (string, time.Duration, bool) {
	if s == "" {
		return "-", 0, false
	}
	d, err := time.ParseDuration(s) // oracle: the model is driven by what the stdlib answered
	if err != nil {
		return "E", 0, false
	}
	return strconv.FormatInt(int64(d), 10), d, true
}

func (c c18Conf) line() string {
	dl, _, _ := c18DurField(c.durL)
	dn, _, _ := c18DurField(c.durN)
	return fmt.Sprintf("cache|%s|%d|%s|%d|", dl, c.capL, dn, c.capN)
}

func newC18World(c c18Conf) *c18World {
	w := &c18World{conf: c, vtime: map[*cacheElement]int64{}, meas: map[string][]c18Meas{}}
	for i := range w.gone {
		w.gone[i] = map[string]bool{}
		w.keysPrev[i] = map[string]bool{}
	}
	w.t, w.newErr = New(&Config{CacheDuration: c.durL, CacheCapacity: c.capL, CacheDurationNonLive: c.durN, CacheCapacityNonLive: c.capN})
	probe := func(address string) (bool, error) {
		w.calls = append(w.calls, address)
		if w.script {
			return true, fmt.Errorf("%w: %w", errC18Probe, ErrLiveHost)
		}
		return false, fmt.Errorf("%w: %w", errC18Probe, NotLive)
	}
	switch tt := w.t.(type) {
	case *UncachedLivenessTester:
		tt.phantomIsLive = probe
	case *CachedLivenessTester:
		tt.phantomIsLive = probe
	}
	return w
}

func (w *c18World) cache(v bool) cache {
	clt, ok := w.t.(*CachedLivenessTester)
	if !ok {
		return nil
	}
	if v {
		return clt.ipCacheLive
	}
	return clt.ipCacheNonLive
}

func c18Elems(c cache) map[string]*cacheElement {
	switch cc := c.(type) {
	case *mapCache:
		return cc.ipCache
	case *lruCache:
		return cc.ipCache
	}
	return nil
}

func c18Kind(c cache) string {
	switch cc := c.(type) {
	case nil:
		return "none"
	case *mapCache:
		return "map"
	case *lruCache:
		return fmt.Sprintf("lru%d", cc.lruSize)
	}
	return "?"
}

func (w *c18World) newLine() string {
	var s string
	switch w.t.(type) {
	case *UncachedLivenessTester:
		s = "uncached"
	case *CachedLivenessTester:
		s = "cached L=" + c18Kind(w.cache(true)) + " N=" + c18Kind(w.cache(false))
	default:
		s = "?"
	}
	if w.newErr != nil {
		switch {
		case strings.Contains(w.newErr.Error(), "cacheExpirationLive"):
			s += " err=live"
		case strings.Contains(w.newErr.Error(), "cacheExpirationNonLive"):
			s += " err=nonlive"
		default:
			s += " err=?"
		}
	}
	return s
}

// setClock rewrites the real timestamps so that time.Since equals the virtual age at `now`.
func (w *c18World) setClock(now int64) {
	real := time.Now()
	for _, v := range []bool{true, false} {
		for _, e := range c18Elems(w.cache(v)) {
			e.cachedTime = real.Add(-time.Duration(now - w.vtime[e]))
		}
	}
}

// stamp gives elements created by the last operation their virtual time and records which
// addresses left a cache.
func (w *c18World) stamp(now int64) {
	for _, v := range []bool{true, false} {
		i := c18Idx(v)
		cur := map[string]bool{}
		for k, e := range c18Elems(w.cache(v)) {
			cur[k] = true
			if _, ok := w.vtime[e]; !ok {
				w.vtime[e] = now
				delete(w.gone[i], k) // a new measurement was stored
			}
		}
		for k := range w.keysPrev[i] {
			if !cur[k] {
				w.gone[i][k] = true
			}
		}
		w.keysPrev[i] = cur
	}
}

func (w *c18World) lens() string {
	f := func(c cache) string {
		if c == nil {
			return "-"
		}
		return strconv.Itoa(c.Len())
	}
	if _, ok := w.t.(*CachedLivenessTester); !ok {
		return "-,-"
	}
	return f(w.cache(true)) + "," + f(w.cache(false))
}

func (w *c18World) dumpCache(c cache) string {
	if c == nil {
		return "-"
	}
	var es []string
	for k, e := range c18Elems(c) {
		es = append(es, fmt.Sprintf("%s@%d", k, w.vtime[e]))
	}
	sort.Strings(es)
	ord := "-"
	if lc, ok := c.(*lruCache); ok {
		var ks []string
		for _, k := range lc.lru.Keys() { // oldest → newest
			ks = append(ks, k.(string))
		}
		ord = strings.Join(ks, ",")
	}
	return strings.Join(es, ",") + "/" + ord
}

func (w *c18World) dump() string {
	if _, ok := w.t.(*CachedLivenessTester); !ok {
		return "L:-|N:-"
	}
	return "L:" + w.dumpCache(w.cache(true)) + "|N:" + w.dumpCache(w.cache(false))
}

// lifetime returns the configured lifetime of verdict v (ok=false when that cache is not configured)
func (w *c18World) lifetime(v bool) (int64, bool) {
	s := w.conf.durN
	if v {
		s = w.conf.durL
	}
	_, d, ok := c18DurField(s)
	return int64(d), ok
}

func (w *c18World) capacity(v bool) int {
	if v {
		return w.conf.capL
	}
	return w.conf.capN
}

// runC18 executes one history on the implementation and evaluates the property on it.
func runC18(out *vlib.Out, conf c18Conf, ops []c18Op) (string, string) {
	w := newC18World(conf)
	var mops, outs []string
	line := func() string { return conf.line() + strings.Join(mops, ";") }
	fail := func(sig, what string) { out.OracleFail(sig, what, line()) }
	if w.newErr != nil {
		// a configuration that New rejects is not run (the station does not start with it)
		ops = nil
	}
	for _, op := range ops {
		w.calls = w.calls[:0]
		w.setClock(op.now)
		var o string
		switch op.kind {
		case 'q':
			mops = append(mops, fmt.Sprintf("q,%d,%s,%d,%s", op.now, op.addr, op.port, vlib.B(op.probe)))
			w.script = op.probe
			live, err := w.t.PhantomIsLive(op.addr, op.port)
			cachedAns := errors.Is(err, ErrCachedPhantom)
			switch {
			case cachedAns && len(w.calls) == 0:
				o = "c" + vlib.B(live)
			case !cachedAns && len(w.calls) == 1:
				o = "p" + vlib.B(live)
			default:
				o = fmt.Sprintf("?calls=%d,err=%v", len(w.calls), err)
			}
			// ---- property oracle (ground truth = the probes the fake prober saw)
			out.Checked()
			ms := w.meas[op.addr]
			if cachedAns {
				lt, configured := w.lifetime(live)
				switch {
				case len(w.calls) != 0:
					fail("C18:cached-answer-but-probed", fmt.Sprintf("%s answered from cache and probed %d times", op.addr, len(w.calls)))
				case len(ms) == 0:
					fail("C18:served-unmeasured", fmt.Sprintf("%s served %v from cache without any measurement", op.addr, live))
				case !configured:
					fail("C18:served-from-disabled-cache", fmt.Sprintf("%s served %v but no lifetime is configured for that verdict", op.addr, live))
				default:
					last := ms[len(ms)-1]
					if last.v != live {
						fail("C18:served-flipped", fmt.Sprintf("%s served %v at %d, last measurement was %v at %d", op.addr, live, op.now, last.v, last.t))
					} else if op.now-last.t >= lt {
						fail("C18:served-stale", fmt.Sprintf("%s served %v at %d, measured at %d, lifetime %d", op.addr, live, op.now, last.t, lt))
					}
				}
				if w.gone[c18Idx(live)][op.addr] {
					fail("C18:served-after-eviction", fmt.Sprintf("%s served %v at %d although its entry had left the cache", op.addr, live, op.now))
				}
			} else {
				want := fmt.Sprintf("%s:%d", op.addr, op.port)
				if strings.Contains(op.addr, ":") {
					want = fmt.Sprintf("[%s]:%d", op.addr, op.port)
				}
				if len(w.calls) != 1 || w.calls[0] != want {
					fail("C18:not-probed-once", fmt.Sprintf("%s: probe calls %v, want exactly [%s]", op.addr, w.calls, want))
				} else if live != op.probe || !errors.Is(err, errC18Probe) {
					fail("C18:probe-verdict-altered", fmt.Sprintf("%s: probe said %v, tester returned %v / %v", op.addr, op.probe, live, err))
				}
			}
			for range w.calls {
				w.meas[op.addr] = append(w.meas[op.addr], c18Meas{op.now, op.probe})
			}
			out.Count("out:" + o[:1])
		case 'c':
			mops = append(mops, fmt.Sprintf("c,%d", op.now))
			if clt, ok := w.t.(*CachedLivenessTester); ok {
				clt.ClearExpiredCache()
			}
			o = "clr"
			// oracle: what the clean-up leaves is not older than the lifetime; what it removes is not younger
			for _, v := range []bool{true, false} {
				lt, configured := w.lifetime(v)
				if !configured || w.cache(v) == nil {
					continue
				}
				out.Checked()
				cur := c18Elems(w.cache(v))
				for k, e := range cur {
					if op.now-w.vtime[e] > lt {
						fail("C18:expired-kept-by-cleanup", fmt.Sprintf("%s (verdict %v) age %d > lifetime %d survives ClearExpired", k, v, op.now-w.vtime[e], lt))
					}
				}
			}
			out.Count("out:clr")
		}
		w.stamp(op.now)
		// ---- bound at every operation boundary
		for _, v := range []bool{true, false} {
			if c := w.cache(v); c != nil && w.capacity(v) > 0 {
				out.Checked()
				if c.Len() > w.capacity(v) {
					which := "nonlive"
					if v {
						which = "live"
					}
					fail("C18:over-capacity:"+which, fmt.Sprintf("%s cache holds %d entries, configured capacity %d (kind %s)", which, c.Len(), w.capacity(v), c18Kind(c)))
				}
			}
		}
		outs = append(outs, o+":"+w.lens())
		out.Count("op:" + string(op.kind))
	}
	out.Count("new:" + strings.SplitN(w.newLine(), " err", 2)[0])
	return line(), w.newLine() + "|" + strings.Join(outs, ";") + "|" + w.dump()
}

var c18Addrs = []string{"192.0.2.1", "192.0.2.2", "2001:db8::3", "192.0.2.4", "192.0.2.5", "2001:db8::6", "192.0.2.7", "192.0.2.8"}

// c18Timed assigns times: op i happens at (hours so far)·1h + (i+1)·10s.
type c18Sym struct {
	kind  byte // 'q', 'c', 'a' (advance one hour, not an operation of the tester)
	addr  int
	probe bool
	hours int
}

func c18Build(syms []c18Sym, r *vlib.Rand) []c18Op {
	var ops []c18Op
	hours := int64(0)
	for _, s := range syms {
		if s.kind == 'a' {
			hours += int64(s.hours)
			continue
		}
		i := int64(len(ops) + 1)
		op := c18Op{kind: s.kind, now: hours*c18Hour + i*c18Jitter}
		if s.kind == 'q' {
			op.addr = c18Addrs[s.addr]
			op.probe = s.probe
			op.port = 443
			if r != nil && r.Chance(1, 4) {
				op.port = uint16(r.Range(1, 65535))
			}
		}
		ops = append(ops, op)
		if len(ops) >= c18MaxOps {
			break
		}
	}
	return ops
}

var c18Durs = []string{"", "1h", "2h", "3h", "5h", "0s", "-1h", "bogus", "1hh", "90"}

func TestVerifC18(t *testing.T) {
	out := vlib.Open("C18")
	defer out.Close()
	if rp := vlib.Replay(); rp != "" {
		c18Replay(t, out, rp)
		return
	}
	run := func(conf c18Conf, syms []c18Sym, r *vlib.Rand) {
		m, i := runC18(out, conf, c18Build(syms, r))
		out.Case(m, i, !strings.Contains(i, "err=") && len(syms) > 0)
	}
	q := func(a int, p bool) c18Sym { return c18Sym{kind: 'q', addr: a, probe: p} }
	adv := func(h int) c18Sym { return c18Sym{kind: 'a', hours: h} }
	clr := c18Sym{kind: 'c'}

	// ---- corpus: hand-written tricky histories
	corpus := []struct {
		c c18Conf
		s []c18Sym
	}{
		// live capacity unset, non-live capacity 2: three distinct non-live hosts
		{c18Conf{"2h", "1h", 0, 2}, []c18Sym{q(0, false), q(1, false), q(2, false), q(0, false), q(3, false)}},
		// live capacity set, non-live capacity unset
		{c18Conf{"2h", "1h", 2, 0}, []c18Sym{q(0, false), q(1, false), q(2, false), q(0, true), q(1, true), q(2, true), q(0, true)}},
		// non-live only, bounded
		{c18Conf{"", "1h", 0, 1}, []c18Sym{q(0, false), q(1, false), q(0, false), q(1, true), q(1, true)}},
		// host changes state after expiry: live → non-live → live
		{c18Conf{"2h", "1h", 0, 0}, []c18Sym{q(0, true), q(0, false), adv(2), q(0, false), q(0, true), adv(1), q(0, true), q(0, true), adv(2), q(0, false)}},
		{c18Conf{"1h", "3h", 2, 2}, []c18Sym{q(0, false), adv(3), q(0, true), q(0, false), adv(1), q(0, false), q(0, true), clr, q(0, true)}},
		// map cache keeps an expired entry (no overwrite) until the clean-up
		{c18Conf{"", "1h", 0, 0}, []c18Sym{q(0, false), adv(1), q(0, false), q(0, false), clr, q(0, false), q(0, false)}},
		// LRU refresh by lookup changes who is evicted
		{c18Conf{"5h", "", 2, 0}, []c18Sym{q(0, true), q(1, true), q(0, false), q(2, true), q(1, true), q(0, true)}},
		// eviction then re-query, expiry of an entry inside the LRU, clean-up
		{c18Conf{"1h", "1h", 1, 1}, []c18Sym{q(0, true), q(1, true), q(0, true), adv(1), q(0, false), clr, q(0, true), q(1, false), clr}},
		{c18Conf{"0s", "-1h", 2, 0}, []c18Sym{q(0, true), q(0, true), q(1, false), q(1, false), clr}},
		{c18Conf{"", "", 3, 3}, []c18Sym{q(0, true), q(0, false), clr}},
		{c18Conf{"bogus", "1h", 0, 0}, nil},
		{c18Conf{"1h", "bogus", 1, 0}, nil},
		{c18Conf{"1h", "1h", -1, -3}, []c18Sym{q(0, true), q(1, false), q(0, false)}},
	}
	for _, c := range corpus {
		run(c.c, c.s, nil)
	}

	// ---- exhaustive: every history up to length L over a small alphabet, for every cache shape
	alpha := []c18Sym{q(0, true), q(0, false), q(1, true), q(1, false), q(2, true), q(2, false), adv(1), clr}
	var shapes []c18Conf
	for _, l := range []struct {
		d string
		c int
	}{{"", 0}, {"2h", 0}, {"2h", 1}, {"2h", 2}} {
		for _, n := range []struct {
			d string
			c int
		}{{"", 0}, {"1h", 0}, {"1h", 1}, {"1h", 2}} {
			shapes = append(shapes, c18Conf{l.d, n.d, l.c, n.c})
		}
	}
	L := 4
	if vlib.Tier() == "thorough" {
		L = 5
	}
	var rec func(prefix []c18Sym, conf c18Conf)
	rec = func(prefix []c18Sym, conf c18Conf) {
		if n := len(prefix); n > 0 && prefix[n-1].kind != 'a' {
			run(conf, prefix, nil)
		}
		if len(prefix) == L {
			return
		}
		for _, a := range alpha {
			rec(append(append([]c18Sym(nil), prefix...), a), conf)
		}
	}
	for _, conf := range shapes {
		rec(nil, conf)
	}

	// ---- random configurations × random long histories
	r := vlib.NewRand("C18")
	n := vlib.Budget(2500, 60000)
	for i := 0; i < n; i++ {
		conf := c18Conf{durL: c18Durs[r.Intn(7)], durN: c18Durs[r.Intn(7)]}
		if r.Chance(1, 20) {
			conf.durL = c18Durs[r.Intn(len(c18Durs))]
			conf.durN = c18Durs[r.Intn(len(c18Durs))]
		}
		pickCap := func() int {
			switch r.Intn(8) {
			case 0, 1:
				return 0
			case 2:
				return -r.Range(1, 3)
			default:
				return r.Range(1, 5)
			}
		}
		conf.capL, conf.capN = pickCap(), pickCap()
		na := r.Range(1, len(c18Addrs))
		var syms []c18Sym
		for j, m := 0, r.Range(3, 300); j < m; j++ {
			switch k := r.Intn(20); {
			case k < 14:
				// hosts mostly keep their state, sometimes flip
				a := r.Intn(na)
				syms = append(syms, q(a, (a%2 == 0) != r.Chance(1, 5)))
			case k < 17:
				syms = append(syms, adv(r.Range(1, 3)))
			case k < 18:
				syms = append(syms, adv(r.Range(4, 8)))
			default:
				syms = append(syms, clr)
			}
		}
		run(conf, syms, r)
	}

	c18Stress(out, r)
}

// c18Stress: concurrent callers on both LRU caches; at quiescence the bound must hold and every
// verdict map key must be tracked by the recency list (oracle only — schedules are not replayable).
func c18Stress(out *vlib.Out, r *vlib.Rand) {
	rounds := vlib.Budget(6, 60)
	for round := 0; round < rounds; round++ {
		capL, capN := r.Range(1, 6), r.Range(1, 6)
		w := newC18World(c18Conf{"1h", "1h", capL, capN})
		clt := w.t.(*CachedLivenessTester)
		var mu sync.Mutex
		verdict := map[string]bool{}
		clt.phantomIsLive = func(address string) (bool, error) {
			mu.Lock()
			defer mu.Unlock()
			v := c18StressVerdict(strings.Split(address, ":")[0])
			verdict[address] = v
			if v {
				return true, ErrLiveHost
			}
			return false, NotLive
		}
		var wg sync.WaitGroup
		seeds := make([]uint64, 8)
		for i := range seeds {
			seeds[i] = r.U64()
		}
		var bad sync.Map
		for g := 0; g < 8; g++ {
			wg.Add(1)
			go func(s uint64) {
				defer wg.Done()
				for i := 0; i < 1500; i++ {
					s = s*6364136223846793005 + 1442695040888963407
					a := fmt.Sprintf("10.0.%d.%d", (s>>33)%3, (s>>40)%9)
					if (s>>50)%40 == 0 {
						clt.ClearExpiredCache()
						continue
					}
					live, err := clt.PhantomIsLive(a, 443)
					if errors.Is(err, ErrCachedPhantom) {
						// hosts never change state here: a cached answer must equal the host's only verdict
						if live != c18StressVerdict(a) {
							bad.Store(a, live)
						}
					}
				}
			}(seeds[g])
		}
		wg.Wait()
		out.Checked()
		bad.Range(func(k, v any) bool {
			out.OracleFail("C18:concurrent-flipped", fmt.Sprintf("%v served %v under concurrency", k, v), fmt.Sprintf("stress capL=%d capN=%d seed=%d round=%d", capL, capN, vlib.Seed(), round))
			return true
		})
		for _, v := range []bool{true, false} {
			lc := w.cache(v).(*lruCache)
			if lc.Len() > w.capacity(v) {
				out.OracleFail("C18:over-capacity:concurrent", fmt.Sprintf("verdict %v: %d entries at quiescence, capacity %d", v, lc.Len(), w.capacity(v)),
					fmt.Sprintf("stress capL=%d capN=%d seed=%d round=%d", capL, capN, vlib.Seed(), round))
			}
			for k := range lc.ipCache {
				if !lc.lru.Contains(k) {
					out.OracleFail("C18:untracked-entry:concurrent", fmt.Sprintf("verdict %v: %s is in the verdict map but not in the recency list", v, k),
						fmt.Sprintf("stress capL=%d capN=%d seed=%d round=%d", capL, capN, vlib.Seed(), round))
				}
			}
		}
		out.Count("stress:round")
	}
}

func c18StressVerdict(host string) bool { return host[len(host)-1]%2 == 0 }

// c18Replay re-runs `cache|…` model lines of a replay file against the implementation.
func c18Replay(t *testing.T, out *vlib.Out, path string) {
	b, err := os.ReadFile(path)
	if err != nil {
		t.Fatal(err)
	}
	for _, line := range strings.Split(string(b), "\n") {
		if !strings.HasPrefix(line, "cache|") {
			continue
		}
		f := strings.Split(line, "|")
		if len(f) != 6 {
			t.Fatalf("bad replay line %q", line)
		}
		dur := func(s string) string {
			switch s {
			case "-":
				return ""
			case "E":
				return "bogus"
			}
			ns, err := strconv.ParseInt(s, 10, 64)
			if err != nil {
				t.Fatalf("bad duration %q", s)
			}
			return time.Duration(ns).String()
		}
		conf := c18Conf{durL: dur(f[1]), durN: dur(f[3])}
		conf.capL, _ = strconv.Atoi(f[2])
		conf.capN, _ = strconv.Atoi(f[4])
		var ops []c18Op
		for _, s := range strings.Split(f[5], ";") {
			p := strings.Split(s, ",")
			switch {
			case len(p) == 5 && p[0] == "q":
				now, _ := strconv.ParseInt(p[1], 10, 64)
				port, _ := strconv.Atoi(p[3])
				ops = append(ops, c18Op{kind: 'q', now: now, addr: p[2], port: uint16(port), probe: p[4] == "1"})
			case len(p) == 2 && p[0] == "c":
				now, _ := strconv.ParseInt(p[1], 10, 64)
				ops = append(ops, c18Op{kind: 'c', now: now})
			}
		}
		m, i := runC18(out, conf, ops)
		out.Case(m, i, true)
		fmt.Println("REPLAY model-line:", m)
		fmt.Println("REPLAY impl      :", i)
	}
}
