//go:build verif

package liveness

// Correspondence + property oracle for C18: query / advance / clear histories against the real testers
// built by liveness.New, with a scripted probe function and a virtual clock; the same histories go to
// the Lean model as `cache|…` lines.
//
// Virtual clock: the code reads time.Now / time.Since.  Before every operation the harness moves the
// timestamp of *every* stored entry by one and the same amount (virtual time passed minus real time
// passed since the previous operation).  The timestamps themselves are never rewritten from a side
// table: what the code stored is what decides the next answer, and the stored time that the harness
// reports to the model (`addr@time`) is read back from the field.  A change to which time the code
// stores (refresh on a hit, zero time, time + lifetime …) is therefore visible to the oracle and to
// the correspondence.

import (
	"context"
	"encoding/hex"
	"errors"
	"fmt"
	"net"
	"os"
	"runtime"
	"sort"
	"strconv"
	"strings"
	"sync"
	"sync/atomic"
	"testing"
	"time"

	"github.com/refraction-networking/conjure/internal/vlib"
)

const c18Sec = int64(time.Second)
const c18Hour = int64(time.Hour)

// Operation times are whole seconds.  Ordinary operations are 10 s apart, time advances are whole
// hours, "near" operations sit 1 s before / after the instant at which an earlier measurement
// reaches a configured lifetime.  The builder never produces an operation whose distance to an
// earlier operation equals a configured lifetime exactly (the property leaves that instant open).
const c18Jitter = 10 * c18Sec
const c18MaxOps = 350

// A single operation (clock shift + call) that takes longer than this in real time could blur the
// 1 s margins; such a history is dropped, not judged.
const c18StallLimit = 400 * time.Millisecond

type c18Conf struct {
	durL, durN string
	capL, capN int
}

type c18Op struct {
	kind  byte // 'q' query, 'c' clear
	now   int64
	addr  string
	port  uint16
	probe bool // the boolean a probe would return …
	perr  byte // … and the error that comes with it (c18ErrKinds; 0 = the built-in pairing of the boolean)
}

type c18Meas struct {
	t    int64
	v    bool
	e    byte
	port uint16
}

// The probe function returns a pair.  The built-in scanner only produces (true, ErrLiveHost | dial
// error) and (false, NotLive | wrapped NotLive), but the function is injectable and the property
// speaks of "the verdict that was measured" - the boolean - whatever error travels with it.  The
// scripted probe therefore returns the full product {true, false} x c18ErrKinds:
//
//	'-' nil   'n' NotLive itself   'w' an error wrapping NotLive (the scanner's default branch)
//	'l' ErrLiveHost   'o' another error (a dial failure)   'c' context.Canceled   'd' context.DeadlineExceeded
const c18ErrKinds = "-nwlocd"

func c18Pairing(v bool) byte {
	if v {
		return 'l'
	}
	return 'w'
}

// c18MakeErr builds a fresh error value of the kind (sentinels are returned as they are, the way the
// scanner returns them: code comparing with == must see them).
func c18MakeErr(kind byte, address string) error {
	switch kind {
	case '-':
		return nil
	case 'n':
		return NotLive
	case 'w':
		return fmt.Errorf("%w %v", NotLive, 750*time.Millisecond)
	case 'l':
		return ErrLiveHost
	case 'o':
		return &net.OpError{Op: "dial", Net: "tcp", Err: errors.New("no route to host " + address)}
	case 'c':
		return context.Canceled
	case 'd':
		return context.DeadlineExceeded
	}
	panic("c18MakeErr: unknown kind " + string(kind))
}

// c18ErrKind classifies an error the tester returned, by the same questions code could ask of it.
func c18ErrKind(err error) byte {
	switch {
	case err == nil:
		return '-'
	case errors.Is(err, ErrCachedPhantom):
		return 'C'
	case err == NotLive:
		return 'n'
	case errors.Is(err, NotLive):
		return 'w'
	case errors.Is(err, ErrLiveHost):
		return 'l'
	case errors.Is(err, context.Canceled):
		return 'c'
	case errors.Is(err, context.DeadlineExceeded):
		return 'd'
	}
	return 'o'
}

// c18Span: the measurement of one address taken at `from` was still answered from the cache at `to`
type c18Span struct {
	addr     string
	from, to int64
}

type c18World struct {
	conf     c18Conf
	t        Tester
	newErr   error
	calls    []string // addresses the probe function was called with during the current operation
	script   bool     // what the probe returns when it is called: the boolean …
	scriptE  byte     // … and the kind of error
	probeErr error    // the error value the probe returned last
	meas     map[string][]c18Meas // ground truth: every probe observed per address
	gone     [2]map[string]bool   // address whose entry was seen to leave cache v (evicted / cleared)
	keysPrev [2]map[string]bool
	spans    [2][]c18Span // black-box: which measurements were demonstrably held, and for how long
	started  bool
	vnow     int64     // virtual time of the current operation
	rnow     time.Time // the real instant that stands for vnow
}

func c18Idx(v bool) int {
	if v {
		return 1
	}
	return 0
}

func c18DurField(s string) (string, time.Duration, bool) {
	if s == "" {
		return "-", 0, false
	}
	d, err := time.ParseDuration(s) // oracle: the model is driven by what the stdlib answered
	if err != nil {
		return "E", 0, false
	}
	return strconv.FormatInt(int64(d), 10), d, true
}

// c18TextLines: the configured lifetimes go to the model as TEXT (`cachet|<hex>|cap|<hex>|cap|…`), to be parsed by
// the model's own time.ParseDuration (CJ.DurationText); set by TestVerifC18Text and by the replay of a `cachet|` line.
var c18TextLines bool

func (c c18Conf) line() string {
	if c18TextLines {
		return fmt.Sprintf("cachet|%s|%d|%s|%d|", vlib.Hex([]byte(c.durL)), c.capL, vlib.Hex([]byte(c.durN)), c.capN)
	}
	dl, _, _ := c18DurField(c.durL)
	dn, _, _ := c18DurField(c.durN)
	return fmt.Sprintf("cache|%s|%d|%s|%d|", dl, c.capL, dn, c.capN)
}

func newC18World(c c18Conf) *c18World {
	w := &c18World{conf: c, meas: map[string][]c18Meas{}}
	for i := range w.gone {
		w.gone[i] = map[string]bool{}
		w.keysPrev[i] = map[string]bool{}
	}
	w.t, w.newErr = New(&Config{CacheDuration: c.durL, CacheCapacity: c.capL, CacheDurationNonLive: c.durN, CacheCapacityNonLive: c.capN})
	probe := func(address string) (bool, error) {
		w.calls = append(w.calls, address)
		w.probeErr = c18MakeErr(w.scriptE, address)
		return w.script, w.probeErr
	}
	switch tt := w.t.(type) {
	case *UncachedLivenessTester:
		tt.phantomIsLive = probe
	case *CachedLivenessTester:
		tt.phantomIsLive = probe
	}
	return w
}

func (w *c18World) cache(v bool) cache {
	clt, ok := w.t.(*CachedLivenessTester)
	if !ok {
		return nil
	}
	if v {
		return clt.ipCacheLive
	}
	return clt.ipCacheNonLive
}

func c18Elems(c cache) map[string]*cacheElement {
	switch cc := c.(type) {
	case *mapCache:
		return cc.ipCache
	case *lruCache:
		return cc.ipCache
	}
	return nil
}

func c18Kind(c cache) string {
	switch cc := c.(type) {
	case nil:
		return "none"
	case *mapCache:
		return "map"
	case *lruCache:
		return fmt.Sprintf("lru%d", cc.lruSize)
	}
	return "?"
}

func (w *c18World) newLine() string {
	var s string
	switch w.t.(type) {
	case *UncachedLivenessTester:
		s = "uncached"
	case *CachedLivenessTester:
		s = "cached L=" + c18Kind(w.cache(true)) + " N=" + c18Kind(w.cache(false))
	default:
		s = "?"
	}
	if w.newErr != nil {
		switch {
		case strings.Contains(w.newErr.Error(), "cacheExpirationLive"):
			s += " err=live"
		case strings.Contains(w.newErr.Error(), "cacheExpirationNonLive"):
			s += " err=nonlive"
		default:
			s += " err=?"
		}
	}
	return s
}

// setClock moves the virtual clock to `now`: every stored timestamp is shifted by the same amount,
// virtual time passed minus real time passed, so that time.Since of an untouched entry grows by
// exactly the virtual time that passed.  Nothing is remembered per entry.
func (w *c18World) setClock(now int64) {
	real := time.Now()
	if w.started {
		d := time.Duration(now-w.vnow) - real.Sub(w.rnow)
		seen := map[*cacheElement]bool{}
		for _, v := range []bool{true, false} {
			for _, e := range c18Elems(w.cache(v)) {
				if e != nil && !seen[e] {
					seen[e] = true
					e.cachedTime = e.cachedTime.Add(-d)
				}
			}
		}
	}
	w.started, w.vnow, w.rnow = true, now, real
}

func c18FloorSec(ns int64) int64 {
	q := ns / c18Sec
	if ns%c18Sec < 0 {
		q--
	}
	return q * c18Sec
}

// storedAt reads back the virtual time an entry carries: what the code stored, as moved by the clock.
// Entries are stored within c18StallLimit after the instant that stands for the operation's time, and
// operation times are whole seconds, so rounding down to the second is exact.
func (w *c18World) storedAt(e *cacheElement) int64 {
	if e == nil {
		return -1
	}
	return c18FloorSec(w.vnow - int64(w.rnow.Sub(e.cachedTime)))
}

// track records which addresses left a cache (white-box: the implementation's own key sets).
func (w *c18World) track() {
	for _, v := range []bool{true, false} {
		i := c18Idx(v)
		cur := map[string]bool{}
		for k := range c18Elems(w.cache(v)) {
			cur[k] = true
			delete(w.gone[i], k) // an entry is stored (again)
		}
		for k := range w.keysPrev[i] {
			if !cur[k] {
				w.gone[i][k] = true
			}
		}
		w.keysPrev[i] = cur
	}
}

func (w *c18World) lens() string {
	f := func(c cache) string {
		if c == nil {
			return "-"
		}
		return strconv.Itoa(c.Len())
	}
	if _, ok := w.t.(*CachedLivenessTester); !ok {
		return "-,-"
	}
	return f(w.cache(true)) + "," + f(w.cache(false))
}

func (w *c18World) dumpCache(c cache) string {
	if c == nil {
		return "-"
	}
	var es []string
	for k, e := range c18Elems(c) {
		es = append(es, fmt.Sprintf("%s@%d", k, w.storedAt(e)))
	}
	sort.Strings(es)
	ord := "-"
	if lc, ok := c.(*lruCache); ok {
		var ks []string
		for _, k := range lc.lru.Keys() { // oldest → newest
			ks = append(ks, k.(string))
		}
		ord = strings.Join(ks, ",")
	}
	return strings.Join(es, ",") + "/" + ord
}

func (w *c18World) dump() string {
	if _, ok := w.t.(*CachedLivenessTester); !ok {
		return "L:-|N:-"
	}
	return "L:" + w.dumpCache(w.cache(true)) + "|N:" + w.dumpCache(w.cache(false))
}

// lifetime returns the configured lifetime of verdict v (ok=false when that cache is not configured)
func (c c18Conf) lifetime(v bool) (int64, bool) {
	s := c.durN
	if v {
		s = c.durL
	}
	_, d, ok := c18DurField(s)
	return int64(d), ok
}

func (w *c18World) lifetime(v bool) (int64, bool) { return w.conf.lifetime(v) }

func (w *c18World) capacity(v bool) int {
	if v {
		return w.conf.capL
	}
	return w.conf.capN
}

func c18Which(v bool) string {
	if v {
		return "live"
	}
	return "nonlive"
}

// held: the largest number of distinct addresses whose measurements demonstrably sat in one cache at
// the same operation boundary.  A span [from, to] says: the measurement of `addr` taken at `from` was
// answered from the cache at `to` with no probe in between, so the entry existed all the time from
// `from` to `to`.  Spans of one address never overlap (a later span starts with a later probe).
func c18MaxHeld(spans []c18Span) (int, int64) {
	type ev struct {
		t int64
		d int
	}
	var evs []ev
	for _, s := range spans {
		evs = append(evs, ev{s.from, +1}, ev{s.to + 1, -1})
	}
	sort.Slice(evs, func(i, j int) bool {
		if evs[i].t != evs[j].t {
			return evs[i].t < evs[j].t
		}
		return evs[i].d < evs[j].d
	})
	best, cur, at := 0, 0, int64(0)
	for _, e := range evs {
		cur += e.d
		if cur > best {
			best, at = cur, e.t
		}
	}
	return best, at
}

// runC18 executes one history on the implementation and evaluates the property on it.  ok=false: the
// history was dropped because the machine stalled in the middle of an operation (nothing is judged).
func runC18(out *vlib.Out, conf c18Conf, ops []c18Op) (model string, impl string, ok bool) {
	w := newC18World(conf)
	var mops, outs []string
	line := func() string { return conf.line() + strings.Join(mops, ";") }
	fail := func(sig, what string) { out.OracleFail(sig, what, line()) }
	if w.newErr != nil {
		// a configuration that New rejects is not run (the station does not start with it)
		ops = nil
	}
	for _, op := range ops {
		if c18Abandon.Load() {
			return "", "", false
		}
		c18Progress.Add(1)
		w.calls = w.calls[:0]
		w.setClock(op.now)
		var o string
		switch op.kind {
		case 'q':
			if op.perr == 0 {
				op.perr = c18Pairing(op.probe)
			}
			mops = append(mops, fmt.Sprintf("q,%d,%s,%d,%s,%c", op.now, op.addr, op.port, vlib.B(op.probe), op.perr))
			w.script, w.scriptE, w.probeErr = op.probe, op.perr, nil
			// white-box: the element each cache holds for the address before the call
			var before [2]*cacheElement
			for _, v := range []bool{true, false} {
				before[c18Idx(v)] = c18Elems(w.cache(v))[op.addr]
			}
			live, err := w.t.PhantomIsLive(op.addr, op.port)
			if time.Since(w.rnow) > c18StallLimit {
				return "", "", false
			}
			cachedAns := errors.Is(err, ErrCachedPhantom)
			switch {
			case cachedAns && len(w.calls) == 0:
				o = "c" + vlib.B(live)
			case !cachedAns && len(w.calls) == 1:
				o = "p" + vlib.B(live) + string(c18ErrKind(err))
			default:
				o = fmt.Sprintf("?calls=%d,err=%v", len(w.calls), err)
			}
			// ---- property oracle (ground truth = the probes the fake prober saw)
			out.Checked()
			ms := w.meas[op.addr]
			if cachedAns {
				lt, configured := w.lifetime(live)
				switch {
				case len(w.calls) != 0:
					fail("C18:cached-answer-but-probed", fmt.Sprintf("%s answered from cache and probed %d times", op.addr, len(w.calls)))
				case len(ms) == 0:
					fail("C18:served-unmeasured", fmt.Sprintf("%s served %v from cache without any measurement", op.addr, live))
				case !configured:
					fail("C18:served-from-disabled-cache", fmt.Sprintf("%s served %v but no lifetime is configured for that verdict", op.addr, live))
				default:
					last := ms[len(ms)-1]
					if last.v != live {
						fail("C18:served-flipped", fmt.Sprintf("%s served %v at %d, last measurement was (%v, error kind %c) at %d", op.addr, live, op.now, last.v, last.e, last.t))
					} else if op.now-last.t >= lt {
						fail("C18:served-stale", fmt.Sprintf("%s served %v at %d, measured at %d, lifetime %d", op.addr, live, op.now, last.t, lt))
					} else {
						// the entry measured at last.t existed from then until now
						i := c18Idx(live)
						if n := len(w.spans[i]); n > 0 && w.spans[i][n-1].addr == op.addr && w.spans[i][n-1].from == last.t {
							w.spans[i][n-1].to = op.now
						} else {
							merged := false
							for j := range w.spans[i] {
								if w.spans[i][j].addr == op.addr && w.spans[i][j].from == last.t {
									w.spans[i][j].to, merged = op.now, true
								}
							}
							if !merged {
								w.spans[i] = append(w.spans[i], c18Span{op.addr, last.t, op.now})
							}
						}
						if last.port != op.port {
							// reading of assumption 3 made visible: the verdict was measured on another port
							out.Count("cached:port-differs-from-measured")
						} else {
							out.Count("cached:port-as-measured")
						}
					}
				}
				if w.gone[c18Idx(live)][op.addr] {
					fail("C18:served-after-eviction", fmt.Sprintf("%s served %v at %d although its entry had left the cache", op.addr, live, op.now))
				}
			} else {
				want := fmt.Sprintf("%s:%d", op.addr, op.port)
				if strings.Contains(op.addr, ":") {
					want = fmt.Sprintf("[%s]:%d", op.addr, op.port)
				}
				if len(w.calls) != 1 || w.calls[0] != want {
					fail("C18:not-probed-once", fmt.Sprintf("%s: probe calls %v, want exactly [%s]", op.addr, w.calls, want))
				} else {
					// the verdict is the boolean; the error the probe returned must still be recognisable in
					// what the tester returns (it may be wrapped)
					if live != op.probe || (w.probeErr != nil && !errors.Is(err, w.probeErr)) {
						fail("C18:probe-verdict-altered", fmt.Sprintf("%s: probe said (%v, %v), tester returned (%v, %v)", op.addr, op.probe, w.probeErr, live, err))
					}
					// the measurement is filed under its own boolean and nowhere else, whatever error came
					// with it (white-box; in a configuration without a cache for that boolean: nowhere)
					out.Checked()
					if e := c18Elems(w.cache(!op.probe))[op.addr]; e != before[c18Idx(!op.probe)] {
						fail("C18:stored-under-other-verdict:"+c18Which(!op.probe), fmt.Sprintf("%s: the probe returned (%v, error kind %c) and the %s cache got a new entry for the address (caches L=%s N=%s)",
							op.addr, op.probe, op.perr, c18Which(!op.probe), c18Kind(w.cache(true)), c18Kind(w.cache(false))))
					}
					out.Count(fmt.Sprintf("probe:%s,%c", vlib.B(op.probe), op.perr))
				}
			}
			for range w.calls {
				w.meas[op.addr] = append(w.meas[op.addr], c18Meas{op.now, op.probe, op.perr, op.port})
			}
			out.Count("out:" + o[:1])
		case 'c':
			mops = append(mops, fmt.Sprintf("c,%d", op.now))
			if clt, ok := w.t.(*CachedLivenessTester); ok {
				clt.ClearExpiredCache()
			}
			if time.Since(w.rnow) > c18StallLimit {
				return "", "", false
			}
			o = "clr"
			// oracle: the clean-up leaves nothing that was measured longer ago than the lifetime
			// (ground truth: the probe log; the stored time is what the code wrote)
			for _, v := range []bool{true, false} {
				lt, configured := w.lifetime(v)
				if !configured || w.cache(v) == nil {
					continue
				}
				out.Checked()
				for k, e := range c18Elems(w.cache(v)) {
					if age := op.now - w.storedAt(e); age > lt {
						fail("C18:expired-kept-by-cleanup", fmt.Sprintf("%s (verdict %v) age %d > lifetime %d survives ClearExpired", k, v, age, lt))
					}
					// youngest probe of k with verdict v: an entry cannot be younger than that
					young := int64(-1)
					for _, m := range w.meas[k] {
						if m.v == v {
							young = m.t
						}
					}
					if young >= 0 && op.now-young > lt && op.now-w.storedAt(e) <= lt {
						fail("C18:expired-kept-by-cleanup", fmt.Sprintf("%s (verdict %v) was last measured %d ago (lifetime %d) and survives ClearExpired", k, v, op.now-young, lt))
					}
				}
			}
			out.Count("out:clr")
		}
		w.track()
		// ---- bound at every operation boundary (white-box: Len() and the verdict map itself)
		for _, v := range []bool{true, false} {
			if c := w.cache(v); c != nil && w.capacity(v) > 0 {
				out.Checked()
				if n := len(c18Elems(c)); c.Len() > w.capacity(v) || n > w.capacity(v) {
					fail("C18:over-capacity:"+c18Which(v), fmt.Sprintf("%s cache holds %d entries (Len() = %d), configured capacity %d (kind %s)", c18Which(v), n, c.Len(), w.capacity(v), c18Kind(c)))
				}
			}
		}
		outs = append(outs, o+":"+w.lens())
		out.Count("op:" + string(op.kind))
	}
	// ---- bound, black-box: never more than `capacity` measurements demonstrably held at once
	for _, v := range []bool{true, false} {
		if c := w.capacity(v); c > 0 && len(w.spans[c18Idx(v)]) > 0 {
			out.Checked()
			if n, at := c18MaxHeld(w.spans[c18Idx(v)]); n > c {
				fail("C18:held-over-capacity:"+c18Which(v), fmt.Sprintf("%d distinct addresses were answered from %s-cache measurements that all existed at time %d, configured capacity %d", n, c18Which(v), at, c))
			}
		}
	}
	out.Count("new:" + strings.SplitN(w.newLine(), " err", 2)[0])
	return line(), w.newLine() + "|" + strings.Join(outs, ";") + "|" + w.dump(), true
}

var c18Addrs = []string{"192.0.2.1", "192.0.2.2", "2001:db8::3", "192.0.2.4", "192.0.2.5", "2001:db8::6", "192.0.2.7", "192.0.2.8"}

type c18Sym struct {
	kind  byte // 'q', 'c', 'a' (advance whole hours, not an operation of the tester), 'n' (query near a lifetime boundary)
	addr  int
	probe bool
	perr  byte // error kind of the probe result (0 = the built-in pairing)
	hours int
	back  int  // 'n': which earlier query of the same address is the reference (0 = the most recent)
	after bool // 'n': 1 s after the boundary instead of 1 s before
	live  bool // 'n': boundary of the live lifetime instead of the non-live one
}

// c18Build assigns times.  Ordinary operations are 10 s apart, 'a' adds whole hours, 'n' jumps to 1 s
// before / after the instant at which an earlier query of the same address is exactly one lifetime old
// (an ordinary operation when that instant has passed).  No operation is ever placed exactly one
// configured lifetime after an earlier operation.
func c18Build(conf c18Conf, syms []c18Sym, r *vlib.Rand) []c18Op {
	var ops []c18Op
	var lts []int64
	for _, v := range []bool{true, false} {
		if lt, ok := conf.lifetime(v); ok {
			lts = append(lts, lt)
		}
	}
	used := map[int64]bool{}
	cur := int64(0)
	for _, s := range syms {
		if s.kind == 'a' {
			cur += int64(s.hours) * c18Hour
			continue
		}
		t := cur + c18Jitter
		if s.kind == 'n' {
			if lt, ok := conf.lifetime(s.live); ok && lt > 0 && lt <= 1000*c18Hour && lt%c18Sec == 0 { // (a lifetime of centuries has no reachable boundary; operation times stay whole seconds)
				back := s.back
				for j := len(ops) - 1; j >= 0; j-- {
					if ops[j].kind == 'q' && ops[j].addr == c18Addrs[s.addr] {
						if back == 0 {
							cand := ops[j].now + lt - c18Sec
							if s.after {
								cand = ops[j].now + lt + c18Sec
							}
							if cand > cur {
								t = cand
							}
							break
						}
						back--
					}
				}
			}
		}
		for exact := true; exact; {
			exact = false
			for _, lt := range lts {
				if used[t-lt] {
					exact = true
				}
			}
			if exact {
				t += 2 * c18Sec
			}
		}
		cur = t
		used[t] = true
		op := c18Op{kind: s.kind, now: t}
		if s.kind == 'q' || s.kind == 'n' {
			op.kind = 'q'
			op.addr = c18Addrs[s.addr]
			op.probe = s.probe
			op.perr = s.perr
			if op.perr == 0 {
				op.perr = c18Pairing(op.probe)
			}
			op.port = 443
			if r != nil && r.Chance(1, 4) {
				op.port = uint16(r.Range(1, 65535))
			}
		}
		ops = append(ops, op)
		if len(ops) >= c18MaxOps {
			break
		}
	}
	return ops
}

// ---------------------------------------------------------------------------------------------
// watchdog: the harness must never hang.  C18 does not claim that the cache is free of deadlocks; a call
// into the cache that never returns (e.g. a lock taken twice on one path) makes the rest of the history
// unobservable - no clause of C18 can be evaluated on it, so nothing is reported as a violation.  The
// harness notes `harness:cache-call-stuck`, abandons the blocked goroutines and ends at once; what the
// histories completed so far showed (correspondence, oracles) stands.

var (
	c18Progress atomic.Int64 // bumped after every call into the tester, by every goroutine of the harness
	c18Abandon  atomic.Bool  // set once a call was found stuck: whoever still runs stops at its next step
)

const c18StuckLimit = 20 * time.Second // calls take microseconds; nothing in the harness sleeps

// c18Guarded runs body on its own goroutine and returns when it is done, or - false - when no call into
// the tester has completed for c18StuckLimit.
func c18Guarded(out *vlib.Out, what string, body func()) bool {
	done := make(chan struct{})
	go func() {
		defer close(done)
		body()
	}()
	last, since := c18Progress.Load(), time.Now()
	tick := time.NewTicker(250 * time.Millisecond)
	defer tick.Stop()
	for {
		select {
		case <-done:
			return true
		case <-tick.C:
			if p := c18Progress.Load(); p != last {
				last, since = p, time.Now()
			} else if time.Since(since) > c18StuckLimit {
				c18Abandon.Store(true)
				out.Count("harness:cache-call-stuck")
				out.Note(fmt.Sprintf("harness:cache-call-stuck - %s: no call into the liveness tester has returned for %v (a call that never returns: a lock taken twice on one path?). C18 does not claim deadlock-freedom and no clause of it can be evaluated on a history that does not continue: nothing is reported for it, the blocked goroutines are abandoned and the harness ends here", what, c18StuckLimit))
				return false
			}
		}
	}
}

var c18Durs = []string{"", "1h", "2h", "3h", "5h", "0s", "-1h", "bogus", "1hh", "90"}

func TestVerifC18(t *testing.T) {
	out := vlib.Open("C18")
	defer out.Close()
	if rp := vlib.Replay(); rp != "" {
		c18Guarded(out, "replay", func() { c18Replay(t, out, rp) })
		return
	}
	c18Guarded(out, "TestVerifC18", func() { c18Main(out) })
}

func c18Main(out *vlib.Out) {
	run := func(conf c18Conf, syms []c18Sym, r *vlib.Rand) {
		if c18Abandon.Load() {
			return
		}
		ops := c18Build(conf, syms, r)
		for attempt := 0; ; attempt++ {
			m, i, ok := runC18(out, conf, ops)
			if ok {
				out.Case(m, i, !strings.Contains(i, "err=") && len(syms) > 0)
				return
			}
			out.Count("skip:stalled")
			if attempt == 2 {
				return
			}
		}
	}
	q := func(a int, p bool) c18Sym { return c18Sym{kind: 'q', addr: a, probe: p} }
	adv := func(h int) c18Sym { return c18Sym{kind: 'a', hours: h} }
	near := func(a int, p bool, live bool, after bool) c18Sym {
		return c18Sym{kind: 'n', addr: a, probe: p, live: live, after: after}
	}
	clr := c18Sym{kind: 'c'}
	qe := func(a int, p bool, e byte) c18Sym { return c18Sym{kind: 'q', addr: a, probe: p, perr: e} }

	// ---- corpus: hand-written tricky histories
	corpus := []struct {
		c c18Conf
		s []c18Sym
	}{
		// live capacity unset, non-live capacity 2: three distinct non-live hosts
		{c18Conf{"2h", "1h", 0, 2}, []c18Sym{q(0, false), q(1, false), q(2, false), q(0, false), q(3, false)}},
		// live capacity set, non-live capacity unset
		{c18Conf{"2h", "1h", 2, 0}, []c18Sym{q(0, false), q(1, false), q(2, false), q(0, true), q(1, true), q(2, true), q(0, true)}},
		// non-live only, bounded
		{c18Conf{"", "1h", 0, 1}, []c18Sym{q(0, false), q(1, false), q(0, false), q(1, true), q(1, true)}},
		// live only / non-live only and a host of the other kind, queried repeatedly (never cached)
		{c18Conf{"", "1h", 0, 0}, []c18Sym{q(0, true), q(0, true), q(0, true), q(1, false), q(0, true), q(1, false)}},
		{c18Conf{"", "1h", 0, 2}, []c18Sym{q(0, true), q(0, true), q(1, true), q(1, true), q(0, false), q(0, true)}},
		{c18Conf{"2h", "", 0, 0}, []c18Sym{q(0, false), q(0, false), q(0, true), q(0, false)}},
		{c18Conf{"2h", "", 1, 0}, []c18Sym{q(0, false), q(0, false), q(1, false), q(0, true), q(0, false)}},
		// host changes state after expiry: live → non-live → live
		{c18Conf{"2h", "1h", 0, 0}, []c18Sym{q(0, true), q(0, false), adv(2), q(0, false), q(0, true), adv(1), q(0, true), q(0, true), adv(2), q(0, false)}},
		{c18Conf{"1h", "3h", 2, 2}, []c18Sym{q(0, false), adv(3), q(0, true), q(0, false), adv(1), q(0, false), q(0, true), clr, q(0, true)}},
		// map cache keeps an expired entry (no overwrite) until the clean-up
		{c18Conf{"", "1h", 0, 0}, []c18Sym{q(0, false), adv(1), q(0, false), q(0, false), clr, q(0, false), q(0, false)}},
		// LRU refresh by lookup changes who is evicted
		{c18Conf{"5h", "", 2, 0}, []c18Sym{q(0, true), q(1, true), q(0, false), q(2, true), q(1, true), q(0, true)}},
		// eviction then re-query, expiry of an entry inside the LRU, clean-up
		{c18Conf{"1h", "1h", 1, 1}, []c18Sym{q(0, true), q(1, true), q(0, true), adv(1), q(0, false), clr, q(0, true), q(1, false), clr}},
		{c18Conf{"0s", "-1h", 2, 0}, []c18Sym{q(0, true), q(0, true), q(1, false), q(1, false), clr}},
		{c18Conf{"", "", 3, 3}, []c18Sym{q(0, true), q(0, false), clr}},
		{c18Conf{"bogus", "1h", 0, 0}, nil},
		{c18Conf{"1h", "bogus", 1, 0}, nil},
		{c18Conf{"1h", "1h", -1, -3}, []c18Sym{q(0, true), q(1, false), q(0, false)}},
		// a verdict that keeps being asked for must still expire one lifetime after it was MEASURED
		// (hits every 10 s up to the boundary, then 1 s before and 1 s after it)
		{c18Conf{"1h", "1h", 0, 0}, []c18Sym{q(0, true), q(0, true), q(0, true), {kind: 'n', addr: 0, probe: true, live: true, back: 2}, {kind: 'n', addr: 0, probe: true, live: true, back: 3, after: true}, q(0, true)}},
		{c18Conf{"1h", "1h", 2, 2}, []c18Sym{q(0, false), q(0, false), q(1, false), q(0, false), {kind: 'n', addr: 0, probe: false, back: 2}, {kind: 'n', addr: 0, probe: false, back: 3, after: true}, q(0, false), clr}},
		{c18Conf{"2h", "1h", 3, 0}, []c18Sym{q(0, true), adv(1), q(0, true), q(1, true), near(0, true, true, false), near(0, true, true, true), clr, q(0, true)}},
		// clean-up 1 s before / after the lifetime of a stored entry
		{c18Conf{"1h", "2h", 0, 1}, []c18Sym{q(0, true), q(1, false), near(0, true, true, false), clr, near(0, true, true, true), clr, near(1, false, false, false), clr, near(1, false, false, true), clr}},
	}
	for _, c := range corpus {
		run(c.c, c.s, nil)
	}
	// every probe result (boolean x error kind) in every kind of configuration: asked again at once (a
	// hit must carry the measured boolean), after the host changed state, 1 s before and after the
	// measurement reaches its lifetime, across a clean-up
	for _, conf := range []c18Conf{{"2h", "1h", 0, 0}, {"2h", "1h", 2, 1}, {"2h", "", 0, 0}, {"2h", "", 1, 0}, {"", "1h", 0, 0}, {"", "1h", 0, 2}, {"", "", 0, 0}} {
		for _, v := range []bool{true, false} {
			for _, e := range []byte(c18ErrKinds) {
				run(conf, []c18Sym{qe(0, v, e), qe(0, v, e), qe(1, !v, e), qe(0, !v, 0), qe(1, !v, 0),
					{kind: 'n', addr: 0, probe: v, perr: e, live: v, back: 2}, {kind: 'n', addr: 0, probe: v, perr: e, live: v, back: 3, after: true},
					qe(0, v, e), adv(3), qe(0, !v, e), clr, qe(0, v, e), qe(0, v, 0)}, nil)
			}
		}
	}

	// ---- exhaustive: every history up to length L over a small alphabet, for every cache shape
	alpha := []c18Sym{q(0, true), q(0, false), q(1, true), q(1, false), q(2, true), q(2, false), adv(1), clr}
	var shapes []c18Conf
	for _, l := range []struct {
		d string
		c int
	}{{"", 0}, {"2h", 0}, {"2h", 1}, {"2h", 2}} {
		for _, n := range []struct {
			d string
			c int
		}{{"", 0}, {"1h", 0}, {"1h", 1}, {"1h", 2}} {
			shapes = append(shapes, c18Conf{l.d, n.d, l.c, n.c})
		}
	}
	L := 4
	if vlib.Tier() == "thorough" {
		L = 5
	}
	var rec func(prefix []c18Sym, conf c18Conf)
	rec = func(prefix []c18Sym, conf c18Conf) {
		if n := len(prefix); n > 0 && prefix[n-1].kind != 'a' {
			run(conf, prefix, nil)
		}
		if len(prefix) == L {
			return
		}
		for _, a := range alpha {
			rec(append(append([]c18Sym(nil), prefix...), a), conf)
		}
	}
	for _, conf := range shapes {
		rec(nil, conf)
	}
	// the same with the probe result as a pair: one address with the full product boolean x error kind,
	// a second address with the built-in pairings, advance, clean-up
	alpha = []c18Sym{q(1, true), q(1, false), adv(1), clr}
	for _, v := range []bool{true, false} {
		for _, e := range []byte(c18ErrKinds) {
			alpha = append(alpha, qe(0, v, e))
		}
	}
	L--
	for _, conf := range shapes {
		rec(nil, conf)
	}

	// ---- random configurations × random long histories
	r := vlib.NewRand("C18")
	n := vlib.Budget(2500, 60000)
	for i := 0; i < n; i++ {
		conf := c18Conf{durL: c18Durs[r.Intn(7)], durN: c18Durs[r.Intn(7)]}
		if r.Chance(1, 20) {
			conf.durL = c18Durs[r.Intn(len(c18Durs))]
			conf.durN = c18Durs[r.Intn(len(c18Durs))]
		}
		pickCap := func() int {
			switch r.Intn(8) {
			case 0, 1:
				return 0
			case 2:
				return -r.Range(1, 3)
			default:
				return r.Range(1, 5)
			}
		}
		conf.capL, conf.capN = pickCap(), pickCap()
		na := r.Range(1, len(c18Addrs))
		var syms []c18Sym
		// three styles: mixed; "busy" (few advances: entries are hit again and again until they expire);
		// "churn" (many distinct hosts, no advances: evictions)
		style := r.Intn(4)
		// error that comes with a probe's boolean: per history either always the built-in pairing, or a
		// fixed error kind per address (a scanner that keeps failing the same way), or anything per probe
		errStyle := r.Intn(4)
		addrErr := make([]byte, len(c18Addrs))
		for j := range addrErr {
			addrErr[j] = c18ErrKinds[r.Intn(len(c18ErrKinds))]
		}
		pickErr := func(a int) byte {
			switch errStyle {
			case 0:
				return 0
			case 1:
				return addrErr[a]
			}
			if r.Chance(1, 3) {
				return 0
			}
			return c18ErrKinds[r.Intn(len(c18ErrKinds))]
		}
		for j, m := 0, r.Range(3, 300); j < m; j++ {
			k := r.Intn(20)
			if style == 1 && k >= 14 && k < 18 && r.Chance(2, 3) {
				k = 0
			}
			if style == 2 && k >= 14 && r.Chance(3, 4) {
				k = 0
			}
			switch {
			case k < 12:
				// hosts mostly keep their state, sometimes flip
				a := r.Intn(na)
				syms = append(syms, qe(a, (a%2 == 0) != r.Chance(1, 5), pickErr(a)))
			case k < 14:
				// 1 s before / after an earlier query of this address reaches a lifetime
				a := r.Intn(na)
				syms = append(syms, c18Sym{kind: 'n', addr: a, probe: (a%2 == 0) != r.Chance(1, 5), perr: pickErr(a), back: r.Intn(4), after: r.Bool(), live: r.Bool()})
			case k < 17:
				syms = append(syms, adv(r.Range(1, 3)))
			case k < 18:
				syms = append(syms, adv(r.Range(4, 8)))
			default:
				syms = append(syms, clr)
			}
		}
		run(conf, syms, r)
	}

	c18Stress(out, r, vlib.Budget(8, 60))
}

// TestVerifC18Race is the concurrent part alone, meant to be run under the race detector.
func TestVerifC18Race(t *testing.T) {
	out := vlib.Open("C18race")
	defer out.Close()
	if vlib.Replay() != "" {
		return
	}
	c18Guarded(out, "TestVerifC18Race", func() { c18Stress(out, vlib.NewRand("C18race"), vlib.Budget(3, 12)) })
}

// ---------------------------------------------------------------------------------------------
// concurrent stress (oracle only — schedules are not replayable)

type c18StressEv struct {
	host   int
	qs, qe int64 // sequence numbers drawn when the call started / returned
	cached bool
	v      bool
}

// c18Stress: concurrent callers on both caches, hosts that change state, entries that are aged past
// their lifetime while queries, clean-ups and evictions are in flight.  Oracles:
//   - during the run (evaluated afterwards from the logs): a verdict answered from the cache was
//     measured for that address by a probe that started before the answer returned, and it is not
//     contradicted by a later measurement that had completed before the query started;
//   - at quiescence: the bound holds, every verdict-map key is tracked by the recency list, a clean-up
//     leaves no entry that is older than the lifetime.
func c18Stress(out *vlib.Out, r *vlib.Rand, rounds int) {
	const maxHosts = 256
	// the interleavings that matter need real parallelism
	if old := runtime.GOMAXPROCS(0); old < 8 {
		runtime.GOMAXPROCS(8)
		defer runtime.GOMAXPROCS(old)
	}
	for round := 0; round < rounds; round++ {
		capL, capN := r.Range(1, 6), r.Range(1, 6)
		// shapes: both LRU (mostly), one of the two an unbounded map
		switch round % 5 {
		case 3:
			capL = 0
		case 4:
			capN = 0
		}
		w := newC18World(c18Conf{"1h", "1h", capL, capN})
		clt := w.t.(*CachedLivenessTester)
		var state [maxHosts]atomic.Bool // the verdict a probe of the host returns right now
		for h := range state {
			state[h].Store(h%2 == 0)
		}
		hostName := func(h int) string { return fmt.Sprintf("10.0.%d.%d", h/9, h%9) }
		hostIdx := map[string]int{}
		for h := 0; h < maxHosts; h++ {
			hostIdx[hostName(h)+":443"] = h
		}
		var nProbe atomic.Uint64
		clt.phantomIsLive = func(address string) (bool, error) {
			// the error that comes with the boolean runs through every kind
			n := nProbe.Add(1)
			return state[hostIdx[address]].Load(), c18MakeErr(c18ErrKinds[(n*2654435761>>7)%uint64(len(c18ErrKinds))], address)
		}
		// age one entry of a cache past its lifetime.  The element is replaced, not written to:
		// lruCache.Lookup reads cachedTime after releasing the lock.
		age := func(c cache, pick uint64) {
			var mu *sync.RWMutex
			var m map[string]*cacheElement
			switch cc := c.(type) {
			case *mapCache:
				mu, m = &cc.m, cc.ipCache
			case *lruCache:
				mu, m = &cc.m, cc.ipCache
			default:
				return
			}
			mu.Lock()
			for k, e := range m {
				if pick%3 == 0 {
					m[k] = &cacheElement{cachedTime: e.cachedTime.Add(-2 * time.Hour)}
					break
				}
				pick /= 3
			}
			mu.Unlock()
		}
		quiescent := func(where, stage string) {
			for _, v := range []bool{true, false} {
				lc, isLRU := w.cache(v).(*lruCache)
				if !isLRU {
					continue
				}
				if lc.Len() > w.capacity(v) || len(lc.ipCache) > w.capacity(v) {
					out.OracleFail("C18:over-capacity:concurrent", fmt.Sprintf("verdict %v: %d entries at quiescence (%s), capacity %d", v, len(lc.ipCache), stage, w.capacity(v)), where)
				}
				for k := range lc.ipCache {
					if !lc.lru.Contains(k) {
						out.OracleFail("C18:untracked-entry:concurrent", fmt.Sprintf("verdict %v: %s is in the verdict map but not in the recency list (%s)", v, k, stage), where)
					}
				}
			}
		}
		var seq atomic.Int64              // one numbering of call starts / returns for the whole round
		perHost := make([][]c18StressEv, maxHosts) // every call of the round so far, per host
		// two phases per round on the same tester:
		//   churn — many distinct hosts that never change, nothing but queries: almost every query misses,
		//           probes, stores and evicts (Add racing Add / evict callbacks);
		//   mixed — few hosts, some of which change state, entries aged past their lifetime, clean-ups
		//           (Lookup's refresh and expired branch, ClearExpired, Add and evict callbacks all racing).
		for _, ph := range []struct {
			name          string
			nHosts, iters int
			mixed         bool
		}{{"churn", maxHosts, 700, false}, {"mixed", 36, 1500, true}} {
			where := fmt.Sprintf("stress capL=%d capN=%d seed=%d round=%d phase=%s", capL, capN, vlib.Seed(), round, ph.name)
			var wg sync.WaitGroup
			const workers = 8
			seeds := make([]uint64, workers)
			for i := range seeds {
				seeds[i] = r.U64()
			}
			logs := make([][]c18StressEv, workers)
			for g := 0; g < workers; g++ {
				wg.Add(1)
				go func(g int, s uint64) {
					defer wg.Done()
					for i := 0; i < ph.iters && !c18Abandon.Load(); i++ {
						c18Progress.Add(1)
						s = s*6364136223846793005 + 1442695040888963407
						h := int((s >> 33) % uint64(ph.nHosts))
						if ph.mixed {
							switch x := (s >> 50) % 120; {
							case x < 3:
								clt.ClearExpiredCache()
								continue
							case x < 9:
								age(w.cache(x%2 == 0), s>>20)
								continue
							case x < 11 && h >= 27:
								// only the last quarter of the hosts ever changes state
								state[h].Store(!state[h].Load())
								continue
							}
						}
						ev := c18StressEv{host: h, qs: seq.Add(1)}
						live, err := clt.PhantomIsLive(hostName(h), 443)
						ev.qe = seq.Add(1)
						ev.cached, ev.v = errors.Is(err, ErrCachedPhantom), live
						logs[g] = append(logs[g], ev)
					}
				}(g, seeds[g])
			}
			wg.Wait()
			if c18Abandon.Load() {
				return
			}
			out.Checked()
			// ---- verdicts served during the phase
			phaseStart := map[int]int{}
			for h := range perHost {
				phaseStart[h] = len(perHost[h])
			}
			for _, l := range logs {
				for _, e := range l {
					perHost[e.host] = append(perHost[e.host], e)
				}
			}
			for h, evs := range perHost {
				for _, q := range evs[phaseStart[h]:] {
					if !q.cached {
						continue
					}
					if h < 27 || h >= 36 {
						// a host that never changes: the cached verdict is its only verdict
						if q.v != (h%2 == 0) {
							out.OracleFail("C18:concurrent-flipped", fmt.Sprintf("%s served %v under concurrency, the host only ever answers %v", hostName(h), q.v, h%2 == 0), where)
						}
						continue
					}
					measured, lastEnd := false, int64(0)
					for _, p := range evs {
						if !p.cached && p.v == q.v && p.qs < q.qe {
							measured = true
							if p.qe > lastEnd {
								lastEnd = p.qe
							}
						}
					}
					if !measured {
						out.OracleFail("C18:concurrent-flipped", fmt.Sprintf("%s served %v under concurrency, no probe of it had answered %v", hostName(h), q.v, q.v), where)
						continue
					}
					for _, p := range evs {
						// a whole query (lookup, probe, store) with the other verdict that began after every
						// measurement of q.v had been stored and that returned before q began
						if !p.cached && p.v != q.v && p.qs > lastEnd && p.qe < q.qs {
							out.OracleFail("C18:concurrent-flipped", fmt.Sprintf("%s served %v under concurrency after a later, completed measurement said %v", hostName(h), q.v, p.v), where)
							break
						}
					}
				}
			}
			// ---- quiescence
			quiescent(where, "after the "+ph.name+" phase")
			if ph.mixed {
				clt.ClearExpiredCache()
				for _, v := range []bool{true, false} {
					for k, e := range c18Elems(w.cache(v)) {
						// aged entries are more than 2 h old, all others a few seconds: nothing is near the 1 h lifetime
						if time.Since(e.cachedTime) > 90*time.Minute {
							out.OracleFail("C18:expired-kept-by-cleanup:concurrent", fmt.Sprintf("verdict %v: %s is older than the lifetime after ClearExpiredCache at quiescence", v, k), where)
						}
					}
				}
				quiescent(where, "after the clean-up")
			}
			out.Count("stress:" + ph.name)
		}
		out.Count("stress:round")
	}
}

// c18Replay re-runs `cache|…` model lines of a replay file against the implementation.
func c18Replay(t *testing.T, out *vlib.Out, path string) {
	b, err := os.ReadFile(path)
	if err != nil {
		t.Fatal(err)
	}
	for _, line := range strings.Split(string(b), "\n") {
		if strings.HasPrefix(line, "stress ") {
			// a failure of the concurrent run: the schedule cannot be replayed, the run is repeated
			fmt.Println("REPLAY stress run repeated:", line)
			c18Stress(out, vlib.NewRand("C18"), 12)
			continue
		}
		c18TextLines = strings.HasPrefix(line, "cachet|")
		if !strings.HasPrefix(line, "cache|") && !c18TextLines {
			continue
		}
		f := strings.Split(line, "|")
		if len(f) != 6 {
			t.Fatalf("bad replay line %q", line)
		}
		dur := func(s string) string {
			if c18TextLines {
				// the lifetime as written: hex of the configured text
				if s == "-" {
					return ""
				}
				b, err := hex.DecodeString(s)
				if err != nil {
					t.Fatalf("bad lifetime text %q", s)
				}
				return string(b)
			}
			switch s {
			case "-":
				return ""
			case "E":
				return "bogus"
			}
			ns, err := strconv.ParseInt(s, 10, 64)
			if err != nil {
				t.Fatalf("bad duration %q", s)
			}
			return time.Duration(ns).String()
		}
		conf := c18Conf{durL: dur(f[1]), durN: dur(f[3])}
		conf.capL, _ = strconv.Atoi(f[2])
		conf.capN, _ = strconv.Atoi(f[4])
		var ops []c18Op
		for _, s := range strings.Split(f[5], ";") {
			p := strings.Split(s, ",")
			switch {
			case (len(p) == 5 || len(p) == 6) && p[0] == "q":
				now, _ := strconv.ParseInt(p[1], 10, 64)
				port, _ := strconv.Atoi(p[3])
				op := c18Op{kind: 'q', now: now, addr: p[2], port: uint16(port), probe: p[4] == "1"}
				if len(p) == 6 {
					if len(p[5]) != 1 || !strings.Contains(c18ErrKinds, p[5]) {
						t.Fatalf("bad probe error kind in %q", s)
					}
					op.perr = p[5][0]
				}
				ops = append(ops, op)
			case len(p) == 2 && p[0] == "c":
				now, _ := strconv.ParseInt(p[1], 10, 64)
				ops = append(ops, c18Op{kind: 'c', now: now})
			}
		}
		m, i, ok := runC18(out, conf, ops)
		if !ok {
			fmt.Println("REPLAY dropped (the machine stalled during an operation):", line)
			continue
		}
		out.Case(m, i, true)
		fmt.Println("REPLAY model-line:", m)
		fmt.Println("REPLAY impl      :", i)
	}
}
