//go:build verif

package responder

// Export for the C15 base32 lines (exists only in the scratch copy): the encoding object responseFor decodes with.
var VerifBase32Encoding = base32Encoding
