//go:build verif

package responder

// Tie 1 for the concurrent clause of C15: regenerates lean/CJ/Gen/C15Loop.lean from the tree under test —
// for every `go func() { … }()` inside a `for` loop of the DNS registrar packages, the variables of the
// enclosing function that the function literal uses, where each is declared (in the loop body: a new
// variable per iteration; in front of the loop: one variable for all iterations), and whether the loop
// itself writes it (assigns it, slices it, takes its address). The model of the receive loop
// (`CJ.Codec.Loop`, `perIter = true`) gives every handler the buffer of its own iteration; that is the
// code's behaviour exactly when the captured variables the loop writes are declared in the loop body.
//
// Syntactic: names are matched as identifiers (a name declared anywhere inside the literal is the
// literal's own); the analysis is pinned by fixtures.

import (
	"fmt"
	"go/ast"
	"go/parser"
	"go/token"
	"os"
	"path/filepath"
	"sort"
	"strings"
	"testing"
)

var c15LoopDirs = []string{
	"pkg/registrars/dns-registrar/responder", "pkg/registrars/dns-registrar/requester",
	"pkg/registrars/dns-registrar/queuepacketconn", "pkg/registrars/dns-registrar/remotemap", "pkg/regserver/dnsregserver",
}

type c15Capture struct {
	file       string
	fn         string
	line       int // of the go statement
	name       string
	perIter    bool // declared in the loop body
	loopWrites bool
}

func c15Declared(n ast.Node, skip ast.Node) map[string]bool {
	out := map[string]bool{}
	ast.Inspect(n, func(x ast.Node) bool {
		if x == skip {
			return false
		}
		switch s := x.(type) {
		case *ast.AssignStmt:
			if s.Tok == token.DEFINE {
				for _, l := range s.Lhs {
					if id, ok := l.(*ast.Ident); ok {
						out[id.Name] = true
					}
				}
			}
		case *ast.ValueSpec:
			for _, id := range s.Names {
				out[id.Name] = true
			}
		case *ast.RangeStmt:
			if s.Tok == token.DEFINE {
				for _, e := range []ast.Expr{s.Key, s.Value} {
					if id, ok := e.(*ast.Ident); ok {
						out[id.Name] = true
					}
				}
			}
		case *ast.FuncLit:
			for _, f := range s.Type.Params.List {
				for _, id := range f.Names {
					out[id.Name] = true
				}
			}
		}
		return true
	})
	return out
}

func c15Writes(n ast.Node, skip ast.Node) map[string]bool {
	out := map[string]bool{}
	base := func(e ast.Expr) {
		for {
			switch x := e.(type) {
			case *ast.ParenExpr:
				e = x.X
				continue
			case *ast.IndexExpr:
				e = x.X
				continue
			case *ast.Ident:
				out[x.Name] = true
			}
			return
		}
	}
	ast.Inspect(n, func(x ast.Node) bool {
		if x == skip {
			return false
		}
		switch s := x.(type) {
		case *ast.AssignStmt:
			for _, l := range s.Lhs {
				base(l)
			}
		case *ast.IncDecStmt:
			base(s.X)
		case *ast.UnaryExpr:
			if s.Op == token.AND {
				base(s.X)
			}
		case *ast.SliceExpr: // `buf[:]` hands out a writable view of an array
			base(s.X)
		case *ast.RangeStmt:
			if s.Key != nil {
				base(s.Key)
			}
			if s.Value != nil {
				base(s.Value)
			}
		}
		return true
	})
	return out
}

// loopVarsPerIteration: since Go 1.22 (the language version of go.mod decides) the variables a for / range
// clause declares are new in every iteration
func c15Scan(fset *token.FileSet, rel string, f *ast.File, loopVarsPerIteration bool) []c15Capture {
	var res []c15Capture
	for _, d := range f.Decls {
		fn, ok := d.(*ast.FuncDecl)
		if !ok || fn.Body == nil {
			continue
		}
		// the names of the enclosing function: receiver, parameters, results, everything declared in it
		outer := c15Declared(fn.Body, nil)
		for _, fl := range []*ast.FieldList{fn.Recv, fn.Type.Params, fn.Type.Results} {
			if fl != nil {
				for _, fd := range fl.List {
					for _, id := range fd.Names {
						outer[id.Name] = true
					}
				}
			}
		}
		ast.Inspect(fn.Body, func(n ast.Node) bool {
			var body *ast.BlockStmt
			clause := map[string]bool{} // declared by the loop clause itself
			switch l := n.(type) {
			case *ast.ForStmt:
				body = l.Body
				if as, ok := l.Init.(*ast.AssignStmt); ok && as.Tok == token.DEFINE {
					for _, e := range as.Lhs {
						if id, ok := e.(*ast.Ident); ok {
							clause[id.Name] = true
						}
					}
				}
			case *ast.RangeStmt:
				body = l.Body
				if l.Tok == token.DEFINE {
					for _, e := range []ast.Expr{l.Key, l.Value} {
						if id, ok := e.(*ast.Ident); ok {
							clause[id.Name] = true
						}
					}
				}
			}
			if body == nil {
				return true
			}
			ast.Inspect(body, func(m ast.Node) bool {
				g, ok := m.(*ast.GoStmt)
				if !ok {
					return true
				}
				lit, ok := g.Call.Fun.(*ast.FuncLit)
				if !ok {
					return true
				}
				own := c15Declared(lit, nil)
				inLoop := c15Declared(body, lit)
				writes := c15Writes(body, lit)
				used := map[string]bool{}
				var sel map[*ast.Ident]bool = map[*ast.Ident]bool{}
				ast.Inspect(lit.Body, func(x ast.Node) bool {
					switch s := x.(type) {
					case *ast.SelectorExpr:
						sel[s.Sel] = true
					case *ast.KeyValueExpr:
						if id, ok := s.Key.(*ast.Ident); ok {
							sel[id] = true // a field name in a composite literal
						}
					case *ast.Ident:
						if !sel[s] && outer[s.Name] && !own[s.Name] {
							used[s.Name] = true
						}
					}
					return true
				})
				names := make([]string, 0, len(used))
				for nme := range used {
					names = append(names, nme)
				}
				sort.Strings(names)
				for _, nme := range names {
					per, w := inLoop[nme], writes[nme]
					if clause[nme] && !inLoop[nme] {
						per, w = loopVarsPerIteration, true
					}
					res = append(res, c15Capture{rel, fn.Name.Name, fset.Position(g.Pos()).Line, nme, per, w})
				}
				return false
			})
			return true
		})
	}
	return res
}

const c15FixtureSrc = `package fixture

func perIteration(r *R, cb func([]byte)) {
	for {
		var buf [4096]byte
		n, addr, err := r.t.ReadFrom(buf[:])
		if err != nil {
			return
		}
		go func() { // want addr:iter:w buf:iter:w cb:outer:- n:iter:w r:outer:-
			q, err := parse(buf[:n])
			_ = err
			cb(q)
			r.t.WriteTo(q, addr)
		}()
	}
}

func hoisted(r *R, cb func([]byte)) {
	var buf [4096]byte
	for {
		n, addr, err := r.t.ReadFrom(buf[:])
		if err != nil {
			return
		}
		go func() { // want addr:iter:w buf:outer:w cb:outer:- n:iter:w r:outer:-
			cb(buf[:n])
			r.t.WriteTo(nil, addr)
		}()
	}
}

func hoistedLength(r *R) {
	var n int
	for {
		var buf [4096]byte
		n, _, _ = r.t.ReadFrom(buf[:])
		go func() { // want buf:iter:w n:outer:w
			use(buf[:n])
		}()
	}
}

func ranged(l []int) {
	total := 0
	for i, v := range l {
		total += v
		go func() { // want i:iter:w total:outer:w v:iter:w
			use(i, v, total)
		}()
	}
}
`

func c15Fixtures() error {
	fset := token.NewFileSet()
	f, err := parser.ParseFile(fset, "fixture.go", c15FixtureSrc, parser.ParseComments)
	if err != nil {
		return err
	}
	want := map[int]string{}
	for _, cg := range f.Comments {
		for _, c := range cg.List {
			if i := strings.Index(c.Text, "want "); i >= 0 {
				want[fset.Position(c.Pos()).Line] = strings.TrimSpace(c.Text[i+5:])
			}
		}
	}
	got := map[int][]string{}
	for _, c := range c15Scan(fset, "fixture.go", f, true) {
		where, w := "outer", "-"
		if c.perIter {
			where = "iter"
		}
		if c.loopWrites {
			w = "w"
		}
		got[c.line] = append(got[c.line], c.name+":"+where+":"+w)
	}
	if len(want) < 4 {
		return fmt.Errorf("capture fixture lost its expectations")
	}
	for line, w := range want {
		if g := strings.Join(got[line], " "); g != w {
			return fmt.Errorf("capture analysis changed: fixture line %d wants %q, got %q", line, w, g)
		}
	}
	for line := range got {
		if _, ok := want[line]; !ok {
			return fmt.Errorf("capture analysis changed: go statement at fixture line %d carries no expectation", line)
		}
	}
	return nil
}

func TestVerifC15Gen(t *testing.T) {
	root := os.Getenv("VERIF_SCRATCH_REPO")
	if root == "" {
		root = "../../../.."
	}
	if err := c15Fixtures(); err != nil {
		t.Fatal(err)
	}
	// language version of the module
	perIter := false
	mod, err := os.ReadFile(filepath.Join(root, "go.mod"))
	if err != nil {
		t.Fatal(err)
	}
	for _, l := range strings.Split(string(mod), "\n") {
		var major, minor int
		if n, _ := fmt.Sscanf(strings.TrimSpace(l), "go %d.%d", &major, &minor); n == 2 {
			perIter = major > 1 || minor >= 22
		}
	}
	fset := token.NewFileSet()
	var caps []c15Capture
	files := 0
	for _, dir := range c15LoopDirs {
		ents, err := os.ReadDir(filepath.Join(root, dir))
		if err != nil {
			t.Fatal(err)
		}
		for _, ent := range ents {
			n := ent.Name()
			if ent.IsDir() || !strings.HasSuffix(n, ".go") || strings.HasSuffix(n, "_test.go") || strings.HasPrefix(n, "zz_verif") {
				continue
			}
			rel := filepath.Join(dir, n)
			f, err := parser.ParseFile(fset, filepath.Join(root, rel), nil, 0)
			if err != nil {
				t.Fatal(err)
			}
			files++
			caps = append(caps, c15Scan(fset, rel, f, perIter)...)
		}
	}
	sort.SliceStable(caps, func(i, j int) bool {
		if caps[i].file != caps[j].file {
			return caps[i].file < caps[j].file
		}
		if caps[i].line != caps[j].line {
			return caps[i].line < caps[j].line
		}
		return caps[i].name < caps[j].name
	})
	var b strings.Builder
	b.WriteString("/-! GENERATED by go/harness/C15/zz_verif_c15_gen_test.go from the tree under test; do not edit. -/\n")
	b.WriteString("namespace CJ.Gen.C15Loop\n\n")
	b.WriteString("/-- a variable of the enclosing function used by a `go func() { … }()` that is started inside a loop:\nwhere, in which function, its name, whether it is declared in the loop body (one variable per iteration)\nand whether the loop itself writes it (assigns it, slices it, takes its address) -/\nstructure Capture where\n  file : String\n  fn : String\n  name : String\n  perIteration : Bool\n  loopWrites : Bool\nderiving Repr, DecidableEq\n\n")
	fmt.Fprintf(&b, "def scannedFiles : Nat := %d\n\n/-- go.mod asks for Go >= 1.22: the variables of a for / range clause are per iteration -/\ndef loopVarsPerIteration : Bool := %v\n\n", files, perIter)
	b.WriteString("def captures : List Capture := [\n")
	for i, c := range caps {
		sep := ","
		if i == len(caps)-1 {
			sep = ""
		}
		fmt.Fprintf(&b, "  ⟨%q, %q, %q, %v, %v⟩%s\n", c.file, c.fn, c.name, c.perIter, c.loopWrites, sep)
	}
	b.WriteString("]\n\nend CJ.Gen.C15Loop\n")
	out := os.Getenv("VERIF_OUT")
	if out == "" {
		out = os.TempDir()
	}
	if err := os.WriteFile(filepath.Join(out, "C15Loop.lean"), []byte(b.String()), 0o644); err != nil {
		t.Fatal(err)
	}
}
