//go:build verif

package requester

// C15, the exchange with several requesters at once.
//
// The property's clause "the encrypted request/response exchange of the DNS registrar round-trips" is
// about every requester, also when k of them register at the same moment. Here k real Requesters
// (RequestAndRecv, their own DNSPacketConn on top of an in-memory datagram link each) send one request
// each; the k queries are collected and handed to the real responder.RecvAndRespond back to back - the
// receive loop never has to wait for a datagram, exactly like a socket whose buffer already holds k
// datagrams when the loop is scheduled - each from its own source address, and every response the
// responder writes goes to the requester that owns the address it is written to.
//
// Nothing depends on timing: the queries exist before the responder starts; the burst is over when the
// receive loop asks for datagram k+1 and no handler goroutine of RecvAndRespond is left (goroutine
// stacks); only then is it decided which requester must have an answer (one was written to its address)
// and which cannot have one.
//
// Oracle (computed from the harness' own bookkeeping, not from the model):
//   - the callback is given every request exactly once, and nothing else;
//   - every requester gets, without error, exactly the answer the callback returned for ITS request;
//   - every source address is written to exactly once.
//
// Dimensions: k = 1..32, the order in which the queries arrive (as sent / reversed / random), request
// and answer lengths (equal for all, or mixed incl. the extremes: mixed lengths make a datagram that is
// parsed out of another datagram's bytes end in the middle of a record or carry trailing bytes), and
// the scheduling regime: GOMAXPROCS(1) (the receive loop runs until it blocks, so all k handlers start
// after the k-th ReadFrom), all processors, and all processors with the handlers held back by a busy
// callback. TestVerifC15Race runs the same bursts under the race detector.

import (
	"bytes"
	"fmt"
	"io"
	golog "log"
	"net"
	"os"
	"runtime"
	"sort"
	"strconv"
	"strings"
	"sync"
	"testing"
	"time"

	"github.com/refraction-networking/conjure/internal/vlib"
	"github.com/refraction-networking/conjure/pkg/registrars/dns-registrar/dns"
	"github.com/refraction-networking/conjure/pkg/registrars/dns-registrar/encryption"
	"github.com/refraction-networking/conjure/pkg/registrars/dns-registrar/responder"
)

type burstAddr int

func (a burstAddr) Network() string { return "burst" }
func (a burstAddr) String() string  { return "requester-" + strconv.Itoa(int(a)) + ".mem" }

// burstServer: the responder's socket. All datagrams are there before the first ReadFrom.
type burstServer struct {
	mu       sync.Mutex
	queue    [][]byte
	from     []burstAddr
	next     int
	drained  chan struct{} // closed when the loop asks for a datagram behind the last one
	release  chan struct{} // closed by the harness: ReadFrom then ends the loop
	written  map[burstAddr][][]byte
	foreign  int // responses written to an address nobody has
	deliver  func(a burstAddr, p []byte)
	drainOne sync.Once
}

func (s *burstServer) ReadFrom(p []byte) (int, net.Addr, error) {
	s.mu.Lock()
	if s.next < len(s.queue) {
		i := s.next
		s.next++
		n := copy(p, s.queue[i])
		a := s.from[i]
		s.mu.Unlock()
		return n, a, nil
	}
	s.mu.Unlock()
	s.drainOne.Do(func() { close(s.drained) })
	<-s.release
	return 0, nil, io.EOF
}

func (s *burstServer) WriteTo(p []byte, addr net.Addr) (int, error) {
	a, ok := addr.(burstAddr)
	q := append([]byte(nil), p...)
	s.mu.Lock()
	if ok {
		s.written[a] = append(s.written[a], q)
	} else {
		s.foreign++
	}
	s.mu.Unlock()
	if ok {
		s.deliver(a, q)
	}
	return len(p), nil
}
func (s *burstServer) Close() error                       { return nil }
func (s *burstServer) LocalAddr() net.Addr                { return chanAddr{} }
func (s *burstServer) SetDeadline(t time.Time) error      { return nil }
func (s *burstServer) SetReadDeadline(t time.Time) error  { return nil }
func (s *burstServer) SetWriteDeadline(t time.Time) error { return nil }

// handlersRunning: goroutines that are inside a function literal of RecvAndRespond (the per-datagram handler)
func handlersRunning() int {
	buf := make([]byte, 1<<20)
	for {
		n := runtime.Stack(buf, true)
		if n < len(buf) {
			buf = buf[:n]
			break
		}
		buf = make([]byte, 2*len(buf))
	}
	c := 0
	for _, g := range strings.Split(string(buf), "\n\n") {
		if strings.Contains(g, ".RecvAndRespond.func") {
			c++
		}
	}
	return c
}

type burstSpec struct {
	mode  string // "pinned": GOMAXPROCS(1); "free": all processors; "held": all processors, callback spins a little
	order []int  // order[j] = index of the requester whose query arrives j-th
	reqs  [][]byte
	ans   [][]byte
}

func (b burstSpec) replay() string {
	hexes := func(l [][]byte) string {
		s := make([]string, len(l))
		for i, x := range l {
			s[i] = vlib.Hex(x)
		}
		return strings.Join(s, ",")
	}
	ord := make([]string, len(b.order))
	for i, o := range b.order {
		ord[i] = strconv.Itoa(o)
	}
	return fmt.Sprintf("burst|%s|%s|%s|%s", b.mode, strings.Join(ord, ","), hexes(b.reqs), hexes(b.ans))
}

// burst runs one burst and judges it. The returned strings are the observation in the vocabulary of the
// model: who got whose answer, and what the callback saw.
func (h *c15) burst(privkey []byte, domain string, b burstSpec) (failures int) {
	k := len(b.reqs)
	dom, _ := dns.ParseName(domain)
	pub := encryption.PubkeyFromPrivkey(privkey)
	replay := b.replay()
	fail := func(sig, what string) {
		failures++
		h.out.OracleFail(sig, fmt.Sprintf("%d requesters at once (%s): %s", k, b.mode, what), replay)
	}
	resp, err := responder.NewDnsResponder(domain, "127.0.0.1:0", privkey)
	if err != nil {
		fail("C15:exchange", "cannot make a responder: "+err.Error())
		return failures
	}
	_ = resp.Close() // the socket is not used
	index := map[string]int{}
	for i, p := range b.reqs {
		index[string(p)] = i
	}

	// 1. k requesters, one request each; collect the queries
	clients := make([]*chanConn, k)
	reqs := make([]*Requester, k)
	results := make([]chan c15Res, k)
	queries := make([][]byte, k)
	for i := 0; i < k; i++ {
		clients[i] = &chanConn{in: make(chan []byte, 8), out: make(chan []byte, 8), closed: make(chan struct{})}
		reqs[i] = &Requester{transport: NewDNSPacketConn(clients[i], chanAddr{}, dom), remoteAddr: chanAddr{}, pubkey: pub}
		results[i] = make(chan c15Res, 1)
		go func(i int) {
			r, err := reqs[i].RequestAndRecv(b.reqs[i])
			results[i] <- c15Res{r, err}
		}(i)
	}
	defer func() {
		for i := range reqs {
			closeReq(reqs[i])
			_ = clients[i].Close()
		}
	}()
	for i := 0; i < k; i++ {
		select {
		case q := <-clients[i].out:
			queries[i] = q
		case r := <-results[i]:
			fail("C15:exchange", fmt.Sprintf("requester %d returned before anything was sent (err=%v) for a %d-byte request", i, r.err, len(b.reqs[i])))
			return failures
		case <-time.After(15 * time.Second):
			fail("C15:exchange-never-completes", fmt.Sprintf("requester %d did not send its query within 15 s", i))
			return failures
		}
	}

	// 2. all of them are in the responder's socket before its loop starts
	srv := &burstServer{drained: make(chan struct{}), release: make(chan struct{}), written: map[burstAddr][][]byte{}}
	for _, i := range b.order {
		srv.queue = append(srv.queue, queries[i])
		srv.from = append(srv.from, burstAddr(i))
	}
	srv.deliver = func(a burstAddr, p []byte) {
		if int(a) < k {
			select {
			case clients[a].in <- p:
			default:
			}
		}
	}
	resp.VerifSetTransport(srv)
	var cbMu sync.Mutex
	var seen [][]byte
	callback := func(p []byte) ([]byte, error) {
		cbMu.Lock()
		seen = append(seen, append([]byte(nil), p...))
		cbMu.Unlock()
		if b.mode == "held" { // keep this handler busy while the loop and the other handlers go on
			x := 0
			for i := 0; i < 20000; i++ {
				x += i
			}
			_ = x
		}
		if i, ok := index[string(p)]; ok {
			return b.ans[i], nil
		}
		return []byte("answer to a request nobody made"), nil
	}
	old := 0
	if b.mode == "pinned" {
		old = runtime.GOMAXPROCS(1)
	}
	loopDone := make(chan struct{})
	go func() { _ = resp.RecvAndRespond(callback); close(loopDone) }()
	hang := false
	select {
	case <-srv.drained:
	case <-time.After(20 * time.Second):
		hang = true
	}
	for start := time.Now(); !hang && handlersRunning() > 0; {
		if time.Since(start) > 20*time.Second {
			hang = true
		}
		time.Sleep(200 * time.Microsecond)
	}
	if b.mode == "pinned" {
		runtime.GOMAXPROCS(old)
	}
	h.out.Checked()
	if hang {
		close(srv.release)
		fail("C15:exchange-never-completes", fmt.Sprintf("the responder had not dealt with %d queued queries after 20 s", k))
		return failures
	}

	// 3. who was written to, who got what
	srv.mu.Lock()
	written := map[burstAddr][][]byte{}
	for a, l := range srv.written {
		written[a] = l
	}
	foreign := srv.foreign
	srv.mu.Unlock()
	got := make([]string, k) // per requester: index of the request whose answer it received
	var wrong []string
	for i := 0; i < k; i++ {
		switch n := len(written[burstAddr(i)]); {
		case n == 0:
			got[i] = "none"
			wrong = append(wrong, fmt.Sprintf("requester %d: no response was written to its address", i))
			continue
		case n > 1:
			wrong = append(wrong, fmt.Sprintf("requester %d: %d responses were written to its address", i, n))
		}
		select {
		case r := <-results[i]:
			switch {
			case r.err != nil:
				got[i] = "undecodable"
				wrong = append(wrong, fmt.Sprintf("requester %d: the response it received does not decode (%v)", i, r.err))
			case bytes.Equal(r.b, b.ans[i]):
				got[i] = strconv.Itoa(i)
			default:
				got[i] = "other"
				for j := range b.ans {
					if bytes.Equal(r.b, b.ans[j]) {
						got[i] = strconv.Itoa(j)
					}
				}
				wrong = append(wrong, fmt.Sprintf("requester %d: received %d bytes that are not the answer to its request (answer of: %s)", i, len(r.b), got[i]))
			}
		case <-time.After(20 * time.Second):
			got[i] = "hang"
			wrong = append(wrong, fmt.Sprintf("requester %d: a response was written to its address but RequestAndRecv had not returned after 20 s", i))
		}
	}
	close(srv.release)
	<-loopDone
	if foreign > 0 {
		wrong = append(wrong, fmt.Sprintf("%d responses were written to addresses no query came from", foreign))
	}
	// the callback: every request exactly once
	cbMu.Lock()
	counts := make([]int, k)
	var cbs []string
	var cbWrong []string
	for _, p := range seen {
		if i, ok := index[string(p)]; ok {
			counts[i]++
			cbs = append(cbs, strconv.Itoa(i))
		} else {
			cbs = append(cbs, "other")
			cbWrong = append(cbWrong, fmt.Sprintf("the callback was given %d bytes that no requester sent", len(p)))
		}
	}
	cbMu.Unlock()
	for i, c := range counts {
		if c != 1 {
			cbWrong = append(cbWrong, fmt.Sprintf("the request of requester %d reached the callback %d times", i, c))
		}
	}
	sort.Strings(cbs)
	// correspondence: the model's receive loop under an arbitrary schedule of the same burst
	ord := make([]string, k)
	for j, i := range b.order {
		ord[j] = strconv.Itoa(i) + ":" + vlib.Hex([]byte{byte(i >> 8), byte(i)})
	}
	line := fmt.Sprintf("codec|recvloop|1|%s|%s", strings.Join(ord, ","), h.schedule(k))
	obs := make([]string, k)
	for i := range got {
		g := got[i]
		if j, err := strconv.Atoi(g); err == nil {
			g = vlib.Hex([]byte{byte(j >> 8), byte(j)})
		}
		obs[i] = strconv.Itoa(i) + ":" + g
	}
	for i, c := range cbs {
		if j, err := strconv.Atoi(c); err == nil {
			cbs[i] = vlib.Hex([]byte{byte(j >> 8), byte(j)})
		}
	}
	sort.Strings(cbs)
	h.out.Case(line, "sent "+strings.Join(obs, ",")+" seen "+strings.Join(cbs, ",")+" left 0/0", k > 1)
	h.out.Count("burst:" + b.mode)
	switch {
	case k == 1:
		h.out.Count("burst:k=1")
	case k <= 4:
		h.out.Count("burst:k=2..4")
	case k <= 16:
		h.out.Count("burst:k=5..16")
	default:
		h.out.Count("burst:k=17..32")
	}
	if len(cbWrong) > 0 {
		h.out.Count("burst:callback-wrong")
		fail("C15:concurrent-exchange-callback", strings.Join(cbWrong[:min(len(cbWrong), 4)], "; "))
	}
	if len(wrong) > 0 {
		h.out.Count("burst:response-wrong")
		fail("C15:concurrent-exchange-response", strings.Join(wrong[:min(len(wrong), 4)], "; "))
	}
	if len(wrong) == 0 && len(cbWrong) == 0 {
		h.out.Count("burst:ok")
	}
	return failures
}

// schedule: a random complete schedule of the model's receive loop for k datagrams: `r` = the loop
// receives the next datagram and starts its handler, `h<i>` = the i-th oldest unfinished handler runs
func (h *c15) schedule(k int) string {
	var s []string
	toRead, pending := k, 0
	for toRead > 0 || pending > 0 {
		if toRead > 0 && (pending == 0 || h.r.Chance(2, 3)) {
			s = append(s, "r")
			toRead--
			pending++
		} else {
			s = append(s, "h"+strconv.Itoa(h.r.Intn(pending)))
			pending--
		}
	}
	return strings.Join(s, " ")
}

// distinct requests: the index is part of the request, so that "whose request" is always decidable
func (h *c15) burstPayloads(k int, mixed bool, maxReq int) (reqs, ans [][]byte) {
	rl, al := 2+h.r.Intn(maxReq-1), h.r.Intn(300)
	for i := 0; i < k; i++ {
		if mixed {
			switch h.r.Intn(4) {
			case 0:
				rl = 2
			case 1:
				rl = maxReq
			default:
				rl = 2 + h.r.Intn(maxReq-1)
			}
			al = []int{0, 1, 17, 200, 254, 255, 256, 600, 900}[h.r.Intn(9)]
		}
		p := h.r.Bytes(rl)
		p[0], p[1] = byte(i), byte(k)
		a := h.r.Bytes(al + 2)
		a[0], a[1] = byte(i), 0xa5 // distinct answers, so that "whose answer" is decidable as well
		reqs, ans = append(reqs, p), append(ans, a)
	}
	return
}

func (h *c15) bursts(t *testing.T, privkey []byte, domain string, rounds int) {
	dom, _ := dns.ParseName(domain)
	maxFit := 0
	for requestFits(maxFit+1, dom) {
		maxFit++
	}
	modes := []string{"pinned", "free", "held"}
	n := 0
	one := func(k int, mode string, mixed bool, ordKind int) {
		reqs, ans := h.burstPayloads(k, mixed, maxFit)
		order := make([]int, k)
		for i := range order {
			switch ordKind {
			case 0:
				order[i] = i
			case 1:
				order[i] = k - 1 - i
			}
		}
		if ordKind == 2 {
			for i := range order {
				order[i] = i
			}
			for i := k - 1; i > 0; i-- {
				j := h.r.Intn(i + 1)
				order[i], order[j] = order[j], order[i]
			}
		}
		h.burst(privkey, domain, burstSpec{mode: mode, order: order, reqs: reqs, ans: ans})
		n++
	}
	// every k once in every regime, then random bursts
	for k := 1; k <= 32; k++ {
		for mi, mode := range modes {
			one(k, mode, (k+mi)%2 == 0, (k+mi)%3)
		}
	}
	for i := 0; i < rounds; i++ {
		one(1+h.r.Intn(32), modes[h.r.Intn(3)], h.r.Bool(), h.r.Intn(3))
	}
	h.out.Note(fmt.Sprintf("concurrent exchange: %d bursts of 1..32 requesters through the real RecvAndRespond (requests up to %d bytes)", n, maxFit))
}

func (h *c15) replayBurst(p []string) {
	// burst|<mode>|<order>|<requests>|<answers>
	if len(p) < 5 {
		return
	}
	var b burstSpec
	b.mode = p[1]
	for _, o := range strings.Split(p[2], ",") {
		i, _ := strconv.Atoi(o)
		b.order = append(b.order, i)
	}
	for _, x := range strings.Split(p[3], ",") {
		b.reqs = append(b.reqs, unhex(x))
	}
	for _, x := range strings.Split(p[4], ",") {
		b.ans = append(b.ans, unhex(x))
	}
	if len(b.order) != len(b.reqs) || len(b.ans) != len(b.reqs) {
		fmt.Println("replay: malformed burst line")
		return
	}
	priv, err := encryption.GeneratePrivkey()
	if err != nil {
		panic(err)
	}
	// the recorded regime first, then the others (the schedule of a free run is the machine's)
	for _, mode := range []string{b.mode, "pinned", "free", "held"} {
		b.mode = mode
		n := h.burst(priv, "t.example.com", b)
		fmt.Printf("replay: burst of %d requesters, %s: %d oracle failure(s)\n", len(b.reqs), mode, n)
	}
}

// TestVerifC15Race: the bursts alone, for the run under the race detector (plan entry with -race): an
// access to the receive buffer, the responder's fields or the Noise configuration that two datagrams'
// handlers share without synchronisation is reported by the detector and becomes an oracle failure.
func TestVerifC15Race(t *testing.T) {
	golog.SetOutput(io.Discard)
	out := vlib.Open("C15race")
	defer out.Close()
	h := &c15{out: out, r: vlib.NewRand("C15race")}
	priv, err := encryption.GeneratePrivkey()
	if err != nil {
		t.Fatal(err)
	}
	if rp := vlib.Replay(); rp != "" {
		h.replay(t, rp)
		if raw, _ := os.ReadFile(rp); bytes.Contains(raw, []byte("DATA RACE")) {
			// a report of the detector cannot be replayed as such: the bursts again, under the detector
			h.bursts(t, priv, "t.example.com", 5)
		}
		return
	}
	h.bursts(t, priv, "t.example.com", vlib.Budget(20, 300))
	// several encodings alive at once, from several goroutines, under the detector
	for round := 0; round < vlib.Budget(3, 30); round++ {
		h.alive(4)
	}
}
