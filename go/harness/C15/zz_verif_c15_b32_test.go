//go:build verif

package requester

// C15 growth: base32 inside the model (CJ/Model/Base32.lean, theorems CJ/Props/C15B32.lean).
//
// Lines (driver: CJ/Drv/Base32.lean):
//   b32|enc|<packet>            requester's base32Encoding.Encode                      -> text
//   b32|dec|<text>              responder's base32Encoding.Decode into DecodedLen bytes -> ok <bytes> / err
//   b32|len|<n>                 EncodedLen / DecodedLen
//   b32|qname|<packet>|<domain> DNSPacketConn.queryName                                -> ok <name> / err ...
//   b32|respfor|<query>|<domain>|<maxudp>   responder.responseFor, the decoder modelled (no table)
//
// Oracles (independent of the model): decode(encode(p)) = p, the text has EncodedLen(len p) characters of
// A-Z2-7 only, DecodedLen(EncodedLen n) = n; a canonical text (alphabet only, length mod 8 in {0,2,4,5,7},
// unused low bits of the last symbol zero - RFC 4648) re-encodes to itself; queryName accepts exactly the
// packets whose name fits by arithmetic on the packet length (ceil(8n/5) characters + one byte per started
// label + the domain <= 255); no panic on any text.

import (
	"bytes"
	"fmt"
	"strconv"
	"strings"
	"testing"

	"github.com/refraction-networking/conjure/internal/vlib"
	"github.com/refraction-networking/conjure/pkg/registrars/dns-registrar/dns"
	"github.com/refraction-networking/conjure/pkg/registrars/dns-registrar/encryption"
	"github.com/refraction-networking/conjure/pkg/registrars/dns-registrar/responder"
)

const b32Alphabet = "ABCDEFGHIJKLMNOPQRSTUVWXYZ234567"

// b32Canonical: is text an RFC 4648 unpadded base32 text (the only texts an encoder writes)?
func b32Canonical(text []byte) bool {
	for _, c := range text {
		if strings.IndexByte(b32Alphabet, c) < 0 {
			return false
		}
	}
	unused := map[int]int{0: 0, 2: 2, 4: 4, 5: 1, 7: 3} // symbols in the last quantum -> unused low bits
	u, ok := unused[len(text)%8]
	if !ok {
		return false
	}
	if u > 0 {
		v := strings.IndexByte(b32Alphabet, text[len(text)-1])
		if v&(1<<uint(u)-1) != 0 {
			return false
		}
	}
	return true
}

func (h *c15) b32Enc(p []byte) []byte {
	enc := make([]byte, base32Encoding.EncodedLen(len(p)))
	base32Encoding.Encode(enc, p)
	h.out.Case("b32|enc|"+vlib.Hex(p), vlib.Hex(enc), len(p) > 0)
	h.out.Checked()
	bad := ""
	for _, c := range enc {
		if strings.IndexByte(b32Alphabet, c) < 0 {
			bad = "a character outside A-Z2-7"
		}
	}
	if len(enc) != (8*len(p)+4)/5 {
		bad = "text length is not ceil(8n/5)"
	}
	dec := make([]byte, responder.VerifBase32Encoding.DecodedLen(len(enc)))
	n, err := responder.VerifBase32Encoding.Decode(dec, enc)
	if err != nil || !bytes.Equal(dec[:n], p) {
		bad = "the responder's decoder does not return the packet"
	}
	if len(dec) != len(p) {
		bad = "DecodedLen(EncodedLen(n)) != n"
	}
	if bad != "" {
		h.out.OracleFail("C15:base32-laws", "base32: "+bad, "b32|enc|"+vlib.Hex(p))
	}
	h.out.Count("b32enc:mod5=" + strconv.Itoa(len(p)%5))
	return enc
}

func (h *c15) b32Dec(text []byte, kind string) {
	line := "b32|dec|" + vlib.Hex(text)
	var out []byte
	var derr error
	ans := guard(func() string {
		dec := make([]byte, responder.VerifBase32Encoding.DecodedLen(len(text)))
		n, err := responder.VerifBase32Encoding.Decode(dec, text)
		if err != nil {
			derr = err
			return "err"
		}
		out = dec[:n]
		return "ok " + vlib.Hex(out)
	})
	h.out.Case(line, ans, derr == nil)
	h.out.Checked()
	if strings.HasPrefix(ans, "panic") {
		h.out.OracleFail("C15:decoder-panics:base32", "base32 Decode into DecodedLen bytes panics: "+ans, line)
		return
	}
	if b32Canonical(text) {
		if derr != nil {
			h.out.OracleFail("C15:base32-rejects-canonical", "a canonical base32 text is refused: "+derr.Error(), line)
		} else {
			re := make([]byte, base32Encoding.EncodedLen(len(out)))
			base32Encoding.Encode(re, out)
			if !bytes.Equal(re, text) {
				h.out.OracleFail("C15:base32-canonical", "a canonical text does not re-encode to itself", line)
			}
		}
		h.out.Count("b32dec:canonical")
	}
	res := "ok"
	if derr != nil {
		res = "err"
	}
	h.out.Count("b32dec:" + kind + ":" + res)
}

// b32Texts: mostly-valid texts with one thing wrong (or odd) at a time
func (h *c15) b32Texts(enc []byte) [][2]interface{} {
	var l [][2]interface{}
	add := func(kind string, t []byte) { l = append(l, [2]interface{}{kind, t}) }
	add("valid", enc)
	add("lower", bytes.ToLower(enc))
	for cut := 1; cut <= 8 && cut <= len(enc); cut++ { // ends inside a quantum: dangling symbols
		add("cut", enc[:len(enc)-cut])
	}
	for _, c := range []byte("A7B") { // one more symbol: 1, 3, 6 symbols in the last quantum give nothing
		add("dangling", append(append([]byte{}, enc...), c))
	}
	if len(enc) > 0 {
		pos := h.r.Intn(len(enc) + 1)
		for _, nl := range []byte{'\n', '\r'} {
			t := append(append(append([]byte{}, enc[:pos]...), nl), enc[pos:]...)
			add("newline", t)
		}
		add("newlines", bytes.Join(bytes.SplitAfter(enc, []byte{enc[0]}), []byte("\r\n")))
		// a byte of every class in place of a symbol
		for _, c := range []byte{'0', '1', '8', '9', '=', '-', '.', ' ', 0, '@', '[', '`', 'a', 'z', '{', 0x7f, 0x80, 0xfe, 0xff, byte(h.r.Intn(256))} {
			t := append([]byte{}, enc...)
			t[h.r.Intn(len(t))] = c
			add("foreign", t)
		}
		// last symbol with its unused bits set
		t := append([]byte{}, enc...)
		t[len(t)-1] = b32Alphabet[(strings.IndexByte(b32Alphabet, t[len(t)-1])|1)&31]
		add("lowbits", t)
	}
	// byte(NoPadding) = 0xFF as padding: j symbols, k pad bytes, sometimes something behind
	q := len(enc) / 8 * 8
	for j := 0; j <= 8; j++ {
		for _, k := range []int{1, 8 - j - 1, 8 - j, 8 - j + 1, 9} {
			if k < 0 || q+j > len(enc) {
				continue
			}
			t := append(append([]byte{}, enc[:q+j]...), bytes.Repeat([]byte{0xff}, k)...)
			add("ffpad", t)
			add("ffpad-more", append(append([]byte{}, t...), enc[:h.r.Intn(len(enc)+1)]...))
		}
	}
	return l
}

func wireLenOf(domain dns.Name) int {
	n := 1
	for _, l := range domain {
		n += 1 + len(l)
	}
	return n
}

func (h *c15) b32QueryName(p []byte, domain dns.Name) {
	line := fmt.Sprintf("b32|qname|%s|%s", vlib.Hex(p), showName(domain))
	c := &DNSPacketConn{domain: domain}
	var name dns.Name
	var err error
	ans := guard(func() string {
		name, err = c.queryName(p)
		if err != nil {
			return "err " + c15Err(err)
		}
		return "ok " + showName(name)
	})
	h.out.Case(line, ans, err == nil)
	h.out.Checked()
	chars := (8*len(p) + 4) / 5
	fits := chars+(chars+62)/63+wireLenOf(domain) <= 255
	for _, l := range domain {
		if len(l) == 0 || len(l) > 63 {
			fits = false
		}
	}
	switch {
	case strings.HasPrefix(ans, "panic"):
		h.out.OracleFail("C15:encoder-panics:queryname", "queryName panics: "+ans, line)
	case fits && err != nil:
		h.out.OracleFail("C15:query-rejects-representable", "queryName refuses a packet whose name fits by the capacity formula: "+err.Error(), line)
	case !fits && err == nil:
		h.out.OracleFail("C15:query-accepts-unrepresentable", "queryName accepts a packet whose name does not fit by the capacity formula", line)
	case err == nil:
		// the name carries the packet: its labels in front of the domain, joined, are the text in lower case
		pre, ok := name.TrimSuffix(domain)
		enc := make([]byte, base32Encoding.EncodedLen(len(p)))
		base32Encoding.Encode(enc, p)
		if !ok || !bytes.Equal(bytes.Join(pre, nil), bytes.ToLower(enc)) {
			h.out.OracleFail("C15:query-roundtrip", "the labels of queryName's name are not the base32 text of the packet", line)
		}
		for i, l := range pre {
			if len(l) > 63 || (i < len(pre)-1 && len(l) != 63) {
				h.out.OracleFail("C15:query-roundtrip", "queryName's labels are not 63-byte chunks", line)
			}
		}
	}
	h.out.Count(fmt.Sprintf("b32qname:fits=%v", fits))
}

// b32RespFor: the text as the data labels of a TXT query under the domain, through the real responseFor
func (h *c15) b32RespFor(resp *responder.Responder, domain dns.Name, text []byte) {
	for _, c := range text {
		if c >= 0x80 { // bytes.ToUpper is bytewise on ASCII only; other names are outside the model (coverage/C15.md)
			return
		}
	}
	labels := chunks(text, 1+h.r.Intn(63))
	name, err := dns.NewName(append(append([][]byte{}, labels...), domain...))
	if err != nil {
		return
	}
	q := &dns.Message{ID: uint16(h.r.Intn(65536)), Flags: 0x0100,
		Question:   []dns.Question{{Name: name, Type: dns.RRTypeTXT, Class: dns.ClassIN}},
		Additional: []dns.RR{{Name: dns.Name{}, Type: dns.RRTypeOPT, Class: 4096, TTL: 0, Data: []byte{}}}}
	line := fmt.Sprintf("b32|respfor|%s|%s|%d", showMsg(q), showName(domain), resp.VerifMaxUDPPayload())
	var payload []byte
	ans := guard(func() string {
		rmsg, pl := resp.VerifResponseFor(cloneMsg(q))
		if rmsg == nil {
			return "nil"
		}
		payload = pl
		s := "none"
		if pl != nil {
			s = vlib.Hex(pl)
		}
		return "resp " + showMsg(rmsg) + " " + s
	})
	h.out.Case(line, ans, payload != nil)
	h.out.Checked()
	if strings.HasPrefix(ans, "panic") {
		h.out.OracleFail("C15:decoder-panics:responsefor", "responseFor panics on a parsed query: "+ans, line)
	}
	h.out.Count(fmt.Sprintf("b32respfor:payload=%v", payload != nil))
}

// replayB32: one b32|… line of a replay file again
func (h *c15) replayB32(t *testing.T, p []string) {
	if len(p) < 3 {
		fmt.Println("replay: not a b32 case:", strings.Join(p, "|"))
		return
	}
	switch p[1] {
	case "enc":
		h.b32Enc(unhex(p[2]))
	case "dec":
		h.b32Dec(unhex(p[2]), "replay")
	case "qname":
		if len(p) < 4 {
			return
		}
		dom := dns.Name{}
		if p[3] != "@" {
			for _, l := range strings.Split(p[3], ".") {
				dom = append(dom, unhex(l))
			}
		}
		h.b32QueryName(unhex(p[2]), dom)
	case "respfor":
		// b32|respfor|hd|q|an|ns|ar|dom|maxudp: the data labels of the question as the text
		priv, err := encryption.GeneratePrivkey()
		if err != nil {
			t.Fatal(err)
		}
		resp, err := responder.NewDnsResponder("t.example.com", "127.0.0.1:0", priv)
		if err != nil {
			t.Fatal(err)
		}
		defer resp.Close()
		dom, _ := dns.ParseName("t.example.com")
		if q, err := parseMsgText(p[2:7]); err == nil && len(q.Question) == 1 {
			if pre, ok := q.Question[0].Name.TrimSuffix(dom); ok {
				h.b32RespFor(resp, dom, bytes.Join(pre, nil))
			}
		}
	default:
		fmt.Println("replay: unsupported b32 op", p[1])
	}
}

func (h *c15) base32s(resp *responder.Responder, domain dns.Name) {
	// lengths
	for n := 0; n <= 600; n++ {
		h.out.Case("b32|len|"+strconv.Itoa(n), fmt.Sprintf("%d %d", base32Encoding.EncodedLen(n), responder.VerifBase32Encoding.DecodedLen(n)), n > 0)
	}
	// encoder: every one-byte packet, every length 0..300, patterns, random
	var packets [][]byte
	for b := 0; b < 256; b++ {
		packets = append(packets, []byte{byte(b)})
	}
	for n := 0; n <= 300; n++ {
		packets = append(packets, h.r.Bytes(n))
	}
	for _, n := range []int{1, 2, 3, 4, 5, 6, 9, 10, 11, 40, 147, 148} {
		packets = append(packets, bytes.Repeat([]byte{0xff}, n), make([]byte, n), bytes.Repeat([]byte{0x0a}, n), bytes.Repeat([]byte{0x84, 0x21, 0x08, 0x42, 0x10}, n)[:n])
	}
	for i := vlib.Budget(300, 10000); i > 0; i-- {
		packets = append(packets, h.r.Bytes(h.r.Intn(12)))
	}
	for i := vlib.Budget(20, 400); i > 0; i-- {
		packets = append(packets, h.r.Bytes(300+h.r.Intn(3000)))
	}
	var encs [][]byte
	for _, p := range packets {
		e := h.b32Enc(p)
		if len(p) < 300 {
			encs = append(encs, e)
		}
	}
	// decoder: every byte value at every position of a short quantum, then the odd texts of a sample of encodings
	for c := 0; c < 256; c++ {
		h.b32Dec([]byte{byte(c)}, "one")
		h.b32Dec([]byte{byte(c), 'A'}, "two")
		h.b32Dec([]byte{'A', byte(c)}, "two")
		h.b32Dec([]byte{'M', 'F', byte(c)}, "three")
		h.b32Dec([]byte{'M', 'F', 'R', 'G', 'G', 'Z', 'D', byte(c)}, "eight")
		h.b32Dec([]byte{'M', 'F', 'R', 'G', 'G', 'Z', 'D', 'F', byte(c)}, "nine")
		h.b32Dec([]byte{'M', 'F', byte(c), 0xff, 0xff, 0xff, 0xff, 0xff}, "ffpad")
	}
	sample := vlib.Budget(60, 1000)
	for i := 0; i < sample; i++ {
		e := encs[h.r.Intn(len(encs))]
		if i < 12 {
			e = encs[256+i] // the packets of 0..11 bytes: every tail length twice
		}
		for _, kt := range h.b32Texts(e) {
			t := kt[1].([]byte)
			h.b32Dec(t, kt[0].(string))
			if len(t) <= 200 && h.r.Chance(1, 2) {
				h.b32RespFor(resp, domain, t)
			}
		}
	}
	for i := vlib.Budget(300, 6000); i > 0; i-- { // soup over a small alphabet
		t := make([]byte, h.r.Intn(20))
		for j := range t {
			t[j] = "AB7Zaz2\n\r\xff=0"[h.r.Intn(12)]
		}
		h.b32Dec(t, "soup")
		if i%3 == 0 {
			h.b32RespFor(resp, domain, t)
		}
	}
	for i := vlib.Budget(100, 2000); i > 0; i-- {
		h.b32Dec(h.r.Bytes(h.r.Intn(24)), "random")
	}
	// the name of a packet: every length around the capacity of four domains (root, the harness's, a long one, one
	// whose labels NewName refuses)
	long := dns.Name{bytes.Repeat([]byte("x"), 63), bytes.Repeat([]byte("y"), 63), []byte("example"), []byte("com")}
	doms := []dns.Name{domain, {}, long, {[]byte("a"), bytes.Repeat([]byte("z"), 64)}, {[]byte("test")}}
	for _, d := range doms {
		for n := 0; n <= 170; n++ {
			if n > 12 && n < 60 && n%7 != 0 {
				continue
			}
			h.b32QueryName(h.r.Bytes(n), d)
		}
	}
}
