//go:build verif

package dns

import "bytes"

// VerifReadName exposes readName for the C15/C11 harness (exists only in the scratch copy):
// the name read at offset pos of buf and the reader's position afterwards.
func VerifReadName(buf []byte, pos int) (Name, int, error) {
	r := bytes.NewReader(buf)
	if _, err := r.Seek(int64(pos), 0); err != nil {
		return nil, 0, err
	}
	name, err := readName(r)
	if err != nil {
		return nil, 0, err
	}
	at, _ := r.Seek(0, 1)
	return name, int(at), nil
}
