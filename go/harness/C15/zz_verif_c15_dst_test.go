//go:build verif

package requester

// C15, destination state as a dimension of every decoder that writes into something the caller supplies.
//
// "Decoding an encoded value yields the original value" has to hold whatever the destination held before:
// a decoder's result is a function of the encoded value alone. In the registration channels the decoders
// with a caller-supplied destination are
//   - transports.UnmarshalAnypbTo(src, dst): the URL-less packing of transport parameters (every ParseParams
//     of the transports, the station's ingest and the registrars go through it);
//   - the Read-like end of the requester's packet queue, QueuePacketConn.ReadFrom(p) (RequestAndRecv hands it
//     its receive buffer).
// Everything else (msgformat, the DNS message reader, TXT, the obfuscators, the frame decoders) returns a
// fresh value and has no destination to depend on.
//
// For UnmarshalAnypbTo: four destination message types x a set of values per type (the empty message, the
// message with every field set - sub-messages, repeated fields and enums included, generated from the
// message descriptors -, random subsets of the fields) x every ordered pair (A, B) of them x three spellings
// of the type URL: B is decoded into a destination that holds A - as the real sequence "decode A into a fresh
// message, then decode B into the same message", and into a pre-populated literal. Oracle: the destination
// equals B afterwards (proto.Equal), in particular when B is the empty message (encoded as no bytes at all)
// or carries fewer fields than A. Every case is also answered by the Lean model (codec|anyinto), which gets
// the fields of A and of B and must return the fields found in the destination.

import (
	"bytes"
	"fmt"
	"sort"
	"strings"

	"github.com/refraction-networking/conjure/internal/vlib"
	"github.com/refraction-networking/conjure/pkg/registrars/dns-registrar/queuepacketconn"
	"github.com/refraction-networking/conjure/pkg/transports"
	pb "github.com/refraction-networking/conjure/proto"
	"google.golang.org/protobuf/proto"
	"google.golang.org/protobuf/reflect/protoreflect"
	"google.golang.org/protobuf/types/known/anypb"
)

// fill sets fields of m: every field (all = true) or each with probability 1/2
func (h *c15) fill(m protoreflect.Message, all bool, depth int) {
	fds := m.Descriptor().Fields()
	for i := 0; i < fds.Len(); i++ {
		fd := fds.Get(i)
		if !all && fd.Cardinality() != protoreflect.Required && h.r.Bool() {
			continue // required fields are always set: the decoder refuses a message without them
		}
		if fd.ContainingOneof() != nil && !fd.HasOptionalKeyword() && m.WhichOneof(fd.ContainingOneof()) != nil {
			continue // one member of a real oneof is enough
		}
		scalar := func() (protoreflect.Value, bool) {
			switch fd.Kind() {
			case protoreflect.BoolKind:
				return protoreflect.ValueOfBool(true), true
			case protoreflect.Int32Kind, protoreflect.Sint32Kind, protoreflect.Sfixed32Kind:
				return protoreflect.ValueOfInt32(int32(1 + h.r.Intn(1000))), true
			case protoreflect.Int64Kind, protoreflect.Sint64Kind, protoreflect.Sfixed64Kind:
				return protoreflect.ValueOfInt64(int64(1 + h.r.Intn(100000))), true
			case protoreflect.Uint32Kind, protoreflect.Fixed32Kind:
				return protoreflect.ValueOfUint32(uint32(1 + h.r.Intn(70000))), true
			case protoreflect.Uint64Kind, protoreflect.Fixed64Kind:
				return protoreflect.ValueOfUint64(uint64(1 + h.r.Intn(1<<30))), true
			case protoreflect.FloatKind:
				return protoreflect.ValueOfFloat32(1.5), true
			case protoreflect.DoubleKind:
				return protoreflect.ValueOfFloat64(2.5), true
			case protoreflect.StringKind:
				return protoreflect.ValueOfString(fmt.Sprintf("s%d", h.r.Intn(1000))), true
			case protoreflect.BytesKind:
				return protoreflect.ValueOfBytes(h.r.Bytes(1 + h.r.Intn(12))), true
			case protoreflect.EnumKind:
				vals := fd.Enum().Values()
				return protoreflect.ValueOfEnum(vals.Get(h.r.Intn(vals.Len())).Number()), true
			}
			return protoreflect.Value{}, false
		}
		switch {
		case fd.IsMap():
			continue
		case fd.IsList():
			l := m.Mutable(fd).List()
			for k := 1 + h.r.Intn(2); k > 0; k-- {
				if fd.Kind() == protoreflect.MessageKind || fd.Kind() == protoreflect.GroupKind {
					if depth < 2 {
						e := l.NewElement()
						h.fill(e.Message(), all, depth+1)
						l.Append(e)
					}
				} else if v, ok := scalar(); ok {
					l.Append(v)
				}
			}
		case fd.Kind() == protoreflect.MessageKind || fd.Kind() == protoreflect.GroupKind:
			if depth < 2 {
				h.fill(m.Mutable(fd).Message(), all, depth+1)
			}
		default:
			if v, ok := scalar(); ok {
				m.Set(fd, v)
			}
		}
	}
}

// fieldsOf: the populated fields of m in the model's vocabulary: number:encoding, ascending
func fieldsOf(m proto.Message) string {
	type ent struct {
		n int
		s string
	}
	var l []ent
	m.ProtoReflect().Range(func(fd protoreflect.FieldDescriptor, v protoreflect.Value) bool {
		one := m.ProtoReflect().New()
		one.Set(fd, v)
		b, err := proto.MarshalOptions{Deterministic: true}.Marshal(one.Interface())
		if err != nil {
			b = []byte("unmarshalable")
		}
		l = append(l, ent{int(fd.Number()), fmt.Sprintf("%d:%s", fd.Number(), vlib.Hex(b))})
		return true
	})
	sort.Slice(l, func(i, j int) bool { return l[i].n < l[j].n })
	s := make([]string, len(l))
	for i := range l {
		s[i] = l[i].s
	}
	return strings.Join(s, ",")
}

func (h *c15) destinations() {
	types := []proto.Message{&pb.GenericTransportParams{}, &pb.PrefixTransportParams{}, &pb.DTLSTransportParams{}, &pb.ClientToStation{}}
	for _, t := range types {
		name := string(t.ProtoReflect().Descriptor().Name())
		// the values: empty, everything set, random subsets; plus the hand-written ones of the seeds' family
		var vals []proto.Message
		vals = append(vals, t.ProtoReflect().New().Interface())
		full := t.ProtoReflect().New()
		h.fill(full, true, 0)
		vals = append(vals, full.Interface())
		for i := 0; i < 5; i++ {
			m := t.ProtoReflect().New()
			h.fill(m, false, 0)
			vals = append(vals, m.Interface())
		}
		if _, ok := t.(*pb.PrefixTransportParams); ok {
			tr, pid, fl := true, int32(3), int32(2)
			vals = append(vals, &pb.PrefixTransportParams{PrefixId: &pid, Prefix: []byte("GET / HTTP/1.1\r\n"), CustomFlushPolicy: &fl},
				&pb.PrefixTransportParams{RandomizeDstPort: &tr})
		}
		exp, err := anypb.New(t)
		if err != nil {
			panic(err)
		}
		urls := []string{"", exp.TypeUrl, strings.ReplaceAll(exp.TypeUrl, "proto.", "tapdance.")}
		for ai, a := range vals {
			for bi, b := range vals {
				valueB, err := proto.Marshal(b)
				if err != nil {
					panic(err)
				}
				for ui, u := range urls {
					// the destination holds A: by decoding A into a fresh message first (the sequence), or as a literal
					dst := t.ProtoReflect().New().Interface()
					how := "sequence"
					if ui == 0 {
						valueA, _ := proto.Marshal(a)
						if err := transports.UnmarshalAnypbTo(&anypb.Any{Value: valueA}, dst); err != nil || !proto.Equal(dst, a) {
							h.out.Checked()
							h.out.OracleFail("C15:any-roundtrip", fmt.Sprintf("%s: a value decoded into a fresh message does not come back (err=%v)", name, err),
								fmt.Sprintf("codec|anyinto|-|%s|%s||%s", hx(valueA), exp.TypeUrl, fieldsOf(a)))
							continue
						}
					} else {
						dst = proto.Clone(a)
						how = "pre-populated"
					}
					prior := fieldsOf(dst)
					su := u
					if su == "" {
						su = "-"
					}
					line := fmt.Sprintf("codec|anyinto|%s|%s|%s|%s|%s", su, hx(valueB), exp.TypeUrl, prior, fieldsOf(b))
					ans := guard(func() string {
						if err := transports.UnmarshalAnypbTo(&anypb.Any{TypeUrl: u, Value: append([]byte(nil), valueB...)}, dst); err != nil {
							k := c15Err(err)
							if strings.HasPrefix(k, "other:") {
								k = "unmarshal"
							}
							return "err " + k
						}
						f := fieldsOf(dst)
						if f == "" {
							f = "-"
						}
						return "ok " + f
					})
					h.out.Case(line, ans, ai != bi)
					h.out.Checked()
					h.out.Count("dst:any:" + how)
					if !strings.HasPrefix(ans, "ok ") || !proto.Equal(dst, b) {
						h.out.OracleFail("C15:decoder-depends-on-destination:any",
							fmt.Sprintf("%s: value #%d decoded into a destination that held value #%d (%s) does not come back: %s; wanted the fields %q", name, bi, ai, how, ans, fieldsOf(b)), line)
					}
				}
			}
			// bytes that are no message of this type, into the populated destination: an error, whatever it held
			dst := proto.Clone(a)
			garbage := append(h.r.Bytes(h.r.Range(1, 12)), 0xff)
			decoded := "FAIL"
			if probe := t.ProtoReflect().New().Interface(); proto.Unmarshal(garbage, probe) == nil {
				decoded = fieldsOf(probe)
			}
			line := fmt.Sprintf("codec|anyinto|-|%s|%s|%s|%s", hx(garbage), exp.TypeUrl, fieldsOf(dst), decoded)
			ans := guard(func() string {
				if err := transports.UnmarshalAnypbTo(&anypb.Any{Value: garbage}, dst); err != nil {
					return "err unmarshal"
				}
				f := fieldsOf(dst)
				if f == "" {
					f = "-"
				}
				return "ok " + f
			})
			h.out.Case(line, ans, false)
			h.out.Count("dst:any:garbage")
		}
	}

	// the Read-like decoder: a packet read into a buffer that is not pristine
	q := queuepacketconn.NewQueuePacketConn(queuepacketconn.DummyAddr{}, 0)
	defer q.Close()
	for _, plen := range []int{0, 1, 2, 100, 1231, 4096, 5000} {
		for _, blen := range []int{0, 1, plen - 1, plen, plen + 1, 4096} {
			if blen < 0 {
				continue
			}
			for _, fillKind := range []int{0, 1, 2} {
				pkt := h.r.Bytes(plen)
				buf := make([]byte, blen)
				switch fillKind {
				case 1:
					for i := range buf {
						buf[i] = 0xaa
					}
				case 2:
					copy(buf, h.r.Bytes(blen)) // what an earlier, longer packet left behind
				}
				q.QueueIncoming(pkt, queuepacketconn.DummyAddr{})
				n, _, err := q.ReadFrom(buf)
				want := plen
				if blen < want {
					want = blen
				}
				h.out.Checked()
				h.out.Count("dst:readfrom")
				if err != nil || n != want || !bytes.Equal(buf[:n], pkt[:want]) {
					h.out.OracleFail("C15:decoder-depends-on-destination:readfrom",
						fmt.Sprintf("ReadFrom of a %d-byte packet into a %d-byte buffer (prior content kind %d): n=%d err=%v, or the bytes differ", plen, blen, fillKind, n, err),
						fmt.Sprintf("dstread|%d|%d|%d", plen, blen, fillKind))
				}
			}
		}
	}
}
