//go:build verif

package requester

// Two dimensions of C15 that a single encode/decode pair never visits.
//
// (1) Several encodings alive at once. Every encoder of the property is called k times, the k results
// are all kept as the encoder returned them (no copy), and only then - or interleaved with further
// encoder calls, in every order for short histories - handed to the decoder. After every single call
// everything held so far (inputs, encodings, decoded values) must still be what it was when it was
// returned; decode(held encoding j) must be value j; the randomised obfuscators must have produced
// pairwise distinct encodings of one tag that are still distinct when all are held. The same from
// several goroutines at once (under -race in TestVerifC15Race). Each history is a correspondence case
// for CJ/Model/Alive.lean (encoders take their output object fresh; `D j` answers value j).
//
// (2) What the DNS path may do to a query name between requester and responder: DNS names compare
// case-insensitively and resolvers rewrite the letter case of QNAME (0x20 randomisation, normalisation).
// The responder must extract the same packet from every casing (recased), and the whole exchange must
// complete through a case-rewriting hop (recaseQuery, links mem-recase<kind> in exchanges()).

import (
	"bytes"
	"fmt"
	"strings"
	"sync"
	"testing"

	"github.com/refraction-networking/conjure/internal/vlib"
	"github.com/refraction-networking/conjure/pkg/registrars/dns-registrar/dns"
	"github.com/refraction-networking/conjure/pkg/registrars/dns-registrar/encryption"
	"github.com/refraction-networking/conjure/pkg/registrars/dns-registrar/msgformat"
	"github.com/refraction-networking/conjure/pkg/registrars/dns-registrar/responder"
	"github.com/refraction-networking/conjure/pkg/transports"
)

// ---------------------------------------------------------------------------------------------
// (2) letter case of the query name

const recaseKinds = 6

var recaseKindName = [recaseKinds]string{"upper", "0x20", "alternating", "data-upper", "domain-upper", "one-label"}

func flipTo(b byte, upper bool) byte {
	switch {
	case upper && 'a' <= b && b <= 'z':
		return b - 32
	case !upper && 'A' <= b && b <= 'Z':
		return b + 32
	}
	return b
}

// recaseName: name in another letter case (a fresh name; only ASCII letters change, as on a DNS path)
func (h *c15) recaseName(name dns.Name, ndomain int, kind int) dns.Name {
	out := make(dns.Name, len(name))
	one := 0
	if len(name) > 0 {
		one = h.r.Intn(len(name))
	}
	k := 0
	for i, l := range name {
		nl := append([]byte{}, l...)
		inDomain := i >= len(name)-ndomain
		for j := range nl {
			k++
			switch kind {
			case 0:
				nl[j] = flipTo(nl[j], true)
			case 1:
				nl[j] = flipTo(nl[j], h.r.Bool())
			case 2:
				nl[j] = flipTo(nl[j], k%2 == 0)
			case 3:
				if !inDomain {
					nl[j] = flipTo(nl[j], true)
				}
			case 4:
				if inDomain {
					nl[j] = flipTo(nl[j], true)
				}
			case 5:
				if i == one {
					nl[j] = flipTo(nl[j], true)
				}
			}
		}
		out[i] = nl
	}
	return out
}

// recaseQuery: what a case-rewriting resolver does to a query datagram: the (uncompressed) question
// name at offset 12 in another case, everything else as it was. The domain of the links has 3 labels.
func (h *c15) recaseQuery(d []byte, kind int) []byte {
	if len(d) < 13 || d[4] != 0 || d[5] != 1 {
		return d
	}
	var name dns.Name
	var at []int
	for p := 12; p < len(d); {
		n := int(d[p])
		if n == 0 {
			break
		}
		if n >= 64 || p+1+n > len(d) {
			return d
		}
		name = append(name, d[p+1:p+1+n])
		at = append(at, p+1)
		p += 1 + n
	}
	re := h.recaseName(name, 3, kind)
	for i := range re {
		copy(d[at[i]:], re[i])
	}
	return d
}

// recased: the responder on the query of packet p with the name in every kind of other case
func (h *c15) recased(resp *responder.Responder, domain dns.Name, q *dns.Message, p []byte) {
	for kind := 0; kind < recaseKinds; kind++ {
		m := cloneMsg(q)
		m.Question[0].Name = h.recaseName(q.Question[0].Name, len(domain), kind)
		_, pl := h.respFor(resp, m, domain)
		h.out.Checked()
		if !bytes.Equal(pl, p) && !(len(p) == 0 && len(pl) == 0) {
			h.out.OracleFail("C15:query-roundtrip-recased-name", fmt.Sprintf("responder extracted %d bytes (nil=%v) from the query of a %d-byte packet whose name arrived in another letter case (%s)", len(pl), pl == nil, len(p), recaseKindName[kind]),
				fmt.Sprintf("codec|recase|%s", vlib.Hex(p)))
		}
		h.out.Count("query:recased-" + recaseKindName[kind])
	}
}

func (h *c15) replayRecase(t *testing.T, p []byte) {
	priv, err := encryption.GeneratePrivkey()
	if err != nil {
		t.Fatal(err)
	}
	resp, err := responder.NewDnsResponder("t.example.com", "127.0.0.1:0", priv)
	if err != nil {
		t.Fatal(err)
	}
	defer resp.Close()
	domain, _ := dns.ParseName("t.example.com")
	conn := &captureConn{}
	c := &DNSPacketConn{domain: domain}
	if err := c.send(conn, p); err != nil || len(conn.wrote) != 1 {
		fmt.Println("replay: send refuses the packet:", err)
		return
	}
	q, perr := dns.MessageFromWireFormat(conn.wrote[0])
	if perr != nil || len(q.Question) != 1 {
		fmt.Println("replay: the query does not parse:", perr)
		return
	}
	h.recased(resp, domain, &q, p)
	fmt.Printf("replay: %d-byte packet, query name in %d kinds of letter case: checked\n", len(p), recaseKinds)
}

// ---------------------------------------------------------------------------------------------
// (1) several encodings alive at once

type aliveCodec struct {
	name   string
	random bool                                     // randomised encoder: encodings of one value differ
	gen    func(i, size int) interface{}            // value number i of a history (pairwise distinct)
	enc    func(x interface{}) (interface{}, error) // the real encoder's result as returned
	dec    func(e interface{}) (interface{}, error) // the real decoder's result as returned
}

// aliveShow: canonical deep snapshot of whatever a codec takes or returns
func aliveShow(v interface{}) string {
	switch x := v.(type) {
	case nil:
		return "nil"
	case []byte:
		return "b:" + vlib.Hex(x)
	case dns.Name:
		return "n:" + showName(x)
	case *dns.Message:
		if x == nil {
			return "m:nil"
		}
		return "m:" + showMsg(x)
	case string:
		return "s:" + x
	}
	return fmt.Sprintf("?%T", v)
}

type aliveHeld struct {
	kind string // input / encoding / decoded
	idx  int
	v    interface{}
	snap string
}

type aliveOp struct {
	enc bool
	j   int // decode: the encoding returned by the j-th encoder call
}

func showOps(ops []aliveOp) string {
	s := make([]string, len(ops))
	for i, o := range ops {
		if o.enc {
			s[i] = "E"
		} else {
			s[i] = fmt.Sprintf("D%d", o.j)
		}
	}
	return strings.Join(s, ",")
}

var aliveReported = map[string]int{}
var aliveMu sync.Mutex

func (h *c15) aliveFail(sig, what, replay string) {
	aliveMu.Lock()
	aliveReported[sig]++
	n := aliveReported[sig]
	aliveMu.Unlock()
	if n <= 4 { // vlib keeps a bounded number of reports: do not crowd out other signatures
		h.out.OracleFail(sig, what, replay)
	}
}

// aliveRun: one history on one codec. Returns the answers of the decode operations (which value came
// out: its number, `x` for none of them, `err`).
func (h *c15) aliveRun(c aliveCodec, xs []interface{}, ops []aliveOp, replay string) []string {
	var held []*aliveHeld
	var encs []interface{}
	var answers []string
	hold := func(kind string, idx int, v interface{}) {
		held = append(held, &aliveHeld{kind, idx, v, aliveShow(v)})
	}
	audit := func(after string) {
		for _, x := range held {
			h.out.Checked()
			if now := aliveShow(x.v); now != x.snap {
				h.aliveFail("C15:held-"+x.kind+"-changed-by-later-call:"+c.name,
					fmt.Sprintf("%s: the %s of value %d, kept by the caller, is no longer what was returned after %s (history %s)", c.name, x.kind, x.idx, after, showOps(ops)), replay)
				x.snap = now
			}
		}
	}
	next := 0
	for _, o := range ops {
		if o.enc {
			if next >= len(xs) {
				break
			}
			x := xs[next]
			hold("input", next, x)
			e, err := c.enc(x)
			if err != nil {
				h.aliveFail("C15:encoder-rejects-representable:"+c.name, fmt.Sprintf("%s: the encoder refuses value %d of a history: %v", c.name, next, err), replay)
				return nil
			}
			encs = append(encs, e)
			audit(fmt.Sprintf("encoder call %d", next))
			hold("encoding", next, e)
			next++
			continue
		}
		if o.j >= len(encs) {
			continue
		}
		d, err := c.dec(encs[o.j])
		audit(fmt.Sprintf("decoding encoding %d", o.j))
		ans := "x"
		if err != nil {
			ans = "err"
		} else {
			ds := aliveShow(d)
			for i := 0; i < next; i++ {
				if aliveShow(xs[i]) == ds {
					ans = fmt.Sprint(i)
					break
				}
			}
			hold("decoded", o.j, d)
		}
		h.out.Checked()
		if ans != fmt.Sprint(o.j) {
			h.aliveFail("C15:roundtrip-among-held-encodings:"+c.name,
				fmt.Sprintf("%s: decoding the encoding of value %d, kept while other values were encoded, yields %s (history %s)", c.name, o.j, map[bool]string{true: "an error: " + fmt.Sprint(err), false: "value " + ans}[err != nil], showOps(ops)), replay)
		}
		answers = append(answers, ans)
	}
	return answers
}

// aliveHistories: every history of at most maxLen operations (E = encode the next value, Dj = decode
// the encoding that call j returned)
func aliveHistories(maxLen int) [][]aliveOp {
	var out [][]aliveOp
	var rec func(cur []aliveOp, nenc int)
	rec = func(cur []aliveOp, nenc int) {
		if len(cur) > 0 {
			out = append(out, append([]aliveOp(nil), cur...))
		}
		if len(cur) == maxLen {
			return
		}
		rec(append(cur, aliveOp{enc: true}), nenc+1)
		for j := 0; j < nenc; j++ {
			rec(append(cur, aliveOp{j: j}), nenc)
		}
	}
	rec(nil, 0)
	return out
}

func (h *c15) aliveCodecs() []aliveCodec {
	bytesGen := func(min, max int) func(i, size int) interface{} {
		return func(i, size int) interface{} {
			n := size
			if n <= 0 {
				n = h.r.Range(min, max)
			}
			if n < min {
				n = min
			}
			if n > max {
				n = max
			}
			b := h.r.Bytes(n)
			if n > 0 {
				b[0] = byte(i)
			}
			return b
		}
	}
	kp := h.keypair()
	obf := func(name string, o transports.Obfuscator, random bool, min int) aliveCodec {
		return aliveCodec{name: name, random: random, gen: bytesGen(min, 120),
			enc: func(x interface{}) (interface{}, error) { return o.Obfuscate(x.([]byte), kp.pub) },
			dec: func(e interface{}) (interface{}, error) { return o.TryReveal(e.([]byte), kp.priv) }}
	}
	domain, _ := dns.ParseName("t.example.com")
	priv, _ := encryption.GeneratePrivkey()
	resp, rerr := responder.NewDnsResponder("t.example.com", "127.0.0.1:0", priv)
	if rerr == nil {
		_ = resp.Close()
	}
	// the response the responder builds for a real query (its question is what the answer names)
	var rmsg *dns.Message
	if rerr == nil {
		conn := &captureConn{}
		if err := (&DNSPacketConn{domain: domain}).send(conn, []byte{1, 2, 3}); err == nil && len(conn.wrote) == 1 {
			if q, err := dns.MessageFromWireFormat(conn.wrote[0]); err == nil {
				rmsg, _ = resp.VerifResponseFor(&q)
			}
		}
	}
	cs := []aliveCodec{
		obf("nil", transports.NilObfuscator{}, false, 1),
		obf("xor", transports.XORObfuscator{}, true, 4),
		obf("ctr", transports.CTRObfuscator{}, true, 1),
		obf("gcm", transports.GCMObfuscator{}, true, 1),
		{name: "reqframe", gen: bytesGen(1, 255),
			enc: func(x interface{}) (interface{}, error) { return msgformat.AddRequestFormat(x.([]byte)) },
			dec: func(e interface{}) (interface{}, error) { return msgformat.RemoveRequestFormat(e.([]byte)) }},
		{name: "respframe", gen: bytesGen(1, 700),
			enc: func(x interface{}) (interface{}, error) { return msgformat.AddResponseFormat(x.([]byte)) },
			dec: func(e interface{}) (interface{}, error) { return msgformat.RemoveResponseFormat(e.([]byte)) }},
		{name: "txt", gen: bytesGen(1, 600),
			enc: func(x interface{}) (interface{}, error) { return dns.EncodeRDataTXT(x.([]byte)), nil },
			dec: func(e interface{}) (interface{}, error) { return dns.DecodeRDataTXT(e.([]byte)) }},
		{name: "message",
			gen: func(i, size int) interface{} {
				for {
					m := h.randMsg()
					m.ID = uint16(i)
					if ok, _ := msgSpecValid(m); !ok {
						continue
					}
					if _, err := cloneMsg(m).WireFormat(); err == nil {
						return m
					}
				}
			},
			enc: func(x interface{}) (interface{}, error) { return x.(*dns.Message).WireFormat() },
			dec: func(e interface{}) (interface{}, error) {
				m, err := dns.MessageFromWireFormat(e.([]byte))
				return &m, err
			}},
		{name: "query", gen: bytesGen(1, 100),
			enc: func(x interface{}) (interface{}, error) {
				conn := &rawCaptureConn{}
				if err := (&DNSPacketConn{domain: domain}).send(conn, x.([]byte)); err != nil {
					return nil, err
				}
				if len(conn.wrote) != 1 {
					return nil, fmt.Errorf("send wrote %d datagrams", len(conn.wrote))
				}
				return conn.wrote[0], nil
			},
			dec: func(e interface{}) (interface{}, error) {
				q, err := dns.MessageFromWireFormat(e.([]byte))
				if err != nil {
					return nil, err
				}
				if resp == nil {
					return nil, fmt.Errorf("no responder")
				}
				_, payload := resp.VerifResponseFor(&q)
				if payload == nil {
					return nil, fmt.Errorf("no payload")
				}
				return payload, nil
			}},
	}
	if rmsg != nil {
		cs = append(cs, aliveCodec{name: "response", gen: bytesGen(1, 700),
			enc: func(x interface{}) (interface{}, error) { return resp.VerifDNSRespToUDPResp(cloneMsg(rmsg), x.([]byte)) },
			dec: func(e interface{}) (interface{}, error) {
				m, err := dns.MessageFromWireFormat(e.([]byte))
				if err != nil {
					return nil, err
				}
				p := dnsResponsePayload(&m, domain)
				if p == nil {
					return nil, fmt.Errorf("no payload")
				}
				return p, nil
			}})
	}
	return cs
}

// rawCaptureConn keeps the very slice send hands to the transport (captureConn copies it)
type rawCaptureConn struct {
	captureConn
}

func (c *rawCaptureConn) Write(p []byte) (int, error) {
	c.wrote = append(c.wrote, p)
	return len(p), nil
}

// alive: the dimension. goroutines > 1: the concurrent part only (TestVerifC15Race).
func (h *c15) alive(goroutines int) {
	codecs := h.aliveCodecs()
	if len(codecs) < 10 {
		h.out.OracleFail("C15:alive-setup", "the response codec cannot be exercised (no responder / no response message)", "codec|alive")
	}
	// a length, not a case count: taken from the tier directly (vlib.Budget multiplies under VERIF_SEARCH=1,
	// and the number of histories grows faster than exponentially with the length)
	maxLen := 5
	if vlib.Tier() == "thorough" {
		maxLen = 6
	}
	hist := aliveHistories(maxLen)
	sizes := []int{0, 1, 16, 32, 33, 100}
	for _, c := range codecs {
		if goroutines > 1 {
			h.aliveConcurrent(c, goroutines)
			continue
		}
		// every short history
		for hi, ops := range hist {
			size := sizes[hi%len(sizes)]
			xs := make([]interface{}, 0, len(ops))
			for i := 0; i < len(ops); i++ {
				xs = append(xs, c.gen(i, size))
			}
			h.aliveCase(c, xs, ops)
		}
		// k encodings held, then decoded: in order, in reverse, each twice; random interleavings
		for k := 2; k <= 9; k++ {
			for mode := 0; mode < 3; mode++ {
				var ops []aliveOp
				for i := 0; i < k; i++ {
					ops = append(ops, aliveOp{enc: true})
				}
				for i := 0; i < k; i++ {
					switch mode {
					case 0:
						ops = append(ops, aliveOp{j: i})
					case 1:
						ops = append(ops, aliveOp{j: k - 1 - i})
					case 2:
						ops = append(ops, aliveOp{j: i}, aliveOp{j: (i + 1) % k}, aliveOp{j: i})
					}
				}
				xs := make([]interface{}, k)
				for i := range xs {
					xs[i] = c.gen(i, sizes[(k+mode)%len(sizes)])
				}
				h.aliveCase(c, xs, ops)
			}
		}
		for i := 0; i < vlib.Budget(12, 300); i++ {
			var ops []aliveOp
			nenc := 0
			for n := h.r.Range(3, 24); n > 0; n-- {
				if nenc == 0 || (nenc < 12 && h.r.Bool()) {
					ops = append(ops, aliveOp{enc: true})
					nenc++
				} else {
					ops = append(ops, aliveOp{j: h.r.Intn(nenc)})
				}
			}
			xs := make([]interface{}, nenc)
			size := sizes[h.r.Intn(len(sizes))]
			for j := range xs {
				xs[j] = c.gen(j, size)
			}
			h.aliveCase(c, xs, ops)
		}
		// one value encoded k times, all encodings kept: they decode to the value, and those of a
		// randomised encoder are pairwise distinct while all of them are held
		for _, size := range []int{4, 16, 32, 100} {
			x := c.gen(0, size)
			k := 7
			var es []interface{}
			for i := 0; i < k; i++ {
				e, err := c.enc(x)
				if err != nil {
					break
				}
				es = append(es, e)
			}
			distinct := map[string]bool{}
			for _, e := range es {
				distinct[aliveShow(e)] = true
				d, err := c.dec(e)
				h.out.Checked()
				if err != nil || aliveShow(d) != aliveShow(x) {
					h.aliveFail("C15:roundtrip-among-held-encodings:"+c.name, fmt.Sprintf("%s: one of %d encodings of the same value, all kept, no longer decodes to it (err %v)", c.name, k, err), "codec|alive|"+c.name+"|same")
				}
			}
			h.out.Checked()
			if c.random && len(es) == k && len(distinct) < k {
				h.aliveFail("C15:obfuscator-not-fresh", fmt.Sprintf("%s: %d obfuscations of one %d-byte tag, all kept by the caller, are only %d distinct encodings", c.name, k, size, len(distinct)), "codec|alive|"+c.name+"|same")
			}
			h.out.Count("alive:" + c.name + "-same-value")
		}
		h.aliveConcurrent(c, 4)
	}
}

func (h *c15) aliveCase(c aliveCodec, xs []interface{}, ops []aliveOp) {
	line := fmt.Sprintf("alive|%s|%s", c.name, showOps(ops))
	ans := h.aliveRun(c, xs, ops, "codec|alive|"+c.name+"|"+showOps(ops))
	if ans == nil {
		ans = []string{}
	}
	h.out.Case(line, "ok "+strings.Join(ans, ","), len(ans) > 0)
	h.out.Count("alive:" + c.name)
}

// aliveConcurrent: g goroutines encode three values each and keep the results; when all are done each
// decodes its own. The verdicts are made here, after the goroutines have ended.
func (h *c15) aliveConcurrent(c aliveCodec, g int) {
	const per = 3
	xs := make([][]interface{}, g)
	for i := range xs {
		for j := 0; j < per; j++ {
			xs[i] = append(xs[i], c.gen(i*per+j, 32))
		}
	}
	encs := make([][]interface{}, g)
	snaps := make([][]string, g)
	decs := make([][]string, g)
	var phase1, phase2 sync.WaitGroup
	start := make(chan struct{})
	phase1.Add(g)
	phase2.Add(g)
	for i := 0; i < g; i++ {
		go func(i int) {
			defer phase2.Done()
			for _, x := range xs[i] {
				e, err := c.enc(x)
				if err != nil {
					e = nil
				}
				encs[i] = append(encs[i], e)
				snaps[i] = append(snaps[i], aliveShow(e))
			}
			phase1.Done()
			<-start
			for _, e := range encs[i] {
				if e == nil {
					decs[i] = append(decs[i], "enc-err")
					continue
				}
				d, err := c.dec(e)
				if err != nil {
					decs[i] = append(decs[i], "err "+err.Error())
				} else {
					decs[i] = append(decs[i], aliveShow(d))
				}
			}
		}(i)
	}
	phase1.Wait()
	close(start)
	phase2.Wait()
	replay := "codec|alive|" + c.name + "|concurrent"
	for i := 0; i < g; i++ {
		for j := 0; j < per; j++ {
			h.out.Checked()
			if encs[i][j] != nil && aliveShow(encs[i][j]) != snaps[i][j] {
				h.aliveFail("C15:held-encoding-changed-by-later-call:"+c.name, fmt.Sprintf("%s: with %d goroutines encoding at once, an encoding kept by its caller changed after it was returned", c.name, g), replay)
			}
			if decs[i][j] != aliveShow(xs[i][j]) {
				h.aliveFail("C15:roundtrip-among-held-encodings:"+c.name, fmt.Sprintf("%s: with %d goroutines encoding at once, a kept encoding decodes to %.40s instead of its value", c.name, g, decs[i][j]), replay)
			}
		}
	}
	h.out.Count("alive:" + c.name + "-concurrent")
}
