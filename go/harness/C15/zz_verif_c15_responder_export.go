//go:build verif

package responder

import (
	"net"

	"github.com/refraction-networking/conjure/pkg/registrars/dns-registrar/dns"
)

// Exports for the C15/C11 harness (exist only in the scratch copy).

// VerifResponseFor runs responseFor against the responder's own domain.
func (r *Responder) VerifResponseFor(query *dns.Message) (*dns.Message, []byte) {
	return r.responseFor(query, r.domain)
}

// VerifLocalAddr is the address the responder listens on.
func (r *Responder) VerifLocalAddr() net.Addr { return r.transport.LocalAddr() }

// VerifSetTransport replaces the packet connection (to feed raw datagrams without a socket).
func (r *Responder) VerifSetTransport(c net.PacketConn) { r.transport = c }

// VerifDNSRespToUDPResp exposes dnsRespToUDPResp.
func (r *Responder) VerifDNSRespToUDPResp(resp *dns.Message, response []byte) ([]byte, error) {
	return r.dnsRespToUDPResp(resp, response)
}

// VerifMaxUDPPayload is the size limit the responder applies to the requester's EDNS payload size and to its own responses.
func (r *Responder) VerifMaxUDPPayload() int { return r.maxUDPPayload }

// VerifCraftResponse exposes craftResponse (Noise N: read the handshake message, answer under the returned cipher state).
func (r *Responder) VerifCraftResponse(msg []byte, processMsg func([]byte) ([]byte, error)) ([]byte, error) {
	return r.craftResponse(msg, processMsg)
}
