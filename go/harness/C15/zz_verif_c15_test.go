//go:build verif

package requester

// Correspondence + property oracle for C15: every encoder of the registration channels against its
// decoder, on the real code; the same cases as lines for the Lean codec model (CJ/Model/Codec.lean).
//
// Oracle (independent of the model): for every value x the encoder accepts, decode(encode(x)) == x;
// an encoder rejects only what the format cannot represent (checked against the limits written down
// here, not taken from the code); the randomised obfuscators never repeat an encoding.

import (
	"bufio"
	"bytes"
	"crypto/aes"
	"crypto/cipher"
	crand "crypto/rand"
	"crypto/sha256"
	"encoding/binary"
	"encoding/hex"
	"errors"
	"fmt"
	"io"
	golog "log"
	"net"
	"os"
	"strconv"
	"strings"
	"sync"
	"testing"
	"time"

	"github.com/refraction-networking/conjure/internal/vlib"
	"github.com/refraction-networking/conjure/pkg/registrars/dns-registrar/dns"
	"github.com/refraction-networking/conjure/pkg/registrars/dns-registrar/encryption"
	"github.com/refraction-networking/conjure/pkg/registrars/dns-registrar/msgformat"
	"github.com/refraction-networking/conjure/pkg/registrars/dns-registrar/responder"
	"github.com/refraction-networking/conjure/pkg/transports"
	pb "github.com/refraction-networking/conjure/proto"
	"github.com/refraction-networking/ed25519/extra25519"
	"golang.org/x/crypto/curve25519"
	"google.golang.org/protobuf/proto"
	"google.golang.org/protobuf/types/known/anypb"
)

type c15 struct {
	out *vlib.Out
	r   *vlib.Rand
}

// ---------------------------------------------------------------------------------------------
// canonical forms shared with CJ/Drv/Codec.lean

func c15Err(err error) string {
	switch {
	case err == nil:
		return ""
	case errors.Is(err, io.EOF), errors.Is(err, io.ErrUnexpectedEOF):
		return "eof"
	case errors.Is(err, dns.ErrZeroLengthLabel):
		return "zeroLabel"
	case errors.Is(err, dns.ErrLabelTooLong):
		return "labelTooLong"
	case errors.Is(err, dns.ErrNameTooLong):
		return "nameTooLong"
	case errors.Is(err, dns.ErrReservedLabelType):
		return "reservedLabel"
	case errors.Is(err, dns.ErrTooManyPointers):
		return "tooManyPointers"
	case errors.Is(err, dns.ErrTrailingBytes):
		return "trailing"
	case errors.Is(err, dns.ErrIntegerOverflow):
		return "overflow"
	case errors.Is(err, transports.ErrPublicKeyLen), strings.Contains(err.Error(), "Unexpected station pubkey length"):
		return "keyLen"
	case strings.Contains(err.Error(), "invalid message length"):
		return "invalidLength"
	case strings.Contains(err.Error(), "too long for length prefix"):
		return "tooLong"
	case strings.Contains(err.Error(), "even length"):
		return "evenLength"
	case strings.Contains(err.Error(), "empty plaintext"):
		return "emptyTag"
	case strings.Contains(err.Error(), "error reading src type"), strings.Contains(err.Error(), "incorrect non-empty TypeUrl"):
		return "wrongType"
	case strings.Contains(err.Error(), "message authentication failed"), strings.Contains(err.Error(), "bad input point"), strings.Contains(err.Error(), "low order point"):
		return "crypto"
	}
	return "other:" + err.Error()
}

// guard runs f and turns a Go panic into the model's `panic <site>` answer.
func guard(f func() string) (ans string) {
	defer func() {
		if p := recover(); p != nil {
			s := fmt.Sprint(p)
			switch {
			case strings.Contains(s, "slice bounds out of range"):
				ans = "panic slice bounds out of range"
			case strings.Contains(s, "index out of range"):
				ans = "panic index out of range"
			default:
				if _, err := strconv.Atoi(s); err == nil {
					ans = "panic label length" // messageBuilder.WriteName: panic(length)
				} else {
					ans = "panic other " + s
				}
			}
		}
	}()
	return f()
}

func okOrErr(b []byte, err error) string {
	if err != nil {
		return "err " + c15Err(err)
	}
	return "ok " + vlib.Hex(b)
}

func showName(n dns.Name) string {
	if len(n) == 0 {
		return "@"
	}
	l := make([]string, len(n))
	for i, lab := range n {
		l[i] = vlib.Hex(lab)
	}
	return strings.Join(l, ".")
}

func showQ(q dns.Question) string { return fmt.Sprintf("%s/%d/%d", showName(q.Name), q.Type, q.Class) }
func showRR(r dns.RR) string {
	return fmt.Sprintf("%s/%d/%d/%d/%s", showName(r.Name), r.Type, r.Class, r.TTL, vlib.Hex(r.Data))
}

func showMsg(m *dns.Message) string {
	sec := func(rrs []dns.RR) string {
		l := make([]string, len(rrs))
		for i := range rrs {
			l[i] = showRR(rrs[i])
		}
		return strings.Join(l, ";")
	}
	q := make([]string, len(m.Question))
	for i := range m.Question {
		q[i] = showQ(m.Question[i])
	}
	return fmt.Sprintf("%d,%d|%s|%s|%s|%s", m.ID, m.Flags, strings.Join(q, ";"), sec(m.Answer), sec(m.Authority), sec(m.Additional))
}

func parseNameText(s string) (dns.Name, error) {
	if s == "@" {
		return dns.Name{}, nil
	}
	var n dns.Name
	for _, l := range strings.Split(s, ".") {
		if l == "-" {
			n = append(n, []byte{})
			continue
		}
		b, err := hex.DecodeString(l)
		if err != nil {
			return nil, err
		}
		n = append(n, b)
	}
	return n, nil
}

func unhex(s string) []byte {
	if s == "-" || s == "" {
		return []byte{}
	}
	b, err := hex.DecodeString(s)
	if err != nil {
		panic("bad hex in replay: " + s)
	}
	return b
}

func parseMsgText(f []string) (*dns.Message, error) {
	if len(f) != 5 {
		return nil, fmt.Errorf("message needs 5 fields")
	}
	m := &dns.Message{}
	var id, fl int
	if _, err := fmt.Sscanf(f[0], "%d,%d", &id, &fl); err != nil {
		return nil, err
	}
	m.ID, m.Flags = uint16(id), uint16(fl)
	if f[1] != "" {
		for _, qs := range strings.Split(f[1], ";") {
			p := strings.Split(qs, "/")
			n, err := parseNameText(p[0])
			if err != nil || len(p) != 3 {
				return nil, fmt.Errorf("bad question")
			}
			t, _ := strconv.Atoi(p[1])
			c, _ := strconv.Atoi(p[2])
			m.Question = append(m.Question, dns.Question{Name: n, Type: uint16(t), Class: uint16(c)})
		}
	}
	for i, dst := range []*[]dns.RR{&m.Answer, &m.Authority, &m.Additional} {
		if f[2+i] == "" {
			continue
		}
		for _, rs := range strings.Split(f[2+i], ";") {
			p := strings.Split(rs, "/")
			if len(p) != 5 {
				return nil, fmt.Errorf("bad rr")
			}
			n, err := parseNameText(p[0])
			if err != nil {
				return nil, err
			}
			t, _ := strconv.Atoi(p[1])
			c, _ := strconv.Atoi(p[2])
			ttl, _ := strconv.ParseUint(p[3], 10, 32)
			*dst = append(*dst, dns.RR{Name: n, Type: uint16(t), Class: uint16(c), TTL: uint32(ttl), Data: unhex(p[4])})
		}
	}
	return m, nil
}

// ---------------------------------------------------------------------------------------------
// 1. length framing

func (h *c15) frameReq(p []byte) {
	line := "codec|addreq|" + vlib.Hex(p)
	enc, err := msgformat.AddRequestFormat(p)
	h.out.Case(line, okOrErr(enc, err), err == nil)
	h.out.Checked()
	representable := len(p) <= 255
	if err != nil {
		h.out.Count("frame:req-rejected")
		if representable {
			h.out.OracleFail("C15:msgformat-request-rejects-representable", fmt.Sprintf("AddRequestFormat rejects a %d-byte payload", len(p)), line)
		}
		return
	}
	dec, derr := msgformat.RemoveRequestFormat(enc)
	if derr != nil || !bytes.Equal(dec, p) {
		h.out.OracleFail("C15:msgformat-request-length-truncated",
			fmt.Sprintf("AddRequestFormat accepted a %d-byte payload, RemoveRequestFormat returned %d bytes (err=%v): silently altered", len(p), len(dec), derr), line)
	}
	h.out.Count("frame:req-ok")
	// the decoder is handed buffers that are longer than the frame (the responder decodes whatever the
	// query labels carry): bytes behind the frame must not change what is returned
	for _, junk := range h.trailers() {
		padded := exactCap(append(append([]byte(nil), enc...), junk...))
		d2, e2 := msgformat.RemoveRequestFormat(padded)
		h.out.Checked()
		if len(padded) <= 600 {
			h.out.Case("codec|rmreq|"+vlib.Hex(padded), okOrErr(d2, e2), e2 == nil)
		}
		if e2 != nil || !bytes.Equal(d2, p) {
			h.out.OracleFail("C15:msgformat-request-trailing-bytes",
				fmt.Sprintf("RemoveRequestFormat(frame of a %d-byte payload followed by %d more bytes) returned %d bytes (err=%v)", len(p), len(junk), len(d2), e2), line)
		}
		h.out.Count("frame:req-padded")
	}
}

// trailers: what may follow a frame in the buffer it is decoded from (random bytes; zeros, as in the
// zero-initialised 4096-byte receive buffer of RequestAndRecv)
func (h *c15) trailers() [][]byte {
	return [][]byte{h.r.Bytes(1 + h.r.Intn(8)), make([]byte, 1+h.r.Intn(40)), bytes.Repeat([]byte{0xff}, 3)}
}

func (h *c15) frameResp(p []byte) {
	line := "codec|addresp|" + vlib.Hex(p)
	enc, err := msgformat.AddResponseFormat(p)
	h.out.Case(line, okOrErr(enc, err), err == nil)
	h.out.Checked()
	representable := len(p) <= 65535
	if err != nil {
		h.out.Count("frame:resp-rejected")
		if representable {
			h.out.OracleFail("C15:msgformat-response-rejects-representable", fmt.Sprintf("AddResponseFormat rejects a %d-byte payload", len(p)), line)
		}
		return
	}
	dec, derr := msgformat.RemoveResponseFormat(enc)
	if derr != nil || !bytes.Equal(dec, p) {
		h.out.OracleFail("C15:msgformat-response-length-truncated",
			fmt.Sprintf("AddResponseFormat accepted a %d-byte payload, RemoveResponseFormat returned %d bytes (err=%v): silently altered", len(p), len(dec), derr), line)
	}
	h.out.Count("frame:resp-ok")
	// RequestAndRecv decodes its whole receive buffer, not the bytes received: a frame followed by
	// zeros up to 4096 bytes, and by anything else, must decode to the same payload
	trailers := h.trailers()
	if len(enc) < 4096 {
		trailers = append(trailers, make([]byte, 4096-len(enc)))
	}
	for _, junk := range trailers {
		padded := exactCap(append(append([]byte(nil), enc...), junk...))
		d2, e2 := msgformat.RemoveResponseFormat(padded)
		h.out.Checked()
		if len(padded) <= 600 {
			h.out.Case("codec|rmresp|"+vlib.Hex(padded), okOrErr(d2, e2), e2 == nil)
		}
		if e2 != nil || !bytes.Equal(d2, p) {
			h.out.OracleFail("C15:msgformat-response-trailing-bytes",
				fmt.Sprintf("RemoveResponseFormat(frame of a %d-byte payload followed by %d more bytes) returned %d bytes (err=%v)", len(p), len(junk), len(d2), e2), line)
		}
		h.out.Count("frame:resp-padded")
	}
}

// exactCap copies b into a slice whose capacity equals its length: a decoder that slices beyond the
// data then panics instead of silently reading what happens to lie behind it.
func exactCap(b []byte) []byte {
	c := make([]byte, len(b))
	copy(c, b)
	return c
}

func (h *c15) frameDecode(p []byte) {
	p = exactCap(p)
	// the format, written down independently of the code: a length of one / two (big-endian) bytes, then
	// that many bytes; a buffer shorter than that is an error, whatever follows is ignored
	spec := func(hdr int) string {
		if len(p) < hdr {
			return "err invalidLength"
		}
		n := int(p[0])
		if hdr == 2 {
			n = int(p[0])<<8 | int(p[1])
		}
		if hdr+n > len(p) {
			return "err invalidLength"
		}
		return "ok " + vlib.Hex(p[hdr:hdr+n])
	}
	for _, d := range []struct {
		op  string
		hdr int
		f   func([]byte) ([]byte, error)
	}{{"rmreq", 1, msgformat.RemoveRequestFormat}, {"rmresp", 2, msgformat.RemoveResponseFormat}} {
		line := "codec|" + d.op + "|" + vlib.Hex(p)
		given := exactCap(p)
		ans := guard(func() string { return okOrErr(d.f(p)) })
		h.out.Case(line, ans, true)
		h.out.Checked()
		if !bytes.Equal(p, given) {
			h.out.OracleFail("C15:decoder-alters-input:"+d.op, "the frame decoder changed the buffer it was given", line)
			p = given
		}
		if strings.HasPrefix(ans, "panic") {
			h.out.OracleFail("C15:decoder-panics:"+d.op, "the frame decoder panics instead of returning an error: "+ans, line)
		} else if ans != spec(d.hdr) {
			h.out.OracleFail("C15:msgformat-decode-spec:"+d.op, fmt.Sprintf("the frame decoder answers %q, the format says %q", ans, spec(d.hdr)), line)
		}
	}
	h.out.Count("frame:decode-arbitrary")
}

func (h *c15) frames() {
	for n := 0; n <= 258; n++ {
		h.frameReq(h.r.Bytes(n))
	}
	for _, n := range []int{300, 511, 512, 513, 1000, 65535, 65536, 65537, 70000} {
		h.frameReq(h.r.Bytes(n))
	}
	for n := 0; n <= 300; n++ {
		h.frameResp(h.r.Bytes(n))
	}
	for _, n := range []int{65533, 65534, 65535, 65536, 65537, 65538, 70000, 131072} {
		h.frameResp(h.r.Bytes(n))
	}
	for i := 0; i < vlib.Budget(400, 6000); i++ {
		h.frameResp(h.r.Bytes(h.r.Intn(2000)))
	}
	// every (buffer length, announced length) pair around the point where the announced length meets
	// the end of the buffer
	for n := 0; n <= 24; n++ {
		for b := 0; b <= n+2; b++ {
			p := h.r.Bytes(n)
			if n > 0 {
				p[0] = byte(b)
			}
			h.frameDecode(p)
			if n > 1 {
				for _, hi := range []byte{0, 1, 0xff} {
					q := h.r.Bytes(n)
					q[0], q[1] = hi, byte(b)
					h.frameDecode(q)
				}
			}
		}
	}
	for _, n := range []int{254, 255, 256, 257, 258} {
		for _, b := range []int{n - 2, n - 1, n, n + 1} {
			p := h.r.Bytes(n)
			p[0] = byte(b)
			h.frameDecode(p)
			q := h.r.Bytes(n)
			q[0], q[1] = byte(b>>8), byte(b)
			h.frameDecode(q)
		}
	}
	for i := 0; i < vlib.Budget(600, 12000); i++ {
		p := h.r.Bytes(h.r.Intn(40))
		if h.r.Chance(1, 3) && len(p) > 0 {
			p[0] = byte(h.r.Intn(len(p) + 2)) // length byte near the real length
		}
		if h.r.Chance(1, 4) && len(p) > 1 {
			p[0] = 0
		}
		h.frameDecode(p)
	}
}

// ---------------------------------------------------------------------------------------------
// 2. TXT character strings

func (h *c15) txt(p []byte) {
	line := "codec|enctxt|" + vlib.Hex(p)
	enc := dns.EncodeRDataTXT(p)
	h.out.Case(line, "ok "+vlib.Hex(enc), true)
	dec, err := dns.DecodeRDataTXT(enc)
	h.out.Case("codec|dectxt|"+vlib.Hex(enc), okOrErr(dec, err), err == nil)
	h.out.Checked()
	if err != nil || !bytes.Equal(dec, p) {
		h.out.OracleFail("C15:txt-roundtrip", fmt.Sprintf("DecodeRDataTXT(EncodeRDataTXT(p)) != p for len(p)=%d (err=%v)", len(p), err), line)
	}
	h.out.Count("txt:roundtrip")
}

// txtDecode: the TXT decoder on arbitrary bytes (exact-capacity buffer): an answer or an error, never a
// panic; what it accepts is what the format says (character strings that fill the buffer exactly)
func (h *c15) txtDecode(p []byte) {
	p = exactCap(p)
	line := "codec|dectxt|" + vlib.Hex(p)
	var err error
	given := exactCap(p)
	ans := guard(func() string {
		var dec []byte
		dec, err = dns.DecodeRDataTXT(p)
		return okOrErr(dec, err)
	})
	if !bytes.Equal(p, given) {
		h.out.OracleFail("C15:decoder-alters-input:dectxt", "DecodeRDataTXT changed the buffer it was given", line)
		p = given
	}
	h.out.Case(line, ans, err == nil && strings.HasPrefix(ans, "ok"))
	h.out.Checked()
	spec := func() string {
		var acc []byte
		q := p
		for {
			if len(q) == 0 || len(q)-1 < int(q[0]) {
				return "err eof"
			}
			acc = append(acc, q[1:1+int(q[0])]...)
			q = q[1+int(q[0]):]
			if len(q) == 0 {
				return "ok " + vlib.Hex(acc)
			}
		}
	}()
	if strings.HasPrefix(ans, "panic") {
		h.out.OracleFail("C15:decoder-panics:dectxt", "DecodeRDataTXT panics instead of returning an error: "+ans, line)
	} else if ans != spec {
		h.out.OracleFail("C15:txt-decode-spec", fmt.Sprintf("DecodeRDataTXT answers %.80q, the format says %.80q", ans, spec), line)
	}
	h.out.Count("txt:decode-arbitrary")
}

func (h *c15) txts() {
	max := vlib.Budget(600, 1600)
	for n := 0; n <= max; n++ {
		h.txt(h.r.Bytes(n))
	}
	for _, n := range []int{255 * 4, 255*4 + 1, 255*8 - 1, 65535, 65536, 65537} {
		h.txt(h.r.Bytes(n))
	}
	for i := 0; i < vlib.Budget(1500, 25000); i++ {
		var p []byte
		switch h.r.Intn(3) {
		case 0:
			p = h.r.Bytes(h.r.Intn(30))
		case 1: // a valid encoding with one mutated byte or cut short
			p = dns.EncodeRDataTXT(h.r.Bytes(h.r.Intn(600)))
			p = append([]byte(nil), p...)
			if h.r.Bool() && len(p) > 0 {
				p[h.r.Intn(len(p))] = byte(h.r.U64())
			} else {
				p = p[:h.r.Intn(len(p)+1)]
			}
		default: // several small character strings
			for k := h.r.Intn(5); k >= 0; k-- {
				n := h.r.Intn(6)
				p = append(p, byte(n))
				p = append(p, h.r.Bytes(n)...)
			}
		}
		h.txtDecode(p)
	}
}

// ---------------------------------------------------------------------------------------------
// 3. names

func nameSpecValid(labels [][]byte) bool { // RFC 1035 limits, written down independently of the code
	total := 1
	for _, l := range labels {
		if len(l) == 0 || len(l) > 63 {
			return false
		}
		total += 1 + len(l)
	}
	return total <= 255
}

func showLabels(labels [][]byte) string {
	if len(labels) == 0 {
		return "@"
	}
	l := make([]string, len(labels))
	for i := range labels {
		l[i] = vlib.Hex(labels[i])
	}
	return strings.Join(l, ".")
}

func (h *c15) name(labels [][]byte) {
	line := "codec|newname|" + showLabels(labels)
	n, err := dns.NewName(labels)
	ans := "err " + c15Err(err)
	if err == nil {
		ans = "ok " + showName(n)
	}
	h.out.Case(line, ans, err == nil)
	h.out.Checked()
	valid := nameSpecValid(labels)
	if err != nil {
		h.out.Count("name:rejected-" + c15Err(err))
		if valid {
			h.out.OracleFail("C15:name-rejects-representable", "NewName rejects a name within the limits: "+c15Err(err), line)
		}
		return
	}
	if !valid {
		h.out.OracleFail("C15:name-accepts-unrepresentable", "NewName accepts a name beyond the limits (label 1..63, name <= 255)", line)
		return
	}
	// accepted: one-question message through the wire format and back
	m := &dns.Message{ID: 7, Question: []dns.Question{{Name: n, Type: 16, Class: 1}}}
	buf, werr := m.WireFormat()
	if werr != nil {
		h.out.OracleFail("C15:name-roundtrip", "WireFormat failed on an accepted name: "+werr.Error(), line)
		return
	}
	back, perr := dns.MessageFromWireFormat(buf)
	if perr != nil || len(back.Question) != 1 || showName(back.Question[0].Name) != showName(n) {
		h.out.OracleFail("C15:name-roundtrip", fmt.Sprintf("accepted name does not come back from the wire format (err=%v)", perr), line)
	}
	// and the reader alone, at its offset
	rn, at, rerr := dns.VerifReadName(buf, 12)
	rans := "err " + c15Err(rerr)
	if rerr == nil {
		rans = fmt.Sprintf("ok %s %d", showName(rn), at)
	}
	h.out.Case(fmt.Sprintf("codec|readname|%s|12", vlib.Hex(buf)), rans, rerr == nil)
	h.out.Count("name:accepted")
}

func (h *c15) label(n int) []byte {
	l := make([]byte, n)
	for i := range l {
		switch h.r.Intn(8) {
		case 0:
			l[i] = byte(h.r.U64()) // any byte, dots and backslashes included
		case 1:
			l[i] = "ABCXYZ"[h.r.Intn(6)]
		default:
			l[i] = "abcdefghijklmnopqrstuvwxyz234567-"[h.r.Intn(33)]
		}
	}
	return l
}

func (h *c15) names() {
	h.name(nil)
	for n := 0; n <= 66; n++ { // every label length around the limit
		h.name([][]byte{h.label(n)})
		h.name([][]byte{h.label(3), h.label(n), h.label(2)})
	}
	// every total length around 255: k full labels plus one of varying length
	for last := 55; last <= 63; last++ {
		for mid := 55; mid <= 63; mid++ {
			h.name([][]byte{h.label(63), h.label(63), h.label(mid), h.label(last)})
		}
	}
	for total := 240; total <= 262; total++ { // many one-byte labels: total = 2*k + 1 (+ a longer tail)
		var ls [][]byte
		rem := total - 1
		for rem > 0 {
			n := 1
			if rem-2 == 1 || h.r.Chance(1, 5) {
				n = 2
			}
			if rem < 1+n {
				n = rem - 1
			}
			if n <= 0 {
				break
			}
			ls = append(ls, h.label(n))
			rem -= 1 + n
		}
		h.name(ls)
	}
	for i := 0; i < vlib.Budget(300, 10000); i++ {
		var ls [][]byte
		for k := h.r.Intn(8); k > 0; k-- {
			n := h.r.Range(1, 20)
			if h.r.Chance(1, 6) {
				n = h.r.Range(60, 66)
			}
			if h.r.Chance(1, 40) {
				n = 0
			}
			ls = append(ls, h.label(n))
		}
		h.name(ls)
	}
	// the reader on arbitrary bytes and offsets
	for i := 0; i < vlib.Budget(3000, 60000); i++ {
		buf := exactCap(h.nameBytes())
		pos := h.r.Intn(len(buf) + 2)
		var ans string
		ans = guard(func() string {
			done := make(chan string, 1)
			go func() {
				done <- guard(func() string {
					n, at, err := dns.VerifReadName(buf, pos)
					if err != nil {
						return "err " + c15Err(err)
					}
					return fmt.Sprintf("ok %s %d", showName(n), at)
				})
			}()
			select {
			case s := <-done:
				return s
			case <-time.After(2 * time.Second):
			}
			// a scheduling stall on a loaded machine is not a hang: the loop is bounded by the pointer
			// limit, so a call that is still running after 20 more seconds does not terminate
			h.out.Count("name:read-slow")
			select {
			case s := <-done:
				return s
			case <-time.After(20 * time.Second):
				return "hang"
			}
		})
		h.out.Case(fmt.Sprintf("codec|readname|%s|%d", vlib.Hex(buf), pos), ans, strings.HasPrefix(ans, "ok"))
		h.out.Count("name:read-arbitrary-" + strings.SplitN(ans, " ", 3)[0])
		if strings.HasPrefix(ans, "panic") {
			h.out.Checked()
			h.out.OracleFail("C15:decoder-panics:readname", "readName panics instead of returning an error: "+ans, fmt.Sprintf("codec|readname|%s|%d", vlib.Hex(buf), pos))
		}
	}
}

// nameBytes builds a buffer that looks like name data: labels, pointers (forward, backward, to
// themselves, in cycles, in long chains), reserved label types, truncations.
func (h *c15) nameBytes() []byte {
	var b []byte
	for k := h.r.Intn(12) + 1; k > 0; k-- {
		switch h.r.Intn(7) {
		case 0, 1:
			n := h.r.Range(1, 6)
			b = append(b, byte(n))
			b = append(b, h.label(n)...)
		case 2:
			b = append(b, 0)
		case 3: // pointer to somewhere near
			off := h.r.Intn(len(b) + 4)
			b = append(b, 0xc0|byte(off>>8), byte(off))
		case 4: // pointer to itself or just before
			off := len(b) - h.r.Intn(3)
			if off < 0 {
				off = 0
			}
			b = append(b, 0xc0, byte(off))
		case 5:
			b = append(b, byte(h.r.U64()))
		default:
			b = append(b, 0x40|byte(h.r.Intn(64)), byte(h.r.U64()))
		}
	}
	if h.r.Chance(1, 4) && len(b) > 0 {
		b = b[:h.r.Intn(len(b))+1]
	}
	if h.r.Chance(1, 10) { // a chain of pointers each pointing to the next
		b = nil
		n := h.r.Range(8, 14)
		for i := 0; i < n; i++ {
			b = append(b, 0xc0, byte(2*(i+1)))
		}
		b = append(b, 1, 'x', 0)
	}
	return b
}

// ---------------------------------------------------------------------------------------------
// 4. messages

type namePool struct {
	h     *c15
	names []dns.Name
}

func (p *namePool) fresh() dns.Name {
	h := p.h
	var ls [][]byte
	for k := h.r.Intn(4); k > 0; k-- {
		ls = append(ls, h.label(h.r.Range(1, 8)))
	}
	if len(p.names) > 0 && h.r.Chance(3, 4) { // share a suffix with an earlier name
		base := p.names[h.r.Intn(len(p.names))]
		if len(base) > 0 {
			ls = append(ls, base[h.r.Intn(len(base)):]...)
		}
	} else if h.r.Chance(1, 2) {
		ls = append(ls, []byte("example"), []byte("com"))
	}
	if h.r.Chance(1, 12) && len(ls) > 0 { // same letters, other case: not the same cache key
		ls[len(ls)-1] = bytes.ToUpper(ls[len(ls)-1])
	}
	if len(p.names) > 0 && h.r.Chance(1, 5) { // a near-collision of an earlier name under a lossy cache key
		if v := p.variant(p.names[h.r.Intn(len(p.names))], h.r.Intn(8)); v != nil {
			p.names = append(p.names, v)
			h.out.Count("msg:name-variant")
			return v
		}
	}
	n, err := dns.NewName(ls)
	if err != nil {
		return dns.Name{}
	}
	p.names = append(p.names, n)
	return n
}

// variant: a name that a lossy cache key would confuse with base (the writer keys its suffix cache
// by Name.String(): labels joined by dots, bytes outside [0-9A-Za-z-] as \xXX). Each kind is the
// collision that one plausible change of the key would create: folding case, dropping the escape of
// dots or of backslashes, dropping the separator, truncating or hashing the key.
func (p *namePool) variant(base dns.Name, kind int) dns.Name {
	h := p.h
	ls := make([][]byte, len(base))
	for i := range base {
		ls[i] = append([]byte(nil), base[i]...)
	}
	if len(ls) == 0 {
		return dns.Name{}
	}
	i := h.r.Intn(len(ls))
	switch kind % 8 {
	case 0: // other case of the same letters
		for k := range ls[i] {
			if c := ls[i][k]; ('a' <= c && c <= 'z') || ('A' <= c && c <= 'Z') {
				ls[i][k] = c ^ 0x20
				if h.r.Bool() {
					break
				}
			}
		}
	case 1: // two labels joined by a literal dot
		if len(ls) >= 2 {
			j := h.r.Intn(len(ls) - 1)
			merged := append(append(append([]byte(nil), ls[j]...), '.'), ls[j+1]...)
			ls = append(append(append([][]byte{}, ls[:j]...), merged), ls[j+2:]...)
		}
	case 2: // a label split where it contains a dot (or given one)
		k := bytes.IndexByte(ls[i], '.')
		if k <= 0 || k == len(ls[i])-1 {
			if len(ls[i]) >= 3 {
				k = 1 + h.r.Intn(len(ls[i])-2)
			} else {
				k = -1
			}
		}
		if k > 0 {
			a, b := append([]byte(nil), ls[i][:k]...), append([]byte(nil), ls[i][k+1:]...)
			ls = append(append(append([][]byte{}, ls[:i]...), a, b), ls[i+1:]...)
		}
	case 3: // the label spelled as its own escaped rendering (literal backslash, x, two hex digits)
		var out []byte
		done := false
		for _, c := range ls[i] {
			if !done && !(c == '-' || ('0' <= c && c <= '9') || ('A' <= c && c <= 'Z') || ('a' <= c && c <= 'z')) {
				out = append(out, []byte(fmt.Sprintf("\\x%02x", c))...)
				done = true
			} else {
				out = append(out, c)
			}
		}
		if !done && len(out) > 0 { // nothing to escape: spell the last letter as an escape of itself
			out = append(out[:len(out)-1], []byte(fmt.Sprintf("\\x%02x", out[len(out)-1]))...)
		}
		ls[i] = out
	case 4: // the boundary between two labels moved by one byte
		if len(ls) >= 2 {
			j := h.r.Intn(len(ls) - 1)
			if len(ls[j]) > 1 {
				ls[j+1] = append([]byte{ls[j][len(ls[j])-1]}, ls[j+1]...)
				ls[j] = ls[j][:len(ls[j])-1]
			} else if len(ls[j+1]) > 1 {
				ls[j] = append(ls[j], ls[j+1][0])
				ls[j+1] = ls[j+1][1:]
			}
		}
	case 5: // same length, last byte of a label differs
		if n := len(ls[i]); n > 0 {
			ls[i][n-1] ^= byte(1 + h.r.Intn(255))
		}
	case 6: // same length, first byte of the first label differs
		if len(ls[0]) > 0 {
			ls[0][0] ^= byte(1 + h.r.Intn(255))
		}
	default: // a byte that needs escaping in place of a letter (and the upper-case hex spelling of it)
		if n := len(ls[i]); n > 0 {
			ls[i][h.r.Intn(n)] = []byte{'.', '\\', 0x00, 0xe9, ' ', '_'}[h.r.Intn(6)]
		}
	}
	n, err := dns.NewName(ls)
	if err != nil {
		return base
	}
	return n
}

// collisionMsg: base and variant names side by side, in both orders, so that whichever is written
// first is in the cache when the other one is looked up
func (h *c15) collisionMsg(base dns.Name, kind int) *dns.Message {
	p := &namePool{h: h}
	v := p.variant(base, kind)
	sub, _ := dns.NewName(append([][]byte{[]byte("www")}, v...))
	sub2, _ := dns.NewName(append([][]byte{[]byte("www")}, base...))
	m := &dns.Message{ID: uint16(kind), Flags: 0x8400}
	names := []dns.Name{base, v, sub, sub2, base, v}
	if h.r.Bool() {
		names = []dns.Name{v, base, sub2, sub, v, base}
	}
	for k, n := range names {
		if n == nil {
			continue
		}
		m.Answer = append(m.Answer, dns.RR{Name: n, Type: 16, Class: 1, TTL: 60, Data: []byte{byte(k)}})
	}
	return m
}

func (p *namePool) pick() dns.Name {
	if len(p.names) > 0 && p.h.r.Chance(1, 3) {
		return p.names[p.h.r.Intn(len(p.names))]
	}
	return p.fresh()
}

func (h *c15) data() []byte {
	switch h.r.Intn(20) {
	case 0:
		return nil
	case 1:
		return h.r.Bytes(h.r.Range(250, 260))
	case 2:
		return h.r.Bytes(h.r.Range(1000, 6000))
	default:
		return h.r.Bytes(h.r.Intn(24))
	}
}

func (h *c15) randMsg() *dns.Message {
	p := &namePool{h: h}
	m := &dns.Message{ID: uint16(h.r.U64()), Flags: uint16(h.r.U64())}
	for k := h.r.Intn(3); k > 0; k-- {
		m.Question = append(m.Question, dns.Question{Name: p.pick(), Type: uint16(h.r.Intn(300)), Class: uint16(h.r.Intn(5))})
	}
	for _, dst := range []*[]dns.RR{&m.Answer, &m.Authority, &m.Additional} {
		k := h.r.Intn(5)
		if h.r.Chance(1, 10) {
			k = h.r.Range(10, 40)
		}
		for ; k > 0; k-- {
			*dst = append(*dst, dns.RR{Name: p.pick(), Type: uint16(h.r.U64()), Class: uint16(h.r.U64()), TTL: uint32(h.r.U64()), Data: h.data()})
		}
	}
	return m
}

// chainMsg: names l_k. … .l_1 for k = 1…depth, each one label longer than the one before: the writer
// can refer from each name to the previous one, which itself ends in a pointer.
func (h *c15) chainMsg(depth int, pad int) *dns.Message {
	m := &dns.Message{ID: 1, Flags: 0x8400}
	if pad > 0 {
		m.Answer = append(m.Answer, dns.RR{Name: dns.Name{}, Type: 16, Class: 1, Data: h.r.Bytes(pad)})
	}
	for k := 1; k <= depth; k++ {
		var ls [][]byte
		for j := k; j >= 1; j-- {
			ls = append(ls, []byte(fmt.Sprintf("l%d", j)))
		}
		n, err := dns.NewName(ls)
		if err != nil {
			break
		}
		m.Answer = append(m.Answer, dns.RR{Name: n, Type: 16, Class: 1, TTL: 60, Data: []byte{byte(k)}})
	}
	return m
}

func msgSpecValid(m *dns.Message) (bool, string) {
	for _, q := range m.Question {
		if !nameSpecValid(q.Name) {
			return false, "name"
		}
	}
	for _, rrs := range [][]dns.RR{m.Answer, m.Authority, m.Additional} {
		if len(rrs) > 65535 {
			return false, "count"
		}
		for _, rr := range rrs {
			if !nameSpecValid(rr.Name) {
				return false, "name"
			}
			if len(rr.Data) > 65535 {
				return false, "rdata"
			}
		}
	}
	if len(m.Question) > 65535 {
		return false, "count"
	}
	return true, ""
}

func (h *c15) message(m *dns.Message, withModel bool) {
	line := "codec|wire|" + showMsg(m)
	var buf []byte
	var err error
	ans := guard(func() string {
		buf, err = m.WireFormat()
		return okOrErr(buf, err)
	})
	if withModel {
		h.out.Case(line, ans, err == nil)
	}
	h.out.Checked()
	valid, why := msgSpecValid(m)
	if strings.HasPrefix(ans, "panic") {
		h.out.Count("msg:writer-panic")
		if valid {
			h.out.OracleFail("C15:dns-writer-panics", "WireFormat panics on a message within the limits", line)
		}
		return
	}
	if err != nil {
		h.out.Count("msg:rejected-" + c15Err(err))
		if valid {
			h.out.OracleFail("C15:dns-message-rejects-representable", "WireFormat rejects a message within the limits: "+err.Error(), line)
		}
		return
	}
	if !valid && why != "name" {
		h.out.OracleFail("C15:dns-message-accepts-unrepresentable", "WireFormat accepts a message beyond the limits ("+why+")", line)
		return
	}
	if !valid {
		return // names that did not go through NewName are outside the encoder's domain
	}
	back, perr := dns.MessageFromWireFormat(buf)
	if withModel {
		pans := "err " + c15Err(perr)
		if perr == nil {
			pans = "ok " + showMsg(&back)
		}
		h.out.Case("codec|parse|"+vlib.Hex(buf), pans, perr == nil)
	}
	if perr != nil {
		sig := "C15:dns-message-roundtrip"
		if errors.Is(perr, dns.ErrTooManyPointers) {
			sig = "C15:dns-compression-chain-exceeds-reader-limit"
		}
		h.out.OracleFail(sig, "MessageFromWireFormat rejects what WireFormat produced for a valid message: "+perr.Error(), line)
		return
	}
	if showMsg(&back) != showMsg(m) {
		h.out.OracleFail("C15:dns-message-roundtrip", "MessageFromWireFormat(WireFormat(m)) != m", line)
	}
	h.out.Count("msg:roundtrip")
	if bytes.Contains(buf, []byte{0xc0}) {
		h.out.Count("msg:with-pointer-byte")
	}
}

func (h *c15) messages() {
	h.message(&dns.Message{}, true)
	for _, d := range []int{1, 2, 9, 10, 11, 12, 13, 14, 20, 40, 100} {
		h.message(h.chainMsg(d, 0), true)
	}
	// names behind offset 16383 cannot be pointed at
	for _, pad := range []int{16300, 16360, 16383, 16500} {
		h.message(h.chainMsg(4, pad), true)
	}
	// the query and response shapes of the registrar itself
	qn, _ := dns.NewName([][]byte{h.label(63), h.label(40), []byte("t"), []byte("example"), []byte("com")})
	h.message(&dns.Message{ID: 9, Flags: 0x0100, Question: []dns.Question{{Name: qn, Type: 16, Class: 1}},
		Additional: []dns.RR{{Name: dns.Name{}, Type: 41, Class: 4096, Data: []byte{}}}}, true)
	h.message(&dns.Message{ID: 9, Flags: 0x8400, Question: []dns.Question{{Name: qn, Type: 16, Class: 1}},
		Answer:     []dns.RR{{Name: qn, Type: 16, Class: 1, TTL: 60, Data: dns.EncodeRDataTXT(h.r.Bytes(700))}},
		Additional: []dns.RR{{Name: dns.Name{}, Type: 41, Class: 4096, Data: []byte{}}}}, true)
	// RDATA limit
	for _, n := range []int{65534, 65535, 65536, 65537} {
		h.message(&dns.Message{ID: 2, Answer: []dns.RR{{Name: dns.Name{[]byte("a")}, Type: 16, Class: 1, Data: h.r.Bytes(n)}}}, true)
	}
	// section counts: 65536 entries are refused before anything is written (model and code); 65535 only on the code
	big := make([]dns.Question, 65536)
	for i := range big {
		big[i] = dns.Question{Name: dns.Name{}, Type: 1, Class: 1}
	}
	h.message(&dns.Message{ID: 3, Question: big}, false)
	h.message(&dns.Message{ID: 3, Question: big[:65535]}, false)
	bigRR := make([]dns.RR, 65536)
	h.message(&dns.Message{ID: 3, Authority: bigRR}, false)
	// labels that never went through NewName: the writer's panic(length)
	h.message(&dns.Message{ID: 4, Question: []dns.Question{{Name: dns.Name{[]byte("ok"), []byte{}}, Type: 1, Class: 1}}}, true)
	h.message(&dns.Message{ID: 4, Answer: []dns.RR{{Name: dns.Name{h.label(64)}, Type: 1, Class: 1}}}, true)

	// names that differ only in what a lossy cache key would drop (case, the escaping of dots and
	// backslashes, label boundaries, a last byte): every kind against fixed and random base names
	mk := func(labels ...string) dns.Name {
		var ls [][]byte
		for _, l := range labels {
			ls = append(ls, []byte(l))
		}
		n, _ := dns.NewName(ls)
		return n
	}
	bases := []dns.Name{mk("a", "b", "c"), mk("a.b", "c"), mk("a\\x2eb", "c"), mk("A", "b", "c"), mk("abcdefgh", "t", "example", "com"),
		mk("ns1", "EXAMPLE", "COM"), mk("x-1", "a\\b", "c.d"), mk(strings.Repeat("k", 63), strings.Repeat("m", 40), "t", "example", "com")}
	for _, b := range bases {
		for kind := 0; kind < 8; kind++ {
			h.message(h.collisionMsg(b, kind), true)
		}
	}
	for i := 0; i < vlib.Budget(80, 2000); i++ {
		p := &namePool{h: h}
		h.message(h.collisionMsg(p.fresh(), i), true)
	}
	for i := 0; i < vlib.Budget(1200, 20000); i++ {
		h.message(h.randMsg(), true)
	}
	for i := 0; i < vlib.Budget(40, 800); i++ { // long chains at random depths, padded to random offsets
		pad := 0
		if h.r.Chance(1, 3) {
			pad = h.r.Range(16000, 16600)
		}
		h.message(h.chainMsg(h.r.Range(2, 60), pad), true)
	}
	// the decoder on arbitrary bytes: random, and valid messages with mutations / truncations
	for i := 0; i < vlib.Budget(3000, 50000); i++ {
		var buf []byte
		switch h.r.Intn(4) {
		case 0:
			buf = h.r.Bytes(h.r.Intn(40))
		case 1: // plausible header, then name-like bytes
			buf = []byte{0, 1, 1, 0, 0, byte(h.r.Intn(3)), 0, byte(h.r.Intn(3)), 0, 0, 0, byte(h.r.Intn(2))}
			buf = append(buf, h.nameBytes()...)
			buf = append(buf, h.r.Bytes(h.r.Intn(16))...)
		default:
			m := h.randMsg()
			if len(m.Answer) > 6 {
				m.Answer = m.Answer[:6]
			}
			b, err := m.WireFormat()
			if err != nil {
				continue
			}
			buf = append([]byte(nil), b...)
			if len(buf) > 3000 {
				buf = buf[:3000]
			}
			for k := h.r.Intn(3); k >= 0 && len(buf) > 0; k-- {
				switch h.r.Intn(3) {
				case 0:
					buf[h.r.Intn(len(buf))] = byte(h.r.U64())
				case 1:
					buf = buf[:h.r.Intn(len(buf))+1]
				default:
					buf = append(buf, byte(h.r.U64()))
				}
			}
		}
		var m dns.Message
		var err error
		buf = exactCap(buf)
		given := exactCap(buf)
		ans := guard(func() string {
			m, err = dns.MessageFromWireFormat(buf)
			if err != nil {
				return "err " + c15Err(err)
			}
			return "ok " + showMsg(&m)
		})
		h.out.Case("codec|parse|"+vlib.Hex(buf), ans, err == nil)
		h.out.Count("msg:parse-arbitrary-" + strings.SplitN(ans, " ", 3)[0])
		if !bytes.Equal(buf, given) {
			h.out.Checked()
			h.out.OracleFail("C15:decoder-alters-input:parse", "MessageFromWireFormat changed the buffer it was given", "codec|parse|"+vlib.Hex(given))
		}
		if strings.HasPrefix(ans, "panic") {
			h.out.Checked()
			h.out.OracleFail("C15:decoder-panics:parse", "MessageFromWireFormat panics instead of returning an error: "+ans, "codec|parse|"+vlib.Hex(buf))
		}
		if err == nil && !strings.HasPrefix(ans, "panic") {
			// whatever the decoder accepts, the encoder accepts and the decoder returns again
			h.out.Checked()
			b2, werr := m.WireFormat()
			if werr != nil {
				h.out.OracleFail("C15:dns-reencode", "a parsed message is refused by WireFormat: "+werr.Error(), "codec|parse|"+vlib.Hex(buf))
				continue
			}
			m2, perr := dns.MessageFromWireFormat(b2)
			if perr != nil || showMsg(&m2) != showMsg(&m) {
				sig := "C15:dns-message-roundtrip"
				if errors.Is(perr, dns.ErrTooManyPointers) {
					sig = "C15:dns-compression-chain-exceeds-reader-limit"
				}
				h.out.OracleFail(sig, fmt.Sprintf("re-encoding a parsed message does not round-trip (err=%v)", perr), "codec|wire|"+showMsg(&m))
			}
		}
	}
}

// ---------------------------------------------------------------------------------------------
// 5. the query name of the requester and its extraction by the responder

type captureConn struct {
	net.Conn
	wrote [][]byte
}

func (c *captureConn) Write(p []byte) (int, error) {
	c.wrote = append(c.wrote, append([]byte(nil), p...))
	return len(p), nil
}

func (h *c15) queryNames(resp *responder.Responder, domain dns.Name) {
	limit := 0
	for n := 0; n <= 170; n++ {
		p := h.r.Bytes(n)
		enc := make([]byte, base32Encoding.EncodedLen(len(p)))
		base32Encoding.Encode(enc, p)
		// the two laws of the codec that the theorem assumes
		h.out.Checked()
		dec := make([]byte, base32Encoding.DecodedLen(len(enc)))
		dn, derr := base32Encoding.Decode(dec, enc)
		if derr != nil || !bytes.Equal(dec[:dn], p) || !bytes.Equal(bytes.ToUpper(enc), enc) {
			h.out.OracleFail("C15:base32-laws", "base32 decode(encode(p)) != p or the alphabet contains lower-case letters", "len="+strconv.Itoa(n))
		}
		line := fmt.Sprintf("codec|sendname|%s|%s", vlib.Hex(enc), showName(domain))
		conn := &captureConn{}
		c := &DNSPacketConn{domain: domain}
		var err error
		before := h.withRand(func() { err = c.send(conn, p) }) // the query ID is the first two bytes send draws
		qline := fmt.Sprintf("codec|query|%s|%s|%d", vlib.Hex(enc), showName(domain), binary.BigEndian.Uint16(before.Bytes(2)))
		if err != nil {
			h.out.Case(qline, "err "+c15Err(err), false)
		} else if len(conn.wrote) == 1 {
			h.out.Case(qline, "ok "+vlib.Hex(conn.wrote[0]), true)
		}
		// spec: name = labels of <= 63 base32 characters + domain, <= 255 octets in all
		labels := chunks(bytes.ToLower(enc), 63)
		fits := nameSpecValid(append(append([][]byte{}, labels...), domain...))
		if err != nil {
			h.out.Case(line, "err "+c15Err(err), false)
			h.out.Count("query:rejected-" + c15Err(err))
			if fits {
				h.out.OracleFail("C15:query-rejects-representable", "send refuses a packet whose name fits: "+err.Error(), line)
			}
			continue
		}
		if !fits || len(conn.wrote) != 1 {
			h.out.OracleFail("C15:query-accepts-unrepresentable", "send accepted a packet whose name does not fit, or wrote no query", line)
			continue
		}
		limit = n
		q, perr := dns.MessageFromWireFormat(conn.wrote[0])
		if perr != nil || len(q.Question) != 1 {
			h.out.OracleFail("C15:query-roundtrip", fmt.Sprintf("the query does not parse: %v", perr), line)
			continue
		}
		h.out.Case(line, "ok "+showName(q.Question[0].Name), true)
		rmsg, payload := h.respFor(resp, &q, domain)
		if rmsg != nil && (n%7 == 0 || n < 4) {
			h.responses(resp, rmsg, domain)
		}
		if n%5 == 0 || n < 3 {
			h.oddQueries(resp, &q, domain)
		}
		if n%16 == 0 || n == 147 {
			h.lenient(conn.wrote[0])
		}
		rans := "none"
		if pre, ok := q.Question[0].Name.TrimSuffix(domain); ok {
			rans = "ok " + vlib.Hex(bytes.ToUpper(bytes.Join(pre, nil)))
		}
		h.out.Case(fmt.Sprintf("codec|recvenc|%s|%s", showName(q.Question[0].Name), showName(domain)), rans, true)
		if !bytes.Equal(payload, p) && !(len(p) == 0 && len(payload) == 0) {
			h.out.OracleFail("C15:query-roundtrip", fmt.Sprintf("responder extracted %d bytes from the query of a %d-byte packet", len(payload), n), line)
		}
		h.out.Count("query:roundtrip")
		h.recased(resp, domain, &q, p)
	}
	h.out.Note(fmt.Sprintf("largest packet that fits a query under %s: %d bytes", domain.String(), limit))
	// suffix matching: other domain, other case
	other, _ := dns.ParseName("T.Example.COM")
	for _, d := range []dns.Name{other, {[]byte("example"), []byte("com")}, {[]byte("x")}, {}} {
		n, _ := dns.NewName(append([][]byte{[]byte("mfrgg")}, domain...))
		rans := "none"
		if pre, ok := n.TrimSuffix(d); ok {
			rans = "ok " + vlib.Hex(bytes.ToUpper(bytes.Join(pre, nil)))
		}
		h.out.Case(fmt.Sprintf("codec|recvenc|%s|%s", showName(n), showName(d)), rans, true)
	}
}

// lenient: RecvAndRespond only logs a parse error and goes on with whatever MessageFromWireFormat
// returned next to it (the header and the entries read before the failure; the whole message when the
// error is "trailing bytes"). The model mirrors that (lenientParse); here every truncation of a real
// query and the query followed by further bytes.
func (h *c15) lenient(query []byte) {
	try := func(buf []byte) {
		buf = exactCap(buf)
		var m dns.Message
		ans := guard(func() string {
			m, _ = dns.MessageFromWireFormat(buf)
			return showMsg(&m)
		})
		h.out.Case("codec|lenient|"+vlib.Hex(buf), ans, len(m.Question) > 0)
		h.out.Count("msg:lenient-parse")
	}
	for k := 0; k <= len(query); k++ {
		try(query[:k])
	}
	for _, extra := range [][]byte{{0}, h.r.Bytes(1 + h.r.Intn(20)), query} {
		try(append(append([]byte(nil), query...), extra...))
	}
}

func cloneMsg(m *dns.Message) *dns.Message {
	c := *m
	c.Question = append([]dns.Question(nil), m.Question...)
	c.Answer = append([]dns.RR(nil), m.Answer...)
	c.Authority = append([]dns.RR(nil), m.Authority...)
	c.Additional = append([]dns.RR(nil), m.Additional...)
	return &c
}

// respFor: responseFor of the real responder on q, as a correspondence case (the base32 decoding of the
// text in front of the domain is handed to the model as a table)
func (h *c15) respFor(resp *responder.Responder, q *dns.Message, domain dns.Name) (*dns.Message, []byte) {
	tb := table{}
	if len(q.Question) == 1 {
		if pre, ok := q.Question[0].Name.TrimSuffix(domain); ok {
			text := bytes.ToUpper(bytes.Join(pre, nil))
			dec := make([]byte, base32Encoding.DecodedLen(len(text)))
			if n, err := base32Encoding.Decode(dec, text); err != nil {
				tb["b32:"+hx(text)] = "FAIL"
			} else {
				tb["b32:"+hx(text)] = hx(dec[:n])
			}
		}
	}
	line := fmt.Sprintf("codec|respfor|%s|%s|%d|%s", showMsg(q), showName(domain), resp.VerifMaxUDPPayload(), tb)
	var rmsg *dns.Message
	var payload []byte
	ans := guard(func() string {
		rmsg, payload = resp.VerifResponseFor(cloneMsg(q))
		if rmsg == nil {
			return "nil"
		}
		pl := "none"
		if payload != nil {
			pl = vlib.Hex(payload)
		}
		return "resp " + showMsg(rmsg) + " " + pl
	})
	h.out.Case(line, ans, payload != nil)
	if strings.HasPrefix(ans, "panic") {
		h.out.Checked()
		h.out.OracleFail("C15:decoder-panics:responsefor", "responseFor panics on a parsed query: "+ans, line)
		return nil, nil
	}
	h.out.Count("respfor:" + strings.SplitN(ans, " ", 2)[0])
	return rmsg, payload
}

// oddQueries: the query of a real packet with one thing wrong at a time; no payload may come out of a
// query that is not a plain TXT question under the domain, and the model must agree on the answer
func (h *c15) oddQueries(resp *responder.Responder, q *dns.Message, domain dns.Name) {
	opt := dns.RR{Name: dns.Name{}, Type: dns.RRTypeOPT, Class: 4096, Data: []byte{}}
	muts := []func(m *dns.Message) bool{ // true: a payload may still be extracted
		func(m *dns.Message) bool { m.Flags |= 0x8000; return false },
		func(m *dns.Message) bool { m.Flags |= uint16(1+h.r.Intn(15)) << 11; return false },
		func(m *dns.Message) bool { m.Question = append(m.Question, m.Question[0]); return false },
		func(m *dns.Message) bool { m.Question = nil; return false },
		func(m *dns.Message) bool { m.Question[0].Type = uint16([]int{1, 2, 15, 17, 28, 255}[h.r.Intn(6)]); return false },
		func(m *dns.Message) bool { m.Question[0].Class = uint16(h.r.Intn(5)); return true },
		func(m *dns.Message) bool { m.Additional = nil; return false },
		func(m *dns.Message) bool { m.Additional = append(m.Additional, opt); return false },
		func(m *dns.Message) bool { m.Additional[0].TTL = uint32(1+h.r.Intn(255)) << 16; return false },
		func(m *dns.Message) bool { m.Additional[0].TTL = uint32(h.r.U64()) &^ 0x00ff0000; return true },
		func(m *dns.Message) bool {
			c := []int{0, 511, 512, 1231, 1232, 1233, 4096, 65535}[h.r.Intn(8)]
			m.Additional[0].Class = uint16(c)
			return c >= 1232
		},
		func(m *dns.Message) bool { // an unrelated record in front of the OPT
			m.Additional = append([]dns.RR{{Name: domain, Type: 1, Class: 1, Data: []byte{1, 2, 3, 4}}}, m.Additional...)
			return true
		},
		func(m *dns.Message) bool { // another domain
			n := m.Question[0].Name
			m.Question[0].Name = append(append(dns.Name{}, n[:len(n)-1]...), []byte("org"))
			return false
		},
		func(m *dns.Message) bool { // the domain in another case
			n := append(dns.Name{}, m.Question[0].Name...)
			n[len(n)-1] = bytes.ToUpper(n[len(n)-1])
			m.Question[0].Name = n
			return true
		},
		func(m *dns.Message) bool { // labels in upper / mixed case
			n := append(dns.Name{}, m.Question[0].Name...)
			if len(n) > len(domain) {
				n[0] = bytes.ToUpper(n[0])
			}
			m.Question[0].Name = n
			return true
		},
		func(m *dns.Message) bool { // text that is not base32
			n := append(dns.Name{[]byte([]string{"!", "1", "abc=", "8", "aa-"}[h.r.Intn(5)])}, domain...)
			m.Question[0].Name = n
			return false
		},
		func(m *dns.Message) bool { m.Question[0].Name = domain; return true }, // nothing in front of the domain
	}
	for k, mut := range muts {
		m := cloneMsg(q)
		may := mut(m)
		_, payload := h.respFor(resp, m, domain)
		h.out.Checked()
		if payload != nil && !may {
			h.out.OracleFail("C15:query-payload-from-odd-query", fmt.Sprintf("responseFor extracts a payload from a query that is not a plain TXT query under the domain (kind %d)", k), "codec|respfor|"+showMsg(m))
		}
	}
}

// responses: the response packaging of the responder (dnsRespToUDPResp) against the payload extraction
// of the requester (MessageFromWireFormat + dnsResponsePayload), for payloads of every shape of the
// TXT chunking; then the same response with one thing wrong at a time
func (h *c15) responses(resp *responder.Responder, rmsg *dns.Message, domain dns.Name) {
	for _, n := range []int{0, 1, h.r.Intn(254) + 1, 254, 255, 256, 509, 510, 511, h.r.Intn(900)} {
		payload := h.r.Bytes(n)
		r := cloneMsg(rmsg)
		line := fmt.Sprintf("codec|udpresp|%s|%s", showMsg(r), vlib.Hex(payload))
		var buf []byte
		var err error
		ans := guard(func() string {
			buf, err = resp.VerifDNSRespToUDPResp(r, payload)
			return okOrErr(buf, err)
		})
		h.out.Case(line, ans, err == nil)
		h.out.Checked()
		if err != nil || strings.HasPrefix(ans, "panic") {
			h.out.OracleFail("C15:response-rejects-representable", fmt.Sprintf("dnsRespToUDPResp fails for a %d-byte payload: %s", n, ans), line)
			continue
		}
		got := h.respPayload(buf, domain)
		if rmsg.Rcode() == dns.RcodeNoError && !bytes.Equal(got, payload) {
			h.out.OracleFail("C15:response-roundtrip", fmt.Sprintf("the requester extracts %d bytes from the response that carries a %d-byte payload", len(got), n), line)
		}
		h.out.Count("response:roundtrip")
		// the same response, altered
		back, perr := dns.MessageFromWireFormat(buf)
		if perr != nil || len(back.Answer) != 1 {
			continue
		}
		for _, mut := range []func(m *dns.Message){
			func(m *dns.Message) { m.Flags &^= 0x8000 },
			func(m *dns.Message) { m.Flags |= uint16(1 + h.r.Intn(15)) },
			func(m *dns.Message) { m.Answer = append(m.Answer, m.Answer[0]) },
			func(m *dns.Message) { m.Answer = nil },
			func(m *dns.Message) { m.Answer[0].Type = uint16([]int{1, 5, 15, 17}[h.r.Intn(4)]) },
			func(m *dns.Message) { m.Answer[0].Name = dns.Name{[]byte("other"), []byte("org")} },
			func(m *dns.Message) { m.Answer[0].Data = m.Answer[0].Data[:len(m.Answer[0].Data)-1] },
			func(m *dns.Message) { m.Answer[0].Data = append(append([]byte(nil), m.Answer[0].Data...), 7) },
			func(m *dns.Message) { m.Answer[0].Data = nil },
		} {
			m := cloneMsg(&back)
			mut(m)
			if b2, e2 := m.WireFormat(); e2 == nil {
				h.respPayload(b2, domain)
			}
		}
	}
}

// respPayload: what recvLoop queues for a datagram (nil when it is dropped or carries no payload; in Go
// an empty payload is nil as well)
func (h *c15) respPayload(buf []byte, domain dns.Name) []byte {
	buf = exactCap(buf)
	var payload []byte
	ans := guard(func() string {
		m, err := dns.MessageFromWireFormat(buf)
		if err == nil {
			payload = dnsResponsePayload(&m, domain)
		}
		return "payload " + vlib.Hex(payload)
	})
	line := fmt.Sprintf("codec|resppayload|%s|%s", vlib.Hex(buf), showName(domain))
	h.out.Case(line, ans, len(payload) > 0)
	if strings.HasPrefix(ans, "panic") {
		h.out.Checked()
		h.out.OracleFail("C15:decoder-panics:response-payload", "the requester's response decoding panics: "+ans, line)
	}
	h.out.Count("response:payload-extraction")
	return payload
}

// ---------------------------------------------------------------------------------------------
// 6. the encrypted exchange over a loopback UDP socket

// requestFits: does a request of n bytes fit a query under domain? Written down from the formats, not
// taken from the code: Noise N adds a 32-byte ephemeral key and a 16-byte tag, the frame one byte; base32
// without padding; labels of at most 63 characters; at most 255 octets of name.
func requestFits(n int, domain dns.Name) bool {
	packet := n + 32 + 16 + 1
	if packet-1 > 255 {
		return false
	}
	chars := (packet*8 + 4) / 5
	total := 1
	for _, l := range domain {
		total += 1 + len(l)
	}
	return total+chars+(chars+62)/63 <= 255
}

// responseFits: does an answer of n bytes to a request of reqLen bytes fit the responder's datagram limit?
// header 12, question (name + 4), answer (pointer 2 + 10 + TXT), OPT 11; TXT = one length byte per 255 bytes.
func responseFits(reqLen, n int, domain dns.Name, limit int) bool {
	packet := reqLen + 49
	chars := (packet*8 + 4) / 5
	name := 1 + chars + (chars+62)/63
	for _, l := range domain {
		name += 1 + len(l)
	}
	framed := n + 16 + 2
	txt := framed + (framed+254)/255
	return 12+name+4+2+10+txt+11 <= limit
}

// chanConn: the datagram socket between requester and responder, in memory (nothing is ever lost, so an
// exchange that does not complete is a hang and not a dropped datagram)
type chanAddr struct{}

func (chanAddr) Network() string { return "chan" }
func (chanAddr) String() string  { return "responder.mem" }

type chanConn struct {
	in, out chan []byte
	closed  chan struct{}
	path    func([]byte) []byte // what the path does to a datagram on its way out (nil: nothing)
}

func (c *chanConn) Read(p []byte) (int, error) {
	select {
	case b := <-c.in:
		return copy(p, b), nil
	case <-c.closed:
		return 0, io.EOF
	}
}
func (c *chanConn) Write(p []byte) (int, error) {
	d := append([]byte(nil), p...)
	if c.path != nil {
		d = c.path(d)
	}
	select {
	case c.out <- d:
		return len(p), nil
	case <-c.closed:
		return 0, io.ErrClosedPipe
	}
}
func (c *chanConn) ReadFrom(p []byte) (int, net.Addr, error) { n, err := c.Read(p); return n, chanAddr{}, err }
func (c *chanConn) WriteTo(p []byte, a net.Addr) (int, error) { return c.Write(p) }
func (c *chanConn) Close() error {
	select {
	case <-c.closed:
	default:
		close(c.closed)
	}
	return nil
}
func (c *chanConn) LocalAddr() net.Addr                { return chanAddr{} }
func (c *chanConn) RemoteAddr() net.Addr               { return chanAddr{} }
func (c *chanConn) SetDeadline(t time.Time) error      { return nil }
func (c *chanConn) SetReadDeadline(t time.Time) error  { return nil }
func (c *chanConn) SetWriteDeadline(t time.Time) error { return nil }

type c15Seen struct{ req []byte }

// c15Link: one responder (the real RecvAndRespond) and a way to make requesters for it
type c15Link struct {
	h         *c15
	name      string
	domain    dns.Name
	limit     int
	mu        sync.Mutex
	answer    []byte
	got       chan c15Seen
	newReq    func() (*Requester, error)
	abandoned map[string]bool
	lossy     bool      // a datagram may be lost (real socket): one exchange that does not complete is no verdict
	path      func([]byte) []byte // mem link: what the resolvers on the path do to a query (see recaseQuery)
	client    *chanConn // mem link: the requester end that responses go to
}

// memServer: the responder's end of the in-memory link; a response goes to the current requester
type memServer struct {
	chanConn
	l *c15Link
}

func (m *memServer) WriteTo(p []byte, a net.Addr) (int, error) {
	m.l.mu.Lock()
	c := m.l.client
	m.l.mu.Unlock()
	if c != nil {
		select {
		case c.in <- append([]byte(nil), p...):
		case <-c.closed:
		default:
		}
	}
	return len(p), nil
}

func (l *c15Link) callback(b []byte) ([]byte, error) {
	l.mu.Lock()
	a := l.answer
	l.mu.Unlock()
	select {
	case l.got <- c15Seen{append([]byte(nil), b...)}:
	default:
	}
	return a, nil
}

type c15Res struct {
	b   []byte
	err error
}

// one exchange; ok = it completed within the limit
func (l *c15Link) try(req *Requester, p []byte, limit time.Duration) (c15Res, bool) {
	done := make(chan c15Res, 1)
	go func() {
		b, err := req.RequestAndRecv(p)
		done <- c15Res{b, err}
	}()
	select {
	case r := <-done:
		return r, true
	case <-time.After(limit):
		return c15Res{}, false
	}
}

func closeReq(req *Requester) {
	defer func() { _ = recover() }() // Requester.Close dereferences a nil transport when nothing was ever sent
	if req != nil && req.transport != nil {
		_ = req.Close()
	}
}

// exchange runs one request/response pair and judges it. completed=false: neither attempt came back.
func (l *c15Link) exchange(req **Requester, p, answer []byte) (completed bool) {
	h := l.h
	replay := fmt.Sprintf("exchange|%s|%s|%s", l.name, vlib.Hex(p), vlib.Hex(answer))
	l.mu.Lock()
	l.answer = answer
	l.mu.Unlock()
	for len(l.got) > 0 {
		<-l.got
	}
	fits := requestFits(len(p), l.domain)
	first := 4 * time.Second
	if !fits {
		first = 5 * time.Second
	}
	r, ok := l.try(*req, p, first)
	if !ok {
		// abandoned: its callback and its response may still arrive; a fresh requester has its own socket
		l.abandoned[string(p)] = true
		closeReq(*req)
		nr, err := l.newReq()
		if err != nil {
			h.out.OracleFail("C15:exchange", "cannot make a second requester: "+err.Error(), replay)
			return false
		}
		*req = nr
		if r, ok = l.try(*req, p, 12*time.Second); !ok {
			l.abandoned[string(p)] = true
			closeReq(*req)
			if nr, err := l.newReq(); err == nil {
				*req = nr
			}
			if !fits { // nothing is sent for such a request, so no datagram was lost: it is the caller that is stuck
				h.out.Checked()
				h.out.Count("exchange:" + l.name + ":oversize-request-hangs")
				h.out.OracleFail("C15:exchange-oversize-request-hangs",
					fmt.Sprintf("a %d-byte request does not fit a query under %s; RequestAndRecv neither sends it nor returns an error: it had not returned after 5 s and, tried again, after 12 s", len(p), l.domain.String()), replay)
				return true
			}
			h.out.Count("exchange:" + l.name + ":incomplete")
			if !l.lossy {
				h.out.Checked()
				h.out.OracleFail("C15:exchange-never-completes", fmt.Sprintf("a %d-byte request with a %d-byte response over a link that loses nothing did not complete within 4 s and, repeated, within 12 s", len(p), len(answer)), replay)
			}
			return false
		}
		h.out.Count("exchange:" + l.name + ":completed-on-second-attempt")
	}
	h.out.Checked()
	// what the responder's callback saw for this request
	var seen [][]byte
	for len(l.got) > 0 {
		s := <-l.got
		seen = append(seen, s.req)
	}
	same := func(a, b []byte) bool { return bytes.Equal(a, b) }
	delivered, altered := false, []byte(nil)
	for _, s := range seen {
		switch {
		case same(s, p):
			delivered = true
		case !l.abandoned[string(s)]:
			altered = s
		}
	}
	if !fits {
		// a request the channel cannot carry: an error, and nothing (certainly nothing else) delivered
		if r.err == nil || delivered || altered != nil {
			h.out.OracleFail("C15:exchange-oversize-request-accepted", fmt.Sprintf("a %d-byte request does not fit a query under %s but RequestAndRecv returned err=%v (delivered=%v)", len(p), l.domain.String(), r.err, delivered || altered != nil), replay)
		} else {
			h.out.Count("exchange:" + l.name + ":oversize-request-refused")
		}
		return true
	}
	if altered != nil {
		h.out.OracleFail("C15:exchange-request-altered", fmt.Sprintf("responder callback received %d bytes for a %d-byte request", len(altered), len(p)), replay)
		return true
	}
	if !delivered {
		h.out.OracleFail("C15:exchange", fmt.Sprintf("requester returned (err=%v) but the responder's callback never ran for the request", r.err), replay)
		return true
	}
	rfits := responseFits(len(p), len(answer), l.domain, l.limit)
	switch {
	case !rfits && r.err != nil:
		h.out.Count("exchange:" + l.name + ":oversize-response-refused")
	case !rfits:
		h.out.OracleFail("C15:exchange-oversize-response-accepted", fmt.Sprintf("a %d-byte response does not fit the %d-byte datagram limit, yet the requester got %d bytes and no error", len(answer), l.limit, len(r.b)), replay)
	case r.err != nil || !same(r.b, answer):
		h.out.OracleFail("C15:exchange-response-altered", fmt.Sprintf("requester received %d bytes (err=%v) for a %d-byte response", len(r.b), r.err, len(answer)), replay)
	default:
		h.out.Count("exchange:" + l.name + ":ok")
	}
	return true
}

// run: every request length up to the largest that fits and a few beyond, then random pairs; responses
// around the chunking and datagram limits
func (l *c15Link) run(all bool, nrandom int) {
	h := l.h
	req, err := l.newReq()
	if err != nil {
		h.out.OracleFail("C15:exchange", "cannot make a requester: "+err.Error(), "exchange|"+l.name)
		return
	}
	defer func() { closeReq(req) }()
	maxFit := 0
	for requestFits(maxFit+1, l.domain) {
		maxFit++
	}
	completedAny, failed, stopped := false, 0, false
	do := func(reqLen, ansLen int) bool {
		if failed >= 3 && !completedAny { // nothing gets through at all: do not wait for the rest
			if l.lossy && !stopped {
				h.out.OracleFail("C15:exchange-never-completes", "none of the first three exchanges over loopback UDP completed (each tried twice, 4 s and 12 s)", "exchange|"+l.name)
			}
			stopped = true
			return false
		}
		if l.exchange(&req, h.r.Bytes(reqLen), h.r.Bytes(ansLen)) {
			completedAny = true
		} else {
			failed++
		}
		return true
	}
	ansLens := []int{0, 1, 200, 234, 235, 236, 237, 238, 489, 490, 491, 492, 493, 800}
	// the datagram limit for the shortest and the longest request
	for _, rl := range []int{0, maxFit} {
		edge := 0
		for responseFits(rl, edge+1, l.domain, l.limit) {
			edge++
		}
		for _, d := range []int{-1, 0, 1, 2, 60} {
			if !do(rl, edge+d) {
				return
			}
		}
	}
	if all {
		for n := 0; n <= maxFit; n++ {
			if !do(n, ansLens[n%len(ansLens)]) {
				return
			}
		}
	} else {
		for _, n := range []int{0, 1, maxFit - 1, maxFit} {
			if !do(n, ansLens[h.r.Intn(len(ansLens))]) {
				return
			}
		}
	}
	// requests that do not fit the query name, and requests that do not even fit the frame
	for _, n := range []int{maxFit + 1, maxFit + 2, 150, 207, 208, 255, 256, 1000} {
		if !do(n, 10) {
			return
		}
	}
	for i := 0; i < nrandom; i++ {
		if !do(h.r.Intn(maxFit+1), h.r.Intn(1400)) {
			return
		}
	}
	if failed*2 > nrandom+10 && l.lossy {
		h.out.OracleFail("C15:exchange-never-completes", fmt.Sprintf("%d exchanges over loopback UDP did not complete (each tried twice, 4 s and 12 s)", failed), "exchange|"+l.name)
	}
}

func (h *c15) newLink(t *testing.T, privkey []byte, domain string, mem bool) *c15Link {
	resp, err := responder.NewDnsResponder(domain, "127.0.0.1:0", privkey)
	if err != nil {
		// a clause of the property that is not exercised must not look like a pass
		t.Fatalf("the exchange clause cannot be exercised: responder.NewDnsResponder: %v", err)
	}
	t.Cleanup(func() { resp.Close() })
	dom, _ := dns.ParseName(domain)
	l := &c15Link{h: h, name: "udp", domain: dom, limit: resp.VerifMaxUDPPayload(), got: make(chan c15Seen, 256), abandoned: map[string]bool{}, lossy: true}
	pub := encryption.PubkeyFromPrivkey(privkey)
	if mem {
		l.name, l.lossy = "mem", false
		toResp := make(chan []byte, 64)
		_ = resp.Close() // the socket NewDnsResponder opened is not used
		server := &memServer{chanConn: chanConn{in: toResp, closed: make(chan struct{})}, l: l}
		resp.VerifSetTransport(server)
		l.newReq = func() (*Requester, error) {
			// the client end of the link; the requester's own packet layer (DNSPacketConn) on top of it
			client := &chanConn{in: make(chan []byte, 64), out: toResp, closed: make(chan struct{}), path: l.path}
			l.mu.Lock()
			if l.client != nil {
				_ = l.client.Close() // ends the packet layer of an abandoned requester
			}
			l.client = client
			l.mu.Unlock()
			return &Requester{transport: NewDNSPacketConn(client, chanAddr{}, dom), remoteAddr: chanAddr{}, pubkey: pub}, nil
		}
	} else {
		target := resp.VerifLocalAddr().String()
		l.newReq = func() (*Requester, error) {
			return NewRequester(&Config{TransportMethod: UDP, Target: target, BaseDomain: domain, Pubkey: pub})
		}
	}
	go func() { _ = resp.RecvAndRespond(l.callback) }()
	return l
}

func (h *c15) exchanges(t *testing.T, privkey []byte, domain string) {
	pc, err := net.ListenPacket("udp", "127.0.0.1:0")
	if err != nil {
		t.Fatalf("the exchange clause cannot be exercised: no UDP socket on loopback: %v", err)
	}
	pc.Close()
	// in memory: every request length, nothing can be lost
	h.newLink(t, privkey, domain, true).run(true, vlib.Budget(60, 1500))
	// in memory, behind resolvers that rewrite the letter case of the query name (DNS names compare
	// case-insensitively; 0x20 randomisation, case normalisation): every exchange must still complete
	for kind := 0; kind < recaseKinds; kind++ {
		l := h.newLink(t, privkey, domain, true)
		l.name = fmt.Sprintf("mem-recase%d", kind)
		k := kind
		l.path = func(d []byte) []byte { return h.recaseQuery(d, k) }
		l.run(false, vlib.Budget(6, 150))
	}
	// over a real UDP socket on loopback
	h.newLink(t, privkey, domain, false).run(vlib.Tier() == "thorough", vlib.Budget(25, 300))
}

// ---------------------------------------------------------------------------------------------
// 7. tag obfuscators with real keys

type table map[string]string

func (tb table) String() string {
	l := make([]string, 0, len(tb))
	for k, v := range tb {
		l = append(l, k+"="+v)
	}
	return vlib.SortedJoin(l, ";")
}

func hx(b []byte) string { return vlib.Hex(b) }

// pinned derivation: shared = X25519(priv, pub); h = SHA-256(shared); key = h[:16]; CTR iv = h[16:32]; GCM nonce = h[16:28]
func (tb table) addDH(priv, pubName, pub []byte) []byte {
	shared, err := curve25519.X25519(priv, pub)
	if err != nil {
		tb["dh:"+hx(priv)+":"+hx(pubName)] = "FAIL"
		return nil
	}
	tb["dh:"+hx(priv)+":"+hx(pubName)] = hx(shared)
	hsh := sha256.Sum256(shared)
	tb["hash:"+hx(shared)] = hx(hsh[:])
	return hsh[:]
}

func (tb table) addCTR(hsh, in []byte) {
	block, _ := aes.NewCipher(hsh[:16])
	o := make([]byte, len(in))
	cipher.NewCTR(block, hsh[16:32]).XORKeyStream(o, in)
	tb["ctr:"+hx(hsh[:16])+":"+hx(hsh[16:32])+":"+hx(in)] = hx(o)
}

func (tb table) addSeal(hsh, pt []byte) {
	block, _ := aes.NewCipher(hsh[:16])
	g, _ := cipher.NewGCM(block)
	tb["seal:"+hx(hsh[:16])+":"+hx(hsh[16:28])+":"+hx(pt)] = hx(g.Seal(nil, hsh[16:28], pt, nil))
}

func (tb table) addOpen(hsh, ct []byte) {
	block, _ := aes.NewCipher(hsh[:16])
	g, _ := cipher.NewGCM(block)
	key := "open:" + hx(hsh[:16]) + ":" + hx(hsh[16:28]) + ":" + hx(ct)
	pt, err := g.Open(nil, hsh[16:28], ct, nil)
	if err != nil {
		tb[key] = "FAIL"
		return
	}
	tb[key] = hx(pt)
}

type keypair struct {
	priv [32]byte
	pub  []byte
}

func (h *c15) keypair() keypair {
	var k keypair
	copy(k.priv[:], h.r.Bytes(32))
	pub, err := curve25519.X25519(k.priv[:], curve25519.Basepoint)
	if err != nil {
		panic(err)
	}
	k.pub = pub
	return k
}

// withRand runs f with crypto/rand.Reader replaced by a copy of the harness generator and returns the
// state the generator had before, so that the draws can be replayed.
func (h *c15) withRand(f func()) vlib.Rand {
	before := *h.r
	saved := crand.Reader
	crand.Reader = h.r
	defer func() { crand.Reader = saved }()
	f()
	return before
}

// draws replays what Obfuscate read: 32-byte private keys until one has a representative, then one byte.
func replayDraws(src *vlib.Rand, tb table) (draws [][]byte, priv []byte, repr []byte, rb byte) {
	for {
		var p, pub, rep [32]byte
		copy(p[:], src.Bytes(32))
		ok := extra25519.ScalarBaseMult(&pub, &rep, &p)
		draws = append(draws, append([]byte(nil), p[:]...))
		if ok {
			tb["repr:"+hx(p[:])] = hx(rep[:])
			priv, repr = p[:], rep[:]
			break
		}
		tb["repr:"+hx(p[:])] = "FAIL"
	}
	rb = src.Bytes(1)[0]
	return
}

func joinHex(l [][]byte) string {
	s := make([]string, len(l))
	for i := range l {
		s[i] = hx(l[i])
	}
	return strings.Join(s, ",")
}

// revealTable holds what the primitives answer for the representative with its two high bits cleared
// (what TryReveal must use) and for the representative as received (what it would use had it forgotten
// the mask), so that either mistake shows as a different answer.
func (h *c15) revealTable(ct []byte, kp keypair, minLen int, gcm bool) table {
	tb := table{}
	if len(ct) < minLen || len(ct) < 32 {
		return tb
	}
	for _, mask := range []byte{0x3f, 0xff} {
		var rep, pub [32]byte
		copy(rep[:], ct[:32])
		rep[31] &= mask
		extra25519.RepresentativeToPublicKey(&pub, &rep)
		hsh := tb.addDH(kp.priv[:], rep[:], pub[:])
		if hsh == nil {
			continue
		}
		if gcm {
			tb.addOpen(hsh, ct[32:])
		} else {
			tb.addCTR(hsh, ct[32:])
		}
	}
	return tb
}

// revealOracle: a decoder on given bytes leaves them alone and answers the same when asked again
func (h *c15) revealOracle(name string, o transports.Obfuscator, ct []byte, kp keypair, line string) ([]byte, error) {
	ct = exactCap(ct)
	sent := exactCap(ct)
	back, rerr := o.TryReveal(ct, kp.priv)
	back = append([]byte(nil), back...)
	h.out.Checked()
	if !bytes.Equal(ct, sent) {
		h.out.OracleFail("C15:decoder-alters-input:"+name, name+": TryReveal changed the bytes it was given", line)
		ct = exactCap(sent)
	}
	if again, aerr := o.TryReveal(ct, kp.priv); (aerr == nil) != (rerr == nil) || !bytes.Equal(again, back) {
		h.out.OracleFail("C15:decode-not-repeatable:"+name, fmt.Sprintf("%s: revealing the same bytes twice gives different answers (err %v, then %v)", name, rerr, aerr), line)
	}
	return back, rerr
}

// obfsOracle: the property for one tag, with fresh keys and fresh draws (used by replays; the generator
// below does the same with controlled draws so that the model can follow)
func (h *c15) obfsOracle(name string, o transports.Obfuscator, pt []byte, line string) {
	kp, wrong := h.keypair(), h.keypair()
	ct, err := o.Obfuscate(pt, kp.pub)
	h.out.Checked()
	if err != nil {
		if !(name == "xor" && len(pt) == 0) {
			h.out.OracleFail("C15:obfuscator-rejects-representable", name+": Obfuscate fails on a valid tag and key: "+err.Error(), line)
		}
		return
	}
	sent := exactCap(ct)
	_, _ = o.TryReveal(ct, wrong.priv)
	if !bytes.Equal(ct, sent) {
		h.out.OracleFail("C15:decoder-alters-input:"+name, name+": TryReveal with another key changed the encoding it was given; the holder of the right key can no longer reveal it", line)
		ct = exactCap(sent)
	}
	back, rerr := h.revealOracle(name, o, ct, kp, line)
	if rerr != nil || !bytes.Equal(back, pt) {
		h.out.OracleFail("C15:obfuscator-roundtrip-"+name, fmt.Sprintf("%s: TryReveal(Obfuscate(tag)) != tag for a %d-byte tag (err=%v)", name, len(pt), rerr), line)
	}
	if name != "nil" && len(pt) >= 4 {
		seen := map[string]bool{string(sent): true}
		for k := 0; k < 6; k++ {
			if c2, e2 := o.Obfuscate(pt, kp.pub); e2 == nil {
				seen[string(c2)] = true
			}
		}
		if len(seen) < 7 {
			h.out.OracleFail("C15:obfuscator-not-fresh", fmt.Sprintf("%s: 7 obfuscations of one %d-byte tag gave only %d distinct encodings", name, len(pt), len(seen)), line)
		}
	}
	fmt.Printf("replay: %s obfuscator, %d-byte tag: checked with fresh keys and draws\n", name, len(pt))
}

func (h *c15) obfuscators() {
	kps := []keypair{h.keypair(), h.keypair(), h.keypair()}
	lens := []int{}
	for n := 0; n <= 70; n++ {
		lens = append(lens, n)
	}
	lens = append(lens, 100, 255, 256, 1000)
	type variant struct {
		name string
		o    transports.Obfuscator
	}
	for _, v := range []variant{{"nil", transports.NilObfuscator{}}, {"xor", transports.XORObfuscator{}},
		{"ctr", transports.CTRObfuscator{}}, {"gcm", transports.GCMObfuscator{}}} {
		for li, n := range lens {
			kp := kps[li%len(kps)]
			pt := h.r.Bytes(n)
			var ct []byte
			var err error
			before := h.withRand(func() { ct, err = v.o.Obfuscate(pt, kp.pub) })
			ans := okOrErr(ct, err)
			var line string
			switch v.name {
			case "nil":
				line = "codec|obfs|nil-obf|" + hx(pt)
			case "xor":
				line = fmt.Sprintf("codec|obfs|xor-obf|%s|%s", hx(before.Bytes(n)), hx(pt))
			default:
				tb := table{}
				draws, priv, _, rb := replayDraws(&before, tb)
				if hsh := tb.addDH(priv, kp.pub, kp.pub); hsh != nil {
					if v.name == "ctr" {
						tb.addCTR(hsh, pt)
					} else {
						tb.addSeal(hsh, pt)
					}
				}
				line = fmt.Sprintf("codec|obfs|%s-obf|%s|%d|%s|%d|%s|%s", v.name, joinHex(draws), rb, hx(pt), len(kp.pub), hx(kp.pub), tb)
				if len(draws) > 1 {
					h.out.Count("obfs:redraw")
				}
			}
			h.out.Case(line, ans, err == nil)
			h.out.Checked()
			if err != nil {
				h.out.Count("obfs:" + v.name + "-rejected")
				if n > 0 || v.name != "xor" { // only the XOR variant has a value it cannot represent: the empty tag
					h.out.OracleFail("C15:obfuscator-rejects-representable", v.name+": Obfuscate fails on a valid tag and key: "+err.Error(), line)
				}
				continue
			}
			// the station offers one received tag to every key it holds, on the same buffer: a reveal -
			// failed or not - must leave the encoding as it was, and a second reveal must answer the same
			sent := exactCap(ct)
			ptSent, pubSent := exactCap(pt), exactCap(kp.pub)
			h.out.Checked()
			if !bytes.Equal(pt, ptSent) || !bytes.Equal(kp.pub, pubSent) {
				h.out.OracleFail("C15:encoder-alters-input:"+v.name, v.name+": Obfuscate changed the tag or the key it was given", line)
			}
			wrong := kps[(li+1)%len(kps)]
			_, _ = v.o.TryReveal(ct, wrong.priv)
			h.out.Checked()
			if !bytes.Equal(ct, sent) {
				h.out.OracleFail("C15:decoder-alters-input:"+v.name, v.name+": TryReveal with another key changed the encoding it was given; the holder of the right key can no longer reveal it", line)
				ct = exactCap(sent)
			}
			back, rerr := v.o.TryReveal(ct, kp.priv)
			back = append([]byte(nil), back...)
			h.out.Checked()
			if !bytes.Equal(ct, sent) {
				h.out.OracleFail("C15:decoder-alters-input:"+v.name, v.name+": TryReveal changed the encoding it was given", line)
				ct = exactCap(sent)
			}
			if again, aerr := v.o.TryReveal(ct, kp.priv); (aerr == nil) != (rerr == nil) || !bytes.Equal(again, back) {
				h.out.OracleFail("C15:decode-not-repeatable:"+v.name, fmt.Sprintf("%s: revealing the same encoding twice gives different answers (err %v, then %v)", v.name, rerr, aerr), line)
			}
			ct = sent
			switch v.name {
			case "nil":
				h.out.Case("codec|obfs|nil-rev|"+hx(ct), okOrErr(back, rerr), true)
			case "xor":
				h.out.Case("codec|obfs|xor-rev|"+hx(ct), okOrErr(back, rerr), rerr == nil)
			case "ctr":
				h.out.Case(fmt.Sprintf("codec|obfs|ctr-rev|%s|%s|%s", hx(ct), hx(kp.priv[:]), h.revealTable(ct, kp, 32, false)), okOrErr(back, rerr), rerr == nil)
			case "gcm":
				h.out.Case(fmt.Sprintf("codec|obfs|gcm-rev|%s|%s|%s", hx(ct), hx(kp.priv[:]), h.revealTable(ct, kp, 48, true)), okOrErr(back, rerr), rerr == nil)
			}
			if rerr != nil || !bytes.Equal(back, pt) {
				sig := "C15:obfuscator-roundtrip-" + v.name
				if v.name == "xor" && n == 0 {
					sig = "C15:xor-obfuscator-empty-tag"
				}
				h.out.OracleFail(sig, fmt.Sprintf("%s: TryReveal(Obfuscate(tag)) != tag for a %d-byte tag (err=%v)", v.name, n, rerr), line)
				continue
			}
			h.out.Count("obfs:" + v.name + "-roundtrip")
			// the two high bits of the representative carry no information: any setting reveals the same tag
			if v.name == "ctr" || v.name == "gcm" {
				for _, bits := range []byte{0x00, 0x40, 0x80, 0xc0} {
					c2 := append([]byte(nil), ct...)
					c2[31] = (c2[31] & 0x3f) | bits
					b2, e2 := v.o.TryReveal(c2, kp.priv)
					h.out.Checked()
					if e2 != nil || !bytes.Equal(b2, pt) {
						h.out.OracleFail("C15:representative-high-bits", fmt.Sprintf("%s: high bits %#x of the representative change the revealed tag", v.name, bits), line)
					}
				}
			}
			// fresh encodings: never the same bytes twice. An XOR tag of n bytes has only 2^8n encodings:
			// from 4 bytes on a repetition among 7 draws is a defect (chance below 2^-27); for 1..3 bytes
			// only an encoder that never varies is (7 equal draws: chance at most 2^-48)
			if v.name == "ctr" || v.name == "gcm" || (v.name == "xor" && n >= 1) {
				seenCT := map[string]bool{string(ct): true}
				repeated := false
				for k := 0; k < 6; k++ {
					c2, e2 := v.o.Obfuscate(pt, kp.pub)
					h.out.Checked()
					if e2 != nil {
						h.out.OracleFail("C15:obfuscator-rejects-representable", v.name+": a repeated Obfuscate of the same valid tag and key fails: "+e2.Error(), line)
						break
					}
					if seenCT[string(c2)] {
						repeated = true
					}
					seenCT[string(c2)] = true
				}
				if (repeated && (v.name != "xor" || n >= 4)) || len(seenCT) == 1 {
					h.out.OracleFail("C15:obfuscator-not-fresh", fmt.Sprintf("%s: %d obfuscations of one %d-byte tag gave only %d distinct encodings", v.name, 7, n, len(seenCT)), line)
				}
				h.out.Count("obfs:" + v.name + "-fresh")
			}
		}
		// station keys with which X25519 has no valid result (the all-zero key, the other points of low
		// order): Obfuscate must fail, not encrypt under a key everybody can compute; every other 32-byte
		// string is a usable key (the expectation comes from curve25519 itself, with an unrelated scalar)
		for _, hk := range []string{
			"0000000000000000000000000000000000000000000000000000000000000000",
			"0100000000000000000000000000000000000000000000000000000000000000",
			"e0eb7a7c3b41b8ae1656e3faf19fc46ada098deb9c32b1fd866205165f49b800",
			"5f9c95bca3508c24b1d0b1559c83ef5b04445cc4581c8e86d8224eddd09f1157",
			"ecffffffffffffffffffffffffffffffffffffffffffffffffffffffffffff7f",
			"edffffffffffffffffffffffffffffffffffffffffffffffffffffffffffff7f",
			"eeffffffffffffffffffffffffffffffffffffffffffffffffffffffffffff7f",
			"ffffffffffffffffffffffffffffffffffffffffffffffffffffffffffffffff",
			"0900000000000000000000000000000000000000000000000000000000000000",
		} {
			if v.name != "ctr" && v.name != "gcm" {
				break
			}
			key := unhex(hk)
			_, probeErr := curve25519.X25519(kps[0].priv[:], key)
			for _, n := range []int{0, 1, 32} {
				pt := h.r.Bytes(n)
				var ct []byte
				var err error
				before := h.withRand(func() { ct, err = v.o.Obfuscate(pt, key) })
				tb := table{}
				draws, priv, _, rb := replayDraws(&before, tb)
				if hsh := tb.addDH(priv, key, key); hsh != nil {
					if v.name == "ctr" {
						tb.addCTR(hsh, pt)
					} else {
						tb.addSeal(hsh, pt)
					}
				}
				line := fmt.Sprintf("codec|obfs|%s-obf|%s|%d|%s|%d|%s|%s", v.name, joinHex(draws), rb, hx(pt), len(key), hx(key), tb)
				h.out.Case(line, okOrErr(ct, err), err == nil)
				h.out.Checked()
				switch {
				case probeErr != nil && err == nil:
					h.out.OracleFail("C15:obfuscator-accepts-low-order-key", v.name+": a station key of low order (no valid shared secret) is accepted", line)
				case probeErr == nil && err != nil:
					h.out.OracleFail("C15:obfuscator-rejects-representable", v.name+": Obfuscate fails on a valid tag and a usable key: "+err.Error(), line)
				case err != nil:
					h.out.Count("obfs:" + v.name + "-low-order-key-rejected")
				default:
					h.out.Count("obfs:" + v.name + "-odd-key-accepted")
				}
			}
		}
		// wrong-size station key
		for _, kl := range []int{0, 31, 33, 64} {
			pt := h.r.Bytes(8)
			key := h.r.Bytes(kl)
			var ct []byte
			var err error
			before := h.withRand(func() { ct, err = v.o.Obfuscate(pt, key) })
			switch v.name {
			case "ctr", "gcm":
				h.out.Case(fmt.Sprintf("codec|obfs|%s-obf||0|%s|%d|%s|", v.name, hx(pt), kl, hx(key)), okOrErr(ct, err), false)
				h.out.Checked()
				if err == nil {
					h.out.OracleFail("C15:obfuscator-accepts-bad-key", fmt.Sprintf("%s: a %d-byte station key is accepted", v.name, kl), hx(key))
				}
			}
			_ = before
		}
		// the decoders on arbitrary bytes
		for i := 0; i < vlib.Budget(150, 5000); i++ {
			kp := kps[i%len(kps)]
			ct := h.r.Bytes(h.r.Intn(90))
			sent := exactCap(ct)
			back, rerr := v.o.TryReveal(ct, kp.priv)
			back = append([]byte(nil), back...)
			h.out.Checked()
			if !bytes.Equal(ct, sent) {
				h.out.OracleFail("C15:decoder-alters-input:"+v.name, v.name+": TryReveal changed the bytes it was given", "codec|obfs|"+v.name+"-rev|"+hx(sent))
			} else if again, aerr := v.o.TryReveal(ct, kp.priv); (aerr == nil) != (rerr == nil) || !bytes.Equal(again, back) {
				h.out.OracleFail("C15:decode-not-repeatable:"+v.name, v.name+": revealing the same bytes twice gives different answers", "codec|obfs|"+v.name+"-rev|"+hx(sent))
			}
			ct = sent
			switch v.name {
			case "nil":
				h.out.Case("codec|obfs|nil-rev|"+hx(ct), okOrErr(back, rerr), true)
			case "xor":
				h.out.Case("codec|obfs|xor-rev|"+hx(ct), okOrErr(back, rerr), rerr == nil)
			case "ctr":
				h.out.Case(fmt.Sprintf("codec|obfs|ctr-rev|%s|%s|%s", hx(ct), hx(kp.priv[:]), h.revealTable(ct, kp, 32, false)), okOrErr(back, rerr), rerr == nil)
			case "gcm":
				h.out.Case(fmt.Sprintf("codec|obfs|gcm-rev|%s|%s|%s", hx(ct), hx(kp.priv[:]), h.revealTable(ct, kp, 48, true)), okOrErr(back, rerr), rerr == nil)
			}
			h.out.Count("obfs:" + v.name + "-reveal-arbitrary")
		}
	}
	// the laws the theorems assume, on the real primitives
	for i := 0; i < vlib.Budget(50, 2000); i++ {
		a, b := h.keypair(), h.keypair()
		s1, e1 := curve25519.X25519(a.priv[:], b.pub)
		s2, e2 := curve25519.X25519(b.priv[:], a.pub)
		h.out.Checked()
		if e1 != nil || e2 != nil || !bytes.Equal(s1, s2) {
			h.out.OracleFail("C15:law-dh-commutes", "X25519(a, B) != X25519(b, A)", hx(a.priv[:])+" "+hx(b.priv[:]))
		}
		var pub, rep, pub2 [32]byte
		if extra25519.ScalarBaseMult(&pub, &rep, &a.priv) {
			extra25519.RepresentativeToPublicKey(&pub2, &rep)
			want, _ := curve25519.X25519(a.priv[:], curve25519.Basepoint)
			s3, _ := curve25519.X25519(b.priv[:], pub2[:])
			s4, _ := curve25519.X25519(b.priv[:], want)
			if rep[31]&0xc0 != 0 || !bytes.Equal(s3, s4) {
				h.out.OracleFail("C15:law-elligator", "representative has high bits set, or decodes to a key with another DH result", hx(a.priv[:]))
			}
			h.out.Count("law:representable")
		}
	}
}

// ---------------------------------------------------------------------------------------------
// 8. URL-less Any

func (h *c15) anys() {
	tr := true
	pid := int32(3)
	msgs := []proto.Message{
		&pb.GenericTransportParams{RandomizeDstPort: &tr},
		&pb.PrefixTransportParams{PrefixId: &pid, Prefix: []byte("GET / HTTP/1.1\r\n"), RandomizeDstPort: &tr},
		&pb.DTLSTransportParams{RandomizeDstPort: &tr},
		&pb.ClientToStation{Padding: []byte{0, 1}},
	}
	fresh := func(i int) proto.Message { return msgs[i].ProtoReflect().New().Interface() }
	for si := range msgs {
		full, err := anypb.New(msgs[si])
		if err != nil {
			panic(err)
		}
		urls := []string{"", full.TypeUrl, strings.ReplaceAll(full.TypeUrl, "proto.", "tapdance."), "type.googleapis.com/proto.Nope",
			"x", "tapdance.", strings.ReplaceAll(full.TypeUrl, "proto.", "tapdance.tapdance."), full.TypeUrl + "x"}
		for di := -1; di < len(msgs); di++ {
			for _, u := range urls {
				for _, garbage := range []bool{false, true} {
					src := &anypb.Any{TypeUrl: u, Value: append([]byte(nil), full.Value...)}
					if garbage {
						src.Value = append(h.r.Bytes(h.r.Range(1, 12)), 0xff)
					}
					expected := "NIL"
					var dst proto.Message
					canUnmarshal := false
					if di >= 0 {
						dst = fresh(di)
						e, _ := anypb.New(dst)
						expected = e.TypeUrl
						canUnmarshal = proto.Unmarshal(src.Value, fresh(di)) == nil
					}
					su := u
					if su == "" {
						su = "-"
					}
					line := fmt.Sprintf("codec|any|%s|%s|%s|%s", su, hx(src.Value), expected, vlib.B(canUnmarshal))
					ans := guard(func() string {
						var err error
						if dst == nil {
							err = transports.UnmarshalAnypbTo(src, nil)
						} else {
							err = transports.UnmarshalAnypbTo(src, dst)
						}
						if err != nil {
							k := c15Err(err)
							if strings.HasPrefix(k, "other:") {
								k = "unmarshal"
							}
							return "err " + k
						}
						return "ok set"
					})
					h.out.Case(line, ans, ans == "ok set")
					h.out.Checked()
					if u == "" && di == si && !garbage {
						if ans != "ok set" || !proto.Equal(dst, msgs[si]) {
							h.out.OracleFail("C15:any-roundtrip", "parameters packed without type URL do not come back: "+ans, line)
						}
						h.out.Count("any:roundtrip")
					}
					if ans == "ok set" && di != si && u != "" && !garbage {
						h.out.OracleFail("C15:any-wrong-type-accepted", "an Any naming another type was unmarshalled", line)
					}
				}
			}
		}
	}
	// absent parameters stay absent
	err := transports.UnmarshalAnypbTo(nil, &pb.GenericTransportParams{})
	ans := "ok nil"
	if err != nil {
		ans = "err " + c15Err(err)
	}
	h.out.Case("codec|any|NIL|-|type.googleapis.com/proto.GenericTransportParams|1", ans, true)
}

// ---------------------------------------------------------------------------------------------

func (h *c15) replay(t *testing.T, path string) {
	f, err := os.Open(path)
	if err != nil {
		panic(err)
	}
	defer f.Close()
	sc := bufio.NewScanner(f)
	sc.Buffer(make([]byte, 1<<20), 1<<28)
	for sc.Scan() {
		line := sc.Text()
		if strings.HasPrefix(line, "#") || strings.TrimSpace(line) == "" {
			continue
		}
		p := strings.Split(line, "|")
		if p[0] == "burst" {
			h.replayBurst(p)
			continue
		}
		if p[0] == "dstread" {
			h.destinations()
			continue
		}
		if p[0] == "b32" {
			h.replayB32(t, p)
			continue
		}
		if len(p) >= 2 && p[0] == "exchange" {
			// exchange|<link>|<request>|<response>: the pair over both links, with a fresh key
			priv, err := encryption.GeneratePrivkey()
			if err != nil {
				t.Fatal(err)
			}
			for li := -1; li <= recaseKinds; li++ {
				l := h.newLink(t, priv, "t.example.com", li != recaseKinds)
				if li >= 0 && li < recaseKinds {
					k := li
					l.name = fmt.Sprintf("mem-recase%d", k)
					l.path = func(d []byte) []byte { return h.recaseQuery(d, k) }
				}
				req, err := l.newReq()
				if err != nil {
					t.Fatal(err)
				}
				if len(p) >= 4 {
					fmt.Printf("replay: %s link: completed=%v\n", l.name, l.exchange(&req, unhex(p[2]), unhex(p[3])))
				} else {
					l.run(false, 5)
				}
				closeReq(req)
			}
			continue
		}
		if len(p) < 3 || p[0] != "codec" {
			fmt.Println("replay: not a codec case:", line)
			continue
		}
		switch p[1] {
		case "recase":
			h.replayRecase(t, unhex(p[len(p)-1]))
		case "alive":
			h.alive(1)
		case "anyinto":
			// the destination dimension is cheap and seeded: all of it again
			h.destinations()
		case "rmreq", "rmresp":
			h.frameDecode(unhex(p[2]))
		case "dectxt":
			h.txtDecode(unhex(p[2]))
		case "addreq":
			h.frameReq(unhex(p[2]))
		case "addresp":
			h.frameResp(unhex(p[2]))
		case "enctxt":
			h.txt(unhex(p[2]))
		case "newname":
			n, err := parseNameText(p[2])
			if err == nil {
				h.name(n)
			}
		case "wire":
			m, err := parseMsgText(p[2:])
			if err != nil {
				fmt.Println("replay: bad message:", err)
				continue
			}
			h.message(m, true)
		case "parse":
			m, err := dns.MessageFromWireFormat(unhex(p[2]))
			if err == nil {
				h.message(&m, true)
			}
		case "obfs":
			if p[2] == "xor-obf" && len(p) == 5 {
				pt := unhex(p[4])
				ct, err := transports.XORObfuscator{}.Obfuscate(pt, nil)
				h.out.Checked()
				if len(pt) == 0 {
					h.out.Case("codec|obfs|xor-obf|-|-", okOrErr(ct, err), err == nil)
				}
				if err == nil {
					back, rerr := transports.XORObfuscator{}.TryReveal(ct, [32]byte{})
					h.out.Case("codec|obfs|xor-rev|"+hx(ct), okOrErr(back, rerr), rerr == nil)
					if rerr != nil || !bytes.Equal(back, pt) {
						h.out.OracleFail("C15:xor-obfuscator-empty-tag", fmt.Sprintf("xor: TryReveal(Obfuscate(tag)) != tag for a %d-byte tag (err=%v)", len(pt), rerr), line)
					}
				}
			} else {
				// the random draws of a recorded case cannot be repeated; the property does not depend on
				// them: the same tag (or the same bytes, for a decoder case) with fresh keys and fresh draws
				name, dir, ok := strings.Cut(p[2], "-")
				o, known := map[string]transports.Obfuscator{"nil": transports.NilObfuscator{}, "xor": transports.XORObfuscator{},
					"ctr": transports.CTRObfuscator{}, "gcm": transports.GCMObfuscator{}}[name]
				idx := map[string]int{"nil": 3, "xor": 4, "ctr": 5, "gcm": 5}[name]
				switch {
				case !ok || !known:
					fmt.Println("replay: unknown obfuscator case", p[2])
				case dir == "obf" && len(p) > idx:
					h.obfsOracle(name, o, unhex(p[idx]), line)
				case dir == "rev" && len(p) > 3:
					h.revealOracle(name, o, unhex(p[3]), h.keypair(), line)
				}
			}
		default:
			fmt.Println("replay: unsupported op", p[1])
		}
	}
}

func TestVerifC15(t *testing.T) {
	golog.SetOutput(io.Discard)
	out := vlib.Open("C15")
	defer out.Close()
	h := &c15{out: out, r: vlib.NewRand("C15")}
	if rp := vlib.Replay(); rp != "" {
		h.replay(t, rp)
		return
	}
	h.frames()
	h.txts()
	h.names()
	h.messages()
	priv, err := encryption.GeneratePrivkey()
	if err != nil {
		t.Fatal(err)
	}
	const domain = "t.example.com"
	resp, err := responder.NewDnsResponder(domain, "127.0.0.1:0", priv)
	if err == nil {
		dom, _ := dns.ParseName(domain)
		h.queryNames(resp, dom)
		h.base32s(resp, dom)
		resp.Close()
	} else {
		// a clause of the property that is not exercised must not look like a pass
		t.Fatalf("the query-name clause cannot be exercised: responder.NewDnsResponder: %v", err)
	}
	h.obfuscators()
	h.anys()
	h.destinations()
	h.alive(1)
	h.exchanges(t, priv, domain)
	h.bursts(t, priv, domain, vlib.Budget(40, 600))
}
