//go:build verif

package lib

// C02: registry histories followed by byte streams offered to the REAL WrapConnection of min,
// prefix and obfs4; the same history + offer goes to the Lean model (`regwrap|…`), with the
// cryptographic answers (revealed identifiers per window, located marks) supplied per case.
// Oracle: a tunnel opens only for a genuine flight of a validated, unexpired registration of that
// phantom, transport and prefix — and it is matched to exactly that registration.

import (
	"bytes"
	"context"
	"crypto/sha256"
	"fmt"
	"io"
	golog "log"
	"net"
	"os"
	"sort"
	"strings"
	"sync/atomic"
	"testing"
	"time"

	"github.com/refraction-networking/conjure/internal/vlib"
	"github.com/refraction-networking/conjure/pkg/core"
	"github.com/refraction-networking/conjure/pkg/phantoms"
	"github.com/refraction-networking/conjure/pkg/station/geoip"
	"github.com/refraction-networking/conjure/pkg/station/log"
	"github.com/refraction-networking/conjure/pkg/transports"
	"github.com/refraction-networking/conjure/pkg/transports/wrapping/min"
	"github.com/refraction-networking/conjure/pkg/transports/wrapping/obfs4"
	"github.com/refraction-networking/conjure/pkg/transports/wrapping/prefix"
	pb "github.com/refraction-networking/conjure/proto"
	"golang.org/x/crypto/curve25519"
	"golang.org/x/crypto/hkdf"
)

// capConn records what a client transport writes and has nothing to read.
type capConn struct {
	w bytes.Buffer
}

func (c *capConn) Read(p []byte) (int, error)       { return 0, io.EOF }
func (c *capConn) Write(p []byte) (int, error)      { return c.w.Write(p) }
func (c *capConn) Close() error                     { return nil }
func (c *capConn) LocalAddr() net.Addr              { return &net.TCPAddr{IP: net.IPv4(127, 0, 0, 1), Port: 1} }
func (c *capConn) RemoteAddr() net.Addr             { return &net.TCPAddr{IP: net.IPv4(127, 0, 0, 1), Port: 2} }
func (c *capConn) SetDeadline(time.Time) error      { return nil }
func (c *capConn) SetReadDeadline(time.Time) error  { return nil }
func (c *capConn) SetWriteDeadline(time.Time) error { return nil }

type c02Reg struct {
	ph, sec  int
	tr       pb.TransportType
	prefixID int32
	ppMode   int // 0 registered prefix id, 1 parameters absent, 2 typed-nil parameters, 3 parameters without prefix id (= 0); for min / obfs4: 0 no parameters, 4 prefix parameters (prefixID) on a registration of another transport
	rid      int
	// the parameters of the most recent duplicate delivery that differ from the registered ones (-1: none)
	dupPID int32
	ident  string
	// ground truth
	tracked, valid, used bool
	time                 int64
}

type c02World struct {
	rm      *RegistrationManager
	privs   [][32]byte // the station's private keys, in the order the prefix transport tries them
	pubs    [][32]byte
	ptr     *prefix.Transport
	regs    []*c02Reg
	lastNow int64
	mops    []string
	flights map[string][]byte
	// the object that was delivered last for a registration (by rid), with the parameters it was built with
	objs map[int]c02Obj
	// how the NEXT sweep runs (nil: one uninterrupted call)
	sweep *c02Sweep
	// tunnels that are still open (closed before some later operation, or when the world ends)
	tunnels []*c02Tunnel
}

type c02Tunnel struct {
	r      *c02Reg
	client net.Conn
	done   chan struct{}
}

// connect: a client that holds the secret of registration r connects to r's phantom. Its genuine first
// flight goes through the real WrapConnection (one more offer: case + oracle). When the station accepts
// it, what handleNewTCPConn does next is done: MarkActive on the registration the transport answered with,
// then lib.Proxy on that object — the covert refuses (the tunnel is counted and finishes at once) or the
// tunnel stays open (it is closed before some later operation or at the end of the world). For obfs4,
// whose handshake the byte-stream harness does not complete, the registration the station's own look-up
// (getRegistrations: the valid ones of that phantom) shows for the identifier stands in for the match.
// Ground truth: a connection makes a tracked registration used; a tunnel — open, finished, many — has no
// say in when the registration is forgotten.
func (w *c02World) connect(out *vlib.Out, r *c02Reg, now int64, open bool) {
	w.advance(now)
	rd := w.rm.registeredDecoys
	f := w.flight(r.sec, r.tr, r.prefixID, 0)
	d := w.offerObj(out, c02Offer{kind: "connection", ph: r.ph, tr: r.tr, data: f, owner: r, genuine: true, pid: r.prefixID})
	if d == nil && r.tr == pb.TransportType_Obfs4 {
		d = rd.getRegistrations(net.ParseIP(c08Phantoms[r.ph]))[string(w.identBytes(r))]
	}
	if d == nil {
		out.Count("connection:not-accepted")
		return
	}
	id := w.identOf(d)
	phs := d.PhantomIp.String()
	w.rm.MarkActive(d)
	w.mops = append(w.mops, fmt.Sprintf("m,%s,%s,%d", phs, id, int(d.Transport)))
	for _, g := range w.regs {
		if g.tracked && c08Phantoms[g.ph] == phs && g.ident == id {
			g.used = true
		}
	}
	before := atomic.LoadInt64(&d.tunnelCount)
	c1, c2 := net.Pipe()
	if !open || !realTunnelAllowed() {
		d.Covert = c08Covert.refused
		c2.Close()
		func() {
			defer func() { _ = recover() }()
			Proxy(d, c1, w.rm.Logger)
		}()
		c1.Close()
		w.mops = append(w.mops, fmt.Sprintf("P,%s,%s", phs, id), fmt.Sprintf("Q,%s,%s", phs, id))
		out.Count("connection:tunnel-finished")
	} else {
		d.Covert = c08Covert.open
		acc := atomic.LoadInt64(&c08Covert.accepted)
		tn := &c02Tunnel{r: r, client: c2, done: make(chan struct{})}
		go func() {
			defer close(tn.done)
			defer func() { _ = recover() }()
			Proxy(d, c1, w.rm.Logger)
		}()
		for deadline := time.Now().Add(2 * time.Second); time.Now().Before(deadline); {
			if atomic.LoadInt64(&d.tunnelCount) > before && atomic.LoadInt64(&c08Covert.accepted) > acc {
				break
			}
			select {
			case <-tn.done:
				deadline = time.Now()
			default:
				time.Sleep(50 * time.Microsecond)
			}
		}
		c08Covert.opened++
		w.tunnels = append(w.tunnels, tn)
		w.mops = append(w.mops, fmt.Sprintf("P,%s,%s", phs, id))
		out.Count("connection:tunnel-open")
	}
	if atomic.LoadInt64(&d.tunnelCount) != before+1 {
		out.Count("connection:tunnel-not-counted")
	}
}

// closeTunnels ends the open tunnels (all of them, or the oldest one).
func (w *c02World) closeTunnels(all bool) {
	for len(w.tunnels) > 0 {
		tn := w.tunnels[0]
		w.tunnels = w.tunnels[1:]
		tn.client.Close()
		select {
		case <-tn.done:
		case <-time.After(5 * time.Second):
		}
		w.mops = append(w.mops, fmt.Sprintf("Q,%s,%s", c08Phantoms[tn.r.ph], tn.r.ident))
		if !all {
			return
		}
	}
}

// c02Sweep: the sweep is interrupted before its midAt-th removal by a connection that is matched to
// registration `mark` (markActive), and / or one of its steps arrives while a stand-in holds the registry's
// own lock ('r' a look-up in progress, 'w' a writer) — from its start (holdAt -1) or from before its
// holdAt-th removal on, until the step is seen waiting for the lock (c08SweepWith).
type c02Sweep struct {
	mark   *c02Reg
	midAt  int
	held   byte
	holdAt int
}

type c02Obj struct {
	d        *DecoyRegistration
	prefixID int32
	ppMode   int
}

func c02Keys(i int) (priv, pub [32]byte) {
	h := sha256.Sum256([]byte(fmt.Sprintf("verif station key %d", i)))
	copy(priv[:], h[:])
	priv[0] &= 248
	priv[31] &= 127
	priv[31] |= 64
	curve25519.ScalarBaseMult(&pub, &priv)
	return
}

// c02Live: the liveness module of the manager (never asked: the harness delivers registrations to the
// registry directly).
type c02Live struct{}

func (c02Live) PhantomIsLive(addr string, port uint16) (bool, error) { return false, nil }
func (c02Live) PrintAndReset(*log.Logger)                            {}
func (c02Live) PrintStats(*log.Logger)                               {}
func (c02Live) Reset()                                               {}

// c02Manager: a registration manager of the harness's own (no file of another property's harness is needed
// to build this one).
func c02Manager() *RegistrationManager {
	os.Setenv("PHANTOM_SUBNET_LOCATION", "./test/phantom_subnets.toml")
	conf := &RegConfig{EnableIPv4: true, EnableIPv6: true}
	conf.ParseBlocklists()
	sel, err := phantoms.NewPhantomIPSelector()
	if err != nil {
		panic(err)
	}
	gdb, _ := geoip.New(nil)
	return &RegistrationManager{
		PhantomSelector:   sel,
		GeoIP:             gdb,
		RegConfig:         conf,
		RegistrationStats: newRegistrationStats(),
		Logger:            log.New(io.Discard, "", golog.Ldate),
		registeredDecoys:  NewRegisteredDecoys(),
		LivenessTester:    c02Live{},
	}
}

// ---- secrets. 0..999: the fixed ones of the registry harness. From c02SpecialBase on: secrets FOUND by search
// so that the transport identifier they give (HMAC output for min / prefix, key material for obfs4 — raw
// bytes, any value) contains a byte that is a separator somewhere: in a composite map key, a log line, a
// path, a C string. The registry must treat identifiers as opaque: such a registration is tracked, matched,
// and — the clause this dimension is for — forgotten like any other.
const c02SpecialBase = 1000

var c02Bytes = []byte{'|', 0x00, '\n', ',', ';', ':', '/', ' ', '%', 0xff}

var c02Special = map[int][]byte{}

func c02Secret(sec int) []byte {
	if sec < c02SpecialBase {
		return c08Secret(sec)
	}
	s, ok := c02Special[sec]
	if !ok {
		panic(fmt.Sprintf("secret %d was never searched", sec))
	}
	return s
}

// specialSec returns the number of a secret whose identifier for transport tr has byte c02Bytes[bi] —
// pos 0: somewhere, 1: as its first byte, 2: as its last byte, 3: at least twice; variant: different secrets
// with the same quality.
func (w *c02World) specialSec(tr pb.TransportType, bi, pos, variant int) int {
	sec := c02SpecialBase + (((int(tr)%8)*16+bi)*4+pos)*4 + variant
	if _, ok := c02Special[sec]; ok {
		return sec
	}
	want := c02Bytes[bi]
	for n := 0; ; n++ {
		h := sha256.Sum256([]byte(fmt.Sprintf("verif special secret %d %d", sec, n)))
		c02Special[sec] = h[:]
		id := w.identBytes(&c02Reg{sec: sec, tr: tr})
		if len(id) == 0 {
			panic("empty identifier")
		}
		ok := false
		switch pos {
		case 0:
			ok = bytes.IndexByte(id, want) >= 0
		case 1:
			ok = id[0] == want
		case 2:
			ok = id[len(id)-1] == want
		default:
			ok = bytes.Count(id, []byte{want}) >= 2
		}
		if ok {
			return sec
		}
	}
}

// pickSec: a secret for a registration of transport tr — one of the fixed ones (number i), or (one in three)
// one whose identifier carries a separator byte.
func (w *c02World) pickSec(r *vlib.Rand, tr pb.TransportType, i int) int {
	if !r.Chance(1, 3) {
		return i
	}
	bi := r.Intn(len(c02Bytes))
	pos := 0
	if bi < 2 && r.Chance(1, 3) {
		pos = 1 + r.Intn(3) // first / last / twice: only for '|' and NUL (256 times the search)
	}
	return w.specialSec(tr, bi, pos, i%4)
}

func newC02World(nkeys int) *c02World {
	c08CovertSetup()
	w := &c02World{flights: map[string][]byte{}, objs: map[int]c02Obj{}}
	for i := 0; i < nkeys; i++ {
		priv, pub := c02Keys(i)
		w.privs, w.pubs = append(w.privs, priv), append(w.pubs, pub)
	}
	w.rm = c02Manager()
	rd := w.rm.registeredDecoys
	var err error
	w.ptr, err = prefix.Default(w.privs)
	if err != nil {
		panic(err)
	}
	rd.transports[pb.TransportType_Min] = min.Transport{}
	rd.transports[pb.TransportType_Prefix] = w.ptr
	rd.transports[pb.TransportType_Obfs4] = obfs4.Transport{}
	rd.registerForDetector = func(d *DecoyRegistration) {}
	rd.updateInDetector = func(d *DecoyRegistration) {}
	return w
}

func (w *c02World) mkDecoy(r *c02Reg) *DecoyRegistration {
	keys, err := core.GenSharedKeys(uint(core.CurrentClientLibraryVersion()), c02Secret(r.sec), r.tr)
	if err != nil {
		panic(err)
	}
	src := pb.RegistrationSource_API
	var tp Transport = w.rm.registeredDecoys.transports[r.tr]
	d := &DecoyRegistration{
		PhantomIp:          net.ParseIP(c08Phantoms[r.ph]),
		PhantomPort:        443,
		Keys:               &keys,
		Transport:          r.tr,
		TransportPtr:       &tp,
		RegistrationSource: &src,
	}
	pre := r.sec%2 == 1
	d.Flags = &pb.RegistrationFlags{Prescanned: &pre}
	if r.tr == pb.TransportType_Prefix {
		switch r.ppMode {
		case 0:
			id := r.prefixID
			d.transportParams = &pb.PrefixTransportParams{PrefixId: &id}
		case 2:
			d.transportParams = (*pb.PrefixTransportParams)(nil)
		case 3:
			// parameters present, prefix id field unset: registered for the default prefix (id 0)
			d.transportParams = &pb.PrefixTransportParams{}
		}
	} else if r.ppMode == 4 {
		// a registration of ANOTHER transport whose parameter object happens to be prefix parameters:
		// the registry accepts any parameter object; the prefix classifier must go by the transport type
		id := r.prefixID
		d.transportParams = &pb.PrefixTransportParams{PrefixId: &id}
	}
	return d
}

// ppText is the registration's parameter object as the model sees it.
func (r *c02Reg) ppText() string {
	if r.tr == pb.TransportType_Prefix {
		switch r.ppMode {
		case 0, 3:
			return fmt.Sprint(r.prefixID)
		case 2:
			return "nil"
		}
		return "-"
	}
	if r.ppMode == 4 {
		return fmt.Sprint(r.prefixID)
	}
	return "-"
}

func (w *c02World) identBytes(r *c02Reg) []byte {
	d := w.mkDecoy(r)
	return []byte(w.rm.registeredDecoys.transports[d.Transport].GetIdentifier(d))
}

func (w *c02World) identOf(d *DecoyRegistration) string {
	return vlib.Hex([]byte(w.rm.registeredDecoys.transports[d.Transport].GetIdentifier(d)))
}

func (w *c02World) find(ph, sec int, tr pb.TransportType) *c02Reg {
	for _, r := range w.regs {
		if r.ph == ph && r.sec == sec && r.tr == tr {
			return r
		}
	}
	return nil
}

// advance moves the virtual clock: records are aged by shifting their real timestamps (relative
// shifts only, so anything the code writes into registrationTime is preserved).
func (w *c02World) advance(now int64) {
	if d := now - w.lastNow; d > 0 {
		c08Shift(w.rm.registeredDecoys, time.Duration(d)*time.Second)
		w.lastNow = now
	}
}

// op: 'r' register (track + validate), 't' track only, 'm' mark used, 's' sweep
func (w *c02World) apply(kind byte, ph, sec int, tr pb.TransportType, prefixID int32, ppMode int, now int64) {
	w.applyObj(kind, ph, sec, tr, prefixID, ppMode, now, 0)
}

// applyObj: obj says which object a delivery ('r' / 't') hands to the registry — 0 a new one, 1 a new
// one whose Valid flag is already set, 2 the very object that was delivered for this registration
// before (it keeps the parameters it was built with and whatever flags it carries by now, e.g. Valid
// from a lifetime that a sweep has ended since).
func (w *c02World) applyObj(kind byte, ph, sec int, tr pb.TransportType, prefixID int32, ppMode int, now int64, obj byte) {
	rd := w.rm.registeredDecoys
	w.advance(now)
	if kind == 's' {
		expired := func(r *c02Reg) bool {
			age := now - r.time
			return !(age <= c08Active && (r.used || age <= c08Unused))
		}
		expire := func() {
			for _, r := range w.regs {
				if r.tracked && expired(r) {
					r.tracked, r.valid, r.used = false, false, false
				}
			}
		}
		opt := w.sweep
		w.sweep = nil
		if opt == nil {
			rd.removeOldRegistrations(w.rm.Logger)
			expire()
			w.mops = append(w.mops, fmt.Sprintf("s,%d", now))
			return
		}
		head := "sb"
		if opt.held != 0 {
			head += fmt.Sprintf("@%c%d", opt.held, opt.holdAt)
		}
		w.mops = append(w.mops, fmt.Sprintf("%s,%d", head, now))
		o := c08SweepOpts{held: opt.held, holdAt: opt.holdAt, midAt: opt.midAt}
		var mid func()
		if opt.mark != nil {
			m := opt.mark
			mid = func() { w.apply('m', m.ph, m.sec, m.tr, m.prefixID, 0, now) }
			o.mid = mid
			o.before = func(handled [][2]string) {
				// the removals the loop has made already decided on the state they found: a connection that
				// arrives now finds those registrations forgotten
				var ks []string
				for _, k := range handled {
					id := vlib.Hex([]byte(k[1]))
					ks = append(ks, k[0]+","+id)
					for _, r := range w.regs {
						if r.tracked && c08Phantoms[r.ph] == k[0] && r.ident == id && expired(r) {
							r.tracked, r.valid, r.used = false, false, false
						}
					}
				}
				if len(ks) > 0 {
					sort.Strings(ks)
					w.mops = append(w.mops, "xs,"+strings.Join(ks, ","))
				}
			}
		}
		res := c08SweepWith(rd, w.rm.Logger, o)
		w.mops = append(w.mops, "se")
		expire()
		if mid != nil && !res.midRan {
			mid() // the sweep had fewer removals: the connection comes after it
		}
		return
	}
	r := w.find(ph, sec, tr)
	if r == nil {
		r = &c02Reg{ph: ph, sec: sec, tr: tr, prefixID: prefixID, ppMode: ppMode, rid: len(w.regs) + 1, dupPID: -1}
		w.regs = append(w.regs, r)
	}
	prev, again := w.objs[r.rid]
	again = again && obj == 2 && kind != 'm'
	if again {
		prefixID, ppMode = prev.prefixID, prev.ppMode
	}
	// the object that is delivered carries the parameters of THIS delivery; a duplicate must neither
	// replace the tracked object nor its parameters (the ground truth keeps those of the first delivery)
	if !r.tracked && (kind == 'r' || kind == 't') {
		// a new lifetime: this delivery's object is the one that gets tracked, with its parameters
		r.prefixID, r.ppMode, r.dupPID = prefixID, ppMode, -1
	}
	req := *r
	req.prefixID, req.ppMode = prefixID, ppMode
	d := w.mkDecoy(&req)
	spelled := ""
	if kind != 'm' {
		switch {
		case again:
			d = prev.d
			spelled = "r" + vlib.B(d.Valid)
		case obj == 1:
			d.Valid = true
			spelled = "1"
		}
		w.objs[r.rid] = c02Obj{d, prefixID, ppMode}
	}
	if kind != 'm' && r.tracked && tr == pb.TransportType_Prefix && (ppMode == 0 || ppMode == 3) && prefixID != r.prefixID {
		r.dupPID = prefixID
	}
	r.ident = w.identOf(d)
	phs := c08Phantoms[ph]
	switch kind {
	case 'r':
		_ = rd.register(phs, d)
		if !r.tracked {
			r.tracked, r.time = true, now
		}
		r.valid = true
		if spelled != "" {
			w.mops = append(w.mops, fmt.Sprintf("ro,%s,%s,%d,%d,%s", phs, r.ident, int(tr), now, spelled))
		} else {
			w.mops = append(w.mops, fmt.Sprintf("r,%s,%s,%d,%d", phs, r.ident, int(tr), now))
		}
	case 't':
		_ = rd.Track(d)
		if !r.tracked {
			r.tracked, r.time = true, now
		}
		if spelled != "" {
			w.mops = append(w.mops, fmt.Sprintf("to,%s,%s,%d,%d,%s", phs, r.ident, int(tr), now, spelled))
		} else {
			w.mops = append(w.mops, fmt.Sprintf("t,%s,%s,%d,%d", phs, r.ident, int(tr), now))
		}
	case 'm':
		rd.markActive(d)
		if r.tracked {
			r.used = true
		}
		w.mops = append(w.mops, fmt.Sprintf("m,%s,%s,%d", phs, r.ident, int(tr)))
	}
}

// flight builds the genuine first flight a client with secret `sec` sends for transport tr (and
// prefix id / flush policy), using the real client transports.
func (w *c02World) flight(sec int, tr pb.TransportType, prefixID int32, flush int32) []byte {
	return w.flightK(sec, tr, prefixID, flush, 0)
}

// flightK: the flight as a client that knows station public key number kj sends it.
func (w *c02World) flightK(sec int, tr pb.TransportType, prefixID int32, flush int32, kj int) []byte {
	key := fmt.Sprintf("%d/%d/%d/%d/%d", sec, tr, prefixID, flush, kj)
	if f, ok := w.flights[key]; ok {
		return f
	}
	secret := c02Secret(sec)
	_, stationPub := c02Keys(kj) // kj may name a key the station does not hold
	rdr := hkdf.New(sha256.New, secret, []byte("conjureconjureconjureconjure"), nil)
	seed := make([]byte, 16)
	io.ReadFull(rdr, seed)
	cc := &capConn{}
	var err error
	switch tr {
	case pb.TransportType_Min:
		ct := &min.ClientTransport{}
		err = ct.PrepareKeys(stationPub, secret, rdr)
		if err == nil {
			_, err = ct.WrapConn(cc)
		}
	case pb.TransportType_Prefix:
		ct := &prefix.ClientTransport{}
		err = ct.SetParams(&prefix.ClientParams{PrefixID: prefixID, FlushPolicy: flush})
		if err == nil {
			err = ct.Prepare(context.Background(), nil)
		}
		if err == nil {
			err = ct.PrepareKeys(stationPub, secret, rdr)
		}
		if err == nil {
			_, err = ct.WrapConn(cc)
		}
	case pb.TransportType_Obfs4:
		ct := &obfs4.ClientTransport{}
		err = ct.PrepareKeys(stationPub, secret, rdr)
		if err == nil {
			_, _ = ct.WrapConn(cc) // fails reading the server's answer; the flight is recorded
		}
	}
	if err != nil {
		panic(fmt.Sprintf("building flight %s: %v", key, err))
	}
	f := append([]byte(nil), cc.w.Bytes()...)
	w.flights[key] = f
	return f
}

// crafted builds what the prefix transport would accept as a tag for `ident`: the static bytes of
// prefix pid followed by the identifier obfuscated to station key kj — for any identifier, also one
// that belongs to a registration of another transport.
func (w *c02World) crafted(ident []byte, pid int32, kj int) []byte {
	p, ok := w.ptr.SupportedPrefixes[prefix.PrefixID(pid)]
	if !ok {
		panic("unknown prefix id")
	}
	_, pub := c02Keys(kj)
	tag, err := w.ptr.TagObfuscator.Obfuscate(ident, pub[:])
	if err != nil {
		panic(err)
	}
	return append(append([]byte(nil), p.StaticMatch...), tag...)
}

// tagOffset is where the table says the 64-byte tag of a flight built with prefix pid starts.
func (w *c02World) tagOffset(pid int32) int {
	return w.ptr.SupportedPrefixes[prefix.PrefixID(pid)].Offset
}

type c02Offer struct {
	kind    string // what the harness intends
	ph      int
	tr      pb.TransportType
	data    []byte
	owner   *c02Reg // registration whose secret built the flight (nil for garbage)
	genuine bool    // data begins with an UNALTERED complete flight built for transport owner.tr with prefix id pid
	pid     int32   // prefix id the flight was built with
	taglen  int
	// rawIdent: the stream starts with the bare transport identifier of owner (nothing a client
	// transport produces; only someone who knows the registration's secret can compute it). READING
	// DECISION: min looks the first 32 bytes up without looking at the transport type, so a holder of
	// the secret of a prefix registration who presents its identifier to min is matched to that
	// registration; this is pinned as accepted behaviour, not reported.
	rawIdent bool
}

func trName(tr pb.TransportType) string {
	switch tr {
	case pb.TransportType_Min:
		return "min"
	case pb.TransportType_Prefix:
		return "prefix"
	default:
		return "obfs4"
	}
}

// offer runs one byte stream through the real transport and records model line + oracle.
func (w *c02World) offer(out *vlib.Out, o c02Offer) { w.offerObj(out, o) }

// offerObj: … and returns the registration object the transport answered with when a tunnel would open.
func (w *c02World) offerObj(out *vlib.Out, o c02Offer) (accepted *DecoyRegistration) {
	rd := w.rm.registeredDecoys
	t := rd.transports[o.tr].(WrappingTransport)
	ip := net.ParseIP(c08Phantoms[o.ph])
	buf := bytes.NewBuffer(append([]byte(nil), o.data...))
	conn := &capConn{}
	var reg transports.Registration
	var wrapped net.Conn
	var err error
	var pan interface{}
	func() {
		defer func() { pan = recover() }()
		reg, wrapped, err = t.WrapConnection(buf, conn, ip, w.rm)
	}()
	// ---- crypto oracles for the model
	var reveal, marks []string
	if o.tr == pb.TransportType_Prefix {
		seen := map[int]bool{}
		for _, p := range w.ptr.SupportedPrefixes {
			if seen[p.Offset] || len(o.data) < p.Offset+64 {
				continue
			}
			seen[p.Offset] = true
			var ids []string
			for _, priv := range w.privs {
				id, e := w.ptr.TagObfuscator.TryReveal(o.data[p.Offset:p.Offset+64], priv)
				if e == nil && id != nil {
					ids = append(ids, vlib.Hex(id))
				}
			}
			if len(ids) > 0 {
				reveal = append(reveal, fmt.Sprintf("%d=%s", p.Offset, strings.Join(ids, "+")))
			}
		}
		sort.Strings(reveal)
	}
	if o.tr == pb.TransportType_Obfs4 && len(o.data) >= 64 {
		for _, r := range w.regs {
			if r.tr != pb.TransportType_Obfs4 {
				continue
			}
			// the registration's mark over this buffer's representative (HMAC: an oracle); WHERE it has to
			// sit in the buffer is the model's business (CJ.WrapStream.findMarkTail)
			if mk := obfs4.VerifMarkOf(w.mkDecoy(r), o.data); mk != nil {
				marks = append(marks, fmt.Sprintf("%d=%s", r.rid, vlib.Hex(mk)))
			} else {
				marks = append(marks, fmt.Sprintf("%d=-", r.rid))
			}
		}
	}
	var info []string
	for _, r := range w.regs {
		info = append(info, fmt.Sprintf("%s,%s,%s,%d", c08Phantoms[r.ph], r.ident, r.ppText(), r.rid))
	}
	model := fmt.Sprintf("regwrap|600|21600|1,2,4|%s|%s|%s|%s|%s|%s|%s", strings.Join(w.mops, ";"), strings.Join(info, ";"),
		c08Phantoms[o.ph], trName(o.tr), vlib.Hex(o.data), strings.Join(reveal, ","), c02MarksField(marks))
	// ---- canonical implementation answer
	var matched *c02Reg
	if dr, ok := reg.(*DecoyRegistration); ok && dr != nil {
		for _, r := range w.regs {
			if r.ph == o.ph && r.tr == dr.Transport && bytes.Equal(c02Secret(r.sec), dr.Keys.SharedSecret) && dr.PhantomIp.Equal(ip) {
				matched = r
			}
		}
	}
	var impl string
	switch {
	case pan != nil:
		impl = "panic"
	case matched != nil && (err == nil || o.tr == pb.TransportType_Obfs4):
		consumed := len(o.data) - buf.Len()
		if o.tr == pb.TransportType_Obfs4 {
			consumed = 0
		}
		impl = fmt.Sprintf("found %d %d", matched.rid, consumed)
	case err == transports.ErrTryAgain:
		impl = "tryagain"
	case err == transports.ErrNotTransport:
		impl = "nottransport"
	case err == prefix.ErrIncorrectTransport:
		impl = "err-transport"
	case err == prefix.ErrIncorrectPrefix:
		impl = "err-prefix"
	default:
		impl = fmt.Sprintf("other(%v)", err)
	}
	out.Case(model, impl, strings.HasPrefix(impl, "found"))
	out.Count("offer:" + o.kind)
	out.Count("verdict:" + trName(o.tr) + ":" + strings.Fields(impl)[0])
	// ---- property oracle (independent of the model)
	out.Checked()
	opened := err == nil && reg != nil && wrapped != nil
	if pan != nil {
		out.OracleFail("C02:panic", fmt.Sprintf("WrapConnection panicked: %v", pan), model)
		return nil
	}
	if !opened {
		return nil
	}
	accepted, _ = reg.(*DecoyRegistration)
	fail := func(sig, what string) { out.OracleFail(sig, what+" [offer "+o.kind+"]", model) }
	// the one registration that may legitimately be matched: same secret, on the phantom the
	// connection was made to, of the transport the flight was built for and offered to, having
	// registered the prefix the flight was built with — and the flight unaltered
	var legit *c02Reg
	if o.rawIdent && o.owner != nil {
		// the registration of that secret and transport on the phantom the connection was made to
		legit = w.find(o.ph, o.owner.sec, o.owner.tr)
	} else if o.owner != nil && o.genuine && o.tr == o.owner.tr {
		if c := w.find(o.ph, o.owner.sec, o.tr); c != nil {
			if o.tr != pb.TransportType_Prefix || ((c.ppMode == 0 || c.ppMode == 3) && c.prefixID == o.pid) {
				legit = c
			}
		}
	}
	switch {
	case o.owner == nil:
		fail("C02:garbage-accepted", "a stream that is no client flight was matched to a registration")
	case matched == nil:
		fail("C02:wrong-registration", "matched to a registration the harness does not know")
	case legit == nil:
		fail("C02:"+o.kind+"-accepted", fmt.Sprintf("accepted and matched to registration %d", matched.rid))
	case matched != legit:
		fail("C02:wrong-registration", fmt.Sprintf("flight for registration %d matched to %d", legit.rid, matched.rid))
	case !legit.tracked:
		fail("C02:expired-accepted", fmt.Sprintf("registration %d is expired / not tracked", legit.rid))
	case !legit.valid:
		fail("C02:unvalidated-accepted", fmt.Sprintf("registration %d was never validated", legit.rid))
	}
	return accepted
}

// c02MarksField: `m:<rid>=<mark hex>,…` (per-registration marks; the model searches) or empty
func c02MarksField(marks []string) string {
	if len(marks) == 0 {
		return ""
	}
	return "m:" + strings.Join(marks, ",")
}

func flip(b []byte, bit int) []byte {
	c := append([]byte(nil), b...)
	c[bit/8] ^= 1 << (bit % 8)
	return c
}

func c02RunWorld(out *vlib.Out, r *vlib.Rand, nOffers int) {
	nkeys := r.Range(1, 3)
	w := newC02World(nkeys)
	trs := []pb.TransportType{pb.TransportType_Min, pb.TransportType_Prefix, pb.TransportType_Obfs4}
	nph, nsec := r.Range(1, 3), r.Range(1, 3)
	now := int64(0)
	nops := r.Range(2, 9)
	defer w.closeTunnels(true)
	// the secrets of this world: fixed ones, and (one in three) ones whose identifier carries a separator byte
	secs := make([]int, nsec)
	for i := range secs {
		secs[i] = w.pickSec(r, trs[r.Intn(3)], i)
	}
	var starts []int64 // times of deliveries (first ones and duplicates): a lifetime may have started there
	for i := 0; i < nops; i++ {
		ph, sec, tr := r.Intn(nph), secs[r.Intn(nsec)], trs[r.Intn(3)]
		pid := int32(r.Intn(10))
		mode := 0
		if tr == pb.TransportType_Prefix && r.Chance(1, 4) {
			mode = 1 + r.Intn(3)
			pid = 0
		}
		if tr != pb.TransportType_Prefix && r.Chance(1, 4) {
			mode = 4
		}
		// which object is delivered: a new one, a new one with Valid already set, the one delivered before
		obj := []byte{0, 0, 0, 0, 0, 0, 1, 2, 2, 2}[r.Intn(10)]
		switch k := r.Intn(12); {
		case k < 6:
			w.applyObj('r', ph, sec, tr, pid, mode, now, obj)
			starts = append(starts, now)
		case k < 8:
			w.applyObj('t', ph, sec, tr, pid, mode, now, obj)
			starts = append(starts, now)
		case k < 9:
			w.apply('m', ph, sec, tr, pid, mode, now)
		case k < 11:
			// a client of one of the registrations connects (accepted only if the registration is visible)
			if len(w.regs) > 0 {
				if r.Chance(1, 3) {
					w.closeTunnels(false)
				}
				w.connect(out, w.regs[r.Intn(len(w.regs))], now, r.Chance(1, 4))
			}
		default:
			// registrations on whole minutes, sweeps on the half minute: no record is ever exactly at a limit.
			// Half of the sweeps are aimed half a minute before / after the moment a lifetime that started
			// at one of the deliveries (a first one or a duplicate) would end.
			at := now + 60*int64(r.Range(1, 400)) + 30
			if len(starts) > 0 && r.Chance(1, 2) {
				c := starts[r.Intn(len(starts))] + []int64{c08Unused, c08Active}[r.Intn(2)] + []int64{-30, 30}[r.Intn(2)]
				if c > now {
					at = c
				}
			}
			w.sweep = c02RandomSweep(w, r)
			w.apply('s', 0, 0, 0, 0, 0, at)
			now = (at/60 + 1) * 60
		}
		if r.Chance(1, 3) {
			now += 60 * int64(r.Range(1, 8))
		}
	}
	if len(w.regs) == 0 {
		return
	}
	for i := 0; i < nOffers; i++ {
		reg := w.regs[r.Intn(len(w.regs))]
		pid, flush := reg.prefixID, int32(r.Intn(3))
		kj := r.Intn(nkeys)
		f := w.flightK(reg.sec, reg.tr, pid, flush, kj)
		early := r.Bytes(r.Intn(40))
		taglen := len(f)
		o := c02Offer{ph: reg.ph, tr: reg.tr, owner: reg, taglen: taglen, pid: pid}
		gen := true
		switch k := r.Intn(19); {
		case k == 14:
			// a tag for the prefix transport built from the identifier of a registration of ANOTHER
			// transport (for a prefix registration this is just a genuine flight)
			cpid := int32(r.Intn(10))
			if reg.ppMode == 4 || reg.tr == pb.TransportType_Prefix {
				cpid = reg.prefixID
			}
			o.kind, o.tr, o.pid = "cross-transport-crafted", pb.TransportType_Prefix, cpid
			o.genuine = reg.tr == pb.TransportType_Prefix
			o.data = append(w.crafted(w.identBytes(reg), cpid, kj), early...)
		case k == 15:
			// the bare identifier, offered to min (reading decision, see c02Offer.rawIdent)
			o.kind, o.tr, o.rawIdent = "raw-identifier-to-min", pb.TransportType_Min, true
			o.data = append(w.identBytes(reg), early...)
			if r.Chance(1, 3) {
				o.ph = (reg.ph + 1 + r.Intn(2)) % 3
			}
		case k == 16 && reg.dupPID >= 0:
			// a duplicate delivery named another prefix: the first delivery's parameters stay in force
			o.kind, o.genuine, o.pid = "duplicate-other-prefix", true, reg.dupPID
			o.data = append(append([]byte(nil), w.flightK(reg.sec, reg.tr, reg.dupPID, flush, kj)...), early...)
		case k == 17:
			// built for a station key this station does not hold
			o.kind = "unknown-station-key"
			o.data = append(append([]byte(nil), w.flightK(reg.sec, reg.tr, pid, flush, nkeys)...), early...)
			if reg.tr != pb.TransportType_Prefix {
				// min and obfs4 flights do not depend on the station key: this is the genuine flight
				o.genuine = true
				if reg.tr == pb.TransportType_Obfs4 && len(early) > 0 {
					o.kind = "obfs4-trailing-data"
				}
			}
		case k < 3:
			o.kind, o.data, o.genuine = "genuine", f, gen
		case k < 5:
			o.kind, o.genuine = "genuine+early", gen
			o.data = append(append([]byte(nil), f...), early...)
			if reg.tr == pb.TransportType_Obfs4 && len(early) > 0 {
				// obfs4 looks for the mark at the tail of the first 8192 bytes only, so trailing data
				// normally hides it (try again); a maximum-length handshake followed by data is still
				// an unaltered genuine flight, and accepting it is no violation
				o.kind = "obfs4-trailing-data"
			}
		case k < 6:
			o.kind, o.ph, o.data, o.genuine = "cross-phantom", (reg.ph+1+r.Intn(2))%3, f, true
		case k < 7:
			o.kind, o.data, o.genuine = "cross-transport", f, true
			o.tr = trs[(r.Intn(2)+1+int(indexOf(trs, reg.tr)))%3]
		case k < 9 && reg.tr == pb.TransportType_Prefix:
			other := (pid + 1 + int32(r.Intn(9))) % 10
			o.kind, o.data, o.genuine, o.pid = "cross-prefix", append(append([]byte(nil), w.flightK(reg.sec, reg.tr, other, flush, kj)...), early...), true, other
		case k < 10:
			cut := r.Intn(len(f))
			if r.Bool() {
				cut = len(f) - 1
			}
			o.kind, o.data = "truncated", f[:cut]
		case k < 12:
			// alter one bit inside the identifying material
			lo, hi := 0, len(f)
			if reg.tr == pb.TransportType_Prefix {
				// the tag is where the TABLE says it is (not "the last 64 bytes": a flush policy or a prefix
				// that appends bytes would silently move the flips out of the tag)
				lo = w.tagOffset(pid)
				hi = lo + 64
				if len(f) != hi {
					out.Count("flight-longer-than-offset+tag")
				}
			}
			if reg.tr == pb.TransportType_Obfs4 {
				if r.Bool() {
					hi = 32 // representative
				} else {
					lo = len(f) - 32 // mark + mac
				}
			}
			bit := lo*8 + r.Intn((hi-lo)*8)
			o.kind, o.data = "altered-tag", append(flip(f, bit), early...)
			if reg.tr == pb.TransportType_Prefix && (bit-lo*8 == 31*8+6 || bit-lo*8 == 31*8+7) {
				// the two high bits of the Elligator representative carry no information: the client
				// randomises them and the station masks them before decoding (known finding)
				o.kind = "altered-elligator-pad-bits"
			}
			if reg.tr == pb.TransportType_Obfs4 && len(early) > 0 {
				o.data = flip(f, bit)
			}
		default:
			o.kind, o.owner = "garbage", nil
			n := []int{0, 1, 31, 32, 33, 63, 64, 65, 85, 200, 8191, 8192, 8200}[r.Intn(13)]
			o.data = r.Bytes(n)
			if r.Bool() {
				// a static prefix followed by garbage (chosen by the seeded PRNG, not by Go's map order)
				var ids []int
				for id := range w.ptr.SupportedPrefixes {
					ids = append(ids, int(id))
				}
				sort.Ints(ids)
				p := w.ptr.SupportedPrefixes[prefix.PrefixID(ids[r.Intn(len(ids))])]
				o.data = append(append([]byte(nil), p.StaticMatch...), o.data...)
			}
			o.tr = trs[r.Intn(3)]
		}
		if o.kind == "" {
			o.kind, o.data, o.genuine = "genuine", f, gen
		}
		w.offer(out, o)
	}
}

// c02LifetimeWorld: one to three registrations, each with its own little life — delivered (validated or
// only tracked; a new object, one with Valid preset, or the object of an earlier lifetime), perhaps
// delivered again later (a duplicate must not renew the lifetime: expiry counts from the FIRST
// delivery), perhaps used by a connection — then a sweep aimed half a minute before / after the end of a
// lifetime counted from one of the deliveries, perhaps a re-delivery after the sweep; then the genuine
// flight of every registration is offered on its phantom (plus a replay on another phantom).
func c02LifetimeWorld(out *vlib.Out, r *vlib.Rand) {
	w := newC02World(r.Range(1, 2))
	trs := []pb.TransportType{pb.TransportType_Min, pb.TransportType_Prefix, pb.TransportType_Obfs4}
	type life struct {
		ph, sec int
		tr      pb.TransportType
		pid     int32
	}
	var lives []life
	var starts []int64
	now := int64(0)
	nreg := r.Range(1, 3)
	for i := 0; i < nreg; i++ {
		l := life{ph: r.Intn(3), sec: i, tr: trs[r.Intn(3)], pid: int32(r.Intn(10))}
		l.sec = w.pickSec(r, l.tr, i)
		lives = append(lives, l)
		kind := []byte{'r', 'r', 'r', 't'}[r.Intn(4)]
		w.applyObj(kind, l.ph, l.sec, l.tr, l.pid, 0, now, []byte{0, 0, 1}[r.Intn(3)])
		starts = append(starts, now)
		if r.Chance(1, 3) {
			now += 60 * int64(r.Range(1, 5))
		}
	}
	for _, l := range lives {
		if r.Chance(1, 2) {
			// a duplicate delivery some minutes later, inside the unused lifetime of the first one
			now += 60 * int64(r.Range(1, 4))
			w.applyObj([]byte{'r', 't'}[r.Intn(2)], l.ph, l.sec, l.tr, l.pid, 0, now, []byte{0, 1, 2}[r.Intn(3)])
			starts = append(starts, now)
		}
		switch r.Intn(6) {
		case 0, 1:
			w.apply('m', l.ph, l.sec, l.tr, l.pid, 0, now)
		case 2, 3:
			// used by a connection that reaches Proxy, once or twice; the tunnel finishes or stays open
			for n := r.Range(1, 2); n > 0; n-- {
				w.connect(out, w.find(l.ph, l.sec, l.tr), now, r.Chance(1, 3))
			}
		}
	}
	defer w.closeTunnels(true)
	offerAll := func(kind string) {
		for _, l := range lives {
			reg := w.find(l.ph, l.sec, l.tr)
			f := w.flight(reg.sec, reg.tr, reg.prefixID, 0)
			w.offer(out, c02Offer{kind: kind, ph: reg.ph, tr: reg.tr, data: f, owner: reg, genuine: true, pid: reg.prefixID})
			w.offer(out, c02Offer{kind: "cross-phantom", ph: (reg.ph + 1) % 3, tr: reg.tr, data: f, owner: reg, genuine: true, pid: reg.prefixID})
		}
	}
	offerAll("genuine-before-sweep")
	for round, rounds := 0, r.Range(1, 2); round < rounds; round++ {
		at := starts[r.Intn(len(starts))] + []int64{c08Unused, c08Active}[r.Intn(2)] + []int64{-30, 30}[r.Intn(2)]
		if at <= now {
			at = now + 60*int64(r.Range(1, 400)) + 30
		}
		if r.Chance(1, 3) {
			w.closeTunnels(r.Bool())
		}
		w.sweep = c02RandomSweep(w, r)
		w.apply('s', 0, 0, 0, 0, 0, at)
		now = (at/60 + 1) * 60
		if r.Chance(1, 3) {
			// the sweeper comes round again a minute later
			w.apply('s', 0, 0, 0, 0, 0, now+30)
			now += 60
		}
		offerAll("replay-after-sweep")
		if r.Chance(1, 2) {
			// delivered again after the sweep: the object of the earlier lifetime, or a new one; tracked only
			// (not visible until validated) or validated
			l := lives[r.Intn(len(lives))]
			w.applyObj([]byte{'t', 't', 'r'}[r.Intn(3)], l.ph, l.sec, l.tr, l.pid, 0, now, []byte{0, 2, 2}[r.Intn(3)])
			starts = append(starts, now)
			offerAll("after-redelivery")
		}
	}
}

// c02RandomSweep: half of the sweeps run as one uninterrupted call; the others are interrupted before any
// of their removals by a connection on one of the registrations, and / or meet a look-up or a writer inside
// the registry lock at their start or at one of their removals.
func c02RandomSweep(w *c02World, r *vlib.Rand) *c02Sweep {
	if len(w.regs) == 0 || r.Chance(1, 2) {
		return nil
	}
	sw := &c02Sweep{}
	if r.Chance(2, 3) {
		sw.mark, sw.midAt = w.regs[r.Intn(len(w.regs))], r.Intn(len(w.regs))
	}
	if sw.mark == nil || r.Chance(1, 3) {
		sw.held, sw.holdAt = []byte{'r', 'w'}[r.Intn(2)], r.Range(-1, len(w.regs)-1)
	}
	return sw
}

func indexOf(l []pb.TransportType, t pb.TransportType) int {
	for i, x := range l {
		if x == t {
			return i
		}
	}
	return 0
}

func TestVerifC02(t *testing.T) {
	out := vlib.Open("C02")
	defer out.Close()
	r := vlib.NewRand("C02")
	// corpus: a prefix registration admitted with absent / typed-nil parameters, then flights built
	// with every prefix id for its secret; and an unvalidated + an expired registration
	{
		w := newC02World(3)
		w.apply('r', 0, 0, pb.TransportType_Prefix, 0, 1, 0)
		w.apply('r', 0, 1, pb.TransportType_Prefix, 0, 2, 0)
		w.apply('r', 0, 2, pb.TransportType_Prefix, 3, 0, 0)
		w.apply('r', 2, 0, pb.TransportType_Prefix, 0, 3, 0)
		w.apply('t', 1, 0, pb.TransportType_Min, 0, 0, 0)
		w.apply('r', 1, 1, pb.TransportType_Min, 0, 0, 0)
		w.apply('r', 1, 2, pb.TransportType_Obfs4, 0, 0, 0)
		for _, reg := range w.regs[:4] {
			for pid := int32(0); pid < 10; pid++ {
				f := w.flight(reg.sec, reg.tr, pid, 0)
				w.offer(out, c02Offer{kind: "cross-prefix", ph: reg.ph, tr: reg.tr, data: f, owner: reg, genuine: true, pid: pid})
			}
		}
		for _, reg := range w.regs[4:] {
			f := w.flight(reg.sec, reg.tr, 0, 0)
			w.offer(out, c02Offer{kind: "genuine", ph: reg.ph, tr: reg.tr, data: f, owner: reg, genuine: true})
		}
		{
			reg := w.regs[2]
			f := w.flight(reg.sec, reg.tr, reg.prefixID, 0)
			lo := len(f) - 64
			for _, b := range []int{31*8 + 6, 31*8 + 7} {
				w.offer(out, c02Offer{kind: "altered-elligator-pad-bits", ph: reg.ph, tr: reg.tr, data: flip(f, lo*8+b), owner: reg, pid: reg.prefixID})
			}
			w.offer(out, c02Offer{kind: "altered-tag", ph: reg.ph, tr: reg.tr, data: flip(f, lo*8+31*8+5), owner: reg, pid: reg.prefixID})
		}
		w.apply('s', 0, 0, 0, 0, 0, 630)
		for _, reg := range w.regs {
			f := w.flight(reg.sec, reg.tr, reg.prefixID, 0)
			w.offer(out, c02Offer{kind: "genuine", ph: reg.ph, tr: reg.tr, data: f, owner: reg, genuine: true, pid: reg.prefixID})
		}
	}
	// corpus: a registration that carried a connection, replayed after its 6 h lifetime; an unused one
	// replayed after 10 min; a used one replayed inside its lifetime (still accepted)
	{
		w := newC02World(1)
		w.apply('r', 0, 0, pb.TransportType_Min, 0, 0, 0)
		w.apply('r', 0, 1, pb.TransportType_Prefix, 4, 0, 0)
		w.apply('r', 1, 2, pb.TransportType_Obfs4, 0, 0, 0)
		w.apply('r', 1, 0, pb.TransportType_Min, 0, 0, 0)
		for _, reg := range w.regs[:3] {
			w.apply('m', reg.ph, reg.sec, reg.tr, reg.prefixID, 0, 60)
		}
		replay := func() {
			for _, reg := range w.regs {
				f := w.flight(reg.sec, reg.tr, reg.prefixID, 0)
				w.offer(out, c02Offer{kind: "replay-after-sweep", ph: reg.ph, tr: reg.tr, data: f, owner: reg, genuine: true, pid: reg.prefixID})
			}
		}
		w.apply('s', 0, 0, 0, 0, 0, 3630) // 1 h: the unused one is gone, the used ones stay
		replay()
		w.apply('s', 0, 0, 0, 0, 0, 25230) // 7 h: everything is gone
		replay()
	}
	// corpus: cross-transport near misses, several station keys, duplicates with other parameters
	{
		w := newC02World(3)
		w.apply('r', 0, 0, pb.TransportType_Min, 0, 0, 0)     // rid 1: plain min registration
		w.apply('r', 0, 1, pb.TransportType_Min, 4, 4, 0)     // rid 2: min registration carrying prefix parameters (id 4)
		w.apply('r', 0, 2, pb.TransportType_Obfs4, 0, 4, 0)   // rid 3: obfs4 registration carrying prefix parameters (id 0)
		w.apply('r', 0, 3, pb.TransportType_Prefix, 5, 0, 0)  // rid 4: prefix registration, id 5
		w.apply('t', 0, 4, pb.TransportType_Min, 0, 4, 0)     // rid 5: tracked only
		w.apply('r', 0, 3, pb.TransportType_Prefix, 7, 0, 60) // duplicate of rid 4 naming prefix 7
		w.apply('t', 0, 3, pb.TransportType_Prefix, 0, 1, 60) // duplicate of rid 4 without parameters
		for _, reg := range w.regs {
			for kj := 0; kj < 3; kj++ {
				for _, pid := range []int32{0, 4, 5} {
					// the identifier of every registration, wrapped as a prefix tag for every key
					w.offer(out, c02Offer{kind: "cross-transport-crafted", ph: reg.ph, tr: pb.TransportType_Prefix, owner: reg, pid: pid,
						genuine: reg.tr == pb.TransportType_Prefix, data: w.crafted(w.identBytes(reg), pid, kj)})
				}
			}
			// the bare identifier offered to min and to prefix, on its own and on another phantom
			id := w.identBytes(reg)
			w.offer(out, c02Offer{kind: "raw-identifier-to-min", ph: reg.ph, tr: pb.TransportType_Min, owner: reg, rawIdent: true, data: append(append([]byte(nil), id...), 1, 2, 3)})
			w.offer(out, c02Offer{kind: "raw-identifier-to-min", ph: 1, tr: pb.TransportType_Min, owner: reg, rawIdent: true, data: id})
			w.offer(out, c02Offer{kind: "raw-identifier-to-prefix", ph: reg.ph, tr: pb.TransportType_Prefix, owner: reg, data: append(append([]byte(nil), id...), make([]byte, 64)...)})
		}
		{
			reg := w.regs[3]
			for kj := 0; kj < 4; kj++ { // key 3 is not held by the station
				for _, pid := range []int32{5, 7, 0} {
					kind := "genuine"
					switch {
					case kj == 3:
						kind = "unknown-station-key"
					case pid == 7:
						kind = "duplicate-other-prefix"
					case pid == 0:
						kind = "cross-prefix"
					}
					w.offer(out, c02Offer{kind: kind, ph: reg.ph, tr: reg.tr, owner: reg, pid: pid, genuine: kj < 3, data: w.flightK(reg.sec, reg.tr, pid, 0, kj)})
				}
			}
		}
	}
	// corpus: a duplicate delivery does not renew the lifetime (expiry counts from the first delivery);
	// an object that lived before is tracked again after the sweep forgot it, or arrives with its Valid
	// flag set: tracked, but no flight is accepted for it until it is validated (again)
	{
		w := newC02World(1)
		w.apply('r', 0, 0, pb.TransportType_Min, 0, 0, 0)
		w.apply('r', 0, 1, pb.TransportType_Prefix, 2, 0, 0)
		w.apply('r', 1, 2, pb.TransportType_Obfs4, 0, 0, 0)
		w.apply('r', 0, 3, pb.TransportType_Min, 0, 0, 0)
		w.apply('m', 0, 3, pb.TransportType_Min, 0, 0, 60)
		w.apply('r', 0, 0, pb.TransportType_Min, 0, 0, 300) // duplicates, 5 and 9 minutes after the first delivery
		w.apply('t', 0, 1, pb.TransportType_Prefix, 2, 0, 540)
		w.applyObj('r', 1, 2, pb.TransportType_Obfs4, 0, 0, 540, 2) // … the same object once more
		offerAll := func(kind string) {
			for _, reg := range w.regs {
				f := w.flight(reg.sec, reg.tr, reg.prefixID, 0)
				w.offer(out, c02Offer{kind: kind, ph: reg.ph, tr: reg.tr, data: f, owner: reg, genuine: true, pid: reg.prefixID})
			}
		}
		w.apply('s', 0, 0, 0, 0, 0, 630) // 10.5 min after the FIRST deliveries: the three unused ones are expired
		offerAll("replay-after-sweep")
		// the objects of the ended lifetimes are delivered again (tracked only): not visible
		w.applyObj('t', 0, 0, pb.TransportType_Min, 0, 0, 720, 2)
		w.applyObj('t', 0, 1, pb.TransportType_Prefix, 2, 0, 720, 2)
		w.applyObj('t', 1, 2, pb.TransportType_Obfs4, 0, 0, 720, 2)
		offerAll("after-redelivery")
		w.applyObj('r', 0, 0, pb.TransportType_Min, 0, 0, 780, 2) // validated again: accepted again
		offerAll("after-redelivery")
		w.apply('r', 0, 3, pb.TransportType_Min, 0, 0, 3600) // a duplicate of the used one, an hour into its lifetime
		w.apply('s', 0, 0, 0, 0, 0, 21630)                   // 6 h after the first delivery of the used one (its duplicate at 1 h does not count)
		offerAll("replay-after-sweep")
	}
	{
		w := newC02World(2)
		w.applyObj('t', 0, 0, pb.TransportType_Min, 0, 0, 0, 1) // constructed with Valid set, only tracked
		w.applyObj('t', 0, 1, pb.TransportType_Prefix, 6, 0, 0, 1)
		w.applyObj('t', 2, 2, pb.TransportType_Obfs4, 0, 0, 0, 1)
		w.applyObj('r', 2, 3, pb.TransportType_Obfs4, 0, 0, 0, 1)
		for _, reg := range w.regs {
			f := w.flight(reg.sec, reg.tr, reg.prefixID, 0)
			w.offer(out, c02Offer{kind: "genuine", ph: reg.ph, tr: reg.tr, data: f, owner: reg, genuine: true, pid: reg.prefixID})
		}
	}
	// corpus: several registrations expire in ONE sweep; a connection is matched to one of them before the
	// first / second / third removal of that sweep (that one lives on, every other one must be forgotten:
	// its genuine flight is no longer accepted); a look-up / a writer is inside the registry lock when the
	// sweep starts or when one of its removals arrives (the sweep waits, nothing is skipped)
	for variant := 0; variant < 9; variant++ {
		w := newC02World(1)
		w.apply('r', 0, 0, pb.TransportType_Min, 0, 0, 0)
		w.apply('r', 0, 1, pb.TransportType_Prefix, 3, 0, 0)
		w.apply('r', 1, 2, pb.TransportType_Obfs4, 0, 0, 0)
		w.apply('r', 0, 3, pb.TransportType_Min, 0, 0, 0)
		switch {
		case variant < 4:
			w.sweep = &c02Sweep{mark: w.regs[variant%4], midAt: variant % 3}
		case variant < 7:
			w.sweep = &c02Sweep{held: []byte{'r', 'w', 'r'}[variant-4], holdAt: variant - 5}
		default:
			w.sweep = &c02Sweep{mark: w.regs[1], midAt: 1, held: []byte{'r', 'w'}[variant-7], holdAt: 2}
		}
		w.apply('s', 0, 0, 0, 0, 0, 630)
		for _, reg := range w.regs {
			f := w.flight(reg.sec, reg.tr, reg.prefixID, 0)
			w.offer(out, c02Offer{kind: "replay-after-sweep", ph: reg.ph, tr: reg.tr, data: f, owner: reg, genuine: true, pid: reg.prefixID})
		}
	}
	// corpus: the whole life of a registration, for every transport x every separator byte in the identifier
	// (and '|' / NUL as its first byte, its last byte, twice): delivered (a third: tracked first, validated a
	// minute later), a third used by a connection that reaches Proxy (the tunnel finishes at once; every
	// fourth of those stays open across the sweeps), a third marked used only; sweep after 10.5 min (the
	// unused ones are forgotten), after 7 h (all are), and once more a minute later; the genuine flight of
	// every registration replayed after each sweep.
	for _, tr := range []pb.TransportType{pb.TransportType_Min, pb.TransportType_Prefix, pb.TransportType_Obfs4} {
		w := newC02World(1)
		n := 0
		add := func(sec int) {
			ph := n % 3
			if n%3 == 1 {
				w.apply('t', ph, sec, tr, int32(n%10), 0, 0)
			} else {
				w.apply('r', ph, sec, tr, int32(n%10), 0, 0)
			}
			n++
		}
		add(0)
		add(1)
		add(2)
		for bi := range c02Bytes {
			add(w.specialSec(tr, bi, 0, 0))
		}
		for bi := 0; bi < 2; bi++ {
			for pos := 1; pos <= 3; pos++ {
				add(w.specialSec(tr, bi, pos, 0))
			}
		}
		for i, reg := range w.regs {
			if i%3 == 1 {
				w.apply('r', reg.ph, reg.sec, reg.tr, reg.prefixID, 0, 60)
			}
		}
		for i, reg := range w.regs {
			switch i % 3 {
			case 0:
				w.connect(out, reg, 120, i%4 == 0)
			case 1:
				w.apply('m', reg.ph, reg.sec, reg.tr, reg.prefixID, 0, 120)
			}
		}
		replay := func() {
			for _, reg := range w.regs {
				f := w.flight(reg.sec, reg.tr, reg.prefixID, 0)
				w.offer(out, c02Offer{kind: "replay-after-sweep", ph: reg.ph, tr: reg.tr, data: f, owner: reg, genuine: true, pid: reg.prefixID})
			}
		}
		w.apply('s', 0, 0, 0, 0, 0, 630)
		replay()
		w.apply('s', 0, 0, 0, 0, 0, 25230)
		w.apply('s', 0, 0, 0, 0, 0, 25290)
		replay()
		w.closeTunnels(true)
	}
	for i, n := 0, vlib.Budget(120, 2400); i < n; i++ {
		c02LifetimeWorld(out, r)
	}
	worlds := vlib.Budget(150, 3000)
	for i := 0; i < worlds; i++ {
		c02RunWorld(out, r, 40)
	}
}
