//go:build verif

package lib

// C02, byte level: what a matching WrapConnection takes out of the stream and what the tunnel is handed.
//
//   prepend|…    the real transports.PrependToConn over a buffer remainder and a scripted socket, read with
//                buffer sizes of any kind (0, 1, larger than everything) — model CJ.WrapStream.mrRead/runReads
//   wrapread|…   the real WrapConnection of min / prefix on genuine flights followed by early data (and on
//                streams that match nothing), then the returned connection is read to its end with random
//                sizes — model handedOn + runReads; for no match the buffer must be as it was
//   obfs4mark|…  the real findMarkMac(fromTail) on buffers around every length threshold with the mark at /
//                next to / far from the place it has to be — model CJ.WrapStream.findMarkTail
//
// Oracles (computed here, not by the model): the tunnel's reads return exactly (first bytes after the
// proving bytes) ++ (socket bytes), in order, once, io.EOF only after the last; an unmatched buffer is
// unchanged; a mark is reported only where the search is defined to look and only if all 16 bytes are there.

import (
	"bufio"
	"bytes"
	"encoding/hex"
	"errors"
	"fmt"
	"io"
	"net"
	"os"
	"strconv"
	"strings"
	"testing"
	"time"

	"github.com/refraction-networking/conjure/internal/vlib"
	"github.com/refraction-networking/conjure/pkg/transports"
	"github.com/refraction-networking/conjure/pkg/transports/wrapping/obfs4"
	pb "github.com/refraction-networking/conjure/proto"
)

var errC02Sock = errors.New("scripted socket failure")

// c02ScriptConn: a raw connection whose later reads are scripted.
type c02ScriptConn struct {
	chunks [][]byte
	end    byte // 'E' io.EOF after the chunks, 'X' another error, 'D' the last bytes come together with io.EOF
	reads  int
}

func (c *c02ScriptConn) Read(p []byte) (int, error) {
	c.reads++
	if len(c.chunks) == 0 {
		if c.end == 'X' {
			return 0, errC02Sock
		}
		return 0, io.EOF
	}
	if len(p) == 0 {
		return 0, nil
	}
	n := copy(p, c.chunks[0])
	if n < len(c.chunks[0]) {
		c.chunks[0] = c.chunks[0][n:]
		return n, nil
	}
	c.chunks = c.chunks[1:]
	if len(c.chunks) == 0 && c.end == 'D' {
		return n, io.EOF
	}
	return n, nil
}
func (c *c02ScriptConn) Write(p []byte) (int, error)      { return len(p), nil }
func (c *c02ScriptConn) Close() error                     { return nil }
func (c *c02ScriptConn) LocalAddr() net.Addr              { return &net.TCPAddr{IP: net.IPv4(127, 0, 0, 1), Port: 1} }
func (c *c02ScriptConn) RemoteAddr() net.Addr             { return &net.TCPAddr{IP: net.IPv4(127, 0, 0, 1), Port: 2} }
func (c *c02ScriptConn) SetDeadline(time.Time) error      { return nil }
func (c *c02ScriptConn) SetReadDeadline(time.Time) error  { return nil }
func (c *c02ScriptConn) SetWriteDeadline(time.Time) error { return nil }

type c02Script struct {
	chunks [][]byte
	end    byte
}

func (s c02Script) conn() *c02ScriptConn {
	c := &c02ScriptConn{end: s.end}
	for _, ch := range s.chunks {
		c.chunks = append(c.chunks, append([]byte(nil), ch...))
	}
	return c
}

func (s c02Script) text() string {
	var l []string
	for _, ch := range s.chunks {
		l = append(l, vlib.Hex(ch))
	}
	return strings.Join(l, ",") + "|" + string(s.end)
}

func (s c02Script) all() []byte {
	var b []byte
	for _, ch := range s.chunks {
		b = append(b, ch...)
	}
	return b
}

func c02RandScript(r *vlib.Rand) c02Script {
	s := c02Script{end: "EEEXD"[r.Intn(5)]}
	for i, n := 0, r.Intn(5); i < n; i++ {
		l := r.Range(1, 24)
		if r.Chance(1, 12) {
			l = 0 // a read that returns (0, nil): allowed by io.Reader
		}
		s.chunks = append(s.chunks, r.Bytes(l))
	}
	return s
}

func c02RandSizes(r *vlib.Rand, total int) []int {
	var sizes []int
	for i, n := 0, r.Intn(10); i < n; i++ {
		switch r.Intn(6) {
		case 0:
			sizes = append(sizes, 0)
		case 1:
			sizes = append(sizes, 1)
		case 2:
			sizes = append(sizes, total+r.Intn(40))
		default:
			sizes = append(sizes, r.Range(1, 40))
		}
	}
	// then to the end (a socket that fails never reports the end: bounded)
	big := r.Range(1, 64)
	for i := 0; i < total/big+8; i++ {
		sizes = append(sizes, big)
	}
	return sizes
}

// c02ReadAll reads rd with the given buffer sizes; canonical text `<hex>:<-|eof|err>,…` and what was returned.
func c02ReadAll(rd io.Reader, sizes []int) (string, []byte, []string) {
	var l, errs []string
	var got []byte
	for _, n := range sizes {
		p := make([]byte, n)
		k, err := rd.Read(p)
		e := "-"
		switch {
		case err == io.EOF:
			e = "eof"
		case err != nil:
			e = "err"
		}
		if k < 0 || k > n {
			e = "badcount"
			k = 0
		}
		got = append(got, p[:k]...)
		l = append(l, vlib.Hex(p[:k])+":"+e)
		errs = append(errs, e)
	}
	return strings.Join(l, ","), got, errs
}

func c02Ints(l []int) string {
	s := make([]string, len(l))
	for i, v := range l {
		s[i] = strconv.Itoa(v)
	}
	return strings.Join(s, ",")
}

// c02StreamOracle: what a tunnel reading `rd`-style results must have seen, given what was to come.
func c02StreamOracle(out *vlib.Out, line string, want []byte, end byte, got []byte, errs []string, sizes []int) {
	out.Checked()
	fail := func(what string) { out.OracleFail("C02:tunnel-stream-not-exact", what, line) }
	if !bytes.HasPrefix(want, got) {
		fail(fmt.Sprintf("the tunnel read %s, which is not an initial piece of what followed the proving bytes (%s)", vlib.Hex(got), vlib.Hex(want)))
		return
	}
	sawEOF := false
	for i, e := range errs {
		if e == "badcount" {
			fail("Read returned a count outside its buffer")
			return
		}
		if e == "eof" {
			sawEOF = true
		}
		if e == "err" && end != 'X' {
			fail(fmt.Sprintf("read %d reported an error the connection never produced", i))
			return
		}
	}
	if sawEOF && !bytes.Equal(want, got) {
		fail(fmt.Sprintf("end of stream reported after %d of %d bytes", len(got), len(want)))
		return
	}
	// enough non-empty reads were made to drain a stream that ends (see c02RandSizes)
	if end != 'X' && !sawEOF {
		fail(fmt.Sprintf("the stream never ended: %d of %d bytes after %d reads", len(got), len(want), len(sizes)))
	}
	if end == 'X' && !bytes.Equal(want, got) {
		fail(fmt.Sprintf("bytes lost before the connection's error: %d of %d", len(got), len(want)))
	}
}

func c02PrependCase(out *vlib.Out, rem []byte, s c02Script, sizes []int) {
	line := fmt.Sprintf("prepend|%s|%s|%s", vlib.Hex(rem), s.text(), c02Ints(sizes))
	pc := transports.PrependToConn(s.conn(), bytes.NewBuffer(append([]byte(nil), rem...)))
	txt, got, errs := c02ReadAll(pc, sizes)
	out.Case(line, txt, len(got) > 0)
	out.Count(fmt.Sprintf("prepend:end-%c", s.end))
	if len(rem) == 0 {
		out.Count("prepend:empty-remainder")
	}
	c02StreamOracle(out, line, append(append([]byte(nil), rem...), s.all()...), s.end, got, errs, sizes)
}

// c02WrapRead: one stream through the real WrapConnection over a scripted socket; flightLen > 0: the stream
// begins with a genuine flight of that length for a registration that is visible (a match is expected).
func (w *c02World) c02WrapRead(out *vlib.Out, r *vlib.Rand, tr pb.TransportType, ph int, data []byte, flightLen int, kind string) {
	t := w.rm.registeredDecoys.transports[tr].(WrappingTransport)
	ip := net.ParseIP(c08Phantoms[ph])
	buf := bytes.NewBuffer(append([]byte(nil), data...))
	s := c02RandScript(r)
	sc := s.conn()
	var reg transports.Registration
	var wrapped net.Conn
	var err error
	var pan interface{}
	func() {
		defer func() { pan = recover() }()
		reg, wrapped, err = t.WrapConnection(buf, sc, ip, w.rm)
	}()
	out.Count("wrapread:" + kind)
	if pan != nil {
		out.Checked()
		out.OracleFail("C02:panic", fmt.Sprintf("WrapConnection panicked: %v", pan), "wrapread|"+trName(tr)+"|"+vlib.Hex(data))
		return
	}
	if err != nil || reg == nil || wrapped == nil {
		line := fmt.Sprintf("wrapread|-|%s|%s|", vlib.Hex(data), s.text())
		out.Case(line, "kept:"+vlib.Hex(buf.Bytes()), false)
		out.Count("wrapread:verdict-none")
		out.Checked()
		if !bytes.Equal(buf.Bytes(), data) || sc.reads != 0 {
			out.OracleFail("C02:unmatched-buffer-altered", fmt.Sprintf("%s answered %v and left the buffer %s (was %s), socket reads %d: the next transport / the next attempt no longer sees the client's first bytes", trName(tr), err, vlib.Hex(buf.Bytes()), vlib.Hex(data), sc.reads), line)
		}
		if flightLen > 0 {
			out.Count("wrapread:genuine-not-matched")
		}
		return
	}
	consumed := len(data) - buf.Len()
	sizes := c02RandSizes(r, buf.Len()+len(s.all()))
	line := fmt.Sprintf("wrapread|f%d|%s|%s|%s", consumed, vlib.Hex(data), s.text(), c02Ints(sizes))
	txt, got, errs := c02ReadAll(wrapped, sizes)
	out.Case(line, txt, true)
	out.Count("wrapread:verdict-found")
	if flightLen <= 0 {
		// acceptance itself is judged by TestVerifC02's oracle; here only the stream
		return
	}
	c02StreamOracle(out, line, append(append([]byte(nil), data[flightLen:]...), s.all()...), s.end, got, errs, sizes)
}

func c02MarkCase(out *vlib.Out, mark, buf []byte, start, max int) {
	line := fmt.Sprintf("obfs4mark|%s|%d|%d|%s", vlib.Hex(mark), start, max, vlib.Hex(buf))
	pos, pan := obfs4.VerifFindMarkTail(mark, buf, start, max)
	impl := strconv.Itoa(pos)
	if pan {
		impl = "panic"
	}
	out.Case(line, impl, pos >= 0)
	out.Checked()
	if pan {
		out.Count("obfs4mark:panic")
		return
	}
	// the statement itself: a mark is located only as all 16 bytes that end 16 bytes before the end of the
	// searched part (the buffer cut at max), at or after start — and then it is located
	end := len(buf)
	if end > max {
		end = max
	}
	there := start <= len(buf) && end-start >= 32 && bytes.Equal(buf[end-32:end-16], mark)
	switch {
	case pos >= 0 && !there:
		out.OracleFail("C02:obfs4-mark-accepted-elsewhere", fmt.Sprintf("mark reported at %d although the 16 bytes before the MAC at the end of the searched part are not the mark (len %d, start %d, max %d)", pos, len(buf), start, max), line)
	case pos >= 0 && pos != end-32:
		out.OracleFail("C02:obfs4-mark-accepted-elsewhere", fmt.Sprintf("mark reported at %d, expected %d", pos, end-32), line)
	case pos < 0 && there:
		out.OracleFail("C02:obfs4-mark-missed", fmt.Sprintf("the mark sits at %d and was not found (len %d, start %d, max %d)", end-32, len(buf), start, max), line)
	}
	if there {
		out.Count("obfs4mark:there")
	} else {
		out.Count("obfs4mark:absent")
	}
}

func c02StreamReplay(t *testing.T, out *vlib.Out, path string) {
	f, err := os.Open(path)
	if err != nil {
		t.Fatal(err)
	}
	defer f.Close()
	sc := bufio.NewScanner(f)
	sc.Buffer(make([]byte, 1<<20), 1<<26)
	unhex := func(s string) []byte {
		if s == "-" || s == "" {
			return nil
		}
		b, _ := hex.DecodeString(s)
		return b
	}
	ints := func(s string) []int {
		var l []int
		for _, x := range strings.Split(s, ",") {
			if v, e := strconv.Atoi(x); e == nil {
				l = append(l, v)
			}
		}
		return l
	}
	for sc.Scan() {
		p := strings.Split(sc.Text(), "|")
		switch {
		case p[0] == "prepend" && len(p) == 5:
			s := c02Script{end: p[3][0]}
			if p[2] != "" {
				for _, c := range strings.Split(p[2], ",") {
					s.chunks = append(s.chunks, unhex(c))
				}
			}
			c02PrependCase(out, unhex(p[1]), s, ints(p[4]))
		case p[0] == "obfs4mark" && len(p) == 5:
			a, _ := strconv.Atoi(p[2])
			b, _ := strconv.Atoi(p[3])
			c02MarkCase(out, unhex(p[1]), unhex(p[4]), a, b)
		}
	}
}

func TestVerifStreamC02(t *testing.T) {
	out := vlib.Open("C02stream")
	defer out.Close()
	if rp := vlib.Replay(); rp != "" {
		c02StreamReplay(t, out, rp)
		return
	}
	r := vlib.NewRand("C02stream")

	// ---- prepend: corpus, then random
	for _, rem := range [][]byte{nil, {1}, {1, 2, 3, 4, 5}} {
		for _, s := range []c02Script{
			{end: 'E'}, {end: 'X'}, {end: 'D'},
			{chunks: [][]byte{{9}}, end: 'E'}, {chunks: [][]byte{{9}}, end: 'D'}, {chunks: [][]byte{{9, 8, 7}, {6}}, end: 'X'},
			{chunks: [][]byte{{}, {9, 8}}, end: 'E'},
		} {
			for _, sizes := range [][]int{{0, 0, 1, 1, 1, 1, 1, 1, 1, 1, 1, 1, 1, 1}, {100, 100, 100, 100}, {2, 0, 2, 2, 2, 2, 2, 2, 2}, {5, 5, 5, 5, 5}} {
				c02PrependCase(out, rem, s, sizes)
			}
		}
	}
	for i, n := 0, vlib.Budget(1500, 20000); i < n; i++ {
		var rem []byte
		if !r.Chance(1, 5) {
			rem = r.Bytes(r.Range(1, 48))
		}
		s := c02RandScript(r)
		c02PrependCase(out, rem, s, c02RandSizes(r, len(rem)+len(s.all())))
	}

	// ---- wrapread: registrations of min and prefix (every prefix id) on two phantoms
	{
		w := newC02World(2)
		type rg struct {
			ph, sec int
			tr      pb.TransportType
			pid     int32
		}
		var regs []rg
		regs = append(regs, rg{0, 0, pb.TransportType_Min, 0}, rg{1, 1, pb.TransportType_Min, 0})
		for pid := int32(0); pid < 10; pid++ {
			regs = append(regs, rg{int(pid) % 2, 2 + int(pid), pb.TransportType_Prefix, pid})
		}
		for _, g := range regs {
			w.apply('r', g.ph, g.sec, g.tr, g.pid, 0, 0)
		}
		for i, n := 0, vlib.Budget(400, 6000); i < n; i++ {
			g := regs[r.Intn(len(regs))]
			flush := int32(r.Intn(3))
			f := w.flightK(g.sec, g.tr, g.pid, flush, r.Intn(2))
			early := r.Bytes([]int{0, 0, 1, 7, 64, 300}[r.Intn(6)])
			data := append(append([]byte(nil), f...), early...)
			switch k := r.Intn(11); {
			case k == 10:
				if g.tr == pb.TransportType_Prefix {
					other := (g.pid + 1 + int32(r.Intn(9))) % 10
					w.c02WrapRead(out, r, g.tr, g.ph, append(append([]byte(nil), w.flightK(g.sec, g.tr, other, flush, 0)...), early...), 0, "cross-prefix")
				}
			case k < 6:
				w.c02WrapRead(out, r, g.tr, g.ph, data, len(f), "genuine+early")
			case k < 7:
				w.c02WrapRead(out, r, g.tr, 1-g.ph, data, 0, "other-phantom")
			case k < 8:
				w.c02WrapRead(out, r, g.tr, g.ph, data[:r.Intn(len(f))], 0, "truncated")
			case k < 9:
				w.c02WrapRead(out, r, g.tr, g.ph, flip(data, r.Intn(len(f)*8)), 0, "altered")
			default:
				w.c02WrapRead(out, r, []pb.TransportType{pb.TransportType_Min, pb.TransportType_Prefix}[r.Intn(2)], g.ph, r.Bytes([]int{0, 5, 32, 64, 90, 400}[r.Intn(6)]), 0, "garbage")
			}
		}
	}

	// ---- obfs4mark
	start, max := obfs4.VerifSearchWindow()
	lens := []int{0, 16, 31, 32, 33, 63, 64, start - 1, start, start + 1, start + 31, start + 32, start + 33, 200, 1000, max - 33, max - 32, max - 1, max, max + 1, max + 31, max + 32, max + 33, max + 500}
	for i, n := 0, vlib.Budget(600, 6000); i < n; i++ {
		l := lens[r.Intn(len(lens))]
		if r.Chance(1, 4) {
			l = r.Intn(600)
		}
		st, mx := start, max
		if r.Chance(1, 4) {
			// the function for any window (small ones are cheap to explore exhaustively-ish)
			st, mx = r.Intn(80), r.Intn(160)
			l = r.Intn(200)
		}
		buf := r.Bytes(l)
		mark := r.Bytes(16)
		if r.Chance(1, 25) {
			mark = r.Bytes([]int{0, 15, 17, 32}[r.Intn(4)])
		}
		end := l
		if end > mx {
			end = mx
		}
		place := -1
		switch r.Intn(8) {
		case 0, 1, 2:
			place = end - 32
		case 3:
			place = end - 32 + []int{-1, 1, -16, 16}[r.Intn(4)]
		case 4:
			place = l - 32 // the tail of the WHOLE buffer (differs beyond the cut-off)
		case 5:
			if l > 48 {
				place = 32 + r.Intn(l-48)
			}
		}
		if place >= 0 && place+len(mark) <= l {
			copy(buf[place:], mark)
			if r.Chance(1, 5) && len(mark) > 0 {
				buf[place+r.Intn(len(mark))] ^= 1 << r.Intn(8)
				out.Count("obfs4mark:flipped")
			}
		}
		c02MarkCase(out, mark, buf, st, mx)
	}
}
