//go:build verif

package obfs4

// Harness-only helper (exists only in the scratch copy): evaluates the mark search of
// WrapConnection for one registration with the package's own functions.

import (
	"github.com/refraction-networking/conjure/pkg/transports"
	"github.com/refraction-networking/obfs4/common/ntor"
)

func VerifMarkAtTail(r transports.Registration, data []byte) bool {
	if len(data) < ntor.RepresentativeLength {
		return false
	}
	if r.TransportKeys() == nil {
		keys, err := generateObfs4Keys(r.TransportReader())
		if err != nil {
			return false
		}
		if err = r.SetTransportKeys(keys); err != nil {
			return false
		}
	}
	k, ok := r.TransportKeys().(Obfs4Keys)
	if !ok {
		return false
	}
	var rep ntor.Representative
	copy(rep[:ntor.RepresentativeLength], data[:ntor.RepresentativeLength])
	mark := generateMark(k.NodeID, k.PublicKey, &rep)
	return findMarkMac(mark, data, ntor.RepresentativeLength+ClientMinPadLength, MaxHandshakeLength, true) != -1
}

// VerifMarkOf: the mark WrapConnection computes for registration r over the representative at the head of
// data (generateMark with the registration's keys); nil when the registration yields no keys.
func VerifMarkOf(r transports.Registration, data []byte) []byte {
	if len(data) < ntor.RepresentativeLength {
		return nil
	}
	if r.TransportKeys() == nil {
		keys, err := generateObfs4Keys(r.TransportReader())
		if err != nil {
			return nil
		}
		if err = r.SetTransportKeys(keys); err != nil {
			return nil
		}
	}
	k, ok := r.TransportKeys().(Obfs4Keys)
	if !ok {
		return nil
	}
	var rep ntor.Representative
	copy(rep[:ntor.RepresentativeLength], data[:ntor.RepresentativeLength])
	return generateMark(k.NodeID, k.PublicKey, &rep)
}

// VerifFindMarkTail runs the package's findMarkMac the way WrapConnection calls it (fromTail) with any
// start / cut-off; a panic is an answer.
func VerifFindMarkTail(mark, buf []byte, startPos, maxPos int) (pos int, panicked bool) {
	defer func() {
		if recover() != nil {
			pos, panicked = -1, true
		}
	}()
	return findMarkMac(mark, buf, startPos, maxPos, true), false
}

// VerifSearchWindow: the start offset and cut-off WrapConnection passes to findMarkMac.
func VerifSearchWindow() (startPos, maxPos int) {
	return ntor.RepresentativeLength + ClientMinPadLength, MaxHandshakeLength
}
