//go:build verif

package obfs4

// Harness-only helper (exists only in the scratch copy): evaluates the mark search of
// WrapConnection for one registration with the package's own functions.

import (
	"github.com/refraction-networking/conjure/pkg/transports"
	"github.com/refraction-networking/obfs4/common/ntor"
)

func VerifMarkAtTail(r transports.Registration, data []byte) bool {
	if len(data) < ntor.RepresentativeLength {
		return false
	}
	if r.TransportKeys() == nil {
		keys, err := generateObfs4Keys(r.TransportReader())
		if err != nil {
			return false
		}
		if err = r.SetTransportKeys(keys); err != nil {
			return false
		}
	}
	k, ok := r.TransportKeys().(Obfs4Keys)
	if !ok {
		return false
	}
	var rep ntor.Representative
	copy(rep[:ntor.RepresentativeLength], data[:ntor.RepresentativeLength])
	mark := generateMark(k.NodeID, k.PublicKey, &rep)
	return findMarkMac(mark, data, ntor.RepresentativeLength+ClientMinPadLength, MaxHandshakeLength, true) != -1
}
