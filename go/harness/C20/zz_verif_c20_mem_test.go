//go:build verif

package assets

// C20, the in-memory side: whole histories of calls of the asset store, in-process.
//
// One case = one history of 5-16 calls on the real singleton: initAssets / AssetsSetDir over two or three
// directories (and one that does not exist) whose ClientConf file is missing, valid, unparsable, empty,
// truncated or carries unknown fields; SetClientConf (objects the caller keeps, also nil), the four in-place
// setters, the caller mutating an object it passed earlier, somebody replacing the file, and the readers.
// A store the environment lets fail is made to fail for real (the directory is moved away for the time of the
// call, or the target name is occupied by a non-empty directory so that the rename step fails).
//
// Correspondence (`mem|…`, CJ.AssetsMem): after every call the result, the identity of the object a.config
// points to, its content, and what the real reader makes of the file of a.path; at the end every object and
// every directory's file.
//
// Oracle (own bookkeeping, independent of the model): a failed SetClientConf changes nothing (pointer, every
// object, the file); a store that returned nil left a file that parses to exactly the configuration in memory;
// a failed store of any kind left the file as it was; a failed load left the configuration in memory alone.

import (
	"crypto/sha256"
	"encoding/hex"
	"encoding/json"
	"fmt"
	"io"
	"os"
	"path/filepath"
	"regexp"
	"strings"
	"testing"

	"github.com/refraction-networking/conjure/internal/vlib"
	ps "github.com/refraction-networking/conjure/pkg/phantoms"
	"github.com/refraction-networking/conjure/pkg/station/log"
	pb "github.com/refraction-networking/conjure/proto"
	"google.golang.org/protobuf/proto"
)

type c20mEv struct {
	K  string // a c g k y s m D I t rg ri rs rd rp rn
	A  int
	B  int
	IO bool
	F  int // how a failing store is made to fail: 0 directory moved away, 1 target name occupied by a directory
}

type c20mCase struct {
	D     int
	Files [][2]int // per directory: file kind, seed
	Evs   []c20mEv
}

func c20mHash(b []byte) string {
	h := sha256.Sum256(b)
	return hex.EncodeToString(h[:4])
}

func c20mDet(m proto.Message) []byte {
	b, _ := proto.MarshalOptions{AllowPartial: true, Deterministic: true}.Marshal(m)
	return b
}

var c20mHostOK = regexp.MustCompile(`^[A-Za-z0-9.-]*$`)

func c20mDecoyTok(d *pb.TLSDecoySpec) string {
	key := d.GetHostname() + "@" + strings.ReplaceAll(d.GetIpAddrStr(), ":", "_")
	if !c20mHostOK.MatchString(d.GetHostname()) {
		key = "x" + hex.EncodeToString([]byte(key))
	}
	return key + "#" + c20mHash(c20mDet(d))
}

func c20mRender(c *pb.ClientConf) string {
	if c == nil {
		return "nil"
	}
	gen, pub, dec, sub, rest := "-", "-", "-", "-", "-"
	if c.Generation != nil {
		gen = fmt.Sprint(*c.Generation)
	}
	if c.DefaultPubkey != nil {
		pub = "k" + c20mHash(c20mDet(c.DefaultPubkey))
	}
	if c.DecoyList != nil {
		var toks []string
		for _, d := range c.DecoyList.TlsDecoys {
			toks = append(toks, c20mDecoyTok(d))
		}
		dec = "[" + strings.Join(toks, "+") + "]"
	}
	if c.PhantomSubnetsList != nil {
		sub = "s" + c20mHash(c20mDet(c.PhantomSubnetsList))
	}
	r := proto.Clone(c).(*pb.ClientConf)
	r.Generation, r.DefaultPubkey, r.DecoyList, r.PhantomSubnetsList = nil, nil, nil, nil
	if b := c20mDet(r); len(b) > 0 {
		rest = "r" + c20mHash(b)
	}
	return fmt.Sprintf("%s,%s,%s,%s,%s,%s", gen, pub, dec, sub, rest, vlib.B(proto.CheckInitialized(c) == nil))
}

func c20mConf(seed int) *pb.ClientConf {
	c := &pb.ClientConf{}
	if seed%5 != 0 {
		g := uint32(100 + seed)
		c.Generation = &g
	}
	if seed%3 != 0 {
		c.DefaultPubkey = c20Key(seed, 32)
	}
	switch seed % 4 {
	case 1:
		c.DecoyList = &pb.DecoyList{}
	case 2, 3:
		c.DecoyList = &pb.DecoyList{TlsDecoys: c20Decoys(seed%11, 1+seed%3)}
	}
	if seed%2 == 1 {
		c.PhantomSubnetsList = c20SubnetsList(seed)
	}
	switch seed % 7 {
	case 3:
		c.DnsRegConf = c20DNS(false, seed)
	case 1, 5:
		c.DnsRegConf = c20DNS(true, seed)
	case 6:
		c.ConjurePubkey = c20Key(seed+1, 32)
	}
	return c
}

// c20mFileBytes: content of a ClientConf file of the given kind (nil, false = no file)
func c20mFileBytes(kind, seed int) ([]byte, bool) {
	valid := func() []byte {
		s := seed
		for proto.CheckInitialized(c20mConf(s)) != nil {
			s++
		}
		b, _ := proto.Marshal(c20mConf(s))
		return b
	}
	switch kind {
	case 0:
		return nil, false
	case 1:
		return valid(), true
	case 2:
		return []byte{0xff, 0xff, 0xff, byte(seed), 0x07}, true
	case 3:
		return []byte{}, true
	case 4:
		b := valid()
		if len(b) < 2 {
			return b, true
		}
		return b[:1+seed%(len(b)-1)], true
	default:
		return append(valid(), 0xf8, 0x7f, byte(1+seed%100)), true // unknown varint field 2047
	}
}

func c20mFileModel(kind, seed int) string {
	b, ok := c20mFileBytes(kind, seed)
	if !ok {
		return "m"
	}
	c := &pb.ClientConf{}
	if proto.Unmarshal(b, c) != nil {
		return "j"
	}
	if kind == 1 {
		return "d=" + c20mRender(c)
	}
	return "j=" + c20mRender(c)
}

func c20mReadFile(dir string) (string, *pb.ClientConf) {
	b, err := os.ReadFile(filepath.Join(dir, "ClientConf"))
	if err != nil {
		return "m", nil
	}
	c := &pb.ClientConf{}
	if proto.Unmarshal(b, c) != nil {
		return "x", nil
	}
	return "=" + c20mRender(c), c
}

func c20mGen(r *vlib.Rand) *c20mCase {
	cs := &c20mCase{D: r.Range(2, 3)}
	for i := 0; i < cs.D; i++ {
		cs.Files = append(cs.Files, [2]int{r.Intn(6), r.Intn(1000)})
	}
	n := r.Range(5, 16)
	nobj := 0 // objects allocated so far (upper bound on valid pointers is tracked by the executor; here: caller objects + loads)
	curDir := r.Intn(cs.D + 1)
	if r.Chance(5, 6) {
		curDir = r.Intn(cs.D)
	}
	cs.Evs = append(cs.Evs, c20mEv{K: "I", A: curDir})
	nobj = 2 // default + possibly a loaded object: pointers are taken modulo the real count at run time
	io := func() bool { return r.Chance(2, 3) }
	for i := 0; i < n; i++ {
		var e c20mEv
		switch k := r.Intn(24); {
		case k < 4:
			e = c20mEv{K: "a", A: r.Intn(1000)}
			nobj++
		case k < 10:
			e = c20mEv{K: "c", A: r.Intn(nobj+1) - 1, IO: io(), F: r.Intn(2)}
			if r.Chance(1, 10) {
				e.A = -1
			}
		case k == 10:
			e = c20mEv{K: "g", A: r.Intn(5000), IO: io(), F: r.Intn(2)}
		case k == 11:
			e = c20mEv{K: "k", A: r.Intn(50) - 5, IO: io(), F: r.Intn(2)}
		case k == 12:
			e = c20mEv{K: "y", A: r.Intn(12), B: r.Intn(4), IO: io(), F: r.Intn(2)}
		case k == 13:
			e = c20mEv{K: "s", A: r.Intn(50) - 5, IO: io(), F: r.Intn(2)}
		case k == 14 || k == 15:
			e = c20mEv{K: "m", A: r.Intn(nobj), B: r.Intn(5000)}
		case k == 16 || k == 17:
			e = c20mEv{K: "D", A: r.Intn(cs.D + 1)}
		case k == 18:
			e = c20mEv{K: "I", A: r.Intn(cs.D + 1)}
			nobj += 2
		case k == 19:
			e = c20mEv{K: "t", A: r.Intn(cs.D), B: r.Intn(6), F: r.Intn(1000)}
		default:
			e = c20mEv{K: []string{"rg", "ri", "rs", "rd", "rp", "rn"}[r.Intn(6)], A: r.Intn(12), B: r.Intn(3)}
		}
		cs.Evs = append(cs.Evs, e)
	}
	return cs
}

type c20mRun struct {
	out    *vlib.Out
	base   string
	dirs   []string // D existing directories + one that does not exist
	objs   []*pb.ClientConf
	ids    map[*pb.ClientConf]int
	replay string
}

func (x *c20mRun) id(c *pb.ClientConf) string {
	if c == nil {
		return "nil"
	}
	if i, ok := x.ids[c]; ok {
		return fmt.Sprint(i)
	}
	x.ids[c] = len(x.objs)
	x.objs = append(x.objs, c)
	return fmt.Sprint(len(x.objs) - 1)
}

func (x *c20mRun) snapshot() []string {
	var l []string
	for _, o := range x.objs {
		l = append(l, c20mRender(o))
	}
	return l
}

// withFault runs f while stores into dir cannot succeed
func (x *c20mRun) withFault(dir string, mech int, f func()) {
	if _, err := os.Stat(dir); err != nil {
		f() // the directory does not exist: stores fail by themselves
		return
	}
	if mech == 0 {
		off := dir + ".off"
		_ = os.Rename(dir, off)
		f()
		_ = os.Rename(off, dir)
		x.out.Count("mem:fault:directory-gone")
		return
	}
	tgt, saved := filepath.Join(dir, "ClientConf"), filepath.Join(dir, "ClientConf.saved")
	had := os.Rename(tgt, saved) == nil
	_ = os.MkdirAll(filepath.Join(tgt, "occupied"), 0o755)
	f()
	_ = os.RemoveAll(tgt)
	if had {
		_ = os.Rename(saved, tgt)
	}
	x.out.Count("mem:fault:rename-step-fails")
}

func c20mCall(f func() error) (res string, err error) {
	defer func() {
		if p := recover(); p != nil {
			res, err = "panic", nil
		}
	}()
	err = f()
	if err != nil {
		return "err", err
	}
	return "ok", nil
}

func (x *c20mRun) exec(cs *c20mCase) {
	out := x.out
	root, err := os.MkdirTemp(x.base, "h")
	if err != nil {
		return
	}
	defer os.RemoveAll(root)
	x.dirs, x.objs, x.ids = nil, nil, map[*pb.ClientConf]int{}
	var files []string
	for i := 0; i < cs.D; i++ {
		d := filepath.Join(root, fmt.Sprintf("d%d", i))
		_ = os.MkdirAll(d, 0o755)
		if b, ok := c20mFileBytes(cs.Files[i][0], cs.Files[i][1]); ok {
			_ = os.WriteFile(filepath.Join(d, "ClientConf"), b, 0o644)
		}
		files = append(files, c20mFileModel(cs.Files[i][0], cs.Files[i][1]))
		out.Count(fmt.Sprintf("mem:initial-file:%d", cs.Files[i][0]))
		x.dirs = append(x.dirs, d)
	}
	x.dirs = append(x.dirs, filepath.Join(root, "nonexistent"))
	dirID := func(p string) int {
		for i, d := range x.dirs {
			if d == p {
				return i
			}
		}
		return -1
	}
	dfltTok := "s" + c20mHash(c20mDet(ps.GetDefaultPhantomSubnets()))
	var evs, ans []string
	var a *assets
	nontrivial := false
	for _, e := range cs.Evs {
		res := "ok"
		var line string
		var callErr error
		isStore, isSetConf, isLoad := false, false, false
		var ptrBefore *pb.ClientConf
		var fileBefore string
		var objsBefore []string
		if a != nil {
			ptrBefore = a.config
			fileBefore, _ = c20mReadFile(a.path)
			objsBefore = x.snapshot()
		}
		if a != nil && e.IO {
			if _, serr := os.Stat(a.path); serr != nil {
				e.IO = false // the directory of a.path does not exist: no store can succeed
			}
		}
		store := func(f func() error) {
			isStore = true
			if e.IO {
				res, callErr = c20mCall(f)
			} else {
				x.withFault(a.path, e.F, func() { res, callErr = c20mCall(f) })
			}
		}
		switch e.K {
		case "I":
			d := e.A % len(x.dirs)
			isLoad = true
			reserved := len(x.objs)
			x.objs = append(x.objs, nil) // the built-in default object
			res, callErr = c20mCall(func() error { return initAssets(x.dirs[d]) })
			a = assetsInstance
			if callErr != nil {
				x.objs[reserved] = a.config
				x.ids[a.config] = reserved
			} else {
				x.objs[reserved] = proto.Clone(c20Default).(*pb.ClientConf)
				x.ids[x.objs[reserved]] = reserved
			}
			line = fmt.Sprintf("I:%d:%s", d, c20mRender(c20Default))
		case "a":
			c := c20mConf(e.A)
			x.id(c)
			line = "a:" + c20mRender(c)
		case "c":
			isSetConf = true
			var c *pb.ClientConf
			p := "nil"
			if e.A >= 0 {
				i := e.A % len(x.objs)
				c, p = x.objs[i], fmt.Sprint(i)
			}
			store(func() error { return a.SetClientConf(c) })
			line = fmt.Sprintf("c:%s:%s", p, vlib.B(e.IO))
		case "g":
			store(func() error { return a.SetGeneration(uint32(e.A)) })
			line = fmt.Sprintf("g:%d:%s", e.A, vlib.B(e.IO))
		case "k":
			var k *pb.PubKey
			t := "-"
			if e.A >= 0 {
				k = c20Key(e.A, 32)
				t = "k" + c20mHash(c20mDet(k))
			}
			store(func() error { return a.SetPubkey(k) })
			line = fmt.Sprintf("k:%s:%s", t, vlib.B(e.IO))
		case "y":
			ds := c20Decoys(e.A, e.B)
			var toks []string
			for _, d := range ds {
				toks = append(toks, c20mDecoyTok(d))
			}
			store(func() error { return a.SetDecoys(ds) })
			line = fmt.Sprintf("y:[%s]:%s", strings.Join(toks, "+"), vlib.B(e.IO))
		case "s":
			var s *pb.PhantomSubnetsList
			t := "-"
			if e.A >= 0 {
				s = c20SubnetsList(e.A)
				t = "s" + c20mHash(c20mDet(s))
			}
			store(func() error { return a.SetPhantomSubnets(s) })
			line = fmt.Sprintf("s:%s:%s", t, vlib.B(e.IO))
		case "m":
			i := e.A % len(x.objs)
			g := uint32(e.B)
			x.objs[i].Generation = &g
			line = fmt.Sprintf("m:%d:%d", i, e.B)
		case "D":
			d := e.A % len(x.dirs)
			isLoad = true
			_, serr := os.Stat(x.dirs[d])
			res, callErr = c20mCall(func() error { _, err := AssetsSetDir(x.dirs[d]); return err })
			a = assetsInstance
			line = fmt.Sprintf("D:%d:%s", d, vlib.B(serr == nil))
		case "t":
			d := e.A % cs.D
			tgt := filepath.Join(x.dirs[d], "ClientConf")
			if b, ok := c20mFileBytes(e.B, e.F); ok {
				_ = os.WriteFile(tgt, b, 0o644)
			} else {
				_ = os.Remove(tgt)
			}
			line = fmt.Sprintf("t:%d:%s", d, c20mFileModel(e.B, e.F))
		case "rg":
			var g uint32
			r2, _ := c20mCall(func() error { g = a.GetGeneration(); return nil })
			res = r2
			if r2 == "ok" {
				res = fmt.Sprintf("v:%d", g)
			}
			line = "rg"
		case "ri":
			probe := c20Decoys(e.A, 1+e.B)[e.B]
			var hit bool
			r2, _ := c20mCall(func() error { hit = a.IsDecoyInList(probe); return nil })
			res = r2
			if r2 == "ok" {
				res = "v:" + vlib.B(hit)
			}
			line = "ri:" + c20mDecoyTok(probe)
		case "rs":
			var l *pb.PhantomSubnetsList
			r2, _ := c20mCall(func() error { l = a.GetPhantomSubnets(); return nil })
			res = r2
			if r2 == "ok" {
				res = "v:s" + c20mHash(c20mDet(l))
			}
			line = "rs:" + dfltTok
		case "rd":
			res, _ = c20mCall(func() error { _ = a.GetDNSRegConf(); return nil })
			line = "rd"
		case "rp":
			res = "v:" + x.id(a.GetClientConfPtr())
			line = "rp"
		case "rn":
			res = fmt.Sprintf("v:%d", len(a.GetAllDecoys()))
			line = "rn"
		}
		out.Count("mem:op:" + e.K + ":" + strings.SplitN(res, ":", 2)[0])
		ptr := x.id(a.config)
		fileNow, parsed := c20mReadFile(a.path)
		evs = append(evs, line)
		ans = append(ans, fmt.Sprintf("%s~%s~%s~%s", res, ptr, c20mRender(a.config), fileNow))
		if isStore && res == "ok" {
			nontrivial = true
		}
		// ---- the property's own statements, from the harness's bookkeeping
		where := fmt.Sprintf("call %d (%s) of the history", len(evs), line)
		if isSetConf && res == "err" {
			out.Checked()
			now := x.snapshot()
			same := a.config == ptrBefore && fileNow == fileBefore && len(now) == len(objsBefore)
			for i := range objsBefore {
				same = same && now[i] == objsBefore[i]
			}
			if !same {
				out.OracleFail("C20:mem-failed-replacement-changed-state", "a failed SetClientConf did not leave the previous configuration in effect unchanged (pointer, objects or file differ): "+where, x.replay)
			}
		}
		if isStore && res == "ok" {
			out.Checked()
			inMem := a.config
			if inMem == nil {
				inMem = &pb.ClientConf{}
			}
			if parsed == nil || !proto.Equal(parsed, inMem) {
				out.OracleFail("C20:mem-file-differs-from-memory-after-store", "a store returned nil but the file does not parse to the configuration in memory: "+where, x.replay)
			}
		}
		if isStore && res == "err" {
			out.Checked()
			if fileNow != fileBefore {
				out.OracleFail("C20:mem-failed-store-changed-file", "a store returned an error but the ClientConf file changed: "+where, x.replay)
			}
		}
		if isLoad && res == "err" && e.K == "D" && ptrBefore != nil {
			out.Checked()
			if a.config != ptrBefore {
				out.OracleFail("C20:mem-failed-load-replaced-config", "AssetsSetDir returned an error but replaced the configuration in memory: "+where, x.replay)
			}
		}
		_ = callErr
		_ = dirID
	}
	var heap, disks []string
	for _, o := range x.objs {
		heap = append(heap, c20mRender(o))
	}
	for i := 0; i < cs.D; i++ {
		f, _ := c20mReadFile(x.dirs[i])
		disks = append(disks, f)
	}
	out.Case(fmt.Sprintf("mem|%d|%s|%s", cs.D, strings.Join(files, "/"), strings.Join(evs, ";")),
		fmt.Sprintf("%s|%s|%s", strings.Join(ans, ";"), strings.Join(heap, "/"), strings.Join(disks, "/")), nontrivial)
}

func TestVerifC20Mem(t *testing.T) {
	out := vlib.Open("C20M")
	defer out.Close()
	log.SetOutput(io.Discard)
	base, err := os.MkdirTemp("", "cjv-c20m-")
	if err != nil {
		t.Fatal(err)
	}
	defer os.RemoveAll(base)
	assetsOnce.Do(func() {}) // as after the first Assets() / AssetsSetDir() of a client
	empty := filepath.Join(base, "empty")
	_ = os.MkdirAll(empty, 0o755)
	_ = initAssets(empty)
	c20Default = proto.Clone(assetsInstance.config).(*pb.ClientConf)
	x := &c20mRun{out: out, base: base}
	runCase := func(cs *c20mCase) {
		b, _ := json.Marshal(cs)
		x.replay = "c20mem " + string(b)
		x.exec(cs)
	}
	if rp := vlib.Replay(); rp != "" {
		b, _ := os.ReadFile(rp)
		for _, line := range strings.Split(string(b), "\n") {
			if i := strings.Index(line, "c20mem "); i >= 0 {
				var cs c20mCase
				if json.Unmarshal([]byte(line[i+len("c20mem "):]), &cs) == nil {
					runCase(&cs)
					fmt.Println("REPLAY history:", line[i:])
				}
			}
		}
		return
	}
	io1 := func(k string, a int, io bool, f int) c20mEv { return c20mEv{K: k, A: a, IO: io, F: f} }
	corpus := []*c20mCase{
		// replacements that fail early and late, then one that succeeds; the caller keeps mutating what it passed
		{D: 2, Files: [][2]int{{1, 4}, {0, 0}}, Evs: []c20mEv{{K: "I", A: 0}, {K: "a", A: 2}, {K: "a", A: 11}, io1("c", 2, false, 0), {K: "rp"}, io1("c", 3, false, 1), {K: "rg"},
			io1("c", 2, true, 0), {K: "m", A: 2, B: 77}, {K: "rg"}, io1("c", 3, true, 0), {K: "m", A: 2, B: 78}}},
		// nil configuration: stored as the empty file; in-place setters on nil
		{D: 2, Files: [][2]int{{0, 0}, {3, 0}}, Evs: []c20mEv{{K: "I", A: 0}, io1("c", -1, true, 0), io1("g", 5, true, 0), io1("k", 3, true, 0), io1("y", 3, true, 0), {K: "rd"}, {K: "rs"}, io1("s", 4, false, 1), io1("s", 4, true, 0), {K: "rd"}}},
		// a configuration that does not marshal (seed 3), in place setters that fail and keep their change
		{D: 2, Files: [][2]int{{1, 9}, {2, 1}}, Evs: []c20mEv{{K: "I", A: 0}, {K: "a", A: 3}, io1("c", 2, true, 0), io1("g", 9, false, 0), {K: "rg"}, io1("k", -1, false, 1), io1("g", 10, true, 0)}},
		// the load path: every kind of file, directory switches, a directory that does not exist
		{D: 3, Files: [][2]int{{2, 1}, {4, 17}, {5, 8}}, Evs: []c20mEv{{K: "I", A: 0}, {K: "D", A: 1}, {K: "D", A: 1}, {K: "D", A: 3}, {K: "D", A: 2}, {K: "t", A: 0, B: 3}, {K: "D", A: 0}, {K: "t", A: 0, B: 0}, {K: "I", A: 0}, {K: "I", A: 3}, io1("g", 1, false, 0), {K: "D", A: 2}, io1("g", 2, true, 0)}},
		// somebody else replaces the file between stores
		{D: 2, Files: [][2]int{{1, 2}, {1, 6}}, Evs: []c20mEv{{K: "I", A: 1}, {K: "t", A: 1, B: 2, F: 5}, io1("g", 3, false, 1), {K: "t", A: 1, B: 1, F: 12}, {K: "a", A: 14}, io1("c", 2, false, 0), io1("c", 2, true, 0)}},
	}
	for _, cs := range corpus {
		runCase(cs)
	}
	n := vlib.Budget(1500, 10000)
	for i := 0; i < n; i++ {
		runCase(c20mGen(vlib.NewRand(fmt.Sprintf("C20M-%d", i))))
	}
}
