//go:build verif

package assets

// Correspondence + property oracle for C20: the client's stored ClientConf is replaced atomically.
//
// The real store (`SetClientConf`, `SetGeneration`, `SetPubkey`, `SetDecoys`, `SetPhantomSubnets` →
// `saveClientConf`) runs in a helper process (this test binary re-executed):
//
//   * under `strace`: the system calls on the target and the temporary file, and their results, are
//     the case for the Lean model (`store|…`): the model, given the same results, must issue the same
//     calls in the same order and end with the same outcome, file class and in-memory configuration.
//     Failures are injected for real: unwritable directory (privileges dropped), vanished directory,
//     RLIMIT_FSIZE, a full tmpfs, a rename failing (strace tampering), a configuration that does not marshal;
//   * killed with SIGKILL at a PRNG-chosen instant while it stores small and multi-megabyte
//     configurations in a loop; afterwards the file is read with the real reader (`readConfigs`) and
//     compared with the configuration before / being stored at the moment of the kill;
//   * killed while under strace: the finished calls are the crash prefix for the model (`crash|…`);
//   * after a kill (or a run of failing stores) the directory is used again by a fresh process, leftovers of
//     the interrupted stores included: the next stores must again leave exactly old or new;
//   * a close(2) that fails is injected with a seccomp filter the helper installs on itself.
//
// The run ends with a floor on what was actually exercised (kills that landed inside a store, partial
// temporary files, every fault class): a run that tested almost nothing does not report success.
//
// Oracle (independent of the model): the file parses and is equal to the old or the new configuration;
// a store that reported success left exactly the new one, a failed one exactly the old one; after a
// failed SetClientConf the configuration in memory is the old one.

import (
	"bufio"
	"bytes"
	"crypto/sha256"
	"encoding/binary"
	"encoding/hex"
	"encoding/json"
	"fmt"
	"io"
	"os"
	"os/exec"
	"path/filepath"
	"regexp"
	"runtime"
	"sort"
	"strconv"
	"strings"
	"sync"
	"syscall"
	"testing"
	"time"
	"unsafe"

	"github.com/refraction-networking/conjure/internal/vlib"
	"github.com/refraction-networking/conjure/pkg/station/log"
	pb "github.com/refraction-networking/conjure/proto"
	"google.golang.org/protobuf/proto"
)

// ---------------------------------------------------------------------------------------------
// configurations: a deterministic family indexed by k (both processes compute the same values)

const (
	c20Tiny = iota
	c20Small
	c20Medium
	c20FlatLarge // multi-megabyte, run-length compressible (a long constant key)
	c20Large     // multi-megabyte decoy list
	c20Bad       // does not marshal: DnsRegConf without its required fields
	c20Subnets
	c20nClasses
)

func c20Class(k int) int { return k % c20nClasses }

var c20ConfCache sync.Map

func c20Decoys(id, n int) []*pb.TLSDecoySpec {
	l := make([]*pb.TLSDecoySpec, 0, n)
	for i := 0; i < n; i++ {
		host := fmt.Sprintf("d%d-%d.example%d.org", id, i, (id*7+i)%97)
		ip := uint32(0x0a000000 + (id*131+i)%0xffffff)
		l = append(l, &pb.TLSDecoySpec{Hostname: &host, Ipv4Addr: &ip})
	}
	return l
}

func c20Key(id int, n int) *pb.PubKey {
	kt := pb.KeyType_AES_GCM_128
	key := make([]byte, n)
	if n <= 64 {
		for i := range key {
			key[i] = byte(id>>(uint(i%4)*8)) ^ byte(i*7+1)
		}
	} else {
		for i := range key {
			key[i] = 0xAB
		}
		key[0], key[n-1] = byte(id), byte(id>>8)
	}
	return &pb.PubKey{Key: key, Type: &kt}
}

func c20SubnetsList(id int) *pb.PhantomSubnetsList {
	w := uint32(1 + id%9)
	rnd := id%2 == 0
	return &pb.PhantomSubnetsList{WeightedSubnets: []*pb.PhantomSubnets{
		{Weight: &w, Subnets: []string{fmt.Sprintf("10.%d.%d.0/24", (id>>8)%256, id%256), "2001:db8::/64"}, RandomizeDstPort: &rnd},
	}}
}

func c20DNS(ok bool, id int) *pb.DnsRegConf {
	if !ok {
		return &pb.DnsRegConf{} // required fields missing: proto.Marshal fails
	}
	m := pb.DnsRegMethod_DOH
	dom := fmt.Sprintf("r%d.refraction.network", id)
	return &pb.DnsRegConf{DnsRegMethod: &m, Domain: &dom}
}

// c20Conf builds configuration number k; generation 1000+k makes every member distinct.
func c20Conf(k int) *pb.ClientConf {
	if v, ok := c20ConfCache.Load(k); ok {
		return proto.Clone(v.(*pb.ClientConf)).(*pb.ClientConf)
	}
	gen := uint32(1000 + k)
	c := &pb.ClientConf{Generation: &gen, DefaultPubkey: c20Key(k, 32), ConjurePubkey: c20Key(k+1, 32), DnsRegConf: c20DNS(true, k)}
	switch c20Class(k) {
	case c20Tiny:
		c.DnsRegConf = nil
		c.ConjurePubkey = nil
	case c20Small:
		c.DecoyList = &pb.DecoyList{TlsDecoys: c20Decoys(k, 3)}
	case c20Medium:
		c.DecoyList = &pb.DecoyList{TlsDecoys: c20Decoys(k, 300)}
	case c20FlatLarge:
		c.DefaultPubkey = c20Key(k, 2_300_000+(k%5)*100_000)
	case c20Large:
		c.DecoyList = &pb.DecoyList{TlsDecoys: c20Decoys(k, 80_000+(k%3)*10_000)}
	case c20Bad:
		c.DnsRegConf = c20DNS(false, k)
	case c20Subnets:
		c.DecoyList = &pb.DecoyList{TlsDecoys: c20Decoys(k, 2)}
		c.PhantomSubnetsList = c20SubnetsList(k)
	}
	c20ConfCache.Store(k, c)
	return proto.Clone(c).(*pb.ClientConf)
}

// an operation on the assets singleton
type c20Op struct {
	Kind string   // conf | confnil | gen | pubkey | decoys | subnets
	K    int      // parameter (configuration number / value id)
	Pre  []string // actions before the call: rodir rwdir rmdir mkdir fsize:<n> closefail
}

// symbolic configuration: a base configuration plus the in-place modifications since
type c20Sym struct {
	Base               int // -1: the built-in default (no file was read); -2: the empty configuration (SetClientConf(nil))
	Gen, Pub, Dec, Sub int // -1: not modified
}

var c20Default *pb.ClientConf

func (s c20Sym) materialise() *pb.ClientConf {
	var c *pb.ClientConf
	switch {
	case s.Base == -2:
		c = &pb.ClientConf{}
	case s.Base < 0:
		c = proto.Clone(c20Default).(*pb.ClientConf)
	default:
		c = c20Conf(s.Base)
	}
	if s.Gen >= 0 {
		g := uint32(s.Gen)
		c.Generation = &g
	}
	if s.Pub >= 0 {
		c.DefaultPubkey = c20Key(s.Pub, 32)
	}
	if s.Dec >= 0 {
		if c.DecoyList == nil {
			c.DecoyList = &pb.DecoyList{}
		}
		c.DecoyList.TlsDecoys = c20Decoys(s.Dec, 1+s.Dec%4)
	}
	if s.Sub >= 0 {
		c.PhantomSubnetsList = c20SubnetsList(s.Sub)
	}
	return c
}

func (s c20Sym) apply(op c20Op) c20Sym {
	switch op.Kind {
	case "conf":
		return c20Sym{Base: op.K, Gen: -1, Pub: -1, Dec: -1, Sub: -1}
	case "confnil":
		return c20Sym{Base: -2, Gen: -1, Pub: -1, Dec: -1, Sub: -1}
	case "gen":
		s.Gen = op.K
	case "pubkey":
		s.Pub = op.K
	case "decoys":
		s.Dec = op.K
	case "subnets":
		s.Sub = op.K
	}
	return s
}

func c20Digest(c *pb.ClientConf) string {
	if c == nil {
		c = &pb.ClientConf{} // SetClientConf(nil): the stored file is the empty configuration
	}
	b, err := proto.MarshalOptions{AllowPartial: true, Deterministic: true}.Marshal(c)
	if err != nil {
		return "unmarshalable"
	}
	h := sha256.Sum256(b)
	return hex.EncodeToString(h[:8])
}

// ---------------------------------------------------------------------------------------------
// helper process

type c20Job struct {
	Dir     string
	Snap    string // directory for snapshots of the target after each operation ("" = none)
	DropUID int    // > 0: setgid/setuid to this id before anything else
	Loop    bool   // repeat Ops forever (kill runs), markers only
	Ops     []c20Op
}

func c20Mark(s string) { _, _ = syscall.Write(1, []byte("C20MARK "+s+"\n")) }

func c20SetFsize(n int64) {
	var rl syscall.Rlimit
	if syscall.Getrlimit(syscall.RLIMIT_FSIZE, &rl) != nil {
		return
	}
	if n < 0 || uint64(n) > rl.Max {
		rl.Cur = rl.Max
	} else {
		rl.Cur = uint64(n)
	}
	_ = syscall.Setrlimit(syscall.RLIMIT_FSIZE, &rl)
}

func c20ListTmp(dir string) map[string]int64 {
	m := map[string]int64{}
	ents, err := os.ReadDir(dir)
	if err != nil {
		return m
	}
	for _, e := range ents {
		n := e.Name()
		if strings.HasPrefix(n, ".ClientConf.") && strings.HasSuffix(n, ".tmp") {
			if fi, err := e.Info(); err == nil {
				m[n] = fi.Size()
			}
		}
	}
	return m
}

func TestVerifC20Helper(t *testing.T) {
	jobPath := os.Getenv("C20_JOB")
	if jobPath == "" {
		t.Skip("helper process of TestVerifC20 only")
	}
	raw, err := os.ReadFile(jobPath)
	if err != nil {
		c20Mark("FATAL job " + err.Error())
		os.Exit(3)
	}
	var job c20Job
	if err := json.Unmarshal(raw, &job); err != nil {
		c20Mark("FATAL job " + err.Error())
		os.Exit(3)
	}
	log.SetOutput(io.Discard)
	if job.DropUID > 0 {
		_ = syscall.Setgroups([]int{job.DropUID})
		if err := syscall.Setgid(job.DropUID); err != nil {
			c20Mark("FATAL dropuid")
			os.Exit(4)
		}
		if err := syscall.Setuid(job.DropUID); err != nil {
			c20Mark("FATAL dropuid")
			os.Exit(4)
		}
	}
	// prebuild every argument so that only the store itself runs between the markers
	type arg struct {
		conf *pb.ClientConf
		key  *pb.PubKey
		dec  []*pb.TLSDecoySpec
		sub  *pb.PhantomSubnetsList
	}
	args := make([]arg, len(job.Ops))
	for i, op := range job.Ops {
		switch op.Kind {
		case "conf":
			args[i].conf = c20Conf(op.K)
		case "pubkey":
			args[i].key = c20Key(op.K, 32)
		case "decoys":
			args[i].dec = c20Decoys(op.K, 1+op.K%4)
		case "subnets":
			args[i].sub = c20SubnetsList(op.K)
		}
	}
	_, _ = AssetsSetDir(job.Dir)
	a := Assets()
	seen := c20ListTmp(job.Dir)
	t0 := time.Now()
	c20Mark(fmt.Sprintf("READY %d", os.Getpid()))
	for i := 0; ; i++ {
		if i >= len(job.Ops) && !job.Loop {
			break
		}
		j := i % len(job.Ops)
		op := job.Ops[j]
		for _, p := range op.Pre {
			switch {
			case p == "rodir":
				_ = os.Chmod(job.Dir, 0o555)
			case p == "rwdir":
				_ = os.Chmod(job.Dir, 0o755)
			case p == "rmdir":
				_ = os.RemoveAll(job.Dir)
			case p == "mkdir":
				_ = os.MkdirAll(job.Dir, 0o755)
			case strings.HasPrefix(p, "fsize:"):
				n, _ := strconv.ParseInt(p[6:], 10, 64)
				c20SetFsize(n)
			case p == "closefail":
				// the next descriptor the process opens is the temporary file's: its close(2) will fail
				if err := c20FailCloseOfNextFd(); err != nil {
					c20Mark("FATAL seccomp " + strings.ReplaceAll(err.Error(), " ", "_"))
					os.Exit(5)
				}
			}
		}
		var conf *pb.ClientConf
		if op.Kind == "conf" {
			// a fresh object per call: the singleton keeps the pointer
			conf = proto.Clone(args[j].conf).(*pb.ClientConf)
		}
		c20Mark(fmt.Sprintf("B %d %d", i, time.Since(t0).Microseconds()))
		var err error
		switch op.Kind {
		case "conf":
			err = a.SetClientConf(conf)
		case "confnil":
			err = a.SetClientConf(nil)
		case "gen":
			err = a.SetGeneration(uint32(op.K))
		case "pubkey":
			err = a.SetPubkey(args[j].key)
		case "decoys":
			err = a.SetDecoys(args[j].dec)
		case "subnets":
			err = a.SetPhantomSubnets(args[j].sub)
		}
		ec := "-"
		if err != nil {
			ec = strings.ReplaceAll(c20ErrClass(err), " ", "_")
		}
		c20Mark(fmt.Sprintf("E %d %s %s %d", i, vlib.B(err != nil), ec, time.Since(t0).Microseconds()))
		if job.Loop {
			continue
		}
		c20SetFsize(-1)
		tmp := "absent"
		now := c20ListTmp(job.Dir)
		nnew := 0
		for n, sz := range now {
			if _, ok := seen[n]; !ok {
				tmp = fmt.Sprint(sz)
				nnew++
			}
			seen[n] = sz
		}
		if nnew > 1 {
			tmp = "multi"
		}
		tgt := "absent"
		if b, rerr := os.ReadFile(filepath.Join(job.Dir, "ClientConf")); rerr == nil {
			tgt = "present"
			if job.Snap != "" {
				_ = os.WriteFile(filepath.Join(job.Snap, fmt.Sprint(i)), b, 0o644)
			}
		}
		errText := "-"
		if err != nil {
			errText = strings.ReplaceAll(c20ErrClass(err), " ", "_")
		}
		c20Mark(fmt.Sprintf("R %d tgt=%s tmp=%s mem=%s errclass=%s", i, tgt, tmp, c20Digest(a.GetClientConfPtr()), errText))
	}
	c20Mark("DONE")
}

// c20FailCloseOfNextFd makes close(2) of the lowest free descriptor fail with EIO, by a seccomp filter on
// the whole process: `close(fd) -> EIO` for exactly that descriptor number.  The refused close leaves the
// descriptor open, so the number is never handed out again: exactly one store is hit.
func c20FailCloseOfNextFd() error {
	nr, ok := map[string]uintptr{"amd64": 317, "arm64": 277, "386": 354, "arm": 383, "riscv64": 277, "ppc64le": 358, "s390x": 348}[runtime.GOARCH]
	if !ok {
		return fmt.Errorf("no seccomp syscall number for %s", runtime.GOARCH)
	}
	f, err := os.Open("/dev/null")
	if err != nil {
		return err
	}
	fd := uint32(f.Fd())
	f.Close()
	type sockFilter struct {
		code   uint16
		jt, jf uint8
		k      uint32
	}
	type sockFprog struct {
		n      uint16
		filter *sockFilter
	}
	argOff := uint32(16) // seccomp_data.args[0], low word
	if binary.NativeEndian.Uint16([]byte{1, 0}) != 1 {
		argOff = 20
	}
	prog := []sockFilter{
		{0x20, 0, 0, 0},                                // ld  nr
		{0x15, 0, 3, uint32(syscall.SYS_CLOSE)},        // jeq close ? next : allow
		{0x20, 0, 0, argOff},                           // ld  args[0]
		{0x15, 0, 1, fd},                               // jeq fd ? errno : allow
		{0x06, 0, 0, 0x00050000 | uint32(syscall.EIO)}, // ret ERRNO|EIO
		{0x06, 0, 0, 0x7fff0000},                       // ret ALLOW
	}
	fp := sockFprog{n: uint16(len(prog)), filter: &prog[0]}
	if _, _, e := syscall.RawSyscall6(syscall.SYS_PRCTL, 38 /* PR_SET_NO_NEW_PRIVS */, 1, 0, 0, 0, 0); e != 0 {
		return e
	}
	// SECCOMP_SET_MODE_FILTER with SECCOMP_FILTER_FLAG_TSYNC: every thread of the process, present and future
	if _, _, e := syscall.RawSyscall(nr, 1, 1, uintptr(unsafe.Pointer(&fp))); e != 0 {
		return e
	}
	runtime.KeepAlive(prog)
	return nil
}

func c20ErrClass(err error) string {
	s := err.Error()
	for _, k := range []string{"permission denied", "no such file", "file too large", "no space left", "quota exceeded", "input/output error", "required field", "read-only"} {
		if strings.Contains(strings.ToLower(s), k) {
			return k
		}
	}
	return "other"
}

// ---------------------------------------------------------------------------------------------
// strace parsing

type c20Sys struct {
	name       string
	args       string
	ret        int64
	tail       string // what strace printed behind the return value: errno name and text
	unfinished bool
}

var (
	c20reFull   = regexp.MustCompile(`^(\d+)\s+(\w+)\((.*)\)\s+=\s+(-?\d+|\?)(.*)$`)
	c20reUnfin  = regexp.MustCompile(`^(\d+)\s+(\w+)\((.*) <unfinished \.\.\.>$`)
	c20reResume = regexp.MustCompile(`^(\d+)\s+<\.\.\. (\w+) resumed>(.*)\)\s+=\s+(-?\d+|\?)(.*)$`)
	c20reQuoted = regexp.MustCompile(`"((?:[^"\\]|\\.)*)"`)
)

func c20ParseStrace(path string) ([]c20Sys, error) {
	f, err := os.Open(path)
	if err != nil {
		return nil, err
	}
	defer f.Close()
	var out []c20Sys
	pending := map[string]*c20Sys{} // by pid
	var order []string
	sc := bufio.NewScanner(f)
	sc.Buffer(make([]byte, 1<<20), 1<<22)
	for sc.Scan() {
		line := sc.Text()
		if m := c20reResume.FindStringSubmatch(line); m != nil {
			if p, ok := pending[m[1]]; ok && p.name == m[2] {
				p.args += m[3]
				p.tail = strings.TrimSpace(m[5])
				p.ret, _ = strconv.ParseInt(m[4], 10, 64)
				if m[4] == "?" {
					p.unfinished = true
				} else {
					p.unfinished = false
				}
				out = append(out, *p)
				delete(pending, m[1])
			}
			continue
		}
		if m := c20reUnfin.FindStringSubmatch(line); m != nil {
			pending[m[1]] = &c20Sys{name: m[2], args: m[3], unfinished: true}
			order = append(order, m[1])
			continue
		}
		if m := c20reFull.FindStringSubmatch(line); m != nil {
			s := c20Sys{name: m[2], args: m[3], tail: strings.TrimSpace(m[5])}
			if m[4] == "?" {
				s.unfinished = true
			} else {
				s.ret, _ = strconv.ParseInt(m[4], 10, 64)
			}
			out = append(out, s)
		}
	}
	for _, pid := range order {
		if p, ok := pending[pid]; ok {
			out = append(out, *p)
			delete(pending, pid)
		}
	}
	return out, sc.Err()
}

func c20Unquote(s string) string {
	// strace's C-style escapes; paths here are plain ASCII, markers contain \n only
	s = strings.ReplaceAll(s, `\n`, "\n")
	return s
}

// every system call through which the content of a file or the entries of the directory can change; the ones the
// store is expected to use are modelled (openat, write, close, rename), any other one that touches the target, a
// temporary file or the directory shows up as a `?` entry, which the model never produces
var c20Traced = []string{"openat", "write", "close", "rename", "renameat", "renameat2", "unlink", "unlinkat",
	"open", "creat", "openat2", "pwrite64", "writev", "pwritev", "pwritev2", "truncate", "ftruncate", "fallocate",
	"link", "linkat", "symlink", "symlinkat", "copy_file_range", "sendfile", "splice", "fsync", "fdatasync", "sync_file_range",
	"mkdir", "mkdirat", "rmdir", "mknod", "mknodat", "dup", "dup2", "dup3", "fcntl"}

var c20TraceSetOnce struct {
	sync.Once
	set string
}

// c20TraceSet: the subset of c20Traced that this strace / architecture knows (an unknown name makes strace refuse to start)
func c20TraceSet() string {
	c20TraceSetOnce.Do(func() {
		var ok []string
		for _, n := range c20Traced {
			if exec.Command("strace", "-qq", "-o", "/dev/null", "-e", "trace="+n, "true").Run() == nil {
				ok = append(ok, n)
			}
		}
		c20TraceSetOnce.set = strings.Join(ok, ",")
	})
	return c20TraceSetOnce.set
}

// one operation as seen by strace: calls on the target / temporary paths between the B and E markers
type c20Seg struct {
	calls      []string // canonical calls: open, write:<n>, close, rename (unexpected ones carry a '?')
	results    []string // ok, fail, w<k>
	tails      []string // per call: the errno strace printed ("" on success)
	unfinished string   // name of a call on our paths that never returned ("" = none)
	ended      bool     // the E marker was seen
}

func c20Segments(sys []c20Sys, dir string) map[int]*c20Seg {
	segs := map[int]*c20Seg{}
	var cur *c20Seg
	fds := map[int64]bool{} // descriptors of temporary files opened the modelled way
	odd := map[int64]bool{} // descriptors of the target / a temporary file opened any other way
	target := filepath.Join(dir, "ClientConf")
	isTmp := func(p string) bool {
		b := filepath.Base(p)
		return filepath.Dir(p) == filepath.Clean(dir) && strings.HasPrefix(b, ".ClientConf.") && strings.HasSuffix(b, ".tmp")
	}
	under := func(p string) bool { return p == filepath.Clean(dir) || strings.HasPrefix(p, filepath.Clean(dir)+"/") }
	add := func(call, res string, s c20Sys) {
		if cur == nil {
			return
		}
		if s.unfinished {
			cur.unfinished = call
			return
		}
		cur.calls = append(cur.calls, call)
		cur.results = append(cur.results, res)
		cur.tails = append(cur.tails, s.tail)
	}
	okfail := func(s c20Sys) string {
		if s.ret < 0 {
			return "fail"
		}
		return "ok"
	}
	for _, s := range sys {
		q := c20reQuoted.FindAllStringSubmatch(s.args, -1)
		switch s.name {
		case "write":
			parts := strings.SplitN(s.args, ",", 2)
			fd, _ := strconv.ParseInt(strings.TrimSpace(parts[0]), 10, 64)
			if fd == 1 && len(q) > 0 && strings.HasPrefix(q[0][1], "C20MARK ") {
				f := strings.Fields(c20Unquote(q[0][1]))
				if len(f) >= 3 && f[1] == "B" {
					i, _ := strconv.Atoi(f[2])
					cur = &c20Seg{}
					segs[i] = cur
				} else if len(f) >= 3 && f[1] == "E" {
					if cur != nil {
						cur.ended = true
					}
					cur = nil
				}
				continue
			}
			if fds[fd] {
				li := strings.LastIndex(s.args, ",")
				n := strings.TrimSpace(s.args[li+1:])
				res := "fail"
				if s.ret >= 0 {
					res = fmt.Sprintf("w%d", s.ret)
				}
				add("write:"+n, res, s)
			} else if odd[fd] {
				add("write?", okfail(s), s)
			}
		case "openat", "open", "creat", "openat2":
			if len(q) == 0 || !under(q[0][1]) {
				continue
			}
			p := q[0][1]
			if s.name == "openat" && isTmp(p) && strings.Contains(s.args, "O_CREAT") && strings.Contains(s.args, "O_TRUNC") && strings.Contains(s.args, "O_WRONLY") {
				add("open", okfail(s), s)
				if s.ret >= 0 && !s.unfinished {
					fds[s.ret] = true
				}
			} else if cur != nil {
				add(s.name+"?"+filepath.Base(p), okfail(s), s)
				// a descriptor on the target or on a temporary file opened any other way: what is done through it is of interest
				if s.ret >= 0 && !s.unfinished && (isTmp(p) || p == target) && !strings.Contains(s.args, "O_RDONLY") {
					odd[s.ret] = true
				}
			}
		case "close":
			fd, _ := strconv.ParseInt(strings.TrimSpace(s.args), 10, 64)
			if fds[fd] {
				add("close", okfail(s), s)
				delete(fds, fd)
			}
			delete(odd, fd)
		case "rename", "renameat", "renameat2":
			if len(q) < 2 || (!under(q[0][1]) && !under(q[1][1])) {
				continue
			}
			if isTmp(q[0][1]) && q[1][1] == target {
				add("rename", okfail(s), s)
			} else {
				add("rename?"+filepath.Base(q[0][1])+">"+filepath.Base(q[1][1]), okfail(s), s)
			}
		case "pwrite64", "writev", "pwritev", "pwritev2", "ftruncate", "fallocate", "fsync", "fdatasync", "sync_file_range",
			"dup", "dup2", "dup3", "fcntl":
			// through a descriptor of a temporary file (or an oddly opened one): not a call of the modelled store
			fd, _ := strconv.ParseInt(strings.TrimSpace(strings.SplitN(s.args, ",", 2)[0]), 10, 64)
			if fds[fd] || odd[fd] {
				if s.name == "fcntl" && !strings.Contains(s.args, "F_DUPFD") {
					continue // flags / locks: no content change
				}
				add(s.name+"?", okfail(s), s)
			}
		case "copy_file_range", "sendfile", "splice":
			// the output descriptor is the first (sendfile) or the third (copy_file_range, splice) argument
			f := strings.Split(s.args, ",")
			idx := 2
			if s.name == "sendfile" {
				idx = 0
			}
			if len(f) > idx {
				fd, _ := strconv.ParseInt(strings.TrimSpace(f[idx]), 10, 64)
				if fds[fd] || odd[fd] {
					add(s.name+"?", okfail(s), s)
				}
			}
		default:
			// path-based: unlink, truncate, link, symlink, mkdir, rmdir, mknod … on anything under the directory
			hit := ""
			for _, m := range q {
				if under(m[1]) && m[1] != filepath.Clean(dir) {
					hit = filepath.Base(m[1])
					break
				}
			}
			if hit != "" && cur != nil {
				add(s.name+"?"+hit, okfail(s), s)
			}
		}
	}
	return segs
}

// ---------------------------------------------------------------------------------------------
// run-length coding of contents for the model lines

func c20Rle(b []byte) string {
	if len(b) == 0 {
		return "-"
	}
	var sb strings.Builder
	lit := 0 // start of the pending literal
	flush := func(end int) {
		if end > lit {
			if sb.Len() > 0 {
				sb.WriteByte('+')
			}
			sb.WriteString(hex.EncodeToString(b[lit:end]))
		}
	}
	i := 0
	for i < len(b) {
		j := i
		for j < len(b) && b[j] == b[i] {
			j++
		}
		if j-i >= 24 {
			flush(i)
			if sb.Len() > 0 {
				sb.WriteByte('+')
			}
			fmt.Fprintf(&sb, "%02x*%d", b[i], j-i)
			lit = j
		}
		i = j
	}
	flush(len(b))
	return sb.String()
}

func c20Content(b []byte, present bool) string {
	if !present {
		return "absent"
	}
	return c20Rle(b)
}

func c20MarshalField(c *pb.ClientConf) (string, []byte, bool) {
	b, err := proto.Marshal(c)
	if err != nil {
		return "fail", nil, false
	}
	return c20Rle(b), b, true
}

// ---------------------------------------------------------------------------------------------
// parent side

type c20Env struct {
	t         *testing.T
	out       *vlib.Out
	base      string
	bin       string
	strace    string
	canInject bool
	nobody    int // uid to drop to for the unwritable-directory runs (0: not needed, -1: unavailable)
	mu        sync.Mutex
	seq       int
	cnt       map[string]int // what this run has actually exercised (for the floor at the end)
	largeDur  []int64        // observed durations (microseconds) of complete multi-megabyte stores on this machine, now
}

func (e *c20Env) learn(ops []c20Op, marks *c20Marks) {
	e.mu.Lock()
	defer e.mu.Unlock()
	for i, te := range marks.tE {
		if tb, ok := marks.tB[i]; ok && !marks.errs[i] && c20IsLarge(ops[i%len(ops)]) && te > tb {
			e.largeDur = append(e.largeDur, te-tb)
		}
	}
}

// largeStoreMicros: the median duration of a multi-megabyte store as observed so far (0: none observed)
func (e *c20Env) largeStoreMicros() int {
	e.mu.Lock()
	defer e.mu.Unlock()
	if len(e.largeDur) < 3 {
		return 0
	}
	d := append([]int64(nil), e.largeDur...)
	sort.Slice(d, func(i, j int) bool { return d[i] < d[j] })
	return int(d[len(d)/2])
}

func (e *c20Env) count(key string) {
	e.out.Count(key)
	e.mu.Lock()
	if e.cnt == nil {
		e.cnt = map[string]int{}
	}
	e.cnt[key]++
	e.mu.Unlock()
}

func (e *c20Env) seen(key string) int {
	e.mu.Lock()
	defer e.mu.Unlock()
	return e.cnt[key]
}

func (e *c20Env) newDirs(uid int) (root, dir, snap string) {
	e.mu.Lock()
	e.seq++
	n := e.seq
	e.mu.Unlock()
	root = filepath.Join(e.base, fmt.Sprintf("r%d", n))
	dir = filepath.Join(root, "assets")
	snap = filepath.Join(root, "snap")
	for _, d := range []string{root, dir, snap} {
		_ = os.MkdirAll(d, 0o755)
		_ = os.Chmod(d, 0o755)
		if uid > 0 {
			_ = os.Chown(d, uid, uid)
		}
	}
	return
}

type c20Marks struct {
	ready   bool
	pid     int
	began   map[int]bool
	ended   map[int]bool
	errs    map[int]bool
	errCls  map[int]string
	tB, tE  map[int]int64 // microseconds since the helper was ready
	reports map[int]map[string]string
	lastB   int
	lastE   int
	done    bool
	fatal   string
}

func c20ParseMarks(stdout []byte) *c20Marks {
	m := &c20Marks{began: map[int]bool{}, ended: map[int]bool{}, errs: map[int]bool{}, errCls: map[int]string{}, tB: map[int]int64{}, tE: map[int]int64{}, reports: map[int]map[string]string{}, lastB: -1, lastE: -1}
	for _, line := range strings.Split(string(stdout), "\n") {
		if !strings.HasPrefix(line, "C20MARK ") {
			continue
		}
		f := strings.Fields(line)
		if len(f) < 2 {
			continue
		}
		switch f[1] {
		case "READY":
			m.ready = true
			if len(f) > 2 {
				m.pid, _ = strconv.Atoi(f[2])
			}
		case "B":
			if len(f) > 2 {
				i, _ := strconv.Atoi(f[2])
				m.began[i] = true
				m.lastB = i
				if len(f) > 3 {
					m.tB[i], _ = strconv.ParseInt(f[3], 10, 64)
				}
			}
		case "E":
			if len(f) > 3 {
				i, _ := strconv.Atoi(f[2])
				m.ended[i] = true
				m.errs[i] = f[3] == "1"
				if len(f) > 4 {
					m.errCls[i] = f[4]
				}
				if len(f) > 5 {
					m.tE[i], _ = strconv.ParseInt(f[5], 10, 64)
				}
				m.lastE = i
			}
		case "R":
			if len(f) > 2 {
				i, _ := strconv.Atoi(f[2])
				kv := map[string]string{}
				for _, x := range f[3:] {
					if p := strings.SplitN(x, "=", 2); len(p) == 2 {
						kv[p[0]] = p[1]
					}
				}
				m.reports[i] = kv
			}
		case "DONE":
			m.done = true
		case "FATAL":
			m.fatal = strings.Join(f[2:], " ")
		}
	}
	return m
}

// readWithRealParser loads the file through the package's own reader.
func c20ReadReal(dir string) (*pb.ClientConf, error) {
	a := &assets{path: dir, config: nil, filenameClientConf: "ClientConf"}
	err := a.readConfigs()
	if err != nil {
		return nil, err
	}
	return a.config, nil
}

func c20ParseBytes(b []byte) (*pb.ClientConf, error) {
	c := &pb.ClientConf{}
	if err := proto.Unmarshal(b, c); err != nil {
		return nil, err
	}
	return c, nil
}

type c20Scenario struct {
	Job       c20Job
	Init      int    // configuration number written to the target before the run (-1: no file)
	Inject    string // strace tampering expression ("" = none)
	Tmpfs     int    // > 0: mount a tmpfs of that many KiB on the directory
	KillAfter int    // microseconds after the trigger (kill runs); < 0: run to completion
	KillAtB   int    // the trigger: the begin marker of this operation of the loop; <= 0 with AtReady: the READY marker
	AtReady   bool
	Strace    bool
	Then      []c20Op // kill runs: operations of a fresh process on the same directory afterwards (leftovers included)
	Peer      []c20Op // kill runs: a second process storing these in a loop into the same directory at the same time
	PeerAtB   int     // the second process is killed PeerAfter microseconds after the begin marker of this operation
	PeerAfter int
}

// c20Start is the state a sequential run starts from.
type c20Start struct {
	mem     c20Sym
	disk    []byte
	present bool
}

func (sc *c20Scenario) start() c20Start {
	st := c20Start{mem: c20Sym{Base: sc.Init, Gen: -1, Pub: -1, Dec: -1, Sub: -1}}
	if sc.Init >= 0 {
		st.disk, _ = proto.Marshal(c20Conf(sc.Init))
		st.present = true
	}
	return st
}

func (sc c20Scenario) replay() string {
	b, _ := json.Marshal(sc)
	return "c20scenario " + string(b)
}

// prepare makes the directories of a scenario (optionally a tmpfs) and the initial file; cleanup unmounts and removes.
func (e *c20Env) prepare(sc *c20Scenario) (root string, note string, cleanup func()) {
	uid := sc.Job.DropUID
	root, dir, _ := e.newDirs(uid)
	sc.Job.Dir = dir
	mounted := false
	cleanup = func() {
		if mounted {
			_ = syscall.Unmount(dir, syscall.MNT_DETACH)
		}
		_ = os.Chmod(dir, 0o755)
		os.RemoveAll(root)
	}
	if sc.Tmpfs > 0 {
		if err := syscall.Mount("tmpfs", dir, "tmpfs", 0, fmt.Sprintf("size=%dk,mode=0755", sc.Tmpfs)); err != nil {
			return root, "skip:tmpfs-unavailable", cleanup
		}
		mounted = true
	}
	if sc.Init >= 0 {
		b, err := proto.Marshal(c20Conf(sc.Init))
		if err != nil {
			e.t.Fatalf("initial configuration %d does not marshal", sc.Init)
		}
		if err := os.WriteFile(filepath.Join(dir, "ClientConf"), b, 0o644); err != nil {
			return root, "skip:init-write-failed", cleanup
		}
		if uid > 0 {
			_ = os.Chown(filepath.Join(dir, "ClientConf"), uid, uid)
		}
	}
	return root, "", cleanup
}

// exec starts the helper for one job on the prepared directory (optionally under strace), optionally kills
// it, and returns its markers and the parsed strace output.
func (e *c20Env) exec(sc *c20Scenario, job *c20Job, root, tag string) (marks *c20Marks, sys []c20Sys, note string) {
	if !job.Loop {
		job.Snap = filepath.Join(root, "snap"+tag)
		_ = os.MkdirAll(job.Snap, 0o755)
		if job.DropUID > 0 {
			_ = os.Chown(job.Snap, job.DropUID, job.DropUID)
		}
	}
	jobPath := filepath.Join(root, "job"+tag+".json")
	jb, _ := json.Marshal(job)
	_ = os.WriteFile(jobPath, jb, 0o644)
	tracePath := filepath.Join(root, "strace"+tag+".txt")
	helperArgs := []string{"-test.run=^TestVerifC20Helper$", "-test.count=1", "-test.timeout=120s"}
	var cmd *exec.Cmd
	if sc.Strace {
		a := []string{"-f", "-qq", "-s", "48", "-o", tracePath, "-e", "trace=" + c20TraceSet()}
		if sc.Inject != "" {
			a = append(a, "-e", "inject="+sc.Inject)
		}
		a = append(a, e.bin)
		a = append(a, helperArgs...)
		cmd = exec.Command(e.strace, a...)
	} else {
		cmd = exec.Command(e.bin, helperArgs...)
	}
	cmd.Env = append(os.Environ(), "C20_JOB="+jobPath)
	cmd.Dir = root
	cmd.SysProcAttr = &syscall.SysProcAttr{Setpgid: true} // strace and the helper: one group, killed together on a timeout
	killAll := func() {
		if cmd.Process != nil {
			_ = syscall.Kill(-cmd.Process.Pid, syscall.SIGKILL)
			_ = cmd.Process.Kill()
		}
	}
	var errb bytes.Buffer
	cmd.Stderr = &errb
	pr, err := cmd.StdoutPipe()
	if err != nil {
		e.t.Fatal(err)
	}
	if err := cmd.Start(); err != nil {
		return nil, nil, "skip:start-failed:" + err.Error()
	}
	kill := job.Loop && sc.KillAfter >= 0
	trigger := fmt.Sprintf("C20MARK B %d ", sc.KillAtB)
	if sc.AtReady {
		trigger = "C20MARK READY"
	}
	var outb bytes.Buffer
	var omu sync.Mutex
	trigCh := make(chan int, 1)
	doneRead := make(chan struct{})
	go func() {
		defer close(doneRead)
		rd := bufio.NewReader(pr)
		sent := false
		pid := 0
		for {
			line, err := rd.ReadString('\n')
			if !sent && strings.HasPrefix(line, "C20MARK READY") {
				if f := strings.Fields(line); len(f) > 2 {
					pid, _ = strconv.Atoi(f[2])
				}
			}
			if !sent && kill && pid > 0 && strings.HasPrefix(line, trigger) {
				trigCh <- pid // before anything else: the delay counts from here
				sent = true
			}
			omu.Lock()
			outb.WriteString(line)
			omu.Unlock()
			if err != nil {
				if !sent {
					trigCh <- -1
				}
				return
			}
		}
	}()
	if kill {
		select {
		case pid := <-trigCh:
			if pid > 0 {
				if sc.KillAfter > 0 {
					c20SleepMicros(sc.KillAfter)
				}
				_ = syscall.Kill(pid, syscall.SIGKILL)
			}
		case <-time.After(60 * time.Second):
			killAll()
			note = "skip:helper-not-ready"
		}
	}
	waitDone := make(chan struct{})
	go func() { <-doneRead; _ = cmd.Wait(); close(waitDone) }()
	select {
	case <-waitDone:
	case <-time.After(120 * time.Second):
		killAll()
		<-waitDone
		note = "skip:helper-timeout"
	}
	omu.Lock()
	marks = c20ParseMarks(outb.Bytes())
	omu.Unlock()
	if sc.Strace {
		sys, err = c20ParseStrace(tracePath)
		if err != nil {
			note = "skip:strace-output-unreadable"
		}
	}
	if marks.fatal != "" && note == "" {
		note = "skip:helper-fatal:" + strings.Fields(marks.fatal)[0]
	}
	if !marks.ready && note == "" {
		note = "skip:helper-never-ready " + strings.TrimSpace(errb.String())
	}
	return
}

func c20SleepMicros(us int) {
	// busy-wait for short delays: time.Sleep rounds up to the timer granularity
	d := time.Duration(us) * time.Microsecond
	if d > 2*time.Millisecond {
		time.Sleep(d - time.Millisecond)
		d = time.Millisecond
	}
	t0 := time.Now()
	for time.Since(t0) < d {
	}
}

// checkSequential evaluates a completed (non-loop) run: one correspondence case + oracle per operation.
func (e *c20Env) checkSequential(sc *c20Scenario, job *c20Job, start c20Start, marks *c20Marks, sys []c20Sys, replayTag string) {
	out := e.out
	dir := job.Dir
	segs := c20Segments(sys, dir)
	// expected state, tracked by the harness independently of the model
	mem := start.mem
	disk, diskPresent := start.disk, start.present
	for i, op := range job.Ops {
		for _, p := range op.Pre {
			if p == "rmdir" {
				disk, diskPresent = nil, false
			}
		}
		rep, ok := marks.reports[i]
		if !ok || !marks.ended[i] {
			out.Count("sequential:incomplete-run")
			return
		}
		oldMem := mem.materialise()
		newSym := mem.apply(op)
		newMem := newSym.materialise()
		failed := marks.errs[i]
		if c20Digest(oldMem) == c20Digest(newMem) {
			// the generators avoid this; an operation that changes nothing cannot tell old from new
			out.Count("sequential:old-equals-new")
			return
		}
		e.count("op:" + op.Kind)
		if op.Kind == "conf" {
			out.Count("class:" + []string{"tiny", "small", "medium", "flat-large", "large", "bad", "subnets"}[c20Class(op.K)])
		}
		if failed {
			e.count("result:err:" + rep["errclass"])
		} else {
			e.count("result:ok")
		}
		// ---- what the implementation left behind
		var file []byte
		filePresent := rep["tgt"] == "present"
		if filePresent {
			b, err := os.ReadFile(filepath.Join(job.Snap, fmt.Sprint(i)))
			if err != nil {
				out.Count("sequential:snapshot-missing")
				return
			}
			file = b
		}
		newField, newBytes, newOK := c20MarshalField(newMem)
		oldField, _, _ := c20MarshalField(oldMem)
		same := filePresent == diskPresent && bytes.Equal(file, disk)
		isNew := newOK && filePresent && bytes.Equal(file, newBytes)
		cls := "other"
		if same {
			cls = "same"
		} else if isNew {
			cls = "new"
		}
		memCls := "?" + rep["mem"]
		if rep["mem"] == c20Digest(oldMem) {
			memCls = "old"
		} else if rep["mem"] == c20Digest(newMem) {
			memCls = "new"
		}
		// ---- property oracle
		replay := sc.replay() + fmt.Sprintf(" %sop=%d", replayTag, i)
		out.Checked()
		if filePresent {
			parsed, perr := c20ParseBytes(file)
			switch {
			case perr != nil:
				out.OracleFail("C20:target-unparseable", fmt.Sprintf("after %s #%d (err=%v) the ClientConf file does not parse: %v", op.Kind, i, failed, perr), replay)
			default:
				eqOld := diskPresent && func() bool { o, err := c20ParseBytes(disk); return err == nil && proto.Equal(parsed, o) }()
				eqNew := proto.Equal(parsed, newMem)
				if !eqOld && !eqNew {
					out.OracleFail("C20:target-neither-old-nor-new", fmt.Sprintf("after %s #%d (err=%v) the file is neither the previous nor the new configuration", op.Kind, i, failed), replay)
				}
				if !failed && !eqNew {
					out.OracleFail("C20:success-but-not-stored", fmt.Sprintf("%s #%d returned nil but the file is not the new configuration", op.Kind, i), replay)
				}
				if failed && !eqOld {
					out.OracleFail("C20:failed-store-changed-file", fmt.Sprintf("%s #%d returned an error but the file changed", op.Kind, i), replay)
				}
			}
		} else {
			if diskPresent {
				out.OracleFail("C20:target-missing", fmt.Sprintf("after %s #%d (err=%v) the ClientConf file is gone", op.Kind, i, failed), replay)
			}
			if !failed {
				out.OracleFail("C20:success-but-not-stored", fmt.Sprintf("%s #%d returned nil but there is no file", op.Kind, i), replay)
			}
		}
		out.Checked()
		if (op.Kind == "conf" || op.Kind == "confnil") && failed && memCls != "old" {
			out.OracleFail("C20:memory-not-rolled-back", fmt.Sprintf("SetClientConf #%d failed (%s) but the configuration in memory is %s", i, rep["errclass"], memCls), replay)
		}
		if !failed && memCls != "new" {
			out.OracleFail("C20:memory-not-updated", fmt.Sprintf("%s #%d succeeded but the configuration in memory is %s", op.Kind, i, memCls), replay)
		}
		// ---- correspondence case
		if sc.Strace {
			seg := segs[i]
			if seg == nil || !seg.ended || seg.unfinished != "" {
				out.Count("sequential:no-trace-segment")
			} else {
				calls := "-"
				if len(seg.calls) > 0 {
					calls = strings.Join(seg.calls, ",")
				}
				ret := "ok"
				if failed {
					ret = "err"
				}
				line := fmt.Sprintf("store|%s|%s|%s|%s|%s", vlib.B(op.Kind == "conf" || op.Kind == "confnil"), c20Content(disk, diskPresent), oldField, newField, strings.Join(seg.results, ","))
				impl := fmt.Sprintf("%s|%s|target=%s|tmp=%s|mem=%s", calls, ret, cls, rep["tmp"], memCls)
				out.Case(line, impl, !failed || len(seg.calls) > 0)
				e.count("calls:" + c20Shape(seg))
			}
		}
		// ---- advance the expectation from what the implementation reported (the oracle above has
		// already compared it with old/new)
		if failed {
			if op.Kind != "conf" && op.Kind != "confnil" {
				mem = newSym
			}
		} else {
			mem = newSym
		}
		disk, diskPresent = file, filePresent
	}
}

// c20Shape is a histogram key: which calls happened and which one failed.
func c20Shape(seg *c20Seg) string {
	var sb strings.Builder
	nw := 0
	for i, c := range seg.calls {
		name := strings.SplitN(c, ":", 2)[0]
		if name == "write" {
			nw++
			if seg.results[i] != "fail" && nw > 1 && i+1 < len(seg.calls) && strings.HasPrefix(seg.calls[i+1], "write") {
				continue
			}
		}
		if seg.results[i] == "fail" {
			name += "!"
		}
		if sb.Len() > 0 {
			sb.WriteByte(',')
		}
		sb.WriteString(name)
	}
	if sb.Len() == 0 {
		return "none"
	}
	return sb.String()
}

// c20Loop is what the markers of a killed loop run say about the file: the configuration of the last store
// that succeeded (or the initial one), and the configuration of the store in progress.
type c20Loop struct {
	disk       c20Sym
	present    bool
	cur        c20Sym
	inProgress bool
	failures   int
}

// replayLoop replays the operations symbolically up to the last one that began. verdict != "": the run cannot be judged.
func (e *c20Env) replayLoop(sc *c20Scenario, ops []c20Op, marks *c20Marks, replay string) (lp c20Loop, verdict string) {
	mem := c20Sym{Base: sc.Init, Gen: -1, Pub: -1, Dec: -1, Sub: -1}
	lp.disk, lp.present = mem, sc.Init >= 0
	n := len(ops)
	lp.inProgress = marks.lastB >= 0 && !marks.ended[marks.lastB]
	for i := 0; i <= marks.lastB; i++ {
		op := ops[i%n]
		newSym := mem.apply(op)
		if i == marks.lastB && lp.inProgress {
			lp.cur = newSym
			break
		}
		if marks.errs[i] {
			full := marks.errCls[i] == "no_space_left" || marks.errCls[i] == "quota_exceeded"
			switch {
			case sc.Tmpfs > 0 && full:
				lp.failures++
				e.count("kill:store-failed-on-full-filesystem")
			case full:
				// the machine's temporary file system filled up (parallel multi-megabyte runs, other checks): not a finding
				e.count("skip:env-full")
				return lp, "env-full"
			default:
				// no other failure is injected in kill runs; a failing store here is reported, not assumed away
				e.out.OracleFail("C20:healthy-store-failed", fmt.Sprintf("operation %d failed (%s) in a healthy directory", i, marks.errCls[i]), replay)
				return lp, "failed"
			}
			if op.Kind != "conf" && op.Kind != "confnil" {
				mem = newSym // the in-place setters keep their modification in memory
			}
			continue
		}
		mem, lp.disk, lp.present = newSym, newSym, true
	}
	return lp, ""
}

// checkKilledPair evaluates two loop runs on one directory, both killed: nothing serialises two client processes
// that share an assets directory, but each stores through its own temporary file and a rename, so the file must be
// a complete configuration: the last one either process stored, or the one either was storing.
func (e *c20Env) checkKilledPair(sc *c20Scenario, marksA, marksB *c20Marks) {
	out := e.out
	replay := sc.replay()
	a, va := e.replayLoop(sc, sc.Job.Ops, marksA, replay)
	b, vb := e.replayLoop(sc, sc.Peer, marksB, replay)
	if va != "" || vb != "" {
		return
	}
	var cands []*pb.ClientConf
	absentOK := sc.Init < 0 && !a.present && !b.present // neither has completed a store yet
	for _, lp := range []c20Loop{a, b} {
		if lp.present {
			cands = append(cands, lp.disk.materialise())
		}
		if lp.inProgress {
			cands = append(cands, lp.cur.materialise())
		}
	}
	e.count("kill:two-processes")
	if a.inProgress && b.inProgress {
		e.count("kill:two-processes:both-inside-a-store")
	}
	out.Checked()
	got, err := c20ReadReal(sc.Job.Dir)
	raw, rerr := os.ReadFile(filepath.Join(sc.Job.Dir, "ClientConf"))
	where := fmt.Sprintf("two processes on one directory, killed (first: last began %d, ended %d; second: last began %d, ended %d)", marksA.lastB, marksA.lastE, marksB.lastB, marksB.lastE)
	switch {
	case rerr != nil && os.IsNotExist(rerr):
		if !absentOK {
			out.OracleFail("C20:target-missing", where+": no ClientConf file", replay)
		}
	case err != nil:
		out.OracleFail("C20:target-unparseable", fmt.Sprintf("%s: the real reader fails: %v (%d bytes)", where, err, len(raw)), replay)
	default:
		for _, c := range cands {
			if proto.Equal(got, c) {
				return
			}
		}
		out.OracleFail("C20:target-neither-old-nor-new", fmt.Sprintf("%s: the file (%d bytes, generation %d) is none of the configurations either process stored last or was storing", where, len(raw), got.GetGeneration()), replay)
	}
}

// checkKilled evaluates a loop run that was killed: the file must be the configuration before or
// the one being stored by the operation in progress (or exactly the last one stored when none was).
// In a directory on a (nearly) full tmpfs stores fail with ENOSPC: a failed store leaves the file as it was.
// Returns the symbolic configuration the file holds (ok = it matched one).
func (e *c20Env) checkKilled(sc *c20Scenario, marks *c20Marks, sys []c20Sys) (fileSym c20Sym, filePresent bool, ok bool) {
	out := e.out
	dir := sc.Job.Dir
	replay := sc.replay()
	lp, verdict := e.replayLoop(sc, sc.Job.Ops, marks, replay)
	if verdict != "" {
		return
	}
	disk, diskPresent, cur, inProgress, failures := lp.disk, lp.present, lp.cur, lp.inProgress, lp.failures
	type cand struct {
		sym  c20Sym
		conf *pb.ClientConf
	}
	var cands []cand
	absentOK := false
	switch {
	case marks.lastB < 0:
		e.count("kill:before-first-store")
		if diskPresent {
			cands = append(cands, cand{disk, disk.materialise()})
		} else {
			absentOK = true
		}
	case inProgress:
		e.count("kill:during-store")
		cands = append(cands, cand{cur, cur.materialise()})
		if diskPresent {
			cands = append(cands, cand{disk, disk.materialise()})
		} else {
			absentOK = true
		}
	default:
		e.count("kill:between-stores")
		if diskPresent {
			cands = append(cands, cand{disk, disk.materialise()})
		} else {
			absentOK = true // every store so far failed
		}
	}
	out.Checked()
	got, err := c20ReadReal(dir)
	raw, rerr := os.ReadFile(filepath.Join(dir, "ClientConf"))
	which := -1
	switch {
	case rerr != nil && os.IsNotExist(rerr):
		if !absentOK {
			out.OracleFail("C20:target-missing", fmt.Sprintf("killed %dus after the trigger (last began %d, ended %d): no ClientConf file", sc.KillAfter, marks.lastB, marks.lastE), replay)
		} else {
			e.count("kill:file-absent-as-before")
			ok = true
		}
	case err != nil:
		out.OracleFail("C20:target-unparseable", fmt.Sprintf("killed %dus after the trigger (last began %d, ended %d): the real reader fails: %v (%d bytes)", sc.KillAfter, marks.lastB, marks.lastE, err, len(raw)), replay)
	default:
		for i, c := range cands {
			if proto.Equal(got, c.conf) {
				which = i
				break
			}
		}
		if which < 0 {
			out.OracleFail("C20:target-neither-old-nor-new", fmt.Sprintf("killed %dus after the trigger (last began %d, ended %d): the file (%d bytes, generation %d) is neither the previous nor the new configuration", sc.KillAfter, marks.lastB, marks.lastE, len(raw), got.GetGeneration()), replay)
		} else {
			fileSym, filePresent, ok = cands[which].sym, true, true
			if inProgress {
				e.count([]string{"kill:file-is-new", "kill:file-is-old"}[which])
			}
		}
	}
	st, prevPresent, prev := cur, diskPresent, disk
	// leftover temporary file: evidence of where the kill landed (and it must be a prefix of the new bytes)
	tmps := c20ListTmp(dir)
	if len(tmps) > 0 {
		e.count("kill:tmp-left-behind")
	}
	for name, sz := range tmps {
		if failures > 0 {
			e.count("kill:leftover-of-failed-store")
			continue // leftovers of the failed stores: expected (see level_note), not attributable to one store
		}
		if !inProgress {
			out.OracleFail("C20:tmp-without-store", "temporary file "+name+" exists although no store was in progress", replay)
			continue
		}
		nb, merr := proto.Marshal(st.materialise())
		tb, terr := os.ReadFile(filepath.Join(dir, name))
		if merr == nil && terr == nil {
			out.Checked()
			if !bytes.HasPrefix(nb, tb) {
				out.OracleFail("C20:tmp-not-a-prefix", fmt.Sprintf("temporary file (%d bytes) is not a prefix of the new configuration's bytes", sz), replay)
			} else if len(tb) < len(nb) && len(tb) > 0 {
				e.count("kill:tmp-partial")
			} else if len(tb) == 0 {
				e.count("kill:tmp-empty")
			} else {
				e.count("kill:tmp-complete")
			}
		}
	}
	// crash-prefix correspondence
	if sc.Strace && inProgress && failures == 0 {
		seg := c20Segments(sys, dir)[marks.lastB]
		nb, nbytes, nok := c20MarshalField(st.materialise())
		if seg == nil || seg.unfinished != "" || !nok || rerr != nil && !os.IsNotExist(rerr) {
			out.Count("crashcase:skipped-unfinished-call")
			return
		}
		// No fault is injected in a kill run: every call the store got an answer to succeeded.  A failure in the
		// trace of a killed process is therefore not an answer of the environment to the store but an artefact of
		// the kill under ptrace (strace reporting the entry value -ENOSYS / an interrupted call for a call that
		// the kernel did carry out): its effect is indefinite, so the segment is not a crash prefix the model can be
		// held to.  It is not judged as a correspondence case; the oracle above has judged the file all the same,
		// and a store that really fails in a healthy directory is reported as C20:healthy-store-failed.
		for ci, res := range seg.results {
			if res == "fail" {
				e.count("crashcase:skipped-indefinite-result")
				if e.seen("crashcase:skipped-indefinite-result") <= 3 {
					out.Note(fmt.Sprintf("C20: crash prefix not judged: strace shows %s = %q in a killed process of a run without injected faults (calls %v)", seg.calls[ci], seg.tails[ci], seg.calls))
				}
				return
			}
		}
		var pbytes []byte
		if prevPresent {
			pbytes, _ = proto.Marshal(prev.materialise())
		}
		cls := "other"
		present := rerr == nil
		if present == prevPresent && bytes.Equal(raw, pbytes) {
			cls = "same"
		} else if present && bytes.Equal(raw, nbytes) {
			cls = "new"
		}
		tmp := "absent"
		for _, sz := range tmps {
			tmp = fmt.Sprint(sz)
		}
		calls := "-"
		if len(seg.calls) > 0 {
			calls = strings.Join(seg.calls, ",")
		}
		line := fmt.Sprintf("crash|%s|%s|%s", c20Content(pbytes, prevPresent), nb, strings.Join(seg.results, ","))
		out.Case(line, fmt.Sprintf("%s|target=%s|tmp=%s", calls, cls, tmp), len(seg.calls) > 0)
		out.Count(fmt.Sprintf("crashcase:after-%d-calls", len(seg.calls)))
	}
	return
}

// ---------------------------------------------------------------------------------------------
// generators

func c20SmallK(r *vlib.Rand) int {
	// a configuration number of a small / medium / flat class (cheap to put on a model line)
	for {
		k := r.Intn(70)
		switch c20Class(k) {
		case c20Tiny, c20Small, c20Medium, c20Subnets:
			return k
		}
	}
}

func c20KOf(r *vlib.Rand, class int) int { return class + c20nClasses*r.Intn(10) }

func c20RandOp(r *vlib.Rand, allowBad, allowFlat bool) c20Op {
	switch x := r.Intn(20); {
	case x < 9:
		return c20Op{Kind: "conf", K: c20SmallK(r)}
	case x < 11 && allowFlat:
		return c20Op{Kind: "conf", K: c20KOf(r, c20FlatLarge)}
	case x < 12 && allowBad:
		return c20Op{Kind: "conf", K: c20KOf(r, c20Bad)}
	case x < 14:
		return c20Op{Kind: "gen", K: 5000 + r.Intn(100000)}
	case x < 16:
		return c20Op{Kind: "pubkey", K: 200 + r.Intn(1000)}
	case x < 18:
		return c20Op{Kind: "decoys", K: 300 + r.Intn(1000)}
	default:
		return c20Op{Kind: "subnets", K: 400 + r.Intn(1000)}
	}
}

func c20DistinctOps(r *vlib.Rand, n int, allowBad, allowFlat bool) []c20Op {
	// consecutive operations always change the configuration (so "old" and "new" differ)
	ops := make([]c20Op, 0, n)
	for len(ops) < n {
		op := c20RandOp(r, allowBad, allowFlat)
		if len(ops) > 0 && ops[len(ops)-1].Kind == op.Kind && ops[len(ops)-1].K == op.K {
			continue
		}
		ops = append(ops, op)
	}
	return ops
}

func (e *c20Env) scenarioHealthy(r *vlib.Rand) *c20Scenario {
	init := -1
	if r.Chance(4, 5) {
		init = c20SmallK(r)
	}
	return &c20Scenario{Job: c20Job{Ops: c20DistinctOps(r, r.Range(3, 8), true, true)}, Init: init, KillAfter: -1, Strace: true}
}

func (e *c20Env) scenarioFsize(r *vlib.Rand) *c20Scenario {
	sc := e.scenarioHealthy(r)
	for i := range sc.Job.Ops {
		if r.Chance(1, 2) {
			lim := []int{0, 1, 7, 100, 4096, 100000, 1 << 20}[r.Intn(7)]
			sc.Job.Ops[i].Pre = append(sc.Job.Ops[i].Pre, fmt.Sprintf("fsize:%d", lim))
		}
	}
	return sc
}

func (e *c20Env) scenarioVanish(r *vlib.Rand) *c20Scenario {
	sc := e.scenarioHealthy(r)
	gone := false
	for i := range sc.Job.Ops {
		if !gone && r.Chance(1, 3) {
			sc.Job.Ops[i].Pre = append(sc.Job.Ops[i].Pre, "rmdir")
			gone = true
		} else if gone && r.Chance(1, 2) {
			sc.Job.Ops[i].Pre = append(sc.Job.Ops[i].Pre, "mkdir")
			gone = false
		}
	}
	return sc
}

func (e *c20Env) scenarioReadOnly(r *vlib.Rand) *c20Scenario {
	sc := e.scenarioHealthy(r)
	if e.nobody > 0 {
		sc.Job.DropUID = e.nobody
	}
	ro := false
	for i := range sc.Job.Ops {
		if !ro && r.Chance(1, 2) {
			sc.Job.Ops[i].Pre = append(sc.Job.Ops[i].Pre, "rodir")
			ro = true
		} else if ro && r.Chance(1, 3) {
			sc.Job.Ops[i].Pre = append(sc.Job.Ops[i].Pre, "rwdir")
			ro = false
		}
	}
	return sc
}

func (e *c20Env) scenarioRenameFails(r *vlib.Rand) *c20Scenario {
	sc := e.scenarioHealthy(r)
	sc.Inject = fmt.Sprintf("rename,renameat,renameat2:error=%s:when=%d+%d", []string{"EIO", "ENOSPC", "EACCES", "EXDEV"}[r.Intn(4)], r.Range(1, 3), r.Range(1, 3))
	return sc
}

func (e *c20Env) scenarioCloseFails(r *vlib.Rand) *c20Scenario {
	sc := e.scenarioHealthy(r)
	for i := range sc.Job.Ops {
		if r.Chance(1, 3) {
			sc.Job.Ops[i].Pre = append(sc.Job.Ops[i].Pre, "closefail")
		}
	}
	return sc
}

func (e *c20Env) scenarioTmpfs(r *vlib.Rand) *c20Scenario {
	sc := e.scenarioHealthy(r)
	sc.Tmpfs = []int{16, 64, 256, 1024}[r.Intn(4)]
	if sc.Init >= 0 && c20Class(sc.Init) == c20Medium {
		sc.Init = c20KOf(r, c20Small)
	}
	// make sure something does not fit
	sc.Job.Ops[r.Intn(len(sc.Job.Ops))] = c20Op{Kind: "conf", K: c20KOf(r, c20FlatLarge)}
	return sc
}

func c20IsLarge(op c20Op) bool {
	return op.Kind == "conf" && (c20Class(op.K) == c20Large || c20Class(op.K) == c20FlatLarge)
}

// c20KillDelay: microseconds between the begin marker of the chosen operation and the SIGKILL, drawn so that
// it mostly falls inside that store (marshal, open, write, close, rename) and sometimes into the next ones.
func c20KillDelay(r *vlib.Rand, op c20Op, strace bool) int {
	var d int
	switch {
	case c20IsLarge(op):
		d = []int{r.Intn(1500), r.Intn(4000), r.Intn(12000), r.Intn(40000)}[r.Intn(4)]
	case op.Kind == "conf" && c20Class(op.K) == c20Medium:
		d = []int{r.Intn(150), r.Intn(500), r.Intn(3000)}[r.Intn(3)]
	default:
		d = []int{r.Intn(60), r.Intn(250), r.Intn(2000)}[r.Intn(3)]
	}
	if strace {
		d *= 4
	}
	return d
}

// c20FollowUp: what a fresh process stores into the directory after the kill (small ones first: a store that
// reuses anything an interrupted larger store left behind must not inherit its bytes)
func c20FollowUp(r *vlib.Rand) []c20Op {
	ops := []c20Op{{Kind: "conf", K: c20SmallK(r)}}
	for _, op := range c20DistinctOps(r, r.Range(1, 3), false, false) {
		if op.Kind == ops[len(ops)-1].Kind && op.K == ops[len(ops)-1].K {
			continue
		}
		ops = append(ops, op)
	}
	return ops
}

func (e *c20Env) scenarioKill(r *vlib.Rand, strace bool) *c20Scenario {
	var ops []c20Op
	switch r.Intn(4) {
	case 0: // small only: thousands of stores per second
		ops = c20DistinctOps(r, r.Range(2, 6), false, false)
	case 1: // multi-megabyte configurations alternating
		ops = []c20Op{{Kind: "conf", K: c20KOf(r, c20Large)}, {Kind: "conf", K: c20KOf(r, c20FlatLarge)}}
		if r.Bool() {
			ops = append(ops, c20Op{Kind: "gen", K: 7000 + r.Intn(1000)})
		}
	case 2: // large and small mixed
		ops = c20DistinctOps(r, r.Range(2, 5), false, true)
		ops = append(ops, c20Op{Kind: "conf", K: c20KOf(r, c20Large)})
	default:
		ops = []c20Op{{Kind: "conf", K: c20KOf(r, c20FlatLarge)}, {Kind: "conf", K: c20SmallK(r)}, {Kind: "decoys", K: 300 + r.Intn(100)}}
	}
	if strace {
		// the crash-prefix cases go on a model line: compressible contents only
		ops = []c20Op{{Kind: "conf", K: c20KOf(r, c20FlatLarge)}, {Kind: "conf", K: c20SmallK(r)}}
		if r.Bool() {
			ops = append(ops, c20Op{Kind: "conf", K: c20KOf(r, c20FlatLarge) + c20nClasses*10})
		}
	}
	// consecutive (cyclically) operations must differ
	if len(ops) > 1 && ops[0].Kind == ops[len(ops)-1].Kind && ops[0].K == ops[len(ops)-1].K {
		ops = ops[:len(ops)-1]
	}
	if len(ops) == 1 {
		ops = append(ops, c20Op{Kind: "gen", K: 9000 + r.Intn(100)})
	}
	init := -1
	if r.Chance(3, 4) {
		init = c20SmallK(r)
	}
	sc := &c20Scenario{Job: c20Job{Ops: ops, Loop: true}, Init: init, Strace: strace}
	if r.Chance(1, 12) {
		// around the start of the process: before the first store, or in it
		sc.AtReady, sc.KillAfter = true, r.Intn(400)
		if strace {
			sc.KillAfter *= 4
		}
		return sc
	}
	// the timer starts at the begin marker of a PRNG-chosen iteration, so that the file on disk has already been
	// replaced a few times (by large configurations too) when the kill lands; large stores are chosen more often
	limit := 50
	for _, op := range ops {
		if c20IsLarge(op) {
			limit = 4 * len(ops)
		}
	}
	sc.KillAtB = r.Intn(limit)
	for try := 0; try < 2 && !c20IsLarge(ops[sc.KillAtB%len(ops)]); try++ {
		sc.KillAtB = r.Intn(limit)
	}
	sc.KillAfter = c20KillDelay(r, ops[sc.KillAtB%len(ops)], strace)
	if !strace && r.Chance(1, 3) {
		sc.Then = c20FollowUp(r)
	}
	return sc
}

// scenarioKillPair: two processes store into one directory at the same time (distinct configurations), both are killed.
func (e *c20Env) scenarioKillPair(r *vlib.Rand) *c20Scenario {
	sc := e.scenarioKill(r, false)
	sc.Then = nil
	off := func(op c20Op) c20Op {
		if op.Kind == "conf" {
			op.K += c20nClasses * 20 // same class, another member of the family
		} else {
			op.K += 50000
		}
		return op
	}
	var peer []c20Op
	switch r.Intn(3) {
	case 0:
		for _, op := range sc.Job.Ops {
			peer = append(peer, off(op))
		}
	case 1:
		peer = []c20Op{off(c20Op{Kind: "conf", K: c20KOf(r, c20FlatLarge)}), off(c20Op{Kind: "conf", K: c20SmallK(r)})}
	default:
		for _, op := range c20DistinctOps(r, r.Range(2, 4), false, false) {
			peer = append(peer, off(op))
		}
	}
	if len(peer) > 1 && peer[0].Kind == peer[len(peer)-1].Kind && peer[0].K == peer[len(peer)-1].K {
		peer = peer[:len(peer)-1]
	}
	if len(peer) == 1 {
		peer = append(peer, c20Op{Kind: "gen", K: 59000 + r.Intn(100)})
	}
	// Each process reads the file when it starts, and by then the other one may have replaced it already: what the
	// in-place setters build on is only known once the process has installed a whole configuration itself.  Both
	// loops therefore begin with a SetClientConf.
	lead := func(ops []c20Op, k int) []c20Op {
		if ops[0].Kind == "conf" {
			return ops
		}
		if last := ops[len(ops)-1]; last.Kind == "conf" && last.K == k {
			k += c20nClasses
		}
		return append([]c20Op{{Kind: "conf", K: k}}, ops...)
	}
	sc.Job.Ops = lead(sc.Job.Ops, c20SmallK(r))
	peer = lead(peer, c20SmallK(r)+c20nClasses*20)
	sc.Peer = peer
	sc.KillAtB = r.Intn(4 * len(sc.Job.Ops))
	sc.KillAfter = c20KillDelay(r, sc.Job.Ops[sc.KillAtB%len(sc.Job.Ops)], false)
	sc.AtReady = false
	sc.PeerAtB = r.Intn(4 * len(peer))
	sc.PeerAfter = c20KillDelay(r, peer[sc.PeerAtB%len(peer)], false)
	return sc
}

// scenarioKillFull: the same on a small tmpfs that the multi-megabyte stores fill up: stores fail with ENOSPC
// and leave their temporary files behind, the kill lands among failing and succeeding stores, and a fresh
// process then stores again into the directory as it was left.
func (e *c20Env) scenarioKillFull(r *vlib.Rand) *c20Scenario {
	big := c20KOf(r, c20FlatLarge)
	ops := []c20Op{{Kind: "conf", K: c20SmallK(r)}, {Kind: "conf", K: big}, {Kind: "gen", K: 7000 + r.Intn(1000)},
		{Kind: "conf", K: big + c20nClasses*10}, {Kind: "decoys", K: 300 + r.Intn(100)}}
	if r.Bool() {
		ops = ops[1:]
	}
	sc := &c20Scenario{Job: c20Job{Ops: ops, Loop: true}, Init: c20KOf(r, c20Small), Tmpfs: []int{1024, 3072, 4096, 6144}[r.Intn(4)]}
	sc.KillAtB = r.Intn(3 * len(ops))
	sc.KillAfter = c20KillDelay(r, ops[sc.KillAtB%len(ops)], false)
	sc.Then = c20FollowUp(r)
	return sc
}

func (e *c20Env) run(sc *c20Scenario, kind string) {
	root, note, cleanup := e.prepare(sc)
	defer cleanup()
	e.count("scenario:" + kind)
	skipped := func(note string) bool {
		if note == "" {
			return false
		}
		e.count(strings.SplitN(note, " ", 2)[0])
		if strings.HasPrefix(note, "skip:helper-never-ready") || strings.HasPrefix(note, "skip:helper-timeout") || strings.HasPrefix(note, "skip:helper-fatal") {
			e.out.Note(kind + ": " + note)
		}
		return true
	}
	if skipped(note) {
		return
	}
	if sc.Job.Loop && len(sc.Peer) > 0 {
		// a second process on the same directory, killed at an instant of its own
		peer := &c20Scenario{KillAfter: sc.PeerAfter, KillAtB: sc.PeerAtB}
		pjob := &c20Job{Dir: sc.Job.Dir, Loop: true, Ops: sc.Peer}
		type res struct {
			marks *c20Marks
			note  string
		}
		ch := make(chan res, 1)
		go func() {
			m, _, n := e.exec(peer, pjob, root, "-peer")
			ch <- res{m, n}
		}()
		marks, _, note := e.exec(sc, &sc.Job, root, "")
		pr := <-ch
		if skipped(note) || skipped(pr.note) {
			return
		}
		e.checkKilledPair(sc, marks, pr.marks)
		return
	}
	marks, sys, note := e.exec(sc, &sc.Job, root, "")
	if skipped(note) {
		return
	}
	if !sc.Job.Loop {
		e.checkSequential(sc, &sc.Job, sc.start(), marks, sys, "")
		return
	}
	if !sc.Strace {
		e.learn(sc.Job.Ops, marks)
	}
	fileSym, present, ok := e.checkKilled(sc, marks, sys)
	if !ok || len(sc.Then) == 0 {
		return
	}
	// a fresh process on the directory as the killed one left it (temporary files of interrupted and failed
	// stores included): it reads the file, then stores; each store must again leave exactly old or new
	start := c20Start{mem: fileSym, present: present}
	if present {
		start.disk, _ = os.ReadFile(filepath.Join(sc.Job.Dir, "ClientConf"))
	} else {
		start.mem = c20Sym{Base: -1, Gen: -1, Pub: -1, Dec: -1, Sub: -1}
	}
	job := &c20Job{Dir: sc.Job.Dir, Ops: sc.Then}
	seq := &c20Scenario{Job: *job}
	marks2, sys2, note := e.exec(seq, job, root, "-then")
	if skipped(note) {
		return
	}
	e.count("scenario:store-after-kill")
	e.checkSequential(sc, job, start, marks2, sys2, "then-")
}

func TestVerifC20(t *testing.T) {
	if os.Getenv("C20_JOB") != "" {
		return
	}
	out := vlib.Open("C20")
	defer out.Close()
	log.SetOutput(io.Discard)
	base, err := os.MkdirTemp("", "cjv-c20-")
	if err != nil {
		t.Fatal(err)
	}
	_ = os.Chmod(base, 0o755)
	defer os.RemoveAll(base)
	// the built-in default configuration (what is in memory when no file could be read)
	empty := filepath.Join(base, "empty")
	_ = os.MkdirAll(empty, 0o755)
	_ = initAssets(empty)
	c20Default = proto.Clone(assetsInstance.config).(*pb.ClientConf)

	e := &c20Env{t: t, out: out, base: base, bin: os.Args[0]}
	if p, err := exec.LookPath("strace"); err == nil {
		e.strace = p
	} else {
		out.Note("strace not found: no system-call correspondence in this run")
	}
	if os.Geteuid() == 0 {
		e.nobody = 65534
	}
	out.Note(fmt.Sprintf("C20 environment: strace=%q euid=%d (unwritable-directory runs drop to uid %d); tmpfs and strace tampering are probed per run and counted as skip:* when unavailable", e.strace, os.Geteuid(), e.nobody))
	if rp := vlib.Replay(); rp != "" {
		c20Replay(t, e, rp)
		return
	}
	r := vlib.NewRand("C20")

	// ---- corpus: hand-written scenarios first
	if e.strace != "" {
		corpus := []*c20Scenario{
			// healthy: every kind of setter, small, empty-ish, multi-megabyte, then one that does not marshal
			{Job: c20Job{Ops: []c20Op{{Kind: "conf", K: 1}, {Kind: "gen", K: 77}, {Kind: "pubkey", K: 5}, {Kind: "decoys", K: 6}, {Kind: "subnets", K: 7},
				{Kind: "conf", K: 0}, {Kind: "conf", K: 3}, {Kind: "conf", K: 5}, {Kind: "conf", K: 8}}}, Init: 2, KillAfter: -1, Strace: true},
			// no file at the start
			{Job: c20Job{Ops: []c20Op{{Kind: "gen", K: 78}, {Kind: "conf", K: 5}, {Kind: "conf", K: 9}}}, Init: -1, KillAfter: -1, Strace: true},
			// RLIMIT_FSIZE: nothing fits, a prefix fits, everything fits
			{Job: c20Job{Ops: []c20Op{{Kind: "conf", K: 1, Pre: []string{"fsize:0"}}, {Kind: "conf", K: 2, Pre: []string{"fsize:100"}}, {Kind: "gen", K: 79, Pre: []string{"fsize:10"}},
				{Kind: "conf", K: 3, Pre: []string{"fsize:1000000"}}, {Kind: "conf", K: 8, Pre: []string{"fsize:1000000"}}}}, Init: 6, KillAfter: -1, Strace: true},
			// the directory vanishes and comes back
			{Job: c20Job{Ops: []c20Op{{Kind: "conf", K: 1}, {Kind: "conf", K: 8, Pre: []string{"rmdir"}}, {Kind: "gen", K: 80}, {Kind: "conf", K: 9, Pre: []string{"mkdir"}}}}, Init: 6, KillAfter: -1, Strace: true},
			// unwritable directory
			{Job: c20Job{DropUID: e.nobody, Ops: []c20Op{{Kind: "conf", K: 1}, {Kind: "conf", K: 8, Pre: []string{"rodir"}}, {Kind: "decoys", K: 9}, {Kind: "conf", K: 9, Pre: []string{"rwdir"}}}}, Init: 6, KillAfter: -1, Strace: true},
			// every rename fails
			{Job: c20Job{Ops: []c20Op{{Kind: "conf", K: 1}, {Kind: "subnets", K: 3}, {Kind: "conf", K: 3}}}, Init: 6, Inject: "rename,renameat,renameat2:error=EIO", KillAfter: -1, Strace: true},
			// a full file system
			{Job: c20Job{Ops: []c20Op{{Kind: "conf", K: 1}, {Kind: "conf", K: 3}, {Kind: "conf", K: 8}, {Kind: "gen", K: 81}}}, Init: 6, Tmpfs: 64, KillAfter: -1, Strace: true},
			// close(2) of the temporary file fails (after every byte was accepted): nothing may be renamed
			{Job: c20Job{Ops: []c20Op{{Kind: "conf", K: 1}, {Kind: "conf", K: 8, Pre: []string{"closefail"}}, {Kind: "gen", K: 82}, {Kind: "decoys", K: 9, Pre: []string{"closefail"}}, {Kind: "conf", K: 3}}}, Init: 6, KillAfter: -1, Strace: true},
			// SetClientConf(nil): marshals to nothing; pinned outcome: the file is the empty configuration, no error
			{Job: c20Job{Ops: []c20Op{{Kind: "conf", K: 1}, {Kind: "confnil"}, {Kind: "subnets", K: 7}, {Kind: "conf", K: 3}, {Kind: "confnil", Pre: []string{"fsize:0"}}, {Kind: "conf", K: 2, Pre: []string{"rmdir"}}, {Kind: "subnets", K: 8, Pre: []string{"mkdir"}}}}, Init: 6, KillAfter: -1, Strace: true},
		}
		for i, sc := range corpus {
			e.run(sc, fmt.Sprintf("corpus-%d", i))
		}
	}

	// ---- randomised fault-injection runs under strace (correspondence + oracle)
	if e.strace != "" {
		n := vlib.Budget(24, 400)
		gens := []struct {
			name string
			f    func(*vlib.Rand) *c20Scenario
		}{
			{"healthy", e.scenarioHealthy}, {"fsize", e.scenarioFsize}, {"vanish", e.scenarioVanish},
			{"readonly", e.scenarioReadOnly}, {"rename-fails", e.scenarioRenameFails}, {"tmpfs", e.scenarioTmpfs},
			{"close-fails", e.scenarioCloseFails},
		}
		scs := make([]*c20Scenario, n)
		kinds := make([]string, n)
		for i := 0; i < n; i++ {
			g := gens[i%len(gens)]
			scs[i], kinds[i] = g.f(r), g.name
		}
		c20Parallel(4, n, func(i int) { e.run(scs[i], kinds[i]) })
	}

	// ---- without strace the fault-injection runs still go through the oracle (no system-call correspondence);
	// the floor below then reports the run as incomplete
	if e.strace == "" {
		n := vlib.Budget(12, 100)
		gens := []func(*vlib.Rand) *c20Scenario{e.scenarioHealthy, e.scenarioFsize, e.scenarioVanish, e.scenarioReadOnly, e.scenarioTmpfs, e.scenarioCloseFails}
		for i := 0; i < n; i++ {
			sc := gens[i%len(gens)](r)
			sc.Strace = false
			e.run(sc, "no-strace")
		}
	}

	// ---- kill at a PRNG-chosen instant (oracle); a part of them under strace (crash-prefix cases), a part on a
	// file system that fills up, a part followed by a fresh process storing into the directory as it was left
	n := vlib.Budget(160, 5000)
	{
		scs := make([]*c20Scenario, n)
		kinds := make([]string, n)
		for i := 0; i < n; i++ {
			st := e.strace != "" && i%5 == 0
			switch {
			case i%8 == 3:
				scs[i], kinds[i] = e.scenarioKillFull(r), "kill-full-filesystem"
			case i%8 == 6:
				scs[i], kinds[i] = e.scenarioKillPair(r), "kill-two-processes"
			case st:
				scs[i], kinds[i] = e.scenarioKill(r, true), "kill-strace"
			default:
				scs[i], kinds[i] = e.scenarioKill(r, false), "kill"
			}
		}
		c20Parallel(4, n, func(i int) { e.run(scs[i], kinds[i]) })
	}

	// ---- floor: what has this run actually exercised?  The instant of a kill is not under the harness's
	// control, so kills are topped up (large stores only, the window where partial files exist) before anything
	// is concluded; what still is missing then makes the run INCOMPLETE (the harness fails), never a pass.
	needDuring, needPartial := n/4, 5
	topUpUntil := time.Now().Add(20 * time.Second) // no new round after 20 s (a round of 20 kills takes a few seconds)
	for round := 0; round < 8 && time.Now().Before(topUpUntil) && (e.seen("kill:during-store") < needDuring || e.seen("kill:tmp-partial") < needPartial); round++ {
		m := 20
		scs := make([]*c20Scenario, m)
		for i := range scs {
			big := c20KOf(r, c20FlatLarge)
			ops := []c20Op{{Kind: "conf", K: big}, {Kind: "conf", K: c20KOf(r, c20Large)}, {Kind: "conf", K: big + c20nClasses*10}}
			sc := &c20Scenario{Job: c20Job{Ops: ops, Loop: true}, Init: c20SmallK(r), KillAtB: r.Intn(6)}
			sc.KillAfter = c20KillDelay(r, ops[0], false)
			if m := e.largeStoreMicros(); m > 0 && i%4 != 0 {
				sc.KillAfter = r.Intn(m + m/4 + 1) // anywhere in a store as long as stores take here and now
			}
			scs[i] = sc
		}
		c20Parallel(4, m, func(i int) { e.run(scs[i], "kill-top-up") })
	}
	var missing []string
	need := func(key string, min int, why string) {
		if got := e.seen(key); got < min {
			missing = append(missing, fmt.Sprintf("%s = %d < %d (%s)", key, got, min, why))
		}
	}
	if e.strace == "" {
		missing = append(missing, "strace not found: no system-call correspondence at all")
	} else {
		need("calls:open,write,close,rename", 10, "complete stores under strace")
		need("calls:open!", 1, "the temporary file cannot be created")
		need("calls:open,write,close,rename!", 1, "the rename fails")
		need("result:err:required_field", 1, "a configuration that does not marshal")
		if e.seen("skip:helper-fatal:seccomp") == 0 {
			need("calls:open,write,close!", 1, "close(2) of the temporary file fails")
		} else {
			out.Note("C20: seccomp filters are not available here: a failing close(2) was not injected")
		}
	}
	// where a kill lands is a matter of timing: the targets above are topped up for a bounded time; what makes the run
	// INCOMPLETE is only a kill mechanism that (almost) never lands inside a store
	need("kill:during-store", n/10, "kills that landed inside a store")
	need("kill:tmp-partial", 1, "kills that left a partially written temporary file")
	if e.seen("kill:during-store") < needDuring || e.seen("kill:tmp-partial") < needPartial {
		out.Note(fmt.Sprintf("C20: kill coverage below target after the bounded top-up (inside a store: %d, target %d; partial temporary files: %d, target %d): loaded machine", e.seen("kill:during-store"), needDuring, e.seen("kill:tmp-partial"), needPartial))
	}
	need("kill:file-is-new", 1, "kills after the rename")
	need("kill:file-is-old", 1, "kills before the rename")
	need("scenario:store-after-kill", n/20, "a fresh process storing after a kill")
	need("kill:two-processes", n/20, "two processes storing into one directory")
	need("result:err:file_too_large", 1, "RLIMIT_FSIZE")
	need("result:err:no_such_file", 1, "vanished directory")
	if os.Geteuid() == 0 {
		need("result:err:permission_denied", 1, "unwritable directory")
		if e.seen("skip:tmpfs-unavailable") == 0 {
			need("result:err:no_space_left", 1, "full file system")
			need("kill:store-failed-on-full-filesystem", 1, "kill on a full file system")
		} else {
			out.Note("C20: tmpfs cannot be mounted here: the full-file-system runs were skipped")
		}
	}
	if len(missing) > 0 {
		out.Note("C20 INCOMPLETE: " + strings.Join(missing, "; "))
		t.Fatalf("C20 harness incomplete (not a violation of the property): %s", strings.Join(missing, "; "))
	}
}

func c20Parallel(workers, n int, f func(i int)) {
	var wg sync.WaitGroup
	ch := make(chan int)
	for w := 0; w < workers; w++ {
		wg.Add(1)
		go func() {
			defer wg.Done()
			for i := range ch {
				f(i)
			}
		}()
	}
	for i := 0; i < n; i++ {
		ch <- i
	}
	close(ch)
	wg.Wait()
}

// c20Replay re-runs the scenario stored in a replay file (kill scenarios are repeated: the instant
// of a kill is not reproducible exactly).
func c20Replay(t *testing.T, e *c20Env, path string) {
	b, err := os.ReadFile(path)
	if err != nil {
		t.Fatal(err)
	}
	var lines []string
	for _, line := range strings.Split(string(b), "\n") {
		if i := strings.Index(line, "c20scenario "); i >= 0 {
			lines = append(lines, line[i+len("c20scenario "):])
		}
	}
	sort.Strings(lines)
	for _, l := range lines {
		if j := strings.LastIndex(l, "} op="); j >= 0 {
			l = l[:j+1]
		} else if j := strings.LastIndex(l, "} then-op="); j >= 0 {
			l = l[:j+1]
		}
		var sc c20Scenario
		if err := json.Unmarshal([]byte(l), &sc); err != nil {
			t.Logf("unreadable scenario: %v", err)
			continue
		}
		reps := 1
		if sc.Job.Loop {
			reps = 40
		}
		for i := 0; i < reps; i++ {
			c := sc
			c.Job.Ops = append([]c20Op(nil), sc.Job.Ops...)
			c.Then = append([]c20Op(nil), sc.Then...)
			c.Peer = append([]c20Op(nil), sc.Peer...)
			e.run(&c, "replay")
		}
		fmt.Println("REPLAY scenario:", l)
	}
}

// ---------------------------------------------------------------------------------------------
// mutual exclusion of the stores (run under the race detector by the plan's second harness entry)
//
// The model lets one store run at a time: `begin` while a store is pending is a no-op, which stands for the
// struct mutex every setter takes.  That assumption is tied here: all five setters and the locking getters are
// called concurrently on one instance under `go test -race`; while they run the file is read back all the time
// and must always be one complete configuration, and at the end it must be the configuration in memory.

func c20RaceConf(g int) *pb.ClientConf {
	gen := uint32(g)
	return &pb.ClientConf{Generation: &gen, DefaultPubkey: c20Key(g, 32), DecoyList: &pb.DecoyList{TlsDecoys: c20Decoys(g, 3)}}
}

func TestVerifC20Race(t *testing.T) {
	if os.Getenv("C20_JOB") != "" {
		return
	}
	out := vlib.Open("C20race")
	defer out.Close()
	log.SetOutput(io.Discard)
	dir, err := os.MkdirTemp("", "cjv-c20race-")
	if err != nil {
		t.Fatal(err)
	}
	defer os.RemoveAll(dir)
	first, _ := proto.Marshal(c20RaceConf(1))
	if err := os.WriteFile(filepath.Join(dir, "ClientConf"), first, 0o644); err != nil {
		t.Fatal(err)
	}
	a := &assets{path: dir, config: c20RaceConf(1), filenameClientConf: "ClientConf"}
	per := vlib.Budget(150, 1500)
	const writers = 4
	var failMu sync.Mutex
	failed := map[string]bool{}
	fail := func(sig, what, replay string) {
		failMu.Lock()
		defer failMu.Unlock()
		if !failed[sig] {
			failed[sig] = true
			out.OracleFail(sig, what, replay)
		}
	}
	// the file, read back all the time
	watch := func(stop chan struct{}, selfConsistent bool, phase string) chan int {
		res := make(chan int, 1)
		go func() {
			n := 0
			for {
				select {
				case <-stop:
					res <- n
					return
				default:
				}
				raw, err := os.ReadFile(filepath.Join(dir, "ClientConf"))
				if err != nil {
					fail("C20:target-missing", "concurrent stores: the ClientConf file cannot be read: "+err.Error(), "race phase="+phase)
					continue
				}
				c, perr := c20ParseBytes(raw)
				out.Checked()
				n++
				switch {
				case perr != nil:
					fail("C20:target-unparseable", fmt.Sprintf("concurrent stores: the ClientConf file (%d bytes) does not parse: %v", len(raw), perr), "race phase="+phase)
				case selfConsistent && !proto.Equal(c, c20RaceConf(int(c.GetGeneration()))):
					fail("C20:target-neither-old-nor-new", fmt.Sprintf("concurrent stores: the file carries generation %d but not that configuration's key and decoys: a mixture", c.GetGeneration()), "race phase="+phase)
				}
			}
		}()
		return res
	}
	getters := func(stop chan struct{}, wg *sync.WaitGroup) {
		defer wg.Done()
		probe := c20Decoys(7, 1)[0]
		for {
			select {
			case <-stop:
				return
			default:
			}
			_ = a.GetGeneration()
			_ = a.GetPubkey()
			_ = a.IsDecoyInList(probe)
			_ = a.GetPhantomSubnets()
			_ = a.GetDNSRegConf()
		}
	}
	run := func(phase string, selfConsistent bool, body func(w, j int) error) {
		stop := make(chan struct{})
		seen := watch(stop, selfConsistent, phase)
		var gw sync.WaitGroup
		gw.Add(1)
		go getters(stop, &gw)
		var wg sync.WaitGroup
		for w := 0; w < writers; w++ {
			wg.Add(1)
			go func(w int) {
				defer wg.Done()
				for j := 0; j < per; j++ {
					if err := body(w, j); err != nil {
						if c := c20ErrClass(err); c == "no space left" || c == "quota exceeded" {
							out.Count("skip:env-full")
							return
						}
						fail("C20:healthy-store-failed", fmt.Sprintf("concurrent stores, phase %s: a store failed in a healthy directory: %v", phase, err), "race phase="+phase)
						return
					}
				}
			}(w)
		}
		wg.Wait()
		close(stop)
		gw.Wait()
		out.Count(fmt.Sprintf("race:%s:file-read-back", phase))
		_ = <-seen
		// everybody is done: the file is the configuration in memory
		raw, _ := os.ReadFile(filepath.Join(dir, "ClientConf"))
		c, perr := c20ParseBytes(raw)
		out.Checked()
		if perr != nil || !proto.Equal(c, a.GetClientConfPtr()) {
			fail("C20:file-differs-from-memory-after-concurrent-stores", fmt.Sprintf("phase %s: after all concurrent setters returned (none failed) the file is not the configuration in memory (parse error: %v)", phase, perr), "race phase="+phase)
		}
	}
	// phase A: whole configurations only; every stored configuration is recognisable by its generation
	run("whole", true, func(w, j int) error { return a.SetClientConf(c20RaceConf(10 + w*per + j)) })
	// phase B: all five setters mixed
	run("mixed", false, func(w, j int) error {
		k := 100000 + w*per + j
		switch (w + j) % 5 {
		case 0:
			return a.SetGeneration(uint32(k))
		case 1:
			return a.SetPubkey(c20Key(k, 32))
		case 2:
			return a.SetDecoys(c20Decoys(k, 1+k%4))
		case 3:
			return a.SetPhantomSubnets(c20SubnetsList(k))
		}
		return a.SetClientConf(c20RaceConf(k))
	})
	out.Count("race:concurrent-setters-done")
}
