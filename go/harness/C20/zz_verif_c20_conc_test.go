//go:build verif

package assets

// C20, callers of one process at the same time (CJ.AssetsConc, line `conc|…`).
//
// One case = one round on the real singleton: memory and file start at generation 100; 2-5 goroutines make one call
// each — SetClientConf of a multi-megabyte configuration (a store the environment lets fail: a watcher unlinks every
// temporary file it sees grow past 64 KiB, so the final rename fails), SetClientConf of a small one, SetGeneration —
// and one or two readers call GetGeneration all the time.  The small callers start when the watcher has seen the
// big store's temporary file, i.e. while the big store is in its write phase.  Nothing in the judgement depends on
// timing: whatever the interleaving, the results observed (which calls failed), the generation in memory and in the
// file after all calls returned, and the values the readers saw go to the model, which answers whether some serial
// order of the calls explains them.
//
// Oracle (own bookkeeping, independent of the model): there is an order of the calls such that applying them one
// after the other (ok SetClientConf g: memory = file = g; failed: nothing; SetGeneration g: memory = g, file = g iff ok)
// to 100/100 gives the observed memory and file; no reader saw the generation of a SetClientConf that failed.

import (
	"encoding/json"
	"fmt"
	"io"
	"os"
	"path/filepath"
	"sort"
	"strings"
	"sync"
	"sync/atomic"
	"testing"
	"time"

	"github.com/refraction-networking/conjure/internal/vlib"
	"github.com/refraction-networking/conjure/pkg/station/log"
	pb "github.com/refraction-networking/conjure/proto"
	"google.golang.org/protobuf/proto"
)

type c20cCall struct {
	K   string // c = SetClientConf, g = SetGeneration
	Gen uint32
	Big bool // SetClientConf of a multi-megabyte configuration
}

type c20cCase struct {
	Calls   []c20cCall
	Readers int
}

func c20cConf(gen uint32, big bool) *pb.ClientConf {
	g := gen
	c := &pb.ClientConf{Generation: &g}
	if big {
		n := 60000
		ds := make([]*pb.TLSDecoySpec, n)
		for i := range ds {
			ds[i] = pb.InitTLSDecoySpec("192.0.2.1", fmt.Sprintf("decoy-%06d.some-long-host-name-to-make-the-file-large.example.com", i))
		}
		c.DecoyList = &pb.DecoyList{TlsDecoys: ds}
	}
	return c
}

func c20cFileGen(dir string) (uint32, error) {
	b, err := os.ReadFile(filepath.Join(dir, "ClientConf"))
	if err != nil {
		return 0, err
	}
	c := &pb.ClientConf{}
	if err := proto.Unmarshal(b, c); err != nil {
		return 0, err
	}
	return c.GetGeneration(), nil
}

// c20cSerial: is there an order of the calls that ends in mem/file?
func c20cSerial(calls []c20cCall, ok []bool, mem, file uint32) bool {
	n := len(calls)
	idx := make([]int, n)
	for i := range idx {
		idx[i] = i
	}
	var rec func(k int) bool
	rec = func(k int) bool {
		if k == n {
			m, f := uint32(100), uint32(100)
			for _, i := range idx {
				switch {
				case calls[i].K == "c" && ok[i]:
					m, f = calls[i].Gen, calls[i].Gen
				case calls[i].K == "g":
					m = calls[i].Gen
					if ok[i] {
						f = m
					}
				}
			}
			return m == mem && f == file
		}
		for j := k; j < n; j++ {
			idx[k], idx[j] = idx[j], idx[k]
			if rec(k + 1) {
				idx[k], idx[j] = idx[j], idx[k]
				return true
			}
			idx[k], idx[j] = idx[j], idx[k]
		}
		return false
	}
	return rec(0)
}

func c20cRound(out *vlib.Out, base string, no int, cs *c20cCase, replay string) {
	dir := filepath.Join(base, fmt.Sprintf("r%d", no))
	_ = os.MkdirAll(dir, 0o755)
	defer os.RemoveAll(dir)
	_ = initAssets(dir)
	a := assetsInstance
	if err := a.SetClientConf(c20cConf(100, false)); err != nil {
		out.Note("conc: initial store failed: " + err.Error())
		return
	}
	confs := make([]*pb.ClientConf, len(cs.Calls))
	anyBig := false
	for i, c := range cs.Calls {
		if c.K == "c" {
			confs[i] = c20cConf(c.Gen, c.Big)
		}
		anyBig = anyBig || c.Big
	}
	var stop atomic.Bool
	bigSeen := make(chan struct{})
	var once sync.Once
	var aux sync.WaitGroup
	// the environment: a temporary file that grows past 64 KiB disappears (its rename will fail)
	aux.Add(1)
	go func() {
		defer aux.Done()
		for !stop.Load() {
			es, _ := os.ReadDir(dir)
			for _, e := range es {
				if !strings.HasSuffix(e.Name(), ".tmp") {
					continue
				}
				if fi, err := e.Info(); err == nil && fi.Size() > 64<<10 {
					if os.Remove(filepath.Join(dir, e.Name())) == nil {
						once.Do(func() { close(bigSeen) })
					}
				}
			}
		}
	}()
	seen := make([]map[uint32]bool, cs.Readers)
	for r := 0; r < cs.Readers; r++ {
		seen[r] = map[uint32]bool{}
		aux.Add(1)
		go func(r int) {
			defer aux.Done()
			for !stop.Load() {
				seen[r][a.GetGeneration()] = true
			}
		}(r)
	}
	ok := make([]bool, len(cs.Calls))
	var wg sync.WaitGroup
	for i, c := range cs.Calls {
		wg.Add(1)
		go func(i int, c c20cCall) {
			defer wg.Done()
			if !c.Big && anyBig {
				select { // start inside the big store's write phase (or give up waiting: the big store may be over)
				case <-bigSeen:
				case <-time.After(300 * time.Millisecond):
				}
			}
			var err error
			if c.K == "c" {
				err = a.SetClientConf(confs[i])
			} else {
				err = a.SetGeneration(c.Gen)
			}
			ok[i] = err == nil
		}(i, c)
	}
	wg.Wait()
	stop.Store(true)
	aux.Wait()
	mem := a.GetGeneration()
	file, err := c20cFileGen(dir)
	if err != nil {
		out.OracleFail("conc-file-unreadable", "after concurrent stores the ClientConf file does not parse: "+err.Error(), replay)
		return
	}
	all := map[uint32]bool{}
	for _, s := range seen {
		for v := range s {
			all[v] = true
		}
	}
	var sv []int
	for v := range all {
		sv = append(sv, int(v))
	}
	sort.Ints(sv)
	var parts []string
	nfail := 0
	for i, c := range cs.Calls {
		parts = append(parts, fmt.Sprintf("%s:%d:%s", c.K, c.Gen, vlib.B(ok[i])))
		if !ok[i] {
			nfail++
		}
		out.Count("conc-call:" + c.K + map[bool]string{true: "-big", false: ""}[c.Big] + map[bool]string{true: "-ok", false: "-failed"}[ok[i]])
	}
	seenS := "-"
	if len(sv) > 0 {
		var ss []string
		for _, v := range sv {
			ss = append(ss, fmt.Sprint(v))
		}
		seenS = strings.Join(ss, ",")
	}
	out.Count(fmt.Sprintf("conc-failed-stores:%d", nfail))
	out.Count(fmt.Sprintf("conc-reader-values:%d", len(sv)))
	// oracle
	out.Checked()
	if !c20cSerial(cs.Calls, ok, mem, file) {
		out.OracleFail("conc-not-serial", fmt.Sprintf("calls %s ran at the same time and left generation %d in memory, %d in the file: no order of the calls ends there (a store that failed rolled back over a later one?)", strings.Join(parts, ";"), mem, file), replay)
	}
	for i, c := range cs.Calls {
		if c.K == "c" && !ok[i] && all[c.Gen] {
			out.OracleFail("conc-reader-saw-rolled-back", fmt.Sprintf("a reader saw generation %d, the configuration of a SetClientConf that failed and was rolled back", c.Gen), replay)
		}
	}
	line := fmt.Sprintf("conc|100|%s|%d,%d|%s", strings.Join(parts, ";"), mem, file, seenS)
	out.Case(line, "serial readers-ok", nfail > 0 || len(sv) > 1)
}

func c20cGen(r *vlib.Rand) *c20cCase {
	cs := &c20cCase{Readers: r.Range(1, 2)}
	n := r.Range(2, 5)
	g := uint32(200)
	for i := 0; i < n; i++ {
		g += uint32(r.Range(1, 40))
		switch {
		case i == 0 && r.Chance(5, 6):
			cs.Calls = append(cs.Calls, c20cCall{K: "c", Gen: g, Big: true})
		case r.Chance(1, 2):
			cs.Calls = append(cs.Calls, c20cCall{K: "c", Gen: g})
		default:
			cs.Calls = append(cs.Calls, c20cCall{K: "g", Gen: g})
		}
	}
	return cs
}

func TestVerifC20Conc(t *testing.T) {
	out := vlib.Open("C20C")
	defer out.Close()
	log.SetOutput(io.Discard)
	base, err := os.MkdirTemp("", "cjv-c20c-")
	if err != nil {
		t.Fatal(err)
	}
	defer os.RemoveAll(base)
	assetsOnce.Do(func() {})
	no := 0
	runCase := func(cs *c20cCase) {
		b, _ := json.Marshal(cs)
		no++
		c20cRound(out, base, no, cs, "c20conc "+string(b))
	}
	if rp := vlib.Replay(); rp != "" {
		b, _ := os.ReadFile(rp)
		for _, line := range strings.Split(string(b), "\n") {
			if i := strings.Index(line, "c20conc "); i >= 0 {
				var cs c20cCase
				if json.Unmarshal([]byte(line[i+len("c20conc "):]), &cs) == nil {
					for k := 0; k < 20; k++ { // the outcome depends on the schedule: several rounds
						runCase(&cs)
					}
					fmt.Println("REPLAY round:", line[i:])
				}
			}
		}
		return
	}
	corpus := []*c20cCase{
		{Readers: 1, Calls: []c20cCall{{K: "c", Gen: 200, Big: true}, {K: "c", Gen: 300}}},
		{Readers: 2, Calls: []c20cCall{{K: "c", Gen: 200, Big: true}, {K: "g", Gen: 300}}},
		{Readers: 1, Calls: []c20cCall{{K: "c", Gen: 200, Big: true}, {K: "c", Gen: 300}, {K: "g", Gen: 310}, {K: "c", Gen: 320}}},
		{Readers: 2, Calls: []c20cCall{{K: "c", Gen: 210}, {K: "g", Gen: 220}, {K: "c", Gen: 230}}},
	}
	for k := 0; k < 3; k++ {
		for _, cs := range corpus {
			runCase(cs)
		}
	}
	n := vlib.Budget(40, 300)
	for i := 0; i < n; i++ {
		runCase(c20cGen(vlib.NewRand(fmt.Sprintf("C20C-%d", i))))
	}
}
