//go:build verif

package lib

// C09, the ZMQ front: the real proxyZMQ and RunZMQ on real libzmq sockets (ipc://@… abstract names, in-process)
// against CJ/Model/ZmqMerge.lean (driver lines `zmqmerge|<nsources>|<events>` and `zmqrun|<cap>|<events>`).
//
// A scenario starts harness-owned PUB sockets (the sources), one ZMQIngester whose proxyZMQ connects to them and
// whose RunZMQ subscribes to the proxy's own PUB socket, and a regChan the harness owns.  PUB/SUB loses frames until
// the subscriptions have propagated, so every source is warmed up with numbered frames until one comes out of
// regChan, then fenced (a fence frame that has come out proves that nothing older of that source is in flight: the
// path keeps per-source order); the counters are zeroed and the script starts.  Nothing is time-sensitive: waits are
// for an exact count / a fence with a 10 s watchdog, and failures are about content.
// proxyZMQ has no shutdown path: its goroutines and sockets stay until the test process ends.

import (
	"context"
	"fmt"
	"io"
	"os"
	"strconv"
	"strings"
	"sync"
	"sync/atomic"
	"testing"
	"time"

	zmq "github.com/pebbe/zmq4"

	"github.com/refraction-networking/conjure/internal/vlib"
	"github.com/refraction-networking/conjure/pkg/station/log"
)

var c09ZmqSeq int64

const c09ZmqWatchdog = 10 * time.Second

type c09ZmqScn struct {
	zi      *ZMQIngester
	ch      chan interface{}
	pubs    []*zmq.Socket
	cancel  context.CancelFunc
	done    chan struct{}
	fenceNo int
}

// frames: "W<src>.<k>" warm-up, "F<src>.<k>" fence, "D<src>.<seq>" data
func c09ZmqFrame(kind byte, src, k int) []byte { return []byte(fmt.Sprintf("%c%d.%d", kind, src, k)) }

func c09ZmqParse(m interface{}) (kind byte, src, k int, ok bool) {
	b, isb := m.([]byte)
	if !isb || len(b) < 4 {
		return 0, 0, 0, false
	}
	parts := strings.Split(string(b[1:]), ".")
	if len(parts) != 2 {
		return 0, 0, 0, false
	}
	s, e1 := strconv.Atoi(parts[0])
	n, e2 := strconv.Atoi(parts[1])
	if e1 != nil || e2 != nil || (b[0] != 'W' && b[0] != 'F' && b[0] != 'D') {
		return 0, 0, 0, false
	}
	return b[0], s, n, true
}

func c09ZmqStart(nsrc, capacity int) (*c09ZmqScn, error) {
	id := atomic.AddInt64(&c09ZmqSeq, 1)
	base := fmt.Sprintf("verif-c09zmq-%d-%d", os.Getpid(), id)
	conf := &ZMQConfig{SocketName: base + "-proxy", HeartbeatInterval: 30000, HeartbeatTimeout: 30000}
	s := &c09ZmqScn{ch: make(chan interface{}, capacity), done: make(chan struct{})}
	for k := 0; k < nsrc; k++ {
		addr := fmt.Sprintf("ipc://@%s-src-%d", base, k)
		p, err := zmq.NewSocket(zmq.PUB)
		if err != nil {
			return nil, err
		}
		if err := p.Bind(addr); err != nil {
			return nil, err
		}
		s.pubs = append(s.pubs, p)
		conf.ConnectSockets = append(conf.ConnectSockets, socketConfig{Address: addr, AuthenticationType: "NULL"})
	}
	s.zi = &ZMQIngester{ZMQConfig: conf, logger: log.New(io.Discard, "", 0), regChan: s.ch,
		connectAddr: "ipc://@" + conf.SocketName, epochStart: time.Now()}
	ctx, cancel := context.WithCancel(context.Background())
	s.cancel = cancel
	go func() { s.zi.RunZMQ(ctx); close(s.done) }()
	// warm-up + fence, source by source
	deadline := time.Now().Add(c09ZmqWatchdog)
	for k := 0; k < nsrc; k++ {
		seen := false
		for w := 0; !seen; w++ {
			if time.Now().After(deadline) {
				return nil, fmt.Errorf("warm-up: nothing from source %d came out", k)
			}
			if _, err := s.pubs[k].SendBytes(c09ZmqFrame('W', k, w), 0); err != nil {
				return nil, err
			}
			select {
			case m := <-s.ch:
				if _, src, _, ok := c09ZmqParse(m); ok && src == k {
					seen = true
				}
			case <-time.After(20 * time.Millisecond):
			}
		}
		if _, err := s.fence(k, nil); err != nil {
			return nil, err
		}
	}
	s.zi.Reset()
	atomic.StoreInt64(&s.zi.totalDroppedZMQMessages, 0)
	return s, nil
}

// fence sends fence frames on source k until one comes out; everything else that comes out meanwhile goes to sink.
func (s *c09ZmqScn) fence(k int, sink func(interface{})) (int, error) {
	deadline := time.Now().Add(c09ZmqWatchdog)
	for {
		s.fenceNo++
		no := s.fenceNo
		if _, err := s.pubs[k].SendBytes(c09ZmqFrame('F', k, no), 0); err != nil {
			return 0, err
		}
		retry := time.After(500 * time.Millisecond)
	wait:
		for {
			select {
			case m := <-s.ch:
				if kind, src, n, ok := c09ZmqParse(m); ok && kind == 'F' && src == k {
					if n == no {
						return no, nil
					}
					continue // an older fence of ours
				}
				if kind, _, _, ok := c09ZmqParse(m); ok && kind == 'W' {
					continue
				}
				if sink != nil {
					sink(m)
				}
			case <-retry:
				break wait
			}
		}
		if time.Now().After(deadline) {
			return 0, fmt.Errorf("fence of source %d never came out", k)
		}
	}
}

type c09ZmqSend struct{ src, seq int }

// c09ZmqMerge: nsrc sources, a regChan nobody fills up; sequential (one frame in flight) or burst (every source sends
// its frames from its own goroutine).  Returns false when an oracle failed.
func c09ZmqMerge(out *vlib.Out, nsrc int, script []c09ZmqSend, burst bool) bool {
	s, err := c09ZmqStart(nsrc, 4096)
	if err != nil {
		out.Note("zmq scenario could not start: " + err.Error())
		out.Count("zmq:start-failed")
		return true
	}
	replay := fmt.Sprintf("zmq-merge nsrc=%d burst=%v script=%v", nsrc, burst, script)
	var got []interface{}
	okAll := true
	fail := func(sig, what string) { out.OracleFail(sig, what, replay); okAll = false }
	var evs []string
	if burst {
		var wg sync.WaitGroup
		per := make([][]c09ZmqSend, nsrc)
		for _, f := range script {
			per[f.src] = append(per[f.src], f)
			evs = append(evs, fmt.Sprintf("a%d.%d", f.src, f.seq))
		}
		for k := 0; k < nsrc; k++ {
			wg.Add(1)
			go func(k int) {
				defer wg.Done()
				for _, f := range per[k] {
					s.pubs[k].SendBytes(c09ZmqFrame('D', f.src, f.seq), 0)
				}
			}(k)
		}
		wg.Wait()
	} else {
		for _, f := range script {
			s.pubs[f.src].SendBytes(c09ZmqFrame('D', f.src, f.seq), 0)
			evs = append(evs, fmt.Sprintf("a%d.%d", f.src, f.seq))
			select {
			case m := <-s.ch:
				got = append(got, m)
			case <-time.After(c09ZmqWatchdog):
				fail("C09:zmq-frame-lost", fmt.Sprintf("frame %d.%d sent alone never came out", f.src, f.seq))
			}
			if !okAll {
				return false
			}
		}
	}
	// a fence per source: once it is out, every older frame of that source must be out
	for k := 0; k < nsrc; k++ {
		if _, err := s.fence(k, func(m interface{}) { got = append(got, m) }); err != nil {
			fail("C09:zmq-frame-lost", err.Error())
			return false
		}
	}
	// oracles, ground truth = script
	sent := map[c09ZmqSend]int{}
	for _, f := range script {
		sent[f]++
	}
	seen := map[c09ZmqSend]int{}
	last := map[int]int{}
	var outs []string
	for _, m := range got {
		kind, src, seq, ok := c09ZmqParse(m)
		if !ok || kind != 'D' || sent[c09ZmqSend{src, seq}] == 0 {
			fail("C09:zmq-frame-invented", fmt.Sprintf("a frame came out that no source sent: %q", m))
			outs = append(outs, "?")
			continue
		}
		f := c09ZmqSend{src, seq}
		seen[f]++
		if seen[f] > sent[f] {
			fail("C09:zmq-frame-duplicated", fmt.Sprintf("frame %d.%d came out %d times", src, seq, seen[f]))
		} else if seq <= last[src] {
			fail("C09:zmq-source-reordered", fmt.Sprintf("source %d: frame %d came out after frame %d", src, seq, last[src]))
		}
		if seq > last[src] {
			last[src] = seq
		}
		outs = append(outs, fmt.Sprintf("%d.%d", src, seq))
		evs = append(evs, fmt.Sprintf("r%d", src), fmt.Sprintf("f%d", src))
	}
	for _, f := range script {
		if seen[f] == 0 {
			fail("C09:zmq-frame-lost", fmt.Sprintf("frame %d.%d never came out although its source's fence did", f.src, f.seq))
			break
		}
	}
	if d := atomic.LoadInt64(&s.zi.totalDroppedZMQMessages); d != 0 {
		fail("C09:zmq-dropped-with-room", fmt.Sprintf("%d drops counted with a regChan of 4096 that was being drained", d))
	}
	out.Checked()
	out.Case(fmt.Sprintf("zmqmerge|%d|%s", nsrc, strings.Join(evs, ",")),
		fmt.Sprintf("out=%s;pending=%d", strings.Join(outs, "+"), len(script)-len(outs)), true)
	s.stop()
	return okAll
}

// stop: cancel and feed frames until RunZMQ returns (it looks at the context only after a frame).
func (s *c09ZmqScn) stop() bool {
	s.cancel()
	for i := 0; i < 200; i++ {
		s.pubs[0].SendBytes(c09ZmqFrame('W', 0, 1000000+i), 0)
		select {
		case <-s.done:
			return true
		case <-time.After(10 * time.Millisecond):
		}
		for len(s.ch) > cap(s.ch)/2 {
			<-s.ch
		}
	}
	return false
}

// c09ZmqRun: one source, regChan of capacity c; events v (a frame), t (consumer takes one), c (cancel), p (PrintAndReset).
func c09ZmqRun(out *vlib.Out, capacity int, script string) bool {
	s, err := c09ZmqStart(1, capacity)
	if err != nil {
		out.Note("zmq scenario could not start: " + err.Error())
		out.Count("zmq:start-failed")
		return true
	}
	replay := fmt.Sprintf("zmq-run cap=%d script=%s", capacity, script)
	okAll := true
	fail := func(sig, what string) { out.OracleFail(sig, what, replay); okAll = false }
	lg := log.New(io.Discard, "", 0)
	// ground truth
	var gtChan, gtTaken []int
	gtM, gtD, gtT, sentN := 0, 0, 0, 0
	cancelled, returned := false, false
	var taken []int
	var evs, sums []string
	isDone := func() bool {
		select {
		case <-s.done:
			return true
		default:
			return false
		}
	}
	for _, e := range script {
		ev := string(e)
		switch e {
		case 'v':
			sentN++
			s.pubs[0].SendBytes(c09ZmqFrame('D', 0, sentN), 0)
			if returned {
				ev = fmt.Sprintf("v%d", sentN)
				break
			}
			// wait until the loop has disposed of the frame: delivered, dropped or returned
			before := len(gtChan)
			beforeT := int64(gtT)
			deadline := time.Now().Add(c09ZmqWatchdog)
			disposed := ""
			counted := false
			for disposed == "" {
				switch {
				case isDone():
					disposed = "ret"
				case len(s.ch) > before:
					disposed = "sent"
				case atomic.LoadInt64(&s.zi.totalDroppedZMQMessages) > beforeT:
					disposed = "drop"
				case time.Now().After(deadline):
					disposed = "stuck"
				default:
					if !counted && atomic.LoadInt64(&s.zi.zmqMessages) > int64(gtM) {
						// the loop has the frame: what follows is one select, 2 s are ample
						counted = true
						if d2 := time.Now().Add(2 * time.Second); d2.Before(deadline) {
							deadline = d2
						}
					}
					time.Sleep(200 * time.Microsecond)
				}
			}
			room := len(gtChan) < capacity
			ev = fmt.Sprintf("v%d", sentN)
			switch disposed {
			case "stuck":
				if counted && room {
					fail("C09:zmq-frame-lost", fmt.Sprintf("frame %d was received by the loop and neither delivered nor counted as dropped, with room (%d/%d)", sentN, len(gtChan), capacity))
					return false
				}
				if counted && !cancelled && len(s.ch) == capacity {
					// regChan full and the loop went on (or is parked in a send): told apart by one take
					fail("C09:zmq-miscounted", fmt.Sprintf("frame %d met a full regChan (%d/%d) and no drop was counted", sentN, len(gtChan), capacity))
					return false
				}
				if !counted {
					fail("C09:zmq-frame-lost", fmt.Sprintf("frame %d never reached the receive loop", sentN))
					return false
				}
				fail("C09:zmq-receiver-blocked", fmt.Sprintf("frame %d was neither delivered nor dropped (occupancy %d/%d, cancelled=%v)", sentN, len(gtChan), capacity, cancelled))
				return false
			case "sent":
				gtM++
				if !room {
					fail("C09:zmq-miscounted", "regChan grew beyond its capacity")
				}
				gtChan = append(gtChan, sentN)
			case "drop":
				gtM++
				gtD++
				gtT++
				if room {
					fail("C09:zmq-dropped-with-room", fmt.Sprintf("frame %d dropped with %d/%d in regChan", sentN, len(gtChan), capacity))
				} else if cancelled {
					fail("C09:zmq-no-return-after-cancel", fmt.Sprintf("frame %d after the cancellation was dropped instead of ending the loop", sentN))
				}
			case "ret":
				gtM++
				returned = true
				if !cancelled {
					fail("C09:zmq-returned-uncancelled", "RunZMQ returned without a cancellation")
				}
				if room {
					ev = fmt.Sprintf("V%d", sentN) // Go picked Done although the send was ready
				}
			}
		case 't':
			select {
			case m := <-s.ch:
				_, _, seq, _ := c09ZmqParse(m)
				taken = append(taken, seq)
				if len(gtChan) == 0 || gtChan[0] != seq {
					fail("C09:zmq-source-reordered", fmt.Sprintf("consumer got frame %d, expected head of %v", seq, gtChan))
				}
				if len(gtChan) > 0 {
					gtTaken = append(gtTaken, gtChan[0])
					gtChan = gtChan[1:]
				}
			default:
				if len(gtChan) != 0 {
					fail("C09:zmq-frame-lost", fmt.Sprintf("regChan empty, expected %v", gtChan))
					gtChan = nil
				}
			}
		case 'c':
			s.cancel()
			cancelled = true
			// the loop must NOT return on the cancellation alone (it is parked in RecvBytes); not an oracle on time:
			// the model line says ret=0 here and the summary below reads `done` after a short settle
			time.Sleep(2 * time.Millisecond)
		case 'p':
			s.zi.PrintAndReset(lg)
			gtM, gtD = 0, 0
		}
		m := atomic.LoadInt64(&s.zi.zmqMessages)
		d := atomic.LoadInt64(&s.zi.droppedZMQMessages)
		T := atomic.LoadInt64(&s.zi.totalDroppedZMQMessages)
		if m != int64(gtM) || d != int64(gtD) || T != int64(gtT) {
			sig := "C09:zmq-miscounted"
			if e == 'p' {
				sig = "C09:zmq-reset-wrong"
			}
			fail(sig, fmt.Sprintf("after %q: counters zmqMessages=%d dropped=%d total=%d, the harness counted %d %d %d", ev, m, d, T, gtM, gtD, gtT))
		}
		out.Checked()
		evs = append(evs, ev)
		sums = append(sums, fmt.Sprintf("n=%d,m=%d,d=%d,T=%d,ret=%s", len(s.ch), m, d, T, vlib.B(isDone())))
		if !okAll {
			return false
		}
	}
	var rest []int
	for len(s.ch) > 0 {
		_, _, seq, _ := c09ZmqParse(<-s.ch)
		rest = append(rest, seq)
	}
	if fmt.Sprint(rest) != fmt.Sprint(gtChan) {
		fail("C09:zmq-frame-lost", fmt.Sprintf("regChan holds %v at the end, the harness expected %v", rest, gtChan))
	}
	join := func(l []int) string {
		var x []string
		for _, v := range l {
			x = append(x, strconv.Itoa(v))
		}
		return strings.Join(x, "+")
	}
	out.Case(fmt.Sprintf("zmqrun|%d|%s", capacity, strings.Join(evs, ",")),
		fmt.Sprintf("%s|taken=%s|rest=%s", strings.Join(sums, ";"), join(taken), join(rest)), true)
	if !returned {
		if !s.stop() {
			fail("C09:zmq-no-return-after-cancel", "RunZMQ did not return after cancel and 200 further frames")
		}
	}
	return okAll
}

// c09Zmq: corpus, then random scripts.  Called from TestVerifC09.
func c09Zmq(t *testing.T, out *vlib.Out, r *vlib.Rand) {
	if rp := vlib.Replay(); rp != "" {
		b, _ := os.ReadFile(rp)
		if !strings.Contains(string(b), "zmq-") {
			return
		}
	}
	bad := 0
	note := func(ok bool) {
		if !ok {
			bad++
		}
	}
	seqScript := func(nsrc, n int, rr *vlib.Rand) []c09ZmqSend {
		next := make([]int, nsrc)
		var sc []c09ZmqSend
		for i := 0; i < n; i++ {
			k := i % nsrc
			if rr != nil {
				k = rr.Intn(nsrc)
			}
			next[k]++
			sc = append(sc, c09ZmqSend{k, next[k]})
		}
		return sc
	}
	// corpus
	note(c09ZmqMerge(out, 1, seqScript(1, 5, nil), false))
	note(c09ZmqMerge(out, 3, seqScript(3, 9, nil), false))
	note(c09ZmqMerge(out, 3, seqScript(3, 60, nil), true))
	out.Count("zmq:merge-corpus")
	for _, c := range []struct {
		c int
		s string
	}{
		{2, "vvvvv"},         // exactly 2 of 5 delivered, 3 dropped
		{1, "vvtvvpvtv"},     // room again after a take; reset keeps the total
		{3, "vpvvvvptttvcv"}, // cancel with room: either ready case
		{1, "vcvv"},          // cancel with a full channel: the next frame ends the loop
		{2, "cpt"},           // cancellation alone does not end the loop
	} {
		out.Count("zmq:run-corpus")
		note(c09ZmqRun(out, c.c, c.s))
	}
	n := vlib.Budget(6, 60)
	for i := 0; i < n && bad < 3; i++ {
		if r.Chance(1, 2) {
			nsrc := r.Range(1, 4)
			burst := r.Bool()
			cnt := r.Range(1, 12)
			if burst {
				cnt = r.Range(10, 120)
			}
			out.Count(fmt.Sprintf("zmq:merge:nsrc=%d:burst=%v", nsrc, burst))
			note(c09ZmqMerge(out, nsrc, seqScript(nsrc, cnt, r), burst))
		} else {
			capacity := r.Range(1, 4)
			var sb strings.Builder
			L := r.Range(3, 14)
			for j := 0; j < L; j++ {
				switch x := r.Intn(10); {
				case x < 6:
					sb.WriteByte('v')
				case x < 8:
					sb.WriteByte('t')
				case x < 9:
					sb.WriteByte('p')
				default:
					sb.WriteByte('c')
				}
			}
			out.Count(fmt.Sprintf("zmq:run:cap=%d", capacity))
			note(c09ZmqRun(out, capacity, sb.String()))
		}
	}
}

func TestVerifC09Zmq(t *testing.T) {
	out := vlib.Open("C09")
	defer out.Close()
	c09Zmq(t, out, vlib.NewRand("C09zmq"))
}
