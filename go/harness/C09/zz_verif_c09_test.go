//go:build verif

package lib

// C09: (1) every schedule of small scenarios on the REAL ingestRegistration / removeOldRegistrations /
// lookup+MarkActive, driven through the verifhook.Yield points by a controlled scheduler; the same
// schedule goes to the Lean model (`conc|…` lines). (2) overload / shutdown of the real
// HandleRegUpdates pipeline. (3) (separate test, -race) randomised stress.

import (
	"context"
	"fmt"
	"io"
	golog "log"
	"net"
	"os"
	"runtime"
	"sort"
	"strings"
	"sync"
	"sync/atomic"
	"testing"
	"time"

	"github.com/refraction-networking/conjure/internal/verifhook"
	"github.com/refraction-networking/conjure/internal/vlib"
	"github.com/refraction-networking/conjure/pkg/core"
	"github.com/refraction-networking/conjure/pkg/phantoms"
	"github.com/refraction-networking/conjure/pkg/station/geoip"
	"github.com/refraction-networking/conjure/pkg/station/liveness"
	"github.com/refraction-networking/conjure/pkg/station/log"
	"github.com/refraction-networking/conjure/pkg/transports/wrapping/min"
	"github.com/refraction-networking/conjure/pkg/transports/wrapping/prefix"
	pb "github.com/refraction-networking/conjure/proto"
	"google.golang.org/protobuf/proto"
)

// ------------------------------------------------------------------------------------------
// vocabulary shared with the sequential registry harness (C08), kept here so that this harness does not
// depend on the white-box calls of that one (a change to a function only C08 calls must not stop C09's
// harness from compiling)

// c09Op: one serial set-up operation: 'r' register, 't' track, 'm' markActive, at virtual second `now`.
type c09Op struct {
	kind        byte
	ph, sec, tr int
	now         int64
}

// The code reads the real clock: the age it sees is the virtual age plus the real time the run has taken.
// A run slower than this limit is not compared (its dumped creation times are not exact).
const c09SlowLimit = 900 * time.Millisecond

// the property's two lifetimes, in seconds
const c09Unused, c09Active = 600, 21600

var c09Phantoms = []string{"10.0.0.1", "10.0.0.2", "2001:db8::1"}

func c09Secret(i int) []byte {
	s := make([]byte, 32)
	for j := range s {
		s[j] = byte(i*37 + j)
	}
	return s
}

// ------------------------------------------------------------------------------------------
// liveness stub: answers per phantom, with a scheduling point while "probing"

type c09Live struct {
	live   map[string]bool
	probes int64
	gate   chan struct{} // when non-nil PhantomIsLive blocks until it is closed (pipeline tests)
	done   int64
	// the probe takes this long (race stress): the steps of an ingest behind the probe — share decision,
	// phantom blocklist, validation — then start at a moment that is unrelated to the worker's last
	// acquisition of any lock; time.Sleep orders nothing for the race detector
	pause time.Duration
}

func (l *c09Live) PhantomIsLive(addr string, port uint16) (bool, error) {
	atomic.AddInt64(&l.probes, 1)
	verifhook.Yield("ingest:probe")
	if l.gate != nil {
		<-l.gate
	}
	if l.pause > 0 {
		time.Sleep(l.pause)
	}
	atomic.AddInt64(&l.done, 1)
	return l.live[addr], nil
}
func (l *c09Live) PrintAndReset(*log.Logger) {}
func (l *c09Live) PrintStats(*log.Logger)    {}
func (l *c09Live) Reset()                    {}

func c09Reload(rm *RegistrationManager, conf *RegConfig) { rm.OnReload(conf) }

func c09Manager(lv *c09Live) *RegistrationManager {
	os.Setenv("PHANTOM_SUBNET_LOCATION", "./test/phantom_subnets.toml")
	conf := &RegConfig{EnableIPv4: true, EnableIPv6: true}
	conf.ParseBlocklists()
	sel, err := phantoms.NewPhantomIPSelector()
	if err != nil {
		panic(err)
	}
	gdb, _ := geoip.New(nil)
	rm := &RegistrationManager{
		PhantomSelector:   sel,
		GeoIP:             gdb,
		RegConfig:         conf,
		RegistrationStats: newRegistrationStats(),
		Logger:            log.New(io.Discard, "", golog.Ldate),
		registeredDecoys:  NewRegisteredDecoys(),
		LivenessTester:    lv,
	}
	rm.registeredDecoys.transports[pb.TransportType_Min] = min.Transport{}
	rm.registeredDecoys.transports[pb.TransportType_Prefix] = prefix.Transport{}
	return rm
}

// ------------------------------------------------------------------------------------------
// controlled scheduler

type c09Ev struct {
	id   int
	done bool
	pan  interface{}
}

type c09Sched struct {
	grant []chan struct{}
	ev    chan c09Ev
	cur   int
}

func (s *c09Sched) yield(point string) {
	id := s.cur
	s.ev <- c09Ev{id: id}
	<-s.grant[id]
}

func (s *c09Sched) spawn(i int, body func()) {
	go func() {
		<-s.grant[i]
		defer func() {
			if r := recover(); r != nil {
				s.ev <- c09Ev{id: i, done: true, pan: r}
				return
			}
			s.ev <- c09Ev{id: i, done: true}
		}()
		body()
	}()
}

// step runs thread i until its next scheduling point. ok=false: it did not come back (blocked).
func (s *c09Sched) step(i int) (e c09Ev, ok bool) {
	s.cur = i
	s.grant[i] <- struct{}{}
	select {
	case e = <-s.ev:
		return e, true
	case <-time.After(10 * time.Second):
		return c09Ev{id: i}, false
	}
}

// ------------------------------------------------------------------------------------------
// scenarios

type c09Thread struct {
	kind            byte // 'i' ingest, 's' sweeper, 'h' handler, 'c' configuration reload (blocklists the workers' covert address)
	ph, sec, tr     int
	cov, probe, liv bool
	now             int64
}

type c09Scenario struct {
	name   string
	budget int     // schedules to run (0: the tier's limit); set where Go's map order makes the schedule tree vary from run to run
	pre    []c09Op // serial set-up (uses the C08 op vocabulary); times are virtual seconds
	now    int64   // virtual "now" at which the concurrent part runs
	ths    []c09Thread
}

type c09Result struct {
	model, impl string
	choices     [][]int // runnable sets at each step (for the DFS)
	slow        bool    // the run took longer than c09SlowLimit: its dumped creation times are not reliable
	blocked     bool    // a thread did not come back from a step (deadlock): reported, the run is not compared
}

// c09Case records a run as a correspondence case unless it was too slow for its dump to be exact.
func c09Case(out *vlib.Out, res c09Result) {
	if res.slow {
		out.Count("discarded:slow-run")
		return
	}
	out.Case(res.model, res.impl, true)
}

var c09Trs = []pb.TransportType{pb.TransportType_Min, pb.TransportType_Prefix}

func c09Reg(ph, sec, tr int, prescanned bool, covert string) *DecoyRegistration {
	src := pb.RegistrationSource_API
	d := &DecoyRegistration{
		PhantomIp:          net.ParseIP(c09Phantoms[ph]),
		PhantomPort:        443,
		Keys:               &core.ConjureSharedKeys{SharedSecret: c09Secret(sec)},
		Transport:          c09Trs[tr],
		RegistrationSource: &src,
		Covert:             covert,
		Flags:              &pb.RegistrationFlags{Prescanned: &prescanned},
	}
	return d
}

// runC09 executes one schedule prefix (continuing with the lowest runnable thread) on the real code.
func runC09(out *vlib.Out, sc *c09Scenario, prefixSched []int) c09Result {
	t0 := time.Now()
	lv := &c09Live{live: map[string]bool{}}
	rm := c09Manager(lv)
	rd := rm.registeredDecoys
	var events []string
	var evmu sync.Mutex
	addEv := func(s string) { evmu.Lock(); events = append(events, s); evmu.Unlock() }
	keyOf := func(d *DecoyRegistration) string {
		return d.PhantomIp.String() + "," + vlib.Hex([]byte(rd.transports[d.Transport].GetIdentifier(d)))
	}
	// A detector announcement is decided inside a critical section of the registry mutex. If the mutex
	// is NOT held while the announcement is made (under the controlled scheduler exactly one goroutine
	// runs, so TryLock succeeds iff the announcing goroutine itself holds neither lock mode), the
	// critical section has been left in between: that is a point at which the real scheduler can switch,
	// so the controlled one gets a scheduling point there and explores what other threads do in the window.
	outsideLock := func(point string) {
		if rd.m.TryLock() {
			rd.m.Unlock()
			verifhook.Yield(point)
		}
	}
	rd.registerForDetector = func(d *DecoyRegistration) { addEv("new " + keyOf(d)); outsideLock("announce:new") }
	rd.updateInDetector = func(d *DecoyRegistration) { addEv("upd " + keyOf(d)); outsideLock("announce:upd") }

	// ---- serial set-up through the same entry points; the virtual clock ages the records by relative
	// shifts of their real timestamps, so whatever the code writes into them is preserved
	vnow := int64(0)
	advance := func(now int64) {
		if d := now - vnow; d > 0 {
			for _, to := range rd.decoysTimeouts {
				to.registrationTime = to.registrationTime.Add(-time.Duration(d) * time.Second)
			}
			vnow = now
		}
	}
	var mpre []string
	for _, op := range sc.pre {
		advance(op.now)
		d := c09Reg(op.ph, op.sec, op.tr, true, "1.2.3.4:443")
		id := vlib.Hex([]byte(rd.transports[d.Transport].GetIdentifier(d)))
		phs := c09Phantoms[op.ph]
		switch op.kind {
		case 'r':
			_ = rd.register(phs, d)
			mpre = append(mpre, fmt.Sprintf("r,%s,%s,%d,%d", phs, id, int(d.Transport), op.now))
		case 't':
			_ = rd.Track(d)
			mpre = append(mpre, fmt.Sprintf("t,%s,%s,%d,%d", phs, id, int(d.Transport), op.now))
		case 'm':
			rd.markActive(d)
			mpre = append(mpre, fmt.Sprintf("m,%s,%s,%d", phs, id, int(d.Transport)))
		}
	}
	events = nil
	advance(sc.now)

	// ---- ground truth for the oracles
	validated := map[string]bool{} // keys whose validation step has run (or valid from set-up)
	announced := map[string]bool{} // announced as new and not removed since
	tracks := map[string]int{}     // track calls in the current lifetime
	for ph, m := range rd.decoys {
		for id, r := range m {
			k := ph + "," + vlib.Hex([]byte(id))
			validated[k] = r.Valid
			announced[k] = r.Valid
			tracks[k] = int(r.regCount)
		}
	}
	snapshot := func() map[string]bool {
		m := map[string]bool{}
		for ph, mm := range rd.decoys {
			for id, r := range mm {
				m[ph+","+vlib.Hex([]byte(id))] = r.Valid
			}
		}
		return m
	}

	// ---- threads
	n := len(sc.ths)
	s := &c09Sched{grant: make([]chan struct{}, n), ev: make(chan c09Ev)}
	for i := range s.grant {
		s.grant[i] = make(chan struct{})
	}
	verifhook.SetScheduler(s.yield)
	defer verifhook.SetScheduler(nil)
	var mths []string
	sweepOrder := make([][]string, n)
	for i, th := range sc.ths {
		i, th := i, th
		switch th.kind {
		case 'i':
			covert := "1.2.3.4:443"
			if !th.cov {
				covert = "not-an-address"
			}
			d := c09Reg(th.ph, th.sec, th.tr, !th.probe, covert)
			lv.live[d.PhantomIp.String()] = th.liv
			mths = append(mths, fmt.Sprintf("i,%s,%d,%d,%s,%s,%s", keyOf(d), int(d.Transport), sc.now, vlib.B(th.cov), vlib.B(th.probe), vlib.B(th.liv)))
			s.spawn(i, func() { rm.ingestRegistration(d) })
		case 's':
			mths = append(mths, "") // filled in after the run (removal order is observed)
			s.spawn(i, func() { rd.removeOldRegistrations(rm.Logger) })
		case 'h':
			d := c09Reg(th.ph, th.sec, th.tr, true, "")
			k := keyOf(d)
			mths = append(mths, fmt.Sprintf("h,%s,%d", k, int(d.Transport)))
			s.spawn(i, func() {
				regs := rd.getRegistrations(d.PhantomIp)
				found, ok := regs[rd.transports[d.Transport].GetIdentifier(d)]
				addEv("look " + k + " " + vlib.B(ok))
				verifhook.Yield("handler:after-lookup")
				if ok {
					rd.markActive(found)
				}
			})
		case 'c':
			// the SIGHUP handler: a freshly parsed configuration whose covert blocklist contains the
			// address the workers' registrations name; OnReload swaps it in (no scheduling point inside)
			mths = append(mths, "c")
			s.spawn(i, func() {
				conf := &RegConfig{EnableIPv4: true, EnableIPv6: true, CovertBlocklistSubnets: []string{"1.2.3.4/32"}}
				conf.ParseBlocklists()
				c09Reload(rm, conf)
			})
		}
	}

	// ---- run the schedule
	blockedRun := false
	doneTh := make([]bool, n)
	stepNo := make([]int, n)          // steps taken by each thread
	sweepSteps := make([][]string, n) // per sweeper: what each of its removal steps removed ("" = nothing)
	reloadDone := false
	var sched []int
	var choices [][]int
	fail := func(sig, what string) {
		out.OracleFail(sig, what, fmt.Sprintf("scenario=%s schedule=%v", sc.name, sched))
	}
	for step := 0; ; step++ {
		var runnable []int
		for i := 0; i < n; i++ {
			if !doneTh[i] {
				runnable = append(runnable, i)
			}
		}
		if len(runnable) == 0 {
			break
		}
		pick := runnable[0]
		if step < len(prefixSched) && !doneTh[prefixSched[step]] {
			// (where the sweeper's map order makes a run differ from the one the prefix was derived from,
			// the prefix may name a thread that has already finished: the lowest runnable one runs instead)
			pick = prefixSched[step]
		}
		choices = append(choices, runnable)
		sched = append(sched, pick)
		before := snapshot()
		nev := len(events)
		e, ok := s.step(pick)
		if !ok {
			blockedRun = true
			buf := make([]byte, 1<<20)
			dump := string(buf[:runtime.Stack(buf, true)])
			var keep []string
			for _, g := range strings.Split(dump, "\n\n") {
				if strings.Contains(g, "sync.(*RWMutex)") || strings.Contains(g, "sync.(*Mutex)") {
					keep = append(keep, g)
				}
			}
			short := strings.Join(keep, "\n\n")
			if len(short) > 4000 {
				short = short[:4000]
			}
			out.OracleFail("C09:thread-blocked", fmt.Sprintf("thread %d did not reach its next scheduling point within 10 s (a deadlock: under the controlled scheduler nothing else runs)", pick),
				fmt.Sprintf("scenario=%s schedule=%v ; goroutines waiting for a mutex: %s", sc.name, sched, strings.ReplaceAll(short, "\n", " ⏎ ")))
			break
		}
		if e.pan != nil {
			fail("C09:panic", fmt.Sprintf("thread %d panicked: %v", pick, e.pan))
		}
		doneTh[pick] = e.done
		stepNo[pick]++
		after := snapshot()
		th := sc.ths[pick]
		// a reload takes effect at once: a worker on the new-registration path reads the covert policy in
		// its third step (exists, track, policy); if the reload has run by then its covert address is
		// blocklisted and the worker must end there — no probe, no validation
		if th.kind == 'c' {
			reloadDone = true
		}
		if th.kind == 'i' && th.cov && stepNo[pick] == 3 && reloadDone {
			out.Checked()
			if !e.done {
				fail("C09:stale-policy-after-reload", fmt.Sprintf("worker %d read the covert policy after the reload had blocklisted its covert address and went on towards validation", pick))
			}
		}
		// removal events (only the sweeper removes)
		var gone []string
		for k := range before {
			if _, still := after[k]; !still {
				gone = append(gone, k)
			}
		}
		sort.Strings(gone)
		if th.kind == 's' && stepNo[pick] > 1 {
			g := ""
			if len(gone) == 1 {
				g = strings.Replace(gone[0], ",", ":", 1)
			}
			sweepSteps[pick] = append(sweepSteps[pick], g)
		}
		for _, k := range gone {
			addEv("rm " + k + " " + vlib.B(before[k]))
			sweepOrder[pick] = append(sweepOrder[pick], strings.Replace(k, ",", ":", 1))
			announced[k] = false
			validated[k] = false
			delete(tracks, k)
		}
		// ---- oracles on this step's observable events
		for _, ev := range events[nev:] {
			out.Checked()
			f := strings.Fields(ev)
			switch f[0] {
			case "new":
				if announced[f[1]] {
					fail("C09:announced-twice", "registration "+f[1]+" announced as new twice within one lifetime")
				}
				announced[f[1]] = true
				validated[f[1]] = true
			case "look":
				if f[2] == "1" && !validated[f[1]] {
					fail("C09:visible-before-validated", "lookup returned "+f[1]+" before its validation step ran")
				}
			}
		}
		if th.kind == 's' && len(gone) == 0 && !e.done {
			// a removal step that removed nothing: fine (vanished or re-activated)
		}
	}
	// activation-lost oracle: a registration that was marked active while tracked and is younger than
	// the active lifetime must still be tracked (and used) at the end
	final := snapshot()
	for _, ev := range events {
		f := strings.Fields(ev)
		if f[0] == "upd" {
			out.Checked()
			if _, ok := final[f[1]]; !ok {
				fail("C09:activation-lost", "registration "+f[1]+" was activated (detector told 6 h) and then deleted by the sweeper")
			}
		}
	}
	// sweeper thread lines with the observed removal order; keys the sweeper collected but did not
	// remove are not observable here, so the model is told the order of what was collected by asking
	// the implementation before the run (same state: set-up only)
	// The order in which the sweeper works through what it collected is Go's map order: the model is
	// told the order that was observed. A removal step that removed something names its key; a step that
	// removed nothing (the registration was activated in between) is the one collected key that is left
	// over — if more than one is left over their order is not observable and the run is not compared.
	ambiguous := false
	for i, th := range sc.ths {
		if th.kind != 's' {
			continue
		}
		collected := c09Collected(sc)
		order := append([]string(nil), sweepSteps[i]...)
		left := map[string]bool{}
		for _, k := range collected {
			left[k] = true
		}
		for _, k := range order {
			delete(left, k)
		}
		var rest []string
		for k := range left {
			rest = append(rest, k)
		}
		sort.Strings(rest)
		blanks := 0
		for _, k := range order {
			if k == "" {
				blanks++
			}
		}
		if blanks > 1 && len(rest) > 1 {
			ambiguous = true
		}
		for j, k := range order {
			if k == "" && len(rest) > 0 {
				order[j], rest = rest[0], rest[1:]
			}
		}
		var clean []string
		for _, k := range order {
			if k != "" {
				clean = append(clean, k)
			}
		}
		// keys the sweeper has not come to yet (the run ended first) follow in any fixed order
		clean = append(clean, rest...)
		mths[i] = fmt.Sprintf("s,%d,%s", sc.now, strings.Join(clean, "+"))
	}
	_ = sweepOrder
	var d, t []string
	for ph, m := range rd.decoys {
		for id, r := range m {
			d = append(d, fmt.Sprintf("%s,%s,%d,%s,%d", ph, vlib.Hex([]byte(id)), int(r.Transport), vlib.B(r.Valid), r.regCount))
		}
	}
	for key, to := range rd.decoysTimeouts {
		v := vnow - int64(time.Since(to.registrationTime)/time.Second) // exact while the run is faster than c09SlowLimit
		// (phantom, identifier) from the registry's own key (phantom is IP text, free of '|'), not from the record's fields
		toPh, toID, _ := strings.Cut(key, "|")
		t = append(t, fmt.Sprintf("%s,%s,%d,%s", toPh, vlib.Hex([]byte(toID)), v, vlib.B(to.status == regStatusUsed)))
	}
	sort.Strings(d)
	sort.Strings(t)
	allDone := true
	for _, x := range doneTh {
		allDone = allDone && x
	}
	ss := make([]string, len(sched))
	for i, x := range sched {
		ss[i] = fmt.Sprint(x)
	}
	model := fmt.Sprintf("conc|600|21600|1,4|%s|%s|%s", strings.Join(mpre, ";"), strings.Join(mths, ";"), strings.Join(ss, ","))
	impl := strings.Join(events, ";") + "|D:" + strings.Join(d, "/") + "|T:" + strings.Join(t, "/") + "|bad=0|done=" + vlib.B(allDone)
	return c09Result{model: model, impl: impl, choices: choices, slow: time.Since(t0) >= c09SlowLimit || ambiguous, blocked: blockedRun}
}

// c09Collected: which keys a sweeper would collect — the registrations of the set-up that are expired
// at the scenario's time (nothing a concurrent thread tracks is old enough, and a single sweeper
// removes); in which order it then works through them is observed, see runC09.
func c09Collected(sc *c09Scenario) []string {
	rd := NewRegisteredDecoys()
	rd.transports[pb.TransportType_Min] = min.Transport{}
	rd.transports[pb.TransportType_Prefix] = prefix.Transport{}
	var last map[string]int64 = map[string]int64{}
	used := map[string]bool{}
	for _, op := range sc.pre {
		d := c09Reg(op.ph, op.sec, op.tr, true, "")
		k := c09Phantoms[op.ph] + ":" + vlib.Hex([]byte(rd.transports[d.Transport].GetIdentifier(d)))
		switch op.kind {
		case 'r', 't':
			if _, ok := last[k]; !ok {
				last[k] = op.now
			}
		case 'm':
			if _, ok := last[k]; ok {
				used[k] = true
			}
		}
	}
	var ks []string
	for k, t0 := range last {
		age := sc.now - t0
		if age > c09Active || (!used[k] && age > c09Unused) {
			ks = append(ks, k)
		}
	}
	sort.Strings(ks)
	return ks
}

func c09Scenarios() []*c09Scenario {
	I := func(ph, sec, tr int, probe, live bool) c09Thread {
		return c09Thread{kind: 'i', ph: ph, sec: sec, tr: tr, cov: true, probe: probe, liv: live}
	}
	S := c09Thread{kind: 's'}
	H := func(ph, sec, tr int) c09Thread { return c09Thread{kind: 'h', ph: ph, sec: sec, tr: tr} }
	old := []c09Op{{kind: 'r', ph: 1, sec: 3, tr: 0, now: 0}} // valid, unused, 11 min old at now=660
	old2 := []c09Op{{kind: 'r', ph: 1, sec: 3, tr: 0, now: 0}, {kind: 'r', ph: 1, sec: 2, tr: 1, now: 0}}
	C := c09Thread{kind: 'c'}
	scs := []*c09Scenario{
		{name: "dup2+sweeper+handler", pre: old, now: 660, ths: []c09Thread{I(0, 0, 0, true, false), I(0, 0, 0, true, false), S, H(0, 0, 0)}},
		{name: "lost-activation", pre: old, now: 660, ths: []c09Thread{S, H(1, 3, 0)}},
		{name: "lost-activation+ingest", pre: old, now: 660, ths: []c09Thread{S, H(1, 3, 0), I(1, 3, 0, false, false)}},
		{name: "diff2+sweeper", pre: old, now: 660, ths: []c09Thread{I(0, 0, 0, true, false), I(0, 1, 1, false, false), S}},
		{name: "dup-live+ok", pre: nil, now: 100, ths: []c09Thread{I(0, 0, 0, true, true), I(0, 0, 0, true, true), H(0, 0, 0)}},
		{name: "same-secret-two-transports", pre: nil, now: 100, ths: []c09Thread{I(0, 0, 0, false, false), I(0, 0, 1, false, false), H(0, 0, 1)}},
		{name: "badcovert+dup", pre: nil, now: 100, ths: []c09Thread{{kind: 'i', ph: 0, sec: 0, tr: 0, cov: false, probe: true}, I(0, 0, 0, false, false), H(0, 0, 0)}},
		{name: "reingest-expired", pre: old, now: 660, ths: []c09Thread{S, I(1, 3, 0, false, false), H(1, 3, 0)}},
		// two expired registrations on one phantom (the sweeper's order is Go's map order), one of them
		// looked up and activated meanwhile, a worker re-registering the other
		{name: "two-expired", budget: 1500, pre: old2, now: 660, ths: []c09Thread{S, H(1, 3, 0), I(1, 2, 1, false, false)}},
		// one configuration reload among the workers: the covert policy changes under their feet
		{name: "reload+ingest2", pre: nil, now: 100, ths: []c09Thread{I(0, 0, 0, false, false), I(0, 1, 1, true, false), C}},
		{name: "reload+dup+handler", budget: 3000, pre: nil, now: 100, ths: []c09Thread{I(0, 0, 0, true, false), I(0, 0, 0, false, false), C, H(0, 0, 0)}},
	}
	if vlib.Tier() == "thorough" {
		scs = append(scs,
			&c09Scenario{name: "dup3+sweeper", pre: old, now: 660, ths: []c09Thread{I(0, 0, 0, true, false), I(0, 0, 0, false, false), I(0, 0, 0, true, false), S}},
			&c09Scenario{name: "dup2+sweeper+handler+old", pre: old, now: 660, ths: []c09Thread{I(1, 3, 0, true, false), I(1, 3, 0, true, false), S, H(1, 3, 0)}},
		)
	}
	return scs
}

func TestVerifC09(t *testing.T) {
	out := vlib.Open("C09")
	defer out.Close()
	limit := vlib.Budget(12000, 150000) // schedules per scenario (thorough: ~9 min; the two scenarios that exceed it continue with random schedules)
	r := vlib.NewRand("C09")
	if rp := vlib.Replay(); rp != "" {
		b, err := os.ReadFile(rp)
		if err != nil {
			t.Fatal(err)
		}
		for _, line := range strings.Split(string(b), "\n") {
			if !strings.HasPrefix(line, "scenario=") {
				continue
			}
			var name string
			var sched []int
			fmt.Sscanf(line, "scenario=%s", &name)
			if i := strings.Index(line, "schedule=["); i >= 0 {
				body := line[i+10:]
				if j := strings.Index(body, "]"); j >= 0 {
					body = body[:j]
				}
				for _, x := range strings.Fields(body) {
					var v int
					fmt.Sscan(x, &v)
					sched = append(sched, v)
				}
			}
			for _, sc := range c09Scenarios() {
				if sc.name == name {
					res := runC09(out, sc, sched)
					if !res.blocked {
						c09Case(out, res)
					}
					fmt.Println("REPLAY", line)
					fmt.Println("REPLAY model-line:", res.model)
					fmt.Println("REPLAY impl      :", res.impl)
				}
			}
		}
		if strings.Contains(string(b), "pipeline case=") {
			c09Pipeline(t, out)
			c09WorkersSurviveBadInput(out)
			c09StartupCancel(out)
			c09EnvResponses(out)
		}
		if strings.Contains(string(b), "pipe-script ") {
			c09PipeMessages(out)
		}
		c09Zmq(t, out, vlib.NewRand("C09zmq")) // runs only when the replay file names a zmq- scenario
		return
	}
	// A schedule that deadlocks costs the 10 s of the step watchdog and leaves its goroutines behind; the
	// schedules after it in the same scenario would mostly run into the same lock. After a deadlock the
	// scenario is left, after two the remaining scenarios are skipped: the finding has been reported with
	// its schedule and the goroutine dump, the later phases (pipeline, environment) use managers of their own.
	stuck := 0
	for _, sc := range c09Scenarios() {
		if stuck >= 2 {
			out.Note("scenario " + sc.name + " skipped: two scenarios have already ended in a deadlock")
			out.Count("scenario-skipped-after-deadlock")
			continue
		}
		count := 0
		exhaustive := true
		// stateless DFS over schedules
		var prefixSched []int
		for {
			res := runC09(out, sc, prefixSched)
			if res.blocked {
				stuck++
				exhaustive = true // no random schedules either
				out.Count("scenario-left-after-deadlock:" + sc.name)
				break
			}
			c09Case(out, res)
			out.Count("scenario:" + sc.name)
			count++
			if count >= limit || (sc.budget > 0 && count >= sc.budget*limit/12000) {
				exhaustive = false
				break
			}
			// next schedule: deepest position with an untried alternative
			sched := strings.Split(strings.Split(res.model, "|")[6], ",")
			next := -1
			var alt int
			for i := len(res.choices) - 1; i >= 0; i-- {
				var cur int
				fmt.Sscan(sched[i], &cur)
				for j, c := range res.choices[i] {
					if c == cur && j+1 < len(res.choices[i]) {
						next, alt = i, res.choices[i][j+1]
						break
					}
				}
				if next >= 0 {
					break
				}
			}
			if next < 0 {
				break
			}
			prefixSched = prefixSched[:0]
			for i := 0; i < next; i++ {
				var cur int
				fmt.Sscan(sched[i], &cur)
				prefixSched = append(prefixSched, cur)
			}
			prefixSched = append(prefixSched, alt)
		}
		if !exhaustive {
			// beyond the DFS budget: random schedules
			nrand := limit / 4
			if sc.budget > 0 {
				nrand = sc.budget * limit / 12000 / 4
			}
			for i := 0; i < nrand; i++ {
				p := make([]int, 64)
				for j := range p {
					p[j] = -1
				}
				res := runC09Random(out, sc, r)
				if res.blocked {
					stuck++
					out.Count("scenario-left-after-deadlock:" + sc.name)
					break
				}
				c09Case(out, res)
				out.Count("scenario-random:" + sc.name)
			}
		}
		out.Note(fmt.Sprintf("scenario %s: %d schedules, exhaustive=%v", sc.name, count, exhaustive))
	}
	c09Pipeline(t, out)
	c09WorkersSurviveBadInput(out)
	c09StartupCancel(out)
	c09EnvResponses(out)
	c09PipeMessages(out)
	c09Zmq(t, out, vlib.NewRand("C09zmq"))
}

// runC09Random runs one uniformly random schedule (chosen step by step among runnable threads).
func runC09Random(out *vlib.Out, sc *c09Scenario, r *vlib.Rand) c09Result {
	// draw a random schedule by first running with random picks: implemented by trying a random
	// prefix; invalid picks cannot occur because we re-derive the prefix from observed choices
	var prefix []int
	for {
		res := runC09(out, sc, prefix)
		if res.blocked || len(prefix) >= len(res.choices) {
			return res
		}
		// extend the prefix by a random runnable thread at the next undecided position
		c := res.choices[len(prefix)]
		prefix = append(prefix, c[r.Intn(len(c))])
		if len(prefix) == len(res.choices) {
			// validate once more so the returned result used exactly this schedule
			return runC09(out, sc, prefix)
		}
	}
}

// ------------------------------------------------------------------------------------------
// pipeline: overload and shutdown of the real HandleRegUpdates

func c09Pipeline(t *testing.T, out *vlib.Out) {
	type tc struct {
		name    string
		workers int
		busy    bool // input keeps arriving during shutdown
		block   bool // workers are held inside the liveness probe
	}
	for _, c := range []tc{
		{"idle-shutdown", 3, false, false},
		{"busy-shutdown", 3, true, false},
		{"idle-shutdown-20", 20, false, false},
		{"busy-shutdown-20", 20, true, false},
		{"overload", 10, false, true},
	} {
		lv := &c09Live{live: map[string]bool{}}
		if c.block {
			lv.gate = make(chan struct{})
		}
		rm := c09Manager(lv)
		rm.IngestWorkerCount = c.workers
		ctx, cancel := context.WithCancel(context.Background())
		in := make(chan interface{})
		var wg sync.WaitGroup
		wg.Add(1)
		returned := make(chan struct{})
		go func() { rm.HandleRegUpdates(ctx, in, &wg); close(returned) }()
		garbage := []byte{0xff, 0xff, 0xff}
		fail := func(sig, what string) { out.OracleFail(sig, what, "pipeline case="+c.name) }
		sent := int64(0)
		if c.block && !c09ValidNeedsProbe() {
			// the conservation count below identifies "processed" with "went through the liveness probe"
			out.Note("pipeline overload case skipped: the harness's valid message no longer reaches the liveness probe (test subnets changed?)")
			out.Count("pipeline:overload:skipped")
			cancel()
			<-returned
			continue
		}
		if c.block {
			// N valid registrations with distinct secrets; every worker that takes one blocks inside the
			// liveness probe (gate), so at most workers + buffer messages can be accepted and the rest
			// must be dropped and counted — without ever blocking the feeder.
			const N = 300
			feederDone := make(chan struct{})
			go func() {
				for i := 0; i < N; i++ {
					in <- c09ValidMsg(1000 + i)
					atomic.AddInt64(&sent, 1)
				}
				close(feederDone)
			}()
			select {
			case <-feederDone:
			case <-time.After(20 * time.Second):
				fail("C09:distributor-blocked", fmt.Sprintf("with all workers busy the feeder delivered only %d of %d messages in 20 s", atomic.LoadInt64(&sent), N))
			}
			out.Checked()
			time.Sleep(100 * time.Millisecond)
			rec := atomic.LoadInt64(&rm.totalIngestMessages)
			drop := atomic.LoadInt64(&rm.totalDroppedMessages)
			started := atomic.LoadInt64(&lv.probes)
			bufcap := int64(c.workers / jobBufferDivisor)
			if s := atomic.LoadInt64(&sent); s == N {
				if rec != N {
					fail("C09:received-miscounted", fmt.Sprintf("sent %d, counted %d", N, rec))
				}
				if started > int64(c.workers) {
					fail("C09:more-in-flight-than-workers", fmt.Sprintf("%d probes in flight with %d workers", started, c.workers))
				}
				if drop < N-int64(c.workers)-bufcap || drop > N-started {
					fail("C09:dropped-miscounted", fmt.Sprintf("sent %d, in flight %d, buffer capacity %d, counted as dropped %d", N, started, bufcap, drop))
				}
			}
			out.Checked()
			close(lv.gate)
			// conservation once the workers have drained the buffer: processed + dropped = received
			deadline := time.Now().Add(10 * time.Second)
			for time.Now().Before(deadline) && atomic.LoadInt64(&lv.done)+drop < atomic.LoadInt64(&sent) {
				time.Sleep(5 * time.Millisecond)
			}
			if got := atomic.LoadInt64(&lv.done) + drop; got != atomic.LoadInt64(&sent) {
				fail("C09:message-lost", fmt.Sprintf("sent %d, processed %d + dropped %d", atomic.LoadInt64(&sent), atomic.LoadInt64(&lv.done), drop))
			}
			out.Checked()
			out.Count("pipeline:overload:checked")
		} else {
			stopFeed := make(chan struct{})
			feedDone := make(chan struct{})
			go func() {
				defer close(feedDone)
				for {
					select {
					case <-stopFeed:
						return
					case in <- garbage:
						atomic.AddInt64(&sent, 1)
						if !c.busy {
							// a few messages, then silence: the channel stays open and idle
							if atomic.LoadInt64(&sent) >= 5 {
								<-stopFeed
								return
							}
						}
					}
				}
			}()
			time.Sleep(30 * time.Millisecond)
			defer func() { close(stopFeed); <-feedDone }()
		}
		cancel()
		out.Checked()
		select {
		case <-returned:
			out.Count("pipeline:" + c.name + ":returned")
		case <-time.After(5 * time.Second):
			sig := "C09:shutdown-hangs-idle-input"
			if c.busy {
				sig = "C09:shutdown-hangs-busy-input"
			}
			fail(sig, "HandleRegUpdates had not returned 5 s after cancellation ("+c.name+")")
		}
	}
}

// c09ValidNeedsProbe: does one c09ValidMsg, ingested on its own, go through the liveness probe? The
// pipeline cases that count probes rest on it (it depends on test/phantom_subnets.toml of the tree).
func c09ValidNeedsProbe() bool {
	lv := &c09Live{live: map[string]bool{}}
	rm := c09Manager(lv)
	regs, err := rm.parseRegMessage(c09ValidMsg(7))
	if err != nil {
		return false
	}
	for _, reg := range regs {
		if reg != nil {
			rm.ingestRegistration(reg)
		}
	}
	return atomic.LoadInt64(&lv.probes) == 1
}

// c09WorkersSurviveBadInput: malformed registration messages (anything may arrive on the ZMQ socket)
// are dropped by the worker that parses them, and the worker goes on to its next message. After three
// bad messages per worker have been handed to the pool, valid registrations must still be ingested —
// a pool whose workers die on bad input drops and counts everything from then on.
func c09WorkersSurviveBadInput(out *vlib.Out) {
	if !c09ValidNeedsProbe() {
		out.Note("pipeline bad-input case skipped: the harness's valid message no longer reaches the liveness probe")
		out.Count("pipeline:bad-input:skipped")
		return
	}
	v := uint32(3)
	noPayload, _ := proto.Marshal(&pb.C2SWrapper{SharedSecret: []byte{1, 2, 3}})
	badGen := func() []byte { // parses, but names a decoy-list generation the station does not know
		gen, tr, covert, t := uint32(99999), pb.TransportType_Min, "1.2.3.4:443", true
		src := pb.RegistrationSource_API
		w := &pb.C2SWrapper{SharedSecret: make([]byte, 32), RegistrationSource: &src, RegistrationAddress: []byte{192, 0, 2, 7},
			RegistrationPayload: &pb.ClientToStation{ClientLibVersion: &v, Transport: &tr, CovertAddress: &covert, DecoyListGeneration: &gen, V4Support: &t}}
		b, _ := proto.Marshal(w)
		return b
	}()
	bad := [][]byte{{0xff, 0xff, 0xff}, {}, noPayload, badGen, {0x0a}}
	for _, workers := range []int{3, 20} {
		lv := &c09Live{live: map[string]bool{}}
		rm := c09Manager(lv)
		rm.IngestWorkerCount = workers
		ctx, cancel := context.WithCancel(context.Background())
		in := make(chan interface{})
		var wg sync.WaitGroup
		wg.Add(1)
		returned := make(chan struct{})
		go func() { rm.HandleRegUpdates(ctx, in, &wg); close(returned) }()
		name := fmt.Sprintf("bad-input-%d", workers)
		forwarded := func() int64 {
			return atomic.LoadInt64(&rm.totalIngestMessages) - atomic.LoadInt64(&rm.totalDroppedMessages)
		}
		// hand 3 x workers bad messages to the pool (a message that is dropped because the buffer is
		// momentarily full does not count); give up after 3 s
		deadline := time.Now().Add(3 * time.Second)
		blocked := false
		send := func(m []byte) {
			select {
			case in <- m:
			case <-time.After(20 * time.Second):
				if !blocked {
					out.OracleFail("C09:distributor-blocked", "the distributor did not take a message from its input within 20 s ("+name+")", "pipeline case="+name)
				}
				blocked = true
			}
		}
		for i := 0; forwarded() < int64(3*workers) && time.Now().Before(deadline) && !blocked; i++ {
			send(bad[i%len(bad)])
			time.Sleep(500 * time.Microsecond)
		}
		// now valid registrations: at least one must reach the liveness probe
		out.Checked()
		ok := false
		deadline = time.Now().Add(5 * time.Second)
		for i := 0; time.Now().Before(deadline); i++ {
			if i < 50 && !blocked {
				send(c09ValidMsg(5000 + workers*100 + i))
			}
			if atomic.LoadInt64(&lv.probes) >= 1 {
				ok = true
				break
			}
			time.Sleep(2 * time.Millisecond)
		}
		if !ok {
			out.OracleFail("C09:workers-die-on-bad-input", fmt.Sprintf("after %d malformed messages were handed to %d workers, none of 50 valid registrations was ingested in 5 s (received %d, dropped %d)",
				forwarded(), workers, atomic.LoadInt64(&rm.totalIngestMessages), atomic.LoadInt64(&rm.totalDroppedMessages)), "pipeline case="+name)
		} else {
			out.Count("pipeline:" + name + ":ok")
		}
		cancel()
		select {
		case <-returned:
		case <-time.After(5 * time.Second):
			out.OracleFail("C09:shutdown-hangs-idle-input", "HandleRegUpdates had not returned 5 s after cancellation ("+name+")", "pipeline case="+name)
		}
	}
}

// c09StartupCancel: a stop request that arrives while the workers are still being launched. The
// pipeline must still return only after every worker is gone (it closes their channel afterwards).
func c09StartupCancel(out *vlib.Out) {
	for _, procs := range []int{1, 0} {
		old := runtime.GOMAXPROCS(0)
		if procs > 0 {
			runtime.GOMAXPROCS(procs)
		}
		rounds := 30
		for i := 0; i < rounds; i++ {
			lv := &c09Live{live: map[string]bool{}}
			rm := c09Manager(lv)
			rm.IngestWorkerCount = 200
			ctx, cancel := context.WithCancel(context.Background())
			cancel()
			in := make(chan interface{})
			var wg sync.WaitGroup
			wg.Add(1)
			before := runtime.NumGoroutine()
			returned := make(chan struct{})
			go func() { rm.HandleRegUpdates(ctx, in, &wg); close(returned) }()
			out.Checked()
			select {
			case <-returned:
			case <-time.After(10 * time.Second):
				out.OracleFail("C09:shutdown-hangs-during-startup", "HandleRegUpdates did not return 10 s after being started with a cancelled context", "pipeline case=startup-cancel")
				runtime.GOMAXPROCS(old)
				return
			}
			// every worker must be gone by the time the pipeline has returned
			deadline := time.Now().Add(3 * time.Second)
			for runtime.NumGoroutine() > before+2 && time.Now().Before(deadline) {
				time.Sleep(time.Millisecond)
				runtime.Gosched()
			}
			if n := runtime.NumGoroutine(); n > before+2 {
				out.OracleFail("C09:workers-outlive-pipeline", fmt.Sprintf("%d goroutines still running 3 s after HandleRegUpdates returned (before: %d)", n, before), "pipeline case=startup-cancel")
				runtime.GOMAXPROCS(old)
				return
			}
		}
		runtime.GOMAXPROCS(old)
		out.Count("pipeline:startup-cancel:ok")
	}
}

// ------------------------------------------------------------------------------------------
// randomised stress under the race detector (run by a separate plan entry with -race)

func TestVerifC09Race(t *testing.T) {
	// The process-wide statistics singleton, with the fields initStats gives it but silent and without
	// its two ticker goroutines: the harness's own printer goroutine below plays their part (far more
	// often). Must run before anything calls Stat().
	statsOnce.Do(func() {
		statInstance = Stats{logger: log.New(io.Discard, "", golog.Ldate), generations: make(map[uint32]int64), genMutex: &sync.Mutex{}}
	})
	out := vlib.Open("C09race")
	defer out.Close()
	replay := "go test -tags verif -race -run TestVerifC09Race ./pkg/station/lib/"
	lv := &c09Live{live: map[string]bool{}, pause: 150 * time.Microsecond}
	rm := c09Manager(lv)
	rd := rm.registeredDecoys
	// ---- oracle that needs real parallelism: visible only after validation. What a lookup returns has
	// been announced (validity is set and the announcement made in one critical section). The real seam
	// publishes to Redis; the stub yields the processor instead, which gives a split critical section
	// its window. (Announce-once and the duplicate counter are checked in c09ExactCounts, where no
	// sweeper runs and lifetimes are therefore known.)
	var announced sync.Map
	var early int64
	var earlyKey atomic.Value
	rd.registerForDetector = func(d *DecoyRegistration) {
		runtime.Gosched()
		announced.Store(d, true)
	}
	rd.updateInDetector = func(d *DecoyRegistration) {}
	Stat().AddStatsModule(rm, false)
	Stat().AddStatsModule(GetProxyStats(), false)
	Stat().AddStatsModule(lv, false)
	dur := 3 * time.Second
	if vlib.Tier() == "thorough" {
		dur = 8 * time.Second
	}
	stop := time.Now().Add(dur)
	var wg sync.WaitGroup
	for g := 0; g < 6; g++ {
		g := g
		wg.Add(1)
		go func() {
			defer wg.Done()
			r := vlib.NewRand(fmt.Sprintf("C09race%d", g))
			for time.Now().Before(stop) {
				ph, sec, tr := r.Intn(2), r.Intn(3), r.Intn(2)
				switch g % 3 {
				case 0: // ingest worker; registrations of every source (those from the decoy registrar go on to the share decision)
					d := c09Reg(ph, sec, tr, r.Bool(), "1.2.3.4:443")
					src := c09Sources[r.Intn(len(c09Sources))]
					d.RegistrationSource = &src
					rm.ingestRegistration(d)
				case 1: // connection handler
					d := c09Reg(ph, sec, tr, true, "")
					if reg, ok := rd.getRegistrations(d.PhantomIp)[rd.transports[d.Transport].GetIdentifier(d)]; ok {
						// (2) visible only after validation: what a lookup returns has been announced
						if _, ok := announced.Load(reg); !ok {
							atomic.AddInt64(&early, 1)
							earlyKey.Store(reg.IDString())
						}
						rm.MarkActive(reg)
					}
					_ = rm.CountRegistrations(d.PhantomIp)
				case 2: // sweeper with everything made old from time to time
					if r.Chance(1, 4) {
						rd.m.Lock()
						for _, to := range rd.decoysTimeouts {
							to.registrationTime = time.Now().Add(-7 * time.Hour)
						}
						rd.m.Unlock()
					}
					rm.RemoveOldRegistrations()
				}
			}
		}()
	}
	// registration construction (reads the phantom selector) concurrent with reloads
	wg.Add(1)
	go func() {
		defer wg.Done()
		v, gen, tr := uint32(3), uint32(1), pb.TransportType_Min
		covert := "1.2.3.4:443"
		src := pb.RegistrationSource_API
		for time.Now().Before(stop) {
			keys, err := core.GenSharedKeys(uint(v), c09Secret(1), tr)
			if err != nil {
				panic(err)
			}
			c2s := &pb.ClientToStation{ClientLibVersion: &v, Transport: &tr, CovertAddress: &covert, DecoyListGeneration: &gen}
			_, _ = rm.NewRegistration(c2s, &keys, false, &src)
			_ = rm.IsBlocklistedPhantom(net.ParseIP("192.0.2.1"))
		}
	}()
	// the statistics printers (stats.go: a ticker goroutine calls PrintStats) read and reset what the
	// workers, the sweeper and the pipeline count
	wg.Add(1)
	go func() {
		defer wg.Done()
		for time.Now().Before(stop) {
			Stat().PrintStats(false)
			time.Sleep(200 * time.Microsecond)
		}
	}()
	// the real pipeline on the same manager: messages from the socket (valid and malformed), its
	// start-up and its shutdown while everything else is running
	wg.Add(1)
	go func() {
		defer wg.Done()
		for round := 0; time.Now().Before(stop); round++ {
			ctx, cancel := context.WithCancel(context.Background())
			in := make(chan interface{})
			var pwg sync.WaitGroup
			pwg.Add(1)
			go rm.HandleRegUpdates(ctx, in, &pwg)
			for i := 0; i < 40 && time.Now().Before(stop); i++ {
				select {
				case in <- c09ValidMsg(9000 + i%7):
				case <-time.After(time.Second):
				}
				select {
				case in <- []byte{0xff, 0xff}:
				case <-time.After(time.Second):
				}
			}
			cancel()
			pwg.Wait()
		}
	}()
	// configuration reload concurrent with the workers
	if os.Getenv("VERIF_C09_NORELOAD") == "" {
		wg.Add(1)
		go c09ReloadLoop(rm, stop, &wg)
	}
	// watchdog: with real concurrency a lock-order or nested-lock mistake shows up as goroutines that
	// never finish; report it with the goroutine dump instead of running into the test timeout
	finished := make(chan struct{})
	go func() { wg.Wait(); close(finished) }()
	select {
	case <-finished:
	case <-time.After(dur + 45*time.Second):
		buf := make([]byte, 1<<20)
		n := runtime.Stack(buf, true)
		dump := string(buf[:n])
		short := dump
		if len(short) > 6000 {
			short = short[:6000]
		}
		blocked := 0
		for _, g := range strings.Split(dump, "\n\n") {
			if strings.Contains(g, "sync.(*RWMutex)") {
				blocked++
			}
		}
		out.OracleFail("C09:deadlock-under-stress", fmt.Sprintf("workers, handlers and sweeper did not finish %v after the stress ended; %d goroutines are blocked in the registry RWMutex", 45*time.Second, blocked),
			replay+" ; goroutine dump: "+strings.ReplaceAll(short, "\n", " ⏎ "))
		out.Close()
		t.Fatalf("deadlock under stress (%d goroutines blocked in RWMutex)", blocked)
	}
	out.Checked()
	if n := atomic.LoadInt64(&early); n > 0 {
		out.OracleFail("C09:visible-before-announced-under-stress", fmt.Sprintf("%d times a connection lookup returned a registration that had not been announced (validated) yet (e.g. %v)", n, earlyKey.Load()), replay)
	}
	c09ExactCounts(out, replay)
}

// c09ExactCounts: announce-once and no-lost-update as exact counts under real parallelism. Without a
// sweeper nothing is ever removed, so every registration has exactly one lifetime: it must be
// announced as new exactly once however many workers validate it at the same moment, and — every
// ingestRegistration of an admissible registration tracks it exactly once (new path or duplicate
// path) — its duplicate counter must equal the number of ingest calls made for it. All workers walk
// through the same sequence of fresh registrations, so they keep colliding on the check-then-track
// and validate windows, with lookups and activations in between.
func c09ExactCounts(out *vlib.Out, replay string) {
	lv := &c09Live{live: map[string]bool{}}
	rm := c09Manager(lv)
	rd := rm.registeredDecoys
	const G, K = 6, 240 // workers, registrations (2 phantoms x 60 secrets x 2 transports)
	key := func(i int) (ph, sec, tr int) { return i % 2, (i / 4) % 60, (i / 2) % 2 }
	var mu sync.Mutex
	news := map[string]int{}
	rd.registerForDetector = func(d *DecoyRegistration) {
		runtime.Gosched() // the real seam does network I/O here
		k := d.PhantomIp.String() + "/" + d.IDString() + "/" + d.Transport.String()
		mu.Lock()
		news[k]++
		mu.Unlock()
	}
	rd.updateInDetector = func(d *DecoyRegistration) {}
	var wg sync.WaitGroup
	for g := 0; g < G; g++ {
		g := g
		wg.Add(2)
		go func() {
			defer wg.Done()
			r := vlib.NewRand(fmt.Sprintf("C09count%d", g))
			for i := 0; i < K; i++ {
				ph, sec, tr := key(i)
				rm.ingestRegistration(c09Reg(ph, sec, tr, r.Bool(), "1.2.3.4:443"))
			}
		}()
		go func() {
			defer wg.Done()
			r := vlib.NewRand(fmt.Sprintf("C09counth%d", g))
			for i := 0; i < K; i++ {
				ph, sec, tr := key(r.Intn(K))
				d := c09Reg(ph, sec, tr, true, "")
				if reg, ok := rd.getRegistrations(d.PhantomIp)[rd.transports[d.Transport].GetIdentifier(d)]; ok {
					rm.MarkActive(reg)
				}
				_ = rm.CountRegistrations(d.PhantomIp)
				_ = rd.TotalRegistrations()
			}
		}()
	}
	done := make(chan struct{})
	go func() { wg.Wait(); close(done) }()
	select {
	case <-done:
	case <-time.After(60 * time.Second):
		out.OracleFail("C09:deadlock-under-stress", "workers and handlers of the exact-count phase did not finish within 60 s", replay)
		return
	}
	twice, never, lost := 0, 0, 0
	var exTwice, exNever, exLost string
	for i := 0; i < K; i++ {
		ph, sec, tr := key(i)
		d := c09Reg(ph, sec, tr, true, "")
		k := d.PhantomIp.String() + "/" + d.IDString() + "/" + d.Transport.String()
		out.Checked()
		switch n := news[k]; {
		case n > 1:
			twice++
			exTwice = fmt.Sprintf("%s announced %d times", k, n)
		case n == 0:
			never++
			exNever = k
		}
		got := int64(-1)
		if reg := rd.RegistrationExists(d); reg != nil {
			got = int64(reg.regCount)
		}
		out.Checked()
		if got != G {
			lost++
			exLost = fmt.Sprintf("%s ingested %d times, counter %d", k, G, got)
		}
	}
	if twice > 0 {
		out.OracleFail("C09:announced-twice-under-stress", fmt.Sprintf("%d of %d registrations were announced to the detector as new more than once within their single lifetime (no sweeper running), e.g. %s", twice, K, exTwice), replay)
	}
	if never > 0 {
		out.OracleFail("C09:never-announced-under-stress", fmt.Sprintf("%d of %d registrations that passed every admission check were never announced (no sweeper running), e.g. %s", never, K, exNever), replay)
	}
	if lost > 0 {
		out.OracleFail("C09:lost-update-regcount", fmt.Sprintf("%d of %d registrations: each was ingested once by each of %d parallel workers (no sweeper running) but the duplicate counter disagrees, e.g. %s", lost, K, G, exLost), replay)
	}
}

// c09ReloadLoop plays the SIGHUP handler of cmd/application/main.go: parse a new configuration,
// then hand it to OnReload, while workers and connection handlers are running.
func c09ReloadLoop(rm *RegistrationManager, stop time.Time, wg *sync.WaitGroup) {
	defer wg.Done()
	for i := 0; time.Now().Before(stop); i++ {
		conf := c09ReloadConf(i)
		_ = conf.ParseBlocklists()
		c09Reload(rm, conf)
		time.Sleep(200 * time.Microsecond)
	}
}

var c09Sources = []pb.RegistrationSource{pb.RegistrationSource_API, pb.RegistrationSource_Detector, pb.RegistrationSource_DetectorPrescan,
	pb.RegistrationSource_BidirectionalAPI, pb.RegistrationSource_DNS, pb.RegistrationSource_BidirectionalDNS, pb.RegistrationSource_Unspecified}

// c09ReloadConf: the configuration the i-th reload installs. Two configurations alternate that differ in
// EVERY field of RegConfig, the reloadable ones and those a reload is documented to leave alone (worker
// count, the sharing switch and its endpoint — strings of different lengths —, the address families, the
// liveness settings): whatever a reload copies into the running manager is really written, so that a field
// a worker reads without the guarding lock shows up under the race detector. Both let the stress's
// registrations (covert 1.2.3.4, phantoms 10.0.0.x / 2001:db8::1) through, so the workers keep reaching
// the later steps of an ingest. The endpoint is a closed loopback port.
func c09ReloadConf(i int) *RegConfig {
	if i%2 == 0 {
		return &RegConfig{Config: &liveness.Config{}, IngestWorkerCount: 7,
			EnableShareOverAPI: true, PreshareEndpoint: "http://127.0.0.1:9/api/register-shared-long-endpoint-name",
			EnableIPv4: true, EnableIPv6: true,
			CovertBlocklistSubnets: []string{"172.16.0.0/12"}, CovertBlocklistPublicAddrs: false,
			CovertAllowlistSubnets: nil, CovertBlocklistDomains: []string{".*blocked\\.example$"},
			PhantomBlocklist: []string{"192.0.2.0/24"}, ConnectingStats: c09NoConnStats{}}
	}
	return &RegConfig{Config: &liveness.Config{}, IngestWorkerCount: 3,
		EnableShareOverAPI: false, PreshareEndpoint: "",
		EnableIPv4: false, EnableIPv6: false,
		CovertBlocklistSubnets: []string{"169.254.0.0/16", "fe80::/10"}, CovertBlocklistPublicAddrs: true,
		CovertAllowlistSubnets: []string{"1.2.3.0/24"}, CovertBlocklistDomains: nil,
		PhantomBlocklist: []string{"198.51.100.0/24", "203.0.113.0/24"}, ConnectingStats: nil}
}

// c09ValidMsg builds a registration message (as it arrives over ZMQ) that parses, validates and
// needs a liveness probe: API source, IPv4 only, min transport, known generation.
func c09ValidMsg(i int) []byte {
	v, gen, tr := uint32(3), uint32(1), pb.TransportType_Min
	covert := "1.2.3.4:443"
	src := pb.RegistrationSource_API
	t := true
	f := false
	c2s := &pb.ClientToStation{ClientLibVersion: &v, Transport: &tr, CovertAddress: &covert, DecoyListGeneration: &gen, V4Support: &t, V6Support: &f}
	secret := make([]byte, 32)
	for j := range secret {
		secret[j] = byte(i>>uint(8*(j%4))) ^ byte(j*13)
	}
	w := &pb.C2SWrapper{SharedSecret: secret, RegistrationPayload: c2s, RegistrationSource: &src, RegistrationAddress: []byte{192, 0, 2, 7}}
	b, err := proto.Marshal(w)
	if err != nil {
		panic(err)
	}
	return b
}
