//go:build verif

package lib

// C09, "overload and shutdown do not stall the pipeline" against an ENVIRONMENT that answers late or never.
//
// Every external interaction of the ingest path is a point at which the environment may answer at once,
// late, or never.  The unchanged tree makes them in two ways (CJ/Gen/IngestCalls.lean, regenerated from the
// source, says which is which):
//
//   synchronously, inside the worker, each with a bound of its own
//     dns       ParseOrResolveBlocklisted (system resolver; no deadline of its own: known finding C11:zmq-ingest:resolver-without-deadline)
//     probe     LivenessTester.PhantomIsLive (750 ms by construction: four DialTimeout(750 ms) dials, one Sleep(750 ms))
//     publish   the detector announcement inside the registry's critical section (go-redis client timeouts)
//   asynchronously, on a goroutine of their own
//     share     tryShareRegistrationOverAPI (http.Post with the default client: NO timeout, does not see the context)
//     dialback  the connecting transport's Connect (5 s context) and the Proxy session behind it
//
// Worlds: the real HandleRegUpdates (W workers, no buffer) x interaction x response, with scripted
// stand-ins: an httptest peer that answers, holds the request for a while, or holds it until the world
// ends; a liveness tester and a detector seam that take a while; a connecting transport whose Connect
// fails at once, after a while, or never returns (it does not look at its context).  k = 2W+1 registrations that reach the
// interaction are delivered one at a time, each after the previous one has been announced, then one that
// does not reach it, then the stop request.
//
// Oracle (what the property says, nothing about how long anything takes beyond a 10 s watchdog that is
// three orders of magnitude above what the unchanged tree needs):
//   every registration is announced — an answer the worker does not wait for cannot hold it, an answer it
//   waits for arrives within its bound; the (2W+2)-th registration is ingested, so the pool has not been
//   drained by k > W registrations that met a silent peer; after the stop request HandleRegUpdates returns.
//   A never-answering environment is only put behind the asynchronous interactions: for the synchronous
//   ones "returns within its bound" is the hypothesis of the wind-down theorem
//   (CJ.Props.C09Env.winds_down_within_bound), not something the pipeline can make true.
// Failure: C09:pipeline-stalled:<interaction>, with the goroutine dump.

import (
	"context"
	"fmt"
	"io"
	"net"
	"net/http"
	"net/http/httptest"
	"runtime"
	"strings"
	"sync"
	"sync/atomic"
	"time"

	"github.com/refraction-networking/conjure/internal/vlib"
	"github.com/refraction-networking/conjure/pkg/station/log"
	"github.com/refraction-networking/conjure/pkg/transports"
	pb "github.com/refraction-networking/conjure/proto"
	"google.golang.org/protobuf/proto"
	"google.golang.org/protobuf/types/known/anypb"
)

const (
	c09EnvWatchdog = 10 * time.Second
	c09EnvDelay    = 60 * time.Millisecond // "late": well inside every bound
)

// c09SlowLive: a liveness tester that takes `delay` to answer "not live".
type c09SlowLive struct {
	delay  time.Duration
	probes int64
}

func (l *c09SlowLive) PhantomIsLive(addr string, port uint16) (bool, error) {
	atomic.AddInt64(&l.probes, 1)
	time.Sleep(l.delay)
	return false, nil
}
func (l *c09SlowLive) PrintAndReset(*log.Logger) {}
func (l *c09SlowLive) PrintStats(*log.Logger)    {}
func (l *c09SlowLive) Reset()                    {}

// c09CT: a connecting transport (the station dials back to the client) whose Connect is scripted.
type c09CT struct {
	mockTransport
	calls   int64
	connect func(ctx context.Context) (net.Conn, error)
}

func (t *c09CT) Connect(ctx context.Context, r transports.Registration) (net.Conn, error) {
	atomic.AddInt64(&t.calls, 1)
	return t.connect(ctx)
}
func (t *c09CT) ParseParams(libVersion uint, data *anypb.Any) (any, error) { return nil, nil }
func (t *c09CT) GetDstPort(libVersion uint, seed []byte, parameters any) (uint16, error) {
	return 443, nil
}

type c09NoConnStats struct{}

func (c09NoConnStats) AddCreatedConnecting(uint, string, string)               {}
func (c09NoConnStats) AddCreatedToSuccessfulConnecting(uint, string, string)   {}
func (c09NoConnStats) AddCreatedToTimeoutConnecting(uint, string, string)      {}
func (c09NoConnStats) AddSuccessfulToDiscardedConnecting(uint, string, string) {}
func (c09NoConnStats) AddOtherFailConnecting(uint, string, string)             {}

// c09EnvMsg: a registration message as it arrives over ZMQ: IPv4 only, known generation, distinct secret.
func c09EnvMsg(i int, src pb.RegistrationSource, tr pb.TransportType, prescanned bool) []byte {
	v, gen := uint32(3), uint32(1)
	covert := "1.2.3.4:443"
	t, f := true, false
	c2s := &pb.ClientToStation{ClientLibVersion: &v, Transport: &tr, CovertAddress: &covert, DecoyListGeneration: &gen, V4Support: &t, V6Support: &f,
		Flags: &pb.RegistrationFlags{Prescanned: &prescanned}}
	secret := make([]byte, 32)
	for j := range secret {
		secret[j] = byte(i>>uint(8*(j%4))) ^ byte(j*29+7)
	}
	w := &pb.C2SWrapper{SharedSecret: secret, RegistrationPayload: c2s, RegistrationSource: &src, RegistrationAddress: []byte{192, 0, 2, 9}}
	b, err := proto.Marshal(w)
	if err != nil {
		panic(err)
	}
	return b
}

func c09Dump() string {
	buf := make([]byte, 1<<20)
	n := runtime.Stack(buf, true)
	d := string(buf[:n])
	// the goroutines of the pipeline first
	var keep []string
	for _, g := range strings.Split(d, "\n\n") {
		if strings.Contains(g, "startIngestThread") || strings.Contains(g, "HandleRegUpdates") {
			keep = append(keep, g)
		}
	}
	d = strings.Join(keep, "\n\n")
	if len(d) > 5000 {
		d = d[:5000]
	}
	return strings.ReplaceAll(d, "\n", " ⏎ ")
}

// c09DistributorParked: is the goroutine that runs HandleRegUpdates blocked in a select? The inner select of
// the distributor has a default branch and never parks, so a parked distributor is waiting for its input.
func c09DistributorParked() bool {
	buf := make([]byte, 1<<20)
	n := runtime.Stack(buf, true)
	for _, g := range strings.Split(string(buf[:n]), "\n\n") {
		lines := strings.Split(g, "\n")
		if len(lines) < 2 || !strings.Contains(lines[0], "[select") {
			continue
		}
		// "goroutine N [select]:" followed by the frames, innermost first; runtime frames (gopark, selectgo)
		// are only shown with GOTRACEBACK=system: the first frame that is not the runtime's must be the distributor
		for _, l := range lines[1:] {
			if strings.HasPrefix(l, "\t") || strings.HasPrefix(l, "runtime.") {
				continue
			}
			if strings.Contains(l, ".HandleRegUpdates(") {
				return true
			}
			break
		}
	}
	return false
}

type c09EnvWorld struct {
	interaction string // share | probe | publish | dialback
	response    string // now | late | never
}

func c09EnvWorlds() []c09EnvWorld {
	return []c09EnvWorld{
		{"share", "now"}, {"share", "late"}, {"share", "never"},
		{"dialback", "now"}, {"dialback", "late"}, {"dialback", "never"},
		{"probe", "now"}, {"probe", "late"},
		{"publish", "now"}, {"publish", "late"},
	}
}

func c09EnvResponses(out *vlib.Out) {
	failed := 0 // worlds in which the watchdog fired: each costs 10-20 s, two are enough to report
	for _, w := range c09EnvWorlds() {
		for _, workers := range []int{1, 3} {
			if failed < 2 && !runC09Env(out, w, workers) {
				failed++
			}
		}
	}
	http.DefaultClient.CloseIdleConnections()
	c09DropCountersAcrossEpochs(out)
}

// c09DropCountersAcrossEpochs: "excess registrations are dropped and COUNTED" while the stats loop ends
// epochs (PrintAndReset of the registration manager, as cmd/application registers it) in between.  All
// workers are held inside the liveness probe; two bursts are delivered with an epoch boundary after each.
// What the epochs report must add up to what was delivered, and the running totals must not be touched
// by the resets.  Every number is read at a quiescent point (the feeder has returned and the distributor
// has counted its last message), so nothing depends on timing.
func c09DropCountersAcrossEpochs(out *vlib.Out) {
	const workers, burst = 10, 60
	name := "drop-counters-across-epochs"
	fail := func(sig, what string) { out.OracleFail(sig, what, "pipeline case="+name) }
	if !c09ValidNeedsProbe() {
		// the count of accepted messages below identifies "taken by a worker" with "held in the liveness probe"
		out.Note("pipeline " + name + " skipped: the harness's valid message no longer reaches the liveness probe")
		out.Count("pipeline:" + name + ":skipped")
		return
	}
	lv := &c09Live{live: map[string]bool{}, gate: make(chan struct{})}
	rm := c09Manager(lv)
	rm.IngestWorkerCount = workers
	rm.registeredDecoys.registerForDetector = func(d *DecoyRegistration) {}
	rm.registeredDecoys.updateInDetector = func(d *DecoyRegistration) {}
	ctx, cancel := context.WithCancel(context.Background())
	in := make(chan interface{})
	var wg sync.WaitGroup
	wg.Add(1)
	returned := make(chan struct{})
	go func() { rm.HandleRegUpdates(ctx, in, &wg); close(returned) }()
	defer func() {
		close(lv.gate)
		cancel()
		select {
		case <-returned:
		case <-time.After(c09EnvWatchdog):
			fail("C09:shutdown-hangs-idle-input", "HandleRegUpdates had not returned 10 s after cancellation ("+name+")")
		}
	}()
	sent := int64(0)
	feed := func(n int) bool {
		for i := 0; i < n; i++ {
			select {
			case in <- c09ValidMsg(40000 + int(sent)):
				sent++
			case <-time.After(c09EnvWatchdog):
				fail("C09:distributor-blocked", fmt.Sprintf("with all workers busy the distributor took only %d messages", sent))
				return false
			}
		}
		// quiescence: the distributor has taken the last message (the send above returned) and is parked in
		// its outer select again, i.e. it has counted that message and forwarded or dropped-and-counted it
		deadline := time.Now().Add(c09EnvWatchdog)
		for !c09DistributorParked() && time.Now().Before(deadline) {
			time.Sleep(200 * time.Microsecond)
		}
		return true
	}
	type report struct{ ingest, dropped, totIngest, totDropped int64 }
	epoch := func() (r report, ok bool) {
		var buf strings.Builder
		rm.PrintAndReset(log.New(&buf, "", 0))
		i := strings.Index(buf.String(), "reg-buf-stats:")
		if i < 0 {
			return r, false
		}
		f := strings.Fields(buf.String()[i+len("reg-buf-stats:"):])
		if len(f) < 7 {
			return r, false
		}
		_, e1 := fmt.Sscan(f[0], &r.ingest)
		_, e2 := fmt.Sscan(f[2], &r.dropped)
		_, e3 := fmt.Sscan(f[5], &r.totIngest)
		_, e4 := fmt.Sscan(f[6], &r.totDropped)
		return r, e1 == nil && e2 == nil && e3 == nil && e4 == nil
	}
	var sumIngest, sumDropped int64
	for b := 1; b <= 2; b++ {
		if !feed(burst) {
			return
		}
		// let every worker that took a message get into the probe, so that `started` below is final
		time.Sleep(20 * time.Millisecond)
		r, ok := epoch()
		out.Checked()
		if !ok {
			fail("C09:drop-counters-lost-at-epoch", "PrintAndReset of the registration manager logged no parsable reg-buf-stats line")
			return
		}
		sumIngest += r.ingest
		sumDropped += r.dropped
		tot, totDrop := atomic.LoadInt64(&rm.totalIngestMessages), atomic.LoadInt64(&rm.totalDroppedMessages)
		started := atomic.LoadInt64(&lv.probes)
		bufcap := int64(workers / jobBufferDivisor)
		switch {
		case tot != sent || r.totIngest != sent:
			fail("C09:received-miscounted", fmt.Sprintf("after epoch %d: %d messages delivered, running total %d, reported total %d", b, sent, tot, r.totIngest))
		case totDrop != r.totDropped || totDrop < sent-int64(workers)-bufcap || totDrop > sent-started:
			fail("C09:dropped-miscounted", fmt.Sprintf("after epoch %d: %d delivered, %d in the probe, buffer capacity %d: running total of drops %d, reported %d", b, sent, started, bufcap, totDrop, r.totDropped))
		case sumIngest != sent || sumDropped != totDrop:
			fail("C09:drop-counters-lost-at-epoch", fmt.Sprintf("after epoch %d: the epochs reported %d received / %d dropped in all, %d were delivered and %d dropped", b, sumIngest, sumDropped, sent, totDrop))
		}
	}
	out.Count("pipeline:" + name + ":checked")
}

// runC09Env plays one world; false: the watchdog fired.
func runC09Env(out *vlib.Out, w c09EnvWorld, workers int) (good bool) {
	name := fmt.Sprintf("env:%s:%s:%d", w.interaction, w.response, workers)
	sig := "C09:pipeline-stalled:" + w.interaction
	good = true
	fail := func(what string) {
		good = false
		out.OracleFail(sig, what+" ["+name+"]", "pipeline case="+name+" ; goroutines of the pipeline: "+c09Dump())
	}
	release := make(chan struct{}) // closed when the world ends: everything that "never" answers lets go
	var once sync.Once
	letGo := func() { once.Do(func() { close(release) }) }
	defer letGo()

	// ---- the environment
	lt := &c09SlowLive{}
	if w.interaction == "probe" && w.response == "late" {
		lt.delay = c09EnvDelay
	}
	rm := c09Manager(&c09Live{live: map[string]bool{}})
	rm.LivenessTester = lt
	rm.IngestWorkerCount = workers
	rm.connectingStats = c09NoConnStats{}
	var announced int64
	rm.registeredDecoys.registerForDetector = func(d *DecoyRegistration) {
		if w.interaction == "publish" && w.response == "late" {
			time.Sleep(c09EnvDelay)
		}
		atomic.AddInt64(&announced, 1)
	}
	rm.registeredDecoys.updateInDetector = func(d *DecoyRegistration) {}
	var reached int64 // how many registrations reached the interaction's stand-in
	src, tr, prescanned := pb.RegistrationSource_API, pb.TransportType_Min, true
	switch w.interaction {
	case "share":
		peer := httptest.NewServer(http.HandlerFunc(func(rw http.ResponseWriter, r *http.Request) {
			_, _ = io.Copy(io.Discard, r.Body)
			atomic.AddInt64(&reached, 1)
			switch w.response {
			case "late":
				time.Sleep(c09EnvDelay)
			case "never":
				select {
				case <-release:
				case <-time.After(3 * time.Minute):
				}
			}
			rw.WriteHeader(http.StatusOK)
		}))
		defer peer.Close()
		defer letGo()
		rm.RegConfig.EnableShareOverAPI = true // (the manager's configuration is this world's own)
		rm.RegConfig.PreshareEndpoint = peer.URL
		src = pb.RegistrationSource_Detector
	case "probe":
		prescanned = false
	case "dialback":
		tr = pb.TransportType_DTLS
		ct := &c09CT{}
		ct.connect = func(ctx context.Context) (net.Conn, error) {
			atomic.AddInt64(&reached, 1)
			switch w.response {
			case "late":
				time.Sleep(c09EnvDelay)
			case "never":
				// neither the client nor the transport ever answers: the stand-in does not look at its
				// context (whoever waits for it waits until the world ends)
				<-release
			}
			return nil, fmt.Errorf("dial-back failed")
		}
		rm.registeredDecoys.transports[pb.TransportType_DTLS] = ct
	}

	// ---- the pipeline
	ctx, cancel := context.WithCancel(context.Background())
	in := make(chan interface{})
	var wg sync.WaitGroup
	wg.Add(1)
	returned := make(chan struct{})
	go func() { rm.HandleRegUpdates(ctx, in, &wg); close(returned) }()
	stopped := false
	stop := func() {
		if stopped {
			return
		}
		stopped = true
		cancel()
		select {
		case <-returned:
		case <-time.After(c09EnvWatchdog):
			fail(fmt.Sprintf("HandleRegUpdates had not returned %v after the stop request", c09EnvWatchdog))
			letGo()
			select {
			case <-returned:
			case <-time.After(c09EnvWatchdog):
			}
		}
	}
	// deliver: hand one message to the pipeline (the distributor must take it) and wait for its announcement.
	// Without a buffer a message that arrives while no worker waits in its receive is dropped and counted
	// (by design: at start-up, or while every worker is still on its way back), so the same message is
	// handed in again every few milliseconds until it has been announced; a copy that arrives while the
	// first is being ingested, or after it, is a duplicate and announces nothing.
	deliver := func(msg []byte, what string) bool {
		want := atomic.LoadInt64(&announced) + 1
		deadline := time.Now().Add(c09EnvWatchdog)
		for {
			select {
			case in <- msg:
			case <-time.After(c09EnvWatchdog):
				fail("the distributor did not take a registration from its input within " + c09EnvWatchdog.String() + " (" + what + ")")
				return false
			}
			again := time.Now().Add(5 * time.Millisecond)
			for atomic.LoadInt64(&announced) < want && time.Now().Before(again) {
				time.Sleep(50 * time.Microsecond)
			}
			if atomic.LoadInt64(&announced) >= want {
				return true
			}
			if !time.Now().Before(deadline) {
				fail(fmt.Sprintf("%s was not announced within %v although it was handed to the pipeline again every 5 ms: %d announced, %d reached the %s stand-in", what, c09EnvWatchdog,
					atomic.LoadInt64(&announced), atomic.LoadInt64(&reached), w.interaction))
				return false
			}
		}
	}
	k := 2*workers + 1
	ok := true
	for i := 0; i < k && ok; i++ {
		out.Checked()
		ok = deliver(c09EnvMsg(70000+workers*1000+i, src, tr, prescanned),
			fmt.Sprintf("registration %d of %d that meets the %s interaction (environment answers: %s)", i+1, k, w.interaction, w.response))
	}
	if ok {
		// one that does not meet the interaction: the pool has not been drained
		out.Checked()
		ok = deliver(c09EnvMsg(79000+workers, pb.RegistrationSource_API, pb.TransportType_Min, true),
			fmt.Sprintf("a plain registration delivered after %d registrations had met the %s interaction (environment answers: %s) with %d worker(s)", k, w.interaction, w.response, workers))
	}
	if ok && w.interaction != "publish" {
		// the world is what it claims to be: the stand-in was reached
		deadline := time.Now().Add(c09EnvWatchdog)
		for w.interaction != "probe" && atomic.LoadInt64(&reached) < int64(k) && time.Now().Before(deadline) {
			time.Sleep(100 * time.Microsecond)
		}
		n := atomic.LoadInt64(&reached)
		if w.interaction == "probe" {
			n = atomic.LoadInt64(&lt.probes)
		}
		if n < int64(k) {
			out.Note(fmt.Sprintf("%s: only %d of %d registrations reached the stand-in of the interaction", name, n, k))
			out.Count("env:stand-in-not-reached")
		}
	}
	if !ok {
		// reported; let the environment go so that the wind-down below does not wait another 10 s to say it again
		letGo()
	}
	out.Checked()
	stop()
	out.Count("env:" + w.interaction + ":" + w.response)
	return good
}
