//go:build verif

package lib

// C09, message-level correspondence of the ingest pipeline: the real HandleRegUpdates / startIngestThread
// against CJ/Model/PipelineMsg.lean (driver line `pipe|<IngestWorkerCount>|<events>`).
//
// An event script (offer a message that parses / does not parse, let the worker that holds message k finish,
// stop request) is executed on the real pipeline; after every event the harness waits for quiescence — read off
// the goroutine dump: the distributor parked in its select (or in wg.Wait after the stop request), every worker
// either parked in its select or held inside the liveness probe — and prints what can be observed there: parked
// workers, buffer length, which messages are in a worker's hand, the two statistics counters, the order of
// announcements.  The Lean model answers the same script under its settled semantics (`CJ.PipelineMsg.event`).
// Independent oracles (ground truth kept here, not taken from the model): a message is dropped only when no
// worker is parked and the buffer is full and never otherwise, the buffer and the number of messages in hand
// stay within capacity / pool size, messages reach the workers in the order offered, nothing is announced
// twice, and once everything was let through nothing that was not dropped is missing.

import (
	"context"
	"fmt"
	"os"
	"runtime"
	"sort"
	"strconv"
	"strings"
	"sync"
	"sync/atomic"
	"time"

	"github.com/refraction-networking/conjure/internal/vlib"
	"github.com/refraction-networking/conjure/pkg/station/log"
)

type c09PipeLive struct {
	mu      sync.Mutex
	byAddr  map[string]int
	gated   map[int]chan struct{}
	open    bool
	entered []int
}

func (l *c09PipeLive) PhantomIsLive(addr string, port uint16) (bool, error) {
	l.mu.Lock()
	id, ok := l.byAddr[addr]
	if !ok || l.open {
		l.mu.Unlock()
		return false, nil
	}
	ch := make(chan struct{})
	l.gated[id] = ch
	l.entered = append(l.entered, id)
	l.mu.Unlock()
	<-ch
	return false, nil
}
func (l *c09PipeLive) PrintAndReset(*log.Logger) {}
func (l *c09PipeLive) PrintStats(*log.Logger)    {}
func (l *c09PipeLive) Reset()                    {}

type c09PipeEvent struct {
	kind byte // 's' valid, 'b' bad, 'r' release, 'c' stop
	id   int
}

func (e c09PipeEvent) String() string {
	switch e.kind {
	case 's':
		return fmt.Sprintf("s%dv", e.id)
	case 'b':
		return fmt.Sprintf("s%db", e.id)
	case 'r':
		return fmt.Sprintf("r%d", e.id)
	}
	return "c"
}

func c09PipeScript(evs []c09PipeEvent) string {
	var s []string
	for _, e := range evs {
		s = append(s, e.String())
	}
	return strings.Join(s, ",")
}

func c09PipeParse(s string) (evs []c09PipeEvent) {
	for _, f := range strings.Split(s, ",") {
		switch {
		case f == "c":
			evs = append(evs, c09PipeEvent{'c', 0})
		case strings.HasPrefix(f, "r"):
			n, _ := strconv.Atoi(f[1:])
			evs = append(evs, c09PipeEvent{'r', n})
		case strings.HasPrefix(f, "s") && strings.HasSuffix(f, "v"):
			n, _ := strconv.Atoi(f[1 : len(f)-1])
			evs = append(evs, c09PipeEvent{'s', n})
		case strings.HasPrefix(f, "s") && strings.HasSuffix(f, "b"):
			n, _ := strconv.Atoi(f[1 : len(f)-1])
			evs = append(evs, c09PipeEvent{'b', n})
		}
	}
	return
}

type c09PipeSnap struct {
	idle, held, transit int
	distSelect, distWait bool
}

// c09PipeSnapshot classifies the goroutines of the pipeline started by goroutine `gid`.
func c09PipeSnapshot(gid string) (sn c09PipeSnap) {
	buf := make([]byte, 4<<20)
	n := runtime.Stack(buf, true)
	for _, g := range strings.Split(string(buf[:n]), "\n\n") {
		lines := strings.Split(g, "\n")
		if len(lines) < 2 {
			continue
		}
		head, top := lines[0], lines[1]
		if strings.Contains(g, ").startIngestThread(") {
			if !strings.Contains(g, "HandleRegUpdates in goroutine "+gid+"\n") {
				continue
			}
			switch {
			case strings.Contains(top, ").startIngestThread(") && strings.Contains(head, "[select"):
				sn.idle++
			case strings.Contains(top, "c09PipeLive).PhantomIsLive(") && strings.Contains(head, "[chan receive"):
				sn.held++
			default:
				sn.transit++
			}
			continue
		}
		if strings.HasPrefix(head, "goroutine "+gid+" ") {
			if strings.Contains(top, ").HandleRegUpdates(") && strings.Contains(head, "[select") {
				sn.distSelect = true
			}
			if strings.Contains(g, "(*WaitGroup).Wait(") {
				sn.distWait = true
			}
		}
	}
	return
}

func c09Gid() string {
	buf := make([]byte, 64)
	n := runtime.Stack(buf, false)
	f := strings.Fields(string(buf[:n]))
	if len(f) > 1 {
		return f[1]
	}
	return "?"
}

// c09PipeRunScript executes one script; returns the implementation's answer.
func c09PipeRunScript(out *vlib.Out, workersCfg int, evs []c09PipeEvent) (impl string, ok bool) {
	replay := fmt.Sprintf("pipe-script workers=%d events=%s", workersCfg, c09PipeScript(evs))
	fail := func(sig, what string) { out.OracleFail(sig, what, replay); ok = false }
	ok = true
	W := workersCfg
	if W == 0 {
		W = defaultWorkerCount
	}
	bufcap := W / jobBufferDivisor

	lv := &c09PipeLive{byAddr: map[string]int{}, gated: map[int]chan struct{}{}}
	rm := c09Manager(&c09Live{live: map[string]bool{}})
	rm.LivenessTester = lv
	rm.IngestWorkerCount = workersCfg
	var annMu sync.Mutex
	var announced []int
	annCount := map[int]int{}
	rm.registeredDecoys.registerForDetector = func(d *DecoyRegistration) {
		lv.mu.Lock()
		id, known := lv.byAddr[d.PhantomIp.String()]
		lv.mu.Unlock()
		if known {
			annMu.Lock()
			announced = append(announced, id)
			annCount[id]++
			annMu.Unlock()
		}
	}
	rm.registeredDecoys.updateInDetector = func(d *DecoyRegistration) {}

	// messages: id -> bytes, phantom addresses pairwise different
	msgs := map[int][]byte{}
	seed := 50000
	used := map[string]bool{}
	for _, e := range evs {
		if e.kind != 's' {
			continue
		}
		if _, have := msgs[e.id]; have {
			continue
		}
		for tries := 0; tries < 200; tries++ {
			seed++
			b := c09ValidMsg(seed)
			regs, err := rm.parseRegMessage(b)
			if err != nil || len(regs) != 1 || regs[0] == nil || regs[0].PhantomIp.To4() == nil {
				continue
			}
			a := regs[0].PhantomIp.String()
			if used[a] {
				continue
			}
			used[a] = true
			lv.byAddr[a] = e.id
			msgs[e.id] = b
			break
		}
		if msgs[e.id] == nil {
			out.Note("pipe script skipped: no registration message with a fresh IPv4 phantom found")
			return "", false
		}
	}

	ctx, cancel := context.WithCancel(context.Background())
	defer cancel()
	in := make(chan interface{})
	var wg sync.WaitGroup
	wg.Add(1)
	returned := make(chan struct{})
	gidCh := make(chan string, 1)
	go func() { gidCh <- c09Gid(); rm.HandleRegUpdates(ctx, in, &wg); close(returned) }()
	gid := <-gidCh
	isReturned := func() bool {
		select {
		case <-returned:
			return true
		default:
			return false
		}
	}
	buflen := func() int {
		rm.ingestChanMu.Lock()
		defer rm.ingestChanMu.Unlock()
		if rm.ingestChan == nil {
			return 0
		}
		return len(rm.ingestChan)
	}
	stopped := false
	// settle: wait for quiescence (10 s watchdog)
	settle := func(after string) (sn c09PipeSnap, quiet bool) {
		deadline := time.Now().Add(10 * time.Second)
		for {
			if stopped && isReturned() {
				return c09PipeSnap{}, true
			}
			sn = c09PipeSnapshot(gid)
			if !stopped && sn.distSelect && sn.transit == 0 && sn.idle+sn.held == W && (buflen() == 0 || sn.idle == 0) {
				return sn, true
			}
			if stopped && sn.distWait && sn.transit == 0 && sn.idle == 0 && sn.held > 0 {
				return sn, true
			}
			if time.Now().After(deadline) {
				b := make([]byte, 1<<20)
				n := runtime.Stack(b, true)
				fail("C09:pipeline-not-quiescent", fmt.Sprintf("10 s after %s the pipeline (%d workers) has not come to rest: parked %d, in the probe %d, elsewhere %d, buffer %d, distributor in select %v / in Wait %v\n%s",
					after, W, sn.idle, sn.held, sn.transit, buflen(), sn.distSelect, sn.distWait, c09PipeTrim(string(b[:n]))))
				return sn, false
			}
			time.Sleep(150 * time.Microsecond)
		}
	}
	heldIDs := func() []int {
		lv.mu.Lock()
		defer lv.mu.Unlock()
		var l []int
		for id := range lv.gated {
			l = append(l, id)
		}
		sort.Ints(l)
		return l
	}
	joinInts := func(l []int) string {
		var s []string
		for _, x := range l {
			s = append(s, strconv.Itoa(x))
		}
		return strings.Join(s, "+")
	}
	finish := func() {
		lv.mu.Lock()
		lv.open = true
		for id, ch := range lv.gated {
			close(ch)
			delete(lv.gated, id)
		}
		lv.mu.Unlock()
		cancel()
		select {
		case <-returned:
		case <-time.After(10 * time.Second):
			fail("C09:shutdown-hangs-after-script", "HandleRegUpdates had not returned 10 s after the stop request with every worker let through")
		}
	}

	if _, q := settle("start-up"); !q {
		finish()
		return "", false
	}
	var outs []string
	var offered []int // valid ids offered before the stop request, not dropped, in order
	droppedID := map[int]bool{}
	nsent := int64(0)
	for _, e := range evs {
		switch e.kind {
		case 's', 'b':
			var m []byte
			if e.kind == 's' {
				m = msgs[e.id]
			} else {
				m = []byte{0xff, 0xff, 0xff, byte(e.id)}
			}
			if stopped {
				select {
				case in <- m:
					nsent++
				case <-time.After(20 * time.Millisecond):
				}
			} else {
				before, _ := settle("before offering a message")
				bl := buflen()
				d0 := atomic.LoadInt64(&rm.totalDroppedMessages)
				select {
				case in <- m:
					nsent++
				case <-time.After(10 * time.Second):
					fail("C09:distributor-blocked", fmt.Sprintf("the distributor did not take message %d from its input within 10 s", e.id))
					finish()
					return "", false
				}
				if _, q := settle("offering message " + strconv.Itoa(e.id)); !q {
					finish()
					return "", false
				}
				dropped := atomic.LoadInt64(&rm.totalDroppedMessages) - d0
				room := before.idle > 0 || bl < bufcap
				out.Checked()
				if dropped > 0 && room {
					fail("C09:dropped-with-room", fmt.Sprintf("message %d was dropped although %d workers were parked and the buffer held %d of %d", e.id, before.idle, bl, bufcap))
				}
				if dropped == 0 && !room {
					fail("C09:accepted-beyond-capacity", fmt.Sprintf("message %d was accepted although no worker was parked and the buffer was full (%d of %d)", e.id, bl, bufcap))
				}
				if dropped > 1 {
					fail("C09:dropped-miscounted", fmt.Sprintf("one message dropped, counter advanced by %d", dropped))
				}
				if dropped > 0 {
					droppedID[e.id] = true
				} else if e.kind == 's' {
					offered = append(offered, e.id)
				}
			}
		case 'r':
			lv.mu.Lock()
			ch, held := lv.gated[e.id]
			if held {
				delete(lv.gated, e.id)
				close(ch)
			}
			lv.mu.Unlock()
		case 'c':
			lv.mu.Lock()
			lv.open = true
			lv.mu.Unlock()
			cancel()
			stopped = true
		}
		sn, q := settle("event " + e.String())
		if !q {
			finish()
			return "", false
		}
		R := atomic.LoadInt64(&rm.totalIngestMessages)
		D := atomic.LoadInt64(&rm.totalDroppedMessages)
		out.Checked()
		if R != nsent {
			fail("C09:received-miscounted", fmt.Sprintf("%d messages taken from the input, counted %d", nsent, R))
		}
		if !stopped {
			if bl := buflen(); bl > bufcap {
				fail("C09:buffer-beyond-capacity", fmt.Sprintf("%d messages buffered, capacity %d", bl, bufcap))
			}
			annMu.Lock()
			p := joinInts(announced)
			annMu.Unlock()
			outs = append(outs, fmt.Sprintf("I%dB%dG%sR%dD%dP%s", sn.idle, buflen(), joinInts(heldIDs()), R, D, p))
		} else {
			outs = append(outs, fmt.Sprintf("G%sR%dD%dret=%s", joinInts(heldIDs()), R, D, vlib.B(isReturned())))
		}
	}
	// drain: let everything through (before a stop request: one by one, so that the order stays observable)
	if !stopped {
		for guard := 0; guard < 10000; guard++ {
			h := heldIDs()
			if len(h) == 0 {
				break
			}
			lv.mu.Lock()
			ch := lv.gated[h[0]]
			delete(lv.gated, h[0])
			lv.mu.Unlock()
			close(ch)
			if _, q := settle("draining"); !q {
				break
			}
		}
		out.Checked()
		annMu.Lock()
		for _, id := range offered {
			if annCount[id] == 0 {
				fail("C09:message-lost", fmt.Sprintf("message %d was taken from the input, not dropped, every worker was let through — and it was never announced", id))
				break
			}
		}
		annMu.Unlock()
		lv.mu.Lock()
		ent := append([]int(nil), lv.entered...)
		lv.mu.Unlock()
		if len(ent) == len(offered) {
			for i := range ent {
				if ent[i] != offered[i] {
					fail("C09:pipeline-reordered", fmt.Sprintf("messages reached the workers in the order %v, they were accepted in the order %v", ent, offered))
					break
				}
			}
		} else if ok {
			fail("C09:message-lost", fmt.Sprintf("%d messages were accepted, %d reached a worker's liveness probe (%v vs %v)", len(offered), len(ent), offered, ent))
		}
	}
	finish()
	annMu.Lock()
	for id, c := range annCount {
		if c > 1 {
			fail("C09:message-duplicated", fmt.Sprintf("message %d went through the pipeline once and was announced %d times", id, c))
			break
		}
		if droppedID[id] {
			fail("C09:dropped-message-processed", fmt.Sprintf("message %d was counted as dropped and announced all the same", id))
			break
		}
	}
	annMu.Unlock()
	return strings.Join(outs, ";"), ok
}

func c09PipeTrim(s string) string {
	var keep []string
	for _, g := range strings.Split(s, "\n\n") {
		if strings.Contains(g, "startIngestThread") || strings.Contains(g, "HandleRegUpdates") {
			keep = append(keep, g)
		}
	}
	if len(keep) > 12 {
		keep = keep[:12]
	}
	return strings.Join(keep, "\n\n")
}

func c09PipeGen(r *vlib.Rand, out *vlib.Out) (int, []c09PipeEvent) {
	ws := []int{1, 2, 3, 5, 10, 12, 20}
	W := ws[r.Intn(len(ws))]
	n := r.Range(6, 14) + W
	var evs []c09PipeEvent
	next := 1
	var inflight []int
	stopped := false
	for i := 0; i < n; i++ {
		x := r.Intn(100)
		switch {
		case x < 50:
			evs = append(evs, c09PipeEvent{'s', next})
			inflight = append(inflight, next)
			next++
			out.Count("pipe:ev:send-valid")
		case x < 62:
			evs = append(evs, c09PipeEvent{'b', next})
			next++
			out.Count("pipe:ev:send-malformed")
		case x < 90 && len(inflight) > 0:
			k := r.Intn(len(inflight))
			evs = append(evs, c09PipeEvent{'r', inflight[k]})
			inflight = append(inflight[:k], inflight[k+1:]...)
			out.Count("pipe:ev:release")
		case x < 93:
			evs = append(evs, c09PipeEvent{'r', r.Intn(next + 3)}) // mostly not held: a no-op on both sides
			out.Count("pipe:ev:release-arbitrary")
		case x >= 96 && !stopped && i > 3:
			evs = append(evs, c09PipeEvent{'c', 0})
			stopped = true
			out.Count("pipe:ev:stop")
		default:
			evs = append(evs, c09PipeEvent{'s', next})
			inflight = append(inflight, next)
			next++
			out.Count("pipe:ev:send-valid")
		}
	}
	out.Count(fmt.Sprintf("pipe:workers:%d", W))
	return W, evs
}

// c09PipeMessages: corpus, then random scripts.
func c09PipeMessages(out *vlib.Out) {
	if !c09ValidNeedsProbe() {
		out.Note("pipe scripts skipped: the harness's valid message no longer reaches the liveness probe")
		out.Count("pipe:skipped")
		return
	}
	run := func(W int, evs []c09PipeEvent) bool {
		impl, ok := c09PipeRunScript(out, W, evs)
		if impl != "" {
			out.Case(fmt.Sprintf("pipe|%d|%s", W, c09PipeScript(evs)), impl, true)
		}
		return ok
	}
	if rp := vlib.Replay(); rp != "" {
		b, _ := os.ReadFile(rp)
		for _, line := range strings.Split(string(b), "\n") {
			if i := strings.Index(line, "pipe-script workers="); i >= 0 {
				var W int
				var evs string
				fmt.Sscanf(line[i:], "pipe-script workers=%d events=%s", &W, &evs)
				impl, _ := c09PipeRunScript(out, W, c09PipeParse(evs))
				fmt.Println("REPLAY", line[i:])
				fmt.Println("REPLAY impl:", impl)
				out.Case(fmt.Sprintf("pipe|%d|%s", W, evs), impl, true)
			}
		}
		return
	}
	corpus := []struct {
		w int
		s string
	}{
		{10, "s1v,s2v,s3b,s4v,s5v,s6v,s7v,s8v,s9v,s10v,s11v,s12v,s13v,r1,r12,c,r2,s14v"},
		{2, "s1v,s2v,s3v,r1,s4b,c,r2,r3"},
		{1, "s1b,s2v,s3b,s4v,r2,s5v,r5"},
		{3, "s1v,s2v,s3v,s4v,s5b,r2,s6v,r1,r3,r6,s7v"},
		{20, "s1v,s2v,s3v,s4v,s5v,s6v,s7v,s8v,s9v,s10v,s11v,s12v,s13v,s14v,s15v,s16v,s17v,s18v,s19v,s20v,s21v,s22v,s23v,s24b,r3,r4,s25v,c,s26v,r1"},
		{3, "c,s1v,s2b"},
		{0, "s1v,s2b,s3v,r1,c,r3"},
	}
	bad := 0
	for _, c := range corpus {
		out.Count("pipe:corpus")
		if !run(c.w, c09PipeParse(c.s)) {
			bad++
		}
	}
	r := vlib.NewRand("C09pipe")
	n := vlib.Budget(40, 400)
	for i := 0; i < n && bad < 3; i++ {
		W, evs := c09PipeGen(r, out)
		if !run(W, evs) {
			bad++
		}
	}
}
