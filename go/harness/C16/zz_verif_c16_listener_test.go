//go:build verif

package dtls

// C16, listener half: the real Listener driven one macro step at a time (correspondence with the
// Lean model), the real listener with concurrent dial/accept pairs over loopback UDP (oracle),
// certificate derivation, and sessions over the real pion stack.

import (
	"bytes"
	"context"
	"crypto/ecdsa"
	"crypto/elliptic"
	crand "crypto/rand"
	"crypto/sha256"
	"crypto/tls"
	"crypto/x509"
	"encoding/gob"
	"fmt"
	"net"
	"sort"
	"strings"
	"sync"
	"sync/atomic"
	"time"

	"github.com/pion/dtls/v2"
	"github.com/pion/dtls/v2/pkg/protocol/handshake"
	"github.com/refraction-networking/conjure/internal/vlib"
)

// c16Secret(i): the secret with index i.  The small indices — the secrets of the controlled listener runs — are
// two pairs of *related* distinct secrets: 3 is 2 followed by a zero byte, 1 is longer than a hash block and 0 is
// its SHA-256 digest (see zz_verif_c16_secrets_test.go); every other index gives an unrelated 32-byte secret.
func c16Secret(i int) []byte {
	switch i {
	case 0:
		d := sha256.Sum256(c16Secret(1))
		return d[:]
	case 1:
		s := make([]byte, 100)
		for j := range s {
			s[j] = byte(29 + j*3 + 1)
		}
		return s
	case 3:
		return append(c16Secret(2), 0)
	}
	s := make([]byte, 32)
	for j := range s {
		s[j] = byte(i*29 + j*3 + 1)
	}
	return s
}

type c16Certs struct {
	client, server *tls.Certificate
	rnd            [handshake.RandomBytesLength]byte
}

var (
	c16CertMu    sync.Mutex
	c16CertCache = map[int]*c16Certs{}
)

func c16CertsOf(i int) *c16Certs {
	c16CertMu.Lock()
	defer c16CertMu.Unlock()
	if c, ok := c16CertCache[i]; ok {
		return c
	}
	cl, sv, err := certsFromSeed(c16Secret(i))
	if err != nil {
		panic(err)
	}
	rnd, err := clientHelloRandomFromSeed(c16Secret(i))
	if err != nil {
		panic(err)
	}
	c := &c16Certs{cl, sv, rnd}
	c16CertCache[i] = c
	return c
}

func c16PubKey(der []byte) *ecdsa.PublicKey {
	c, err := x509.ParseCertificate(der)
	if err != nil {
		return nil
	}
	k, _ := c.PublicKey.(*ecdsa.PublicKey)
	return k
}

func c16NewListener() *Listener {
	def, err := randomCertificate()
	if err != nil {
		panic(err)
	}
	return &Listener{
		connMap:     map[[handshake.RandomBytesLength]byte](chan net.Conn){},
		connToCert:  map[[handshake.RandomBytesLength]byte]*certPair{},
		defaultCert: def,
		closed:      make(chan struct{}),
		logAuthFail: func(*net.IP) {},
		logOther:    func(*net.IP) {},
	}
}

// registered secrets of both maps (by secret index), read under the listener's own mutexes
func c16Dump(l *Listener, ids []int) (string, int, int) {
	var certs, chans []string
	l.connToCertMutex.Lock()
	nc := len(l.connToCert)
	for _, i := range ids {
		if l.connToCert[c16CertsOf(i).rnd] != nil {
			certs = append(certs, fmt.Sprint(i))
		}
	}
	l.connToCertMutex.Unlock()
	l.connMapMutex.Lock()
	nh := len(l.connMap)
	for _, i := range ids {
		if l.connMap[c16CertsOf(i).rnd] != nil {
			chans = append(chans, fmt.Sprint(i))
		}
	}
	l.connMapMutex.Unlock()
	return strings.Join(certs, ".") + "/" + strings.Join(chans, "."), nc, nh
}

type c16FakeConn struct {
	net.Conn
	h int
}

// a dtls.State with the given hello random and peer certificate, built through its binary form
type c16SerializedState struct {
	LocalEpoch            uint16
	RemoteEpoch           uint16
	LocalRandom           [handshake.RandomLength]byte
	RemoteRandom          [handshake.RandomLength]byte
	CipherSuiteID         uint16
	MasterSecret          []byte
	SequenceNumber        uint64
	SRTPProtectionProfile uint16
	PeerCertificates      [][]byte
	IdentityHint          []byte
	SessionID             []byte
	IsClient              bool
}

func c16State(rnd [handshake.RandomBytesLength]byte, peer []byte) *dtls.State {
	ss := c16SerializedState{CipherSuiteID: uint16(dtls.TLS_ECDHE_ECDSA_WITH_AES_128_GCM_SHA256), MasterSecret: make([]byte, 48), PeerCertificates: [][]byte{peer}}
	copy(ss.RemoteRandom[handshake.RandomLength-handshake.RandomBytesLength:], rnd[:])
	var buf bytes.Buffer
	if err := gob.NewEncoder(&buf).Encode(ss); err != nil {
		panic(err)
	}
	st := &dtls.State{}
	_ = st.UnmarshalBinary(buf.Bytes())
	return st
}

type c16AccRes struct {
	conn net.Conn
	err  error
}

type c16Acc struct {
	id     int
	cancel context.CancelFunc
	res    chan c16AccRes
	state  string // waiting | done
}

type c16Hs struct {
	rnd, cert   int
	stage       string // verify | route | send | done
	heldAtHello bool   // ground truth: an Accept was waiting for the hello-random's secret when the hello arrived
	shown       *tls.Certificate
	ch          chan<- net.Conn
	owner       int // the acceptor registered for the secret when the channel was fetched
}

// c16Hangs counts waits of the controlled listener runs that ran into their guard.  Each is reported; after two of
// them the remaining sequences are skipped (counted): a tree on which every sequence hangs must not turn a 3-second
// section into the harness's timeout.
var c16Hangs atomic.Int32

// guard of one wait in the controlled runs (everything is in-process: channel operations and map look-ups)
const c16Guard = 10 * time.Second

// c16Controlled runs one generated macro-step sequence on a real Listener (no network): acceptors are
// real goroutines inside acceptDTLSConn, the handshake goroutine's steps are the listener's own
// methods called in acceptLoop's order.
func c16Controlled(out *vlib.Out, r *vlib.Rand, nops int) {
	if c16Hangs.Load() >= 2 {
		out.Count("listener-controlled:skipped-after-two-hangs")
		return
	}
	l := c16NewListener()
	ids := []int{0, 1, 2, 3, 9} // 9 is never registered
	accs := map[int]*c16Acc{}
	hss := map[int]*c16Hs{}
	holder := map[int]int{} // secret -> live acceptor (ground truth)
	var mops, outs []string
	nextA, nextH := 0, 0
	line := func() string { return "dtls|" + strings.Join(mops, ";") }
	fail := func(sig, what string) { out.OracleFail(sig, what, line()) }
	record := func(op, ans string) {
		d, _, _ := c16Dump(l, ids)
		mops = append(mops, op)
		outs = append(outs, ans+"/"+d)
		out.Count("listener-op:" + op[:1] + ":" + strings.SplitN(ans, ":", 2)[0])
		// Ground truth, independent of the model: between macro steps every goroutine is parked or has
		// returned, so a secret is registered (in BOTH maps) exactly while a live Accept holds it.  A refused
		// duplicate, a cancellation or a delivery for one acceptor must not disturb another one's entries.
		out.Checked()
		for _, id := range ids {
			one, _, _ := c16Dump(l, []int{id})
			hasCert, hasChan := strings.HasPrefix(one, fmt.Sprint(id)+"/"), strings.HasSuffix(one, "/"+fmt.Sprint(id))
			a, held := holder[id]
			switch {
			case held && (!hasCert || !hasChan):
				fail("C16:waiting-acceptor-lost-registration", fmt.Sprintf("after %s: acceptor %d is still waiting for secret %d but its registration is damaged (certificate registered: %v, channel registered: %v)", op, a, id, hasCert, hasChan))
			case !held && (hasCert || hasChan):
				fail("C16:registration-leaked", fmt.Sprintf("after %s: no Accept is waiting for secret %d but it is still registered (certificate %v, channel %v)", op, id, hasCert, hasChan))
			}
		}
	}
	waitRes := func(a *c16Acc, d time.Duration) (c16AccRes, bool) {
		select {
		case r := <-a.res:
			return r, true
		case <-time.After(d):
			if d >= time.Second {
				c16Hangs.Add(1)
			}
			return c16AccRes{}, false
		}
	}
	checkFree := func(a int, id int) {
		// an acceptor that returned owns nothing: its secret is registered only if another live acceptor holds it
		out.Checked()
		if h, ok := holder[id]; ok && h != a {
			return
		}
		l.connToCertMutex.Lock()
		c := l.connToCert[c16CertsOf(id).rnd] != nil
		l.connToCertMutex.Unlock()
		l.connMapMutex.Lock()
		m := l.connMap[c16CertsOf(id).rnd] != nil
		l.connMapMutex.Unlock()
		if c || m {
			fail("C16:registration-leaked", fmt.Sprintf("acceptor %d returned but secret %d is still registered (cert %v, channel %v)", a, id, c, m))
		}
	}
	for step := 0; step < nops; step++ {
		var waiting, routable, verifiable, sendable []int

		for a, x := range accs {
			if x.state == "waiting" {
				waiting = append(waiting, a)
			}
		}
		for h, x := range hss {
			switch x.stage {
			case "verify":
				verifiable = append(verifiable, h)
			case "route":
				routable = append(routable, h)
			case "send":
				sendable = append(sendable, h)
			}
		}
		sort.Ints(waiting)
		sort.Ints(routable)
		sort.Ints(verifiable)
		sort.Ints(sendable)
		x := r.Intn(100)
		switch {
		case x < 18 || (len(accs) == 0 && x < 50):
			// a new Accept
			a, id := nextA, ids[r.Intn(4)]
			nextA++
			ctx, cancel := context.WithCancel(context.Background())
			acc := &c16Acc{id: id, cancel: cancel, res: make(chan c16AccRes, 1)}
			accs[a] = acc
			go func() {
				c, err := l.acceptDTLSConn(ctx, &Config{PSK: c16Secret(id)})
				acc.res <- c16AccRes{c, err}
			}()
			_, dup := holder[id]
			if dup {
				res, ok := waitRes(acc, c16Guard)
				out.Checked()
				switch {
				case !ok:
					record(fmt.Sprintf("A%d:%d", a, id), "hang")
					fail("C16:duplicate-secret-not-rejected", fmt.Sprintf("a second Accept for secret %d neither failed nor returned", id))
					return
				case res.err == nil || !strings.Contains(res.err.Error(), "already registered"):
					record(fmt.Sprintf("A%d:%d", a, id), "?")
					fail("C16:duplicate-secret-not-rejected", fmt.Sprintf("a second Accept for secret %d returned (%v, %v)", id, res.conn, res.err))
					return
				}
				acc.state = "done"
				record(fmt.Sprintf("A%d:%d", a, id), "fail")
				break
			}
			// wait until it sits in its select: both maps carry the secret
			deadline := time.Now().Add(c16Guard)
			for {
				d, _, _ := c16Dump(l, []int{id})
				if d == fmt.Sprintf("%d/%d", id, id) {
					break
				}
				// nobody holds the secret and nothing was sent: this Accept has to wait; if it came back there is nothing to wait for
				var res c16AccRes
				back := false
				select {
				case res = <-acc.res:
					back = true
				default:
				}
				if back {
					acc.state = "done"
					record(fmt.Sprintf("A%d:%d", a, id), "returned")
					out.Checked()
					fail("C16:accept-refused-for-free-secret", fmt.Sprintf("no Accept holds secret %d, yet a new Accept for it returned at once (%v, %v) instead of waiting for its session", id, res.conn, res.err))
					return
				}
				if time.Now().After(deadline) {
					c16Hangs.Add(1)
					record(fmt.Sprintf("A%d:%d", a, id), "hang")
					out.Checked()
					fail("C16:accept-does-not-register", fmt.Sprintf("an Accept for secret %d that nobody holds neither registered in both maps nor returned within 10 s", id))
					return
				}
				time.Sleep(50 * time.Microsecond)
			}
			holder[id] = a
			acc.state = "waiting"
			record(fmt.Sprintf("A%d:%d", a, id), "wait")
		case x >= 18 && x < 36:
			// a client hello: matching, unregistered, or random/certificate of different secrets
			h := nextH
			nextH++
			rnd := ids[r.Intn(5)]
			if len(holder) > 0 && r.Chance(7, 10) {
				var held []int
				for id := range holder {
					held = append(held, id)
				}
				sort.Ints(held)
				rnd = held[r.Intn(len(held))]
			}
			cert := rnd
			if r.Chance(1, 5) {
				cert = ids[r.Intn(5)]
			}
			hs := &c16Hs{rnd: rnd, cert: cert, stage: "verify"}
			hss[h] = hs
			_, hs.heldAtHello = holder[rnd]
			shown, err := l.getCertificateFromClientHello(&dtls.ClientHelloInfo{CipherSuites: []dtls.CipherSuiteID{dtls.TLS_ECDHE_ECDSA_WITH_AES_128_GCM_SHA256}, RandomBytes: c16CertsOf(rnd).rnd})
			ans := "shown:random"
			if err != nil || shown == nil {
				ans = "shown:error"
			} else {
				hs.shown = shown
				k := c16PubKey(shown.Certificate[0])
				for _, i := range ids {
					if k != nil && k.Equal(c16PubKey(c16CertsOf(i).server.Certificate[0])) {
						ans = fmt.Sprintf("shown:%d", i)
					}
				}
			}
			record(fmt.Sprintf("H%d:%d:%d", h, rnd, cert), ans)
			out.Checked()
			if want := map[bool]string{true: fmt.Sprintf("shown:%d", rnd), false: "shown:random"}[hs.heldAtHello]; ans != want {
				fail("C16:wrong-certificate-shown", fmt.Sprintf("client hello with the random of secret %d (an Accept is waiting for it: %v) was answered %q, expected %q", rnd, hs.heldAtHello, ans, want))
			}
		case x >= 36 && x < 54 && len(verifiable) > 0:
			h := verifiable[r.Intn(len(verifiable))]
			hs := hss[h]
			// server side (the listener's VerifyConnection) and client side (dial.go's verifyServerCertificate)
			errS := l.verifyConnection(c16State(c16CertsOf(hs.rnd).rnd, c16CertsOf(hs.cert).client.Certificate[0]))
			var errC error = fmt.Errorf("no certificate shown")
			if hs.shown != nil {
				errC = verifyCert(hs.shown.Certificate[0], c16CertsOf(hs.cert).server.Certificate[0])
			}
			_, heldNow := holder[hs.rnd]
			wantOK := hs.heldAtHello && heldNow && hs.cert == hs.rnd
			if errS == nil && errC == nil {
				hs.stage = "route"
				record(fmt.Sprintf("V%d", h), "ok")
			} else {
				hs.stage = "done"
				record(fmt.Sprintf("V%d", h), "drop")
			}
			out.Checked()
			switch gotOK := errS == nil && errC == nil; {
			case gotOK && hs.cert != hs.rnd:
				fail("C16:handshake-with-different-secrets", fmt.Sprintf("hello-random of secret %d with certificates of secret %d passed the verification on both ends", hs.rnd, hs.cert))
			case gotOK && !wantOK:
				fail("C16:handshake-with-unregistered-secret", fmt.Sprintf("a handshake for secret %d passed the verification although no Accept held the secret throughout", hs.rnd))
			case !gotOK && wantOK:
				fail("C16:same-secret-handshake-rejected", fmt.Sprintf("client and waiting Accept both use secret %d but the verification failed (listener side: %v, dialling side: %v)", hs.rnd, errS, errC))
			}
		case x >= 54 && x < 68 && len(routable) > 0:
			h := routable[r.Intn(len(routable))]
			hs := hss[h]
			ch, err := l.chFromID(c16CertsOf(hs.rnd).rnd)
			out.Checked()
			if _, held := holder[hs.rnd]; held != (err == nil) {
				mops = append(mops, fmt.Sprintf("R%d", h))
				outs = append(outs, "?")
				fail("C16:routing-disagrees-with-waiting-acceptors", fmt.Sprintf("an established connection for secret %d: an Accept is waiting for it: %v, channel found: %v", hs.rnd, held, err == nil))
				return
			}
			if err != nil {
				hs.stage = "done"
				record(fmt.Sprintf("R%d", h), "drop")
				break
			}
			hs.stage, hs.ch, hs.owner = "send", ch, -1
			if a, ok := holder[hs.rnd]; ok {
				hs.owner = a
			}
			record(fmt.Sprintf("R%d", h), "ch")
		case x >= 68 && x < 84 && len(sendable) > 0 && r.Chance(5, 6):
			h := sendable[r.Intn(len(sendable))]
			hs := hss[h]
			select {
			case hs.ch <- &c16FakeConn{h: h}:
			default:
				record(fmt.Sprintf("S%d", h), "full")
				continue
			}
			hs.stage = "done"
			acc := accs[hs.owner]
			if acc == nil || acc.state != "waiting" {
				// the acceptor that owned the channel has returned: nobody will ever read this connection
				out.Count("listener:connection-sent-to-returned-acceptor")
				record(fmt.Sprintf("S%d", h), "sent:lost")
				break
			}
			if r.Chance(1, 4) {
				// the context is cancelled right behind the send: the select may see both; either outcome is
				// right, but a returned connection must be this one and nothing may stay registered
				acc.cancel()
				res, ok := waitRes(acc, c16Guard)
				if !ok {
					record(fmt.Sprintf("SXc%d", h), "hang")
					fail("C16:cancel-does-not-return", fmt.Sprintf("acceptor %d was sent a connection and cancelled but did not return", hs.owner))
					return
				}
				acc.state = "done"
				delete(holder, acc.id)
				// which case of the select the implementation took goes on the model line: the model takes the same
				// one (the registrations end up the same either way, the channel's buffer does not)
				if res.err == nil {
					got := -1
					if fc, isFake := res.conn.(*c16FakeConn); isFake {
						got = fc.h
					}
					record(fmt.Sprintf("SXc%d", h), fmt.Sprintf("sent:conn:%d", got))
					out.Count("listener:send-then-cancel:connection-won")
					out.Checked()
					if got != h {
						fail("C16:cross-delivery", fmt.Sprintf("acceptor %d was sent connection %d, was cancelled, and returned another connection (%v)", hs.owner, h, res.conn))
					}
				} else {
					record(fmt.Sprintf("SXx%d", h), "sent:cancelled")
					out.Count("listener:send-then-cancel:cancel-won")
				}
				checkFree(hs.owner, acc.id)
				break
			}
			res, ok := waitRes(acc, c16Guard)
			if !ok {
				record(fmt.Sprintf("S%d", h), "hang")
				fail("C16:delivered-connection-not-accepted", fmt.Sprintf("a connection was sent on acceptor %d's channel but Accept did not return", hs.owner))
				return
			}
			acc.state = "done"
			delete(holder, acc.id)
			got := -1
			if fc, ok := res.conn.(*c16FakeConn); ok && res.err == nil {
				got = fc.h
			}
			record(fmt.Sprintf("S%d", h), fmt.Sprintf("sent:conn:%d", got))
			out.Checked()
			if got != h {
				fail("C16:cross-delivery", fmt.Sprintf("acceptor %d was sent connection %d but returned %d (%v)", hs.owner, h, got, res.err))
			} else if hs.rnd != acc.id || hs.cert != acc.id {
				fail("C16:cross-delivery", fmt.Sprintf("acceptor %d waits for secret %d but received a connection with hello-random of secret %d and certificate of secret %d", hs.owner, acc.id, hs.rnd, hs.cert))
			}
			checkFree(hs.owner, acc.id)
		case x >= 68 && x < 84 && len(sendable) > 0:
			h := sendable[r.Intn(len(sendable))]
			hss[h].stage = "done"
			record(fmt.Sprintf("T%d", h), "drop")
		case x >= 84 && x < 94 && len(waiting) > 0:
			a := waiting[r.Intn(len(waiting))]
			acc := accs[a]
			if r.Chance(1, 3) {
				// nothing was sent to it: it must keep waiting
				if res, ok := waitRes(acc, 15*time.Millisecond); ok {
					record(fmt.Sprintf("W%d", a), "returned")
					fail("C16:accept-returned-without-connection", fmt.Sprintf("acceptor %d returned (%v, %v) although nothing was sent to it", a, res.conn, res.err))
					return
				}
				record(fmt.Sprintf("W%d", a), "blocked")
				break
			}
			acc.cancel()
			res, ok := waitRes(acc, c16Guard)
			if !ok {
				record(fmt.Sprintf("X%d", a), "hang")
				fail("C16:cancel-does-not-return", fmt.Sprintf("acceptor %d did not return after its context was cancelled", a))
				return
			}
			acc.state = "done"
			delete(holder, acc.id)
			if res.err == nil {
				record(fmt.Sprintf("X%d", a), "conn?")
			} else {
				record(fmt.Sprintf("X%d", a), "cancelled")
			}
			checkFree(a, acc.id)
		default:
			step--
			if r.Chance(1, 50) {
				step++
			}
		}
	}
	// everything returns: both maps must be empty
	for a, acc := range accs {
		if acc.state == "waiting" {
			acc.cancel()
			if _, ok := waitRes(acc, c16Guard); !ok {
				fail("C16:cancel-does-not-return", fmt.Sprintf("acceptor %d did not return after its context was cancelled", a))
				return
			}
		}
	}
	_, nc, nh := c16Dump(l, ids)
	out.Checked()
	if nc != 0 || nh != 0 {
		fail("C16:registration-leaked", fmt.Sprintf("all Accept calls returned; connToCert has %d entries, connMap has %d", nc, nh))
	}
	if len(mops) > 0 {
		out.Case(line(), strings.Join(outs, ";"), true)
	}
}

// ---------------------------------------------------------------------------------------------
// certificates

func c16Certificates(out *vlib.Out, r *vlib.Rand, n int) {
	for i := 0; i < n; i++ {
		seed := r.Bytes(r.Range(1, 64))
		c1, s1, err1 := certsFromSeed(seed)
		c2, s2, err2 := certsFromSeed(seed)
		r1, _ := clientHelloRandomFromSeed(seed)
		r2, _ := clientHelloRandomFromSeed(seed)
		replay := "certs seed=" + vlib.Hex(seed)
		out.Checked()
		if err1 != nil || err2 != nil {
			out.OracleFail("C16:certificate-derivation-fails", fmt.Sprintf("%v %v", err1, err2), replay)
			continue
		}
		same := func(a, b *tls.Certificate) bool {
			xa, ea := x509.ParseCertificate(a.Certificate[0])
			xb, eb := x509.ParseCertificate(b.Certificate[0])
			if ea != nil || eb != nil {
				return false
			}
			ka, _ := xa.PublicKey.(*ecdsa.PublicKey)
			pa, _ := a.PrivateKey.(*ecdsa.PrivateKey)
			pb, _ := b.PrivateKey.(*ecdsa.PrivateKey)
			return ka != nil && ka.Equal(xb.PublicKey) && pa != nil && pb != nil && pa.Equal(pb) &&
				xa.SerialNumber.Cmp(xb.SerialNumber) == 0 && xa.Subject.CommonName == xb.Subject.CommonName
		}
		if !same(c1, c2) || !same(s1, s2) || r1 != r2 {
			out.OracleFail("C16:certificates-differ-for-one-secret", "two derivations from one secret give different key / serial / name / hello-random", replay)
		}
		if same(c1, s1) {
			out.OracleFail("C16:client-and-server-certificate-equal", "client and server certificate of one secret share the key", replay)
		}
		// each verifies against its twin, and not against another secret's
		if verifyCert(c1.Certificate[0], c2.Certificate[0]) != nil || verifyCert(s1.Certificate[0], s2.Certificate[0]) != nil {
			out.OracleFail("C16:certificates-differ-for-one-secret", "a certificate does not verify against its second derivation", replay)
		}
		other := append(append([]byte(nil), seed...), 1)
		if r.Bool() {
			other = append([]byte(nil), seed...)
			other[r.Intn(len(other))] ^= 1 << uint(r.Intn(8))
		}
		co, so, _ := certsFromSeed(other)
		ro, _ := clientHelloRandomFromSeed(other)
		if verifyCert(c1.Certificate[0], co.Certificate[0]) == nil || verifyCert(s1.Certificate[0], so.Certificate[0]) == nil ||
			verifyCert(c1.Certificate[0], s1.Certificate[0]) == nil || ro == r1 {
			out.OracleFail("C16:certificate-accepted-for-other-secret", "a certificate verifies against one derived from a different secret (or hello-randoms collide)", replay)
		}
		out.Count("certs:derived-twice")
		// forged look-alikes of the client and of the server certificate: same serial number, names, validity and
		// usages (everything an observer of one handshake learns), but not signed by the key derived from the secret
		for which, real := range []*tls.Certificate{c1, s1} {
			for _, kind := range []string{"fresh-key", "right-public-key-foreign-signature", "signature-bit-flipped", "name-bit-flipped"} {
				forged, err := c16Forge(real, kind)
				if err != nil {
					out.Count("certs:forgery-not-built:" + kind)
					continue
				}
				out.Checked()
				out.Count("certs:forged:" + kind)
				if verifyCert(forged, real.Certificate[0]) == nil {
					out.OracleFail("C16:forged-certificate-accepted", fmt.Sprintf("a look-alike of the derived %s certificate (%s) verifies against the derived one", []string{"client", "server"}[which], kind), replay+" forged="+kind)
				}
			}
		}
	}
}

// c16LookalikeTemplate copies every visible field of a derived certificate into a template.
func c16LookalikeTemplate(real *tls.Certificate) (*x509.Certificate, *x509.Certificate, error) {
	xc, err := x509.ParseCertificate(real.Certificate[0])
	if err != nil {
		return nil, nil, err
	}
	return &x509.Certificate{
		SerialNumber: xc.SerialNumber, Subject: xc.Subject, DNSNames: xc.DNSNames, NotBefore: xc.NotBefore, NotAfter: xc.NotAfter,
		KeyUsage: xc.KeyUsage, ExtKeyUsage: xc.ExtKeyUsage, BasicConstraintsValid: xc.BasicConstraintsValid, IsCA: xc.IsCA,
		SignatureAlgorithm: xc.SignatureAlgorithm,
	}, xc, nil
}

// c16Forge builds the DER bytes of a look-alike of `real` that the holder of the secret did not sign.
func c16Forge(real *tls.Certificate, kind string) ([]byte, error) {
	tpl, xc, err := c16LookalikeTemplate(real)
	if err != nil {
		return nil, err
	}
	switch kind {
	case "fresh-key", "right-public-key-foreign-signature":
		fresh, err := ecdsa.GenerateKey(elliptic.P256(), crand.Reader)
		if err != nil {
			return nil, err
		}
		var pub interface{} = fresh.Public()
		if kind == "right-public-key-foreign-signature" {
			pub = xc.PublicKey
		}
		return x509.CreateCertificate(crand.Reader, tpl, tpl, pub, fresh)
	case "signature-bit-flipped":
		der := append([]byte(nil), real.Certificate[0]...)
		der[len(der)-1] ^= 0x01 // the last byte belongs to the signature value
		return der, nil
	case "name-bit-flipped":
		der := append([]byte(nil), real.Certificate[0]...)
		cn := []byte(xc.Subject.CommonName)
		i := bytes.Index(der, cn)
		if i < 0 || len(cn) == 0 {
			return nil, fmt.Errorf("common name not found in the encoding")
		}
		der[i] ^= 0x01 // a signed field changes, the signature stays
		return der, nil
	}
	return nil, fmt.Errorf("unknown kind")
}

// c16ForgedPair: a usable key pair under a look-alike certificate (for presenting it in a handshake)
func c16ForgedPair(real *tls.Certificate) (*tls.Certificate, error) {
	tpl, _, err := c16LookalikeTemplate(real)
	if err != nil {
		return nil, err
	}
	fresh, err := ecdsa.GenerateKey(elliptic.P256(), crand.Reader)
	if err != nil {
		return nil, err
	}
	der, err := x509.CreateCertificate(crand.Reader, tpl, tpl, fresh.Public(), fresh)
	if err != nil {
		return nil, err
	}
	return &tls.Certificate{Certificate: [][]byte{der}, PrivateKey: fresh}, nil
}

// ---------------------------------------------------------------------------------------------
// the real listener over loopback UDP with concurrent dial/accept pairs

type c16Pair struct {
	accSecret  int
	dialSecret int // -1: nobody dials
	dup        bool
	cancelAt   time.Duration // > 0: the Accept is cancelled after this delay
	dialDelay  time.Duration
}

// c16Concurrent returns (pairs whose session must be delivered if the machine keeps up, sessions delivered).
func c16Concurrent(out *vlib.Out, r *vlib.Rand, n int) (expected, delivered int) {
	l, err := Listen("udp", &net.UDPAddr{IP: net.IPv4(127, 0, 0, 1), Port: 0}, &Config{LogAuthFail: func(*net.IP) {}, LogOther: func(*net.IP) {}})
	if err != nil {
		out.Note("C16: cannot listen on loopback UDP: " + err.Error())
		out.Count("skip:no-loopback-udp")
		return 0, 0
	}
	defer c16Retire(l)
	addr := l.Addr().(*net.UDPAddr)
	pairs := make([]c16Pair, n)
	desc := make([]string, n)
	for i := range pairs {
		p := c16Pair{accSecret: 100 + i, dialSecret: 100 + i, dialDelay: time.Duration(r.Intn(60)) * time.Millisecond}
		switch r.Intn(8) {
		case 0:
			p.dialSecret = 5000 + i // a secret nobody registered
		case 1:
			p.dup = true // a second Accept with the same secret
		case 2:
			p.cancelAt = time.Duration(r.Intn(80)) * time.Millisecond
			if r.Bool() {
				p.dialSecret = -1
			}
		case 3:
			if i > 0 {
				p.accSecret, p.dialSecret = pairs[i-1].accSecret, -1 // equal secrets across pairs
			}
		}
		pairs[i] = p
		desc[i] = fmt.Sprintf("%d/%d/%v/%d/%d", p.accSecret, p.dialSecret, p.dup, p.cancelAt/time.Millisecond, p.dialDelay/time.Millisecond)
	}
	replay := fmt.Sprintf("concurrent n=%d pairs=%s", n, strings.Join(desc, ","))
	var mu sync.Mutex
	fail := func(sig, what string) {
		mu.Lock()
		out.OracleFail(sig, what, replay)
		mu.Unlock()
	}
	var wg sync.WaitGroup
	accept := func(secret int, cancelAt time.Duration, kind string) {
		defer wg.Done()
		ctx, cancel := context.WithTimeout(context.Background(), 14*time.Second)
		defer cancel()
		if cancelAt > 0 {
			go func() { time.Sleep(cancelAt); cancel() }()
		}
		conn, err := l.AcceptWithContext(ctx, &Config{PSK: c16Secret(secret), SCTP: ServerAccept})
		if err != nil {
			switch {
			case strings.Contains(err.Error(), "already registered"):
				out.Count("concurrent:accept-duplicate-rejected")
			case cancelAt > 0:
				out.Count("concurrent:accept-cancelled")
			default:
				out.Count("concurrent:accept-no-connection")
			}
			return
		}
		defer conn.Close()
		// the dialler announces the secret it used
		buf := make([]byte, 64)
		got := make(chan string, 1)
		go func() {
			n, err := conn.Read(buf)
			if err != nil {
				got <- "error:" + err.Error()
				return
			}
			got <- string(buf[:n])
		}()
		select {
		case m := <-got:
			out.Checked()
			if strings.HasPrefix(m, "error:") {
				out.Count("concurrent:accepted-but-no-message")
				return
			}
			if m != fmt.Sprintf("secret:%d", secret) {
				fail("C16:cross-delivery", fmt.Sprintf("the Accept waiting for secret %d received the session of %q", secret, m))
				return
			}
			out.Count("concurrent:delivered-to-matching-acceptor" + kind)
			mu.Lock()
			delivered++
			mu.Unlock()
			_, _ = conn.Write([]byte(fmt.Sprintf("ack:%d", secret)))
			time.Sleep(30 * time.Millisecond)
		case <-time.After(20 * time.Second):
			out.Count("concurrent:accepted-but-no-message")
		}
	}
	dial := func(secret int, delay time.Duration, registered bool) {
		defer wg.Done()
		time.Sleep(delay)
		ctx, cancel := context.WithTimeout(context.Background(), 10*time.Second)
		defer cancel()
		conn, err := DialWithContext(ctx, addr, &Config{PSK: c16Secret(secret), SCTP: ClientOpen})
		if err != nil {
			if registered {
				out.Count("concurrent:dial-failed")
			} else {
				out.Count("concurrent:dial-with-unregistered-secret-failed")
			}
			return
		}
		defer conn.Close()
		out.Checked()
		if !registered {
			fail("C16:handshake-with-unregistered-secret", fmt.Sprintf("a session was established with secret %d that no Accept registered", secret))
			return
		}
		_, _ = conn.Write([]byte(fmt.Sprintf("secret:%d", secret)))
		buf := make([]byte, 64)
		got := make(chan string, 1)
		go func() {
			n, err := conn.Read(buf)
			if err != nil {
				got <- "error"
				return
			}
			got <- string(buf[:n])
		}()
		select {
		case m := <-got:
			if m != "error" && m != fmt.Sprintf("ack:%d", secret) {
				fail("C16:cross-delivery", fmt.Sprintf("the dialler with secret %d was answered %q", secret, m))
			} else if m != "error" {
				out.Count("concurrent:dial-acknowledged")
			}
		case <-time.After(15 * time.Second):
		}
	}
	registered := map[int]bool{}
	for _, p := range pairs {
		registered[p.accSecret] = true
		if p.dialSecret == p.accSecret && p.cancelAt == 0 {
			expected++ // dialled with the registered secret and never cancelled (a refused duplicate must not matter)
		}
	}
	for _, p := range pairs {
		wg.Add(1)
		go accept(p.accSecret, p.cancelAt, "")
		if p.dup {
			wg.Add(1)
			go accept(p.accSecret, 0, "")
		}
		if p.dialSecret >= 0 {
			wg.Add(1)
			go dial(p.dialSecret, p.dialDelay, registered[p.dialSecret])
		}
	}
	wg.Wait()
	// every Accept has returned: nothing may be left registered
	out.Checked()
	l.connToCertMutex.Lock()
	nc := len(l.connToCert)
	l.connToCertMutex.Unlock()
	l.connMapMutex.Lock()
	nh := len(l.connMap)
	l.connMapMutex.Unlock()
	if nc != 0 || nh != 0 {
		fail("C16:registration-leaked", fmt.Sprintf("all Accept calls returned; connToCert has %d entries, connMap has %d", nc, nh))
	}
	out.Count(fmt.Sprintf("concurrent:round-of-%d-pairs", n))
	return expected, delivered
}

// ---------------------------------------------------------------------------------------------
// sessions over the real pion stack (net.Pipe): same secret works and is a faithful byte stream,
// different secrets do not complete the handshake

func c16Session(out *vlib.Out, r *vlib.Rand, sameSecret bool, forceHbEqual bool) string {
	server, client := net.Pipe()
	sSecret := 300 + r.Intn(1000)
	cSecret := sSecret
	if !sameSecret {
		cSecret = sSecret + 1 + r.Intn(5)
	}
	replay := fmt.Sprintf("session server-secret=%d client-secret=%d", sSecret, cSecret)
	ctx, cancel := context.WithTimeout(context.Background(), 8*time.Second)
	if sameSecret {
		ctx, cancel = context.WithTimeout(context.Background(), 30*time.Second)
	}
	defer cancel()
	type res struct {
		c   net.Conn
		err error
	}
	sch, cch := make(chan res, 1), make(chan res, 1)
	go func() {
		c, err := ServerWithContext(ctx, server, &Config{PSK: c16Secret(sSecret), SCTP: ServerAccept})
		sch <- res{c, err}
	}()
	go func() {
		c, err := ClientWithContext(ctx, client, &Config{PSK: c16Secret(cSecret), SCTP: ClientOpen})
		cch <- res{c, err}
	}()
	sr, cr := <-sch, <-cch
	defer server.Close()
	defer client.Close()
	if sr.c != nil {
		defer sr.c.Close()
	}
	if cr.c != nil {
		defer cr.c.Close()
	}
	out.Checked()
	if !sameSecret {
		if sr.err == nil && cr.err == nil {
			out.OracleFail("C16:handshake-with-different-secrets", "Server and Client with different secrets both report an established session", replay)
			return "accepted-both"
		}
		out.Count("session:different-secrets-rejected")
		return "rejected"
	}
	if sr.err != nil || cr.err != nil {
		// one slow handshake under load is not the property (counted); that at least one same-secret session
		// completes and carries its data is asserted by the caller over the whole run
		out.Count("session:same-secret-did-not-complete")
		return "no-handshake"
	}
	// client -> server: a sequence of messages of many sizes, one of them equal to the heartbeat payload
	hb := defaultConfig.Heartbeat
	var msgs [][]byte
	withHbEqual := r.Chance(1, 2) || forceHbEqual
	nm := r.Range(3, 8)
	for i := 0; i < nm; i++ {
		sz := []int{1, 2, 31, 32, 33, 1000, 16384, 65535, r.Range(1, 65535)}[r.Intn(9)]
		msgs = append(msgs, r.Bytes(sz))
	}
	if withHbEqual {
		msgs[r.Intn(len(msgs))] = append([]byte(nil), hb...)
	}
	var full, without []byte
	for _, m := range msgs {
		full = append(full, m...)
		if !bytes.Equal(m, hb) {
			without = append(without, m...)
		}
	}
	var mu sync.Mutex
	var got []byte
	lastRead := time.Now()
	readSizes := make([]int, 64)
	for i := range readSizes {
		readSizes[i] = []int{1, 7, 100, 4096, 65535, 65536, 70000}[r.Intn(7)]
	}
	go func() {
		for i := 0; ; i++ {
			buf := make([]byte, readSizes[i%len(readSizes)])
			n, err := sr.c.Read(buf)
			mu.Lock()
			got = append(got, buf[:n]...)
			lastRead = time.Now()
			mu.Unlock()
			if err != nil {
				return
			}
		}
	}()
	for _, m := range msgs {
		if _, err := cr.c.Write(m); err != nil {
			out.Count("session:write-error")
			return "write-error"
		}
	}
	deadline := time.Now().Add(20 * time.Second)
	for time.Now().Before(deadline) {
		mu.Lock()
		n, idle := len(got), time.Since(lastRead)
		mu.Unlock()
		if n >= len(full) || (n >= len(without) && idle > 700*time.Millisecond) {
			break
		}
		time.Sleep(10 * time.Millisecond)
	}
	mu.Lock()
	g := append([]byte(nil), got...)
	mu.Unlock()
	out.Checked()
	switch {
	case bytes.Equal(g, full):
		out.Count("session:stream-faithful")
		return "faithful"
	case withHbEqual && bytes.Equal(g, without):
		out.Count("session:heartbeat-equal-message-swallowed")
		out.OracleFail(c16SigHB, fmt.Sprintf("real session: a %d-byte application message equal to the heartbeat payload never reached the accepting side's reader (%d of %d bytes arrived)", len(hb), len(g), len(full)), replay+" msgs-with-heartbeat-equal")
		return "swallowed"
	case bytes.HasPrefix(full, g) || bytes.HasPrefix(without, g):
		out.Count("session:incomplete-within-timeout") // slow machine: not a safety violation
		return "incomplete"
	}
	out.OracleFail("C16:stream-bytes-differ", fmt.Sprintf("real session: the accepting side read %d bytes that are not the concatenation of the %d bytes written", len(g), len(full)), replay)
	return "differ"
}
