//go:build verif

package dtls

// C16, the history of ONE long-lived listener.
//
// The property speaks about "the shared listener": one Listener object serves every session of the station's
// lifetime.  The other parts of this harness use a listener for a handful of sessions; here one real listener over
// loopback UDP lives through a long history — hundreds of handshakes that end on every exit of acceptLoop's
// handshake goroutine, far more than any plausible internal bound — with matching dial/accept pairs inside the
// history and at its end.  Whatever a handshake takes (a slot, a counter, a map entry, a goroutine, …) must have been
// given back when it is over, however it ended: the matching pair after the history must be delivered exactly like
// the first one.
//
// Events (one letter each; the history string is the model line `loop|…` and the replay):
//
//	exit "handshake failed"        U  Dial with a secret nobody is accepting (random server certificate -> client aborts)
//	                               W  hello-random of a registered secret, client certificate of another secret
//	                               N  hello-random of a registered secret, no client certificate
//	                               G  garbage datagrams from a fresh socket (handshake goroutine waits out its 5 s)   [slow]
//	                               S  a client that goes silent after 1-3 datagrams of its handshake                  [slow]
//	exit "no acceptor"             O  handshake completes (certificate registered) but no channel is registered
//	exit "sent"                    P  matching pair: AcceptWithContext + DialWithContext with one secret, a message each way
//	exit "gave up (ctx.Done)"      F  two completed handshakes for one secret whose acceptor takes nothing: the first fills
//	                                  the channel (exit "sent"), the second waits out its 5 s                          [slow]
//	acceptor side                  C  an Accept that is cancelled before anybody dials
//	time                           T  wait until every slow handshake goroutine started so far has ended (5 s + margin)
//
// Oracles: every P must be delivered (three attempts with fresh secrets, `C16:matching-session-not-delivered`),
// U / W / N must not establish a session, and when the history is over nothing is registered.

import (
	"context"
	"crypto/sha256"
	"crypto/tls"
	"fmt"
	"net"
	"strings"
	"sync"
	"sync/atomic"
	"time"

	"github.com/pion/dtls/v2"
	"github.com/pion/dtls/v2/pkg/protocol/handshake"
	"github.com/refraction-networking/conjure/internal/vlib"
)

const c16HistKinds = "UWNGSOPFCT"

func c16HistSecret(tag string, n int) []byte {
	d := sha256.Sum256([]byte(fmt.Sprintf("c16-history/%s/%d", tag, n)))
	return d[:]
}

type c16HistId struct {
	secret         []byte
	client, server *tls.Certificate
	rnd            [handshake.RandomBytesLength]byte
}

func c16HistIdOf(tag string, n int) *c16HistId {
	s := c16HistSecret(tag, n)
	cl, sv, err := certsFromSeed(s)
	if err != nil {
		panic(err)
	}
	rnd, err := clientHelloRandomFromSeed(s)
	if err != nil {
		panic(err)
	}
	return &c16HistId{s, cl, sv, rnd}
}

// The stand-ins of an acceptor write the listener's two maps directly, under the listener's own mutexes (what
// registerCert / registerChannel / removeChannel / removeCert do), so that the histories do not depend on the
// signatures of those helpers.
func c16HistRegCert(l *Listener, id *c16HistId) bool {
	l.connToCertMutex.Lock()
	defer l.connToCertMutex.Unlock()
	if l.connToCert[id.rnd] != nil {
		return false
	}
	l.connToCert[id.rnd] = &certPair{clientCert: id.client, serverCert: id.server}
	return true
}

func c16HistRegChan(l *Listener, id *c16HistId) chan net.Conn {
	l.connMapMutex.Lock()
	defer l.connMapMutex.Unlock()
	ch := make(chan net.Conn, 1)
	l.connMap[id.rnd] = ch
	return ch
}

func c16HistUnregChan(l *Listener, id *c16HistId) {
	l.connMapMutex.Lock()
	defer l.connMapMutex.Unlock()
	delete(l.connMap, id.rnd)
}

func c16HistUnregCert(l *Listener, id *c16HistId) {
	l.connToCertMutex.Lock()
	defer l.connToCertMutex.Unlock()
	delete(l.connToCert, id.rnd)
}

// c16Mute lets the first `left` datagrams through and swallows the rest: a client that goes silent mid-handshake.
type c16Mute struct {
	net.Conn
	left atomic.Int32
}

func (m *c16Mute) Write(b []byte) (int, error) {
	if m.left.Add(-1) < 0 {
		return len(b), nil
	}
	return m.Conn.Write(b)
}

// c16HistGen draws a history: `fails` failing events weighted so that every exit of the handshake goroutine is taken
// often, matching pairs sprinkled in, then (if anything slow was started) T, then the final matching pair.
func c16HistGen(r *vlib.Rand, fails int) string {
	var sb strings.Builder
	slow := false
	// exits: handshake failed (U W N G S), no acceptor (O), gave up (F), acceptor side (C)
	for i := 0; i < fails; i++ {
		var k byte
		switch x := r.Intn(100); {
		case x < 12:
			k = 'U'
		case x < 22:
			k = 'W'
		case x < 30:
			k = 'N'
		case x < 40:
			k = 'G'
		case x < 50:
			k = 'S'
		case x < 72:
			k = 'O'
		case x < 92:
			k = 'F'
		default:
			k = 'C'
		}
		if k == 'G' || k == 'S' || k == 'F' {
			slow = true
		}
		sb.WriteByte(k)
		if r.Intn(45) == 0 {
			sb.WriteByte('P')
		}
		if slow && r.Intn(120) == 0 {
			sb.WriteString("TP")
			slow = false
		}
	}
	if slow {
		sb.WriteByte('T')
	}
	sb.WriteByte('P')
	return sb.String()
}

// c16History runs one history on one real listener.  It returns false when the run could not be made (no loopback).
func c16History(out *vlib.Out, tag string, evs string) bool {
	for i := 0; i < len(evs); i++ {
		if !strings.ContainsRune(c16HistKinds, rune(evs[i])) {
			fmt.Println("C16 history: unreadable event", string(evs[i]))
			return false
		}
	}
	l, err := Listen("udp", &net.UDPAddr{IP: net.IPv4(127, 0, 0, 1), Port: 0}, &Config{LogAuthFail: func(*net.IP) {}, LogOther: func(*net.IP) {}})
	if err != nil {
		out.Note("C16: cannot listen on loopback UDP: " + err.Error())
		out.Count("skip:no-loopback-udp")
		return false
	}
	defer c16Retire(l)
	addr := l.Addr().(*net.UDPAddr)
	line := "loop|" + evs
	nextSecret := 0
	fresh := func() *c16HistId { nextSecret++; return c16HistIdOf(tag, nextSecret) }

	var bgWG sync.WaitGroup    // silent clients still running
	var cleanup []func()       // what a slow event left registered / open, undone at T (or at the end)
	var lastSlow time.Time     // start of the latest slow handshake
	var answer strings.Builder // one character per event
	failures := 0              // failed handshakes so far on this listener
	t0 := time.Now()

	bare := func(id *c16HistId, certs []tls.Certificate, d time.Duration) (*dtls.Conn, error) {
		conn, err := net.DialUDP("udp", nil, addr)
		if err != nil {
			return nil, err
		}
		hctx, hcancel := context.WithTimeout(context.Background(), d)
		defer hcancel()
		rc, cerr := dtls.ClientWithContext(hctx, conn, c16RawClientConfig(&id.rnd, certs))
		if cerr != nil {
			conn.Close()
			return nil, cerr
		}
		return rc, nil
	}
	settle := func() {
		if !lastSlow.IsZero() {
			if d := time.Until(lastSlow.Add(defaultAcceptTimeout + 1500*time.Millisecond)); d > 0 {
				time.Sleep(d)
			}
		}
		bgWG.Wait()
		for _, f := range cleanup {
			f()
		}
		cleanup = nil
		lastSlow = time.Time{}
	}
	defer settle()

	// one attempt of a matching pair; "" = delivered and the secret's message went both ways
	pair := func(id *c16HistId) (why string, cross string) {
		ctx, cancel := context.WithTimeout(context.Background(), 9*time.Second)
		defer cancel()
		type accRes struct {
			msg string
			err error
		}
		accCh := make(chan accRes, 1)
		returned := make(chan struct{})
		go func() {
			c, err := l.AcceptWithContext(ctx, &Config{PSK: id.secret, SCTP: ServerAccept})
			close(returned)
			if err != nil {
				accCh <- accRes{"", err}
				return
			}
			defer c.Close()
			_ = c.SetReadDeadline(time.Now().Add(8 * time.Second))
			buf := make([]byte, 64)
			n, err := c.Read(buf)
			if err == nil {
				_, _ = c.Write([]byte("ack:" + string(buf[:n])))
				time.Sleep(30 * time.Millisecond)
			}
			accCh <- accRes{string(buf[:n]), err}
		}()
		if !c16WaitRegistered(l, id.rnd, 8*time.Second, returned) {
			cancel()
			res := <-accCh
			return fmt.Sprintf("the Accept did not register (%v)", res.err), ""
		}
		dctx, dcancel := context.WithTimeout(context.Background(), 7*time.Second)
		defer dcancel()
		c, err := DialWithContext(dctx, addr, &Config{PSK: id.secret, SCTP: ClientOpen})
		if err != nil {
			cancel()
			<-accCh
			return "dial: " + err.Error(), ""
		}
		defer c.Close()
		want := fmt.Sprintf("history:%x", id.secret[:6])
		if _, err := c.Write([]byte(want)); err != nil {
			cancel()
			<-accCh
			return "write: " + err.Error(), ""
		}
		select {
		case res := <-accCh:
			switch {
			case res.err != nil:
				return "accept: " + res.err.Error(), ""
			case res.msg != want:
				return "", fmt.Sprintf("the Accept received %q, the dialler of its secret wrote %q", res.msg, want)
			}
		case <-time.After(12 * time.Second):
			return "the Accept neither returned nor failed", ""
		}
		_ = c.SetReadDeadline(time.Now().Add(8 * time.Second))
		buf := make([]byte, 64)
		n, err := c.Read(buf)
		if err != nil {
			return "read of the acknowledgement: " + err.Error(), ""
		}
		if string(buf[:n]) != "ack:"+want {
			return "", fmt.Sprintf("the dialler was answered %q, expected %q", buf[:n], "ack:"+want)
		}
		return "", ""
	}

	// the positive clause of the property, evaluated at this moment of the history: a matching pair must be delivered
	matching := func(where string) bool {
		ok := false
		var whys []string
		for try := 0; try < 3 && !ok; try++ {
			why, cross := pair(fresh())
			if cross != "" {
				out.Checked()
				out.OracleFail("C16:cross-delivery", where+": "+cross, line)
				return true
			}
			ok = why == ""
			whys = append(whys, why)
		}
		out.Checked()
		if !ok {
			out.OracleFail("C16:matching-session-not-delivered", fmt.Sprintf("%s: client and waiting Accept use the same secret but no session was delivered in 3 attempts (%s)", where, strings.Join(whys, " | ")), line)
			out.Count("history:aborted")
			return false
		}
		return true
	}
	// an event that did not go the way it goes on a listener that is alive (a refusal that took seconds, a handshake
	// with the right certificate that failed) is followed by a matching pair at once: if the listener has stopped
	// serving, that is what has to be reported, not waited out event by event
	probes := 0
	suspicious := func(where, what string) bool {
		out.Count("history:suspicious:" + what)
		if probes >= 3 {
			return true
		}
		probes++
		return matching(where + " [" + what + "]")
	}

	for pos := 0; pos < len(evs); pos++ {
		k := evs[pos]
		out.Count("history:event:" + string(k))
		where := fmt.Sprintf("event %d (%c) of a history of %d on one listener, after %d failed handshakes", pos, k, len(evs), failures)
		switch k {
		case 'U':
			id := fresh()
			tU := time.Now()
			uctx, ucancel := context.WithTimeout(context.Background(), 4*time.Second)
			c, err := DialWithContext(uctx, addr, &Config{PSK: id.secret, SCTP: ClientOpen})
			ucancel()
			if err != nil && time.Since(tU) > 2*time.Second && !suspicious(where, "refusal-took-seconds") {
				return true
			}
			out.Checked()
			if err == nil {
				c.Close()
				out.OracleFail("C16:handshake-with-unregistered-secret", where+": a session was established with a secret that no Accept registered", line)
				answer.WriteByte('!')
			} else {
				answer.WriteByte('r')
			}
			failures++
		case 'W', 'N':
			id, other := fresh(), fresh()
			if !c16HistRegCert(l, id) {
				answer.WriteByte('r')
				break
			}
			ch := c16HistRegChan(l, id)
			var certs []tls.Certificate
			if k == 'W' {
				certs = []tls.Certificate{*other.client}
			}
			tW := time.Now()
			rc, cerr := bare(id, certs, 4*time.Second)
			if cerr != nil && time.Since(tW) > 2*time.Second && !suspicious(where, "refusal-took-seconds") {
				c16HistUnregChan(l, id)
				c16HistUnregCert(l, id)
				return true
			}
			delivered := false
			select {
			case c := <-ch:
				delivered = true
				c.Close()
			case <-time.After(map[bool]time.Duration{true: 1500 * time.Millisecond, false: 20 * time.Millisecond}[cerr == nil]):
			}
			if rc != nil {
				rc.Close()
			}
			c16HistUnregChan(l, id)
			c16HistUnregCert(l, id)
			out.Checked()
			if delivered || cerr == nil {
				out.OracleFail("C16:listener-accepts-foreign-client-certificate", fmt.Sprintf("%s: a client with the hello-random of a registered secret and %s completed the handshake (client error %v, delivered %v)", where, map[byte]string{'W': "the certificate of another secret", 'N': "no certificate"}[k], cerr, delivered), line)
				answer.WriteByte('!')
			} else {
				answer.WriteByte('r')
			}
			failures++
		case 'O':
			id := fresh()
			if c16HistRegCert(l, id) {
				rc, cerr := bare(id, []tls.Certificate{*id.client}, 5*time.Second)
				if rc != nil {
					rc.Close()
				}
				if cerr == nil {
					out.Count("history:orphan:handshake-completed")
				} else {
					out.Count("history:orphan:handshake-failed")
					if !suspicious(where, "right-certificate-handshake-failed") {
						c16HistUnregCert(l, id)
						return true
					}
				}
				// the goroutine reaches chFromID right behind the handshake
				time.Sleep(2 * time.Millisecond)
				c16HistUnregCert(l, id)
			}
			answer.WriteByte('.')
			failures++
		case 'F':
			id := fresh()
			if c16HistRegCert(l, id) {
				ch := c16HistRegChan(l, id)
				var conns []*dtls.Conn
				for j := 0; j < 2; j++ {
					rc, cerr := bare(id, []tls.Certificate{*id.client}, 5*time.Second)
					if cerr == nil {
						conns = append(conns, rc)
						out.Count("history:full:handshake-completed")
					} else {
						out.Count("history:full:handshake-failed")
						if !suspicious(where, "right-certificate-handshake-failed") {
							c16HistUnregChan(l, id)
							c16HistUnregCert(l, id)
							return true
						}
					}
				}
				lastSlow = time.Now()
				cleanup = append(cleanup, func() {
					for {
						select {
						case c := <-ch:
							c.Close()
							continue
						default:
						}
						break
					}
					for _, c := range conns {
						c.Close()
					}
					c16HistUnregChan(l, id)
					c16HistUnregCert(l, id)
				})
			}
			answer.WriteByte('.')
			failures++
		case 'G':
			if conn, err := net.DialUDP("udp", nil, addr); err == nil {
				h := sha256.Sum256([]byte(fmt.Sprintf("%s/garbage/%d", tag, pos)))
				switch h[0] % 4 {
				case 0:
					_, _ = conn.Write(h[:1+int(h[1])%31])
				case 1: // looks like a DTLS 1.2 handshake record, content is noise
					_, _ = conn.Write(append([]byte{22, 254, 253, 0, 0, 0, 0, 0, 0, 0, 0, 0, 20}, h[:20]...))
				case 2: // an alert out of nowhere
					_, _ = conn.Write([]byte{21, 254, 253, 0, 0, 0, 0, 0, 0, 0, 0, 0, 2, 2, 40})
				default:
					for j := 0; j < 3; j++ {
						_, _ = conn.Write(h[j : 8+j*5])
					}
				}
				lastSlow = time.Now()
				cleanup = append(cleanup, func() { conn.Close() })
			}
			answer.WriteByte('.')
			failures++
		case 'S':
			id := fresh()
			if conn, err := net.DialUDP("udp", nil, addr); err == nil {
				m := &c16Mute{Conn: conn}
				m.left.Store(int32(1 + pos%3))
				lastSlow = time.Now()
				bgWG.Add(1)
				go func() {
					defer bgWG.Done()
					hctx, hcancel := context.WithTimeout(context.Background(), 400*time.Millisecond)
					defer hcancel()
					rc, err := dtls.ClientWithContext(hctx, m, c16RawClientConfig(&id.rnd, []tls.Certificate{*id.client}))
					if err == nil {
						rc.Close()
					} else {
						conn.Close()
					}
				}()
			}
			answer.WriteByte('.')
			failures++
		case 'C':
			id := fresh()
			ctx, cancel := context.WithCancel(context.Background())
			done := make(chan error, 1)
			returned := make(chan struct{})
			go func() {
				c, err := l.AcceptWithContext(ctx, &Config{PSK: id.secret, SCTP: ServerAccept})
				if err == nil {
					c.Close()
				}
				done <- err
				close(returned)
			}()
			c16WaitRegistered(l, id.rnd, 8*time.Second, returned)
			cancel()
			out.Checked()
			select {
			case err := <-done:
				if err == nil {
					out.OracleFail("C16:accept-returned-without-connection", where+": a cancelled Accept that nobody dialled returned a connection", line)
				}
			case <-time.After(20 * time.Second):
				out.OracleFail("C16:cancel-does-not-return", where+": Accept did not return after its context was cancelled", line)
			}
			answer.WriteByte('.')
		case 'T':
			settle()
			answer.WriteByte('.')
		case 'P':
			if !matching(where) {
				return true // the listener is dead for matching pairs: the rest of the history would only repeat it
			}
			out.Count("history:pair-delivered")
			answer.WriteByte('d')
		}
	}
	settle()
	// everything has returned: nothing may be left registered
	out.Checked()
	l.connToCertMutex.Lock()
	nc := len(l.connToCert)
	l.connToCertMutex.Unlock()
	l.connMapMutex.Lock()
	nh := len(l.connMap)
	l.connMapMutex.Unlock()
	if nc != 0 || nh != 0 {
		out.OracleFail("C16:registration-leaked", fmt.Sprintf("history of %d events on one listener: everything returned; connToCert has %d entries, connMap has %d", len(evs), nc, nh), line)
	}
	out.Case(line, fmt.Sprintf("%s regs=%d/%d", answer.String(), nc, nh), true)
	out.Count(fmt.Sprintf("history:failures>=%d", failures/50*50))
	_ = t0
	return true
}

// c16Histories: the corpus and the drawn histories of a tier.  Runs beside the rest of the harness (it mostly waits).
func c16Histories(out *vlib.Out, r *vlib.Rand, thorough bool) {
	t0 := time.Now()
	n := 0
	run := func(evs string) {
		n++
		c16History(out, fmt.Sprintf("%d-%d", r.Intn(1<<30), n), evs)
	}
	rep := func(k string, n int) string { return strings.Repeat(k, n) }
	// corpus: well past any plausible bound of one kind of failure, then the pair
	run(rep("U", 110) + "P")
	run("P" + rep("O", 70) + "P" + rep("F", 40) + rep("G", 40) + rep("S", 40) + "P" + "T" + "P")
	run(c16HistGen(r, 130))
	if thorough {
		for _, k := range []string{"W", "N", "O", "C"} {
			run("P" + rep(k, 140) + "P")
		}
		for _, k := range []string{"G", "S", "F"} {
			run("P" + rep(k, 140) + "TP")
		}
		run(rep("UP", 70) + rep("OP", 40))
		for i := 0; i < 4; i++ {
			run(c16HistGen(r, r.Range(150, 400)))
		}
	}
	out.Note(fmt.Sprintf("C16 listener histories: %d histories in %.1fs", n, time.Since(t0).Seconds()))
}

func c16ReplayHistory(out *vlib.Out, line string) bool {
	if !strings.HasPrefix(line, "loop|") {
		return false
	}
	c16History(out, "replay", strings.TrimPrefix(line, "loop|"))
	fmt.Println("REPLAY (the same history of events on one fresh listener; fresh secrets):", line)
	return true
}
