//go:build verif

package dtls

// C16, the dimension "related secrets".  The statement quantifies over all secrets: "a handshake completes only
// when both used the same secret".  Random secrets are unrelated; the pairs that can tell a derivation that is not
// injective are *related* ones: one a prefix of the other, extended by zero bytes or by other bytes, the digest of
// the other, its complement, its other case, its encoding, at the lengths where padding and block boundaries sit
// (0, 1, 31, 32, 33, 63, 64, 65, 128).  For every such pair of distinct secrets:
//
//   - the derived hello-randoms differ, the client keys differ, the server keys differ, and neither certificate
//     verifies against the other secret's (all pairs, every run);
//   - Server(a) and Client(b) do not both establish a session (net.Pipe; a selection in quick, all in thorough);
//   - on a real listener an Accept waiting for a is not handed the session dialled with b (loopback UDP).
//
// The secrets 0-3 of the controlled listener runs (c16Secret) are two such pairs as well, so the correspondence
// with the listener model — whose ids are distinct by construction — covers them at no cost.

import (
	"bytes"
	"context"
	"crypto/md5"
	"crypto/sha1"
	"crypto/sha256"
	"crypto/sha512"
	"encoding/base64"
	"encoding/hex"
	"fmt"
	"net"
	"strings"
	"sync"
	"time"

	"github.com/refraction-networking/conjure/internal/vlib"
)

type c16RelPair struct {
	kind string
	a, b []byte
}

var c16RelLengths = []int{0, 1, 31, 32, 33, 63, 64, 65, 128}

// c16RelatedSecrets: the structured pairs; the bases are drawn from r.  Equal pairs are left out.
func c16RelatedSecrets(r *vlib.Rand) []c16RelPair {
	var ps []c16RelPair
	add := func(kind string, a, b []byte) {
		if !bytes.Equal(a, b) {
			ps = append(ps, c16RelPair{kind, append([]byte{}, a...), append([]byte{}, b...)})
		}
	}
	cat := func(a []byte, b ...byte) []byte { return append(append([]byte{}, a...), b...) }
	for _, L := range c16RelLengths {
		s := r.Bytes(L)
		if L > 0 && s[L-1] == 0 {
			s[L-1] = 0x5a
		}
		tag := fmt.Sprintf("len%d:", L)
		add(tag+"zero-appended", s, cat(s, 0))
		add(tag+"zeros-appended-to-64", s, cat(s, make([]byte, 64-L%64)...))
		add(tag+"zeros-appended", s, cat(s, make([]byte, r.Range(2, 40))...))
		add(tag+"zero-prepended", s, cat([]byte{0}, s...))
		add(tag+"one-appended", s, cat(s, 1))
		add(tag+"ff-appended", s, cat(s, 0xff))
		add(tag+"space-appended", s, cat(s, ' '))
		add(tag+"newline-appended", s, cat(s, '\n'))
		add(tag+"doubled", s, cat(s, s...))
		add(tag+"hex-encoded", s, []byte(hex.EncodeToString(s)))
		add(tag+"base64-encoded", s, []byte(base64.StdEncoding.EncodeToString(s)))
		d256, d512, d384, d224, d1, dm := sha256.Sum256(s), sha512.Sum512(s), sha512.Sum384(s), sha256.Sum224(s), sha1.Sum(s), md5.Sum(s)
		add(tag+"sha256-digest", s, d256[:])
		add(tag+"sha512-digest", s, d512[:])
		add(tag+"sha384-digest", s, d384[:])
		add(tag+"sha224-digest", s, d224[:])
		add(tag+"sha1-digest", s, d1[:])
		add(tag+"md5-digest", s, dm[:])
		add(tag+"sha256-digest-hex", s, []byte(hex.EncodeToString(d256[:])))
		if L > 0 {
			add(tag+"last-byte-dropped", s, s[:L-1])
			add(tag+"first-byte-dropped", s, s[1:])
			comp, rev, bit, xor36, xor5c := cat(s), cat(s), cat(s), cat(s), cat(s)
			for i := range s {
				comp[i] = ^s[i]
				rev[i] = s[L-1-i]
				xor36[i] = s[i] ^ 0x36
				xor5c[i] = s[i] ^ 0x5c
			}
			bit[r.Intn(L)] ^= 1 << uint(r.Intn(8))
			add(tag+"complement", s, comp)
			add(tag+"reversed", s, rev)
			add(tag+"one-bit-flipped", s, bit)
			add(tag+"xor-ipad", s, xor36)
			add(tag+"xor-opad", s, xor5c)
			z := make([]byte, L)
			add(tag+"zeros-of-other-length", z, make([]byte, L+1))
			add(tag+"trailing-zeros-stripped", cat(s[:(L+1)/2], make([]byte, L-(L+1)/2)...), s[:(L+1)/2])
			txt := make([]byte, L)
			for i := range txt {
				txt[i] = "abcdefghijklmnopqrstuvwxyz"[r.Intn(26)]
			}
			add(tag+"upper-case", txt, []byte(strings.ToUpper(string(txt))))
		}
	}
	add("empty-vs-zero-byte", []byte{}, []byte{0})
	add("the-two-labels", []byte("clientHelloRandomFromSeed"), []byte("certsFromSeed"))
	add("label-vs-label-and-zero", []byte("certsFromSeed"), cat([]byte("certsFromSeed"), 0))
	return ps
}

func (p c16RelPair) replay() string {
	return fmt.Sprintf("secretpair kind=%s a=%s b=%s", p.kind, vlib.Hex(p.a), vlib.Hex(p.b))
}

// c16PairDerivation: what each end derives from the two secrets must differ in every part.
func c16PairDerivation(out *vlib.Out, p c16RelPair) bool {
	out.Checked()
	ca, sa, errA := certsFromSeed(p.a)
	cb, sb, errB := certsFromSeed(p.b)
	ra, errRA := clientHelloRandomFromSeed(p.a)
	rb, errRB := clientHelloRandomFromSeed(p.b)
	if errA != nil || errB != nil || errRA != nil || errRB != nil {
		out.OracleFail("C16:certificate-derivation-fails", fmt.Sprintf("%s: %v %v %v %v", p.kind, errA, errB, errRA, errRB), p.replay())
		return false
	}
	var shared []string
	if ra == rb {
		shared = append(shared, "hello-random")
	}
	if k := c16PubKey(ca.Certificate[0]); k != nil && k.Equal(c16PubKey(cb.Certificate[0])) {
		shared = append(shared, "client key")
	}
	if k := c16PubKey(sa.Certificate[0]); k != nil && k.Equal(c16PubKey(sb.Certificate[0])) {
		shared = append(shared, "server key")
	}
	if verifyCert(cb.Certificate[0], ca.Certificate[0]) == nil || verifyCert(ca.Certificate[0], cb.Certificate[0]) == nil {
		shared = append(shared, "client certificate verifies across")
	}
	if verifyCert(sb.Certificate[0], sa.Certificate[0]) == nil || verifyCert(sa.Certificate[0], sb.Certificate[0]) == nil {
		shared = append(shared, "server certificate verifies across")
	}
	out.Count("secretpair:derived:" + p.kind[strings.Index(p.kind, ":")+1:])
	if len(shared) > 0 {
		out.OracleFail("C16:distinct-secrets-share-credentials", fmt.Sprintf("two different secrets (%s: %d and %d bytes) derive the same %s", p.kind, len(p.a), len(p.b), strings.Join(shared, ", ")), p.replay())
		return false
	}
	return true
}

// c16PairHandshake: Server(a) and Client(b) over net.Pipe must not both report an established session.
func c16PairHandshake(out *vlib.Out, p c16RelPair) {
	server, client := net.Pipe()
	defer server.Close()
	defer client.Close()
	ctx, cancel := context.WithTimeout(context.Background(), 8*time.Second)
	defer cancel()
	sch, cch := make(chan c16Estab, 1), make(chan c16Estab, 1)
	go func() {
		c, err := ServerWithContext(ctx, server, &Config{PSK: p.a, SCTP: ServerAccept})
		sch <- c16Estab{c, err}
	}()
	go func() {
		c, err := ClientWithContext(ctx, client, &Config{PSK: p.b, SCTP: ClientOpen})
		cch <- c16Estab{c, err}
	}()
	sr, cr, both := c16AwaitBoth(sch, cch, func() { cancel(); server.Close(); client.Close() })
	out.Checked()
	if both {
		sr.c.Close()
		cr.c.Close()
		out.OracleFail("C16:handshake-with-different-secrets", fmt.Sprintf("Server and Client with two different secrets (%s: %d and %d bytes) both report an established session", p.kind, len(p.a), len(p.b)), p.replay())
		return
	}
	out.Count("secretpair:handshake-rejected")
}

// c16PairListener: an Accept waits for a on a real listener; the session dialled with b must not reach it.
func c16PairListener(out *vlib.Out, l *Listener, p c16RelPair) {
	addr := l.Addr().(*net.UDPAddr)
	actx, acancel := context.WithCancel(context.Background())
	defer acancel()
	ach := make(chan c16Estab, 1)
	returned := make(chan struct{})
	go func() {
		c, err := l.AcceptWithContext(actx, &Config{PSK: p.a, SCTP: ServerAccept})
		ach <- c16Estab{c, err}
		close(returned)
	}()
	rnd, _ := clientHelloRandomFromSeed(p.a)
	if !c16WaitRegistered(l, rnd, 10*time.Second, returned) {
		acancel()
		<-ach
		out.Count("secretpair:listener:accept-never-registered")
		return
	}
	dctx, dcancel := context.WithTimeout(context.Background(), 4*time.Second)
	dc, derr := DialWithContext(dctx, addr, &Config{PSK: p.b, SCTP: ClientOpen})
	dcancel()
	if dc != nil {
		defer dc.Close()
	}
	// a delivery would come right behind the handshake
	var got c16Estab
	delivered := false
	select {
	case got = <-ach:
		delivered = got.err == nil
	case <-time.After(map[bool]time.Duration{true: 3 * time.Second, false: 100 * time.Millisecond}[derr == nil]):
	}
	acancel()
	if !delivered {
		select {
		case got = <-ach:
			delivered = got.err == nil
		case <-time.After(10 * time.Second):
		}
	}
	if got.c != nil {
		got.c.Close()
	}
	out.Checked()
	switch {
	case delivered:
		out.OracleFail("C16:cross-delivery", fmt.Sprintf("the Accept waiting for one secret was handed the session dialled with a different one (%s: %d and %d bytes)", p.kind, len(p.a), len(p.b)), p.replay())
	case derr == nil:
		out.OracleFail("C16:handshake-with-unregistered-secret", fmt.Sprintf("a session was established with a secret no Accept registered, while an Accept waited for a related one (%s)", p.kind), p.replay())
	default:
		out.Count("secretpair:listener:not-delivered")
	}
}

// c16RelatedSecretsRun: derivation for every pair; handshakes and listener runs for the pairs whose kind is in
// `always` plus a drawn selection (all of them when n < 0).
func c16RelatedSecretsRun(out *vlib.Out, r *vlib.Rand, nHandshake, nListener int) {
	pairs := c16RelatedSecrets(r)
	for _, p := range pairs {
		c16PairDerivation(out, p)
	}
	always := func(p c16RelPair) bool {
		for _, k := range []string{"len32:zero-appended", "len0:zero-appended", "len128:sha256-digest", "len65:sha256-digest", "len31:zeros-appended-to-64", "len63:zero-appended"} {
			if p.kind == k {
				return true
			}
		}
		return false
	}
	pick := func(n int) []c16RelPair {
		if n < 0 || n >= len(pairs) {
			return pairs
		}
		var sel []c16RelPair
		for _, p := range pairs {
			if always(p) {
				sel = append(sel, p)
			}
		}
		for len(sel) < n {
			sel = append(sel, pairs[r.Intn(len(pairs))])
		}
		return sel
	}
	var wg sync.WaitGroup
	for i, p := range pick(nHandshake) {
		wg.Add(1)
		go func(p c16RelPair) { defer wg.Done(); c16PairHandshake(out, p) }(p)
		if i%4 == 3 {
			wg.Wait()
		}
	}
	wg.Wait()
	// the pairs share their base secrets: on one listener they run one after the other (a session dialled with s is
	// rightly delivered to another pair's Accept that waits for s); four listeners side by side
	sel := pick(nListener)
	for k := 0; k < 4; k++ {
		wg.Add(1)
		go func(k int) {
			defer wg.Done()
			l, err := Listen("udp", &net.UDPAddr{IP: net.IPv4(127, 0, 0, 1), Port: 0}, &Config{LogAuthFail: func(*net.IP) {}, LogOther: func(*net.IP) {}})
			if err != nil {
				out.Count("skip:no-loopback-udp")
				return
			}
			defer c16Retire(l)
			for i := k; i < len(sel); i += 4 {
				p := sel[i]
				// the two directions alternate: Accept(a)/Dial(b) and Accept(b)/Dial(a)
				if i%2 == 1 {
					p.a, p.b = p.b, p.a
				}
				c16PairListener(out, l, p)
			}
		}(k)
	}
	wg.Wait()
}

func c16ReplaySecrets(out *vlib.Out, line string) bool {
	if !strings.HasPrefix(line, "secretpair ") {
		return false
	}
	p := c16RelPair{}
	var ha, hb string
	for _, kv := range strings.Fields(line)[1:] {
		fmt.Sscanf(kv, "kind=%s", &p.kind)
		if strings.HasPrefix(kv, "a=") {
			ha = kv[2:]
		}
		if strings.HasPrefix(kv, "b=") {
			hb = kv[2:]
		}
	}
	p.a, p.b = c16Unhex(ha), c16Unhex(hb)
	if p.a == nil {
		p.a = []byte{}
	}
	if p.b == nil {
		p.b = []byte{}
	}
	c16PairDerivation(out, p)
	c16PairHandshake(out, p)
	if l, err := Listen("udp", &net.UDPAddr{IP: net.IPv4(127, 0, 0, 1), Port: 0}, &Config{LogAuthFail: func(*net.IP) {}, LogOther: func(*net.IP) {}}); err == nil {
		c16PairListener(out, l, p)
	}
	fmt.Println("REPLAY (the same two secrets: derivation, Server/Client, listener):", line)
	return true
}
