//go:build verif

package dtls

// C16, byte-stream half: the real SCTPConn / hbConn over a scripted msgStream.

import (
	"bytes"
	"errors"
	"fmt"
	"io"
	"net"
	"os"
	"strings"
	"sync"
	"time"

	"github.com/refraction-networking/conjure/internal/vlib"
)

var c16Other = errors.New("verif: some other stream error")

func c16ErrName(err error) string {
	switch {
	case err == nil:
		return "-"
	case errors.Is(err, io.EOF):
		return "eof"
	case errors.Is(err, os.ErrDeadlineExceeded):
		return "timeout"
	case errors.Is(err, io.ErrShortBuffer), errors.Is(err, ErrInsufficientBuffer):
		return "short"
	case errors.Is(err, net.ErrClosed):
		return "closed"
	case errors.Is(err, c16Other):
		return "other"
	}
	return "?" + strings.ReplaceAll(err.Error(), " ", "_")
}

func c16ErrOf(name string) error {
	switch name {
	case "eof":
		return io.EOF
	case "timeout":
		return os.ErrDeadlineExceeded
	case "short":
		return io.ErrShortBuffer
	case "closed":
		return net.ErrClosed
	case "other":
		return c16Other
	}
	return nil
}

type c16Item struct {
	b   []byte
	err string // "-" or an error name
	hb  bool   // ground truth: sent by the peer's heartbeat loop
}

// c16Stream is the scripted message stream: successive Reads return the scripted results, then the
// end error for ever; a message longer than the buffer is dropped with io.ErrShortBuffer (as pion
// does).  The write side keeps pion's buffered-amount accounting.
type c16Stream struct {
	mu       sync.Mutex
	items    []c16Item
	endErr   error
	wrote    [][]byte
	buffered uint64
	maxSeen  uint64
	th       uint64
	cb       func()
	closed   bool
	baCalls  int      // calls of BufferedAmount(): a writer has taken its flow-control decision
	gate     *c16Gate // concurrent-writer runs: see c16ConcurrentWriters
	// ground truth for "held back": a message handed over while amount+len exceeds the limit needs a
	// buffered-amount-low notification (the callback fired) that nobody has used yet
	overLimit int // messages handed to the stream (not by the heartbeat sender) with amount+len > limit
	fired     int // times the buffered-amount-low callback fired
	hbDirect  int // bytes written below the flow control (the harness's stand-in for the heartbeat sender)
}

// c16Gate holds every caller of BufferedAmount() until `want` callers have arrived or `wait` has passed.
// With the write mutex in place only one writer is ever between BufferedAmount() and Write(), so each
// caller just waits out the (short) delay; without it all writers read the same amount and pass together.
type c16Gate struct {
	mu      sync.Mutex
	want    int
	wait    time.Duration
	arrived int
	open    chan struct{}
}

func (g *c16Gate) arrive() {
	g.mu.Lock()
	if g.open == nil {
		g.open = make(chan struct{})
	}
	ch := g.open
	g.arrived++
	if g.arrived >= g.want {
		close(ch)
		g.open, g.arrived = nil, 0
		g.mu.Unlock()
		return
	}
	g.mu.Unlock()
	select {
	case <-ch:
	case <-time.After(g.wait):
		g.mu.Lock()
		if g.open == ch {
			close(ch)
			g.open, g.arrived = nil, 0
		}
		g.mu.Unlock()
	}
}

func (s *c16Stream) Read(b []byte) (int, error) {
	s.mu.Lock()
	defer s.mu.Unlock()
	if len(s.items) == 0 {
		if s.closed {
			// a loop that keeps reading a closed, exhausted stream must not burn a CPU for the rest of the run
			s.mu.Unlock()
			time.Sleep(50 * time.Millisecond)
			s.mu.Lock()
		}
		return 0, s.endErr
	}
	it := s.items[0]
	s.items = s.items[1:]
	if len(it.b) > len(b) {
		return 0, io.ErrShortBuffer
	}
	return copy(b, it.b), c16ErrOf(it.err)
}

func (s *c16Stream) Write(b []byte) (int, error) {
	s.mu.Lock()
	defer s.mu.Unlock()
	s.wrote = append(s.wrote, append([]byte(nil), b...))
	if s.buffered+uint64(len(b)) > writeMaxBufferedAmount+uint64(s.hbDirect) {
		s.overLimit++
	}
	s.buffered += uint64(len(b))
	if s.buffered > s.maxSeen {
		s.maxSeen = s.buffered
	}
	return len(b), nil
}

func (s *c16Stream) Close() error {
	s.mu.Lock()
	s.closed = true
	s.mu.Unlock()
	return nil
}

func (s *c16Stream) BufferedAmount() uint64 {
	s.mu.Lock()
	b := s.buffered
	s.baCalls++
	g := s.gate
	s.mu.Unlock()
	if g != nil {
		g.arrive()
	}
	return b
}

// amount / decisions are the harness's own views (they do not count as a writer's decision)
func (s *c16Stream) amount() uint64 {
	s.mu.Lock()
	defer s.mu.Unlock()
	return s.buffered
}

func (s *c16Stream) decisions() int {
	s.mu.Lock()
	defer s.mu.Unlock()
	return s.baCalls
}

// hbWrite: the heartbeat sender writes below the flow control
func (s *c16Stream) hbWrite(b []byte) {
	s.mu.Lock()
	s.wrote = append(s.wrote, append([]byte(nil), b...))
	s.buffered += uint64(len(b))
	s.hbDirect += len(b)
	if s.buffered > s.maxSeen {
		s.maxSeen = s.buffered
	}
	s.mu.Unlock()
}

// heldBack is the oracle of the flow-control clause on the scripted stream: the amount stayed within the
// proved bound, and no message went over the limit without a buffered-amount-low notification to account for it.
func (s *c16Stream) heldBack() (sig, what string) {
	s.mu.Lock()
	defer s.mu.Unlock()
	max := writeMaxBufferedAmount
	if s.maxSeen > max+max/2+uint64(s.hbDirect) {
		return "C16:buffered-amount-unbounded", fmt.Sprintf("buffered amount reached %d > %d", s.maxSeen, max+max/2+uint64(s.hbDirect))
	}
	if s.overLimit > s.fired {
		return "C16:writer-not-held-back", fmt.Sprintf("%d message(s) were handed to the stream although the buffered amount plus the message exceeded the limit of %d, but the network reported the amount low only %d time(s) (amount reached %d)", s.overLimit, max, s.fired, s.maxSeen)
	}
	return "", ""
}
func (s *c16Stream) SetReadDeadline(time.Time) error { return nil }
func (s *c16Stream) SetBufferedAmountLowThreshold(th uint64) {
	s.mu.Lock()
	s.th = th
	s.mu.Unlock()
}
func (s *c16Stream) OnBufferedAmountLow(f func()) {
	s.mu.Lock()
	s.cb = f
	s.mu.Unlock()
}

// drain acknowledges k buffered bytes; the callback fires exactly when the amount crosses the
// threshold from above (pion's onBufferReleased).
func (s *c16Stream) drain(k uint64) bool {
	s.mu.Lock()
	from := s.buffered
	if k > s.buffered {
		k = s.buffered
	}
	s.buffered -= k
	fire := s.cb != nil && from > s.th && s.buffered <= s.th
	cb := s.cb
	if fire {
		s.fired++
	}
	s.mu.Unlock()
	if fire {
		cb()
	}
	return fire
}

type c16DummyConn struct{ net.Conn }

func (c16DummyConn) Close() error                     { return nil }
func (c16DummyConn) SetDeadline(time.Time) error      { return nil }
func (c16DummyConn) SetWriteDeadline(time.Time) error { return nil }
func (c16DummyConn) LocalAddr() net.Addr              { return &net.UDPAddr{} }
func (c16DummyConn) RemoteAddr() net.Addr             { return &net.UDPAddr{} }

// ---------------------------------------------------------------------------------------------
// reads

type c16ReadCase struct {
	hbMode bool
	maxMsg int
	hb     []byte // the payload the filter works with (after validate)
	hbConf string // "" : hb is configured explicitly; "nil": no payload configured; "empty": an empty, non-nil payload configured
	items  []c16Item
	sizes  []int
	late   bool          // the reader starts only when the receive queue is full (or the script is exhausted)
	lag    int           // > 0: before every Read the reader waits until this many messages are queued (capped at the queue depth + the one the loop holds), the script is exhausted or the loop has ended
	guard  time.Duration // hang guard (default 30 s)
}

// hbField is the configured payload as it goes on the model line: the model applies `validate`.
func (c *c16ReadCase) hbField() string {
	switch c.hbConf {
	case "nil":
		return "nil:" + vlib.Hex(defaultConfig.Heartbeat)
	case "empty":
		return "empty:" + vlib.Hex(defaultConfig.Heartbeat)
	}
	return vlib.Hex(c.hb)
}

func (c *c16ReadCase) hbConfig(interval time.Duration) *heartbeatConfig {
	switch c.hbConf {
	case "nil":
		return &heartbeatConfig{Interval: interval}
	case "empty":
		return &heartbeatConfig{Interval: interval, Heartbeat: []byte{}}
	}
	return &heartbeatConfig{Interval: interval, Heartbeat: c.hb}
}

func (c *c16ReadCase) line() string {
	var its []string
	for _, it := range c.items {
		its = append(its, vlib.Hex(it.b)+":"+it.err)
	}
	var sz []string
	for _, m := range c.sizes {
		sz = append(sz, fmt.Sprint(m))
	}
	if c.hbMode {
		return fmt.Sprintf("hbsctp|%d|%s|%s|%s", c.maxMsg, c.hbField(), strings.Join(its, ";"), strings.Join(sz, ","))
	}
	return fmt.Sprintf("sctp|%d|eof|%s|%s", c.maxMsg, strings.Join(its, ";"), strings.Join(sz, ","))
}

// replayLine is the model line plus the generator's ground truth (which messages the peer's heartbeat loop sent):
// a message equal to the payload is data unless it is flagged here.
func (c *c16ReadCase) replayLine() string {
	var fl strings.Builder
	for _, it := range c.items {
		if it.hb {
			fl.WriteByte('1')
		} else {
			fl.WriteByte('0')
		}
	}
	return c.line() + "|heartbeats=" + fl.String()
}

type c16ReadOut struct {
	data []byte
	err  string
}

// c16DoReads runs the reads on the real code (with a hang guard).
func c16DoReads(c *c16ReadCase) ([]c16ReadOut, bool) {
	st := &c16Stream{items: append([]c16Item(nil), c.items...), endErr: io.EOF}
	var conn *SCTPConn
	var hbc *hbConn
	if c.hbMode {
		hbc, _ = heartbeatServer(st, c.hbConfig(60*time.Second), c.maxMsg)
		conn = newSCTPConn(hbc, c16DummyConn{}, uint64(c.maxMsg))
	} else {
		conn = newSCTPConn(st, c16DummyConn{}, uint64(c.maxMsg))
	}
	defer conn.Close()
	if c.late && hbc != nil {
		// let the receive loop run ahead of the reader until its queue is full: the blocking send
		deadline := time.Now().Add(20 * time.Second)
		for time.Now().Before(deadline) {
			st.mu.Lock()
			left := len(st.items)
			st.mu.Unlock()
			over := false
			select {
			case <-hbc.closed: // the loop has ended (stream error, over-sized message)
				over = true
			default:
			}
			if len(hbc.recvCh) == cap(hbc.recvCh) || left == 0 || over {
				break
			}
			time.Sleep(50 * time.Microsecond)
		}
		time.Sleep(2 * time.Millisecond) // the loop now sits in its send (or has finished)
	}
	guard := c.guard
	if guard == 0 {
		guard = 30 * time.Second
	}
	done := make(chan []c16ReadOut, 1)
	go func() {
		var outs []c16ReadOut
		for _, m := range c.sizes {
			if c.lag > 0 && hbc != nil {
				c16AwaitLag(st, hbc, c.lag)
			}
			buf := make([]byte, m)
			n, err := conn.Read(buf)
			outs = append(outs, c16ReadOut{append([]byte(nil), buf[:n]...), c16ErrName(err)})
		}
		done <- outs
	}()
	select {
	case outs := <-done:
		return outs, true
	case <-time.After(guard):
		return nil, false
	}
}

func c16ShowOuts(outs []c16ReadOut) string {
	if len(outs) == 0 {
		return "none"
	}
	var l []string
	for _, o := range outs {
		l = append(l, vlib.Hex(o.data)+":"+o.err)
	}
	return strings.Join(l, ";")
}

const c16SigHB = "C16:data-message-equals-heartbeat-payload"

// c16CheckReads is the property oracle, computed from the generator's ground truth only.
func c16CheckReads(out *vlib.Out, c *c16ReadCase, outs []c16ReadOut, useOracle bool) {
	if !useOracle {
		return
	}
	out.Checked()
	replay := c.replayLine()
	var delivered []byte
	type mark struct {
		at  int
		err string
	}
	var errs []mark
	for _, o := range outs {
		delivered = append(delivered, o.data...)
		if o.err != "-" {
			errs = append(errs, mark{len(delivered), o.err})
		}
	}
	// what the reader must see, from the ground truth
	var full, withoutHbEqual []byte
	var bounds []int // stream position of each reported error, in order (direct mode)
	ended := false
	hbEqual := false
	lastErrData := 0 // bytes of the message that came together with the closing error (heartbeat mode)
	for _, it := range c.items {
		if ended {
			break
		}
		fits := len(it.b) <= c.maxMsg
		if c.hbMode {
			if it.hb {
				continue
			}
			if fits {
				full = append(full, it.b...)
				if bytes.Equal(it.b, c.hb) {
					hbEqual = true
				} else {
					withoutHbEqual = append(withoutHbEqual, it.b...)
				}
			}
			if !fits || it.err != "-" {
				ended = true // the connection closes after this message
				if fits && !bytes.Equal(it.b, c.hb) {
					lastErrData = len(it.b)
				}
			}
			continue
		}
		if fits {
			full = append(full, it.b...)
		}
		if !fits || it.err != "-" {
			bounds = append(bounds, len(full))
		}
	}
	nonEmpty := 0
	for _, m := range c.sizes {
		if m > 0 {
			nonEmpty++
		}
	}
	complete := len(outs) == len(c.sizes) && nonEmpty >= len(full)+len(c.items)+2 // the generators append enough non-empty reads
	fail := func(sig, what string) { out.OracleFail(sig, what, replay) }
	target := full
	switch {
	case bytes.HasPrefix(full, delivered):
	case hbEqual && bytes.HasPrefix(withoutHbEqual, delivered):
		target = withoutHbEqual
	default:
		if c.hbMode {
			// where the reader's bytes leave the application's: is it a heartbeat that stands there?
			p := 0
			for p < len(delivered) && p < len(full) && delivered[p] == full[p] {
				p++
			}
			rest, sentHb := delivered[p:], false
			for _, it := range c.items {
				sentHb = sentHb || it.hb
			}
			if sentHb && len(rest) > 0 && (bytes.HasPrefix(rest, c.hb) || bytes.HasPrefix(c.hb, rest)) {
				fail("C16:heartbeat-surfaced-as-data", fmt.Sprintf("after %d application bytes the reader was handed the %d-byte keep-alive payload as data (reader got %d bytes, the peer's application messages are %d bytes)", p, len(c.hb), len(delivered), len(full)))
				return
			}
		}
		fail("C16:stream-bytes-differ", fmt.Sprintf("reader got %d bytes that are not the concatenation of the peer's %d message bytes", len(delivered), len(full)))
		return
	}
	if c.hbMode {
		// the connection closes after the data: every error must come at the end of the data
		short := -1
		for _, e := range errs {
			if e.at < len(target) {
				short = e.at
				break
			}
		}
		if short < 0 && complete && len(delivered) < len(target) {
			short = len(delivered)
		}
		if short >= 0 && hbEqual && len(target) == len(full) && bytes.HasPrefix(withoutHbEqual, delivered) && short <= len(withoutHbEqual) {
			target = withoutHbEqual // the swallowed message explains the shortfall (or part of it)
			if short == len(target) {
				short = -1
			}
		}
		if short >= 0 {
			if lastErrData > 0 && short == len(target)-lastErrData {
				fail("C16:data-arriving-with-error-dropped", fmt.Sprintf("the %d bytes that the stream returned together with its error never reached the reader (closed reported at %d of %d)", lastErrData, short, len(target)))
			} else {
				fail("C16:queued-data-lost-on-close", fmt.Sprintf("closed was reported at stream position %d although %d bytes had been received before the stream error", short, len(target)))
			}
			return
		}
		if len(target) < len(full) {
			fail(c16SigHB, fmt.Sprintf("an application message byte-equal to the heartbeat payload (%d bytes) is swallowed by the heartbeat receive filter: reader got %d of %d bytes", len(c.hb), len(delivered), len(full)))
		}
		return
	}
	if complete && len(delivered) < len(target) {
		fail("C16:stream-bytes-lost", fmt.Sprintf("reader got %d of %d bytes", len(delivered), len(target)))
		return
	}
	// an error is reported only after the data that came with it (and before any later data)
	for j, e := range errs {
		want := len(full)
		if j < len(bounds) {
			want = bounds[j]
		}
		if e.at != want {
			fail("C16:error-before-its-data", fmt.Sprintf("error #%d (%q) reported at stream position %d, it belongs at %d", j, e.err, e.at, want))
			return
		}
	}
	if complete && len(errs) < len(bounds) {
		fail("C16:stream-error-lost", fmt.Sprintf("%d of %d stream errors were reported", len(errs), len(bounds)))
	}
}

func c16RunReadCase(out *vlib.Out, c *c16ReadCase, useOracle bool) {
	outs, ok := c16DoReads(c)
	if !ok {
		if c.hbConf == "empty" {
			out.Checked()
			out.OracleFail("C16:empty-heartbeat-payload-never-closes", "with an empty (non-nil) heartbeat payload configured every failed stream read looks like a heartbeat: the receive loop spins, the connection never closes, the reader hangs", c.line())
			return
		}
		out.OracleFail("C16:read-hangs", "a Read did not return within 30 s", c.line())
		return
	}
	out.Case(c.line(), c16ShowOuts(outs), true)
	c16CheckReads(out, c, outs, useOracle)
}

// c16Pad appends enough non-empty reads for the reader to see everything.
func c16Pad(c *c16ReadCase, pattern []int) {
	total := 0
	for _, it := range c.items {
		total += len(it.b)
	}
	need := total + len(c.items) + 3
	for _, m := range c.sizes {
		if m == 0 {
			need++
		}
	}
	for i := 0; len(c.sizes) < need || i < len(pattern); i++ {
		m := pattern[i%len(pattern)]
		c.sizes = append(c.sizes, m)
		if m == 0 {
			need++
		}
	}
}

func c16ReadCorpus(out *vlib.Out) {
	hb := defaultConfig.Heartbeat
	mk := func(n int, tag byte) []byte {
		b := make([]byte, n)
		for i := range b {
			b[i] = tag + byte(i)
		}
		return b
	}
	// the recorded finding first: AAAA, <payload>, BBBB, <payload+x>
	c := &c16ReadCase{hbMode: true, maxMsg: 64, hb: hb, items: []c16Item{{[]byte("AAAA"), "-", false}, {append([]byte(nil), hb...), "-", false},
		{[]byte("BBBB"), "-", false}, {append(append([]byte(nil), hb...), 'x'), "-", false}, {hb, "-", true}}}
	c16Pad(c, []int{7})
	c16RunReadCase(out, c, true)
	out.Count("corpus:data-equals-heartbeat")
	// data that comes together with the error
	for _, mode := range []bool{true, true, true, false} {
		c = &c16ReadCase{hbMode: mode, maxMsg: 64, hb: hb, items: []c16Item{{[]byte("AAAA"), "-", false}, {[]byte("BBBB"), "other", false}, {[]byte("CC"), "-", false}}}
		c16Pad(c, []int{3})
		c16RunReadCase(out, c, true)
	}
	// data queued, then the stream ends: everything must still arrive
	for rep := 0; rep < 30; rep++ {
		c = &c16ReadCase{hbMode: true, maxMsg: 64, hb: hb, items: []c16Item{{[]byte("AAAA"), "-", false}, {hb, "-", true}, {[]byte("BBBB"), "-", false}}}
		c16Pad(c, []int{3})
		c16RunReadCase(out, c, true)
	}
	// a heartbeat whose read also reports a stream error (n > 0 and err together), at every position and with every
	// error: it is a heartbeat all the same and never reaches the reader, whatever comes behind it
	for _, e := range []string{"timeout", "other", "eof", "closed", "short"} {
		for pos := 0; pos < 3; pos++ {
			its := []c16Item{{mk(5, 1), "-", false}, {mk(6, 9), "-", false}}
			its = append(its[:pos], append([]c16Item{{append([]byte(nil), hb...), e, true}}, its[pos:]...)...)
			for _, pat := range [][]int{{4}, {64}, {1, 100}} {
				c = &c16ReadCase{hbMode: true, maxMsg: 40, hb: hb, items: its}
				c16Pad(c, pat)
				c16RunReadCase(out, c, true)
			}
		}
	}
	out.Count("corpus:heartbeat-with-error")
	// … and the error alone behind a heartbeat (n == 0)
	c = &c16ReadCase{hbMode: true, maxMsg: 40, hb: hb, items: []c16Item{{mk(5, 1), "-", false}, {hb, "-", true}, {nil, "other", false}, {mk(6, 9), "-", false}}}
	c16Pad(c, []int{4})
	c16RunReadCase(out, c, true)
	for _, mode := range []bool{false, true} {
		c = &c16ReadCase{hbMode: mode, maxMsg: 40, hb: hb, items: []c16Item{{mk(5, 1), "-", false}, {nil, "-", false}, {mk(41, 3), "-", false}, {mk(40, 7), "-", false}}}
		c16Pad(c, []int{1, 40, 41, 0, 100})
		c16RunReadCase(out, c, mode)
	}
	// the receive queue (recvChBufSize messages) fills up before the reader starts: the loop's blocking send.
	// Everything must still arrive, in order (a non-blocking send that drops when the queue is full loses data).
	for _, n := range []int{recvChBufSize + 1, 200} {
		c = &c16ReadCase{hbMode: true, maxMsg: 64, hb: hb, late: true}
		for i := 0; i < n; i++ {
			c.items = append(c.items, c16Item{[]byte{byte(i), byte(i >> 8), 0xA5, byte(i * 7)}, "-", false})
			if i%50 == 49 {
				c.items = append(c.items, c16Item{hb, "-", true})
			}
		}
		if n == 200 {
			c.items = append(c.items, c16Item{[]byte("last"), "other", false})
		}
		c16Pad(c, []int{3, 64, 1})
		c16RunReadCase(out, c, true)
		out.Count("corpus:receive-queue-full-before-reader")
	}
	// buffer ownership between recvLoop and Read (CJ.RecvBuf): the reader stays 1..70 messages behind the receive
	// loop for the whole run (the queue holds recvChBufSize slices and the loop one more); every byte must be the
	// peer's, in order.  Messages of different lengths, so that a recycled buffer shows as a wrong length as well.
	for lag := 1; lag <= recvChBufSize+6; lag++ {
		if vlib.Tier() != "thorough" && lag > 3 && lag < recvChBufSize-2 && lag%8 != 0 {
			continue
		}
		c = &c16ReadCase{hbMode: true, maxMsg: 64, hb: hb, lag: lag}
		for i := 0; i < 2*recvChBufSize+lag+9; i++ {
			c.items = append(c.items, c16Item{mk(1+(i*5+lag)%7, byte(i+lag)), "-", false})
			if i%37 == 36 {
				c.items = append(c.items, c16Item{hb, "-", true})
			}
		}
		c16Pad(c, []int{64})
		c16RunReadCase(out, c, true)
		out.Count("corpus:reader-lags-behind-receive-loop")
	}
	// the payload the filter works with comes out of validate(): none configured, and an empty one configured
	for _, conf := range []string{"nil", "empty"} {
		c = &c16ReadCase{hbMode: true, maxMsg: 64, hb: hb, hbConf: conf, guard: 6 * time.Second,
			items: []c16Item{{[]byte("AAAA"), "-", false}, {hb, "-", true}, {nil, "-", false}, {[]byte("BB"), "-", false}}}
		c16Pad(c, []int{3})
		c16RunReadCase(out, c, true)
		out.Count("corpus:heartbeat-payload-" + conf)
	}
	// realistic sizes: maximum message size 65536, reads of 1 … beyond it
	big := mk(65536, 0)
	c = &c16ReadCase{hbMode: true, maxMsg: 65536, hb: hb, items: []c16Item{{big, "-", false}, {hb, "-", true}, {mk(1, 5), "-", false}, {big[:65535], "-", false}}}
	c.sizes = []int{1, 65535, 65536, 70000, 32768, 32768, 1, 65536, 65536, 65536, 65536, 65536, 65536}
	for len(c.sizes) < 12 {
		c.sizes = append(c.sizes, 65536)
	}
	outs, ok := c16DoReads(c)
	if ok {
		// too long for a model line to be worth it: oracle only, byte count check
		n := 0
		for _, o := range outs {
			n += len(o.data)
		}
		out.Checked()
		if n != 65536+1+65535 {
			out.OracleFail("C16:stream-bytes-differ", fmt.Sprintf("64 KiB messages: reader got %d bytes of %d", n, 65536+1+65535), "corpus:big-messages")
		}
	}
}

// c16ReadExhaustive: every script of up to L items over a small alphabet × read-size patterns.
func c16ReadExhaustive(out *vlib.Out, L int) {
	hb := []byte{0xEE}
	type opt struct {
		b   []byte
		hb  bool
		err string
	}
	var opts []opt
	for n := 0; n <= 3; n++ {
		for _, e := range []string{"-", "other"} {
			b := make([]byte, n)
			for i := range b {
				b[i] = byte(0x10*n + i + 1)
			}
			opts = append(opts, opt{b, false, e})
		}
	}
	opts = append(opts, opt{hb, true, "-"}, opt{hb, true, "other"}, opt{[]byte{0xEE}, false, "-"})
	patterns := [][]int{{1}, {2}, {3}, {4}, {1, 3}, {0, 2}, {4, 1}, {2, 5}}
	var rec func(items []c16Item, tagBase byte)
	rec = func(items []c16Item, tagBase byte) {
		if len(items) > 0 {
			for _, mode := range []bool{false, true} {
				for _, p := range patterns {
					its := make([]c16Item, len(items))
					copy(its, items)
					if !mode {
						for i := range its {
							its[i].hb = false
						}
					}
					c := &c16ReadCase{hbMode: mode, maxMsg: 3, hb: hb, items: its}
					c16Pad(c, p)
					c16RunReadCase(out, c, true)
				}
			}
		}
		if len(items) == L {
			return
		}
		for _, o := range opts {
			b := append([]byte(nil), o.b...)
			if !o.hb && !bytes.Equal(b, hb) {
				for i := range b {
					b[i] += tagBase
				}
			}
			rec(append(append([]c16Item(nil), items...), c16Item{b, o.err, o.hb}), tagBase+0x40)
		}
	}
	rec(nil, 0)
}

func c16ReadRandom(out *vlib.Out, r *vlib.Rand, n int) {
	for i := 0; i < n; i++ {
		maxMsg := []int{1, 2, 5, 16, 33, 64, 300}[r.Intn(7)]
		hb := defaultConfig.Heartbeat
		if r.Chance(1, 2) {
			hb = r.Bytes(r.Range(1, 4))
		}
		if len(hb) > maxMsg {
			hb = hb[:maxMsg]
		}
		mode := r.Bool()
		c := &c16ReadCase{hbMode: mode, maxMsg: maxMsg, hb: hb}
		nitems := r.Range(0, 12)
		useOracle := true
		errDen := 8
		if mode && r.Chance(1, 12) {
			// more messages than the receive queue holds, and a reader that starts late
			c.late, nitems, errDen = true, r.Range(recvChBufSize-4, recvChBufSize+40), 70
			out.Count("reads:late-reader")
		}
		for j := 0; j < nitems; j++ {
			it := c16Item{err: "-"}
			switch x := r.Intn(20); {
			case x < 4 && mode:
				it.b, it.hb = append([]byte(nil), hb...), true
				out.Count("item:heartbeat")
			case x == 4 && mode:
				it.b = append([]byte(nil), hb...) // application data that happens to equal the payload
				out.Count("item:data-equals-heartbeat")
			case x == 5:
				it.b = r.Bytes(maxMsg + r.Range(1, 3))
				out.Count("item:oversized")
				if !mode {
					// pion never delivers more than the maximum message size; whether such a message is
					// dropped depends on the caller's buffer (the bypass): correspondence only
					useOracle = false
				}
			case x == 6:
				out.Count("item:empty")
			case x < 10:
				it.b = r.Bytes(maxMsg)
				out.Count("item:max-size")
			default:
				it.b = r.Bytes(r.Range(1, maxMsg))
				out.Count("item:data")
			}
			if r.Chance(1, errDen) {
				it.err = []string{"other", "timeout", "eof", "closed", "short"}[r.Intn(5)]
				out.Count("item:with-error")
				if it.hb {
					out.Count("item:heartbeat-with-error")
				}
				if mode && !it.hb && bytes.Equal(it.b, hb) {
					// application data equal to the payload is the recorded finding; with an error attached the loop
					// also loses the error and reads on: the oracle's ground truth ends the stream there: correspondence only
					useOracle = false
				}
			}
			c.items = append(c.items, it)
		}
		nsz := r.Range(0, 10)
		for j := 0; j < nsz; j++ {
			c.sizes = append(c.sizes, []int{0, 1, 1, 2, maxMsg - 1, maxMsg, maxMsg + 1, 3 * maxMsg, r.Range(1, maxMsg+2)}[r.Intn(9)])
		}
		for j := range c.sizes {
			if c.sizes[j] < 0 {
				c.sizes[j] = 0
			}
		}
		pat := []int{[]int{1, 2, maxMsg, maxMsg + 1, 7}[r.Intn(5)]}
		if r.Bool() {
			pat = append(pat, r.Range(1, maxMsg+3))
		}
		c16Pad(c, pat)
		c16RunReadCase(out, c, useOracle)
		if mode {
			out.Count("reads:through-heartbeat-filter")
		} else {
			out.Count("reads:direct")
		}
	}
}

// ---------------------------------------------------------------------------------------------
// write flow control

func c16Pattern(tag, n int) []byte {
	b := make([]byte, n)
	for i := range b {
		b[i] = byte(tag*7 + i)
	}
	return b
}

func c16FlowCase(out *vlib.Out, ops []string) {
	st := &c16Stream{endErr: io.EOF}
	conn := newSCTPConn(st, c16DummyConn{}, 65536)
	max := writeMaxBufferedAmount
	var outs []string
	var accepted [][]byte
	type wres struct {
		n   int
		err error
	}
	var pending chan wres
	pendingN := 0
	var pendingBuf []byte
	closed := false
	line := fmt.Sprintf("flow|%d|%s", max, strings.Join(ops, ","))
	for wi, op := range ops {
		var k int
		fmt.Sscan(op[1:], &k)
		switch op[0] {
		case 'w':
			buf := c16Pattern(wi, k)
			over := k > 0 && uint64(k) <= max/2 && st.amount()+uint64(k) > max && !closed
			expectBlock := over && len(conn.write) == 0
			viaToken := over && len(conn.write) == 1
			ch := make(chan wres, 1)
			before := st.decisions()
			go func() { n, err := conn.Write(buf); ch <- wres{n, err} }()
			if expectBlock {
				// The writer takes its decision when it reads the buffered amount (inside the write mutex).
				// Until then nothing may be concluded: a drain that slipped in before the decision would let
				// the write through legitimately.  After the decision it either sits in the select or is
				// on its way through stream.Write, which takes microseconds.
				var early *wres
				deadline := time.Now().Add(20 * time.Second)
				for st.decisions() == before && early == nil {
					select {
					case r := <-ch:
						early = &r
					default:
						if time.Now().After(deadline) {
							out.OracleFail("C16:write-hangs", "a Write did not reach its flow-control decision within 20 s", line)
							return
						}
						time.Sleep(20 * time.Microsecond)
					}
				}
				if early == nil {
					select {
					case r := <-ch:
						early = &r
					case <-time.After(30 * time.Millisecond):
					}
				}
				if early != nil {
					outs = append(outs, fmt.Sprintf("returned-early:%d:%v", early.n, early.err))
					if early.err == nil && early.n == k {
						accepted = append(accepted, buf)
					}
				} else {
					outs = append(outs, "blocks")
					pending, pendingN, pendingBuf = ch, k, buf
				}
				continue
			}
			select {
			case r := <-ch:
				switch {
				case r.err == nil && k == 0:
					outs = append(outs, "zero")
				case r.err == nil && r.n == k:
					// with a token in the channel the write went through the select
					outs = append(outs, "W")
					accepted = append(accepted, buf)
				case r.err != nil && strings.Contains(r.err.Error(), "write limit exceeded"):
					outs = append(outs, "limit")
				case r.err != nil && strings.Contains(r.err.Error(), "closed"):
					outs = append(outs, "closed")
				default:
					outs = append(outs, fmt.Sprintf("?%d:%v", r.n, r.err))
				}
			case <-time.After(20 * time.Second):
				out.OracleFail("C16:write-hangs", "a Write that should proceed did not return within 20 s", line)
				return
			}
			// distinguish "wrote" from "woke" (token spent) for the model's answer
			if outs[len(outs)-1] == "W" {
				if viaToken {
					outs[len(outs)-1] = fmt.Sprintf("woke:%d", k)
				} else {
					outs[len(outs)-1] = fmt.Sprintf("wrote:%d", k)
				}
			}
		case 'd':
			fired := st.drain(uint64(k))
			if pending != nil && fired {
				// the callback has put the token: the blocked writer must come back
				select {
				case r := <-pending:
					if r.err == nil && r.n == pendingN {
						outs = append(outs, fmt.Sprintf("woke:%d", pendingN))
						accepted = append(accepted, pendingBuf)
					} else {
						outs = append(outs, fmt.Sprintf("?%d:%v", r.n, r.err))
					}
					pending = nil
				case <-time.After(20 * time.Second):
					out.OracleFail("C16:write-hangs", "a blocked Write was not released when the buffered amount fell below the threshold", line)
					return
				}
			} else if pending != nil {
				select {
				case r := <-pending:
					outs = append(outs, fmt.Sprintf("returned-early:%d:%v", r.n, r.err))
					if r.err == nil && r.n == pendingN {
						accepted = append(accepted, pendingBuf)
					}
					pending = nil
				case <-time.After(5 * time.Millisecond):
					outs = append(outs, "-")
				}
			} else {
				outs = append(outs, "-")
			}
		case 'h':
			st.hbWrite(c16Pattern(wi, k))
			accepted = append(accepted, c16Pattern(wi, k))
			outs = append(outs, "-")
		case 't':
			// k milliseconds pass with the network as it is: nothing but Close and the network may release a writer
			time.Sleep(time.Duration(k) * time.Millisecond)
			if pending != nil {
				select {
				case r := <-pending:
					outs = append(outs, fmt.Sprintf("returned-early:%d:%v", r.n, r.err))
					if r.err == nil && r.n == pendingN {
						accepted = append(accepted, pendingBuf)
					}
					pending = nil
				default:
					outs = append(outs, "-")
				}
			} else {
				outs = append(outs, "-")
			}
		case 'c':
			conn.Close()
			closed = true
			if pending != nil {
				select {
				case r := <-pending:
					if r.err != nil && strings.Contains(r.err.Error(), "closed") {
						outs = append(outs, "closed")
					} else {
						outs = append(outs, fmt.Sprintf("?%d:%v", r.n, r.err))
					}
				case <-time.After(20 * time.Second):
					out.OracleFail("C16:write-hangs", "a blocked Write was not released by Close", line)
					return
				}
				pending = nil
			} else {
				outs = append(outs, "-")
			}
		}
	}
	if pending != nil {
		conn.Close()
		<-pending
	}
	// the model says "woke" when a write that had to wait found the token already there
	impl := strings.Join(outs, ",") + fmt.Sprintf("|B=%d|T=%s", st.amount(), vlib.B(len(conn.write) == 1))
	out.Case(line, impl, true)
	// ---- oracle
	out.Checked()
	st.mu.Lock()
	wrote := st.wrote
	st.mu.Unlock()
	if sig, what := st.heldBack(); sig != "" {
		out.OracleFail(sig, what, line)
		return
	}
	if len(wrote) != len(accepted) {
		out.OracleFail("C16:write-lost-or-duplicated", fmt.Sprintf("%d messages forwarded, %d writes accepted", len(wrote), len(accepted)), line)
		return
	}
	for i := range wrote {
		if !bytes.Equal(wrote[i], accepted[i]) {
			out.OracleFail("C16:write-corrupted", fmt.Sprintf("forwarded message %d differs from the accepted write", i), line)
			return
		}
	}
}

// c16ConcurrentWriters: several goroutines write through one SCTPConn at the same time.  Write is serialised by
// a mutex in the code; the model's bound (`buffered_bounded`) is stated for serialised writes.  Oracle: the bound
// holds on the real code under concurrent writers, nothing hangs, every accepted write is forwarded exactly once.
func c16ConcurrentWriters(out *vlib.Out, r *vlib.Rand, writers, perWriter int) {
	st := &c16Stream{endErr: io.EOF, gate: &c16Gate{want: writers, wait: 2 * time.Millisecond}}
	conn := newSCTPConn(st, c16DummyConn{}, 65536)
	max := writeMaxBufferedAmount
	sizes := make([][]int, writers)
	total := 0
	for w := range sizes {
		for j := 0; j < perWriter; j++ {
			k := []int{int(max / 2), int(max / 2), 100000, 65536, r.Range(1, int(max/2))}[r.Intn(5)]
			sizes[w] = append(sizes[w], k)
			total++
		}
	}
	replay := fmt.Sprintf("writers n=%d sizes=%v", writers, sizes)
	var wg sync.WaitGroup
	var mu sync.Mutex
	okWrites, badWrites := 0, 0
	for w := 0; w < writers; w++ {
		wg.Add(1)
		go func(w int) {
			defer wg.Done()
			for j, k := range sizes[w] {
				n, err := conn.Write(c16Pattern(w*31+j, k))
				mu.Lock()
				if err == nil && n == k {
					okWrites++
				} else {
					badWrites++
				}
				mu.Unlock()
			}
		}(w)
	}
	stop := make(chan struct{})
	go func() { // the network acknowledges data all the time
		for {
			select {
			case <-stop:
				return
			default:
				st.drain(40000)
				time.Sleep(100 * time.Microsecond)
			}
		}
	}()
	done := make(chan struct{})
	go func() { wg.Wait(); close(done) }()
	hung := false
	select {
	case <-done:
	case <-time.After(30 * time.Second):
		hung = true
		conn.Close()
		<-done
	}
	close(stop)
	out.Checked()
	st.mu.Lock()
	maxSeen, nwrote := st.maxSeen, len(st.wrote)
	st.mu.Unlock()
	hsig, hwhat := st.heldBack()
	switch {
	case maxSeen > max+max/2:
		out.OracleFail("C16:buffered-amount-unbounded", fmt.Sprintf("%d concurrent writers: buffered amount reached %d > %d", writers, maxSeen, max+max/2), replay)
	case hsig != "":
		out.OracleFail(hsig, fmt.Sprintf("%d concurrent writers: %s", writers, hwhat), replay)
	case hung:
		out.OracleFail("C16:write-hangs", fmt.Sprintf("%d concurrent writers over a stream that keeps acknowledging data did not finish within 30 s", writers), replay)
	case badWrites > 0 || nwrote != okWrites || okWrites != total:
		out.OracleFail("C16:write-lost-or-duplicated", fmt.Sprintf("%d concurrent writers: %d writes accepted, %d refused, %d messages forwarded of %d", writers, okWrites, badWrites, nwrote, total), replay)
	default:
		out.Count("writers:concurrent-bounded")
	}
}

// c16FlowGen generates an operation list; it tracks the expected state only to keep the list
// executable (no second write while one is blocked, Close last).
//
// timed > 0: up to `timed` operations `t<ms>` (that much real time passes with the network as it is) are put
// where they matter: while a write is waiting.
func c16FlowGen(r *vlib.Rand, n int, timed int) []string {
	max := int(writeMaxBufferedAmount)
	var ops []string
	b := 0
	token := false
	blocked := 0
	for i := 0; i < n; i++ {
		x := r.Intn(10)
		switch {
		case blocked > 0 && timed > 0 && (x < 4 || i >= n-2):
			timed--
			ops = append(ops, fmt.Sprintf("t%d", r.Range(1100, 2600)))
		case blocked > 0 && x < 1:
			ops = append(ops, "c")
			return ops
		case blocked > 0 || x >= 6:
			k := []int{1, 1000, 40000, max / 2, max, r.Intn(max)}[r.Intn(6)]
			if k > b {
				k = b
			}
			nb := b - k
			fire := b > max/2 && nb <= max/2
			b = nb
			if fire {
				if blocked > 0 {
					b += blocked
					blocked = 0
				} else {
					token = true
				}
			}
			ops = append(ops, fmt.Sprintf("d%d", k))
		case x == 5 && r.Chance(1, 3):
			ops = append(ops, "h32")
			b += 32
		default:
			k := []int{0, 1, 1200, 32768, 65536, 100000, max / 2, max/2 + 1, 200000, r.Range(1, max/2)}[r.Intn(10)]
			ops = append(ops, fmt.Sprintf("w%d", k))
			if k == 0 || k > max/2 {
				continue
			}
			if b+k > max {
				if token {
					token = false
					b += k
				} else {
					blocked = k
				}
			} else {
				b += k
			}
		}
	}
	if r.Bool() {
		ops = append(ops, "c")
	}
	return ops
}

// ---------------------------------------------------------------------------------------------
// watchdog (real time, generous margins): a stream fed through a channel that honours read deadlines

type c16LiveStream struct {
	feed   chan []byte
	closed chan struct{}
	once   sync.Once
	mu     sync.Mutex
	dl     time.Time
}

func (s *c16LiveStream) Read(b []byte) (int, error) {
	s.mu.Lock()
	dl := s.dl
	s.mu.Unlock()
	var timer <-chan time.Time
	if !dl.IsZero() {
		timer = time.After(time.Until(dl))
	}
	select {
	case m := <-s.feed:
		return copy(b, m), nil
	case <-s.closed:
		return 0, net.ErrClosed
	case <-timer:
		return 0, os.ErrDeadlineExceeded
	}
}
func (s *c16LiveStream) Write(b []byte) (int, error) { return len(b), nil }
func (s *c16LiveStream) Close() error                { s.once.Do(func() { close(s.closed) }); return nil }
func (s *c16LiveStream) BufferedAmount() uint64      { return 0 }
func (s *c16LiveStream) SetReadDeadline(t time.Time) error {
	s.mu.Lock()
	s.dl = t
	s.mu.Unlock()
	return nil
}
func (s *c16LiveStream) SetBufferedAmountLowThreshold(uint64) {}
func (s *c16LiveStream) OnBufferedAmountLow(func())           {}

// c16Watchdog: heartbeats flow for `periods` periods, then stop; data keeps flowing or not.
func c16Watchdog(out *vlib.Out, T time.Duration, periods int, dataAfter bool) {
	st := &c16LiveStream{feed: make(chan []byte, 16), closed: make(chan struct{})}
	hb := defaultConfig.Heartbeat
	hbc, _ := heartbeatServer(st, &heartbeatConfig{Interval: T, Heartbeat: hb}, 1024)
	defer hbc.Close()
	go func() { // a reader, so that data does not pile up
		buf := make([]byte, 1024)
		for {
			if _, err := hbc.Read(buf); err != nil {
				return
			}
		}
	}()
	var evs strings.Builder
	for i := 0; i < periods*3; i++ {
		st.feed <- hb
		evs.WriteString("h")
		if i%3 == 2 {
			evs.WriteString("ttt")
		}
		time.Sleep(T / 3)
	}
	lastHB := time.Now()
	stop := make(chan struct{})
	if dataAfter {
		go func() {
			for {
				select {
				case <-stop:
					return
				case <-hbc.closed:
					return
				case st.feed <- []byte("data"):
				}
				time.Sleep(T / 4)
			}
		}()
		evs.WriteString("dtdtdtdtdtdtd")
	} else {
		evs.WriteString("ttt")
	}
	bound := 2*T + 3*time.Second
	if !dataAfter {
		bound = T + 3*time.Second
	}
	closedIn := time.Duration(-1)
	select {
	case <-hbc.closed:
		closedIn = time.Since(lastHB)
	case <-time.After(bound):
	}
	close(stop)
	line := fmt.Sprintf("wd|3|%s", evs.String())
	out.Case(line, "closed="+vlib.B(closedIn >= 0), true)
	out.Checked()
	if closedIn < 0 {
		out.OracleFail("C16:watchdog-did-not-close", fmt.Sprintf("no heartbeat for %v (period %v, data flowing: %v) and the connection is still open", bound, T, dataAfter), line)
		return
	}
	if dataAfter {
		out.Count("watchdog:closed-by-missing-heartbeats")
	} else {
		out.Count("watchdog:closed-by-silence")
	}
	// the closed connection reports an error to its reader and has closed the stream below
	buf := make([]byte, 16)
	for i := 0; i < 70; i++ {
		if _, err := hbc.Read(buf); err != nil {
			break
		}
		if i == 69 {
			out.OracleFail("C16:closed-connection-still-reads", "Read keeps succeeding after the watchdog closed the connection", line)
		}
	}
	select {
	case <-st.closed:
	case <-time.After(5 * time.Second):
		out.OracleFail("C16:watchdog-did-not-close", "the stream below was not closed", line)
	}
}

// the dialling side sends the payload at once and keeps sending
func c16HeartbeatSender(out *vlib.Out) {
	st := &c16Stream{endErr: io.EOF}
	T := 200 * time.Millisecond
	cl, _ := heartbeatClient(st, &heartbeatConfig{Interval: T})
	deadline := time.Now().Add(10 * time.Second)
	n := 0
	for time.Now().Before(deadline) {
		st.mu.Lock()
		n = len(st.wrote)
		st.mu.Unlock()
		if n >= 3 {
			break
		}
		time.Sleep(20 * time.Millisecond)
	}
	cl.Close()
	out.Checked()
	st.mu.Lock()
	defer st.mu.Unlock()
	if n < 3 {
		out.OracleFail("C16:client-sends-no-heartbeat", fmt.Sprintf("%d heartbeats written in 10 s with a period of %v", n, T/2), "heartbeat-sender")
		return
	}
	for _, w := range st.wrote {
		if !bytes.Equal(w, defaultConfig.Heartbeat) {
			out.OracleFail("C16:client-sends-no-heartbeat", "the heartbeat sender wrote something else than the payload", "heartbeat-sender")
			return
		}
	}
	out.Count("heartbeat-sender:ok")
}

// c16AwaitLag blocks the reader until `lag` messages are waiting for it: len(recvCh) counts the queued slices, one
// more sits in the loop's blocked send once the queue is full (waited out by a short sleep).  Gives up when the
// script is exhausted or the loop has ended, so that every message is read in the end.
func c16AwaitLag(st *c16Stream, hbc *hbConn, lag int) {
	want := lag
	if want > cap(hbc.recvCh) {
		want = cap(hbc.recvCh)
	}
	deadline := time.Now().Add(5 * time.Second)
	for time.Now().Before(deadline) {
		st.mu.Lock()
		left := len(st.items)
		st.mu.Unlock()
		select {
		case <-hbc.closed:
			return
		default:
		}
		if len(hbc.recvCh) >= want {
			if lag > cap(hbc.recvCh) && left > 0 {
				time.Sleep(200 * time.Microsecond) // the loop reads the next message and sits in its send
			}
			return
		}
		if left == 0 {
			time.Sleep(100 * time.Microsecond) // the last message may still be on its way into the queue
			return
		}
		time.Sleep(20 * time.Microsecond)
	}
}
