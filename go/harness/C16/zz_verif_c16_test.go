//go:build verif

package dtls

// C16 — DTLS sessions: same secret on both ends, right acceptor, faithful byte stream.
// Entry point of the harness; the parts live in zz_verif_c16_stream_test.go and
// zz_verif_c16_listener_test.go.

import (
	"fmt"
	"os"
	"strings"
	"sync"
	"testing"
	"time"

	"github.com/refraction-networking/conjure/internal/vlib"
)

func TestVerifC16(t *testing.T) {
	out := vlib.Open("C16")
	defer out.Close()
	out.Note("C16: pion DTLS/SCTP, ECDSA and x509 are exercised for real in the session and loopback runs but are not modelled; wall-clock bounds are checked with generous margins only")
	if rp := vlib.Replay(); rp != "" {
		c16Replay(t, out, rp)
		return
	}
	r := vlib.NewRand("C16")
	thorough := vlib.Tier() == "thorough"

	// sessions over the real stack and the watchdog need wall-clock time: run them beside the rest
	var bg sync.WaitGroup
	nSess := vlib.Budget(3, 24)
	nMismatch := vlib.Budget(1, 4)
	var sessMu sync.Mutex
	sessions := map[string]int{}
	for i := 0; i < nSess+nMismatch; i++ {
		bg.Add(1)
		go func(i int) {
			defer bg.Done()
			st := c16Session(out, vlib.NewRand(fmt.Sprintf("C16-session-%d", i)), i < nSess, i == 0)
			sessMu.Lock()
			sessions[st]++
			sessMu.Unlock()
		}(i)
		if i%4 == 3 {
			bg.Wait() // at most four handshakes at a time
		}
	}
	bg.Add(1)
	go func() {
		defer bg.Done()
		T := 250 * time.Millisecond
		c16Watchdog(out, T, 1, false)
		c16Watchdog(out, T, 2, true)
		if thorough {
			c16Watchdog(out, 400*time.Millisecond, 3, true)
			c16Watchdog(out, 150*time.Millisecond, 0, false)
			c16Watchdog(out, 150*time.Millisecond, 0, true)
		}
		c16HeartbeatSender(out)
	}()
	// related secrets (prefixes, zero-extensions, digests, …): derivation of every pair, handshakes, the real listener
	bg.Add(1)
	go func() {
		defer bg.Done()
		c16RelatedSecretsRun(out, vlib.NewRand("C16-related-secrets"), vlib.Budget(10, -1), vlib.Budget(8, 60))
	}()
	// whatever needs seconds to pass: stalled networks, sessions used after the context of their handshake ended
	bg.Add(1)
	go func() {
		defer bg.Done()
		c16TimeDimension(out, thorough)
	}()

	// the history of one long-lived listener: hundreds of failed handshakes of every kind, then a matching pair
	bg.Add(1)
	go func() {
		defer bg.Done()
		c16Histories(out, vlib.NewRand("C16-histories"), thorough)
	}()

	var timing []string
	timed := func(name string, f func()) {
		t0 := time.Now()
		f()
		timing = append(timing, fmt.Sprintf("%s %.1fs", name, time.Since(t0).Seconds()))
	}
	defer func() { out.Note("C16 harness sections: " + strings.Join(timing, ", ")) }()

	// ---- byte stream: corpus, exhaustive small scripts, random scripts
	timed("read-corpus", func() { c16ReadCorpus(out) })
	// the depth of the enumeration is a tier constant, not a budget: the 4x search budget must not deepen it
	exhaustive := 2
	if thorough {
		exhaustive = 3
	}
	timed("read-exhaustive", func() { c16ReadExhaustive(out, exhaustive) })
	timed("read-random", func() { c16ReadRandom(out, r, vlib.Budget(1500, 40000)) })

	// ---- flow control
	for _, ops := range [][]string{
		{"w131072", "w131072", "w1", "d1", "d131072", "w131072", "w131072", "c"},
		{"w0", "w131073", "w200000", "w131072", "d131072", "w100000", "w100000", "w100000", "d50000", "d50000", "d100000"},
		{"w100000", "w100000", "d100000", "w62144", "w100000", "w32768", "h32", "w100000", "c"},
	} {
		c16FlowCase(out, ops)
	}
	timed("flow", func() {
		nflow := vlib.Budget(60, 1000)
		for i := 0; i < nflow; i++ {
			c16FlowCase(out, c16FlowGen(r, r.Range(3, 40), 0))
		}
	})

	timed("concurrent-writers", func() {
		for i := 0; i < vlib.Budget(3, 40); i++ {
			c16ConcurrentWriters(out, r, r.Range(2, 8), r.Range(2, 5))
		}
	})

	// ---- certificates (derivation, forged look-alikes) and each end's own authentication, attacked alone
	timed("certificates", func() { c16Certificates(out, r, vlib.Budget(12, 200)) })
	timed("one-sided-authentication", func() {
		c16PipeAuth(out, r, vlib.Budget(1, 6))
		c16ListenerAuth(out, r, vlib.Budget(1, 6))
	})
	// ---- the real listener: scenarios in which the matching session must be delivered
	timed("listener-real-scenarios", func() { c16RealScenarios(out, r, vlib.Budget(1, 5)) })

	// ---- listener, one macro step at a time
	timed("listener-controlled", func() {
		nl := vlib.Budget(150, 2500)
		for i := 0; i < nl; i++ {
			c16Controlled(out, r, r.Range(4, 40))
		}
	})

	// ---- listener with concurrent pairs over loopback UDP
	rounds := []int{2, 5, 8}
	if thorough {
		rounds = []int{2, 3, 8, 16, 24, 32, 32, 12, 6, 32}
	}
	timed("listener-concurrent", func() {
		var wg sync.WaitGroup
		var mu sync.Mutex
		expected, delivered := 0, 0
		for i, n := range rounds {
			wg.Add(1)
			go func(i, n int) {
				defer wg.Done()
				e, d := c16Concurrent(out, vlib.NewRand(fmt.Sprintf("C16-round-%d", i)), n)
				mu.Lock()
				expected, delivered = expected+e, delivered+d
				mu.Unlock()
			}(i, n)
			if i%3 == 2 {
				wg.Wait() // three listeners at a time
			}
		}
		wg.Wait()
		// coverage must not vanish silently: single pairs may time out under load (counted), but not all of them
		if expected >= 3 {
			out.Checked()
			if delivered == 0 {
				out.OracleFail("C16:matching-session-not-delivered", fmt.Sprintf("concurrent rounds: %d pairs dialled with the secret their Accept was waiting for and were never cancelled; none was delivered", expected), fmt.Sprintf("concurrent rounds=%v", rounds))
			}
		}
	})
	timed("wait-for-sessions-and-watchdog", func() { bg.Wait() })
	// at least one same-secret session over the real stack must have carried its data completely; retried
	// one at a time (no load from this harness) before anything is reported
	complete := func() int { return sessions["faithful"] + sessions["swallowed"] }
	for try := 0; try < 3 && complete() == 0; try++ {
		sessions[c16Session(out, vlib.NewRand(fmt.Sprintf("C16-session-retry-%d", try)), true, false)]++
	}
	out.Checked()
	if complete() == 0 {
		out.OracleFail("C16:same-secret-session-never-completes", fmt.Sprintf("no session between Server and Client with one secret was established and carried its data (outcomes: %v)", sessions), "session same-secret floor")
	}
}

// c16Replay re-runs model lines (`sctp|…`, `hbsctp|…`, `flow|…`) of a replay file on the real code;
// scenario lines of the timing-dependent parts (listener rounds, sessions) are re-run with a fresh draw.
func c16Replay(t *testing.T, out *vlib.Out, path string) {
	b, err := os.ReadFile(path)
	if err != nil {
		t.Fatal(err)
	}
	for _, line := range strings.Split(string(b), "\n") {
		f := strings.Split(line, "|")
		if c16ReplayTime(out, line) || c16ReplaySecrets(out, line) || c16ReplayHistory(out, line) {
			continue
		}
		switch {
		case (f[0] == "sctp" || f[0] == "hbsctp") && (len(f) == 5 || (len(f) == 6 && strings.HasPrefix(f[5], "heartbeats="))):
			flags := ""
			if len(f) == 6 {
				flags = strings.TrimPrefix(f[5], "heartbeats=")
				line = strings.Join(f[:5], "|")
			}
			c := &c16ReadCase{hbMode: f[0] == "hbsctp"}
			fmt.Sscan(f[1], &c.maxMsg)
			if c.hbMode {
				switch {
				case strings.HasPrefix(f[2], "nil:"):
					c.hbConf, c.hb, c.guard = "nil", defaultConfig.Heartbeat, 6*time.Second
				case strings.HasPrefix(f[2], "empty:"):
					c.hbConf, c.hb, c.guard = "empty", defaultConfig.Heartbeat, 6*time.Second
				default:
					c.hb = c16Unhex(f[2])
				}
			}
			if f[3] != "" {
				for _, it := range strings.Split(f[3], ";") {
					p := strings.SplitN(it, ":", 2)
					if len(p) != 2 {
						continue
					}
					// a message equal to the payload is data unless the ground-truth flags of the replay line say otherwise
					k := len(c.items)
					c.items = append(c.items, c16Item{c16Unhex(p[0]), p[1], c.hbMode && k < len(flags) && flags[k] == '1'})
				}
			}
			if f[4] != "" {
				for _, s := range strings.Split(f[4], ",") {
					var m int
					fmt.Sscan(s, &m)
					c.sizes = append(c.sizes, m)
				}
			}
			c.late = c.hbMode && len(c.items) > recvChBufSize
			reps := 1
			if c.hbMode && c.hbConf == "" {
				reps = 30 // the close race of the unrepaired code is probabilistic
			}
			for i := 0; i < reps; i++ {
				c16RunReadCase(out, c, true)
			}
			outs, _ := c16DoReads(c)
			fmt.Println("REPLAY case:", line)
			fmt.Println("REPLAY impl:", c16ShowOuts(outs))
		case f[0] == "flow" && len(f) == 3:
			c16FlowCase(out, strings.Split(f[2], ","))
			fmt.Println("REPLAY case:", line)
		case f[0] == "dtls" || strings.HasPrefix(line, "concurrent "):
			r := vlib.NewRand("C16-replay")
			for i := 0; i < 200; i++ {
				c16Controlled(out, r, r.Range(4, 40))
			}
			c16Concurrent(out, r, 8)
			fmt.Println("REPLAY (fresh draw of listener scenarios):", line)
		case strings.HasPrefix(line, "listener-auth "), strings.HasPrefix(line, "dial-auth "), strings.HasPrefix(line, "server-auth "):
			r := vlib.NewRand("C16-replay")
			c16PipeAuth(out, r, 3)
			c16ListenerAuth(out, r, 3)
			fmt.Println("REPLAY (fresh draw of secrets for the one-sided authentication runs):", line)
		case strings.HasPrefix(line, "realscenario "):
			c16RealScenarios(out, vlib.NewRand("C16-replay"), 2)
			fmt.Println("REPLAY (fresh draw of secrets for the real-listener scenarios):", line)
		case strings.HasPrefix(line, "writers "):
			r := vlib.NewRand("C16-replay")
			for i := 0; i < 20; i++ {
				c16ConcurrentWriters(out, r, r.Range(2, 8), r.Range(2, 5))
			}
			fmt.Println("REPLAY (fresh draw of concurrent writers):", line)
		case strings.HasPrefix(line, "certs "):
			c16Certificates(out, vlib.NewRand("C16-replay"), 20)
			fmt.Println("REPLAY (fresh draw of seeds for the certificate checks):", line)
		case strings.HasPrefix(line, "session "):
			r := vlib.NewRand("C16-replay")
			for i := 0; i < 6; i++ {
				c16Session(out, r, true, i == 0)
			}
			c16Session(out, r, false, false)
			fmt.Println("REPLAY (fresh draw of sessions):", line)
		}
	}
}

func c16Unhex(s string) []byte {
	if s == "-" || s == "" {
		return nil
	}
	b := make([]byte, len(s)/2)
	fmt.Sscanf(s, "%x", &b)
	return b
}
