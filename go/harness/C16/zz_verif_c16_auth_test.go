//go:build verif

package dtls

// C16, authentication half.
//
// "A handshake completes only when both used the same secret" rests on three independent checks in the code:
// the shared listener's VerifyConnection (listener.go), the one-off server's VerifyPeerCertificate (server.go)
// and the dialling side's VerifyPeerCertificate (dial.go).  In a session between two honest ends of this package
// each of them is masked by the others: with different secrets BOTH ends refuse.  Here every check is attacked
// alone, by a bare pion endpoint that skips its own verification, copies what is public on the wire (the
// client-hello random) and presents a certificate that was not derived from the secret: the certificate pair of
// another secret, a look-alike of the right certificate under a fresh key, or none.  A control with the right
// certificates shows that the bare endpoint is able to complete the handshake at all.
//
// Then the positive half on the real stack: scenarios on the real listener over loopback UDP in which the matching
// session MUST be delivered (plain; after a refused duplicate Accept; after a cancelled Accept of the same secret;
// after a dial with an unregistered secret), retried before anything is reported.

import (
	"context"
	"crypto/tls"
	"fmt"
	"net"
	"strings"
	"time"

	"github.com/pion/dtls/v2"
	"github.com/pion/dtls/v2/pkg/protocol/handshake"
	"github.com/refraction-networking/conjure/internal/vlib"
)

// the certificates a bare endpoint presents, by attack kind; "same-secret" is the control
var c16AttackKinds = []string{"other-secret", "look-alike", "no-certificate", "same-secret"}

func c16AttackCerts(kind string, right, other *tls.Certificate) ([]tls.Certificate, error) {
	switch kind {
	case "other-secret":
		return []tls.Certificate{*other}, nil
	case "look-alike":
		f, err := c16ForgedPair(right)
		if err != nil {
			return nil, err
		}
		return []tls.Certificate{*f}, nil
	case "no-certificate":
		return nil, nil
	}
	return []tls.Certificate{*right}, nil
}

func c16RawClientConfig(rnd *[handshake.RandomBytesLength]byte, certs []tls.Certificate) *dtls.Config {
	cfg := &dtls.Config{Certificates: certs, ExtendedMasterSecret: dtls.RequireExtendedMasterSecret, InsecureSkipVerify: true}
	if rnd != nil {
		v := *rnd
		cfg.CustomClientHelloRandom = func() [handshake.RandomBytesLength]byte { return v }
	}
	return cfg
}

// c16Retire: a real listener is NOT closed when a round is over.  pion's udp listener (transport/v2 udp/conn.go, the
// fork pinned in go.mod) calls connWG.Add(1) in Accept while Close brings the same WaitGroup to zero: a datagram that
// arrives in the instant of Close (a late close_notify of a dialler) makes the process panic with "sync: WaitGroup is
// reused before previous Wait has returned" — in a goroutine of the library, which no harness can recover.  That
// is a defect of the dependency at listener shutdown, outside C16's statement; the listener's socket and its two
// parked goroutines simply stay until the test process ends.
func c16Retire(l *Listener) {}

// returned (optional): closed when the Accept in question has returned — there is nothing to wait for any more
// (a tree on which an Accept is refused at once must not cost the full wait every time).
func c16WaitRegistered(l *Listener, rnd [handshake.RandomBytesLength]byte, d time.Duration, returned ...<-chan struct{}) bool {
	deadline := time.Now().Add(d)
	for time.Now().Before(deadline) {
		for _, ch := range returned {
			select {
			case <-ch:
				return false
			default:
			}
		}
		l.connToCertMutex.Lock()
		c := l.connToCert[rnd] != nil
		l.connToCertMutex.Unlock()
		l.connMapMutex.Lock()
		m := l.connMap[rnd] != nil
		l.connMapMutex.Unlock()
		if c && m {
			return true
		}
		time.Sleep(200 * time.Microsecond)
	}
	return false
}

// ---------------------------------------------------------------------------------------------
// (a) the shared listener against a bare client that copies the hello-random of a registered secret

func c16ListenerAuth(out *vlib.Out, r *vlib.Rand, rounds int) {
	l, err := Listen("udp", &net.UDPAddr{IP: net.IPv4(127, 0, 0, 1), Port: 0}, &Config{LogAuthFail: func(*net.IP) {}, LogOther: func(*net.IP) {}})
	if err != nil {
		out.Note("C16: cannot listen on loopback UDP: " + err.Error())
		out.Count("skip:no-loopback-udp")
		return
	}
	defer c16Retire(l)
	addr := l.Addr().(*net.UDPAddr)
	attempt := func(kind string, a, b int) (delivered bool, clientErr error, note string) {
		ca, cb := c16CertsOf(a), c16CertsOf(b)
		certs, err := c16AttackCerts(kind, ca.client, cb.client)
		if err != nil {
			return false, nil, "forgery-not-built"
		}
		ctx, cancel := context.WithTimeout(context.Background(), 15*time.Second)
		defer cancel()
		resCh := make(chan c16AccRes, 1)
		returned := make(chan struct{})
		go func() {
			c, err := l.acceptDTLSConn(ctx, &Config{PSK: c16Secret(a)})
			resCh <- c16AccRes{c, err}
			close(returned)
		}()
		if !c16WaitRegistered(l, ca.rnd, 10*time.Second, returned) {
			cancel()
			<-resCh
			return false, nil, "accept-never-registered"
		}
		conn, err := net.DialUDP("udp", nil, addr)
		if err != nil {
			cancel()
			<-resCh
			return false, nil, "no-udp"
		}
		hctx, hcancel := context.WithTimeout(context.Background(), 7*time.Second)
		rc, cerr := dtls.ClientWithContext(hctx, conn, c16RawClientConfig(&ca.rnd, certs))
		hcancel()
		if rc != nil {
			defer rc.Close()
		} else {
			defer conn.Close()
		}
		// the acceptor: a delivered connection arrives right behind the handshake
		var res c16AccRes
		select {
		case res = <-resCh:
		case <-time.After(map[bool]time.Duration{true: 3 * time.Second, false: 150 * time.Millisecond}[cerr == nil]):
			cancel()
			res = <-resCh
		}
		if res.err == nil && res.conn != nil {
			if dc, ok := res.conn.(*dtls.Conn); ok {
				if cs := dc.ConnectionState(); cs.RemoteRandomBytes() != ca.rnd {
					note = "delivered-connection-carries-another-random"
				}
				dc.Close()
			}
			return true, cerr, note
		}
		return false, cerr, note
	}
	for round := 0; round < rounds; round++ {
		a := 7000 + r.Intn(100000)
		b := a + 1 + r.Intn(50)
		for _, kind := range c16AttackKinds {
			replay := fmt.Sprintf("listener-auth kind=%s registered-secret=%d presented-secret=%d", kind, a, b)
			if kind == "same-secret" {
				ok := false
				var last string
				for try := 0; try < 3 && !ok; try++ {
					d, cerr, note := attempt(kind, a+1000*try, b)
					ok = d && cerr == nil && note == ""
					last = fmt.Sprintf("delivered=%v client=%v %s", d, cerr, note)
				}
				out.Checked()
				if !ok {
					out.OracleFail("C16:matching-session-not-delivered", "a bare client with the hello-random and the client certificate of the registered secret was not delivered to the waiting Accept in 3 attempts ("+last+")", replay)
				} else {
					out.Count("auth:listener:same-secret-delivered")
				}
				continue
			}
			d, cerr, note := attempt(kind, a, b)
			if note == "forgery-not-built" || note == "no-udp" || note == "accept-never-registered" {
				out.Count("auth:listener:skipped:" + note)
				continue
			}
			out.Checked()
			if d || cerr == nil {
				out.OracleFail("C16:listener-accepts-foreign-client-certificate", fmt.Sprintf("a client that copied the hello-random of a registered secret and presented %s completed the handshake (client error: %v, connection delivered to the waiting Accept: %v)", kind, cerr, d), replay)
			} else {
				out.Count("auth:listener:rejected:" + kind)
			}
		}
	}
}

// ---------------------------------------------------------------------------------------------
// (b) the dialling side against a bare server, (c) the one-off server against a bare client (net.Pipe)

func c16PipeAuth(out *vlib.Out, r *vlib.Rand, rounds int) {
	// dialSide: the package's client end (dtlsCtx, below the SCTP layer) against a bare server presenting `certs`
	dialSide := func(a int, certs []tls.Certificate) (ourErr, bareErr error) {
		ps, pc := net.Pipe()
		defer ps.Close()
		defer pc.Close()
		ctx, cancel := context.WithTimeout(context.Background(), 7*time.Second)
		defer cancel()
		bare := make(chan error, 1)
		go func() {
			c, err := dtls.ServerWithContext(ctx, ps, &dtls.Config{Certificates: certs, ClientAuth: dtls.RequireAnyClientCert,
				ExtendedMasterSecret: dtls.RequireExtendedMasterSecret, InsecureSkipVerifyHello: true})
			if c != nil {
				defer c.Close()
			}
			bare <- err
		}()
		c, err := dtlsCtx(ctx, pc, &Config{PSK: c16Secret(a)})
		if err == nil { // (on failure the interface holds a nil *dtls.Conn)
			defer c.Close()
		}
		var berr error
		select {
		case berr = <-bare:
		case <-time.After(map[bool]time.Duration{true: 3 * time.Second, false: 100 * time.Millisecond}[err == nil]):
			cancel()
			ps.Close()
			pc.Close()
			berr = <-bare
		}
		return err, berr
	}
	// serverSide: the package's one-off server (ServerWithContext) against a bare client presenting `certs`
	serverSide := func(a int, certs []tls.Certificate) (bareErr error) {
		ps, pc := net.Pipe()
		ctx, cancel := context.WithTimeout(context.Background(), 7*time.Second)
		ours := make(chan struct{})
		go func() {
			defer close(ours)
			c, err := ServerWithContext(ctx, ps, &Config{PSK: c16Secret(a), SCTP: ServerAccept})
			if err == nil {
				c.Close()
			}
		}()
		c, err := dtls.ClientWithContext(ctx, pc, c16RawClientConfig(nil, certs))
		if c != nil {
			c.Close()
		}
		cancel()
		ps.Close()
		pc.Close()
		select { // the server end is stuck in the SCTP set-up at most until the pipe is gone
		case <-ours:
		case <-time.After(5 * time.Second):
		}
		return err
	}
	for round := 0; round < rounds; round++ {
		a := 9000 + r.Intn(100000)
		b := a + 1 + r.Intn(50)
		ca, cb := c16CertsOf(a), c16CertsOf(b)
		for _, kind := range c16AttackKinds {
			// ---- dialling side (a server must present a certificate: "no-certificate" does not apply)
			if kind != "no-certificate" {
				replay := fmt.Sprintf("dial-auth kind=%s dial-secret=%d presented-secret=%d", kind, a, b)
				certs, err := c16AttackCerts(kind, ca.server, cb.server)
				switch {
				case err != nil:
					out.Count("auth:dial:skipped:forgery-not-built")
				case kind == "same-secret":
					ok := false
					var last string
					for try := 0; try < 3 && !ok; try++ {
						oerr, berr := dialSide(a, certs)
						ok = oerr == nil && berr == nil
						last = fmt.Sprintf("dialler=%v bare-server=%v", oerr, berr)
					}
					out.Checked()
					if !ok {
						out.OracleFail("C16:same-secret-handshake-rejected", "the dialling side did not complete a handshake with a server presenting the server certificate of its own secret in 3 attempts ("+last+")", replay)
					} else {
						out.Count("auth:dial:same-secret-completes")
					}
				default:
					oerr, berr := dialSide(a, certs)
					out.Checked()
					if oerr == nil || berr == nil {
						out.OracleFail("C16:dialler-accepts-foreign-server-certificate", fmt.Sprintf("the dialling side completed a handshake with a server presenting %s (dialler error: %v, server error: %v)", kind, oerr, berr), replay)
					} else {
						out.Count("auth:dial:rejected:" + kind)
					}
				}
			}
			// ---- one-off server
			replay := fmt.Sprintf("server-auth kind=%s server-secret=%d presented-secret=%d", kind, a, b)
			certs, err := c16AttackCerts(kind, ca.client, cb.client)
			switch {
			case err != nil:
				out.Count("auth:server:skipped:forgery-not-built")
			case kind == "same-secret":
				ok := false
				var last error
				for try := 0; try < 3 && !ok; try++ {
					last = serverSide(a, certs)
					ok = last == nil
				}
				out.Checked()
				if !ok {
					out.OracleFail("C16:same-secret-handshake-rejected", fmt.Sprintf("Server did not complete a handshake with a client presenting the client certificate of its own secret in 3 attempts (%v)", last), replay)
				} else {
					out.Count("auth:server:same-secret-completes")
				}
			default:
				berr := serverSide(a, certs)
				out.Checked()
				if berr == nil {
					out.OracleFail("C16:server-accepts-foreign-client-certificate", fmt.Sprintf("Server completed a handshake with a client presenting %s", kind), replay)
				} else {
					out.Count("auth:server:rejected:" + kind)
				}
			}
		}
	}
}

// ---------------------------------------------------------------------------------------------
// scenarios on the real listener in which the matching session must be delivered

var c16RealKinds = []string{"plain", "after-refused-duplicate", "after-cancelled-accept", "after-unregistered-dial"}

func c16RealScenarios(out *vlib.Out, r *vlib.Rand, rounds int) {
	l, err := Listen("udp", &net.UDPAddr{IP: net.IPv4(127, 0, 0, 1), Port: 0}, &Config{LogAuthFail: func(*net.IP) {}, LogOther: func(*net.IP) {}})
	if err != nil {
		out.Note("C16: cannot listen on loopback UDP: " + err.Error())
		out.Count("skip:no-loopback-udp")
		return
	}
	defer c16Retire(l)
	addr := l.Addr().(*net.UDPAddr)
	type failure struct{ sig, what string }
	// one attempt; "" = the session was delivered and carried the secret's message both ways
	attempt := func(kind string, secret int) (why string, hard *failure) {
		rnd := c16CertsOf(secret).rnd
		if kind == "after-cancelled-accept" {
			ctx, cancel := context.WithCancel(context.Background())
			done := make(chan error, 1)
			returned := make(chan struct{})
			go func() {
				c, err := l.AcceptWithContext(ctx, &Config{PSK: c16Secret(secret), SCTP: ServerAccept})
				if err == nil {
					c.Close()
				}
				done <- err
				close(returned)
			}()
			c16WaitRegistered(l, rnd, 10*time.Second, returned)
			cancel()
			select {
			case err := <-done:
				if err == nil {
					return "", &failure{"C16:accept-returned-without-connection", "a cancelled Accept that nobody dialled returned a connection"}
				}
			case <-time.After(20 * time.Second):
				return "", &failure{"C16:cancel-does-not-return", "Accept did not return after its context was cancelled"}
			}
		}
		ctx, cancel := context.WithTimeout(context.Background(), 14*time.Second)
		defer cancel()
		type accRes struct {
			msg string
			err error
		}
		accCh := make(chan accRes, 1)
		accReturned := make(chan struct{})
		go func() {
			c, err := l.AcceptWithContext(ctx, &Config{PSK: c16Secret(secret), SCTP: ServerAccept})
			close(accReturned)
			if err != nil {
				accCh <- accRes{"", err}
				return
			}
			defer c.Close()
			_ = c.SetReadDeadline(time.Now().Add(10 * time.Second))
			buf := make([]byte, 64)
			n, err := c.Read(buf)
			if err == nil {
				_, _ = c.Write([]byte("ack:" + string(buf[:n])))
				time.Sleep(30 * time.Millisecond)
			}
			accCh <- accRes{string(buf[:n]), err}
		}()
		if !c16WaitRegistered(l, rnd, 10*time.Second, accReturned) {
			select {
			case res := <-accCh:
				if res.err != nil {
					return "the Accept returned at once: " + res.err.Error(), nil
				}
			default:
			}
			return "the Accept did not register within 10 s", nil
		}
		switch kind {
		case "after-refused-duplicate":
			done := make(chan error, 1)
			go func() {
				c, err := l.AcceptWithContext(ctx, &Config{PSK: c16Secret(secret), SCTP: ServerAccept})
				if err == nil {
					c.Close()
				}
				done <- err
			}()
			select {
			case err := <-done:
				if err == nil || !strings.Contains(err.Error(), "already registered") {
					return "", &failure{"C16:duplicate-secret-not-rejected", fmt.Sprintf("a second Accept for a secret that is being waited for returned %v", err)}
				}
			case <-time.After(10 * time.Second):
				return "", &failure{"C16:duplicate-secret-not-rejected", "a second Accept for a secret that is being waited for neither failed nor returned within 10 s"}
			}
		case "after-unregistered-dial":
			uctx, ucancel := context.WithTimeout(context.Background(), 4*time.Second)
			c, err := DialWithContext(uctx, addr, &Config{PSK: c16Secret(secret + 500000), SCTP: ClientOpen})
			ucancel()
			if err == nil {
				c.Close()
				return "", &failure{"C16:handshake-with-unregistered-secret", "a session was established with a secret that no Accept registered"}
			}
		}
		dctx, dcancel := context.WithTimeout(context.Background(), 10*time.Second)
		defer dcancel()
		c, err := DialWithContext(dctx, addr, &Config{PSK: c16Secret(secret), SCTP: ClientOpen})
		if err != nil {
			cancel()
			<-accCh
			return "dial: " + err.Error(), nil
		}
		defer c.Close()
		want := fmt.Sprintf("secret:%d", secret)
		if _, err := c.Write([]byte(want)); err != nil {
			return "write: " + err.Error(), nil
		}
		select {
		case res := <-accCh:
			switch {
			case res.err != nil:
				return "accept: " + res.err.Error(), nil
			case res.msg != want:
				return "", &failure{"C16:cross-delivery", fmt.Sprintf("the Accept waiting for secret %d received %q", secret, res.msg)}
			}
		case <-time.After(15 * time.Second):
			return "the Accept neither returned nor failed", nil
		}
		_ = c.SetReadDeadline(time.Now().Add(10 * time.Second))
		buf := make([]byte, 64)
		n, err := c.Read(buf)
		if err != nil {
			return "read of the acknowledgement: " + err.Error(), nil
		}
		if string(buf[:n]) != "ack:"+want {
			return "", &failure{"C16:cross-delivery", fmt.Sprintf("the dialler with secret %d was answered %q", secret, buf[:n])}
		}
		return "", nil
	}
	for round := 0; round < rounds; round++ {
		for _, kind := range c16RealKinds {
			base := 20000 + r.Intn(1000000)
			replay := fmt.Sprintf("realscenario kind=%s secret=%d", kind, base)
			var whys []string
			ok := false
			for try := 0; try < 3 && !ok; try++ {
				why, hard := attempt(kind, base+try)
				if hard != nil {
					out.Checked()
					out.OracleFail(hard.sig, kind+": "+hard.what, replay)
					ok = true // reported under its own signature
					break
				}
				ok = why == ""
				whys = append(whys, why)
			}
			out.Checked()
			switch {
			case !ok:
				out.OracleFail("C16:matching-session-not-delivered", fmt.Sprintf("real listener, scenario %q: client and waiting Accept use the same secret but no session was delivered in 3 attempts (%s)", kind, strings.Join(whys, " | ")), replay)
			default:
				out.Count("real:" + kind + ":delivered")
			}
		}
	}
	// everything has returned: nothing may be left registered
	out.Checked()
	l.connToCertMutex.Lock()
	nc := len(l.connToCert)
	l.connToCertMutex.Unlock()
	l.connMapMutex.Lock()
	nh := len(l.connMap)
	l.connMapMutex.Unlock()
	if nc != 0 || nh != 0 {
		out.OracleFail("C16:registration-leaked", fmt.Sprintf("real listener scenarios: all Accept calls returned; connToCert has %d entries, connMap has %d", nc, nh), "realscenario all")
	}
}
