//go:build verif

package dtls

// C16 extractor, second table: the shape of Listener.acceptLoop over the life of the listener (go/ast).
//
// For the one `go func(){…}()` of acceptLoop: every exit path of the goroutine (each `return`, and the end of the
// function if it can be reached), and every per-connection resource — something taken once per accepted connection,
// by the loop or by the goroutine, out of a supply that the goroutines share:
//
//	chan-slot   a send on a channel that is not local to the goroutine           given back by a receive
//	counter     x++ / x += n / atomic.AddT(&x, n) / x.Add(n) on a shared variable given back by x-- / -= / Add(-n) / Done()
//	map-entry   m[k] = v on a shared map                                           given back by delete(m, k)
//	lock        x.Lock() / x.RLock() / x.Acquire(…) on a shared object             given back by Unlock / RUnlock / Release
//	context     ctx, cancel := context.WithX(…)                                    given back by cancel()
//
// with its capacity (the buffer size of the channel, the limit a counter / len(map) is compared with; none for a
// context and for a counter that is compared with nothing) and, per exit path, whether the path gives it back
// (straight-line statements in front of the exit, statements of every enclosing branch, and defers registered
// before it).  Output: CJ/Gen/C16AcceptLoop.lean.

import (
	"fmt"
	"go/ast"
	"go/parser"
	"go/token"
	"os"
	"path/filepath"
	"sort"
	"strconv"
	"strings"
	"testing"
)

type c16lRes struct {
	name, kind, where, capExpr string
	cap                        int // -1 unknown / unbounded
}

func c16lRoot(e ast.Expr) string {
	for {
		switch x := e.(type) {
		case *ast.SelectorExpr:
			e = x.X
		case *ast.IndexExpr:
			e = x.X
		case *ast.StarExpr:
			e = x.X
		case *ast.ParenExpr:
			e = x.X
		case *ast.UnaryExpr:
			e = x.X
		case *ast.CallExpr:
			e = x.Fun
		case *ast.Ident:
			return x.Name
		default:
			return ""
		}
	}
}

func c16lNegative(e ast.Expr) bool {
	switch x := e.(type) {
	case *ast.UnaryExpr:
		return x.Op == token.SUB || x.Op == token.XOR
	case *ast.ParenExpr:
		return c16lNegative(x.X)
	case *ast.CallExpr: // ^uint32(0), int32(-1)
		return len(x.Args) == 1 && c16lNegative(x.Args[0])
	}
	return false
}

// c16lOp classifies one statement / expression: (resource name, kind, +1 acquire | -1 release), ok
func c16lOp(fset *token.FileSet, n ast.Node) (string, string, int, bool) {
	pr := func(e ast.Expr) string { return c16gPrint(fset, e) }
	call := func(c *ast.CallExpr) (string, string, int, bool) {
		switch f := c.Fun.(type) {
		case *ast.Ident:
			if f.Name == "delete" && len(c.Args) == 2 {
				return pr(c.Args[0]), "map-entry", -1, true
			}
			if len(c.Args) == 0 && strings.Contains(strings.ToLower(f.Name), "cancel") {
				return f.Name, "context", -1, true
			}
		case *ast.SelectorExpr:
			recv := pr(f.X)
			switch f.Sel.Name {
			case "Lock", "RLock", "Acquire":
				return recv, "lock", +1, true
			case "Unlock", "RUnlock", "Release":
				return recv, "lock", -1, true
			case "Done":
				if len(c.Args) == 0 && recv != "ctx" && !strings.HasSuffix(recv, "Ctx") {
					return recv, "counter", -1, true
				}
			case "Add":
				if len(c.Args) == 1 {
					if c16lNegative(c.Args[0]) {
						return recv, "counter", -1, true
					}
					return recv, "counter", +1, true
				}
			}
			if recv == "atomic" && strings.HasPrefix(f.Sel.Name, "Add") && len(c.Args) == 2 {
				name := pr(c.Args[0])
				name = strings.TrimPrefix(name, "&")
				if c16lNegative(c.Args[1]) {
					return name, "counter", -1, true
				}
				return name, "counter", +1, true
			}
		}
		return "", "", 0, false
	}
	switch x := n.(type) {
	case *ast.SendStmt:
		return pr(x.Chan), "chan-slot", +1, true
	case *ast.UnaryExpr:
		if x.Op == token.ARROW {
			return pr(x.X), "chan-slot", -1, true
		}
	case *ast.IncDecStmt:
		if x.Tok == token.INC {
			return pr(x.X), "counter", +1, true
		}
		return pr(x.X), "counter", -1, true
	case *ast.AssignStmt:
		if len(x.Lhs) == 1 && (x.Tok == token.ADD_ASSIGN || x.Tok == token.SUB_ASSIGN) {
			d := +1
			if (x.Tok == token.SUB_ASSIGN) != c16lNegative(x.Rhs[0]) {
				d = -1
			}
			return pr(x.Lhs[0]), "counter", d, true
		}
		if len(x.Lhs) == 1 && x.Tok == token.ASSIGN {
			if ix, ok := x.Lhs[0].(*ast.IndexExpr); ok {
				return pr(ix.X), "map-entry", +1, true
			}
		}
		if len(x.Lhs) == 2 && len(x.Rhs) == 1 {
			if c, ok := x.Rhs[0].(*ast.CallExpr); ok {
				if s, ok := c.Fun.(*ast.SelectorExpr); ok && pr(s.X) == "context" && strings.HasPrefix(s.Sel.Name, "With") {
					return pr(x.Lhs[1]), "context", +1, true
				}
			}
		}
	case *ast.CallExpr:
		return call(x)
	}
	return "", "", 0, false
}

// c16lOps: all operations below a node, function literals excluded unless `into` is set
func c16lOps(fset *token.FileSet, n ast.Node, into bool, skip ast.Node) (acq, rel [][2]string) {
	ast.Inspect(n, func(m ast.Node) bool {
		if m == nil || m == skip {
			return false
		}
		if _, ok := m.(*ast.FuncLit); ok && !into && m != n {
			return false
		}
		if name, kind, d, ok := c16lOp(fset, m); ok {
			if d > 0 {
				acq = append(acq, [2]string{name, kind})
			} else {
				rel = append(rel, [2]string{name, kind})
			}
		}
		return true
	})
	return
}

type c16lState struct{ released map[string]bool }

func (s *c16lState) clone() *c16lState {
	c := &c16lState{map[string]bool{}}
	for k := range s.released {
		c.released[k] = true
	}
	return c
}

func c16lMeet(a, b *c16lState) *c16lState {
	if a == nil {
		return b
	}
	if b == nil {
		return a
	}
	c := &c16lState{map[string]bool{}}
	for k := range a.released {
		if b.released[k] {
			c.released[k] = true
		}
	}
	return c
}

type c16lExit struct {
	guard    string
	released map[string]bool
}

type c16lWalker struct {
	fset  *token.FileSet
	exits []c16lExit
}

// simple statement: releases outside function literals; a defer releases from here on for every later exit
func (w *c16lWalker) simple(n ast.Node, st *c16lState) {
	if n == nil {
		return
	}
	into := false
	if _, ok := n.(*ast.DeferStmt); ok {
		into = true
	}
	_, rel := c16lOps(w.fset, n, into, nil)
	for _, r := range rel {
		st.released[r[0]] = true
	}
}

func (w *c16lWalker) block(list []ast.Stmt, st *c16lState, guard []string) *c16lState {
	for _, s := range list {
		if st == nil {
			return nil
		}
		st = w.stmt(s, st, guard)
	}
	return st
}

func (w *c16lWalker) stmt(s ast.Stmt, st *c16lState, guard []string) *c16lState {
	pr := func(n ast.Node) string { return c16gPrint(w.fset, n) }
	g := func(x string) []string { return append(append([]string{}, guard...), x) }
	switch x := s.(type) {
	case *ast.ReturnStmt:
		w.simple(x, st)
		w.exits = append(w.exits, c16lExit{strings.Join(guard, " / "), st.clone().released})
		return nil
	case *ast.BlockStmt:
		return w.block(x.List, st, guard)
	case *ast.LabeledStmt:
		return w.stmt(x.Stmt, st, guard)
	case *ast.IfStmt:
		if x.Init != nil {
			w.simple(x.Init, st)
		}
		w.simple(x.Cond, st)
		a := w.block(x.Body.List, st.clone(), g("if "+pr(x.Cond)))
		var b *c16lState
		if x.Else != nil {
			b = w.stmt(x.Else, st.clone(), g("else of "+pr(x.Cond)))
		} else {
			b = st
		}
		return c16lMeet(a, b)
	case *ast.ForStmt:
		w.block(x.Body.List, st.clone(), g("for"))
		return st
	case *ast.RangeStmt:
		w.block(x.Body.List, st.clone(), g("range"))
		return st
	case *ast.SwitchStmt, *ast.TypeSwitchStmt, *ast.SelectStmt:
		var body *ast.BlockStmt
		hasDefault := false
		head := "switch"
		switch y := x.(type) {
		case *ast.SwitchStmt:
			body = y.Body
			if y.Init != nil {
				w.simple(y.Init, st)
			}
		case *ast.TypeSwitchStmt:
			body = y.Body
		case *ast.SelectStmt:
			body = y.Body
			head = "select"
			hasDefault = true // a select always takes one of its cases
		}
		var after *c16lState
		for _, c := range body.List {
			cs := st.clone()
			var list []ast.Stmt
			label := "default"
			switch cc := c.(type) {
			case *ast.CaseClause:
				list = cc.Body
				if cc.List == nil {
					hasDefault = true
				} else {
					var l []string
					for _, e := range cc.List {
						l = append(l, pr(e))
					}
					label = strings.Join(l, ", ")
				}
			case *ast.CommClause:
				list = cc.Body
				if cc.Comm != nil {
					w.simple(cc.Comm, cs)
					label = pr(cc.Comm)
				}
			}
			after = c16lMeet(after, w.block(list, cs, g(head+" case "+label)))
		}
		if !hasDefault {
			after = c16lMeet(after, st)
		}
		return after
	default:
		w.simple(s, st)
		return st
	}
}

func TestVerifC16GenLoop(t *testing.T) {
	fset := token.NewFileSet()
	pkgs, err := parser.ParseDir(fset, ".", func(fi os.FileInfo) bool {
		return !strings.HasSuffix(fi.Name(), "_test.go") && !strings.HasPrefix(fi.Name(), "zz_verif")
	}, 0)
	if err != nil {
		t.Fatal(err)
	}
	consts := map[string]int{}
	var loop *ast.FuncDecl
	for _, p := range pkgs {
		if p.Name != "dtls" {
			continue
		}
		for _, f := range p.Files {
			for _, d := range f.Decls {
				switch x := d.(type) {
				case *ast.FuncDecl:
					if x.Body != nil && c16gFuncName(x) == "Listener.acceptLoop" {
						loop = x
					}
				case *ast.GenDecl:
					if x.Tok != token.CONST {
						continue
					}
					for _, sp := range x.Specs {
						vs := sp.(*ast.ValueSpec)
						for i, n := range vs.Names {
							if i < len(vs.Values) {
								if bl, ok := vs.Values[i].(*ast.BasicLit); ok && bl.Kind == token.INT {
									if v, err := strconv.ParseInt(bl.Value, 0, 64); err == nil {
										consts[n.Name] = int(v)
									}
								}
							}
						}
					}
				}
			}
		}
	}
	if loop == nil {
		t.Fatal("Listener.acceptLoop not found")
	}
	var gos []*ast.GoStmt
	ast.Inspect(loop.Body, func(n ast.Node) bool {
		if g, ok := n.(*ast.GoStmt); ok {
			gos = append(gos, g)
		}
		return true
	})
	if len(gos) != 1 {
		t.Fatalf("acceptLoop has %d go statements; the extractor handles exactly one", len(gos))
	}
	lit, ok := gos[0].Call.Fun.(*ast.FuncLit)
	if !ok {
		t.Fatal("the go statement of acceptLoop does not start a function literal")
	}
	// names declared inside the goroutine: what is rooted there is private to one handshake
	local := map[string]bool{}
	ast.Inspect(lit, func(n ast.Node) bool {
		switch x := n.(type) {
		case *ast.AssignStmt:
			if x.Tok == token.DEFINE {
				for _, l := range x.Lhs {
					if id, ok := l.(*ast.Ident); ok {
						local[id.Name] = true
					}
				}
			}
		case *ast.ValueSpec:
			for _, id := range x.Names {
				local[id.Name] = true
			}
		case *ast.TypeSwitchStmt:
			if a, ok := x.Assign.(*ast.AssignStmt); ok {
				if id, ok := a.Lhs[0].(*ast.Ident); ok {
					local[id.Name] = true
				}
			}
		}
		return true
	})
	// resources
	var res []c16lRes
	seen := map[string]bool{}
	add := func(name, kind, where string) {
		if seen[name] {
			return
		}
		seen[name] = true
		res = append(res, c16lRes{name: name, kind: kind, where: where, cap: -1})
	}
	acqLoop, _ := c16lOps(fset, loop.Body, false, gos[0])
	for _, a := range acqLoop {
		add(a[0], a[1], "loop")
	}
	acqG, _ := c16lOps(fset, lit.Body, true, nil)
	for _, a := range acqG {
		root := a[0]
		if i := strings.IndexAny(root, ".[("); i >= 0 {
			root = root[:i]
		}
		root = strings.TrimLeft(root, "&*")
		if a[1] == "context" || !local[root] {
			add(a[0], a[1], "goroutine")
		}
	}
	// capacities
	for i := range res {
		r := &res[i]
		var capE ast.Expr
		ast.Inspect(loop.Body, func(n ast.Node) bool {
			switch x := n.(type) {
			case *ast.AssignStmt:
				for j, l := range x.Lhs {
					if c16gPrint(fset, l) == r.name && j < len(x.Rhs) {
						if c, ok := x.Rhs[j].(*ast.CallExpr); ok && c16gPrint(fset, c.Fun) == "make" && len(c.Args) == 2 {
							capE = c.Args[1]
						}
					}
				}
			case *ast.BinaryExpr:
				switch x.Op {
				case token.GTR, token.GEQ, token.LSS, token.LEQ:
					xs, ys := c16gPrint(fset, x.X), c16gPrint(fset, x.Y)
					if strings.Contains(xs, r.name) && !strings.Contains(ys, r.name) {
						capE = x.Y
					} else if strings.Contains(ys, r.name) && !strings.Contains(xs, r.name) {
						capE = x.X
					}
				}
			}
			return true
		})
		if capE != nil {
			r.capExpr = c16gPrint(fset, capE)
			switch c := capE.(type) {
			case *ast.BasicLit:
				if v, err := strconv.ParseInt(c.Value, 0, 64); err == nil {
					r.cap = int(v)
				}
			case *ast.Ident:
				if v, ok := consts[c.Name]; ok {
					r.cap = v
				}
			}
			if r.cap < 0 {
				t.Fatalf("the capacity %q of the per-connection resource %s of acceptLoop is not an integer constant of the package", r.capExpr, r.name)
			}
		} else if r.kind == "chan-slot" {
			t.Fatalf("acceptLoop sends on the shared channel %s once per connection; its capacity was not found in acceptLoop", r.name)
		}
	}
	// exits of the goroutine
	w := &c16lWalker{fset: fset}
	if end := w.block(lit.Body.List, &c16lState{map[string]bool{}}, nil); end != nil {
		w.exits = append(w.exits, c16lExit{"end of the function", end.released})
	}

	var sb strings.Builder
	sb.WriteString("/-! GENERATED by /verif/go/harness/C16/zz_verif_c16_gen_loop_test.go from pkg/dtls/listener.go (go/ast). Do not edit. -/\n")
	sb.WriteString("namespace CJ.Gen.C16AcceptLoop\n\n")
	sb.WriteString("/-- the exit paths of the handshake goroutine of Listener.acceptLoop, in source order: the conditions that lead to each -/\n")
	sb.WriteString("def exits : List String := [")
	for i, e := range w.exits {
		if i > 0 {
			sb.WriteString(",")
		}
		sb.WriteString("\n  " + c16gLeanStr(e.guard))
	}
	sb.WriteString("\n]\n")
	sb.WriteString("/-- what is taken once per accepted connection: (name, chan-slot | counter | map-entry | lock | context, taken by the loop | goroutine, capacity as written, its value, given back on each exit path) -/\n")
	sb.WriteString("def resources : List (String × String × String × String × Option Nat × List Bool) := [")
	sort.SliceStable(res, func(i, j int) bool { return false })
	for i, r := range res {
		if i > 0 {
			sb.WriteString(",")
		}
		capV := "none"
		if r.cap >= 0 {
			capV = fmt.Sprintf("some %d", r.cap)
		}
		var rel []string
		for _, e := range w.exits {
			rel = append(rel, fmt.Sprint(e.released[r.name]))
		}
		fmt.Fprintf(&sb, "\n  (%s, %s, %s, %s, %s, [%s])", c16gLeanStr(r.name), c16gLeanStr(r.kind), c16gLeanStr(r.where), c16gLeanStr(r.capExpr), capV, strings.Join(rel, ", "))
	}
	sb.WriteString("\n]\n")
	sb.WriteString("\nend CJ.Gen.C16AcceptLoop\n")
	dir := os.Getenv("VERIF_OUT")
	if dir == "" {
		dir = os.TempDir()
	}
	if err := os.WriteFile(filepath.Join(dir, "C16AcceptLoop.lean"), []byte(sb.String()), 0o644); err != nil {
		t.Fatal(err)
	}
}
