//go:build verif

package dtls

// C16, the dimension "time passes": parts of the statement that only show when an established session or a
// waiting writer is looked at again *later*.
//
//   - a network that stays stalled (no acknowledgement at all, or a trickle that never reaches the threshold)
//     for seconds while writers keep writing: the buffered amount stays within the proved bound and no message
//     goes over the limit without a buffered-amount-low notification, for the whole stall; when the network
//     comes back every held writer is released and nothing is lost (scripted stream, and the real pion
//     association over a pipe that drops every packet during the stall);
//   - the context a session was established with, as a dimension: none / a short deadline / cancelled after the
//     handshake / both, on either end, over net.Pipe (Server/Client) and over loopback UDP (Accept/Dial); the
//     session is used in both directions after every deadline has passed: an established connection is a
//     lossless ordered byte stream whatever happens to the context of its handshake afterwards.
//
// All of it runs beside the rest of the harness (wall-clock waits, no CPU).

import (
	"bytes"
	"context"
	"fmt"
	"io"
	"net"
	"strings"
	"sync"
	"sync/atomic"
	"time"

	"github.com/refraction-networking/conjure/internal/vlib"
)

// ---------------------------------------------------------------------------------------------
// stalled network, scripted stream

var c16StallModes = []string{"fill", "stale-token", "trickle"}

// c16Stall: `writers` goroutines write through one SCTPConn for `dur` while the network is stalled.
//
//	fill         no acknowledgement at all
//	stale-token  the amount crossed the threshold once before the stall (one unused notification is in the channel)
//	trickle      a slow network: it acknowledges a few hundred bytes every 10 ms (a crossing of the threshold, if the
//	             stall is long enough to get there, is a notification like any other and is accounted for)
func c16StallSizes(r *vlib.Rand, writers int) [][]int {
	max := int(writeMaxBufferedAmount)
	sizes := make([][]int, writers)
	for w := range sizes {
		for j := 0; j < 6; j++ {
			sizes[w] = append(sizes[w], []int{max / 2, max / 2, 100000, 65536, 1200, r.Range(1, max/2)}[r.Intn(6)])
		}
	}
	return sizes
}

// sizes[w] is the cycle of message sizes of writer w
func c16Stall(out *vlib.Out, r *vlib.Rand, mode string, sizes [][]int, dur time.Duration) {
	st := &c16Stream{endErr: io.EOF}
	conn := newSCTPConn(st, c16DummyConn{}, 65536)
	writers := len(sizes)
	var ss []string
	for _, l := range sizes {
		var p []string
		for _, k := range l {
			p = append(p, fmt.Sprint(k))
		}
		ss = append(ss, strings.Join(p, "."))
	}
	replay := fmt.Sprintf("stall mode=%s ms=%d sizes=%s", mode, dur/time.Millisecond, strings.Join(ss, "/"))
	if mode == "stale-token" {
		_, _ = conn.Write(c16Pattern(1, 100000))
		_, _ = conn.Write(c16Pattern(2, 100000))
		st.drain(150000) // crosses the threshold with no writer waiting
	}
	var stop atomic.Bool
	var wg sync.WaitGroup
	var mu sync.Mutex
	okWrites, badWrites := 0, 0
	if mode == "stale-token" {
		okWrites = 2
	}
	for w := 0; w < writers; w++ {
		wg.Add(1)
		go func(w int) {
			defer wg.Done()
			// (a writer that is not held back at all would fill the memory of the harness: eight times the limit is evidence enough)
			for j := 0; !stop.Load() && st.amount() <= 8*writeMaxBufferedAmount; j++ {
				k := sizes[w][j%len(sizes[w])]
				n, err := conn.Write(c16Pattern(w*31+j, k))
				mu.Lock()
				if err == nil && n == k {
					okWrites++
				} else {
					badWrites++
				}
				mu.Unlock()
			}
		}(w)
	}
	t0 := time.Now()
	for time.Since(t0) < dur {
		if mode == "trickle" {
			st.drain(uint64(r.Range(1, 600)))
		}
		time.Sleep(10 * time.Millisecond)
	}
	// ---- oracle, at the end of the stall
	out.Checked()
	sig, what := st.heldBack()
	if sig != "" {
		out.OracleFail(sig, fmt.Sprintf("network stalled for %v (%s), %d writer(s): %s", dur, mode, writers, what), replay)
	}
	// ---- the network comes back: every writer is released, nothing is lost
	stop.Store(true)
	done := make(chan struct{})
	go func() { wg.Wait(); close(done) }()
	hung := false
	deadline := time.After(30 * time.Second)
loop:
	for {
		select {
		case <-done:
			break loop
		case <-deadline:
			hung = true
			conn.Close()
			<-done
			break loop
		default:
			st.drain(40000)
			time.Sleep(200 * time.Microsecond)
		}
	}
	conn.Close()
	out.Checked()
	st.mu.Lock()
	nwrote := len(st.wrote)
	st.mu.Unlock()
	switch {
	case sig != "":
	case hung:
		out.OracleFail("C16:write-hangs", fmt.Sprintf("after a stall of %v (%s) the network acknowledged everything, yet %d writer(s) did not all return within 30 s", dur, mode, writers), replay)
	case badWrites > 0 || nwrote != okWrites:
		out.OracleFail("C16:write-lost-or-duplicated", fmt.Sprintf("stall (%s): %d writes accepted, %d refused, %d messages forwarded", mode, okWrites, badWrites, nwrote), replay)
	default:
		out.Count("stall:" + mode + ":held-back")
	}
}

// ---------------------------------------------------------------------------------------------
// stalled network, real pion association

// c16Valve drops everything written while it is shut (a path that loses every packet).
type c16Valve struct {
	net.Conn
	shut atomic.Bool
}

func (v *c16Valve) Write(b []byte) (int, error) {
	if v.shut.Load() {
		return len(b), nil
	}
	return v.Conn.Write(b)
}

type c16Estab struct {
	c   net.Conn
	err error
}

// c16RealStall: a real session over net.Pipe; the dialling side's packets are dropped for `dur` while it keeps
// writing 64 KiB messages.  During the stall nothing is acknowledged and no notification can have been produced
// (the wake-up channel is checked to be empty when the stall begins), so the stream's buffered amount may not pass
// the limit (plus the heartbeats, which are written below the flow control); afterwards everything written arrives,
// in order.
func c16RealStall(out *vlib.Out, r *vlib.Rand, dur time.Duration) string {
	server, clientRaw := net.Pipe()
	client := &c16Valve{Conn: clientRaw}
	secret := 700000 + r.Intn(100000)
	replay := fmt.Sprintf("realstall secret=%d ms=%d", secret, dur/time.Millisecond)
	ctx, cancel := context.WithTimeout(context.Background(), 30*time.Second)
	defer cancel()
	sch, cch := make(chan c16Estab, 1), make(chan c16Estab, 1)
	go func() {
		c, err := ServerWithContext(ctx, server, &Config{PSK: c16Secret(secret), SCTP: ServerAccept})
		sch <- c16Estab{c, err}
	}()
	go func() {
		c, err := ClientWithContext(ctx, client, &Config{PSK: c16Secret(secret), SCTP: ClientOpen})
		cch <- c16Estab{c, err}
	}()
	sr, cr := <-sch, <-cch
	defer server.Close()
	defer clientRaw.Close()
	if sr.c != nil {
		defer sr.c.Close()
	}
	if cr.c != nil {
		defer cr.c.Close()
	}
	if sr.err != nil || cr.err != nil {
		out.Count("realstall:no-handshake")
		return "no-handshake"
	}
	sc, ok := cr.c.(*SCTPConn)
	if !ok {
		out.Count("realstall:not-an-sctpconn")
		return "skip"
	}
	var mu sync.Mutex
	var got []byte
	go func() {
		buf := make([]byte, 70000)
		for {
			n, err := sr.c.Read(buf)
			mu.Lock()
			got = append(got, buf[:n]...)
			mu.Unlock()
			if err != nil {
				return
			}
		}
	}()
	time.Sleep(50 * time.Millisecond)
	if len(sc.write) != 0 || sc.stream.BufferedAmount() > 1024 {
		out.Count("realstall:not-quiet-at-start")
		return "skip"
	}
	client.shut.Store(true)
	var stop atomic.Bool
	var sent []byte
	var werr error
	wdone := make(chan struct{})
	go func() {
		defer close(wdone)
		for j := 0; !stop.Load() && j < 40; j++ {
			m := r.Bytes([]int{65536, 65536, 65535, 60000}[j%4])
			if _, err := sc.Write(m); err != nil {
				werr = err
				return
			}
			sent = append(sent, m...)
		}
	}()
	limit := writeMaxBufferedAmount + 2048 // a handful of 32-byte heartbeats may be written below the flow control
	var maxB uint64
	t0 := time.Now()
	for time.Since(t0) < dur {
		if b := sc.stream.BufferedAmount(); b > maxB {
			maxB = b
		}
		time.Sleep(2 * time.Millisecond)
	}
	out.Checked()
	bad := maxB > limit
	if bad {
		out.OracleFail("C16:writer-not-held-back", fmt.Sprintf("real association, every packet of the writing side dropped for %v: the stream's buffered amount reached %d although no message fits under the limit of %d and the network acknowledged nothing", dur, maxB, writeMaxBufferedAmount), replay)
	}
	// the path comes back
	stop.Store(true)
	client.shut.Store(false)
	select {
	case <-wdone:
	case <-time.After(60 * time.Second):
		if !bad {
			out.Count("realstall:writer-still-waiting-after-60s") // retransmission back-off on a loaded machine: counted
		}
		return "incomplete"
	}
	if werr != nil {
		out.Count("realstall:write-error")
		return "write-error"
	}
	deadline := time.Now().Add(60 * time.Second)
	for time.Now().Before(deadline) {
		mu.Lock()
		n := len(got)
		mu.Unlock()
		if n >= len(sent) {
			break
		}
		time.Sleep(10 * time.Millisecond)
	}
	mu.Lock()
	g := append([]byte(nil), got...)
	mu.Unlock()
	out.Checked()
	switch {
	case bytes.Equal(g, sent):
		if !bad {
			out.Count("realstall:held-back-and-faithful")
		}
		return "faithful"
	case bytes.HasPrefix(sent, g):
		out.Count("realstall:incomplete-within-timeout")
		return "incomplete"
	}
	out.OracleFail("C16:stream-bytes-differ", fmt.Sprintf("real association after a stall: the accepting side read %d bytes that are not the %d bytes written", len(g), len(sent)), replay)
	return "differ"
}

// ---------------------------------------------------------------------------------------------
// the context of the handshake as a dimension

var c16CtxShapes = []string{"none", "deadline", "cancel", "deadline+cancel"}

type c16Ctx struct {
	ctx      context.Context
	cancel   context.CancelFunc
	deadline time.Time // zero: none
	early    bool      // cancelled as soon as the session is established (what `defer cancel()` does)
}

func c16MkCtx(shape string, d time.Duration) *c16Ctx {
	c := &c16Ctx{}
	switch shape {
	case "none":
		c.ctx, c.cancel = context.Background(), func() {}
	case "cancel":
		c.ctx, c.cancel = context.WithCancel(context.Background())
		c.early = true
	case "deadline", "deadline+cancel":
		c.ctx, c.cancel = context.WithTimeout(context.Background(), d)
		c.deadline, _ = c.ctx.Deadline()
		c.early = shape == "deadline+cancel"
	}
	return c
}

// c16Exchange sends msg from a to b and reads it back out of b with reads of `chunk` bytes.
// "" = arrived intact; "slow" = nothing went wrong but it did not arrive in time; anything else = what broke.
func c16Exchange(a, b net.Conn, msg []byte, chunk int) string {
	type rres struct {
		data []byte
		err  error
	}
	rch := make(chan rres, 1)
	go func() {
		var data []byte
		buf := make([]byte, chunk)
		for len(data) < len(msg) {
			n, err := b.Read(buf)
			data = append(data, buf[:n]...)
			if err != nil {
				rch <- rres{data, err}
				return
			}
		}
		rch <- rres{data, nil}
	}()
	wch := make(chan error, 1)
	go func() { _, err := a.Write(msg); wch <- err }()
	timeout := time.After(20 * time.Second)
	select {
	case err := <-wch:
		if err != nil {
			return "Write: " + err.Error()
		}
	case <-timeout:
		return "slow"
	}
	select {
	case rr := <-rch:
		switch {
		case rr.err != nil:
			return fmt.Sprintf("Read after %d of %d bytes: %v", len(rr.data), len(msg), rr.err)
		case !bytes.Equal(rr.data, msg):
			return fmt.Sprintf("the %d bytes read are not the %d bytes written", len(rr.data), len(msg))
		}
		return ""
	case <-timeout:
		return "slow"
	}
}

// c16CtxSession establishes one session with the given context shapes and uses it after the contexts have ended.
// transport "pipe": ServerWithContext / ClientWithContext over net.Pipe; "udp": AcceptWithContext on a real
// listener / DialWithContext over loopback.  Returns "ok", "no-handshake" (the deadline was too short for this
// machine: the caller retries with a longer one), "slow", "skip" or "broken" (reported).
func c16CtxSession(out *vlib.Out, r *vlib.Rand, transport, shapeS, shapeC string, d time.Duration) string {
	secret := 800000 + r.Intn(100000)
	replay := fmt.Sprintf("ctxsession transport=%s server-context=%s client-context=%s deadline-ms=%d secret=%d", transport, shapeS, shapeC, d/time.Millisecond, secret)
	cs, cc := c16MkCtx(shapeS, d), c16MkCtx(shapeC, d)
	defer cs.cancel()
	defer cc.cancel()
	sch, cch := make(chan c16Estab, 1), make(chan c16Estab, 1)
	var closers []func()
	switch transport {
	case "pipe":
		server, client := net.Pipe()
		defer server.Close()
		defer client.Close()
		closers = append(closers, func() { server.Close() }, func() { client.Close() })
		go func() {
			c, err := ServerWithContext(cs.ctx, server, &Config{PSK: c16Secret(secret), SCTP: ServerAccept})
			sch <- c16Estab{c, err}
		}()
		go func() {
			c, err := ClientWithContext(cc.ctx, client, &Config{PSK: c16Secret(secret), SCTP: ClientOpen})
			cch <- c16Estab{c, err}
		}()
	case "udp":
		l, err := Listen("udp", &net.UDPAddr{IP: net.IPv4(127, 0, 0, 1), Port: 0}, &Config{LogAuthFail: func(*net.IP) {}, LogOther: func(*net.IP) {}})
		if err != nil {
			out.Count("skip:no-loopback-udp")
			return "skip"
		}
		defer c16Retire(l)
		addr := l.Addr().(*net.UDPAddr)
		accReturned := make(chan struct{})
		go func() {
			c, err := l.AcceptWithContext(cs.ctx, &Config{PSK: c16Secret(secret), SCTP: ServerAccept})
			sch <- c16Estab{c, err}
			close(accReturned)
		}()
		rnd, _ := clientHelloRandomFromSeed(c16Secret(secret))
		if !c16WaitRegistered(l, rnd, d/2, accReturned) {
			cs.cancel()
			<-sch
			out.Count("ctxsession:no-handshake")
			return "no-handshake"
		}
		go func() {
			c, err := DialWithContext(cc.ctx, addr, &Config{PSK: c16Secret(secret), SCTP: ClientOpen})
			cch <- c16Estab{c, err}
		}()
	}
	sr, cr, both := c16AwaitBoth(sch, cch, func() {
		cs.cancel()
		cc.cancel()
		for _, f := range closers {
			f()
		}
	})
	if !both {
		out.Count("ctxsession:no-handshake")
		return "no-handshake"
	}
	defer sr.c.Close()
	defer cr.c.Close()
	established := time.Now()
	for _, c := range []*c16Ctx{cs, cc} {
		if c.early {
			c.cancel()
		}
	}
	fail := func(when, dir, why string) string {
		out.OracleFail("C16:session-ends-with-handshake-context", fmt.Sprintf("session established over %s (accepting side's context: %s, dialling side's: %s, deadline %v); %s, %s: %s — neither end closed the connection", transport, shapeS, shapeC, d, when, dir, why), replay)
		return "broken"
	}
	check := func(when string, sizes []int) string {
		for i, sz := range sizes {
			msg := r.Bytes(sz)
			if sz == len(defaultConfig.Heartbeat) {
				msg[0] = 0 // never the heartbeat payload (recorded finding)
			}
			chunk := []int{1 << 16, 100, 70000, 7}[(i+sz)%4]
			if sz > 5000 && chunk < 100 {
				chunk = 4096
			}
			dirs := [][2]net.Conn{{cr.c, sr.c}, {sr.c, cr.c}}
			names := []string{"dialling side -> accepting side", "accepting side -> dialling side"}
			for k := range dirs {
				out.Checked()
				switch why := c16Exchange(dirs[k][0], dirs[k][1], msg, chunk); why {
				case "":
				case "slow":
					out.Count("ctxsession:slow")
					return "slow"
				default:
					return fail(when, names[k], why)
				}
			}
		}
		return ""
	}
	// right after the handshake (the contexts that are cancelled early are already gone)
	if st := check("right after the handshake", []int{11}); st != "" {
		return st
	}
	// … and after every deadline has passed
	last := established
	for _, c := range []*c16Ctx{cs, cc} {
		if c.deadline.After(last) {
			last = c.deadline
		}
	}
	time.Sleep(time.Until(last.Add(time.Duration(250+r.Intn(200)) * time.Millisecond)))
	when := "after the contexts of the handshake were cancelled"
	if !last.Equal(established) {
		when = fmt.Sprintf("%v after the deadline of the handshake's context", time.Since(last).Round(10*time.Millisecond))
	}
	if st := check(when, []int{1, 1000, 40000, 32}); st != "" {
		return st
	}
	out.Count("ctxsession:" + transport + ":" + shapeS + "/" + shapeC + ":survives")
	return "ok"
}

// c16AwaitBoth waits for both ends of a handshake.  When one end fails the other is given up: `abort` cancels what
// can be cancelled and closes the transports; an end that still does not return within 5 s (a context without
// deadline over a path that stays open) is left behind, and a connection it returns later is closed.
func c16AwaitBoth(sch, cch chan c16Estab, abort func()) (sr, cr c16Estab, ok bool) {
	var gotS, gotC bool
	var giveUp <-chan time.Time
	for !(gotS && gotC) {
		select {
		case sr = <-sch:
			gotS = true
		case cr = <-cch:
			gotC = true
		case <-giveUp:
			late := func(ch chan c16Estab) {
				if e := <-ch; e.c != nil {
					e.c.Close()
				}
			}
			if !gotS {
				go late(sch)
			}
			if !gotC {
				go late(cch)
			}
			if gotS && sr.c != nil {
				sr.c.Close()
			}
			if gotC && cr.c != nil {
				cr.c.Close()
			}
			return sr, cr, false
		}
		if giveUp == nil && ((gotS && sr.err != nil) || (gotC && cr.err != nil)) {
			abort()
			giveUp = time.After(5 * time.Second)
		}
	}
	if sr.err != nil || cr.err != nil {
		if sr.c != nil {
			sr.c.Close()
		}
		if cr.c != nil {
			cr.c.Close()
		}
		return sr, cr, false
	}
	return sr, cr, true
}

// c16CtxSessionRetry: the deadline must be long enough for the handshake on this machine and short enough to
// be waited for; it is doubled until the handshake fits.
func c16CtxSessionRetry(out *vlib.Out, r *vlib.Rand, transport, shapeS, shapeC string) string {
	st := ""
	for _, d := range []time.Duration{900 * time.Millisecond, 2500 * time.Millisecond, 6 * time.Second} {
		st = c16CtxSession(out, r, transport, shapeS, shapeC, d)
		if st != "no-handshake" && st != "slow" {
			return st
		}
	}
	return st
}

// ---------------------------------------------------------------------------------------------
// everything above, for one run of the harness (beside the rest)

func c16TimeDimension(out *vlib.Out, thorough bool) {
	var wg sync.WaitGroup
	run := func(f func()) {
		wg.Add(1)
		go func() { defer wg.Done(); f() }()
	}
	// ---- stalls
	// (the rest of the harness takes 20 s and more: these waits cost no wall-clock time)
	stall := 4 * time.Second
	if thorough {
		stall = 7 * time.Second
	}
	rs := vlib.NewRand("C16-stall")
	for i, mode := range c16StallModes {
		mode, w := mode, 1+(i+int(vlib.Seed()))%3
		rr := vlib.NewRand(fmt.Sprintf("C16-stall-%s", mode))
		run(func() { c16Stall(out, rr, mode, c16StallSizes(rr, w), stall) })
	}
	if thorough {
		run(func() {
			c16Stall(out, rs, c16StallModes[rs.Intn(3)], c16StallSizes(rs, rs.Range(1, 6)), 25*time.Second)
		})
	}
	run(func() {
		rr := vlib.NewRand("C16-realstall")
		for try := 0; try < 3; try++ {
			if st := c16RealStall(out, rr, stall+500*time.Millisecond); st != "no-handshake" && st != "skip" {
				break
			}
		}
	})
	// ---- write flow control with time passing, as correspondence cases
	run(func() {
		c16FlowCase(out, []string{"w131072", "w131072", "w100000", "t1500", "d1", "t300", "d200000", "w131072", "t1200", "c"})
		if thorough {
			rr := vlib.NewRand("C16-flow-timed")
			for i := 0; i < 6; i++ {
				c16FlowCase(out, c16FlowGen(rr, rr.Range(6, 30), 2))
			}
		}
	})
	// ---- context shapes
	type combo struct{ transport, s, c string }
	var combos []combo
	if thorough {
		for _, tr := range []string{"pipe", "udp"} {
			for _, s := range c16CtxShapes {
				for _, c := range c16CtxShapes {
					combos = append(combos, combo{tr, s, c})
				}
			}
		}
	} else {
		// a deadline and a cancellation on either end over either transport, every run; two more cells of the square by seed
		rc := vlib.NewRand("C16-ctx-shapes")
		combos = []combo{{"pipe", "deadline", "deadline"}, {"udp", "deadline", "deadline+cancel"},
			{"pipe", "cancel", "cancel"}, {"udp", "deadline+cancel", "deadline"},
			{"pipe", c16CtxShapes[rc.Intn(4)], c16CtxShapes[rc.Intn(4)]}, {"udp", c16CtxShapes[rc.Intn(4)], c16CtxShapes[rc.Intn(4)]}}
	}
	var cmu sync.Mutex
	results := map[string]int{}
	run(func() {
		var cw sync.WaitGroup
		for i, cb := range combos {
			cw.Add(1)
			go func(i int, cb combo) {
				defer cw.Done()
				st := c16CtxSessionRetry(out, vlib.NewRand(fmt.Sprintf("C16-ctx-%d", i)), cb.transport, cb.s, cb.c)
				cmu.Lock()
				results[st]++
				cmu.Unlock()
			}(i, cb)
			if i%4 == 3 {
				cw.Wait() // four sessions at a time
			}
		}
		cw.Wait()
	})
	wg.Wait()
	// coverage must not vanish silently: at least one session must have been used after its context ended
	out.Checked()
	if results["ok"] == 0 && results["broken"] == 0 && results["skip"] < len(combos) {
		for try := 0; try < 3 && results["ok"] == 0 && results["broken"] == 0; try++ {
			results[c16CtxSessionRetry(out, vlib.NewRand(fmt.Sprintf("C16-ctx-retry-%d", try)), "pipe", "deadline", "deadline")]++
		}
		if results["ok"] == 0 && results["broken"] == 0 {
			out.OracleFail("C16:same-secret-session-never-completes", fmt.Sprintf("no session established with a context that has a deadline could be used after the deadline (outcomes: %v)", results), "ctxsession floor")
		}
	}
}

// replay of the scenario lines of this file (a fresh draw: the timing is the machine's)
func c16ReplayTime(out *vlib.Out, line string) bool {
	switch {
	case strings.HasPrefix(line, "stall "):
		mode, ms, szs := "", 0, ""
		for _, kv := range strings.Fields(line)[1:] {
			fmt.Sscanf(kv, "mode=%s", &mode)
			fmt.Sscanf(kv, "ms=%d", &ms)
			fmt.Sscanf(kv, "sizes=%s", &szs)
		}
		var sizes [][]int
		for _, w := range strings.Split(szs, "/") {
			var l []int
			for _, k := range strings.Split(w, ".") {
				var n int
				if _, err := fmt.Sscan(k, &n); err == nil && n > 0 {
					l = append(l, n)
				}
			}
			if len(l) > 0 {
				sizes = append(sizes, l)
			}
		}
		if mode == "" || ms == 0 || len(sizes) == 0 {
			fmt.Println("REPLAY: unreadable stall line:", line)
			return true
		}
		c16Stall(out, vlib.NewRand("C16-replay"), mode, sizes, time.Duration(ms)*time.Millisecond)
		fmt.Println("REPLAY (stalled network, same mode / writers / sizes / duration):", line)
	case strings.HasPrefix(line, "realstall "):
		c16RealStall(out, vlib.NewRand("C16-replay"), 3500*time.Millisecond)
		fmt.Println("REPLAY (real association, stalled path; fresh secret):", line)
	case strings.HasPrefix(line, "ctxsession "):
		tr, s, c := "pipe", "deadline", "deadline"
		for _, kv := range strings.Fields(line)[1:] {
			fmt.Sscanf(kv, "transport=%s", &tr)
			fmt.Sscanf(kv, "server-context=%s", &s)
			fmt.Sscanf(kv, "client-context=%s", &c)
		}
		c16CtxSessionRetry(out, vlib.NewRand("C16-replay"), tr, s, c)
		fmt.Println("REPLAY (session with the same transport and context shapes; fresh secret):", line)
	default:
		return false
	}
	return true
}
