//go:build verif

package lib

// Extractor for C06: the order of the steps of ingestRegistration, as far as dialing is concerned.
//
//   - dialLeading: the functions of package lib from which a `Dial*` call that is handed a registration's
//     `Covert` field can be reached (Proxy, and what calls it), not counting the admission function
//     ingestRegistration (the function that calls ParseOrResolveBlocklisted and assigns `.Covert`) and its callers;
//   - dialCalls: every call (also `go f(..)`, also inside function literals) of such a function in the package;
//   - ingestSteps: the body of ingestRegistration flattened in program order — calls, go statements,
//     assignments to a `.Covert` field, returns, and the statement `if x == "" { … return }` where x holds the
//     result of ParseOrResolveBlocklisted — each with its nesting depth (0 = a statement of the body itself);
//   - ingestHasJumps: a loop / switch / select / goto / label / defer in that body (the flattened order is then
//     not the execution order).
//
// Written to CJ/Gen/C06Ingest.lean; the theorem over it (CJ.Props.C06.dial_dominated_by_admission) says that
// every call that can lead to a dial comes after, at depth 0 and in this order: the admission call, the
// return on an empty result, the overwrite of Covert with the result, and AddRegistration.

import (
	"fmt"
	"go/ast"
	"go/parser"
	"go/token"
	"os"
	"path/filepath"
	"sort"
	"strings"
	"testing"
)

func c06CallName(c *ast.CallExpr) string {
	switch f := c.Fun.(type) {
	case *ast.SelectorExpr:
		return f.Sel.Name
	case *ast.Ident:
		return f.Name
	case *ast.FuncLit:
		return "func"
	}
	return "?"
}

func c06IsCovertField(e ast.Expr) bool {
	s, ok := e.(*ast.SelectorExpr)
	return ok && s.Sel.Name == "Covert"
}

type c06GenStep struct {
	kind, what string
	depth      int
}

type c06IngestFacts struct {
	dialLeading []string
	dialCalls   [][2]string
	steps       []c06GenStep
	hasJumps    bool
}

func c06ExtractIngest(dir string) (*c06IngestFacts, error) {
	fset := token.NewFileSet()
	pkgs, err := parser.ParseDir(fset, dir, func(fi os.FileInfo) bool { return !strings.HasSuffix(fi.Name(), "_test.go") }, 0)
	if err != nil {
		return nil, err
	}
	var decls []*ast.FuncDecl
	for _, p := range pkgs {
		var names []string
		for n := range p.Files {
			names = append(names, n)
		}
		sort.Strings(names)
		for _, n := range names {
			for _, d := range p.Files[n].Decls {
				if fd, ok := d.(*ast.FuncDecl); ok && fd.Body != nil {
					decls = append(decls, fd)
				}
			}
		}
	}
	// the admission function(s): call ParseOrResolveBlocklisted and assign a .Covert field
	admission := map[string]bool{}
	for _, fd := range decls {
		calls, assigns := false, false
		ast.Inspect(fd.Body, func(n ast.Node) bool {
			switch x := n.(type) {
			case *ast.CallExpr:
				if c06CallName(x) == "ParseOrResolveBlocklisted" {
					calls = true
				}
			case *ast.AssignStmt:
				for _, l := range x.Lhs {
					if c06IsCovertField(l) {
						assigns = true
					}
				}
			}
			return true
		})
		if calls && assigns {
			admission[fd.Name.Name] = true
		}
	}
	// base: functions with a Dial* call that is handed a .Covert field
	leading := map[string]bool{}
	for _, fd := range decls {
		ast.Inspect(fd.Body, func(n ast.Node) bool {
			if c, ok := n.(*ast.CallExpr); ok && strings.HasPrefix(c06CallName(c), "Dial") {
				for _, a := range c.Args {
					if c06IsCovertField(a) {
						leading[fd.Name.Name] = true
					}
				}
			}
			return true
		})
	}
	// closure over callers, stopping at the admission functions
	for changed := true; changed; {
		changed = false
		for _, fd := range decls {
			if leading[fd.Name.Name] || admission[fd.Name.Name] {
				continue
			}
			ast.Inspect(fd.Body, func(n ast.Node) bool {
				if c, ok := n.(*ast.CallExpr); ok && leading[c06CallName(c)] && !leading[fd.Name.Name] {
					leading[fd.Name.Name] = true
					changed = true
				}
				return true
			})
		}
	}
	facts := &c06IngestFacts{}
	for n := range leading {
		facts.dialLeading = append(facts.dialLeading, n)
	}
	sort.Strings(facts.dialLeading)
	for _, fd := range decls {
		ast.Inspect(fd.Body, func(n ast.Node) bool {
			if c, ok := n.(*ast.CallExpr); ok && leading[c06CallName(c)] {
				facts.dialCalls = append(facts.dialCalls, [2]string{fd.Name.Name, c06CallName(c)})
			}
			return true
		})
	}
	sort.Slice(facts.dialCalls, func(i, j int) bool {
		if facts.dialCalls[i][0] != facts.dialCalls[j][0] {
			return facts.dialCalls[i][0] < facts.dialCalls[j][0]
		}
		return facts.dialCalls[i][1] < facts.dialCalls[j][1]
	})

	// ---- the body of ingestRegistration, flattened
	var ingest *ast.FuncDecl
	for _, fd := range decls {
		if fd.Name.Name == "ingestRegistration" && fd.Recv != nil {
			ingest = fd
		}
	}
	if ingest == nil {
		return nil, fmt.Errorf("ingestRegistration not found")
	}
	admittedVar := ""
	emit := func(kind, what string, depth int) { facts.steps = append(facts.steps, c06GenStep{kind, what, depth}) }
	// calls of an expression in source order; the body of a function literal counts one level deeper
	var emitCalls func(n ast.Node, depth int)
	emitCalls = func(n ast.Node, depth int) {
		if n == nil {
			return
		}
		ast.Inspect(n, func(m ast.Node) bool {
			switch x := m.(type) {
			case *ast.FuncLit:
				emitCalls(x.Body, depth+1)
				return false
			case *ast.CallExpr:
				// arguments first (they are evaluated before the call)
				for _, a := range x.Args {
					emitCalls(a, depth)
				}
				if _, lit := x.Fun.(*ast.FuncLit); lit {
					emitCalls(x.Fun, depth)
				} else {
					if s, ok := x.Fun.(*ast.SelectorExpr); ok {
						emitCalls(s.X, depth)
					}
					emit("call", c06CallName(x), depth)
				}
				return false
			}
			return true
		})
	}
	var walk func(st ast.Stmt, depth int)
	walkBlock := func(b *ast.BlockStmt, depth int) {
		if b == nil {
			return
		}
		for _, s := range b.List {
			walk(s, depth)
		}
	}
	walk = func(st ast.Stmt, depth int) {
		switch s := st.(type) {
		case *ast.ExprStmt:
			emitCalls(s.X, depth)
		case *ast.AssignStmt:
			for _, r := range s.Rhs {
				emitCalls(r, depth)
			}
			for _, l := range s.Lhs {
				if c06IsCovertField(l) {
					what := "Covert:=?"
					if len(s.Rhs) == 1 {
						if id, ok := s.Rhs[0].(*ast.Ident); ok && id.Name == admittedVar && admittedVar != "" {
							what = "Covert:=admitted"
						}
					}
					emit("assign", what, depth)
				}
			}
			if len(s.Rhs) == 1 {
				if c, ok := s.Rhs[0].(*ast.CallExpr); ok && c06CallName(c) == "ParseOrResolveBlocklisted" && len(s.Lhs) >= 1 {
					if id, ok := s.Lhs[0].(*ast.Ident); ok && depth == 0 {
						admittedVar = id.Name
					}
				} else {
					// the variable is assigned something else: it no longer holds the admitted address
					for _, l := range s.Lhs {
						if id, ok := l.(*ast.Ident); ok && id.Name == admittedVar {
							admittedVar = ""
						}
					}
				}
			}
		case *ast.IfStmt:
			if s.Init != nil {
				walk(s.Init, depth)
			}
			emitCalls(s.Cond, depth)
			if be, ok := s.Cond.(*ast.BinaryExpr); ok && be.Op == token.EQL && s.Else == nil && admittedVar != "" {
				id, isID := be.X.(*ast.Ident)
				lit, isLit := be.Y.(*ast.BasicLit)
				if isID && isLit && id.Name == admittedVar && lit.Value == `""` && len(s.Body.List) > 0 {
					if _, ret := s.Body.List[len(s.Body.List)-1].(*ast.ReturnStmt); ret {
						emit("refuse-if-empty", "ParseOrResolveBlocklisted", depth)
					}
				}
			}
			walkBlock(s.Body, depth+1)
			switch e := s.Else.(type) {
			case *ast.BlockStmt:
				walkBlock(e, depth+1)
			case *ast.IfStmt:
				walk(e, depth+1)
			}
		case *ast.GoStmt:
			emit("go", c06CallName(s.Call), depth)
			emitCalls(s.Call, depth)
		case *ast.DeferStmt:
			facts.hasJumps = true
			emit("defer", c06CallName(s.Call), depth)
			emitCalls(s.Call, depth)
		case *ast.ReturnStmt:
			for _, r := range s.Results {
				emitCalls(r, depth)
			}
			emit("return", "", depth)
		case *ast.BlockStmt:
			walkBlock(s, depth+1)
		case *ast.DeclStmt, *ast.IncDecStmt, *ast.EmptyStmt:
		case *ast.SendStmt:
			emitCalls(s.Value, depth)
		default:
			// loops, switch, select, labels, goto: the flattened order is not the execution order
			facts.hasJumps = true
			ast.Inspect(st, func(m ast.Node) bool {
				if c, ok := m.(*ast.CallExpr); ok {
					emit("call", c06CallName(c), depth+1)
				}
				return true
			})
		}
	}
	walkBlock(ingest.Body, 0)
	return facts, nil
}

func TestVerifC06Gen(t *testing.T) {
	f, err := c06ExtractIngest(".")
	if err != nil {
		t.Fatal(err)
	}
	var sb strings.Builder
	sb.WriteString("/-! GENERATED by /verif/go/harness/C06/zz_verif_c06_gen_test.go from the non-test files of pkg/station/lib. Do not edit. -/\n")
	sb.WriteString("namespace CJ.Gen.C06Ingest\n\n")
	sb.WriteString("/-- functions from which a `Dial*` call that is handed a registration's `Covert` can be reached (below the admission function) -/\ndef dialLeading : List String := [")
	for i, n := range f.dialLeading {
		if i > 0 {
			sb.WriteString(", ")
		}
		fmt.Fprintf(&sb, "%q", n)
	}
	sb.WriteString("]\n/-- every call of such a function in the package: (calling function, called function) -/\ndef dialCalls : List (String × String) := [")
	for i, c := range f.dialCalls {
		if i > 0 {
			sb.WriteString(", ")
		}
		fmt.Fprintf(&sb, "(%q, %q)", c[0], c[1])
	}
	sb.WriteString("]\n/-- the body of ingestRegistration flattened in program order: (kind, what, nesting depth) -/\ndef ingestSteps : List (String × String × Nat) := [\n")
	for i, s := range f.steps {
		sep := ","
		if i == len(f.steps)-1 {
			sep = ""
		}
		fmt.Fprintf(&sb, "  (%q, %q, %d)%s\n", s.kind, s.what, s.depth, sep)
	}
	fmt.Fprintf(&sb, "]\n/-- a loop / switch / select / goto / label / defer in that body -/\ndef ingestHasJumps : Bool := %v\n", f.hasJumps)
	sb.WriteString("\nend CJ.Gen.C06Ingest\n")
	dir := os.Getenv("VERIF_OUT")
	if dir == "" {
		dir = os.TempDir()
	}
	if err := os.WriteFile(filepath.Join(dir, "C06Ingest.lean"), []byte(sb.String()), 0o644); err != nil {
		t.Fatal(err)
	}
}
