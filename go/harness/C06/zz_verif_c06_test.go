//go:build verif

package lib

// Correspondence + property oracle for C06: covert strings × generated policies against the real
// ParseOrResolveBlocklisted / ingestRegistration / Proxy, with a scripted fake DNS server installed as
// net.DefaultResolver.  The same cases go to the Lean model as `covert|…` lines, each carrying the
// answers the real standard-library calls gave (ParseIP, SplitHostPort, ParseUint, ResolveIPAddr,
// Contains, MatchString).

import (
	"context"
	"encoding/binary"
	"encoding/hex"
	"fmt"
	"go/ast"
	"go/parser"
	"go/token"
	"io"
	golog "log"
	"net"
	"os"
	"regexp"
	"sort"
	"strconv"
	"strings"
	"sync"
	"sync/atomic"
	"testing"
	"time"

	"github.com/refraction-networking/conjure/internal/vlib"
	"github.com/refraction-networking/conjure/pkg/core"
	"github.com/refraction-networking/conjure/pkg/station/log"
	"github.com/refraction-networking/conjure/pkg/transports/wrapping/min"
	pb "github.com/refraction-networking/conjure/proto"
	"google.golang.org/protobuf/proto"
)

// ---------------------------------------------------------------------------------------------
// scripted fake DNS server (UDP, loopback), installed as net.DefaultResolver

type c06DNS struct {
	conn    *net.UDPConn
	gen     atomic.Int64 // which generation of answers is served
	mu      sync.Mutex
	script  map[string][][]string // lower-case name without trailing dot -> per generation -> addresses
	queries map[string]int        // A-queries seen per name
	total   int
}

func newC06DNS(t *testing.T) *c06DNS {
	c, err := net.ListenUDP("udp", &net.UDPAddr{IP: net.IPv4(127, 0, 0, 1)})
	if err != nil {
		t.Fatalf("cannot listen on loopback for the fake DNS server: %v", err)
	}
	d := &c06DNS{conn: c, script: map[string][][]string{}, queries: map[string]int{}}
	go d.serve()
	addr := c.LocalAddr().String()
	net.DefaultResolver = &net.Resolver{
		PreferGo: true,
		Dial: func(ctx context.Context, network, address string) (net.Conn, error) {
			var dl net.Dialer
			return dl.DialContext(ctx, "udp", addr)
		},
	}
	return d
}

func (d *c06DNS) serve() {
	buf := make([]byte, 1500)
	for {
		n, from, err := d.conn.ReadFromUDP(buf)
		if err != nil {
			return
		}
		if resp := d.answer(buf[:n]); resp != nil {
			_, _ = d.conn.WriteToUDP(resp, from)
		}
	}
}

func (d *c06DNS) answer(q []byte) []byte {
	if len(q) < 12 || binary.BigEndian.Uint16(q[4:6]) != 1 {
		return nil
	}
	// question name
	i := 12
	var labels []string
	for {
		if i >= len(q) {
			return nil
		}
		l := int(q[i])
		i++
		if l == 0 {
			break
		}
		if l > 63 || i+l > len(q) {
			return nil
		}
		labels = append(labels, string(q[i:i+l]))
		i += l
	}
	if i+4 > len(q) {
		return nil
	}
	qtype := binary.BigEndian.Uint16(q[i : i+2])
	qend := i + 4
	name := strings.ToLower(strings.Join(labels, "."))
	d.mu.Lock()
	gens, known := d.script[name]
	if qtype == 1 {
		d.queries[name]++
	}
	d.total++
	d.mu.Unlock()
	resp := make([]byte, 0, 512)
	resp = append(resp, q[0], q[1], 0x81, 0x80, 0, 1, 0, 0, 0, 0, 0, 0)
	resp = append(resp, q[12:qend]...)
	if !known {
		resp[3] = 0x83 // NXDOMAIN
		return resp
	}
	g := int(d.gen.Load())
	if g >= len(gens) {
		g = len(gens) - 1
	}
	an := 0
	for _, s := range gens[g] {
		ip := net.ParseIP(s)
		var rdata []byte
		var typ uint16
		if v4 := ip.To4(); v4 != nil && !strings.Contains(s, ":") {
			rdata, typ = v4, 1
		} else {
			rdata, typ = ip.To16(), 28
		}
		if typ != qtype {
			continue
		}
		resp = append(resp, 0xc0, 0x0c, byte(typ>>8), byte(typ), 0, 1, 0, 0, 0, 0, byte(len(rdata)>>8), byte(len(rdata)))
		resp = append(resp, rdata...)
		an++
	}
	resp[6], resp[7] = byte(an>>8), byte(an)
	return resp
}

func (d *c06DNS) aQueries(name string) int {
	d.mu.Lock()
	defer d.mu.Unlock()
	return d.queries[strings.ToLower(strings.TrimSuffix(name, "."))]
}

func (d *c06DNS) totalQueries() int {
	d.mu.Lock()
	defer d.mu.Unlock()
	return d.total
}

var c06Script = map[string][][]string{
	"ok.test":        {{"198.51.100.7"}},
	"ok6.test":       {{"2001:db8:1::7"}},
	"both.test":      {{"198.51.100.8", "2001:db8:1::8"}},
	"blocked.test":   {{"10.1.2.3"}},
	"loop.test":      {{"127.0.0.1"}},
	"loop6.test":     {{"::1"}},
	"rebind.test":    {{"198.51.100.9"}, {"127.0.0.1"}},
	"rebind2.test":   {{"10.0.0.5"}, {"198.51.100.9"}},
	"rebind6.test":   {{"2001:db8:1::9"}, {"::1"}},
	"mapped.test":    {{"::ffff:10.0.0.1"}},
	"zero.test":      {{"0.0.0.0"}},
	"multi.test":     {{"198.51.100.10", "10.0.0.9"}, {"10.0.0.9", "198.51.100.10"}},
	"empty.test":     {{}},
	"blocked.com":    {{"198.51.100.11"}},
	"x.blocked.com":  {{"198.51.100.12"}},
	"blocked.com.au": {{"198.51.100.13"}},
	"upper.test":     {{"198.51.100.14"}},
	"xn--bcher-kva.test": {{"198.51.100.15"}},
}

// ---------------------------------------------------------------------------------------------
// policies and covert strings

type c06Policy struct {
	block, allow, domains []string
}

func (p c06Policy) String() string {
	return "B=" + strings.Join(p.block, ",") + ";A=" + strings.Join(p.allow, ",") + ";D=" + strings.Join(p.domains, ",")
}

var c06BlockPool = []string{"127.0.0.0/8", "10.0.0.0/8", "::1/128", "fc00::/7", "fe80::/10", "192.0.2.0/24", "198.51.100.0/24",
	"2001:db8::/32", "0.0.0.0/0", "::/0", "::ffff:10.0.0.0/104", "0.0.0.0/32", "198.51.100.7/32", "2001:db8:1::/48", "172.16.0.0/12", "::/128", "127.0.0.1/32"}
var c06AllowPool = []string{"198.51.100.0/24", "2001:db8:1::/48", "127.0.0.1/32", "10.0.0.0/8", "0.0.0.0/0", "::/0", "192.0.2.0/25", "2001:db8::/32", "198.51.100.8/31", "fe80::/10"}
var c06DomainPool = []string{"localhost", `.*blocked\.com$`, "^$", "test$", "(?i)^LOCAL", "^ok", `\d+\.\d+`, "%", "^rebind", `^\[`, ":"}

var c06FixedPolicies = []c06Policy{
	{},
	{block: []string{"127.0.0.1/32", "10.0.0.0/8", "172.16.0.0/12", "192.168.0.0/16", "fc00::/7", "fe80::0/16", "::1/128"}, domains: []string{"localhost"}}, // the shipped policy (entries that parse)
	{block: []string{"127.0.0.0/8", "10.0.0.0/8", "::1/128", "fe80::/10"}, domains: []string{`.*blocked\.com$`, "localhost"}},
	{allow: []string{"198.51.100.0/24", "2001:db8:1::/48"}},
	{allow: []string{"127.0.0.1/32"}},
	{block: []string{"198.51.100.0/24"}, allow: []string{"198.51.100.0/25", "10.0.0.0/8"}},
	{block: []string{"0.0.0.0/0", "::/0"}},
	{allow: []string{"0.0.0.0/0"}, domains: []string{"^$"}},
	{block: []string{"10.0.0.0/8"}, domains: []string{"test$", `\d+\.\d+`}},
	{block: []string{"::ffff:10.0.0.0/104", "0.0.0.0/32", "::/128"}},
}

var c06Hosts = []string{
	// empty / bracket noise
	"", "[", "]", "[]", "[::1", "::1]", "[[::1]]",
	// IPv4 literals and look-alikes
	"198.51.100.7", "10.0.0.1", "127.0.0.1", "127.0.0.2", "0.0.0.0", "255.255.255.255", "192.0.2.200", "001.2.3.4", "1.2.3", "127.1",
	"0x7f.0.0.1", "2130706433", "017700000001", "1.2.3.4.", "1.2.3.4.5", "１.２.３.４", " 10.0.0.1", "10.0.0.1 ",
	// IPv6 literals in several textual forms
	"2001:db8:1::7", "2001:DB8:1:0:0:0:0:7", "2001:0db8:0001:0000:0000:0000:0000:0007", "::1", "0:0:0:0:0:0:0:1", "::", "fe80::1", "fc00::1",
	"::ffff:10.0.0.1", "::ffff:a00:1", "::FFFF:198.51.100.7", "::10.0.0.1", "64:ff9b::10.0.0.1", "2001:db8::", "2001:db8:1::7:",
	// zones
	"fe80::1%lo", "fe80::1%eth0", "fe80::1%", "fe80::1%25lo", "2001:db8:1::7%lo", "::ffff:10.0.0.1%eth0", "::ffff:198.51.100.7%lo", "::1%lo", "10.0.0.1%lo", "fe80::1%lo%lo",
	// hostnames (scripted)
	"ok.test", "ok6.test", "both.test", "blocked.test", "loop.test", "loop6.test", "rebind.test", "rebind2.test", "rebind6.test", "mapped.test", "zero.test",
	"multi.test", "empty.test", "nx.test", "blocked.com", "x.blocked.com", "blocked.com.au", "UPPER.TEST", "ok.test.", "localhost", "LOCALHOST", "localhost.",
	"xn--bcher-kva.test", "bücher.test", "a b.test", "ok.test\x00", "-ok.test", strings.Repeat("a", 64) + ".test", strings.Repeat("a.", 130) + "test",
	// garbage
	"http://ok.test", "ok.test/path", "user@ok.test", "\xff\xfe", "%00", "..", ".", "*",
}

var c06Ports = []string{"80", "443", "0", "65535", "65536", "080", "-1", "+80", "http", "", "99999999999999999999", " 80", "80 ", "８０", "8_0", "0x50", "80\n"}

// frame builds a covert string from host and port in one of several framings
func c06Frame(host, port string, framing int) string {
	switch framing {
	case 0:
		return net.JoinHostPort(host, port) // brackets iff the host has a colon
	case 1:
		return "[" + host + "]:" + port
	case 2:
		return host + ":" + port
	case 3:
		return host // no port
	case 4:
		return host + ":" + port + ":"
	default:
		return "[" + host + "]" // brackets, no port
	}
}

// ---------------------------------------------------------------------------------------------
// one case

type c06World struct {
	dns     *c06DNS
	logger  *log.Logger
	nextSec uint64
}

type c06Parsed struct {
	pol    c06Policy
	conf   *RegConfig
	rm     *RegistrationManager
	block  []*net.IPNet // parsed by the harness itself (oracle side)
	allow  []*net.IPNet
	domain []*regexp.Regexp
}

func (w *c06World) parsePolicy(p c06Policy) *c06Parsed {
	conf := &RegConfig{
		CovertBlocklistSubnets: append([]string(nil), p.block...),
		CovertAllowlistSubnets: append([]string(nil), p.allow...),
		CovertBlocklistDomains: append([]string(nil), p.domains...),
	}
	conf.ParseBlocklists()
	pp := &c06Parsed{pol: p, conf: conf}
	for _, s := range p.block {
		_, n, err := net.ParseCIDR(s)
		if err != nil {
			panic("harness policy pool must parse: " + s)
		}
		pp.block = append(pp.block, n)
	}
	for _, s := range p.allow {
		_, n, err := net.ParseCIDR(s)
		if err != nil {
			panic("harness policy pool must parse: " + s)
		}
		pp.allow = append(pp.allow, n)
	}
	for _, s := range p.domains {
		pp.domain = append(pp.domain, regexp.MustCompile(s))
	}
	rm := &RegistrationManager{
		RegConfig:         conf,
		RegistrationStats: newRegistrationStats(),
		Logger:            w.logger,
		registeredDecoys:  NewRegisteredDecoys(),
	}
	rm.registeredDecoys.transports[pb.TransportType_Min] = min.Transport{}
	rm.registeredDecoys.registerForDetector = func(d *DecoyRegistration) {}
	rm.registeredDecoys.updateInDetector = func(d *DecoyRegistration) {}
	pp.rm = rm
	return pp
}

func (w *c06World) newReg(covert string) *DecoyRegistration {
	w.nextSec++
	sec := make([]byte, 32)
	binary.BigEndian.PutUint64(sec, w.nextSec)
	src := pb.RegistrationSource_API
	var tp Transport = min.Transport{}
	return &DecoyRegistration{
		PhantomIp:          net.ParseIP("192.0.2.77"),
		PhantomPort:        443,
		Keys:               &core.ConjureSharedKeys{SharedSecret: sec},
		Transport:          pb.TransportType_Min,
		TransportPtr:       &tp,
		RegistrationSource: &src,
		Covert:             covert,
		Flags:              &pb.RegistrationFlags{Prescanned: proto.Bool(true)},
	}
}

func c06Bits(b []bool) string {
	if len(b) == 0 {
		return "-"
	}
	var sb strings.Builder
	for _, x := range b {
		sb.WriteString(vlib.B(x))
	}
	return sb.String()
}

func c06Hex(s string) string {
	if s == "" {
		return "-"
	}
	return hex.EncodeToString([]byte(s))
}

// permitted evaluates the configured policy on an IP with the documented semantics: a configured
// allowlist overrides the blocklist.
func (pp *c06Parsed) permitted(ip net.IP) (ok bool, inBlock bool, inAllow bool) {
	for _, n := range pp.block {
		if n.Contains(ip) {
			inBlock = true
		}
	}
	for _, n := range pp.allow {
		if n.Contains(ip) {
			inAllow = true
		}
	}
	if len(pp.allow) > 0 {
		return inAllow, inBlock, inAllow
	}
	return !inBlock, inBlock, inAllow
}

func (pp *c06Parsed) domainBlocked(host string) bool {
	for _, re := range pp.domain {
		if re.MatchString(host) {
			return true
		}
	}
	return false
}

// runC06 runs one covert string under one policy and DNS generation.
func (w *c06World) runC06(out *vlib.Out, pp *c06Parsed, provided string, gen int) {
	w.dns.gen.Store(int64(gen))
	conf := pp.conf
	replay := fmt.Sprintf("c06|gen=%d|%s|%s", gen, pp.pol.String(), hex.EncodeToString([]byte(provided)))
	fail := func(sig, what string) { out.OracleFail(sig, what+" — covert "+strconv.Quote(provided)+" policy "+pp.pol.String(), replay) }

	// ---- the answers of the standard library (oracle parameters of the model)
	providedIsIP := net.ParseIP(provided) != nil
	host, port, splitErr := net.SplitHostPort(provided)
	splitF, domF, portOkF, hostIsIPF, resF, blockF, allowF := "E", "-", "0", "0", "E", "-", "-"
	if splitErr == nil {
		var dh []bool
		for _, re := range conf.covertBlocklistDomains {
			dh = append(dh, re.MatchString(host))
		}
		domF = c06Bits(dh)
		_, perr := strconv.ParseUint(port, 10, 16)
		portOkF = vlib.B(perr == nil)
		if perr == nil {
			splitF = hex.EncodeToString([]byte(host)) + "," + c06Hex(port)
			if host == "" {
				splitF = "-," + c06Hex(port)
			}
		} else {
			splitF = c06Hex(host) + ",-" // the port text is not used when it does not parse
		}
		hostIsIPF = vlib.B(net.ParseIP(host) != nil)
		addr, rerr := net.ResolveIPAddr("ip", host)
		switch {
		case rerr != nil:
			resF = "E"
		case addr == nil:
			resF = "N"
		default:
			resF = fmt.Sprintf("A,%s,%s,%s", vlib.B(addr.IP == nil), c06Hex(addr.Zone), c06Hex(addr.String()))
			var bh, ah []bool
			for _, n := range conf.covertBlocklistSubnets {
				bh = append(bh, n.Contains(addr.IP))
			}
			for _, n := range conf.covertAllowlistSubnets {
				ah = append(ah, n.Contains(addr.IP))
			}
			blockF, allowF = c06Bits(bh), c06Bits(ah)
		}
	}
	if blockF == "-" && len(conf.covertBlocklistSubnets) > 0 {
		blockF = strings.Repeat("0", len(conf.covertBlocklistSubnets))
	}
	if allowF == "-" && len(conf.covertAllowlistSubnets) > 0 {
		allowF = strings.Repeat("0", len(conf.covertAllowlistSubnets))
	}
	if domF == "-" && len(conf.covertBlocklistDomains) > 0 {
		domF = strings.Repeat("0", len(conf.covertBlocklistDomains))
	}
	line := strings.Join([]string{"covert", vlib.B(conf.enableCovertAllowlist), vlib.B(providedIsIP), splitF, domF, portOkF, hostIsIPF, resF, blockF, allowF}, "|")

	// ---- the implementation
	q0 := w.dns.aQueries(host)
	got, lookup := conf.ParseOrResolveBlocklisted(provided)
	q1 := w.dns.aQueries(host)
	reg := w.newReg(provided)
	pp.rm.ingestRegistration(reg)
	q2 := w.dns.aQueries(host)
	stored := pp.rm.registeredDecoys.RegistrationExists(reg)
	valid := stored != nil && stored.Valid
	storedF, dialF := "-", "-"
	if valid {
		storedF = c06Hex(stored.Covert)
		dialF = c06Hex(stored.Covert) // Proxy dials reg.Covert verbatim: checked on the source by c06CheckDialSite
	}
	out.Case(line, c06Hex(got)+"|"+vlib.B(lookup)+"|"+storedF+"|"+dialF, got != "")

	// ---- property oracle, evaluated on the OUTPUT string with the real library
	out.Checked()
	if got == "" {
		out.Count("out:rejected")
		if valid {
			fail("C06:rejected-covert-registered", "the covert was rejected but the registration became valid with covert "+strconv.Quote(stored.Covert))
		}
	} else {
		out.Count("out:accepted")
		oh, op, err := net.SplitHostPort(got)
		ip := net.ParseIP(oh)
		switch {
		case err != nil || ip == nil:
			sig := "C06:accepted-non-literal"
			if oh == "" {
				sig = "C06:accepted-empty-host"
			} else if strings.Contains(oh, "%") {
				sig = "C06:accepted-zone"
			}
			fail(sig, "accepted as "+strconv.Quote(got)+", which is not a literal IP:port (net.Dial would resolve or default the host)")
		default:
			if _, perr := strconv.ParseUint(op, 10, 16); perr != nil {
				fail("C06:accepted-bad-port", "accepted as "+strconv.Quote(got)+" whose port is not a uint16")
			}
			ok, inBlock, inAllow := pp.permitted(ip)
			if !ok {
				sig := "C06:accepted-blocklisted"
				if len(pp.allow) > 0 {
					sig = "C06:accepted-outside-allowlist"
				}
				fail(sig, fmt.Sprintf("accepted as %q: inBlocklist=%v inAllowlist=%v", got, inBlock, inAllow))
			} else if inBlock {
				// documented override: an allowlisted address inside a blocklisted subnet (not an alarm)
				out.Count("policy:allowlist-overrides-blocklist")
			}
			// the literal must be in the canonical form net.Dial treats as a literal: no second resolution
			if net.JoinHostPort(ip.String(), op) != got {
				fail("C06:accepted-non-canonical", "accepted as "+strconv.Quote(got)+", not the canonical text of its IP")
			}
		}
		if splitErr != nil || pp.domainBlocked(host) {
			fail("C06:accepted-blocked-domain", "accepted although the host "+strconv.Quote(host)+" matches a blocklisted pattern or does not split")
		}
		if !valid {
			fail("C06:accepted-not-admitted", "the covert was accepted but the registration did not become valid")
		} else if stored.Covert != got {
			fail("C06:stored-differs", "the registration stores "+strconv.Quote(stored.Covert)+" but the checked address was "+strconv.Quote(got))
		}
	}
	// names are resolved once per admission
	if q1-q0 > 1 || q2-q1 > 1 {
		fail("C06:resolved-more-than-once", fmt.Sprintf("%d / %d lookups of %q during one admission", q1-q0, q2-q1, host))
	}
	// a well-formed permitted literal is accepted unchanged
	if splitErr == nil {
		if hip := net.ParseIP(host); hip != nil && net.JoinHostPort(hip.String(), port) == provided {
			if _, perr := strconv.ParseUint(port, 10, 16); perr == nil && !pp.domainBlocked(host) {
				if ok, _, _ := pp.permitted(hip); ok {
					out.Count("oracle:permitted-literal")
					if got != provided || lookup {
						fail("C06:permitted-literal-changed", "a well-formed permitted literal came back as "+strconv.Quote(got)+fmt.Sprintf(" lookup=%v", lookup))
					}
				}
			}
		}
	}
	if lookup {
		out.Count("lookup:1")
	}
	out.Count("res:" + resF[:1])
}

// ---------------------------------------------------------------------------------------------
// the dial site: Proxy must hand the stored string to net.Dial verbatim, and nothing but the covert
// step of ingestRegistration may assign to a registration's Covert field (source facts).

func c06CheckDialSite(out *vlib.Out) {
	fset := token.NewFileSet()
	pkgs, err := parser.ParseDir(fset, ".", func(fi os.FileInfo) bool { return !strings.HasSuffix(fi.Name(), "_test.go") }, 0)
	if err != nil {
		out.OracleFail("C06:dial-site-unreadable", err.Error(), "source")
		return
	}
	dialOK, dialSeen := false, 0
	var assigns []string
	for _, p := range pkgs {
		for fname, f := range p.Files {
			ast.Inspect(f, func(n ast.Node) bool {
				switch x := n.(type) {
				case *ast.FuncDecl:
					if x.Name.Name == "Proxy" && x.Body != nil {
						ast.Inspect(x.Body, func(m ast.Node) bool {
							if c, ok := m.(*ast.CallExpr); ok {
								if sel, ok := c.Fun.(*ast.SelectorExpr); ok && strings.HasPrefix(sel.Sel.Name, "Dial") {
									if id, ok := sel.X.(*ast.Ident); ok && id.Name == "net" {
										dialSeen++
										if len(c.Args) == 2 {
											if a, ok := c.Args[1].(*ast.SelectorExpr); ok && a.Sel.Name == "Covert" {
												if r, ok := a.X.(*ast.Ident); ok && r.Name == "reg" {
													dialOK = true
												}
											}
										}
									}
								}
							}
							return true
						})
					}
				case *ast.AssignStmt:
					for _, l := range x.Lhs {
						if sel, ok := l.(*ast.SelectorExpr); ok && sel.Sel.Name == "Covert" {
							assigns = append(assigns, fmt.Sprintf("%s:%d", fname, fset.Position(x.Pos()).Line))
						}
					}
				}
				return true
			})
		}
	}
	out.Checked()
	if !dialOK || dialSeen != 1 {
		out.OracleFail("C06:dial-site", fmt.Sprintf("Proxy does not dial reg.Covert verbatim exactly once (net.Dial* calls: %d, reg.Covert argument: %v)", dialSeen, dialOK), "source proxies.go")
	}
	sort.Strings(assigns)
	if len(assigns) != 1 || !strings.HasPrefix(assigns[0], "registration_ingest.go:") {
		out.OracleFail("C06:covert-reassigned", "assignments to a Covert field outside the covert step of ingestRegistration: "+strings.Join(assigns, " "), "source")
	}
}

// ---------------------------------------------------------------------------------------------
// DNS rebinding through the real ingest and the real Proxy, observed by loopback dial recorders

func (w *c06World) rebindDial(t *testing.T, out *vlib.Out) {
	var l1, l2 net.Listener
	var err error
	for try := 0; try < 20; try++ {
		l1, err = net.Listen("tcp", "127.0.0.1:0")
		if err != nil {
			out.Note("loopback listen failed, dial recorder skipped: " + err.Error())
			return
		}
		port := l1.Addr().(*net.TCPAddr).Port
		l2, err = net.Listen("tcp", fmt.Sprintf("127.0.0.2:%d", port))
		if err == nil {
			break
		}
		l1.Close()
		l1 = nil
	}
	if l1 == nil || l2 == nil {
		out.Note("no second loopback address available, dial recorder skipped")
		return
	}
	defer l1.Close()
	defer l2.Close()
	port := l1.Addr().(*net.TCPAddr).Port
	var hits1, hits2 atomic.Int64
	accept := func(l net.Listener, n *atomic.Int64) {
		for {
			c, err := l.Accept()
			if err != nil {
				return
			}
			n.Add(1)
			c.Close()
		}
	}
	go accept(l1, &hits1)
	go accept(l2, &hits2)
	w.dns.mu.Lock()
	w.dns.script["rebind-loop.test"] = [][]string{{"127.0.0.1"}, {"127.0.0.2"}}
	w.dns.mu.Unlock()
	for _, pol := range []c06Policy{{}, {allow: []string{"127.0.0.1/32"}}, {block: []string{"127.0.0.2/32"}}} {
		pp := w.parsePolicy(pol)
		covert := fmt.Sprintf("rebind-loop.test:%d", port)
		w.dns.gen.Store(0)
		reg := w.newReg(covert)
		pp.rm.ingestRegistration(reg)
		stored := pp.rm.registeredDecoys.RegistrationExists(reg)
		out.Checked()
		if stored == nil || !stored.Valid {
			out.OracleFail("C06:permitted-name-rejected", "a name resolving to a permitted address was not admitted", "rebind "+pol.String())
			continue
		}
		// the name now points somewhere policy forbids
		w.dns.gen.Store(1)
		qBefore := w.dns.totalQueries()
		h1, h2 := hits1.Load(), hits2.Load()
		client, station := net.Pipe()
		done := make(chan struct{})
		go func() { Proxy(stored, station, w.logger); close(done) }()
		deadline := time.Now().Add(3 * time.Second)
		for hits1.Load() == h1 && hits2.Load() == h2 && time.Now().Before(deadline) {
			time.Sleep(2 * time.Millisecond)
		}
		client.Close()
		select {
		case <-done:
		case <-time.After(5 * time.Second):
		}
		station.Close()
		if hits2.Load() != h2 || hits1.Load() != h1+1 {
			out.OracleFail("C06:dialed-not-checked", fmt.Sprintf("after the name was re-pointed the proxy dialed 127.0.0.1 %d times and 127.0.0.2 %d times (stored covert %q)", hits1.Load()-h1, hits2.Load()-h2, stored.Covert), "rebind "+pol.String())
		}
		if w.dns.totalQueries() != qBefore {
			out.OracleFail("C06:resolved-at-dial", "the proxy sent DNS queries when dialing the stored covert "+strconv.Quote(stored.Covert), "rebind "+pol.String())
		}
		out.Count("rebind:dial-recorded")
	}
}

// ---------------------------------------------------------------------------------------------

func TestVerifC06(t *testing.T) {
	out := vlib.Open("C06")
	defer out.Close()
	w := &c06World{dns: newC06DNS(t), logger: log.New(io.Discard, "", golog.Ldate)}
	for k, v := range c06Script {
		w.dns.script[k] = v
	}
	if rp := vlib.Replay(); rp != "" {
		w.replay(t, out, rp)
		return
	}
	c06CheckDialSite(out)
	w.rebindDial(t, out)

	r := vlib.NewRand("C06")
	// ---- exhaustive: every host × port × framing under the fixed policies (generation 0), a subset under generation 1
	var fixed []*c06Parsed
	for _, p := range c06FixedPolicies {
		fixed = append(fixed, w.parsePolicy(p))
	}
	nPol := len(fixed)
	if vlib.Tier() != "thorough" {
		nPol = 5
	}
	for pi, pp := range fixed {
		// quick tier: the fixed policies beyond the first nPol get a random third of the grid
		for _, h := range c06Hosts {
			for _, p := range c06Ports {
				for f := 0; f < 6; f++ {
					if f >= 3 && p != "80" {
						continue // port-less framings once per host
					}
					if pi >= nPol && !r.Chance(1, 3) {
						continue
					}
					w.runC06(out, pp, c06Frame(h, p, f), 0)
				}
			}
			if strings.HasPrefix(h, "rebind") || strings.HasPrefix(h, "multi") {
				w.runC06(out, pp, c06Frame(h, "443", 0), 1)
			}
		}
		// keep the tracked-registration map small
		fixed[pi] = w.parsePolicy(pp.pol)
	}

	// ---- random policies × random / mutated covert strings
	n := vlib.Budget(6000, 600000)
	var pp *c06Parsed
	for i := 0; i < n; i++ {
		if i%40 == 0 {
			var p c06Policy
			for _, s := range c06BlockPool {
				if r.Chance(1, 4) {
					p.block = append(p.block, s)
				}
			}
			if r.Chance(1, 2) {
				for _, s := range c06AllowPool {
					if r.Chance(1, 4) {
						p.allow = append(p.allow, s)
					}
				}
			}
			for _, s := range c06DomainPool {
				if r.Chance(1, 6) {
					p.domains = append(p.domains, s)
				}
			}
			pp = w.parsePolicy(p)
		}
		var s string
		switch k := r.Intn(10); {
		case k < 5:
			s = c06Frame(c06Hosts[r.Intn(len(c06Hosts))], c06Ports[r.Intn(len(c06Ports))], r.Intn(3))
		case k < 7:
			// random literal in a random textual form
			s = c06Frame(c06RandomLiteral(r), strconv.Itoa(r.Intn(70000)), r.Intn(2))
		case k < 9:
			// mutate a valid string: flip / insert / delete one byte
			b := []byte(c06Frame(c06Hosts[r.Intn(len(c06Hosts))], "443", 0))
			if len(b) > 0 {
				switch r.Intn(3) {
				case 0:
					b[r.Intn(len(b))] = "[]:%.0 x\x00"[r.Intn(9)]
				case 1:
					j := r.Intn(len(b) + 1)
					b = append(b[:j], append([]byte{"[]:%.0 x\x00"[r.Intn(9)]}, b[j:]...)...)
				default:
					j := r.Intn(len(b))
					b = append(b[:j], b[j+1:]...)
				}
			}
			s = string(b)
		default:
			s = string(r.Bytes(r.Intn(24)))
		}
		w.runC06(out, pp, s, r.Intn(2))
	}
}

func c06RandomLiteral(r *vlib.Rand) string {
	if r.Bool() {
		ip := net.IP(r.Bytes(4))
		switch r.Intn(5) {
		case 0:
			return "::ffff:" + ip.String()
		case 1:
			return fmt.Sprintf("::ffff:%x:%x", uint16(ip[0])<<8|uint16(ip[1]), uint16(ip[2])<<8|uint16(ip[3]))
		case 2:
			// one of the policy-relevant networks
			return []string{"10.", "127.", "198.51.100.", "192.0.2."}[r.Intn(4)] + strconv.Itoa(r.Intn(256)) + []string{"", ".1", ".2.3"}[r.Intn(3)]
		default:
			return ip.String()
		}
	}
	b := r.Bytes(16)
	switch r.Intn(4) {
	case 0:
		copy(b, []byte{0x20, 0x01, 0x0d, 0xb8, 0, 1})
	case 1:
		copy(b, []byte{0xfe, 0x80, 0, 0, 0, 0, 0, 0})
	case 2:
		for i := 0; i < 10; i++ {
			b[i] = 0
		}
	}
	ip := net.IP(b)
	switch r.Intn(4) {
	case 0:
		return strings.ToUpper(ip.String())
	case 1:
		// fully expanded
		var parts []string
		for i := 0; i < 16; i += 2 {
			parts = append(parts, fmt.Sprintf("%04x", uint16(b[i])<<8|uint16(b[i+1])))
		}
		return strings.Join(parts, ":")
	case 2:
		return ip.String() + "%" + []string{"lo", "eth0", "1"}[r.Intn(3)]
	default:
		return ip.String()
	}
}

// replay re-runs `c06|gen=G|B=…;A=…;D=…|<covert hex>` lines of a replay file.
func (w *c06World) replay(t *testing.T, out *vlib.Out, path string) {
	b, err := os.ReadFile(path)
	if err != nil {
		t.Fatal(err)
	}
	for _, line := range strings.Split(string(b), "\n") {
		if !strings.HasPrefix(line, "c06|") {
			continue
		}
		f := strings.SplitN(line, "|", 4)
		if len(f) != 4 {
			t.Fatalf("bad replay line %q", line)
		}
		gen, _ := strconv.Atoi(strings.TrimPrefix(f[1], "gen="))
		var p c06Policy
		for _, part := range strings.Split(f[2], ";") {
			kv := strings.SplitN(part, "=", 2)
			if len(kv) != 2 || kv[1] == "" {
				continue
			}
			switch kv[0] {
			case "B":
				p.block = strings.Split(kv[1], ",")
			case "A":
				p.allow = strings.Split(kv[1], ",")
			case "D":
				p.domains = strings.Split(kv[1], ",")
			}
		}
		cov, err := hex.DecodeString(f[3])
		if err != nil {
			t.Fatalf("bad covert hex in %q", line)
		}
		pp := w.parsePolicy(p)
		w.runC06(out, pp, string(cov), gen)
		got, lookup := pp.conf.ParseOrResolveBlocklisted(string(cov))
		fmt.Printf("REPLAY covert %q policy %s -> %q lookup=%v\n", cov, p.String(), got, lookup)
	}
}
