//go:build verif

package lib

// Correspondence + property oracle for C06: covert strings × generated policies against the real
// ParseOrResolveBlocklisted / ingestRegistration / Proxy.
//
//   - The resolver is a scripted in-process DNS server installed as net.DefaultResolver (no sockets, no
//     timeouts): every name can be answered differently at every lookup.
//   - The dialed address is OBSERVED: the harness re-executes itself in a private network namespace in
//     which every IPv4 and IPv6 address is local (`ip route add local 0.0.0.0/0 dev lo`), listens on the
//     ports of the grid and records the destination address of every connection the real Proxy makes.
//     Without the namespace (no privileges) only loopback destinations are observed.
//   - After every admission a second registration for the same session (same secret, phantom and
//     transport) with another covert string is ingested, names are re-pointed, and the stored
//     registration is dialed.
//   - Two and three ingest workers for one session are interleaved at the scheduling points of
//     ingestRegistration (verifhook), all schedules.
//
// The same cases go to the Lean model as `covert|…` / `csched|…` lines, each carrying the answers the
// real standard-library calls gave (ParseIP, SplitHostPort, ParseUint, ResolveIPAddr, Contains,
// MatchString, IP.String).

import (
	"context"
	"encoding/binary"
	"encoding/hex"
	"fmt"
	"go/ast"
	"go/parser"
	"go/token"
	"io"
	golog "log"
	"net"
	"os"
	"os/exec"
	"regexp"
	"runtime"
	"sort"
	"strconv"
	"strings"
	"sync"
	"sync/atomic"
	"testing"
	"time"

	"github.com/refraction-networking/conjure/internal/verifhook"
	"github.com/refraction-networking/conjure/internal/vlib"
	"github.com/refraction-networking/conjure/pkg/core"
	"github.com/refraction-networking/conjure/pkg/phantoms"
	"github.com/refraction-networking/conjure/pkg/station/log"
	"github.com/refraction-networking/conjure/pkg/transports/wrapping/min"
	pb "github.com/refraction-networking/conjure/proto"
	"google.golang.org/protobuf/proto"
)

// every signature keeps its own quota of recorded failures: a defect that fails thousands of cases must not
// push the failures of another defect out of the report (vlib stops recording after 600 failures in total)
var c06PerSig = map[string]int{}

// c06Visible asks the real GetRegistrations — the function the wrapping transports use to find the registration
// a connection belongs to — for the registrations under reg's phantom and returns the one that is reg's session
// (the object stored under reg's key), nil if it is not returned.  `stored` is what the registry holds for the key.
// The two views must agree: returned iff stored and marked valid, and then the very same object.
func c06Visible(out *vlib.Out, rm *RegistrationManager, reg, stored *DecoyRegistration, fail func(sig, what string)) *DecoyRegistration {
	var vis *DecoyRegistration
	n := 0
	for _, r := range rm.GetRegistrations(reg.PhantomIp) {
		if d, ok := r.(*DecoyRegistration); ok && stored != nil && d == stored {
			vis = d
		}
		n++
	}
	if n > 3 {
		n = 3
	}
	out.Count(fmt.Sprintf("getregistrations:returned-%d", n))
	out.Checked()
	switch {
	case stored != nil && stored.Valid && vis == nil:
		fail("C06:getregistrations-hides-valid-registration", "a registration marked valid is not among what GetRegistrations returns for its phantom")
	case vis != nil && !vis.Valid:
		fail("C06:getregistrations-returns-unvalidated", "GetRegistrations returns a registration that is not marked valid, covert "+strconv.Quote(vis.Covert))
	}
	return vis
}

func c06Fail(out *vlib.Out, sig, what, replay string) {
	c06PerSig[sig]++
	if c06PerSig[sig] > 25 {
		out.Count("oracle-failures-not-recorded:" + sig)
		return
	}
	out.OracleFail(sig, what, replay)
}

// ---------------------------------------------------------------------------------------------
// private network namespace in which every address is local

const c06NetnsEnv = "VERIF_C06_NETNS"

// c06RunInNetns re-executes this test binary inside a new network namespace. It returns true when the
// child ran the harness (its verdict is then this test's verdict).
func c06RunInNetns(t *testing.T) bool {
	unshare, err1 := exec.LookPath("unshare")
	_, err2 := exec.LookPath("ip")
	if err1 != nil || err2 != nil {
		return false
	}
	if err := exec.Command(unshare, "-n", "true").Run(); err != nil {
		return false
	}
	cmd := exec.Command(unshare, append([]string{"-n", "--", os.Args[0]}, os.Args[1:]...)...)
	cmd.Env = append(os.Environ(), c06NetnsEnv+"=1")
	cmd.Stdout, cmd.Stderr = os.Stdout, os.Stderr
	err := cmd.Run()
	if err == nil {
		return true
	}
	if ee, ok := err.(*exec.ExitError); ok && ee.ExitCode() == 77 {
		return false // the namespace could not be configured: run without it
	}
	t.Fatalf("the harness run inside the network namespace failed: %v", err)
	return true
}

// c06SetupNetns makes every address local to the (private) namespace and gives the loopback
// interface two documentation addresses, so that covert_blocklist_public_addrs has something to list.
func c06SetupNetns() bool {
	for _, args := range [][]string{
		{"link", "set", "lo", "up"},
		{"route", "add", "local", "0.0.0.0/0", "dev", "lo"},
		{"-6", "route", "add", "local", "::/0", "dev", "lo"},
	} {
		if out, err := exec.Command("ip", args...).CombinedOutput(); err != nil {
			fmt.Printf("netns setup: ip %s: %v %s\n", strings.Join(args, " "), err, out)
			return false
		}
	}
	_ = exec.Command("ip", "addr", "add", "203.0.113.1/24", "dev", "lo").Run()
	_ = exec.Command("ip", "-6", "addr", "add", "2001:db8:ffff::1/64", "dev", "lo").Run()
	return true
}

// ---------------------------------------------------------------------------------------------
// scripted in-process DNS server, installed as net.DefaultResolver

type c06DNS struct {
	gen    atomic.Int64 // base generation of answers
	mu     sync.Mutex
	script map[string][][]string // lower-case name without trailing dot -> per generation -> addresses
	seen   map[string]int        // (name, qtype) queries seen since beginCall
	total  int
}

func newC06DNS() *c06DNS {
	d := &c06DNS{script: map[string][][]string{}, seen: map[string]int{}}
	net.DefaultResolver = &net.Resolver{
		PreferGo: true,
		Dial: func(ctx context.Context, network, address string) (net.Conn, error) {
			return &c06DNSConn{d: d, resp: make(chan []byte, 4), closed: make(chan struct{})}, nil
		},
	}
	return d
}

// beginCall starts a new call of the code under test: within one call the k-th lookup of a name is
// answered from generation gen+k, so a second lookup inside the same call sees another answer.
func (d *c06DNS) beginCall() {
	d.mu.Lock()
	d.seen = map[string]int{}
	d.mu.Unlock()
}

// c06DNSConn is a packet connection to the in-process server: a written query is answered at once.
type c06DNSConn struct {
	d      *c06DNS
	resp   chan []byte
	closed chan struct{}
	once   sync.Once
	dmu    sync.Mutex
	dl     time.Time
}

type c06Addr struct{}

func (c06Addr) Network() string { return "udp" }
func (c06Addr) String() string  { return "in-process-dns" }

func (c *c06DNSConn) Write(b []byte) (int, error) {
	if r := c.d.answer(b); r != nil {
		select {
		case c.resp <- r:
		default:
		}
	}
	return len(b), nil
}
func (c *c06DNSConn) Read(b []byte) (int, error) {
	c.dmu.Lock()
	dl := c.dl
	c.dmu.Unlock()
	var timer <-chan time.Time
	if !dl.IsZero() {
		tm := time.NewTimer(time.Until(dl))
		defer tm.Stop()
		timer = tm.C
	}
	select {
	case r := <-c.resp:
		return copy(b, r), nil
	case <-c.closed:
		return 0, net.ErrClosed
	case <-timer:
		return 0, os.ErrDeadlineExceeded
	}
}
func (c *c06DNSConn) ReadFrom(b []byte) (int, net.Addr, error) {
	n, err := c.Read(b)
	return n, c06Addr{}, err
}
func (c *c06DNSConn) WriteTo(b []byte, _ net.Addr) (int, error) { return c.Write(b) }
func (c *c06DNSConn) Close() error                              { c.once.Do(func() { close(c.closed) }); return nil }
func (c *c06DNSConn) LocalAddr() net.Addr                       { return c06Addr{} }
func (c *c06DNSConn) RemoteAddr() net.Addr                      { return c06Addr{} }
func (c *c06DNSConn) SetDeadline(t time.Time) error {
	c.dmu.Lock()
	c.dl = t
	c.dmu.Unlock()
	return nil
}
func (c *c06DNSConn) SetReadDeadline(t time.Time) error  { return c.SetDeadline(t) }
func (c *c06DNSConn) SetWriteDeadline(t time.Time) error { return nil }

func (d *c06DNS) answer(q []byte) []byte {
	if len(q) < 12 || binary.BigEndian.Uint16(q[4:6]) != 1 {
		return nil
	}
	// question name
	i := 12
	var labels []string
	for {
		if i >= len(q) {
			return nil
		}
		l := int(q[i])
		i++
		if l == 0 {
			break
		}
		if l > 63 || i+l > len(q) {
			return nil
		}
		labels = append(labels, string(q[i:i+l]))
		i += l
	}
	if i+4 > len(q) {
		return nil
	}
	qtype := binary.BigEndian.Uint16(q[i : i+2])
	qend := i + 4
	name := strings.ToLower(strings.Join(labels, "."))
	d.mu.Lock()
	gens, known := d.script[name]
	key := fmt.Sprintf("%s/%d", name, qtype)
	k := d.seen[key]
	d.seen[key]++
	d.total++
	d.mu.Unlock()
	resp := make([]byte, 0, 512)
	resp = append(resp, q[0], q[1], 0x81, 0x80, 0, 1, 0, 0, 0, 0, 0, 0)
	resp = append(resp, q[12:qend]...)
	if !known {
		resp[3] = 0x83 // NXDOMAIN
		return resp
	}
	g := int(d.gen.Load()) + k
	if g >= len(gens) {
		g = len(gens) - 1
	}
	an := 0
	for _, s := range gens[g] {
		ip := net.ParseIP(s)
		var rdata []byte
		var typ uint16
		if v4 := ip.To4(); v4 != nil && !strings.Contains(s, ":") {
			rdata, typ = v4, 1
		} else {
			rdata, typ = ip.To16(), 28
		}
		if typ != qtype {
			continue
		}
		resp = append(resp, 0xc0, 0x0c, byte(typ>>8), byte(typ), 0, 1, 0, 0, 0, 0, byte(len(rdata)>>8), byte(len(rdata)))
		resp = append(resp, rdata...)
		an++
	}
	resp[6], resp[7] = byte(an>>8), byte(an)
	return resp
}

func (d *c06DNS) totalQueries() int {
	d.mu.Lock()
	defer d.mu.Unlock()
	return d.total
}

// per name: the answers of successive generations (= of successive lookups within one call, and of
// the re-pointed state in which the stored registration is dialed)
var c06Script = map[string][][]string{
	"ok.test":            {{"198.51.100.7"}},
	"ok6.test":           {{"2001:db8:1::7"}},
	"both.test":          {{"198.51.100.8", "2001:db8:1::8"}},
	"blocked.test":       {{"10.1.2.3"}},
	"loop.test":          {{"127.0.0.1"}},
	"loop6.test":         {{"::1"}},
	"rebind.test":        {{"198.51.100.9"}, {"127.0.0.1"}},
	"rebind2.test":       {{"10.0.0.5"}, {"198.51.100.9"}},
	"rebind6.test":       {{"2001:db8:1::9"}, {"::1"}},
	"rebind3.test":       {{"198.51.100.20"}, {"10.9.9.9"}, {"198.51.100.21"}},
	"rebindloop.test":    {{"127.0.0.1"}, {"127.0.0.2"}},
	"mapped.test":        {{"::ffff:10.0.0.1"}},
	"zero.test":          {{"0.0.0.0"}},
	"zero6.test":         {{"::"}},
	"multi.test":         {{"198.51.100.10", "10.0.0.9"}, {"10.0.0.9", "198.51.100.10"}},
	"empty.test":         {{}},
	"blocked.com":        {{"198.51.100.11"}},
	"x.blocked.com":      {{"198.51.100.12"}},
	"blocked.com.au":     {{"198.51.100.13"}},
	"upper.test":         {{"198.51.100.14"}},
	"xn--bcher-kva.test": {{"198.51.100.15"}},
}

// ---------------------------------------------------------------------------------------------
// dial recorder: listeners that record the destination address of every accepted connection

type c06Recorder struct {
	anyIP bool // every address is local (private namespace)
	ports map[int]bool
	ch    chan *net.TCPAddr
	ls    []net.Listener
}

func newC06Recorder(anyIP bool, out *vlib.Out) *c06Recorder {
	rec := &c06Recorder{anyIP: anyIP, ports: map[int]bool{}, ch: make(chan *net.TCPAddr, 64)}
	want := []int{0}
	if anyIP {
		want = []int{80, 443, 65535, 0}
	}
	for _, p := range want {
		l, err := net.Listen("tcp", fmt.Sprintf(":%d", p))
		if err != nil {
			out.Note(fmt.Sprintf("dial recorder: cannot listen on port %d: %v", p, err))
			continue
		}
		rec.ls = append(rec.ls, l)
		rec.ports[l.Addr().(*net.TCPAddr).Port] = true
		go func(l net.Listener) {
			for {
				c, err := l.Accept()
				if err != nil {
					return
				}
				if a, ok := c.LocalAddr().(*net.TCPAddr); ok {
					select {
					case rec.ch <- a:
					default:
					}
				}
				c.Close()
			}
		}(l)
	}
	return rec
}

// freePort is the recorder's ephemeral port (for cases that may pick their port)
func (rec *c06Recorder) freePort() int {
	best := 0
	for p := range rec.ports {
		if p != 80 && p != 443 && p != 65535 {
			best = p
		}
	}
	return best
}

func (rec *c06Recorder) drain() (got []*net.TCPAddr) {
	for {
		select {
		case a := <-rec.ch:
			got = append(got, a)
		default:
			return
		}
	}
}

// reachable: would a connection to ip:port arrive at one of the recorder's listeners
func (rec *c06Recorder) reachable(ip net.IP, port int) bool {
	if !rec.ports[port] {
		return false
	}
	return rec.anyIP || ip.IsLoopback() || ip.IsUnspecified()
}

// ---------------------------------------------------------------------------------------------
// policies and covert strings

type c06Policy struct {
	block, allow, domains []string
	public                bool // covert_blocklist_public_addrs
}

func (p c06Policy) String() string {
	s := "B=" + strings.Join(p.block, ",") + ";A=" + strings.Join(p.allow, ",") + ";D=" + strings.Join(p.domains, ",")
	if p.public {
		s += ";P=1"
	}
	return s
}

var c06BlockPool = []string{"127.0.0.0/8", "10.0.0.0/8", "::1/128", "fc00::/7", "fe80::/10", "192.0.2.0/24", "198.51.100.0/24",
	"2001:db8::/32", "0.0.0.0/0", "::/0", "::ffff:10.0.0.0/104", "0.0.0.0/32", "198.51.100.7/32", "2001:db8:1::/48", "172.16.0.0/12", "::/128", "127.0.0.1/32",
	"127.0.0.2/32", "198.51.100.20/30", "10.0.0.0/24", "198.51.100.0/25", "2001:db8::/48", "fc00::/64"}
var c06AllowPool = []string{"198.51.100.0/24", "2001:db8:1::/48", "127.0.0.1/32", "10.0.0.0/8", "0.0.0.0/0", "::/0", "192.0.2.0/25", "2001:db8::/32", "198.51.100.8/31", "fe80::/10", "198.51.100.0/30", "10.0.0.0/16", "2001:db8:1::/64"}
var c06DomainPool = []string{"localhost", `.*blocked\.com$`, "^$", "test$", "(?i)^LOCAL", "^ok", `\d+\.\d+`, "%", "^rebind", `^\[`, ":", `^198\.51\.100\.`, `^2001:db8:1:`, `^127\.`}

var c06FixedPolicies = []c06Policy{
	{},
	{block: []string{"127.0.0.1/32", "10.0.0.0/8", "172.16.0.0/12", "192.168.0.0/16", "fc00::/7", "fe80::0/16", "::1/128"}, domains: []string{"localhost"}}, // the shipped policy (entries that parse)
	{block: []string{"127.0.0.0/8", "10.0.0.0/8", "::1/128", "fe80::/10"}, domains: []string{`.*blocked\.com$`, "localhost"}},
	{allow: []string{"198.51.100.0/24", "2001:db8:1::/48"}},
	{allow: []string{"127.0.0.1/32"}},
	{block: []string{"10.0.0.0/8"}, public: true}, // covert_blocklist_public_addrs: the interfaces' own networks
	{block: []string{"198.51.100.0/24"}, allow: []string{"198.51.100.0/25", "10.0.0.0/8"}},
	{block: []string{"0.0.0.0/0", "::/0"}},
	{allow: []string{"0.0.0.0/0"}, domains: []string{"^$"}},
	{block: []string{"10.0.0.0/8"}, domains: []string{"test$", `\d+\.\d+`}},
	{block: []string{"::ffff:10.0.0.0/104", "0.0.0.0/32", "::/128"}},
	{allow: []string{"127.0.0.0/8", "203.0.113.0/24"}, public: true}, // … overridden by an allowlist
}

var c06Hosts = []string{
	// empty / bracket noise
	"", "[", "]", "[]", "[::1", "::1]", "[[::1]]",
	// IPv4 literals and look-alikes
	"198.51.100.7", "10.0.0.1", "127.0.0.1", "127.0.0.2", "0.0.0.0", "255.255.255.255", "192.0.2.200", "001.2.3.4", "1.2.3", "127.1",
	"0x7f.0.0.1", "2130706433", "017700000001", "1.2.3.4.", "1.2.3.4.5", "１.２.３.４", " 10.0.0.1", "10.0.0.1 ", "203.0.113.1", "203.0.113.77",
	// IPv6 literals in several textual forms
	"2001:db8:1::7", "2001:DB8:1:0:0:0:0:7", "2001:0db8:0001:0000:0000:0000:0000:0007", "::1", "0:0:0:0:0:0:0:1", "::", "fe80::1", "fc00::1",
	"::ffff:10.0.0.1", "::ffff:a00:1", "::FFFF:198.51.100.7", "::10.0.0.1", "64:ff9b::10.0.0.1", "2001:db8::", "2001:db8:1::7:", "::ffff:0.0.0.0", "::ffff:127.0.0.1",
	// zones
	"fe80::1%lo", "fe80::1%eth0", "fe80::1%", "fe80::1%25lo", "2001:db8:1::7%lo", "::ffff:10.0.0.1%eth0", "::ffff:198.51.100.7%lo", "::1%lo", "10.0.0.1%lo", "fe80::1%lo%lo",
	// hostnames (scripted)
	"ok.test", "ok6.test", "both.test", "blocked.test", "loop.test", "loop6.test", "rebind.test", "rebind2.test", "rebind6.test", "rebind3.test", "rebindloop.test", "mapped.test", "zero.test", "zero6.test",
	"multi.test", "empty.test", "nx.test", "blocked.com", "x.blocked.com", "blocked.com.au", "UPPER.TEST", "ok.test.", "localhost", "LOCALHOST", "localhost.",
	"xn--bcher-kva.test", "bücher.test", "a b.test", "ok.test\x00", "-ok.test", strings.Repeat("a", 64) + ".test", strings.Repeat("a.", 130) + "test",
	// garbage
	"http://ok.test", "ok.test/path", "user@ok.test", "\xff\xfe", "%00", "..", ".", "*",
}

var c06Ports = []string{"80", "443", "0", "65535", "65536", "080", "-1", "+80", "http", "", "99999999999999999999", " 80", "80 ", "８０", "8_0", "0x50", "80\n"}

// covert strings of the re-sent registration (`%d` = the port of the first registration, so that a
// dial of it lands on a recorder)
var c06DupPool = []string{"127.0.0.1:%d", "10.1.2.3:%d", "blocked.test:%d", "rebind.test:%d", "[::1]:%d", "198.51.100.99:%d", "loop.test:%d", "no port here", "", "0.0.0.0:%d", "ok.test:%d"}

// frame builds a covert string from host and port in one of several framings
func c06Frame(host, port string, framing int) string {
	switch framing {
	case 0:
		return net.JoinHostPort(host, port) // brackets iff the host has a colon
	case 1:
		return "[" + host + "]:" + port
	case 2:
		return host + ":" + port
	case 3:
		return host // no port
	case 4:
		return host + ":" + port + ":"
	default:
		return "[" + host + "]" // brackets, no port
	}
}

// ---------------------------------------------------------------------------------------------
// one case

type c06World struct {
	t       *testing.T
	dns     *c06DNS
	rec     *c06Recorder
	logger  *log.Logger
	nextSec uint64
	ifaces  []*net.IPNet
	dir     string // scratch directory of the reload part
	// the connecting-transport part (zz_verif_c06_dialback_test.go)
	dialback       *c06DialBack
	selector       *phantoms.PhantomIPSelector
	idleGoroutines int
}

type c06Parsed struct {
	pol    c06Policy
	conf   *RegConfig
	rm     *RegistrationManager
	block  []*net.IPNet // parsed by the harness itself (oracle side)
	allow  []*net.IPNet
	domain []*regexp.Regexp
	// chain: set when the policy was put in force by reloads (start-up policy and every reload with the loading
	// steps that failed, see zz_verif_c06_reload_test.go); pol is then the policy of the last configuration that loaded
	chain string
	// every announcement of a registration to the detector (registerForDetector: the moment it is marked valid and
	// becomes visible to connection handlers, under the registry lock; updateInDetector): the object and the Covert
	// field it held at that moment
	annMu     sync.Mutex
	announced []c06Announce
}

type c06Announce struct {
	kind   string
	reg    *DecoyRegistration
	covert string
	valid  bool
}

func (pp *c06Parsed) announce(kind string, d *DecoyRegistration) {
	pp.annMu.Lock()
	pp.announced = append(pp.announced, c06Announce{kind, d, d.Covert, d.Valid})
	pp.annMu.Unlock()
}

// checkAnnounced: at the moment a registration becomes visible (Valid set, announced) its Covert must already be
// the literal that admission returned — a connection matched from that moment on hands it to net.Dial.  want is
// the admitted literal where the case knows it ("" = unknown: any permitted literal IP:port passes).  Returns the
// Covert field of the first announcement ("-" if there was none) for the correspondence line, and clears the log.
func (pp *c06Parsed) checkAnnounced(out *vlib.Out, fail func(sig, what string), want string) string {
	pp.annMu.Lock()
	l := pp.announced
	pp.announced = nil
	pp.annMu.Unlock()
	first := "-"
	for i, a := range l {
		if i == 0 {
			first = c06Hex(a.covert)
			if a.covert == "" {
				first = "00"
			}
		}
		out.Checked()
		out.Count("announced:" + a.kind)
		if _, _, problem, detail := pp.literal(a.covert); problem != "" {
			fail("C06:visible-with-unchecked-covert", fmt.Sprintf("a registration was marked valid and announced (%s) while its Covert field held %s — a connection matched from that moment on is proxied to it", a.kind, detail))
		} else if want != "" && a.covert != want {
			fail("C06:visible-with-unchecked-covert", fmt.Sprintf("a registration was marked valid and announced (%s) while its Covert field held %q; the address admission returned is %q", a.kind, a.covert, want))
		}
	}
	return first
}

// the networks of the local interfaces, as the harness sees them (oracle side of
// covert_blocklist_public_addrs)
func c06InterfaceNets() []*net.IPNet {
	var nets []*net.IPNet
	ifs, err := net.Interfaces()
	if err != nil {
		return nil
	}
	for _, i := range ifs {
		addrs, err := i.Addrs()
		if err != nil {
			continue
		}
		for _, a := range addrs {
			if n, ok := a.(*net.IPNet); ok {
				nets = append(nets, n)
			}
		}
	}
	return nets
}

func (w *c06World) parsePolicy(p c06Policy) *c06Parsed {
	conf := &RegConfig{
		CovertBlocklistSubnets:     append([]string(nil), p.block...),
		CovertAllowlistSubnets:     append([]string(nil), p.allow...),
		CovertBlocklistDomains:     append([]string(nil), p.domains...),
		CovertBlocklistPublicAddrs: p.public,
	}
	if err := conf.ParseBlocklists(); err != nil {
		w.t.Fatalf("the harness' policy pools must be accepted by ParseBlocklists: %v (policy %s)", err, p.String())
	}
	pp := &c06Parsed{pol: p, conf: conf}
	for _, s := range p.block {
		_, n, err := net.ParseCIDR(s)
		if err != nil {
			panic("harness policy pool must parse: " + s)
		}
		pp.block = append(pp.block, n)
	}
	if p.public {
		pp.block = append(pp.block, w.ifaces...)
	}
	for _, s := range p.allow {
		_, n, err := net.ParseCIDR(s)
		if err != nil {
			panic("harness policy pool must parse: " + s)
		}
		pp.allow = append(pp.allow, n)
	}
	for _, s := range p.domains {
		pp.domain = append(pp.domain, regexp.MustCompile(s))
	}
	rm := &RegistrationManager{
		RegConfig:         conf,
		RegistrationStats: newRegistrationStats(),
		Logger:            w.logger,
		registeredDecoys:  NewRegisteredDecoys(),
	}
	rm.registeredDecoys.transports[pb.TransportType_Min] = min.Transport{}
	rm.registeredDecoys.registerForDetector = func(d *DecoyRegistration) { pp.announce("register", d) }
	rm.registeredDecoys.updateInDetector = func(d *DecoyRegistration) { pp.announce("update", d) }
	pp.rm = rm
	return pp
}

func (w *c06World) newSecret() []byte {
	w.nextSec++
	sec := make([]byte, 32)
	binary.BigEndian.PutUint64(sec, w.nextSec)
	return sec
}

func (w *c06World) newReg(covert string, sec []byte) *DecoyRegistration {
	src := pb.RegistrationSource_API
	var tp Transport = min.Transport{}
	return &DecoyRegistration{
		PhantomIp:          net.ParseIP("192.0.2.77"),
		PhantomPort:        443,
		Keys:               &core.ConjureSharedKeys{SharedSecret: sec},
		Transport:          pb.TransportType_Min,
		TransportPtr:       &tp,
		RegistrationSource: &src,
		Covert:             covert,
		Flags:              &pb.RegistrationFlags{Prescanned: proto.Bool(true)},
	}
}

func c06Bits(b []bool) string {
	if len(b) == 0 {
		return "-"
	}
	var sb strings.Builder
	for _, x := range b {
		sb.WriteString(vlib.B(x))
	}
	return sb.String()
}

func c06Hex(s string) string {
	if s == "" {
		return "-"
	}
	return hex.EncodeToString([]byte(s))
}

// permitted evaluates the configured policy on an IP with the documented semantics: a configured
// allowlist overrides the blocklist.
func (pp *c06Parsed) permitted(ip net.IP) (ok bool, inBlock bool, inAllow bool) {
	for _, n := range pp.block {
		if n.Contains(ip) {
			inBlock = true
		}
	}
	for _, n := range pp.allow {
		if n.Contains(ip) {
			inAllow = true
		}
	}
	if len(pp.allow) > 0 {
		return inAllow, inBlock, inAllow
	}
	return !inBlock, inBlock, inAllow
}

func (pp *c06Parsed) domainBlocked(host string) bool {
	for _, re := range pp.domain {
		if re.MatchString(host) {
			return true
		}
	}
	return false
}

// the answers of the standard library about one covert string (oracle parameters of the model): the
// eight per-worker fields of a model line, and how many DNS queries one resolution of the host costs
type c06Answers struct {
	fields     []string
	host, port string
	splitErr   error
	resKind    string
	dnsPerRes  int
	consumes   bool // ParseOrResolveBlocklisted gets as far as the resolver with this string
}

func (w *c06World) answers(conf *RegConfig, provided string) c06Answers {
	var a c06Answers
	providedIsIP := net.ParseIP(provided) != nil
	host, port, splitErr := net.SplitHostPort(provided)
	a.host, a.port, a.splitErr = host, port, splitErr
	splitF, domF, portOkF, hostIsIPF, resF, blockF, allowF := "E", "-", "0", "0", "E", "-", "-"
	if splitErr == nil {
		var dh []bool
		for _, re := range conf.covertBlocklistDomains {
			dh = append(dh, re.MatchString(host))
		}
		domF = c06Bits(dh)
		_, perr := strconv.ParseUint(port, 10, 16)
		portOkF = vlib.B(perr == nil)
		if perr == nil {
			splitF = hex.EncodeToString([]byte(host)) + "," + c06Hex(port)
			if host == "" {
				splitF = "-," + c06Hex(port)
			}
		} else {
			splitF = c06Hex(host) + ",-" // the port text is not used when it does not parse
		}
		hostIsIPF = vlib.B(net.ParseIP(host) != nil)
		a.consumes = !providedIsIP && perr == nil && !strings.Contains(domF, "1")
		w.dns.beginCall()
		q0 := w.dns.totalQueries()
		addr, rerr := net.ResolveIPAddr("ip", host)
		a.dnsPerRes = w.dns.totalQueries() - q0
		switch {
		case rerr != nil:
			resF = "E"
		case addr == nil:
			resF = "N"
		default:
			text := ""
			if addr.IP != nil {
				text = addr.IP.String()
			}
			resF = fmt.Sprintf("A,%s,%s,%s,%s", vlib.B(addr.IP == nil), c06Hex(addr.Zone), c06Hex(text), vlib.B(addr.IP.IsUnspecified()))
			var bh, ah []bool
			for _, n := range conf.covertBlocklistSubnets {
				bh = append(bh, n.Contains(addr.IP))
			}
			for _, n := range conf.covertAllowlistSubnets {
				ah = append(ah, n.Contains(addr.IP))
			}
			blockF, allowF = c06Bits(bh), c06Bits(ah)
		}
	}
	if blockF == "-" && len(conf.covertBlocklistSubnets) > 0 {
		blockF = strings.Repeat("0", len(conf.covertBlocklistSubnets))
	}
	if allowF == "-" && len(conf.covertAllowlistSubnets) > 0 {
		allowF = strings.Repeat("0", len(conf.covertAllowlistSubnets))
	}
	if domF == "-" && len(conf.covertBlocklistDomains) > 0 {
		domF = strings.Repeat("0", len(conf.covertBlocklistDomains))
	}
	a.resKind = resF[:1]
	a.fields = []string{vlib.B(providedIsIP), splitF, domF, portOkF, hostIsIPF, resF, blockF, allowF}
	return a
}

// literal evaluates an (accepted or stored) covert string with the real library: is it a literal
// IP:port that the policy permits. problem is "" or a signature.
func (pp *c06Parsed) literal(s string) (ip net.IP, port int, problem, detail string) {
	oh, op, err := net.SplitHostPort(s)
	ip = net.ParseIP(oh)
	if err != nil || ip == nil {
		problem = "non-literal"
		if err == nil && oh == "" {
			problem = "empty-host"
		} else if strings.Contains(oh, "%") {
			problem = "zone"
		}
		return nil, 0, problem, strconv.Quote(s) + " is not a literal IP:port (net.Dial would resolve or default the host)"
	}
	p, perr := strconv.ParseUint(op, 10, 16)
	if perr != nil {
		return ip, 0, "bad-port", strconv.Quote(s) + ": the port is not a uint16"
	}
	ok, inBlock, inAllow := pp.permitted(ip)
	if !ok {
		problem = "blocklisted"
		if len(pp.allow) > 0 {
			problem = "outside-allowlist"
		}
		return ip, int(p), problem, fmt.Sprintf("%q: inBlocklist=%v inAllowlist=%v", s, inBlock, inAllow)
	}
	return ip, int(p), "", ""
}

// dial runs the real Proxy on a stored registration after the names were re-pointed and reports the
// destination of every connection it made and the DNS queries it caused.
func (w *c06World) dial(stored *DecoyRegistration) (dests []*net.TCPAddr, dnsQueries int) {
	w.dns.beginCall()
	w.dns.gen.Store(1)
	w.rec.drain()
	q0 := w.dns.totalQueries()
	client, station := net.Pipe()
	done := make(chan struct{})
	go func() {
		defer close(done)
		defer func() { _ = recover() }()
		Proxy(stored, station, w.logger)
	}()
	select {
	case a := <-w.rec.ch:
		dests = append(dests, a)
	case <-done:
	case <-time.After(10 * time.Second):
	}
	client.Close()
	select {
	case <-done:
	case <-time.After(10 * time.Second):
	}
	station.Close()
	dests = append(dests, w.rec.drain()...)
	return dests, w.dns.totalQueries() - q0
}

// mayDial: the harness only lets the real Proxy dial when the connection cannot leave the machine
func (w *c06World) mayDial(covert string) bool {
	h, p, err := net.SplitHostPort(covert)
	if err != nil {
		return false
	}
	port, perr := strconv.ParseUint(p, 10, 16)
	if perr != nil || !w.rec.ports[int(port)] {
		return false
	}
	if w.rec.anyIP {
		return true // private namespace: every destination is local, names resolve in-process
	}
	ip := net.ParseIP(h)
	return ip != nil && (ip.IsLoopback() || ip.IsUnspecified())
}

// runC06 runs one covert string under one policy and DNS generation; dup is the covert string of the
// registration that is re-sent for the same session afterwards ("\x00" = none).
func (w *c06World) runC06(out *vlib.Out, pp *c06Parsed, provided string, gen int, dup string) {
	w.dns.gen.Store(int64(gen))
	conf := pp.conf
	replay := fmt.Sprintf("c06|gen=%d|%s|%s|%s", gen, pp.pol.String(), hex.EncodeToString([]byte(provided)), hex.EncodeToString([]byte(dup)))
	how := ""
	if pp.chain != "" {
		replay = fmt.Sprintf("c06r|gen=%d|%s|%s|%s", gen, pp.chain, hex.EncodeToString([]byte(provided)), hex.EncodeToString([]byte(dup)))
		how = " (the policy of the last configuration that loaded; start-up policy and reloads `<failed steps c/s/g>!<policy>`: " + pp.chain + ")"
	}
	fail := func(sig, what string) {
		c06Fail(out, sig, what+" — covert "+strconv.Quote(provided)+" policy "+pp.pol.String()+how, replay)
	}

	// ---- the answers of the standard library (oracle parameters of the model)
	a := w.answers(conf, provided)
	host, port, splitErr := a.host, a.port, a.splitErr

	// ---- the implementation
	w.dns.gen.Store(int64(gen))
	w.dns.beginCall()
	q0 := w.dns.totalQueries()
	got, lookup := conf.ParseOrResolveBlocklisted(provided)
	n1 := w.dns.totalQueries() - q0
	sec := w.newSecret()
	reg := w.newReg(provided, sec)
	w.dns.beginCall()
	q1 := w.dns.totalQueries()
	pp.rm.ingestRegistration(reg)
	n2 := w.dns.totalQueries() - q1
	first := pp.rm.registeredDecoys.RegistrationExists(reg)
	firstValid := first != nil && first.Valid
	firstCovert := ""
	if first != nil {
		firstCovert = first.Covert
	}
	annF := pp.checkAnnounced(out, fail, got)
	// ---- the same session registers again with another covert string
	dupF := "-"
	if dup != "\x00" {
		dupF = "D"
		w.dns.beginCall()
		pp.rm.ingestRegistration(w.newReg(dup, sec))
		pp.checkAnnounced(out, fail, "")
	}
	stored := pp.rm.registeredDecoys.RegistrationExists(reg)
	// the `valid` / stored-covert fields of the line are what the real GetRegistrations hands a connection handler
	stored = c06Visible(out, pp.rm, reg, stored, fail)
	valid := stored != nil
	storedF := "-"
	if valid {
		storedF = c06Hex(stored.Covert)
	}
	// ---- names are re-pointed, then the stored registration is dialed by the real Proxy
	var dests []*net.TCPAddr
	dialDNS, dialed := 0, false
	dialIn, dialOut := "-", "-"
	if valid && w.mayDial(stored.Covert) {
		dialed = true
		dests, dialDNS = w.dial(stored)
		if len(dests) > 0 || dialDNS > 0 {
			// what the standard library says about the string that was handed to net.Dial
			sh, sp, _ := net.SplitHostPort(stored.Covert)
			hostIsIP := net.ParseIP(sh) != nil
			unspec := false
			if hostIsIP {
				unspec = net.ParseIP(sh).IsUnspecified()
				sh = net.ParseIP(sh).String()
			}
			if pn, err := strconv.ParseUint(sp, 10, 16); err == nil {
				sp = strconv.FormatUint(pn, 10)
			}
			dialIn = "O," + c06Hex(sh) + "," + sp + "," + vlib.B(hostIsIP) + "," + vlib.B(unspec)
			switch {
			case dialDNS > 0:
				dialOut = "R"
			case len(dests) == 1:
				dialOut = "L," + c06Hex(dests[0].IP.String()) + "," + strconv.Itoa(dests[0].Port)
			default:
				dialOut = "M"
			}
		}
	}
	lookups := strconv.Itoa(n1)
	if a.dnsPerRes > 0 {
		if n1%a.dnsPerRes == 0 {
			lookups = strconv.Itoa(n1 / a.dnsPerRes)
		} else {
			lookups = fmt.Sprintf("%d/%d", n1, a.dnsPerRes)
		}
	}
	line := "covert|" + vlib.B(conf.enableCovertAllowlist) + "|" + strings.Join(a.fields, "|") + "|" + dupF + "|" + dialIn + "|" + vlib.B(a.dnsPerRes > 0)
	out.Case(line, c06Hex(got)+"|"+vlib.B(lookup)+"|"+lookups+"|"+storedF+"|"+vlib.B(valid)+"|"+dialOut+"|"+annF, got != "")

	// ---- property oracle, evaluated on the OUTPUT string with the real library
	out.Checked()
	var checkedIP net.IP
	checkedPort := 0
	if got == "" {
		out.Count("out:rejected")
		if firstValid {
			fail("C06:rejected-covert-registered", "the covert was rejected but the registration became valid with covert "+strconv.Quote(firstCovert))
		}
	} else {
		out.Count("out:accepted")
		ip, p, problem, detail := pp.literal(got)
		checkedIP, checkedPort = ip, p
		if problem != "" {
			fail("C06:accepted-"+problem, "accepted as "+detail)
		} else {
			if _, inBlock, _ := pp.permitted(ip); inBlock {
				// documented override: an allowlisted address inside a blocklisted subnet (not an alarm)
				out.Count("policy:allowlist-overrides-blocklist")
			}
			// the standard-library contracts the theorem accepted_parses_back is stated under:
			// SplitHostPort(JoinHostPort(ip.String(), port)) and ParseIP(ip.String()) give the address back.
			// A literal in another textual form is still a literal (no alarm; the correspondence shows it).
			oh, op, _ := net.SplitHostPort(got)
			if net.JoinHostPort(ip.String(), op) != got || !net.ParseIP(ip.String()).Equal(ip) || oh != ip.String() {
				out.Count("out:literal-not-in-canonical-text")
			}
		}
		if splitErr != nil || pp.domainBlocked(host) {
			fail("C06:accepted-blocked-domain", "accepted although the host "+strconv.Quote(host)+" matches a blocklisted pattern or does not split")
		}
		if !firstValid {
			fail("C06:accepted-not-admitted", "the covert was accepted but the registration did not become valid")
		} else if firstCovert != got {
			fail("C06:stored-differs", "the registration stores "+strconv.Quote(firstCovert)+" but the checked address was "+strconv.Quote(got))
		}
	}
	// ---- a re-sent registration changes neither validity nor the checked address
	if dup != "\x00" {
		out.Checked()
		switch {
		case !firstValid && valid:
			fail("C06:rejected-covert-registered", "after the session registered again with covert "+strconv.Quote(dup)+" the registration became valid with covert "+strconv.Quote(stored.Covert))
		case firstValid && !valid:
			out.Count("dup:invalidated") // not this property's concern (C07/C08)
		case firstValid && stored.Covert != firstCovert:
			fail("C06:resent-registration-changes-covert", "the registration stored the checked address "+strconv.Quote(firstCovert)+"; after the session registered again with covert "+
				strconv.Quote(dup)+" it stores "+strconv.Quote(stored.Covert)+", which was never checked")
		}
	}
	// ---- whatever is valid now must hold a permitted literal
	if valid {
		out.Checked()
		if _, _, problem, detail := pp.literal(stored.Covert); problem != "" {
			fail("C06:valid-registration-unchecked-covert:"+problem, "a valid registration holds the covert "+detail)
		}
	}
	// ---- the dial: every connection goes to the checked address, which policy permits; no DNS at dial time
	if dialed {
		out.Checked()
		if dialDNS > 0 {
			fail("C06:resolved-at-dial", fmt.Sprintf("the proxy sent %d DNS queries when dialing the stored covert %q", dialDNS, stored.Covert))
		}
		for _, d := range dests {
			out.Count("dial:recorded")
			if ok, inBlock, inAllow := pp.permitted(d.IP); !ok {
				sig := "C06:dialed-forbidden-address"
				if checkedIP != nil && checkedIP.IsUnspecified() {
					sig = "C06:unspecified-address-dials-local-host"
				}
				fail(sig, fmt.Sprintf("the proxy connected to %s (inBlocklist=%v inAllowlist=%v); checked address %q, stored covert %q", d, inBlock, inAllow, got, stored.Covert))
			} else if checkedIP != nil && (!d.IP.Equal(checkedIP) || d.Port != checkedPort) {
				sig := "C06:dialed-not-checked"
				if checkedIP.IsUnspecified() {
					sig = "C06:unspecified-address-dials-local-host"
				}
				fail(sig, fmt.Sprintf("the proxy connected to %s but the address that was checked is %q (stored covert %q)", d, got, stored.Covert))
			}
		}
		if len(dests) == 0 {
			out.Count("dial:no-connection")
		}
	}
	// ---- names are resolved once per admission: never more DNS traffic than one resolution of the host costs
	if n1 > a.dnsPerRes || n2 > a.dnsPerRes {
		fail("C06:resolved-more-than-once", fmt.Sprintf("%d / %d DNS queries for %q during one admission; one resolution costs %d", n1, n2, host, a.dnsPerRes))
	}
	// ---- a well-formed permitted literal is accepted unchanged
	if splitErr == nil {
		// (the unspecified address is not a destination address: net.Dial replaces it by the local system)
		if hip := net.ParseIP(host); hip != nil && !hip.IsUnspecified() && net.JoinHostPort(hip.String(), port) == provided {
			if _, perr := strconv.ParseUint(port, 10, 16); perr == nil && !pp.domainBlocked(host) {
				if ok, _, _ := pp.permitted(hip); ok {
					out.Count("oracle:permitted-literal")
					if got != provided || lookup {
						fail("C06:permitted-literal-changed", "a well-formed permitted literal came back as "+strconv.Quote(got)+fmt.Sprintf(" lookup=%v", lookup))
					}
				}
			}
		}
	}
	if lookup {
		out.Count("lookup:1")
	}
	out.Count("res:" + a.resKind)
}

// ---------------------------------------------------------------------------------------------
// the dial site: Proxy must hand the stored string to a Dial call verbatim, and nothing but the covert
// step of ingestRegistration may assign to a registration's Covert field (source facts; the dial
// itself is observed dynamically by the recorder).

func c06CheckDialSite(out *vlib.Out) {
	fset := token.NewFileSet()
	pkgs, err := parser.ParseDir(fset, ".", func(fi os.FileInfo) bool { return !strings.HasSuffix(fi.Name(), "_test.go") }, 0)
	if err != nil {
		c06Fail(out, "C06:dial-site-unreadable", err.Error(), "source")
		return
	}
	dialCovert, dialOther := 0, 0
	var assigns []string
	isRegCovert := func(e ast.Expr) bool {
		a, ok := e.(*ast.SelectorExpr)
		if !ok || a.Sel.Name != "Covert" {
			return false
		}
		r, ok := a.X.(*ast.Ident)
		return ok && r.Name == "reg"
	}
	for _, p := range pkgs {
		for fname, f := range p.Files {
			ast.Inspect(f, func(n ast.Node) bool {
				switch x := n.(type) {
				case *ast.FuncDecl:
					if x.Name.Name == "Proxy" && x.Recv == nil && x.Body != nil {
						ast.Inspect(x.Body, func(m ast.Node) bool {
							c, ok := m.(*ast.CallExpr)
							if !ok {
								return true
							}
							// any Dial* call: net.Dial, net.DialTimeout, (&net.Dialer{…}).DialContext, …
							if sel, ok := c.Fun.(*ast.SelectorExpr); ok && strings.HasPrefix(sel.Sel.Name, "Dial") {
								has := false
								for _, a := range c.Args {
									if isRegCovert(a) {
										has = true
									}
								}
								if has {
									dialCovert++
								} else {
									dialOther++
								}
							}
							return true
						})
					}
				case *ast.AssignStmt:
					for _, l := range x.Lhs {
						if sel, ok := l.(*ast.SelectorExpr); ok && sel.Sel.Name == "Covert" {
							assigns = append(assigns, fmt.Sprintf("%s:%d", fname, fset.Position(x.Pos()).Line))
						}
					}
				}
				return true
			})
		}
	}
	out.Checked()
	if dialCovert != 1 || dialOther != 0 {
		c06Fail(out, "C06:dial-site", fmt.Sprintf("Proxy does not dial reg.Covert verbatim exactly once (Dial* calls with reg.Covert: %d, other Dial* calls: %d)", dialCovert, dialOther), "source proxies.go")
	}
	sort.Strings(assigns)
	if len(assigns) != 1 || !strings.HasPrefix(assigns[0], "registration_ingest.go:") {
		c06Fail(out, "C06:covert-reassigned", "assignments to a Covert field outside the covert step of ingestRegistration: "+strings.Join(assigns, " "), "source")
	}
}

// ---------------------------------------------------------------------------------------------
// several ingest workers for ONE session, interleaved at the scheduling points of ingestRegistration

type c06Sched struct {
	cur    int
	parked chan int
	resume []chan struct{}
	point  []string
	fin    []bool
}

func (s *c06Sched) yield(point string) {
	i := s.cur
	s.point[i] = point
	s.parked <- i
	<-s.resume[i]
}

var c06WorkerCoverts = []string{"198.51.100.7:443", "10.1.2.3:443", "ok.test:443", "blocked.test:443", "rebind2.test:443", "rebind.test:443", "no port here", "127.0.0.1:443"}
var c06SchedPolicies = []c06Policy{
	{block: []string{"10.0.0.0/8", "127.0.0.0/8"}},
	{allow: []string{"198.51.100.0/24"}},
	{block: []string{"198.51.100.0/24"}, domains: []string{"^ok"}},
}

// runSched runs the workers (one covert string each, same secret) under the schedule (worker indices;
// a finished worker's turn is a no-op) and runs unfinished workers to completion afterwards.
func (w *c06World) runSched(out *vlib.Out, pol c06Policy, coverts []string, schedule []int) {
	pp := w.parsePolicy(pol)
	n := len(coverts)
	sec := w.newSecret()
	regs := make([]*DecoyRegistration, n)
	ans := make([]c06Answers, n)
	w.dns.gen.Store(0)
	for i, c := range coverts {
		regs[i] = w.newReg(c, sec)
		ans[i] = w.answers(pp.conf, c)
	}
	w.dns.gen.Store(0)
	var cs []string
	for _, c := range coverts {
		cs = append(cs, hex.EncodeToString([]byte(c)))
	}
	var ss []string
	for _, x := range schedule {
		ss = append(ss, strconv.Itoa(x))
	}
	replay := fmt.Sprintf("c06sched|%s|%s|%s", pol.String(), strings.Join(cs, ","), strings.Join(ss, ""))
	fail := func(sig, what string) {
		c06Fail(out, sig, what+" — workers "+strconv.Quote(strings.Join(coverts, " | "))+" schedule "+strings.Join(ss, "")+" policy "+pol.String(), replay)
	}
	s := &c06Sched{parked: make(chan int), resume: make([]chan struct{}, n), point: make([]string, n), fin: make([]bool, n)}
	for i := range s.resume {
		s.resume[i] = make(chan struct{})
	}
	verifhook.SetScheduler(s.yield)
	defer verifhook.SetScheduler(nil)
	for i := 0; i < n; i++ {
		go func(i int) {
			<-s.resume[i]
			func() {
				defer func() { _ = recover() }()
				pp.rm.ingestRegistration(regs[i])
			}()
			s.fin[i] = true
			s.parked <- i
		}(i)
	}
	var full, order []int
	checkState := func(when string) {
		st := pp.rm.registeredDecoys.RegistrationExists(regs[0])
		st = c06Visible(out, pp.rm, regs[0], st, fail)
		out.Checked()
		if st != nil {
			if _, _, problem, detail := pp.literal(st.Covert); problem != "" {
				fail("C06:valid-registration-unchecked-covert:"+problem, when+": a valid registration (returned for connections) holds the covert "+detail)
			}
		}
	}
	turn := func(i int) {
		full = append(full, i)
		if s.fin[i] {
			return
		}
		if s.point[i] == "ingest:after-track" && ans[i].consumes {
			order = append(order, i) // this segment holds the worker's covert check (one resolver answer)
		}
		w.dns.beginCall()
		s.cur = i
		s.resume[i] <- struct{}{}
		<-s.parked
		checkState(fmt.Sprintf("after step %d (worker %d)", len(full), i))
	}
	for _, i := range schedule {
		turn(i)
	}
	for i := 0; i < n; i++ {
		for !s.fin[i] {
			turn(i)
		}
	}
	verifhook.SetScheduler(nil)
	stored := pp.rm.registeredDecoys.RegistrationExists(regs[0])
	valid := stored != nil && stored.Valid
	storedF, ptr := "-", "-"
	if stored != nil {
		ptr = "?"
		for i := range regs {
			if regs[i] == stored {
				ptr = strconv.Itoa(i)
			}
		}
	}
	if valid {
		storedF = c06Hex(stored.Covert)
	}
	var fs, os2 []string
	for _, x := range full {
		fs = append(fs, strconv.Itoa(x))
	}
	for _, x := range order {
		os2 = append(os2, strconv.Itoa(x))
	}
	ord := strings.Join(os2, "")
	if ord == "" {
		ord = "-"
	}
	line := "csched|" + vlib.B(pp.conf.enableCovertAllowlist) + "|" + strings.Join(fs, "") + "|" + ord
	for i := range ans {
		line += "|W|" + strings.Join(ans[i].fields, "|")
	}
	out.Case(line, storedF+"|"+vlib.B(valid)+"|"+ptr, valid)
	out.Count("sched:runs")
	pp.checkAnnounced(out, fail, "")
	// the dial of what is valid at the end, after the names were re-pointed
	if valid && w.mayDial(stored.Covert) {
		dests, dialDNS := w.dial(stored)
		out.Checked()
		if dialDNS > 0 {
			fail("C06:resolved-at-dial", fmt.Sprintf("the proxy sent %d DNS queries when dialing the stored covert %q", dialDNS, stored.Covert))
		}
		for _, d := range dests {
			out.Count("dial:recorded")
			if ok, inBlock, inAllow := pp.permitted(d.IP); !ok {
				fail("C06:dialed-forbidden-address", fmt.Sprintf("the proxy connected to %s (inBlocklist=%v inAllowlist=%v), stored covert %q", d, inBlock, inAllow, stored.Covert))
			}
		}
	}
}

// all interleavings of the workers' segments (worker i has segs[i] segments)
func c06Interleavings(segs []int) [][]int {
	var res [][]int
	var rec func(cur []int, left []int)
	rec = func(cur []int, left []int) {
		doneAll := true
		for i, l := range left {
			if l > 0 {
				doneAll = false
				left[i]--
				rec(append(cur, i), left)
				left[i]++
			}
		}
		if doneAll {
			res = append(res, append([]int(nil), cur...))
		}
	}
	rec(nil, append([]int(nil), segs...))
	return res
}

// ---------------------------------------------------------------------------------------------

func TestVerifC06(t *testing.T) {
	inNetns := os.Getenv(c06NetnsEnv) == "1"
	if !inNetns && os.Getenv(c06NetnsEnv) != "0" {
		if c06RunInNetns(t) {
			return
		}
	}
	if inNetns && !c06SetupNetns() {
		os.Exit(77)
	}
	out := vlib.Open("C06")
	defer out.Close()
	w := &c06World{t: t, dns: newC06DNS(), logger: log.New(io.Discard, "", golog.Ldate), ifaces: c06InterfaceNets()}
	w.rec = newC06Recorder(inNetns, out)
	for k, v := range c06Script {
		w.dns.script[k] = v
	}
	if inNetns {
		out.Count("dial-recorder:every-address-local")
	} else {
		out.Note("no private network namespace available: the dial recorder observes loopback destinations only")
		out.Count("dial-recorder:loopback-only")
	}
	if rp := vlib.Replay(); rp != "" {
		w.replay(t, out, rp)
		return
	}
	// source facts last: a dynamic failure, which comes with an executable replay, is reported first
	defer c06CheckDialSite(out)

	r := vlib.NewRand("C06")
	freePort := strconv.Itoa(w.rec.freePort())
	pickDup := func(port string) string {
		if !r.Chance(2, 3) {
			return "\x00"
		}
		p, err := strconv.ParseUint(port, 10, 16)
		if err != nil {
			p = 443
		}
		s := c06DupPool[r.Intn(len(c06DupPool))]
		if strings.Contains(s, "%d") {
			s = fmt.Sprintf(s, p)
		}
		return s
	}

	// ---- several workers for one session: every interleaving of two workers over all ordered pairs of
	// covert strings; three workers on sampled schedules
	two := c06Interleavings([]int{4, 4})
	for pi, pol := range c06SchedPolicies {
		for a := range c06WorkerCoverts {
			for b := range c06WorkerCoverts {
				for si, sch := range two {
					// quick tier: every schedule for the first policy, a third of them for the others
					if vlib.Tier() != "thorough" && pi > 0 && (si+a+b)%3 != 0 {
						continue
					}
					w.runSched(out, pol, []string{c06WorkerCoverts[a], c06WorkerCoverts[b]}, sch)
				}
			}
		}
	}
	for i, n3 := 0, vlib.Budget(300, 30000); i < n3; i++ {
		var sch []int
		for len(sch) < 12 {
			sch = append(sch, r.Intn(3))
		}
		cov := []string{c06WorkerCoverts[r.Intn(len(c06WorkerCoverts))], c06WorkerCoverts[r.Intn(len(c06WorkerCoverts))], c06WorkerCoverts[r.Intn(len(c06WorkerCoverts))]}
		w.runSched(out, c06SchedPolicies[r.Intn(len(c06SchedPolicies))], cov, sch)
	}

	// ---- exhaustive: every host × port × framing under the fixed policies (generation 0), a subset under generation 1
	var fixed []*c06Parsed
	for _, p := range c06FixedPolicies {
		fixed = append(fixed, w.parsePolicy(p))
	}
	nPol := len(fixed)
	if vlib.Tier() != "thorough" {
		nPol = 6
	}
	ports := append(append([]string(nil), c06Ports...), freePort)
	for pi, pp := range fixed {
		// quick tier: the fixed policies beyond the first nPol get a random third of the grid
		for _, h := range c06Hosts {
			for _, p := range ports {
				for f := 0; f < 6; f++ {
					if f >= 3 && p != "80" {
						continue // port-less framings once per host
					}
					if pi >= nPol && !r.Chance(1, 3) {
						continue
					}
					w.runC06(out, pp, c06Frame(h, p, f), 0, pickDup(p))
				}
			}
			if strings.HasPrefix(h, "rebind") || strings.HasPrefix(h, "multi") {
				w.runC06(out, pp, c06Frame(h, "443", 0), 1, pickDup("443"))
			}
		}
		// keep the tracked-registration map small
		fixed[pi] = w.parsePolicy(pp.pol)
	}

	// ---- the transport kind: connecting transports (dial-back) next to wrapping ones, every registration source
	w.dialbackPart(out, r, freePort)

	// ---- configurations put in force by reloads, every subset of loading steps failing
	w.reloadPart(out, r, freePort)

	// ---- the address-literal functions of the standard library next to their Lean models; admission of literals
	// decided from the text of configuration and covert string alone (its own random stream)
	w.netAddrPart(out, vlib.NewRand("C06na"))

	// ---- random policies × random / mutated covert strings
	n := vlib.Budget(6000, 600000)
	var pp *c06Parsed
	for i := 0; i < n; i++ {
		if i%40 == 0 {
			pp = w.parsePolicy(c06RandomPolicy(r))
		}
		var s string
		port := []string{"80", "443", freePort, "65535"}[r.Intn(4)]
		switch k := r.Intn(10); {
		case k < 3:
			s = c06Frame(c06Hosts[r.Intn(len(c06Hosts))], c06Ports[r.Intn(len(c06Ports))], r.Intn(3))
		case k < 5:
			// a grid host with a port the recorder listens on
			s = c06Frame(c06Hosts[r.Intn(len(c06Hosts))], port, r.Intn(3))
		case k < 7:
			// random literal in a random textual form
			if r.Bool() {
				port = strconv.Itoa(r.Intn(70000))
			}
			s = c06Frame(c06RandomLiteral(r), port, r.Intn(2))
		case k < 9:
			// mutate a valid string: flip / insert / delete one byte
			b := []byte(c06Frame(c06Hosts[r.Intn(len(c06Hosts))], "443", 0))
			if len(b) > 0 {
				switch r.Intn(3) {
				case 0:
					b[r.Intn(len(b))] = "[]:%.0 x\x00"[r.Intn(9)]
				case 1:
					j := r.Intn(len(b) + 1)
					b = append(b[:j], append([]byte{"[]:%.0 x\x00"[r.Intn(9)]}, b[j:]...)...)
				default:
					j := r.Intn(len(b))
					b = append(b[:j], b[j+1:]...)
				}
			}
			s = string(b)
		default:
			s = string(r.Bytes(r.Intn(24)))
		}
		w.runC06(out, pp, s, r.Intn(2), pickDup(port))
	}
}

func c06RandomLiteral(r *vlib.Rand) string {
	if r.Bool() {
		ip := net.IP(r.Bytes(4))
		switch r.Intn(6) {
		case 0:
			return "::ffff:" + ip.String()
		case 1:
			return fmt.Sprintf("::ffff:%x:%x", uint16(ip[0])<<8|uint16(ip[1]), uint16(ip[2])<<8|uint16(ip[3]))
		case 2, 3:
			// one of the policy-relevant networks
			return []string{"10.", "127.", "198.51.100.", "192.0.2.", "203.0.113."}[r.Intn(5)] + strconv.Itoa(r.Intn(256)) + []string{"", ".1", ".2.3"}[r.Intn(3)]
		default:
			return ip.String()
		}
	}
	b := r.Bytes(16)
	switch r.Intn(4) {
	case 0:
		copy(b, []byte{0x20, 0x01, 0x0d, 0xb8, 0, 1})
	case 1:
		copy(b, []byte{0xfe, 0x80, 0, 0, 0, 0, 0, 0})
	case 2:
		for i := 0; i < 10; i++ {
			b[i] = 0
		}
	}
	ip := net.IP(b)
	switch r.Intn(4) {
	case 0:
		return strings.ToUpper(ip.String())
	case 1:
		// fully expanded
		var parts []string
		for i := 0; i < 16; i += 2 {
			parts = append(parts, fmt.Sprintf("%04x", uint16(b[i])<<8|uint16(b[i+1])))
		}
		return strings.Join(parts, ":")
	case 2:
		return ip.String() + "%" + []string{"lo", "eth0", "1"}[r.Intn(3)]
	default:
		return ip.String()
	}
}

func c06ParsePolicy(s string) c06Policy {
	var p c06Policy
	for _, part := range strings.Split(s, ";") {
		kv := strings.SplitN(part, "=", 2)
		if len(kv) != 2 || kv[1] == "" {
			continue
		}
		switch kv[0] {
		case "B":
			p.block = strings.Split(kv[1], ",")
		case "A":
			p.allow = strings.Split(kv[1], ",")
		case "D":
			p.domains = strings.Split(kv[1], ",")
		case "P":
			p.public = kv[1] == "1"
		}
	}
	return p
}

// replay re-runs `c06|gen=G|B=…;A=…;D=…|<covert hex>|<re-sent covert hex>` and
// `c06sched|<policy>|<covert hex>,…|<schedule>` lines of a replay file.
func (w *c06World) replay(t *testing.T, out *vlib.Out, path string) {
	b, err := os.ReadFile(path)
	if err != nil {
		t.Fatal(err)
	}
	for _, line := range strings.Split(string(b), "\n") {
		switch {
		case strings.HasPrefix(line, "c06sched|"):
			f := strings.SplitN(line, "|", 4)
			if len(f) != 4 {
				t.Fatalf("bad replay line %q", line)
			}
			var coverts []string
			for _, h := range strings.Split(f[2], ",") {
				c, err := hex.DecodeString(h)
				if err != nil {
					t.Fatalf("bad covert hex in %q", line)
				}
				coverts = append(coverts, string(c))
			}
			var sch []int
			for _, ch := range f[3] {
				sch = append(sch, int(ch-'0'))
			}
			pol := c06ParsePolicy(f[1])
			w.runSched(out, pol, coverts, sch)
			fmt.Printf("REPLAY workers %q schedule %s policy %s\n", coverts, f[3], pol.String())
		case strings.HasPrefix(line, "c06na|"):
			if !w.netAddrReplay(out, line) {
				t.Fatalf("bad replay line %q", line)
			}
		case strings.HasPrefix(line, "c06db|"):
			f := strings.Split(line, "|")
			if len(f) != 7 {
				t.Fatalf("bad replay line %q", line)
			}
			gen, _ := strconv.Atoi(strings.TrimPrefix(f[1], "gen="))
			cov, err := hex.DecodeString(f[3])
			src, err2 := strconv.Atoi(f[4])
			dup, err3 := hex.DecodeString(f[6])
			if err != nil || err2 != nil || err3 != nil {
				t.Fatalf("bad replay line %q", line)
			}
			w.dialbackSetup()
			w.settle()
			if w.idleGoroutines == 0 {
				w.idleGoroutines = runtime.NumGoroutine()
			}
			pp := w.dialbackManager(c06ParsePolicy(f[2]))
			w.runDialback(out, pp, string(cov), gen, int32(src), f[5] == "1", string(dup))
			fmt.Printf("REPLAY registration message with covert %q from source %d for the %s transport, policy %s (then the session registered again with %q)\n", cov, src,
				map[bool]string{true: "connecting", false: "wrapping"}[f[5] == "1"], f[2], dup)
		case strings.HasPrefix(line, "c06r|"):
			f := strings.Split(line, "|")
			if len(f) != 5 {
				t.Fatalf("bad replay line %q", line)
			}
			gen, _ := strconv.Atoi(strings.TrimPrefix(f[1], "gen="))
			start, steps, ok := c06ParseChain(f[2])
			cov, err1 := hex.DecodeString(f[3])
			d, err2 := hex.DecodeString(f[4])
			if !ok || err1 != nil || err2 != nil {
				t.Fatalf("bad replay line %q", line)
			}
			ch := w.newChain(start)
			for _, st := range steps {
				w.reload(out, ch, st)
			}
			w.runReloaded(out, ch, string(cov), gen, string(d))
			w.dns.gen.Store(int64(gen))
			w.dns.beginCall()
			got, lookup := ch.pp.rm.ParseOrResolveBlocklisted(string(cov))
			fmt.Printf("REPLAY covert %q after start-up policy and reloads %s: configuration in force %d (%s), installed lists %s -> %q lookup=%v\n", cov, f[2], ch.inForce,
				ch.pp.pol.String(), c06LiveIndex(ch.pp.conf, len(ch.steps)), got, lookup)
		case strings.HasPrefix(line, "c06|"):
			f := strings.SplitN(line, "|", 5)
			if len(f) < 4 {
				t.Fatalf("bad replay line %q", line)
			}
			gen, _ := strconv.Atoi(strings.TrimPrefix(f[1], "gen="))
			p := c06ParsePolicy(f[2])
			cov, err := hex.DecodeString(f[3])
			if err != nil {
				t.Fatalf("bad covert hex in %q", line)
			}
			dup := "\x00"
			if len(f) == 5 {
				d, err := hex.DecodeString(f[4])
				if err != nil {
					t.Fatalf("bad covert hex in %q", line)
				}
				dup = string(d)
			}
			pp := w.parsePolicy(p)
			w.runC06(out, pp, string(cov), gen, dup)
			w.dns.gen.Store(int64(gen))
			w.dns.beginCall()
			got, lookup := pp.conf.ParseOrResolveBlocklisted(string(cov))
			fmt.Printf("REPLAY covert %q policy %s -> %q lookup=%v (then the session registered again with %q)\n", cov, p.String(), got, lookup, dup)
		}
	}
}
